/-
M-CONC, part 2: `AtomicArena` as a thread-indexed transition system (sequentially consistent).

One transition = one atomic operation of the Rust code (the operation that follows the hook
`verif_hook::yield_point(label, …)` of the same name):

  add_get        add.fetch_add      s = next.fetch_add(1); assert!(s >= MIN_SIZE); (a,b) = index(s)
  slice_for_slot add.load_bucket    p = buckets[a].load(Acquire); null → slow path
  …_slow         slow.lock          bucket_alloc_mutex.lock()          (blocked while held: stutter)
                 slow.recheck       p = buckets[a].load(Relaxed); null → Vec::with_capacity(cap) (fresh allocation)
                 slow.unlock_found  `return curr` drops the guard
                 slow.store         buckets[a].store(ptr, Release)
                 slow.unlock        drop(lock)
  add_get        add.write          *e_ptr.add(b) = element;  returns Ref(s)
  get            get.check          debug build: l = next.load(); debug_assert!(i < l)
                 get.load_bucket    p = buckets[a].load(Relaxed)        (never allocates)
                 get.read           &*p.add(b)
  len            len.load           next.load() - MIN_SIZE
  Drop           (exclusive access: `dropArena`, a function of the final state)

Memory is a set of allocations (`AllocId`); a bucket pointer is `Option AllocId`; a slot is
`Option Elem` (`none` = uninitialised `MaybeUninit`).  A write goes through the pointer the
writer *loaded*, a read through the pointer the reader loaded — so an allocation that was
replaced by a racing allocation would lose its slots in this model, exactly as in the code.

Every panic / UB of the modelled code is an explicit outcome: `Pc.panicked` (wraparound
`assert!`, `len` underflow), `GetRes.debugPanic/null/uninit/oob`, `DropRes.panicNull/ub`.

Ghost components (never read by a transition): `hist`, `stores`, the `exp` field of the `get`
program counters, `base`.
-/
import IsoVerif.Model.Arena

namespace IsoVerif.ArenaT
open IsoVerif.Arena IsoVerif.Gen.ArenaConsts

abbrev Tid := Nat
abbrev Elem := Nat
abbrev AllocId := Nat

/-- `2^32`: `next_biased_index` is an `AtomicU32`. -/
def W : Nat := 2 ^ 32

/-- Outcome of `get`. -/
inductive GetRes
  | ok (v : Elem)
  | debugPanic        -- `debug_assert!(i < l)` failed
  | oob               -- `buckets.get_unchecked(a)` with `a ≥ NUM_SIZES` (UB)
  | null              -- dereference of a null bucket pointer (UB)
  | uninit            -- read of an uninitialised slot (UB)
  deriving DecidableEq, Repr

/-- Program counter + locals of one thread.  `v` element being added, `i` the reserved biased
index, `p` a bucket pointer. -/
inductive Pc
  | idle
  | addFetch (v : Elem)
  | addLoad (v : Elem) (i : Nat)
  | slowLock (v : Elem) (i : Nat)
  | slowRecheck (v : Elem) (i : Nat)
  | slowUnlockFound (v : Elem) (i : Nat) (p : AllocId)
  | slowStore (v : Elem) (i : Nat) (p : AllocId)
  | slowUnlock (v : Elem) (i : Nat) (p : AllocId)
  | addWrite (v : Elem) (i : Nat) (p : AllocId)
  | getCheck (r : Nat) (exp : Option Elem)
  | getLoad (r : Nat) (exp : Option Elem)
  | getRead (r : Nat) (exp : Option Elem) (p : Option (Option AllocId))
  | lenLoad
  | panicked
  deriving DecidableEq, Repr

/-- Completed operations, newest first. -/
inductive Ev
  | addRet (t : Tid) (v : Elem) (r : Nat)
  /-- `exp = some v`: when this `get` started, an `add` had already returned `r` for element `v`. -/
  | getRet (t : Tid) (r : Nat) (exp : Option Elem) (res : GetRes)
  | lenRet (t : Tid) (n : Nat)
  deriving DecidableEq, Repr

inductive Act
  | startAdd (v : Elem)
  | startGet (r : Nat)
  | startLen
  | step
  deriving DecidableEq, Repr

structure St where
  /-- number of `fetch_add`s so far + initial value; the `AtomicU32` holds `next % 2^32` -/
  next : Nat
  bucket : Nat → Option AllocId
  mem : AllocId → Nat → Option Elem
  nextAlloc : AllocId
  mutex : Option Tid
  thr : Tid → Pc
  hist : List Ev
  /-- ghost: every `buckets[a].store(p)`, newest first -/
  stores : List (Nat × AllocId)
  /-- ghost: the initial value of `next` -/
  base : Nat

def upd {α : Type} (f : Nat → α) (k : Nat) (v : α) : Nat → α := fun x => if x = k then v else f x

def upd2 {α : Type} (f : Nat → Nat → α) (k j : Nat) (v : α) : Nat → Nat → α :=
  fun x y => if x = k ∧ y = j then v else f x y

/-- `AtomicArena::new()` -/
def init : St :=
  { next := initNext, bucket := fun _ => none, mem := fun _ _ => none, nextAlloc := 0,
    mutex := none, thr := fun _ => .idle, hist := [], stores := [], base := initNext }

/-- `AtomicArena::with_zero(z)`: the last bucket is the static array (allocation 0) whose slot 0
holds the zero element. -/
def initZero (z : Elem) : St :=
  { next := initNextZero, bucket := fun a => if a = numSizes - 1 then some 0 else none,
    mem := fun p b => if p = 0 ∧ b = 0 then some z else none, nextAlloc := 1,
    mutex := none, thr := fun _ => .idle, hist := [], stores := [], base := initNextZero }

/-- the element of the `add` that returned `r`, if any (ghost lookup in the history) -/
def completed : List Ev → Nat → Option Elem
  | [], _ => none
  | .addRet _ v r' :: rest, r => if r' = r then some v else completed rest r
  | _ :: rest, r => completed rest r

def setPc (s : St) (t : Tid) (pc : Pc) : St := { s with thr := upd s.thr t pc }

/-- One atomic step of thread `t`.  `none`: the action is not possible in this state (starting
an operation while one is running, stepping an idle or dead thread). -/
def step (s : St) (t : Tid) : Act → Option St
  | .startAdd v => if s.thr t = .idle then some (setPc s t (.addFetch v)) else none
  | .startGet r =>
      if s.thr t = .idle ∧ 0 < r ∧ r < W then some (setPc s t (.getCheck r (completed s.hist r))) else none
  | .startLen => if s.thr t = .idle then some (setPc s t .lenLoad) else none
  | .step =>
    match s.thr t with
    | .idle => none
    | .panicked => none
    | .addFetch v =>
        let i := s.next % W
        let s1 := { s with next := s.next + 1 }
        if minSize ≤ i then some (setPc s1 t (.addLoad v i)) else some (setPc s1 t .panicked)
    | .addLoad v i =>
        match s.bucket (idxA i) with
        | some p => some (setPc s t (.addWrite v i p))
        | none => some (setPc s t (.slowLock v i))
    | .slowLock v i =>
        match s.mutex with
        | none => some (setPc { s with mutex := some t } t (.slowRecheck v i))
        | some _ => some s
    | .slowRecheck v i =>
        match s.bucket (idxA i) with
        | some p => some (setPc s t (.slowUnlockFound v i p))
        | none => some (setPc { s with nextAlloc := s.nextAlloc + 1 } t (.slowStore v i s.nextAlloc))
    | .slowUnlockFound v i p => some (setPc { s with mutex := none } t (.addWrite v i p))
    | .slowStore v i p =>
        some (setPc { s with bucket := upd s.bucket (idxA i) (some p), stores := (idxA i, p) :: s.stores }
                t (.slowUnlock v i p))
    | .slowUnlock v i p => some (setPc { s with mutex := none } t (.addWrite v i p))
    | .addWrite v i p =>
        some (setPc { s with mem := upd2 s.mem p (idxB i) (some v), hist := .addRet t v i :: s.hist } t .idle)
    | .getCheck r exp =>
        if r < s.next % W then some (setPc s t (.getLoad r exp))
        else some (setPc { s with hist := .getRet t r exp .debugPanic :: s.hist } t .panicked)
    | .getLoad r exp =>
        if idxA r < numSizes then some (setPc s t (.getRead r exp (some (s.bucket (idxA r)))))
        else some (setPc s t (.getRead r exp none))
    | .getRead r exp q =>
        let res : GetRes := match q with
          | none => .oob
          | some none => .null
          | some (some p) => match s.mem p (idxB r) with
            | some v => .ok v
            | none => .uninit
        some (setPc { s with hist := .getRet t r exp res :: s.hist } t .idle)
    | .lenLoad =>
        if minSize ≤ s.next % W then
          some (setPc { s with hist := .lenRet t (s.next % W - minSize) :: s.hist } t .idle)
        else some (setPc s t .panicked)

structure Label where
  t : Tid
  a : Act
  deriving DecidableEq, Repr

/-- Run a trace; `none` when some label is not possible. -/
def run (s : St) : List Label → Option St
  | [] => some s
  | l :: ls => match step s l.t l.a with
    | some s' => run s' ls
    | none => none

/-- `len()` as a function of the state (what `len.load` would return now). -/
def len (s : St) : Nat := s.next % W - minSize

def Quiescent (s : St) : Prop := ∀ t, s.thr t = .idle

/-- references returned by completed `add`s, newest first -/
def addRefs : List Ev → List Nat
  | [] => []
  | .addRet _ _ r :: rest => r :: addRefs rest
  | _ :: rest => addRefs rest

/-- results of completed `len()` calls, newest first -/
def lenVals : List Ev → List Nat
  | [] => []
  | .lenRet _ n :: rest => n :: lenVals rest
  | _ :: rest => lenVals rest

/-! ### Drop -/

inductive DropRes
  /-- elements dropped (in order) and allocations freed -/
  | ok (dropped : List Elem) (freed : List AllocId)
  /-- `panic!("Null bucket pointer before length.  Shouldn't happen.")` -/
  | panicNull
  /-- `Vec::from_raw_parts` over a slot that was never written (UB) -/
  | ub
  deriving DecidableEq, Repr

/-- the first `sz` slots of allocation `p`; `none` if one of them is uninitialised -/
def readSlots (mem : AllocId → Nat → Option Elem) (p : AllocId) : Nat → Option (List Elem)
  | 0 => some []
  | sz + 1 => match readSlots mem p sz, mem p sz with
    | some l, some v => some (l ++ [v])
    | _, _ => none

/-- The loop of `Drop`: buckets `numSizes-1, numSizes-2, …` down to `lastA` (`todo` counts the
buckets still to visit; `a` is the current bucket number). -/
def dropLoop (s : St) (lastA lastB : Nat) : Nat → Nat → List Elem → List AllocId → DropRes
  | 0, _, acc, freed => .ok acc freed
  | todo + 1, a, acc, freed =>
    match s.bucket a with
    | none => .panicNull
    | some p =>
      let sz := if a = lastA then lastB + 1 else bucketCapacity a
      match readSlots s.mem p sz with
      | none => .ub
      | some l => dropLoop s lastA lastB todo (a - 1) (acc ++ l) (freed ++ [p])

/-- `impl Drop for AtomicArena` (requires `&mut self`: no operation is in flight). -/
def dropArena (s : St) : DropRes :=
  let l := s.next % W
  if l = minSize then .ok [] []
  else
    let lastA := idxA (l - 1)
    let lastB := idxB (l - 1)
    dropLoop s lastA lastB (numSizes - lastA) (numSizes - 1) [] []

end IsoVerif.ArenaT
