/-
M-TEXT / signedsource: executable model of relay-crates/signedsource/src/lib.rs.

Text is UTF-8 bytes.  The literals (NEWTOKEN, SIGNING_TOKEN, the pieces of the regex RE, the
two slice offsets `+ 25` / `- 2`, and whether un-signing replaces the first or every match)
come from `IsoVerif.Gen.SignedLits`, which translator T7 regenerates from the Rust source on
every run.  The hash is a parameter `h : Bytes → Bytes` (MD5 hex in the real code).
-/
import IsoVerif.Model.Util
import IsoVerif.Gen.SignedLits

namespace IsoVerif.Signed
open IsoVerif.Util
open IsoVerif.Gen.SignedLits

/-- `str::contains` / `starts_with`. -/
def isPrefix : Bytes → Bytes → Bool
  | [], _ => true
  | _ :: _, [] => false
  | p :: ps, x :: xs => p == x && isPrefix ps xs

/-- `str::replace(pat, rep)`: leftmost, non-overlapping, all occurrences.  `fuel` = length. -/
def replaceAllAux (pat rep : Bytes) : Nat → Bytes → Bytes
  | 0, s => s
  | _ + 1, [] => []
  | n + 1, x :: xs =>
    if pat ≠ [] ∧ isPrefix pat (x :: xs) then rep ++ replaceAllAux pat rep n ((x :: xs).drop pat.length)
    else x :: replaceAllAux pat rep n xs

def replaceAll (pat rep s : Bytes) : Bytes := replaceAllAux pat rep s.length s

def containsAux (pat : Bytes) : Bytes → Bool
  | [] => isPrefix pat []
  | x :: xs => isPrefix pat (x :: xs) || containsAux pat xs

def contains (pat s : Bytes) : Bool := containsAux pat s

def isHex (b : UInt8) : Bool := (97 ≤ b && b ≤ 102) || (48 ≤ b && b ≤ 57)

/-- The regex `RE` matches at the head of `s`: prefix, `reHexLen` hex digits, suffix. -/
def matchHere (s : Bytes) : Bool :=
  isPrefix rePrefix s &&
  ((s.drop rePrefix.length).take reHexLen).length == reHexLen &&
  ((s.drop rePrefix.length).take reHexLen).all isHex &&
  isPrefix reSuffix (s.drop (rePrefix.length + reHexLen))

def matchLen : Nat := rePrefix.length + reHexLen + reSuffix.length

/-- Leftmost match position (`Regex::find`). -/
def firstMatchAux : Bytes → Nat → Option Nat
  | [], _ => none
  | x :: xs, i => if matchHere (x :: xs) then some i else firstMatchAux xs (i + 1)

def firstMatch (s : Bytes) : Option Nat := firstMatchAux s 0

def isSigned (s : Bytes) : Bool := (firstMatch s).isSome

/-- `sign`. -/
def signature (h : Bytes → Bytes) (data : Bytes) : Bytes := sigOpen ++ h data ++ sigClose

def sign (h : Bytes → Bytes) (data : Bytes) : Bytes :=
  replaceAll newToken (signature h data) data

def trySignFile (h : Bytes → Bytes) (data : Bytes) : Option Bytes :=
  if contains newToken data then some (sign h data) else none

/-- `RE.replace(data, SIGNING_TOKEN)` (first match only) or `replace_all`. -/
def unsignFirst (s : Bytes) : Bytes :=
  match firstMatch s with
  | none => s
  | some i => s.take i ++ signingToken ++ s.drop (i + matchLen)

def unsignAllAux : Nat → Bytes → Bytes
  | 0, s => s
  | _ + 1, [] => []
  | n + 1, x :: xs =>
    if matchHere (x :: xs) then signingToken ++ unsignAllAux n ((x :: xs).drop matchLen)
    else x :: unsignAllAux n xs

def unsign (s : Bytes) : Bytes :=
  if unsignReplacesAll then unsignAllAux s.length s else unsignFirst s

/-- `&data[mat.start() + 25 .. mat.end() - 2]`. -/
def actualHash (s : Bytes) (i : Nat) : Bytes :=
  (s.drop (i + hashSliceStart)).take (matchLen - hashSliceEndBack - hashSliceStart)

def isValidSignature (h : Bytes → Bytes) (s : Bytes) : Bool :=
  match firstMatch s with
  | none => false
  | some i => h (unsign s) == actualHash s i

end IsoVerif.Signed
