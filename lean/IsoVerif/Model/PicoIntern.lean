/-
M-PICO, interning layer: `intern_ref` (crates/pico/src/database.rs) on top of the core model.

A function of kind 3 is a *ref function*: its body is `call g e` and, after the call, the real
interpreter executes `intern_ref(db, &owner_value)` where `owner_value` is the reference returned by
`MemoRef::lookup` on the callee — a raw pointer INTO the callee's stored value.  The core model
already accounts for the call; this layer replays, from the core model's execution log, what
`intern_ref` does to its own derived node (identity = the VALUE, content = the POINTER):

  * vacant            → node created, pointer = the callee's current value box;
  * occupied, tv ≠ epoch → pointer replaced by the new address if different, tv := epoch;
  * occupied, tv = epoch → nothing (the pointer of the FIRST intern of this epoch stays — F19).

Every stored value lives in a box (allocation id): a new box when a node is created or its value
changes (`insert_derived_node`), the old one stays allocated until the next collection, which frees
every box that is not the current box of a kept node.  `whereIs v` is what the harness observes
by pointer identity; `dangling v` is the model's UB flag (a lookup would read freed memory).
-/
import IsoVerif.Model.Pico

namespace IsoVerif.Pico.Intern
open IsoVerif.Pico

structure INode where
  tv : Nat
  box : Nat
  deriving Repr, DecidableEq

structure Layer where
  boxOf : List (NodeId × Nat)
  nextBox : Nat
  live : List Nat
  /-- value ↦ the `intern_ref` node with that identity -/
  interned : List (Nat × INode)
  /-- ref node ↦ the value it interned during its last completed execution -/
  regs : List (NodeId × Nat)
  /-- values for which the client holds an interned `MemoRef` -/
  ever : List Nat
  deriving Repr

def Layer.init : Layer := ⟨[], 0, [], [], [], []⟩

def dedup : List NodeId → List NodeId
  | [] => []
  | x :: xs => if xs.contains x then dedup xs else x :: dedup xs

/-- the argument of the call in a ref function's body (`param` or a literal) -/
def argOf : Expr → Nat → Nat
  | .param, a => a
  | .lit n, _ => n
  | _, _ => 0

/-- did the execution of `n` run to completion during this operation? -/
def completed (s' : Storage) (n : NodeId) : Bool :=
  match alookup s'.derived n with
  | some r => !r.deps.isEmpty && r.deps.all (fun d => d.stamp == s'.epoch)
  | none => false

def assignBoxes (s s' : Storage) : List NodeId → Layer → Layer
  | [], L => L
  | n :: ns, L =>
    let fresh := match alookup s.derived n, alookup s'.derived n with
      | none, some _ => true
      | some r, some r' => r.val != r'.val
      | _, none => false
    let L := if fresh then
        { L with boxOf := ainsert L.boxOf n L.nextBox, nextBox := L.nextBox + 1, live := L.nextBox :: L.live }
      else L
    assignBoxes s s' ns L

def internOne (P : Prog) (s' : Storage) (n : NodeId) (L : Layer) : Layer :=
  if (fnOf P n.fn).kind = 3 && completed s' n then
    match (fnOf P n.fn).body with
    | .call g e =>
      let c := nodeOf P g (argOf e n.arg)
      match alookup s'.derived c, alookup L.boxOf c with
      | some rc, some b =>
        let v := rc.val
        let node := match alookup L.interned v with
          | none => INode.mk s'.epoch b
          | some x => if x.tv != s'.epoch then INode.mk s'.epoch b else x
        { L with interned := ainsert L.interned v node, regs := ainsert L.regs n v,
                 ever := if L.ever.contains v then L.ever else v :: L.ever }
      | _, _ => L
    | _ => L
  else L

/-- the nodes reachable from `a` in the dependency graph of `s'` -/
def reachFrom (s' : Storage) (a : NodeId) : List NodeId :=
  (mark s'.derived (markFuel s'.derived [a]) [a] []).getD [a]

/-- from the order in which bodies STARTED (pre-order of the execution tree) to the order in which
they COMPLETED (post-order): the nodes started while `a` was running are the following ones that
`a` reaches. -/
def postOrder (s' : Storage) : Nat → List NodeId → List NodeId
  | 0, l => l
  | _, [] => []
  | fuel + 1, a :: rest =>
    let r := reachFrom s' a
    let inside := rest.takeWhile (fun n => r.contains n)
    let after := rest.dropWhile (fun n => r.contains n)
    postOrder s' fuel inside ++ [a] ++ postOrder s' fuel after

/-- one operation of the core model, replayed on the layer (`s` before, `s'` after) -/
def Layer.step (P : Prog) (s s' : Storage) (op : Op) (L : Layer) : Layer :=
  let execd := dedup ((s'.log.take (s'.log.length - s.log.length)).reverse)
  let L := assignBoxes s s' execd L
  let L := (postOrder s' execd.length execd).foldl (fun L n => internOne P s' n L) L
  match op with
  | .gc =>
    if s'.poisoned then L else
    let kept (n : NodeId) : Bool := (alookup s'.derived n).isSome
    let regs := L.regs.filter (fun p => kept p.1)
    let boxOf := L.boxOf.filter (fun p => kept p.1)
    { L with regs := regs, boxOf := boxOf, live := boxOf.map (·.2),
             interned := L.interned.filter (fun p => regs.any (fun q => q.2 == p.1)) }
  | _ => L

inductive Where
  | noref
  | missing
  | inNode (n : NodeId)
  | none
  deriving Repr, DecidableEq

/-- what pointer identity shows for the interned reference with identity `v` -/
def whereIs (s : Storage) (L : Layer) (v : Nat) : Where :=
  if !L.ever.contains v then .noref else
  match alookup L.interned v with
  | none => .missing
  | some x =>
    match (s.derived.filter (fun p => alookup L.boxOf p.1 == some x.box)).head? with
    | some p => .inNode p.1
    | none => .none

/-- the model's UB flag: `MemoRef::lookup` on this reference would read a freed allocation -/
def dangling (L : Layer) (v : Nat) : Bool :=
  match alookup L.interned v with
  | none => false
  | some x => !L.live.contains x.box

/-- a history on the core model and the layer together -/
def runL (fuel : Nat) (P : Prog) : Storage × Layer → List Op → Storage × Layer
  | sl, [] => sl
  | (s, L), op :: ops =>
    let s' := (step fuel P s op).1
    runL fuel P (s', Layer.step P s s' op L) ops

end IsoVerif.Pico.Intern
