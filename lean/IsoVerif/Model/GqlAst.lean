/-
M-GQL / abstract syntax of GraphQL documents (June 2018, §2.2–2.12 and §3) and its canonical,
location-free S-expression, the format in which the reference parser, the model of relay's
parser, the hand model of the compiler's schema parser and the Rust harness (which prints relay's
AST nodes and graphql_lang_types' AST) are compared.

Lists inside recursive types are spelled out (`ValueList`, `FieldList`, `SelList`) so that every
function on the tree is structurally recursive and every proof is a plain mutual induction.
-/
import IsoVerif.Model.GqlLex

namespace IsoVerif.Gql

inductive Ty where
  | named (n : Str)
  | list (t : Ty)
  | nonNull (t : Ty)
deriving DecidableEq, Repr, Inhabited

mutual
inductive Value where
  | var (n : Str)
  | int (v : Int)
  | float (src : Str)
  | str (v : Str)
  | bool (b : Bool)
  | null
  | enum (n : Str)
  | list (vs : ValueList)
  | obj (fs : FieldList)
inductive ValueList where
  | nil
  | cons (v : Value) (vs : ValueList)
inductive FieldList where
  | nil
  | cons (n : Str) (v : Value) (fs : FieldList)
end

instance : Inhabited Value := ⟨.null⟩
instance : Inhabited ValueList := ⟨.nil⟩
instance : Inhabited FieldList := ⟨.nil⟩

structure Dir where
  name : Str
  args : FieldList
deriving Inhabited

mutual
inductive Sel where
  /-- `sub = .nil` : no selection set (a selection set that is present is never empty) -/
  | field (alias : Option Str) (name : Str) (args : FieldList) (dirs : List Dir) (sub : SelList)
  | spread (name : Str) (dirs : List Dir)
  | inline (tc : Option Str) (dirs : List Dir) (sub : SelList)
inductive SelList where
  | nil
  | cons (s : Sel) (r : SelList)
end

instance : Inhabited Sel := ⟨.spread [] []⟩
instance : Inhabited SelList := ⟨.nil⟩

inductive OpType where
  | query | mutation | subscription
deriving DecidableEq, Repr, Inhabited

structure VarDef where
  name : Str
  ty : Ty
  default : Option Value
  dirs : List Dir
deriving Inhabited

inductive ExecDef where
  | op (kind : OpType) (name : Option Str) (vars : List VarDef) (dirs : List Dir) (sel : SelList)
  | frag (name : Str) (tc : Str) (dirs : List Dir) (sel : SelList)
deriving Inhabited

/-- InputValueDefinition -/
structure InputVal where
  desc : Option Str
  name : Str
  ty : Ty
  default : Option Value
  dirs : List Dir
deriving Inhabited

/-- FieldDefinition (`hack` is relay's non-standard second string, `hack_source`) -/
structure FieldDef where
  desc : Option Str
  hack : Option Str := none
  name : Str
  args : List InputVal
  ty : Ty
  dirs : List Dir
deriving Inhabited

structure EnumVal where
  desc : Option Str
  name : Str
  dirs : List Dir
deriving Inhabited

inductive TsDef where
  | schema (desc : Option Str) (dirs : List Dir) (ops : List (OpType × Str))
  | scalar (desc : Option Str) (name : Str) (dirs : List Dir)
  | object (desc : Option Str) (name : Str) (impl : List Str) (dirs : List Dir) (fields : List FieldDef)
  | interface (desc : Option Str) (name : Str) (impl : List Str) (dirs : List Dir) (fields : List FieldDef)
  | union (desc : Option Str) (name : Str) (dirs : List Dir) (members : List Str)
  | enum (desc : Option Str) (name : Str) (dirs : List Dir) (values : List EnumVal)
  | input (desc : Option Str) (name : Str) (dirs : List Dir) (fields : List InputVal)
  | directive (desc : Option Str) (hack : Option Str) (name : Str) (args : List InputVal)
      (repeatable : Bool) (locs : List Str)
  | extSchema (dirs : List Dir) (ops : List (OpType × Str))
  | extScalar (name : Str) (dirs : List Dir)
  | extObject (name : Str) (impl : List Str) (dirs : List Dir) (fields : List FieldDef)
  | extInterface (name : Str) (impl : List Str) (dirs : List Dir) (fields : List FieldDef)
  | extUnion (name : Str) (dirs : List Dir) (members : List Str)
  | extEnum (name : Str) (dirs : List Dir) (values : List EnumVal)
  | extInput (name : Str) (dirs : List Dir) (fields : List InputVal)
deriving Inhabited

/-! ### canonical S-expression -/

def hexDigitCp (n : Nat) : Nat := if n < 10 then 48 + n else 87 + n

/-- UTF-8 bytes of one scalar value (surrogate code points, which only an `\uD800` escape can
produce, are encoded like any other three-byte value). -/
def utf8 (c : Nat) : List Nat :=
  if c < 128 then [c]
  else if c < 2048 then [192 + c / 64, 128 + c % 64]
  else if c < 65536 then [224 + c / 4096, 128 + (c / 64) % 64, 128 + c % 64]
  else [240 + c / 262144, 128 + (c / 4096) % 64, 128 + (c / 64) % 64, 128 + c % 64]

/-- lower-case hex of the UTF-8 encoding; `-` for the empty string -/
def hexOf (s : Str) : Str :=
  match s with
  | [] => [45]
  | _ => (s.flatMap utf8).flatMap fun b => [hexDigitCp (b / 16), hexDigitCp (b % 16)]

def natDigits : Nat → Nat → Str → Str
  | 0, _, acc => acc
  | f + 1, n, acc => if n < 10 then (48 + n) :: acc else natDigits f (n / 10) ((48 + n % 10) :: acc)

def natStr (n : Nat) : Str := natDigits (n + 1) n []

def intStr : Int → Str
  | .ofNat n => natStr n
  | .negSucc n => 45 :: natStr (n + 1)

/-- `(head,item,item,…)` — the separator is a comma so that a tree is one protocol field -/
def sx (head : String) (items : List Str) : Str :=
  [40] ++ cps head ++ items.flatMap (fun i => 44 :: i) ++ [41]

def dash : Str := [45]

def optName : Option Str → Str
  | none => dash
  | some n => n

def Ty.sexp : Ty → Str
  | .named n => n
  | .list t => sx "list" [t.sexp]
  | .nonNull t => sx "nn" [t.sexp]

mutual
def Value.sexp : Value → Str
  | .var n => sx "var" [n]
  | .int v => sx "int" [intStr v]
  | .float s => sx "float" [s]
  | .str v => sx "str" [hexOf v]
  | .bool b => sx "bool" [cps (if b then "true" else "false")]
  | .null => cps "null"
  | .enum n => sx "enum" [n]
  | .list vs => [40] ++ cps "list" ++ vs.sexp ++ [41]
  | .obj fs => [40] ++ cps "obj" ++ fs.sexp ++ [41]
def ValueList.sexp : ValueList → Str
  | .nil => []
  | .cons v vs => 44 :: v.sexp ++ vs.sexp
def FieldList.sexp : FieldList → Str
  | .nil => []
  | .cons n v fs => 44 :: sx "arg" [n, v.sexp] ++ fs.sexp
end

def argsSexp (fs : FieldList) : Str := [40] ++ cps "args" ++ fs.sexp ++ [41]

def Dir.sexp (d : Dir) : Str := sx "dir" [d.name, argsSexp d.args]

def dirsSexp (ds : List Dir) : Str := sx "dirs" (ds.map Dir.sexp)

mutual
def Sel.sexp : Sel → Str
  | .field a n args dirs sub =>
    sx "field" [optName a, n, argsSexp args, dirsSexp dirs,
      match sub with
      | .nil => dash
      | sub => [40] ++ cps "sel" ++ sub.sexp ++ [41]]
  | .spread n dirs => sx "spread" [n, dirsSexp dirs]
  | .inline tc dirs sub => sx "inline" [optName tc, dirsSexp dirs, [40] ++ cps "sel" ++ sub.sexp ++ [41]]
def SelList.sexp : SelList → Str
  | .nil => []
  | .cons s r => 44 :: s.sexp ++ r.sexp
end

def selSexp (s : SelList) : Str := [40] ++ cps "sel" ++ s.sexp ++ [41]

def OpType.str : OpType → Str
  | .query => cps "query"
  | .mutation => cps "mutation"
  | .subscription => cps "subscription"

def optValue : Option Value → Str
  | none => dash
  | some v => v.sexp

def VarDef.sexp (v : VarDef) : Str := sx "var" [v.name, v.ty.sexp, optValue v.default, dirsSexp v.dirs]

def ExecDef.sexp : ExecDef → Str
  | .op k n vars dirs sel =>
    sx "op" [k.str, optName n, sx "vars" (vars.map VarDef.sexp), dirsSexp dirs, selSexp sel]
  | .frag n tc dirs sel => sx "frag" [n, tc, dirsSexp dirs, selSexp sel]

def execDocSexp (ds : List ExecDef) : Str := sx "doc" (ds.map ExecDef.sexp)

/-- description (and relay's hack_source): `-`, `(desc HEX)`, `(desc HEX HEX)` -/
def descSexp (d h : Option Str) : Str :=
  match d, h with
  | none, _ => dash
  | some d, none => sx "desc" [hexOf d]
  | some d, some h => sx "desc" [hexOf d, hexOf h]

def InputVal.sexp (v : InputVal) : Str :=
  sx "inputval" [descSexp v.desc none, v.name, v.ty.sexp, optValue v.default, dirsSexp v.dirs]

def FieldDef.sexp (f : FieldDef) : Str :=
  sx "fielddef" [descSexp f.desc f.hack, f.name, sx "args" (f.args.map InputVal.sexp), f.ty.sexp, dirsSexp f.dirs]

def EnumVal.sexp (v : EnumVal) : Str := sx "value" [descSexp v.desc none, v.name, dirsSexp v.dirs]

def opsSexp (ops : List (OpType × Str)) : Str :=
  sx "ops" (ops.map fun o => [40] ++ o.1.str ++ [44] ++ o.2 ++ [41])

def namesSexp (head : String) (ns : List Str) : Str := sx head ns

def TsDef.sexp : TsDef → Str
  | .schema d dirs ops => sx "schema" [descSexp d none, dirsSexp dirs, opsSexp ops]
  | .scalar d n dirs => sx "scalar" [descSexp d none, n, dirsSexp dirs]
  | .object d n impl dirs fs =>
    sx "type" [descSexp d none, n, namesSexp "impl" impl, dirsSexp dirs, sx "fields" (fs.map FieldDef.sexp)]
  | .interface d n impl dirs fs =>
    sx "interface" [descSexp d none, n, namesSexp "impl" impl, dirsSexp dirs, sx "fields" (fs.map FieldDef.sexp)]
  | .union d n dirs ms => sx "union" [descSexp d none, n, dirsSexp dirs, namesSexp "members" ms]
  | .enum d n dirs vs => sx "enum" [descSexp d none, n, dirsSexp dirs, sx "values" (vs.map EnumVal.sexp)]
  | .input d n dirs fs => sx "input" [descSexp d none, n, dirsSexp dirs, sx "fields" (fs.map InputVal.sexp)]
  | .directive d h n args rep locs =>
    sx "directive" [descSexp d h, n, sx "args" (args.map InputVal.sexp),
      (if rep then cps "repeatable" else dash), namesSexp "locs" locs]
  | .extSchema dirs ops => sx "extend-schema" [dirsSexp dirs, opsSexp ops]
  | .extScalar n dirs => sx "extend-scalar" [n, dirsSexp dirs]
  | .extObject n impl dirs fs =>
    sx "extend-type" [n, namesSexp "impl" impl, dirsSexp dirs, sx "fields" (fs.map FieldDef.sexp)]
  | .extInterface n impl dirs fs =>
    sx "extend-interface" [n, namesSexp "impl" impl, dirsSexp dirs, sx "fields" (fs.map FieldDef.sexp)]
  | .extUnion n dirs ms => sx "extend-union" [n, dirsSexp dirs, namesSexp "members" ms]
  | .extEnum n dirs vs => sx "extend-enum" [n, dirsSexp dirs, sx "values" (vs.map EnumVal.sexp)]
  | .extInput n dirs fs => sx "extend-input" [n, dirsSexp dirs, sx "fields" (fs.map InputVal.sexp)]

def tsDocSexp (ds : List TsDef) : Str := sx "doc" (ds.map TsDef.sexp)

/-! ### projections used when an implementation's tree has no slot for a piece of syntax -/

def InputVal.dropDesc (v : InputVal) : InputVal := { v with desc := none }
def EnumVal.dropDesc (v : EnumVal) : EnumVal := { v with desc := none }
def FieldDef.dropArgDesc (f : FieldDef) : FieldDef := { f with args := f.args.map InputVal.dropDesc }
def FieldDef.dropAllDesc (f : FieldDef) : FieldDef :=
  { f with desc := none, hack := none, args := f.args.map InputVal.dropDesc }

/-- relay's type-system AST keeps descriptions only on field definitions and directive
definitions (`description`, `hack_source`). -/
def TsDef.relayProj : TsDef → TsDef
  | .schema _ dirs ops => .schema none dirs ops
  | .scalar _ n dirs => .scalar none n dirs
  | .object _ n impl dirs fs => .object none n impl dirs (fs.map FieldDef.dropArgDesc)
  | .interface _ n impl dirs fs => .interface none n impl dirs (fs.map FieldDef.dropArgDesc)
  | .union _ n dirs ms => .union none n dirs ms
  | .enum _ n dirs vs => .enum none n dirs (vs.map EnumVal.dropDesc)
  | .input _ n dirs fs => .input none n dirs (fs.map InputVal.dropDesc)
  | .directive d h n args rep locs => .directive d h n (args.map InputVal.dropDesc) rep locs
  | .extSchema dirs ops => .extSchema dirs ops
  | .extScalar n dirs => .extScalar n dirs
  | .extObject n impl dirs fs => .extObject n impl dirs (fs.map FieldDef.dropArgDesc)
  | .extInterface n impl dirs fs => .extInterface n impl dirs (fs.map FieldDef.dropArgDesc)
  | .extUnion n dirs ms => .extUnion n dirs ms
  | .extEnum n dirs vs => .extEnum n dirs (vs.map EnumVal.dropDesc)
  | .extInput n dirs fs => .extInput n dirs (fs.map InputVal.dropDesc)

/-- what relay's schema printer keeps: no description at all, no `repeatable` -/
def TsDef.printedProj : TsDef → TsDef
  | .object d n impl dirs fs => .object d n impl dirs (fs.map FieldDef.dropAllDesc)
  | .interface d n impl dirs fs => .interface d n impl dirs (fs.map FieldDef.dropAllDesc)
  | .directive _ _ n args _ locs => .directive none none n args false locs
  | .extObject n impl dirs fs => .extObject n impl dirs (fs.map FieldDef.dropAllDesc)
  | .extInterface n impl dirs fs => .extInterface n impl dirs (fs.map FieldDef.dropAllDesc)
  | d => d

/-- the compiler's `GraphQLSchemaDefinition` has one optional slot per operation type -/
def canonOps (ops : List (OpType × Str)) : List (OpType × Str) :=
  (ops.filter fun o => o.1 == .query) ++ (ops.filter fun o => o.1 == .mutation) ++
    (ops.filter fun o => o.1 == .subscription)

def TsDef.isoProj : TsDef → TsDef
  | .schema d dirs ops => .schema d dirs (canonOps ops)
  | d => d

end IsoVerif.Gql
