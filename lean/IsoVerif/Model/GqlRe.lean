/-
M-GQL / regular expressions of the logos token tables (self-contained; does not use Model/Lex).

`Re` is the regex AST that translator T2 (`translators/t2_gql_tokens.py`) emits for every
`#[token]` / `#[regex]` attribute of `relay-crates/graphql-syntax/src/relay_lexer.rs`.
Characters are Unicode scalar values as `Nat`.  Matching is by Brzozowski derivatives;
`longest` returns the length of the longest matching prefix (logos' maximal munch for one pattern).
-/
namespace IsoVerif.Gql

/-- A text: list of Unicode scalar values. -/
abbrev Str := List Nat

/-- Code points of a Lean string literal (used for keywords and in examples). -/
def cps (s : String) : Str := s.toList.map Char.toNat

inductive Re where
  | empty                              -- matches nothing
  | eps                                -- matches the empty string
  | cls (ranges : List (Nat × Nat))    -- one character inside one of the inclusive ranges
  | ncls (ranges : List (Nat × Nat))   -- one character outside all of the ranges
  | seq (a b : Re)
  | alt (a b : Re)
  | star (a : Re)
deriving DecidableEq, Repr, Inhabited

namespace Re

def inRanges (c : Nat) : List (Nat × Nat) → Bool
  | [] => false
  | (lo, hi) :: rs => (decide (lo ≤ c) && decide (c ≤ hi)) || inRanges c rs

/-- literal string -/
def lit : Str → Re
  | [] => .eps
  | [c] => .cls [(c, c)]
  | c :: cs => .seq (.cls [(c, c)]) (lit cs)

def plus (a : Re) : Re := .seq a (.star a)
def opt (a : Re) : Re := .alt a .eps

def nullable : Re → Bool
  | .empty => false
  | .eps => true
  | .cls _ => false
  | .ncls _ => false
  | .seq a b => nullable a && nullable b
  | .alt a b => nullable a || nullable b
  | .star _ => true

def mkSeq : Re → Re → Re
  | .empty, _ => .empty
  | _, .empty => .empty
  | .eps, b => b
  | a, .eps => a
  | a, b => .seq a b

def mkAlt : Re → Re → Re
  | .empty, b => b
  | a, .empty => a
  | a, b => .alt a b

def deriv (c : Nat) : Re → Re
  | .empty => .empty
  | .eps => .empty
  | .cls rs => if inRanges c rs then .eps else .empty
  | .ncls rs => if inRanges c rs then .empty else .eps
  | .seq a b =>
    if nullable a then mkAlt (mkSeq (deriv c a) b) (deriv c b) else mkSeq (deriv c a) b
  | .alt a b => mkAlt (deriv c a) (deriv c b)
  | .star a => mkSeq (deriv c a) (.star a)

/-- whole-string match -/
def derivs : Re → Str → Re
  | r, [] => r
  | r, c :: cs => derivs (deriv c r) cs

def isMatch (r : Re) (s : Str) : Bool := nullable (derivs r s)

/-- `longestAux r s n best`: `n` characters consumed so far, `best` = longest accepted length. -/
def longestAux : Re → Str → Nat → Option Nat → Option Nat
  | r, [], n, best => if nullable r then some n else best
  | r, c :: cs, n, best =>
    let best' := if nullable r then some n else best
    match r with
    | .empty => best'
    | _ => longestAux (deriv c r) cs (n + 1) best'

/-- Length of the longest prefix of `s` matched by `r` (none: no prefix matches). -/
def longest (r : Re) (s : Str) : Option Nat := longestAux r s 0 none

end Re

/-- One entry of a logos token table. -/
structure TokRule where
  kind : Str
  re : Re
  skip : Bool := false
  callback : Str := []
deriving Repr, Inhabited

/-- logos: the longest match over all rules; on equal length the earlier rule (logos rejects
tables in which two rules of equal priority can match the same text, so the order among equal
lengths is never observable for a table that compiles). Returns (rule, length ≥ 1). -/
def bestRule : List TokRule → Str → Option (TokRule × Nat)
  | [], _ => none
  | r :: rs, s =>
    let here : Option (TokRule × Nat) :=
      match Re.longest r.re s with
      | some n => if n = 0 then none else some (r, n)
      | none => none
    match here, bestRule rs s with
    | none, o => o
    | some h, none => some h
    | some h, some o => if o.2 > h.2 then some o else some h

end IsoVerif.Gql
