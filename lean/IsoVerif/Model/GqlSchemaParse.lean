/-
Hand model of the compiler's schema parser, function by function:
  crates/graphql_schema_parser/src/parse_schema.rs   (parse_schema, parse_schema_extensions, …)
  crates/graphql_schema_parser/src/description.rs    (parse_optional_description,
                                                      clean_block_string_literal = Gql.cleanBlockString)
  crates/graphql_schema_parser/src/peekable_lexer.rs (PeekableLexer: one token of look-ahead over
                                                      relay's logos lexer `TokenKind::lexer`)

The lexer state is the list of remaining tokens (head = `current`, `[]` = `EndOfFile`).  An error
token of relay's lexer is never an expected kind of any `parse_token_of_kind`, so a text with a
lexical error is rejected (`parseSchemaText`).  Every function returns `R`:
`ok value rest | err rest | panic`; `err` carries the lexer position because the callers that
swallow an error (`.ok()`, `.is_ok()`, `is_err()`, `to_control_flow`) go on from wherever the
failing callee left the lexer.  `parse_token_of_kind` / `parse_matching_identifier` advance only on
success; `parse_constant_value` does not: its alternatives run one after the other *without
restoring the position* — after an alternative that consumed tokens and failed (an integer outside
i64, an error inside a list) the next alternatives continue at the advanced position.  `resume =
true` mirrors that; `resume = false` is the evidently intended behaviour (commit after consuming),
used to name the deviation.  Rust `expect`/`assert!` sites are `.panic`.  String slices
`source[1..len-1]` / `[3..len-3]` are total on string tokens (they start and end with the ASCII
quotes); the token already carries the inner text.  Loops are fuel-indexed (`fuelFor` gives ample
fuel); a "first item, then loop" function spends one unit before its first item so that its fuel
use is the same as that of the reference grammar's list functions (Lemmas/GqlSchemaParse.lean).
-/
import IsoVerif.Model.GqlParse

namespace IsoVerif.GqlSchema
open IsoVerif.Gql

inductive R (α : Type) where
  | ok (a : α) (rest : List Tok)
  | err (rest : List Tok)
  | panic
deriving Inhabited

/-- `?` -/
@[inline] def R.bind {α β : Type} (x : R α) (k : α → List Tok → R β) : R β :=
  match x with
  | .ok a r => k a r
  | .err r => .err r
  | .panic => .panic

/-! ### peekable_lexer.rs -/

/-- `parse_token_of_kind(<punctuator kind>)` -/
def tokPunct (p : Punct) : List Tok → R Unit
  | .punct p' :: r => if p' == p then .ok () r else .err (.punct p' :: r)
  | ts => .err ts

/-- `parse_source_of_kind(Identifier)` / `parse_string_key_type(Identifier)` -/
def tokName : List Tok → R Str
  | .name n :: r => .ok n r
  | ts => .err ts

/-- `parse_matching_identifier(kw)` -/
def matchingIdent (kw : Str) : List Tok → R Unit
  | .name n :: r => if n == kw then .ok () r else .err (.name n :: r)
  | ts => .err ts

/-- `parse_token_of_kind(k).is_ok()` used as "optional token": the rest after skipping it -/
def optPunct (p : Punct) (ts : List Tok) : List Tok :=
  match tokPunct p ts with
  | .ok _ r => r
  | _ => ts

/-! ### description.rs -/

/-- `parse_optional_description` = single-line, or else multi-line (block string cleaned) -/
def parseOptionalDescription (ts : List Tok) : Option Str × List Tok :=
  match ts with
  | .str raw :: r => (some raw, r)
  | .block raw :: r => (some (cleanBlockString raw), r)
  | _ => (none, ts)

/-! ### parse_schema.rs -/

mutual
/-- `parse_constant_value`.  The alternatives in source order: IntegerLiteral, FloatLiteral,
StringLiteral, `true`, `false`, `null`, Identifier (enum), list, object, then the error
"Unable to parse constant value".  `skipInt`: the IntegerLiteral alternative has already run at an
earlier position (it consumed an integer outside i64 and failed) and the remaining alternatives
continue here. -/
def parseConstantValue (resume skipInt : Bool) : Nat → List Tok → R Value
  | 0, ts => .err ts
  | f + 1, ts =>
    match ts with
    | .int src :: r =>
      if skipInt then .err ts
      else if fitsI64 (intOfSrc src) then .ok (.int (intOfSrc src)) r
      else if resume then parseConstantValue resume true f r   -- token consumed, `Err` → next alternative
      else .err r
    | .float src :: r => .ok (.float src) r
    | .str raw :: r => .ok (.str raw) r
    | .name n :: r =>
      if n == kwTrue then .ok (.bool true) r
      else if n == kwFalse then .ok (.bool false) r
      else if n == kwNull then .ok .null r
      else .ok (.enum n) r
    | .punct .lbrack :: r =>
      match listItems resume f r with
      | .ok vs r' => .ok (.list vs) r'
      | .err p =>
        -- the list alternative failed after consuming tokens; `to_control_flow` goes on with the
        -- object alternative at the position where the failure left the lexer
        if resume then
          match p with
          | .punct .lbrace :: r2 =>
            match objectItems resume f r2 with
            | .ok fs r' => .ok (.obj fs) r'
            | .err p' => .err p'
            | .panic => .panic
          | _ => .err p
        else .err p
      | .panic => .panic
    | .punct .lbrace :: r =>
      match objectItems resume f r with
      | .ok fs r' => .ok (.obj fs) r'
      | .err p => .err p
      | .panic => .panic
    | _ => .err ts
/-- `while parse_token_of_kind(CloseBracket).is_err() { values.push(parse_constant_value(tokens)?) }` -/
def listItems (resume : Bool) : Nat → List Tok → R ValueList
  | 0, ts => .err ts
  | f + 1, ts =>
    match ts with
    | .punct .rbrack :: r => .ok .nil r
    | _ =>
      match parseConstantValue resume false f ts with
      | .ok v r =>
        match listItems resume f r with
        | .ok vs r' => .ok (.cons v vs) r'
        | .err p => .err p
        | .panic => .panic
      | .err p => .err p
      | .panic => .panic
/-- `while parse_token_of_kind(CloseBrace).is_err() { name ':' value }` -/
def objectItems (resume : Bool) : Nat → List Tok → R FieldList
  | 0, ts => .err ts
  | f + 1, ts =>
    match ts with
    | .punct .rbrace :: r => .ok .nil r
    | .name n :: .punct .colon :: r =>
      match parseConstantValue resume false f r with
      | .ok v r1 =>
        match objectItems resume f r1 with
        | .ok fs r2 => .ok (.cons n v fs) r2
        | .err p => .err p
        | .panic => .panic
      | .err p => .err p
      | .panic => .panic
    | .name _ :: r => .err r
    | _ => .err ts
end

/-- `parse_constant_name_value_pair` -/
def parseNameValuePair (resume : Bool) (f : Nat) (ts : List Tok) : R (Str × Value) :=
  (tokName ts).bind fun n r =>
  (tokPunct .colon r).bind fun _ r1 =>
  (parseConstantValue resume false f r1).bind fun v r2 => .ok (n, v) r2

/-- the loop of `parse_optional_constant_arguments` after the first pair -/
def parseMoreArguments (resume : Bool) : Nat → List Tok → R FieldList
  | 0, ts => .err ts
  | f + 1, ts =>
    match tokPunct .rparen ts with
    | .ok _ r => .ok .nil r
    | _ =>
      (parseNameValuePair resume f ts).bind fun nv r =>
      (parseMoreArguments resume f r).bind fun fs r' => .ok (.cons nv.1 nv.2 fs) r'

/-- `parse_optional_constant_arguments` -/
def parseOptionalConstantArguments (resume : Bool) (f : Nat) (ts : List Tok) : R FieldList :=
  match tokPunct .lparen ts with
  | .ok _ r =>
    match f with
    | 0 => .err r
    | f' + 1 =>
      (parseNameValuePair resume f' r).bind fun nv r1 =>
      (parseMoreArguments resume f' r1).bind fun fs r2 => .ok (.cons nv.1 nv.2 fs) r2
  | _ => .ok .nil ts

/-- `parse_constant_directives` -/
def parseConstantDirectives (resume : Bool) : Nat → List Tok → R (List Dir)
  | 0, ts => .err ts
  | f + 1, ts =>
    match tokPunct .at ts with
    | .ok _ r =>
      (tokName r).bind fun n r1 =>
      (parseOptionalConstantArguments resume f r1).bind fun args r2 =>
      (parseConstantDirectives resume f r2).bind fun ds r3 => .ok ({ name := n, args := args } :: ds) r3
    | _ => .ok [] ts

/-- `parse_type_annotation`: named alternative, then list alternative, then the error -/
def parseTypeAnnotation : Nat → List Tok → R Ty
  | 0, ts => .err ts
  | f + 1, ts =>
    match ts with
    | .name n :: r =>
      match tokPunct .bang r with
      | .ok _ r' => .ok (.nonNull (.named n)) r'
      | _ => .ok (.named n) r
    | .punct .lbrack :: r =>
      (parseTypeAnnotation f r).bind fun inner r1 =>
      (tokPunct .rbrack r1).bind fun _ r2 =>
      match tokPunct .bang r2 with
      | .ok _ r3 => .ok (.nonNull (.list inner)) r3
      | _ => .ok (.list inner) r2
    | _ => .err ts

/-- `parse_optional_constant_default_value` -/
def parseOptionalDefault (resume : Bool) (f : Nat) (ts : List Tok) : R (Option Value) :=
  match tokPunct .eq ts with
  | .ok _ r => (parseConstantValue resume false f r).bind fun v r' => .ok (some v) r'
  | _ => .ok none ts

/-- `parse_argument_definition` -/
def parseArgumentDefinition (resume : Bool) (f : Nat) (ts : List Tok) : R InputVal :=
  let (desc, r0) := parseOptionalDescription ts
  (tokName r0).bind fun n r1 =>
  (tokPunct .colon r1).bind fun _ r2 =>
  (parseTypeAnnotation f r2).bind fun ty r3 =>
  (parseOptionalDefault resume f r3).bind fun dv r4 =>
  (parseConstantDirectives resume f r4).bind fun dirs r5 =>
  .ok { desc := desc, name := n, ty := ty, default := dv, dirs := dirs } r5

/-- the `while parse_token_of_kind(close).is_err()` loop of `parse_optional_enclosed_items` -/
def parseMoreArgumentDefinitions (resume : Bool) (close : Punct) : Nat → List Tok → R (List InputVal)
  | 0, ts => .err ts
  | f + 1, ts =>
    match tokPunct close ts with
    | .ok _ r => .ok [] r
    | _ =>
      (parseArgumentDefinition resume f ts).bind fun v r =>
      (parseMoreArgumentDefinitions resume close f r).bind fun vs r' => .ok (v :: vs) r'

/-- `parse_optional_enclosed_items(open, close, parse_argument_definition)` -/
def parseOptionalArgumentDefinitions (resume : Bool) (opn close : Punct) (f : Nat) (ts : List Tok) :
    R (List InputVal) :=
  match tokPunct opn ts with
  | .ok _ r =>
    match f with
    | 0 => .err r
    | f' + 1 =>
      (parseArgumentDefinition resume f' r).bind fun v r1 =>
      (parseMoreArgumentDefinitions resume close f' r1).bind fun vs r2 => .ok (v :: vs) r2
  | _ => .ok [] ts

/-- `parse_field` -/
def parseField (resume : Bool) (f : Nat) (ts : List Tok) : R FieldDef :=
  let (desc, r0) := parseOptionalDescription ts
  (tokName r0).bind fun n r1 =>
  (parseOptionalArgumentDefinitions resume .lparen .rparen f r1).bind fun args r2 =>
  (tokPunct .colon r2).bind fun _ r3 =>
  (parseTypeAnnotation f r3).bind fun ty r4 =>
  (parseConstantDirectives resume f r4).bind fun dirs r5 =>
  .ok { desc := desc, name := n, args := args, ty := ty, dirs := dirs } r5

def parseMoreFields (resume : Bool) : Nat → List Tok → R (List FieldDef)
  | 0, ts => .err ts
  | f + 1, ts =>
    match tokPunct .rbrace ts with
    | .ok _ r => .ok [] r
    | _ =>
      (parseField resume f ts).bind fun v r =>
      (parseMoreFields resume f r).bind fun vs r' => .ok (v :: vs) r'

/-- `parse_optional_fields` -/
def parseOptionalFields (resume : Bool) (f : Nat) (ts : List Tok) : R (List FieldDef) :=
  match tokPunct .lbrace ts with
  | .ok _ r =>
    match f with
    | 0 => .err r
    | f' + 1 =>
      (parseField resume f' r).bind fun v r1 =>
      (parseMoreFields resume f' r1).bind fun vs r2 => .ok (v :: vs) r2
  | _ => .ok [] ts

/-- the `while parse_token_of_kind(Ampersand).is_ok()` loop of `parse_interfaces` -/
def parseMoreInterfaces : Nat → List Tok → R (List Str)
  | 0, ts => .err ts
  | f + 1, ts =>
    match tokPunct .amp ts with
    | .ok _ r =>
      (tokName r).bind fun n r1 =>
      (parseMoreInterfaces f r1).bind fun ns r2 => .ok (n :: ns) r2
    | _ => .ok [] ts

/-- `parse_implements_interfaces_if_present` (+ `parse_interfaces`) -/
def parseImplementsIfPresent (f : Nat) (ts : List Tok) : R (List Str) :=
  match matchingIdent kwImplements ts with
  | .ok _ r =>
    let r0 := optPunct .amp r
    (tokName r0).bind fun n r1 =>
    (parseMoreInterfaces f r1).bind fun ns r2 => .ok (n :: ns) r2
  | _ => .ok [] ts

/-- `parse_object_type_definition` / `parse_interface_type_definition` / `parse_object_type_extension`
(the three bodies are the same four calls) -/
def parseObjectLike (resume : Bool) (f : Nat) (ts : List Tok) :
    R (Str × List Str × List Dir × List FieldDef) :=
  (tokName ts).bind fun n r1 =>
  (parseImplementsIfPresent f r1).bind fun impl r2 =>
  (parseConstantDirectives resume f r2).bind fun dirs r3 =>
  (parseOptionalFields resume f r3).bind fun fs r4 => .ok (n, impl, dirs, fs) r4

/-- `parse_scalar_type_definition` -/
def parseScalar (resume : Bool) (f : Nat) (desc : Option Str) (ts : List Tok) : R TsDef :=
  (tokName ts).bind fun n r1 =>
  (parseConstantDirectives resume f r1).bind fun dirs r2 => .ok (.scalar desc n dirs) r2

/-- `parse_input_object_type_definition` -/
def parseInputObject (resume : Bool) (f : Nat) (desc : Option Str) (ts : List Tok) : R TsDef :=
  (tokName ts).bind fun n r1 =>
  (parseConstantDirectives resume f r1).bind fun dirs r2 =>
  (parseOptionalArgumentDefinitions resume .lbrace .rbrace f r2).bind fun fs r3 =>
  .ok (.input desc n dirs fs) r3

/-- `parse_directive_location`: `DirectiveLocation::from_str` on an identifier -/
def parseDirectiveLocation (ts : List Tok) : R Str :=
  (tokName ts).bind fun n r =>
  if Gen.GqlTokens.isoDirectiveLocations.contains n then .ok n r else .err r

def parseMoreLocations : Nat → List Tok → R (List Str)
  | 0, ts => .err ts
  | f + 1, ts =>
    match tokPunct .pipe ts with
    | .ok _ r =>
      (parseDirectiveLocation r).bind fun l r1 =>
      (parseMoreLocations f r1).bind fun ls r2 => .ok (l :: ls) r2
    | _ => .ok [] ts

/-- `parse_directive_locations` -/
def parseDirectiveLocations (f : Nat) (ts : List Tok) : R (List Str) :=
  let r0 := optPunct .pipe ts
  (parseDirectiveLocation r0).bind fun l r1 =>
  (parseMoreLocations f r1).bind fun ls r2 => .ok (l :: ls) r2

/-- `parse_directive_definition` (`let _at = tokens.parse_token_of_kind(TokenKind::At)?;`) -/
def parseDirectiveDefinition (resume : Bool) (f : Nat) (desc : Option Str) (ts : List Tok) : R TsDef :=
  (tokPunct .at ts).bind fun _ r0 =>
  (tokName r0).bind fun n r1 =>
  (parseOptionalArgumentDefinitions resume .lparen .rparen f r1).bind fun args r2 =>
  let (rep, r3) : Bool × List Tok :=
    match matchingIdent kwRepeatable r2 with
    | .ok _ r => (true, r)
    | _ => (false, r2)
  (matchingIdent kwOn r3).bind fun _ r4 =>
  (parseDirectiveLocations f r4).bind fun locs r5 => .ok (.directive desc none n args rep locs) r5

/-- `parse_enum_value_definition` -/
def parseEnumValueDefinition (resume : Bool) (f : Nat) (ts : List Tok) : R EnumVal :=
  let (desc, r0) := parseOptionalDescription ts
  (tokName r0).bind fun n r1 =>
  if n == kwTrue || n == kwFalse || n == kwNull then .err r1
  else (parseConstantDirectives resume f r1).bind fun dirs r2 => .ok { desc := desc, name := n, dirs := dirs } r2

def parseMoreEnumValues (resume : Bool) : Nat → List Tok → R (List EnumVal)
  | 0, ts => .err ts
  | f + 1, ts =>
    match tokPunct .rbrace ts with
    | .ok _ r => .ok [] r
    | _ =>
      (parseEnumValueDefinition resume f ts).bind fun v r =>
      (parseMoreEnumValues resume f r).bind fun vs r' => .ok (v :: vs) r'

/-- `parse_enum_definition` (+ `parse_enum_value_definitions`) -/
def parseEnumDefinition (resume : Bool) (f : Nat) (desc : Option Str) (ts : List Tok) : R TsDef :=
  (tokName ts).bind fun n r1 =>
  (parseConstantDirectives resume f r1).bind fun dirs r2 =>
  match tokPunct .lbrace r2 with
  | .ok _ r3 =>
    (parseEnumValueDefinition resume f r3).bind fun v r4 =>
    (parseMoreEnumValues resume f r4).bind fun vs r5 => .ok (.enum desc n dirs (v :: vs)) r5
  | _ => .ok (.enum desc n dirs []) r2

def parseMoreUnionMembers : Nat → List Tok → R (List Str)
  | 0, ts => .err ts
  | f + 1, ts =>
    match tokPunct .pipe ts with
    | .ok _ r =>
      (tokName r).bind fun n r1 =>
      (parseMoreUnionMembers f r1).bind fun ns r2 => .ok (n :: ns) r2
    | _ => .ok [] ts

/-- `parse_union_definition` (+ `parse_union_member_types`): `=` is required -/
def parseUnionDefinition (resume : Bool) (f : Nat) (desc : Option Str) (ts : List Tok) : R TsDef :=
  (tokName ts).bind fun n r1 =>
  (parseConstantDirectives resume f r1).bind fun dirs r2 =>
  (tokPunct .eq r2).bind fun _ r3 =>
  let r4 := optPunct .pipe r3
  (tokName r4).bind fun m r5 =>
  (parseMoreUnionMembers f r5).bind fun ms r6 => .ok (.union desc n dirs (m :: ms)) r6

/-- `parse_root_operation_type` -/
def parseRootOperationType (ts : List Tok) : R (OpType × Str) :=
  (tokName ts).bind fun k r =>
  match opTypeOf k with
  | none => .err r
  | some o =>
    (tokPunct .colon r).bind fun _ r1 =>
    (tokName r1).bind fun n r2 => .ok (o, n) r2

structure RootTypes where
  query : Option Str := none
  subscription : Option Str := none
  mutation : Option Str := none

def RootTypes.get (t : RootTypes) : OpType → Option Str
  | .query => t.query
  | .subscription => t.subscription
  | .mutation => t.mutation

def RootTypes.set (t : RootTypes) (o : OpType) (n : Str) : RootTypes :=
  match o with
  | .query => { t with query := some n }
  | .subscription => { t with subscription := some n }
  | .mutation => { t with mutation := some n }

/-- `GraphQLSchemaDefinition { query, subscription, mutation }` as an operation list (q, m, s) -/
def RootTypes.ops (t : RootTypes) : List (OpType × Str) :=
  (match t.query with | some n => [(.query, n)] | none => []) ++
  (match t.mutation with | some n => [(.mutation, n)] | none => []) ++
  (match t.subscription with | some n => [(.subscription, n)] | none => [])

/-- the `while parse_token_of_kind(CloseBrace).is_err()` loop with `reassign_or_error` -/
def parseMoreRootTypes : Nat → RootTypes → List Tok → R RootTypes
  | 0, _, ts => .err ts
  | f + 1, t, ts =>
    match tokPunct .rbrace ts with
    | .ok _ r => .ok t r
    | _ =>
      (parseRootOperationType ts).bind fun on r =>
      if (t.get on.1).isSome then .err r          -- "cannot be defined twice"
      else parseMoreRootTypes f (t.set on.1 on.2) r

/-- `parse_schema_definition` -/
def parseSchemaDefinition (resume : Bool) (f : Nat) (desc : Option Str) (ts : List Tok) : R TsDef :=
  (parseConstantDirectives resume f ts).bind fun dirs r1 =>
  (tokPunct .lbrace r1).bind fun _ r2 =>
  (parseRootOperationType r2).bind fun on r3 =>
  (parseMoreRootTypes f (({} : RootTypes).set on.1 on.2) r3).bind fun t r4 =>
  .ok (.schema desc dirs t.ops) r4

/-- `parse_type_system_definition` -/
def parseTypeSystemDefinition (resume : Bool) (f : Nat) (ts : List Tok) : R TsDef :=
  let (desc, r0) := parseOptionalDescription ts
  (tokName r0).bind fun kw r =>
  if kw == kwType then
    (parseObjectLike resume f r).bind fun x r' => .ok (.object desc x.1 x.2.1 x.2.2.1 x.2.2.2) r'
  else if kw == kwScalar then parseScalar resume f desc r
  else if kw == kwInterface then
    (parseObjectLike resume f r).bind fun x r' => .ok (.interface desc x.1 x.2.1 x.2.2.1 x.2.2.2) r'
  else if kw == kwInput then parseInputObject resume f desc r
  else if kw == kwDirective then parseDirectiveDefinition resume f desc r
  else if kw == kwEnum then parseEnumDefinition resume f desc r
  else if kw == kwUnion then parseUnionDefinition resume f desc r
  else if kw == kwSchema then parseSchemaDefinition resume f desc r
  else .err r

/-- `parse_type_system_extension`: `.expect("Expected identifier extend …")`, `assert!(… == "extend")` -/
def parseTypeSystemExtension (resume : Bool) (f : Nat) (ts : List Tok) : R TsDef :=
  match tokName ts with
  | .ok kw r =>
    if kw == kwExtend then
      (tokName r).bind fun k2 r1 =>
      if k2 == kwType then
        (parseObjectLike resume f r1).bind fun x r' => .ok (.extObject x.1 x.2.1 x.2.2.1 x.2.2.2) r'
      else .err r1
    else .panic
  | _ => .panic

/-- `parse_type_system_document`: `while !tokens.reached_eof()` -/
def parseTypeSystemDocument (resume : Bool) : Nat → List Tok → R (List TsDef)
  | 0, ts => .err ts
  | f + 1, ts =>
    match ts with
    | [] => .ok [] []
    | _ =>
      (parseTypeSystemDefinition resume f ts).bind fun d r =>
      (parseTypeSystemDocument resume f r).bind fun ds r' => .ok (d :: ds) r'

/-- `peek_type_system_doc_type`: some true = Extension, some false = Definition, none = error -/
def peekDocType (ts : List Tok) : Option Bool :=
  match ts with
  | .str _ :: _ => some false
  | .block _ :: _ => some false
  | .name n :: _ => some (n == kwExtend)
  | _ => none

/-- `parse_type_system_extension_document` -/
def parseTypeSystemExtensionDocument (resume : Bool) : Nat → List Tok → R (List TsDef)
  | 0, ts => .err ts
  | f + 1, ts =>
    match ts with
    | [] => .ok [] []
    | _ =>
      match peekDocType ts with
      | some true =>
        (parseTypeSystemExtension resume f ts).bind fun d r =>
        (parseTypeSystemExtensionDocument resume f r).bind fun ds r' => .ok (d :: ds) r'
      | some false =>
        (parseTypeSystemDefinition resume f ts).bind fun d r =>
        (parseTypeSystemExtensionDocument resume f r).bind fun ds r' => .ok (d :: ds) r'
      | none => .err ts

/-- observable result of one call -/
def outcomeOf (r : R (List TsDef)) : Outcome :=
  match r with
  | .ok ds _ => .accept (tsDocSexp ds)
  | .err _ => .reject
  | .panic => .panic

/-- `parse_schema(source, _)` (ext = false) / `parse_schema_extensions(source, _)` (ext = true) on
the token list -/
def parseSchemaToks (resume ext : Bool) (ts : List Tok) : Outcome :=
  outcomeOf (if ext then parseTypeSystemExtensionDocument resume (fuelFor ts) ts
             else parseTypeSystemDocument resume (fuelFor ts) ts)

/-- …on the text: `PeekableLexer::new` runs relay's logos lexer -/
def parseSchemaText (resume ext : Bool) (s : Str) : Outcome :=
  match relayLex s with
  | .panic => .panic
  | .error _ => .reject
  | .ok ts => parseSchemaToks resume ext ts

end IsoVerif.GqlSchema
