/-
M-ISO / parser — executable model of the iso-literal parser
(crates/isograph_lang_parser/src/{peekable_lexer.rs, parse_iso_literal.rs, description.rs} and
`from_isograph_field_directives` of isograph_lang_types/src/isograph_directives.rs as used for
selection directives), function by function.

* `PL` is `PeekableLexer`: current token, the tokens still to come (the real lexer is lazy; the
  lexer does not depend on the parser, so lexing first is the same), `end_index_of_last_parsed_token`
  and the semantic-token vector (kept reversed).  `offset` is always 0 in the real code.
* `PRes`: `ok` / `err` (a `Diagnostic`: kind by message prefix + location) — both keep the lexer
  state, because the Rust code goes on using `tokens` after an `Err` (`.is_ok()`, `.ok()`,
  `to_control_flow`) — `panic site` for every Rust panic site, and `fuel` (recursion budget
  exhausted; the real parser uses the native stack).
* Rust panic sites, all explicit:
    `Span::new`'s `debug_assert!(start <= end)` (the harness is a debug build)   → `Site.spanNew`
    `&self.source[start..end]` in `PeekableLexer::source`                         → `Site.sourceSlice`
    `source_with_quotes[1..len-1]` (string literal / single-line description)      → `Site.stringSlice`
    `source[3..len-3]` in `clean_block_string_literal`                             → `Site.blockSlice`
    the `debug_assert!` of `with_embedded_location_optional_result`                → `Site.optAdvance`
    `number.parse().expect("Expected valid integer")` — GONE since fix 1759df9: a diagnostic `int`
    `todo!("Variable?")` / `panic!("Deserializing objects…")` in the directive deserializer — GONE
    since fix d3ab1d7: a diagnostic `directive`
    (`unreachable!()` in `lex_block_string` — gone with 1759df9, see Model/IsoLex.lean).
* Text is UTF-8 bytes; names, string values and descriptions are byte strings.
-/
import IsoVerif.Model.IsoLex

namespace IsoVerif.IsoParse
open IsoVerif.Lex IsoVerif.IsoLex IsoVerif.Gen.IsoTokens

/-! ## data -/

structure Span where
  s : Nat
  e : Nat
  deriving DecidableEq, Repr, Inhabited

/-- `WithEmbeddedLocation<T>` -/
structure Loc (α : Type) where
  item : α
  span : Span
  deriving Repr

/-- the `ST_*` constants of the semantic token legend used by the parser -/
inductive ST where
  | KEYWORD_USE | KEYWORD_DECLARATION | SERVER_OBJECT_TYPE | DOT | TO | CLIENT_SELECTABLE_NAME
  | OPEN_BRACE | CLOSE_BRACE | OPEN_PAREN | CLOSE_PAREN | COMMA | SELECTION_NAME_OR_ALIAS | COLON
  | SELECTION_NAME_OR_ALIAS_POST_COLON | DIRECTIVE_AT | DIRECTIVE | ARGUMENT_NAME
  | VARIABLE_DOLLAR_DECLARATION | VARIABLE_DOLLAR_USAGE | VARIABLE | VARIABLE_EQUALS | STRING_LITERAL
  | NUMBER_LITERAL | BOOL_OR_NULL | OBJECT_LITERAL_KEY | TYPE_ANNOTATION | COMMENT
  deriving DecidableEq, Repr, Inhabited

def ST.name : ST → String
  | .KEYWORD_USE => "ST_KEYWORD_USE" | .KEYWORD_DECLARATION => "ST_KEYWORD_DECLARATION"
  | .SERVER_OBJECT_TYPE => "ST_SERVER_OBJECT_TYPE" | .DOT => "ST_DOT" | .TO => "ST_TO"
  | .CLIENT_SELECTABLE_NAME => "ST_CLIENT_SELECTABLE_NAME" | .OPEN_BRACE => "ST_OPEN_BRACE"
  | .CLOSE_BRACE => "ST_CLOSE_BRACE" | .OPEN_PAREN => "ST_OPEN_PAREN" | .CLOSE_PAREN => "ST_CLOSE_PAREN"
  | .COMMA => "ST_COMMA" | .SELECTION_NAME_OR_ALIAS => "ST_SELECTION_NAME_OR_ALIAS" | .COLON => "ST_COLON"
  | .SELECTION_NAME_OR_ALIAS_POST_COLON => "ST_SELECTION_NAME_OR_ALIAS_POST_COLON"
  | .DIRECTIVE_AT => "ST_DIRECTIVE_AT" | .DIRECTIVE => "ST_DIRECTIVE" | .ARGUMENT_NAME => "ST_ARGUMENT_NAME"
  | .VARIABLE_DOLLAR_DECLARATION => "ST_VARIABLE_DOLLAR_DECLARATION"
  | .VARIABLE_DOLLAR_USAGE => "ST_VARIABLE_DOLLAR_USAGE" | .VARIABLE => "ST_VARIABLE"
  | .VARIABLE_EQUALS => "ST_VARIABLE_EQUALS" | .STRING_LITERAL => "ST_STRING_LITERAL"
  | .NUMBER_LITERAL => "ST_NUMBER_LITERAL" | .BOOL_OR_NULL => "ST_BOOL_OR_NULL"
  | .OBJECT_LITERAL_KEY => "ST_OBJECT_LITERAL_KEY" | .TYPE_ANNOTATION => "ST_TYPE_ANNOTATION"
  | .COMMENT => "ST_COMMENT"

structure SemTok where
  st : ST
  span : Span
  deriving Repr

inductive Site where
  | spanNew | sourceSlice | stringSlice | blockSlice | optAdvance
  deriving DecidableEq, Repr, Inhabited

inductive DiagKind where
  | tok | start | leftover | selset | exportName | to | linebreak | sep | spread | int | bool | value
  | const | type | directive
  deriving DecidableEq, Repr, Inhabited

def DiagKind.name : DiagKind → String
  | .tok => "tok" | .start => "start" | .leftover => "leftover" | .selset => "selset"
  | .exportName => "export" | .to => "to" | .linebreak => "linebreak" | .sep => "sep" | .spread => "spread"
  | .int => "int" | .bool => "bool" | .value => "value" | .const => "const" | .type => "type"
  | .directive => "directive"

/-- `Option<Location>` of a diagnostic: an embedded span, `Location::Generated`. -/
inductive DLoc where
  | span (sp : Span)
  | gen
  deriving DecidableEq, Repr, Inhabited

structure Diag where
  kind : DiagKind
  loc : DLoc
  deriving DecidableEq, Repr, Inhabited

mutual
  /-- `NonConstantValue` (the kinds the parser can produce) -/
  inductive Value where
    | var (name : Bytes)
    | int (i : Int)
    | bool (b : Bool)
    | str (s : Bytes)
    | null
    | obj (entries : Entries)
  /-- `Vec<NameValuePair<ValueKeyName, NonConstantValue>>` -/
  inductive Entries where
    | nil
    | cons (name : Bytes) (nameSpan : Span) (v : Value) (vSpan : Span) (tl : Entries)
end

structure Arg where
  name : Loc Bytes
  value : Loc Value

structure Directive where
  name : Loc Bytes
  args : List (Loc Arg)

/-- `TypeAnnotationDeclaration::from_graphql_type_annotation` of what `parse_type_annotation` returns -/
inductive Ty where
  | named (n : Bytes) (nonNull : Bool)
  | list (inner : Ty) (innerSpan : Span) (nonNull : Bool)
  deriving Repr

structure VarDef where
  name : Loc Bytes
  type : Loc Ty
  default : Option (Loc Value)

/-- `ScalarSelectionDirectiveSet` / `ObjectSelectionDirectiveSet` -/
inductive DirSet where
  | none
  | loadable (lazyLoadArtifact : Bool)
  | updatable
  deriving DecidableEq, Repr

mutual
  inductive Sel where
    | scalar (span : Span) (alias : Option (Loc Bytes)) (name : Loc Bytes) (args : List (Loc Arg)) (dirs : DirSet)
    | object (span : Span) (alias : Option (Loc Bytes)) (name : Loc Bytes) (args : List (Loc Arg)) (dirs : DirSet)
        (set : Sels) (setSpan : Span)
  inductive Sels where
    | nil
    | cons (s : Sel) (tl : Sels)
end

structure SelSet where
  sels : Sels
  span : Span

inductive Decl where
  | field (span : Span) (parent name : Loc Bytes) (vars : List (Loc VarDef)) (dirs : Loc (List (Loc Directive)))
      (desc : Option (Loc Bytes)) (set : SelSet) (exportName : Bytes) (sem : List SemTok)
  | pointer (span : Span) (parent name : Loc Bytes) (vars : List (Loc VarDef)) (target : Loc Ty)
      (dirs : Loc (List (Loc Directive))) (desc : Option (Loc Bytes)) (set : SelSet) (exportName : Bytes)
      (sem : List SemTok)
  | entrypoint (span : Span) (parent name : Loc Bytes) (kw dot : Span) (dirs : Loc (List (Loc Directive)))
      (sem : List SemTok)

/-! ## PeekableLexer -/

structure PL where
  src : Bytes
  cur : Tok IsoKind
  rest : List (Tok IsoKind)
  eolp : Nat
  sem : List SemTok      -- most recent first

inductive PRes (α : Type) where
  | ok (a : α) (st : PL)
  | err (d : Diag) (st : PL)
  | panic (site : Site)
  | fuel

@[reducible] def P (α : Type) : Type := PL → PRes α

@[inline] def P.pure {α : Type} (a : α) : P α := fun st => .ok a st

@[inline] def P.bind {α β : Type} (p : P α) (f : α → P β) : P β := fun st =>
  match p st with
  | .ok a st' => f a st'
  | .err d st' => .err d st'
  | .panic s => .panic s
  | .fuel => .fuel

instance : Monad P where
  pure := P.pure
  bind := P.bind

/-- `Err(d)` -/
def fail {α : Type} (d : Diag) : P α := fun st => .err d st
def panic {α : Type} (s : Site) : P α := fun _ => .panic s
def outOfFuel {α : Type} : P α := fun _ => .fuel
def get : P PL := fun st => .ok st st

/-- Run `p` and look at its `Result` instead of propagating it with `?` (the state is kept). -/
def attempt {α : Type} (p : P α) : P (Except Diag α) := fun st =>
  match p st with
  | .ok a st' => .ok (.ok a) st'
  | .err d st' => .ok (.error d) st'
  | .panic s => .panic s
  | .fuel => .fuel

/-- `Span::new` (debug assertion) -/
def spanNew (s e : Nat) : P Span := if s ≤ e then pure ⟨s, e⟩ else panic .spanNew

/-- `&text[a..b]`: `none` where Rust panics -/
def slice (text : Bytes) (a b : Nat) : Option Bytes :=
  if a ≤ b && b ≤ text.length && isBoundary text a && isBoundary text b then some ((text.drop a).take (b - a))
  else none

def eofTok (st : PL) : Tok IsoKind := ⟨.EndOfFile, st.src.length, st.src.length⟩

/-- `PeekableLexer::parse_token` -/
def parseToken (t : ST) : P (Tok IsoKind) := fun st =>
  let (next, rest) := match st.rest with
    | n :: r => (n, r)
    | [] => (eofTok st, [])
  .ok st.cur { st with cur := next, rest := rest, eolp := st.cur.e, sem := ⟨t, ⟨st.cur.s, st.cur.e⟩⟩ :: st.sem }

def tokSpan (t : Tok IsoKind) : Span := ⟨t.s, t.e⟩

def peek : P (Tok IsoKind) := fun st => .ok st.cur st

/-- `PeekableLexer::new` -/
def PL.new (src : Bytes) : PL :=
  let toks := isoTokens src
  let (first, rest) := match toks with
    | n :: r => (n, r)
    | [] => ((⟨.EndOfFile, src.length, src.length⟩ : Tok IsoKind), [])
  { src := src, cur := first, rest := rest, eolp := 0, sem := [] }

/-- `PeekableLexer::source` -/
def source (sp : Span) : P Bytes := fun st =>
  match slice st.src sp.s sp.e with
  | some b => .ok b st
  | none => .panic .sourceSlice

/-- `parse_token_of_kind` -/
def tokenOfKind (k : IsoKind) (t : ST) : P (Tok IsoKind) := do
  let found ← peek
  if found.kind = k then parseToken t else fail ⟨.tok, .span (tokSpan found)⟩

/-- `parse_source_of_kind` / `parse_string_key_type` -/
def sourceOfKind (k : IsoKind) (t : ST) : P (Loc Bytes) := do
  let tok ← tokenOfKind k t
  let text ← source (tokSpan tok)
  pure ⟨text, tokSpan tok⟩

/-- `with_embedded_location_result` -/
def withLoc {α : Type} (p : P α) : P (Loc α) := do
  let start := (← get).cur.s
  let r ← p
  let sp ← spanNew start (← get).eolp
  pure ⟨r, sp⟩

/-- `with_embedded_location_optional_result` -/
def withOptLoc {α : Type} (p : P (Option α)) : P (Option (Loc α)) := do
  let start := (← get).cur.s
  let r ← p
  let st ← get
  match r with
  | none => if start = st.cur.s then pure none else panic .optAdvance
  | some v =>
    let sp ← spanNew start st.eolp
    pure (some ⟨v, sp⟩)

/-- `white_space_span` -/
def whiteSpaceSpan : P Span := do
  let st ← get
  spanNew st.eolp st.cur.s

/-- `remaining_token_span` -/
def remainingTokenSpan : P (Option Span) := do
  let st ← get
  if st.cur.kind = .EndOfFile then pure none
  else
    let next ← parseToken .COMMENT
    let sp ← spanNew next.s st.src.length
    pure (some sp)

/-! ## parse_iso_literal.rs -/

def parseComma : P (Tok IsoKind) := tokenOfKind .Comma .COMMA

def parseLineBreak : P Unit := do
  let ws ← whiteSpaceSpan
  let text ← source ws
  if text.contains 10 then pure ()
  else
    let t ← peek
    fail ⟨.linebreak, .span (tokSpan t)⟩

/-- `parse_comma_or_line_break` (`||` short-circuits) -/
def parseCommaOrLineBreak : P Unit := do
  match ← attempt parseComma with
  | .ok _ => pure ()
  | .error _ =>
    match ← attempt parseLineBreak with
    | .ok _ => pure ()
    | .error _ =>
      let t ← peek
      fail ⟨.sep, .span (tokSpan t)⟩

/-- the loop of `parse_delimited_list` -/
def delimLoop {α : Type} (item : P α) (delim : P Unit) (closeK : IsoKind) (closeT : ST) :
    Nat → List α → P (Loc (List α))
  | 0, _ => outOfFuel
  | fuel + 1, acc => do
    let x ← item
    let acc := acc ++ [x]
    match ← attempt (tokenOfKind closeK closeT) with
    | .ok t => pure ⟨acc, tokSpan t⟩
    | .error _ =>
      delim
      match ← attempt (tokenOfKind closeK closeT) with
      | .ok t => pure ⟨acc, tokSpan t⟩
      | .error _ => delimLoop item delim closeK closeT fuel acc

/-- `parse_delimited_list` -/
def delimitedList {α : Type} (item : P α) (delim : P Unit) (closeK : IsoKind) (closeT : ST) (fuel : Nat) :
    P (Loc (List α)) := do
  match ← attempt (tokenOfKind closeK closeT) with
  | .ok t => pure ⟨[], tokSpan t⟩
  | .error _ => delimLoop item delim closeK closeT fuel []

/-- `str::parse::<i64>()` -/
def digitsVal : Bytes → Nat → Option Nat
  | [], acc => some acc
  | b :: bs, acc => if 48 ≤ b && b ≤ 57 then digitsVal bs (acc * 10 + (b.toNat - 48)) else none

def parseI64 (b : Bytes) : Option Int :=
  let (neg, ds) : Bool × Bytes :=
    match b with
    | 45 :: r => (true, r)
    | 43 :: r => (false, r)
    | _ => (false, b)
  match ds with
  | [] => none
  | _ =>
    match digitsVal ds 0 with
    | none => none
    | some n =>
      if neg then (if n ≤ 9223372036854775808 then some (-(n : Int)) else none)
      else (if n ≤ 9223372036854775807 then some (n : Int) else none)

def kwNull : Bytes := [110, 117, 108, 108]
def kwTrue : Bytes := [116, 114, 117, 101]
def kwFalse : Bytes := [102, 97, 108, 115, 101]
def kwTo : Bytes := [116, 111]
def kwField : Bytes := [102, 105, 101, 108, 100]
def kwPointer : Bytes := [112, 111, 105, 110, 116, 101, 114]
def kwEntrypoint : Bytes := [101, 110, 116, 114, 121, 112, 111, 105, 110, 116]
def kwLoadable : Bytes := [108, 111, 97, 100, 97, 98, 108, 101]
def kwUpdatable : Bytes := [117, 112, 100, 97, 116, 97, 98, 108, 101]
def kwLazyLoadArtifact : Bytes := [108, 97, 122, 121, 76, 111, 97, 100, 65, 114, 116, 105, 102, 97, 99, 116]

/-- `source_with_quotes[1..len - 1]` -/
def stripQuotes (b : Bytes) : P Bytes :=
  if b.length < 2 then panic .stringSlice
  else match slice b 1 (b.length - 1) with
    | some x => pure x
    | none => panic .stringSlice

def entriesOfList : List (Loc Bytes × Loc Value) → Entries
  | [] => .nil
  | (n, v) :: tl => .cons n.item n.span v.item v.span (entriesOfList tl)

/-- `parse_object_entry`, given the value parser -/
def parseObjectEntry (value : P (Loc Value)) : P (Loc Bytes × Loc Value) := do
  let name ← sourceOfKind .Identifier .OBJECT_LITERAL_KEY
  let _ ← tokenOfKind .Colon .COLON
  let v ← value
  pure (name, v)

/-- `parse_non_constant_value` (after fix 1759df9 for the integer branch).  Each `to_control_flow`
alternative that fails leaves the lexer where it got to and the next alternative is tried. -/
def parseValue : Nat → P (Loc Value)
  | 0 => outOfFuel
  | fuel + 1 => do
    -- $variable
    let a ← attempt (do
      let _ ← tokenOfKind .Dollar .VARIABLE_DOLLAR_USAGE
      let name ← sourceOfKind .Identifier .VARIABLE
      pure (⟨.var name.item, name.span⟩ : Loc Value))
    match a with
    | .ok v => pure v
    | .error _ =>
    -- "string"
    let b ← attempt (do
      let s ← sourceOfKind .StringLiteral .STRING_LITERAL
      let inner ← stripQuotes s.item
      pure (⟨.str inner, s.span⟩ : Loc Value))
    match b with
    | .ok v => pure v
    | .error _ =>
    -- integer: once the token is consumed the outcome is final
    match ← attempt (sourceOfKind .IntegerLiteral .NUMBER_LITERAL) with
    | .ok number =>
      match parseI64 number.item with
      | some i => pure ⟨.int i, number.span⟩
      | none => fail ⟨.int, .span number.span⟩
    | .error _ =>
    -- { object }
    let d ← attempt (do
      let openT ← tokenOfKind .OpenBrace .OPEN_BRACE
      let entries ← delimitedList (parseObjectEntry (parseValue fuel)) parseCommaOrLineBreak .CloseBrace .CLOSE_BRACE fuel
      let sp ← spanNew openT.s entries.span.e
      pure (⟨.obj (entriesOfList entries.item), sp⟩ : Loc Value))
    match d with
    | .ok v => pure v
    | .error _ =>
    -- true / false / null
    let e ← attempt (do
      let w ← sourceOfKind .Identifier .BOOL_OR_NULL
      if w.item = kwNull then pure (⟨.null, w.span⟩ : Loc Value)
      else if w.item = kwTrue then pure ⟨.bool true, w.span⟩
      else if w.item = kwFalse then pure ⟨.bool false, w.span⟩
      else fail ⟨.bool, .span w.span⟩)
    match e with
    | .ok v => pure v
    | .error _ => fail ⟨.value, .gen⟩

/-- `parse_argument` -/
def parseArgument (fuel : Nat) : P (Loc Arg) :=
  withLoc (do
    let name ← sourceOfKind .Identifier .ARGUMENT_NAME
    let _ ← tokenOfKind .Colon .COLON
    let v ← parseValue fuel
    pure ⟨name, v⟩)

/-- `parse_optional_arguments` -/
def parseOptionalArguments (fuel : Nat) : P (List (Loc Arg)) := do
  match ← attempt (tokenOfKind .OpenParen .OPEN_PAREN) with
  | .ok _ =>
    let l ← delimitedList (parseArgument fuel) parseCommaOrLineBreak .CloseParen .CLOSE_PAREN fuel
    pure l.item
  | .error _ => pure []

/-- the `while let Ok(token) = …At…` loop of `parse_directives` -/
def directivesLoop (fuel0 : Nat) : Nat → List (Loc Directive) → P (List (Loc Directive))
  | 0, _ => outOfFuel
  | fuel + 1, acc => do
    match ← attempt (tokenOfKind .At .DIRECTIVE_AT) with
    | .error _ => pure acc
    | .ok atTok =>
      let name ← sourceOfKind .Identifier .DIRECTIVE
      let sp ← spanNew atTok.s name.span.e
      let args ← parseOptionalArguments fuel0
      directivesLoop fuel0 fuel (acc ++ [⟨⟨name, args⟩, sp⟩])

/-- `parse_directives` -/
def parseDirectives (fuel : Nat) : P (Loc (List (Loc Directive))) := do
  let r ← withOptLoc (do
    let ds ← directivesLoop fuel fuel []
    if ds.isEmpty then pure none else pure (some ds))
  match r with
  | some l => pure l
  | none => pure ⟨[], ⟨0, 0⟩⟩

/-- `parse_type_annotation` -/
def parseType : Nat → P (Loc Ty)
  | 0 => outOfFuel
  | fuel + 1 =>
    withLoc (do
      let a ← attempt (do
        let name ← sourceOfKind .Identifier .TYPE_ANNOTATION
        let bang ← attempt (tokenOfKind .Exclamation .TYPE_ANNOTATION)
        pure (Ty.named name.item (bang.toBool)))
      match a with
      | .ok t => pure t
      | .error _ =>
      let b ← attempt (do
        let _ ← tokenOfKind .OpenBracket .TYPE_ANNOTATION
        let inner ← parseType fuel
        let _ ← tokenOfKind .CloseBracket .TYPE_ANNOTATION
        let bang ← attempt (tokenOfKind .Exclamation .TYPE_ANNOTATION)
        pure (Ty.list inner.item inner.span (bang.toBool)))
      match b with
      | .ok t => pure t
      | .error _ =>
        let t ← peek
        fail ⟨.type, .span (tokSpan t)⟩)

mutual
  def Value.hasVar : Value → Bool
    | .var _ => true
    | .obj es => es.hasVar
    | _ => false
  def Entries.hasVar : Entries → Bool
    | .nil => false
    | .cons _ _ v _ tl => v.hasVar || tl.hasVar
end

/-- `parse_optional_default_value` -/
def parseOptionalDefaultValue (fuel : Nat) : P (Option (Loc Value)) := do
  match ← attempt (tokenOfKind .Equals .VARIABLE_EQUALS) with
  | .ok _ =>
    let v ← parseValue fuel
    if v.item.hasVar then fail ⟨.const, .span v.span⟩ else pure (some v)
  | .error _ => pure none

/-- `parse_variable_definition` -/
def parseVariableDefinition (fuel : Nat) : P (Loc VarDef) :=
  withLoc (do
    let _ ← tokenOfKind .Dollar .VARIABLE_DOLLAR_DECLARATION
    let name ← sourceOfKind .Identifier .VARIABLE
    let _ ← tokenOfKind .Colon .COLON
    let ty ← parseType fuel
    let dv ← parseOptionalDefaultValue fuel
    pure ⟨name, ty, dv⟩)

/-- `parse_variable_definitions` -/
def parseVariableDefinitions (fuel : Nat) : P (List (Loc VarDef)) := do
  match ← attempt (tokenOfKind .OpenParen .OPEN_PAREN) with
  | .ok _ =>
    let l ← delimitedList (parseVariableDefinition fuel) parseCommaOrLineBreak .CloseParen .CLOSE_PAREN fuel
    pure l.item
  | .error _ => pure []

/-! ### description.rs -/

/-- `str::lines()`: split at `\n`, a `\r` right before the `\n` is dropped, no final empty line. -/
def linesAux : Bytes → Bytes → List Bytes
  | [], cur => if cur.isEmpty then [] else [cur.reverse]
  | 10 :: tl, cur =>
    let line := match cur with
      | 13 :: c => c.reverse
      | _ => cur.reverse
    line :: linesAux tl []
  | b :: tl, cur => linesAux tl (b :: cur)

def lines (b : Bytes) : List Bytes := linesAux b []

def isWs (b : UInt8) : Bool := b == 32 || b == 9

def firstNonWs : Bytes → Nat → Option Nat
  | [], _ => none
  | b :: tl, i => if isWs b then firstNonWs tl (i + 1) else some i

/-- `get_common_indent` -/
def commonIndent (inner : Bytes) : Nat :=
  let go := (lines inner).drop 1 |>.foldl (fun (acc : Option Nat) line =>
    match firstNonWs line 0 with
    | some i => (match acc with | some a => if i < a then some i else some a | none => some i)
    | none => acc) none
  go.getD 0

def lineIsWs (l : Bytes) : Bool := l.all isWs

/-- number of bytes of the first `n` characters of `l` -/
def skipChars (l : Bytes) (n : Nat) : Bytes := ((groups l).drop n).flatten

def joinLines : List Bytes → Bytes
  | [] => []
  | [l] => l
  | l :: tl => l ++ [10] ++ joinLines tl

/-- `clean_block_string_literal` -/
def cleanBlockString (src : Bytes) : P Bytes :=
  if src.length < 6 then panic .blockSlice
  else match slice src 3 (src.length - 3) with
    | none => panic .blockSlice
    | some inner =>
      let indent := commonIndent inner
      let ls := lines inner
      let formatted := match ls with
        | [] => []
        | l :: tl => l :: tl.map (fun x => skipChars x indent)
      let trimmedFront := formatted.dropWhile lineIsWs
      let trimmed := (trimmedFront.reverse.dropWhile lineIsWs).reverse
      pure (joinLines trimmed)

/-- `parse_optional_description` -/
def parseOptionalDescription : P (Option (Loc Bytes)) := do
  match ← attempt (sourceOfKind .StringLiteral .COMMENT) with
  | .ok s =>
    let inner ← stripQuotes s.item
    pure (some ⟨inner, s.span⟩)
  | .error _ =>
    match ← attempt (sourceOfKind .BlockStringLiteral .COMMENT) with
    | .ok s =>
      let c ← cleanBlockString s.item
      pure (some ⟨c, s.span⟩)
    | .error _ => pure none

/-! ### selection directives (`from_isograph_field_directives::<…SelectionDirectiveSet>`) -/

def Value.isVarOrObj : Value → Bool
  | .var _ => true
  | .obj _ => true
  | _ => false

/-- serde buffers every argument value first; a variable / object is an error (fix d3ab1d7) -/
def directivesBufferable (ds : List (Loc Directive)) : Bool :=
  ds.all fun d => d.item.args.all fun a => !a.item.value.item.isVarOrObj

/-- `LoadableDirectiveSet`: exactly `@loadable` with at most `lazyLoadArtifact: <bool>` -/
def asLoadable (ds : List (Loc Directive)) : Option Bool :=
  match ds with
  | [d] =>
    if d.item.name.item = kwLoadable then
      match d.item.args with
      | [] => some false
      | [a] =>
        if a.item.name.item = kwLazyLoadArtifact then
          match a.item.value.item with
          | .bool b => some b
          | _ => none
        else none
      | _ => none
    else none
  | _ => none

def asUpdatable (ds : List (Loc Directive)) : Bool :=
  match ds with
  | [d] => d.item.name.item = kwUpdatable && d.item.args.isEmpty
  | _ => false

def selectionDirectiveSet (isObject : Bool) (ds : Loc (List (Loc Directive))) : P DirSet :=
  if !directivesBufferable ds.item then fail ⟨.directive, .span ds.span⟩
  else
    match (if isObject then none else asLoadable ds.item) with
    | some b => pure (.loadable b)
    | none =>
      if asUpdatable ds.item then pure .updatable
      else if ds.item.isEmpty then pure .none
      else fail ⟨.directive, .span ds.span⟩

/-! ### selections -/

/-- `parse_up_to_three_dots` -/
def parseUpToThreeDots : P (Option Span) := do
  let r ← attempt (withLoc (do
    let _ ← sourceOfKind .Period .DOT
    if (← peek).kind = .Period then
      let _ ← sourceOfKind .Period .DOT
      if (← peek).kind = .Period then
        let _ ← sourceOfKind .Period .DOT
        pure ()
      else pure ()
    else pure ()))
  match r with
  | .ok l => pure (some l.span)
  | .error _ => pure none

/-- `parse_optional_alias_and_field_name` -/
def parseOptionalAliasAndFieldName : P (Loc Bytes × Option (Loc Bytes)) := do
  let first ← sourceOfKind .Identifier .SELECTION_NAME_OR_ALIAS
  match ← attempt (tokenOfKind .Colon .COLON) with
  | .ok _ =>
    let name ← sourceOfKind .Identifier .SELECTION_NAME_OR_ALIAS_POST_COLON
    pure (name, some first)
  | .error _ => pure (first, none)

/-- what `parse_selection` parses inside its `with_embedded_location_result` -/
structure SelBody where
  alias : Option (Loc Bytes)
  name : Loc Bytes
  args : List (Loc Arg)
  dirs : DirSet
  set : Option (Loc Sels)

def SelBody.toSel (b : SelBody) (sp : Span) : Sel :=
  match b.set with
  | some s => .object sp b.alias b.name b.args b.dirs s.item s.span
  | none => .scalar sp b.alias b.name b.args b.dirs

/-- `parse_selection`, given the parser of a nested optional selection set -/
def parseSelection (fuel : Nat) (optSet : P (Option (Loc Sels))) : P Sel := do
  let r ← withLoc (do
    match ← parseUpToThreeDots with
    | some sp => fail ⟨.spread, .span sp⟩
    | none =>
      let (name, alias) ← parseOptionalAliasAndFieldName
      let args ← parseOptionalArguments fuel
      let dirs ← parseDirectives fuel
      let set ← optSet
      parseCommaOrLineBreak
      let ds ← selectionDirectiveSet set.isSome dirs
      pure (⟨alias, name, args, ds, set⟩ : SelBody))
  pure (r.item.toSel r.span)

def selsOfList : List Sel → Sels
  | [] => .nil
  | s :: tl => .cons s (selsOfList tl)

/-- the `while …CloseBrace….is_err()` loop of `parse_optional_selection_set_inner`; a nested
selection set is `parse_optional_selection_set` = `with_embedded_location_optional_result` around
"`{` then this loop". -/
def selLoop (fuel0 : Nat) : Nat → List Sel → P (List Sel)
  | 0, _ => outOfFuel
  | fuel + 1, acc => do
    match ← attempt (tokenOfKind .CloseBrace .CLOSE_BRACE) with
    | .ok _ => pure acc
    | .error _ =>
      let nested : P (Option (Loc Sels)) := withOptLoc (do
        match ← attempt (tokenOfKind .OpenBrace .OPEN_BRACE) with
        | .error _ => pure none
        | .ok _ =>
          let l ← selLoop fuel0 fuel []
          pure (some (selsOfList l)))
      let sel ← parseSelection fuel0 nested
      selLoop fuel0 fuel (acc ++ [sel])

/-- `parse_optional_selection_set` (top level) -/
def parseOptionalSelectionSet (fuel : Nat) : P (Option (Loc Sels)) :=
  withOptLoc (do
    match ← attempt (tokenOfKind .OpenBrace .OPEN_BRACE) with
    | .error _ => pure none
    | .ok _ =>
      let l ← selLoop fuel fuel []
      pure (some (selsOfList l)))

/-! ### declarations -/

def revSem : P (List SemTok) := do pure (← get).sem.reverse

/-- the parts of a field / pointer / entrypoint declaration parsed inside `with_embedded_location_result` -/
inductive DeclBody where
  | field (parent name : Loc Bytes) (vars : List (Loc VarDef)) (dirs : Loc (List (Loc Directive)))
      (desc : Option (Loc Bytes)) (set : Loc Sels) (exportName : Bytes) (sem : List SemTok)
  | pointer (parent name : Loc Bytes) (vars : List (Loc VarDef)) (target : Loc Ty)
      (dirs : Loc (List (Loc Directive))) (desc : Option (Loc Bytes)) (set : Loc Sels) (exportName : Bytes)
      (sem : List SemTok)
  | entrypoint (parent name : Loc Bytes) (kw dot : Span) (dirs : Loc (List (Loc Directive))) (sem : List SemTok)

def DeclBody.toDecl (b : DeclBody) (sp : Span) : Decl :=
  match b with
  | .field p n v d de set ex sem => .field sp p n v d de ⟨set.item, set.span⟩ ex sem
  | .pointer p n v t d de set ex sem => .pointer sp p n v t d de ⟨set.item, set.span⟩ ex sem
  | .entrypoint p n kw dot d sem => .entrypoint sp p n kw dot d sem

/-- `parse_client_field_declaration_inner` -/
def parseClientFieldDeclarationInner (fuel : Nat) (exportName : Option Bytes) : P Decl := do
  let r ← withLoc (do
    let parent ← sourceOfKind .Identifier .SERVER_OBJECT_TYPE
    let _ ← tokenOfKind .Period .DOT
    let name ← sourceOfKind .Identifier .CLIENT_SELECTABLE_NAME
    let vars ← parseVariableDefinitions fuel
    let dirs ← parseDirectives fuel
    let desc ← parseOptionalDescription
    let set ← parseOptionalSelectionSet fuel
    match set with
    | none => fail ⟨.selset, .span ⟨0, 0⟩⟩
    | some set =>
      match exportName with
      | none => fail ⟨.exportName, .span name.span⟩
      | some ex =>
        let sem ← revSem
        pure (DeclBody.field parent name vars dirs desc set ex sem))
  pure (r.item.toDecl r.span)

/-- `parse_client_pointer_target_type` -/
def parseClientPointerTargetType (fuel : Nat) : P (Loc Ty) := do
  let kw ← sourceOfKind .Identifier .TO
  if kw.item ≠ kwTo then fail ⟨.to, .span kw.span⟩ else parseType fuel

/-- `parse_client_pointer_declaration_inner` -/
def parseClientPointerDeclarationInner (fuel : Nat) (exportName : Option Bytes) : P Decl := do
  let r ← withLoc (do
    let parent ← sourceOfKind .Identifier .SERVER_OBJECT_TYPE
    let _ ← tokenOfKind .Period .DOT
    let name ← sourceOfKind .Identifier .CLIENT_SELECTABLE_NAME
    let vars ← parseVariableDefinitions fuel
    let target ← parseClientPointerTargetType fuel
    let dirs ← parseDirectives fuel
    let desc ← parseOptionalDescription
    let set ← parseOptionalSelectionSet fuel
    match set with
    | none => fail ⟨.selset, .span ⟨0, 0⟩⟩
    | some set =>
      match exportName with
      | none => fail ⟨.exportName, .span name.span⟩
      | some ex =>
        let sem ← revSem
        pure (DeclBody.pointer parent name vars target dirs desc set ex sem))
  pure (r.item.toDecl r.span)

/-- `parse_iso_entrypoint_declaration` (without the leftover check) -/
def parseEntrypointInner (fuel : Nat) (kw : Span) : P Decl := do
  let r ← withLoc (do
    let parent ← sourceOfKind .Identifier .SERVER_OBJECT_TYPE
    let dot ← tokenOfKind .Period .DOT
    let name ← sourceOfKind .Identifier .CLIENT_SELECTABLE_NAME
    let dirs ← parseDirectives fuel
    let sem ← revSem
    pure (DeclBody.entrypoint parent name kw (tokSpan dot) dirs sem))
  pure (r.item.toDecl r.span)

/-- the `remaining_token_span` check after each declaration -/
def noLeftover (d : Decl) : P Decl := do
  match ← remainingTokenSpan with
  | some sp => fail ⟨.leftover, .span sp⟩
  | none => pure d

/-- `parse_iso_literal` after `PeekableLexer::new` -/
def parseIsoLiteral (fuel : Nat) (exportName : Option Bytes) : P Decl := do
  let discriminator ← peek
  let text ← source (tokSpan discriminator)
  if text = kwEntrypoint then
    let kw ← sourceOfKind .Identifier .KEYWORD_USE
    let d ← parseEntrypointInner fuel kw.span
    noLeftover d
  else if text = kwField then
    let _ ← sourceOfKind .Identifier .KEYWORD_DECLARATION
    let d ← parseClientFieldDeclarationInner fuel exportName
    noLeftover d
  else if text = kwPointer then
    let _ ← sourceOfKind .Identifier .KEYWORD_DECLARATION
    let d ← parseClientPointerDeclarationInner fuel exportName
    noLeftover d
  else fail ⟨.start, .span (tokSpan discriminator)⟩

/-- observable outcome -/
inductive Outcome where
  | ok (d : Decl)
  | diag (d : Diag)
  | panic (site : Site)
  | fuel

/-- The model of `parse_iso_literal(text, _, const_export_name, _)`; fuel = number of bytes + 2. -/
def parseIso (src : Bytes) (exportName : Option Bytes) : Outcome :=
  match parseIsoLiteral (src.length + 2) exportName (PL.new src) with
  | .ok d _ => .ok d
  | .err d _ => .diag d
  | .panic s => .panic s
  | .fuel => .fuel

end IsoVerif.IsoParse
