/-
M-ISO / lexer — the iso-literal lexer `IsographLangTokenKind` (crates/isograph_lang_parser/src/token_kind.rs)
as an instance of the generic lexer model `IsoVerif.Lex` over the tables that translator T1
regenerates from the source (`IsoVerif.Gen.IsoTokens`).

Hand-modelled here (pinned by T1, which refuses to translate when the pinned text changes):

* the callbacks `lex_string` / `lex_block_string`: they run the sub-lexers `StringToken` /
  `BlockStringToken` (tables from T1, run by the same generic lexer) over `lexer.remainder()`:
    - `lex_string`: `Quote` → accept, token ends after the quote; `LineTerminator` → reject, token
      ends before the line terminator (`lexer.bump(span.start)`); sub-lexer `Error` or end of input →
      reject, nothing consumed.
    - `lex_block_string`: `TripleQuote` → accept; sub-lexer `Error` (control / non-BMP character) →
      reject, nothing consumed (`return false`, after the fix 1759df9; it was `unreachable!()`); end
      of input → reject.
  `Lexer::bump` asserts a character boundary: the positions handed to it are token boundaries of
  the sub-lexer, which are character boundaries (`Lemmas/Lex.lean`), so that panic site is dead.
* the **number scanner** `numberPre`.  The automaton that logos 0.12 generates does not return to
  the last accepting position when a longer alternative fails after it has already bumped the
  lexer: for a lexeme that starts like `-?[1-9][0-9]*` or `-?0` (not followed by a digit)
      `1.5`    is ONE `IntegerLiteral` token (longest match would give `1.` + `5`),
      `1e+x`   gives `IntegerLiteral "1e"`, `1.5e+` gives `IntegerLiteral "1.5e"`,
      `1e5`/`1.5e5` not followed by `[.a-zA-Z_]` is one `Error` token.
  `numberPre` is a transcription of the generated states (goto98/103/100/57/59/101/61/46/45 of the
  expanded derive) and is valid for exactly the four number regexes and logos 0.12.x that T1 pins.
  Everything else (identifiers, punctuation, white space incl. U+FEFF, strings, `.5`, `-.5`, `007`,
  unmatched characters) goes through the generic longest-match lexer; both are validated against the
  real lexer by the `isolex` engine on arbitrary strings.
-/
import IsoVerif.Model.Lex
import IsoVerif.Gen.IsoTokens

namespace IsoVerif.IsoLex
open IsoVerif.Lex IsoVerif.Gen.IsoTokens

def noCb : String → Option Callback := fun _ => none
def noPre {κ : Type} : List Chr → Option (κ × Nat) := fun _ => none

def stringLexer : Lexer StringKind := { rules := stringRules, err := stringError, cbs := noCb, pre := noPre }
def blockLexer : Lexer BlockKind := { rules := blockRules, err := blockError, cbs := noCb, pre := noPre }

/-- `lex_string`; `k` = characters of the remainder consumed so far. -/
def lexStringLoop : Nat → List Chr → Nat → Bool × Nat
  | 0, _, _ => (false, 0)
  | fuel + 1, cs, k =>
    match step stringLexer cs 0 with
    | none => (false, 0)
    | some (none, n) => lexStringLoop fuel (cs.drop n) (k + n)
    | some (some t, n) =>
      match t.kind with
      | .Quote => (true, k + n)
      | .LineTerminator => (false, k)
      | .Error => (false, 0)
      | _ => lexStringLoop fuel (cs.drop n) (k + n)

def lexStringCb : Callback := fun cs => lexStringLoop cs.length cs 0

/-- `lex_block_string` -/
def lexBlockLoop : Nat → List Chr → Nat → Bool × Nat
  | 0, _, _ => (false, 0)
  | fuel + 1, cs, k =>
    match step blockLexer cs 0 with
    | none => (false, 0)
    | some (none, n) => lexBlockLoop fuel (cs.drop n) (k + n)
    | some (some t, n) =>
      match t.kind with
      | .TripleQuote => (true, k + n)
      | .Error => (false, 0)
      | _ => lexBlockLoop fuel (cs.drop n) (k + n)

def lexBlockCb : Callback := fun cs => lexBlockLoop cs.length cs 0

def isoCbs : String → Option Callback := fun name =>
  if name = "lex_string" then some lexStringCb
  else if name = "lex_block_string" then some lexBlockCb
  else none

/-! ### the number scanner (logos 0.12 automaton for the four number regexes) -/

def isDigit (c : Nat) : Bool := 48 ≤ c && c ≤ 57
def isAlphaU (c : Nat) : Bool := (97 ≤ c && c ≤ 122) || (65 ≤ c && c ≤ 90) || c == 95
/-- `[.a-zA-Z_]`, the trailing class of `ErrorNumberLiteralTrailingInvalid` -/
def isTrail (c : Nat) : Bool := c == 46 || isAlphaU c
def isE (c : Nat) : Bool := c == 101 || c == 69
def isSign (c : Nat) : Bool := c == 43 || c == 45

def countDigits : List Chr → Nat
  | [] => 0
  | c :: cs => if isDigit c.cp then 1 + countDigits cs else 0

/-- goto61/goto46 then goto45: the exponent digits (at the head of `r`) have been bumped; a trailing
`[.a-zA-Z_]` makes `ErrorNumberLiteralTrailingInvalid`, anything else `lex.error()` right there. -/
def expDigits (r : List Chr) (n : Nat) : IsoKind × Nat :=
  let k := countDigits r
  match r.drop k with
  | c :: _ => if isTrail c.cp then (.ErrorNumberLiteralTrailingInvalid, n + k + 1) else (.Error, n + k)
  | [] => (.Error, n + k)

/-- goto101 / goto59: just after the `e`/`E` (already bumped, `n` characters so far). -/
def expHead (r : List Chr) (n : Nat) : IsoKind × Nat :=
  match r with
  | [] => (.ErrorNumberLiteralTrailingInvalid, n)
  | c :: r' =>
    if isDigit c.cp then expDigits r n
    else if isSign c.cp then
      match r' with
      | d :: _ => if isDigit d.cp then expDigits r' (n + 1) else (.IntegerLiteral, n)
      | [] => (.IntegerLiteral, n)
    else (.ErrorNumberLiteralTrailingInvalid, n)

/-- goto57: after `int . digits` (`n` characters so far, all bumped). -/
def fracTail (r : List Chr) (n : Nat) : IsoKind × Nat :=
  match r with
  | [] => (.IntegerLiteral, n)
  | c :: r' =>
    if isE c.cp then expHead r' (n + 1)
    else if isTrail c.cp then (.ErrorNumberLiteralTrailingInvalid, n + 1)
    else (.IntegerLiteral, n)

/-- goto103 / goto98 after the integer part (`n` characters so far). -/
def intTail (r : List Chr) (n : Nat) : IsoKind × Nat :=
  match r with
  | [] => (.IntegerLiteral, n)
  | c :: r' =>
    if c.cp == 46 then
      match r' with
      | d :: _ =>
        if isDigit d.cp then
          let k := countDigits r'
          fracTail (r'.drop k) (n + 1 + k)
        else (.ErrorNumberLiteralTrailingInvalid, n + 1)
      | [] => (.ErrorNumberLiteralTrailingInvalid, n + 1)
    else if isE c.cp then expHead r' (n + 1)
    else if isAlphaU c.cp then (.ErrorNumberLiteralTrailingInvalid, n + 1)
    else (.IntegerLiteral, n)

/-- Lexemes starting `-?[1-9]` or `-?0` not followed by a digit. -/
def numberPre (cs : List Chr) : Option (IsoKind × Nat) :=
  let (neg, r) : Nat × List Chr :=
    match cs with
    | c :: r => if c.cp == 45 then (1, r) else (0, cs)
    | [] => (0, [])
  match r with
  | d :: r1 =>
    if 49 ≤ d.cp && d.cp ≤ 57 then
      let k := countDigits r1
      some (intTail (r1.drop k) (neg + 1 + k))
    else if d.cp == 48 then
      match r1 with
      | d2 :: _ => if isDigit d2.cp then none else some (intTail r1 (neg + 1))
      | [] => some (.IntegerLiteral, neg + 1)
    else none
  | [] => none

def isoLexer : Lexer IsoKind := { rules := isoRules, err := isoError, cbs := isoCbs, pre := numberPre }

/-- The tokens of an iso literal (skipped white space omitted), byte spans. -/
def isoTokens (s : Bytes) : List (Tok IsoKind) := lex isoLexer s

end IsoVerif.IsoLex
