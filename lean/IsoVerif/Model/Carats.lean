/-
M-TEXT / text_with_carats: executable model of
crates/common_lang_types/src/text_with_carats.rs (`color = false`).

Text is UTF-8 bytes; offsets are byte offsets, as in the Rust code.  Every place where the Rust
code can panic (slicing off a char boundary, u32 underflow, NonZero conversion) is an explicit
`panic` outcome so that totality is a theorem about the model, not an artefact.
-/
import IsoVerif.Model.Util

namespace IsoVerif.Carats
open IsoVerif.Util

inductive SpanState | before | inside | after
deriving DecidableEq, Repr

/-- `str::split('\n')`: always at least one piece. -/
def splitLines : Bytes → List Bytes
  | [] => [[]]
  | b :: bs =>
    if b == 10 then [] :: splitLines bs
    else match splitLines bs with
      | [] => [[b]]            -- unreachable: splitLines is never empty
      | l :: ls => (b :: l) :: ls

/-- A byte that starts a character (not a UTF-8 continuation byte). -/
def isLead (b : UInt8) : Bool := (b &&& 0xC0) != 0x80

/-- `s.is_char_boundary(i)` for valid UTF-8 `s`. -/
def isBoundary (s : Bytes) (i : Nat) : Bool :=
  if i == 0 then true          -- `if index == 0 { return true; }` in core::str
  else if i == s.length then true
  else match s[i]? with
    | some b => isLead b
    | none => false

/-- `s.chars().count()` for valid UTF-8. -/
def charCount (s : Bytes) : Nat := (s.filter isLead).length

structure St where
  cur : Nat := 0
  state : SpanState := .before
  /-- index in `out` of the source line where the span starts (`usize::MAX` = none) -/
  first : Option Nat := none
  last : Nat := 0
  row : Option (Nat × Nat) := none
  out : Array Bytes := #[]
  panicked : Option String := none

def sp : UInt8 := 32
def caret : UInt8 := 94

/-- One iteration of the `for (line_index, line_content)` loop. -/
def stepLine (s e : Nat) (st : St) (lineIndex : Nat) (line : Bytes) : St :=
  if st.panicked.isSome then st else
  let sol := st.cur
  let eol := st.cur + line.length + 1
  let st := { st with cur := eol }
  -- (should_print_carats, new state, row)
  let (print, st) : Bool × St :=
    match st.state with
    | .before =>
      if eol > e then
        if s < sol then (false, { st with panicked := some "col-underflow" })
        else (true, { st with row := some (lineIndex + 1, s - sol + 1), state := .after })
      else if eol > s then
        if s < sol then (false, { st with panicked := some "col-underflow" })
        else (true, { st with row := some (lineIndex + 1, s - sol + 1), state := .inside })
      else (false, st)
    | .inside => (true, if eol > e then { st with state := .after } else st)
    | .after => (false, st)
  if st.panicked.isSome then st else
  if print then
    let lineLen := line.length
    let sc := s - sol
    let ec := min (e - sol) lineLen
    -- the three slices: `[0..sc]`, `[sc..ec]`, `[ec..]`
    if sc > lineLen || !(isBoundary line sc) then { st with panicked := some "slice-prefix" }
    else if ec < sc || !(isBoundary line ec) then { st with panicked := some "slice-highlight" }
    else
      let pre := line.take sc
      let hi := (line.drop sc).take (ec - sc)
      let suf := line.drop ec
      let st := { st with out := st.out.push line }
      if sc != lineLen && ec != 0 then
        let first := match st.first with
          | none => some st.out.size
          | some f => some (min f st.out.size)
        let last := st.out.size + 1
        let carats := List.replicate (charCount pre) sp ++ List.replicate (charCount hi) caret ++
          List.replicate (charCount suf) sp
        { st with first := first, last := last, out := st.out.push carats }
      else st
  else { st with out := st.out.push line }

def joinLines : List Bytes → Bytes
  | [] => []
  | [l] => l
  | l :: ls => l ++ [10] ++ joinLines ls

def foldLines (s e : Nat) : St → Nat → List Bytes → St
  | st, _, [] => st
  | st, i, l :: ls => foldLines s e (stepLine s e st i l) (i + 1) ls

inductive Result
  | ok (text : Bytes) (row : Option (Nat × Nat))
  | panic (site : String)
deriving Repr

/-- `text_with_carats_and_line_count_buffer_and_line_numbers(text, outer, inner, buffer, false)`;
`outerStart` is `outer_span.map(|x| x.start).unwrap_or(0)`. -/
def render (text : Bytes) (outerStart innerStart innerEnd buffer : Nat) : Result :=
  if innerStart == innerEnd then .ok [] none else
  let s := outerStart + innerStart
  let e := outerStart + innerEnd
  let st := foldLines s e {} 0 (splitLines text)
  match st.panicked with
  | some p => .panic p
  | none =>
    match st.first with
    | none => .ok [] st.row
    | some f =>
      let lo := f - (buffer + 1)
      let hi := min (st.last + buffer) st.out.size
      if lo > hi then .panic "output-range" else
      .ok (joinLines ((st.out.toList.drop lo).take (hi - lo))) st.row

end IsoVerif.Carats
