/-
M-CONC, part 1: the index arithmetic of `relay-crates/intern/src/atomic_arena.rs`
(bit level).  The numbers come from `Gen/ArenaConsts.lean` (translator T6), so every theorem
about them is re-proved against the current source.

  fn bucket_capacity(a: usize) -> usize { (1 << 31) >> (a as u32) }
  fn index(i: u32) -> (usize, usize) {
      let a = i.leading_zeros() as usize;
      let b = (i & ((bucket_capacity(0) as u32 - 1) >> a)) as usize;
      (a, b)
  }

A `u32` is modelled as a `Nat` below `2^32`; `indexBV` is the `BitVec 32` reading.
-/
import IsoVerif.Gen.ArenaConsts

namespace IsoVerif.Arena
open IsoVerif.Gen.ArenaConsts

/-- `u32::leading_zeros` (32 for zero). -/
def clz32 (i : Nat) : Nat := if i = 0 then 32 else 31 - Nat.log2 i

/-- `bucket_capacity(a) = (1 << topShift) >> a` (on `usize`; no overflow for `topShift < 64`). -/
def bucketCapacity (a : Nat) : Nat := (1 <<< topShift) >>> a

/-- bucket number: `i.leading_zeros()` -/
def idxA (i : Nat) : Nat := clz32 i

/-- offset in the bucket: `i & ((bucket_capacity(0) as u32 - 1) >> a)` -/
def idxB (i : Nat) : Nat := i &&& ((bucketCapacity 0 - 1) >>> idxA i)

/-- `index(i)`.  `none` is the panic `attempt to shift right with overflow`: with overflow checks
on (the harness and the test profile) `u32 >> 32` panics, which is what `i = 0` produces.
`add_get` never calls it with `i = 0` (`assert!(s >= MIN_SIZE)` comes first). -/
def index (i : Nat) : Option (Nat × Nat) :=
  if 32 ≤ idxA i then none else some (idxA i, idxB i)

/-- `BitVec 32` reading of the same function. -/
def indexBV (i : BitVec 32) : Option (Nat × Nat) := index i.toNat

/-- First biased index stored in bucket `a` (= its capacity: bucket `a` holds the indices whose
top set bit is bit `31 - a`). -/
def bucketBase (a : Nat) : Nat := bucketCapacity a

/-- `Ref::index`: unbias. -/
def unbias (i : Nat) : Nat := i - minSize

/-- Sum of the capacities of the `n` buckets `a, a+1, …, a+n-1`. -/
def capSum : Nat → Nat → Nat
  | _, 0 => 0
  | a, n + 1 => bucketCapacity a + capSum (a + 1) n

end IsoVerif.Arena
