/-
M-LSP / position arithmetic (C23): the specification `utf16Pos` (byte offset ↦ LSP position under
the protocol's UTF-16 column convention) and executable models of the language server's conversion
functions, written against

  crates/isograph_lsp/src/format.rs          char_index_to_position, get_range_of_extraction
  crates/isograph_lsp/src/semantic_tokens.rs delta_line_delta_start, absolutize_relative_token,
                                             concatenate_and_absolutize_relative_tokens,
                                             convert_absolute_token_to_lsp_token
  crates/isograph_lsp/src/hover.rs           find_iso_literal_extraction_under_cursor,
                                             position_in_range, get_index_of_line_char
  crates/isograph_lsp/src/location_utils.rs  isograph_location_to_lsp_location (range part)

as they are after the repairs 25f08fe / 65d5810 / 61b6f0d (UTF-16 columns and lengths).

Text is UTF-8 bytes; offsets are byte offsets, as in the Rust code.  The Rust code iterates over
`char`s; the models iterate over bytes and act on lead bytes only (a continuation byte is never
`\n` and carries no UTF-16 unit), which is the same on valid UTF-8.  Every Rust slice
(`&s[a..b]`, panics off a char boundary or out of range) is an explicit `panic` outcome.
Lines are separated by `\n` only (as in the Rust code): `\r\n` agrees with the protocol for every
position that is not inside the terminator; a lone `\r` terminator is out of scope.
-/
import IsoVerif.Model.Util

namespace IsoVerif.LspPos
open IsoVerif.Util

/-! ## UTF-8 / UTF-16 bookkeeping -/

/-- UTF-8 continuation byte `10xxxxxx`. -/
def isCont (b : UInt8) : Bool := (b &&& 0xC0) == 0x80

/-- UTF-16 code units of the character whose *first* byte is `b` (0 for a continuation byte):
a four-byte sequence (`11110xxx`, an astral character) is a surrogate pair. -/
def units (b : UInt8) : Nat := if isCont b then 0 else if b ≥ 0xF0 then 2 else 1

/-- `s.encode_utf16().count()` for a slice that starts on a character boundary. -/
def utf16Len : Bytes → Nat
  | [] => 0
  | b :: bs => units b + utf16Len bs

def nl : UInt8 := 10

/-- `s.is_char_boundary(i)` for valid UTF-8 `s` (whose first byte is never a continuation byte):
the end of the text, or the first byte of a character. -/
def isBoundary (s : Bytes) (i : Nat) : Bool :=
  if i == s.length then true
  else match s[i]? with
    | some b => !isCont b
    | none => false

/-! ## The specification -/

/-- One byte further: a line feed starts a new line at column 0, any other byte adds its UTF-16
units to the column. -/
def posStep (p : Nat × Nat) (b : UInt8) : Nat × Nat :=
  if b == nl then (p.1 + 1, 0) else (p.1, p.2 + units b)

/-- Position reached from `p` after the text `t`. -/
def advance (p : Nat × Nat) (t : Bytes) : Nat × Nat := t.foldl posStep p

/-- **Spec.** LSP position `(line, UTF-16 column)` of byte offset `off` of the document `s`. -/
def utf16Pos (s : Bytes) (off : Nat) : Nat × Nat := advance (0, 0) (s.take off)

/-- number of line feeds -/
def countNl : Bytes → Nat
  | [] => 0
  | b :: bs => (if b == nl then 1 else 0) + countNl bs

/-- the part of `t` after its last line feed (all of `t` if there is none) -/
def afterLastNl (t : Bytes) : Bytes :=
  let r := t.reverse.takeWhile (· != nl)
  r.reverse

/-- lexicographic order on positions -/
def posLe (a b : Nat × Nat) : Bool := a.1 < b.1 || (a.1 == b.1 && a.2 ≤ b.2)
def posLt (a b : Nat × Nat) : Bool := a.1 < b.1 || (a.1 == b.1 && a.2 < b.2)

/-! ## Outcomes -/

inductive Out (α : Type) where
  | ok (a : α)
  | panic (site : String)
  deriving Repr, DecidableEq

instance : Monad Out where
  pure := .ok
  bind x f := match x with
    | .ok a => f a
    | .panic s => .panic s

/-- `&s[a..b]` -/
def slice (s : Bytes) (a b : Nat) : Out Bytes :=
  if a ≤ b && b ≤ s.length && isBoundary s a && isBoundary s b then .ok ((s.take b).drop a)
  else .panic "slice"

/-! ## `char_index_to_position` (format.rs) -/

/-- the `for (index, ch) in text_before.char_indices()` loop: (line, last_line_start) -/
def scanLines : Bytes → Nat → Nat × Nat → Nat × Nat
  | [], _, acc => acc
  | b :: bs, idx, acc =>
    scanLines bs (idx + 1) (if b == nl then (acc.1 + 1, idx + 1) else acc)

def charIndexToPosition (content : Bytes) (charIndex : Nat) : Out (Nat × Nat) := do
  let textBefore ← slice content 0 charIndex
  let (line, lastLineStart) := scanLines textBefore 0 (0, 0)
  -- `text_before[last_line_start..].encode_utf16().count()`; the start is 0 or just after a `\n`
  pure (line, utf16Len (textBefore.drop lastLineStart))

/-- `get_range_of_extraction`: positions of the two ends of the literal -/
def rangeOfExtraction (content : Bytes) (start len : Nat) : Out ((Nat × Nat) × (Nat × Nat)) := do
  let a ← charIndexToPosition content start
  let b ← charIndexToPosition content (start + len)
  pure (a, b)

/-- range part of `isograph_location_to_lsp_location`: `text_source.span.start + span.{start,end}` -/
def locationRange (content : Bytes) (base s e : Nat) : Out ((Nat × Nat) × (Nat × Nat)) := do
  let a ← charIndexToPosition content (base + s)
  let b ← charIndexToPosition content (base + e)
  pure (a, b)

/-! ## `delta_line_delta_start` (semantic_tokens.rs) -/

def deltaLineDeltaStart (text : Bytes) : Nat × Nat :=
  let (count, lastLineStart) := scanLines text 0 (0, 0)
  (count, utf16Len (text.drop lastLineStart))

/-! ## semantic tokens -/

/-- a semantic token of a literal: span relative to the literal text, LSP token type -/
structure RelTok where
  s : Nat
  e : Nat
  ty : Nat
  deriving Repr, DecidableEq

/-- an accepted literal: start offset of its text in the page and its tokens -/
structure LitToks where
  start : Nat
  toks : List RelTok
  deriving Repr, DecidableEq

/-- `AbsoluteIsographSemanticToken` (`len` is in UTF-16 units since 65d5810) -/
structure AbsTok where
  start : Nat
  len : Nat
  ty : Nat
  deriving Repr, DecidableEq

/-- `LspSemanticToken` -/
structure LspTok where
  deltaLine : Nat
  deltaStart : Nat
  length : Nat
  ty : Nat
  deriving Repr, DecidableEq

/-- `str::split_inclusive('\n')`: pieces keep their line feed; no piece for the empty string. -/
def splitInclusiveAux : Bytes → Bytes → List Bytes
  | [], cur => if cur.isEmpty then [] else [cur.reverse]
  | b :: bs, cur =>
    if b == nl then (b :: cur).reverse :: splitInclusiveAux bs []
    else splitInclusiveAux bs (b :: cur)

def splitInclusive (t : Bytes) : List Bytes := splitInclusiveAux t []

/-- the `.scan(0, ..)` over the pieces -/
def piecesFrom (start ty : Nat) : List Bytes → List AbsTok
  | [] => []
  | p :: ps => ⟨start, utf16Len p, ty⟩ :: piecesFrom (start + p.length) ty ps

/-- `absolutize_relative_token` -/
def absolutize (page : Bytes) (litStart : Nat) (t : RelTok) : Out (List AbsTok) := do
  let content ← slice page (litStart + t.s) (litStart + t.e)
  pure (piecesFrom (litStart + t.s) t.ty (splitInclusive content))

def absolutizeAll (page : Bytes) (litStart : Nat) : List RelTok → Out (List AbsTok)
  | [] => pure []
  | t :: ts => do
    let a ← absolutize page litStart t
    let r ← absolutizeAll page litStart ts
    pure (a ++ r)

/-- `concatenate_and_absolutize_relative_tokens` -/
def concatAbsolutize (page : Bytes) : List LitToks → Out (List AbsTok)
  | [] => pure []
  | l :: ls => do
    let a ← absolutizeAll page l.start l.toks
    let r ← concatAbsolutize page ls
    pure (a ++ r)

/-- `convert_absolute_token_to_lsp_token`: `.scan(0, ..)` with the previous token's start -/
def convertFrom (page : Bytes) (last : Nat) : List AbsTok → Out (List LspTok)
  | [] => pure []
  | t :: ts => do
    let between ← slice page last t.start
    let (dl, ds) := deltaLineDeltaStart between
    let r ← convertFrom page t.start ts
    pure (⟨dl, ds, t.len, t.ty⟩ :: r)

/-- the token part of `get_semantic_tokens` -/
def lspTokens (page : Bytes) (lits : List LitToks) : Out (List LspTok) := do
  let abs ← concatAbsolutize page lits
  convertFrom page 0 abs

/-- A decoded token: line, UTF-16 start column, UTF-16 length, type. -/
structure DecTok where
  line : Nat
  col : Nat
  len : Nat
  ty : Nat
  deriving Repr, DecidableEq

/-- The protocol's decoding of the relative encoding. -/
def decodeFrom (line col : Nat) : List LspTok → List DecTok
  | [] => []
  | t :: ts =>
    let line' := line + t.deltaLine
    let col' := if t.deltaLine == 0 then col + t.deltaStart else t.deltaStart
    ⟨line', col', t.length, t.ty⟩ :: decodeFrom line' col' ts

def decode (ts : List LspTok) : List DecTok := decodeFrom 0 0 ts

/-- **Spec of the token stream.** For every token of every literal, for every per-line piece of
its text (the piece keeps its line feed): where the piece starts, under `utf16Pos`, and how many
UTF-16 units it has. -/
def expectedPieces (page : Bytes) (start ty : Nat) : List Bytes → List DecTok
  | [] => []
  | p :: ps =>
    let pos := utf16Pos page start
    ⟨pos.1, pos.2, utf16Len p, ty⟩ :: expectedPieces page (start + p.length) ty ps

def expectedOfTok (page : Bytes) (litStart : Nat) (t : RelTok) : List DecTok :=
  expectedPieces page (litStart + t.s) t.ty
    (splitInclusive ((page.take (litStart + t.e)).drop (litStart + t.s)))

def expectedTokens (page : Bytes) (lits : List LitToks) : List DecTok :=
  lits.flatMap fun l => l.toks.flatMap (expectedOfTok page l.start)

/-- absolute byte spans of all tokens, in order -/
def absSpans (lits : List LitToks) : List (Nat × Nat) :=
  lits.flatMap fun l => l.toks.map fun t => (l.start + t.s, l.start + t.e)

/-- Well-formed token input (what the lexer/parser produce, C07): non-empty spans on character
boundaries inside the page, each starting at or after the end of the previous one. -/
def spansOk (page : Bytes) : Nat → List (Nat × Nat) → Bool
  | _, [] => true
  | prevEnd, (a, b) :: rest =>
    decide (prevEnd ≤ a) && decide (a < b) && decide (b ≤ page.length) &&
      isBoundary page a && isBoundary page b && spansOk page b rest

/-- increasing and non-overlapping decoded tokens -/
def increasing : List DecTok → Bool
  | [] => true
  | [_] => true
  | a :: b :: rest =>
    (decide (a.line < b.line) || (a.line == b.line && decide (a.col + a.len ≤ b.col))) &&
      increasing (b :: rest)

/-! ## hover / go-to-definition: position ↦ (literal, offset) (hover.rs) -/

/-- `get_index_of_line_char`, phase 1: byte index just after the `n`-th line feed (`n > 0`). -/
def findLineStart : Bytes → Nat → Nat → Option Nat
  | [], _, _ => none
  | b :: bs, idx, n =>
    if b == nl then
      (if n == 1 then some (idx + 1) else findLineStart bs (idx + 1) (n - 1))
    else findLineStart bs (idx + 1) n

/-- phase 2: advance `rem` UTF-16 units along the line; stops at a line feed. -/
def advanceUnits : Bytes → Nat → Nat → Nat
  | [], idx, _ => idx
  | b :: bs, idx, rem =>
    if isCont b then advanceUnits bs (idx + 1) rem
    else if rem == 0 || b == nl then idx
    else advanceUnits bs (idx + 1) (rem - units b)

def getIndexOfLineChar (source : Bytes) (line ch : Nat) : Nat :=
  if line == 0 then advanceUnits source 0 ch
  else match findLineStart source 0 line with
    | none => source.length
    | some ls => advanceUnits (source.drop ls) ls ch

/-- `position_in_range` -/
def positionInRange (start stop target : Nat × Nat) : Bool :=
  !(target.1 < start.1 || (target.1 == start.1 && target.2 < start.2) ||
    target.1 > stop.1 || (target.1 == stop.1 && target.2 > stop.2))

structure FindSt where
  endLine : Nat := 0
  endChar : Nat := 0
  maxPrevEnd : Nat := 0

/-- `find_iso_literal_extraction_under_cursor`; literals are `(start, len)`; result
`(index of the literal, byte offset inside its text)`. -/
def findUnderCursor (content : Bytes) (target : Nat × Nat) :
    List (Nat × Nat) → Nat → FindSt → Out (Option (Nat × Nat))
  | [], _, _ => pure none
  | (start, len) :: rest, k, st => do
    let stop := start + len
    let inter ← slice content st.maxPrevEnd start
    let (il, ic) := deltaLineDeltaStart inter
    let startLine := st.endLine + il
    let startChar := if il > 0 then ic else st.endChar + ic
    let iso ← slice content start stop
    let (ol, oc) := deltaLineDeltaStart iso
    let endLine := startLine + ol
    let endChar := if ol > 0 then oc else startChar + oc
    if positionInRange (startLine, startChar) (endLine, endChar) target then
      let diffLine := target.1 - startLine
      let diffChar := if diffLine > 0 then target.2 else target.2 - startChar
      pure (some (k, getIndexOfLineChar iso diffLine diffChar))
    else
      findUnderCursor content target rest (k + 1) ⟨endLine, endChar, stop⟩

def hoverOffset (content : Bytes) (lits : List (Nat × Nat)) (target : Nat × Nat) :
    Out (Option (Nat × Nat)) :=
  findUnderCursor content target lits 0 {}

/-- Literal extents as the extraction regex produces them: on character boundaries, inside the
page, each starting strictly after the end of the previous one (a back-tick lies between). -/
def litsOk (page : Bytes) : Nat → Bool → List (Nat × Nat) → Bool
  | _, _, [] => true
  | prevEnd, first, (s, l) :: rest =>
    (first && decide (prevEnd ≤ s) || decide (prevEnd < s)) && decide (s + l ≤ page.length) &&
      isBoundary page s && isBoundary page (s + l) && litsOk page (s + l) false rest

end IsoVerif.LspPos
