/-
M-GQL / the decidable oracles of C29 and C30 and their classifiers.

* model answers (what the Lean side predicts the implementation returns):
    `relayExec`, `relaySdl` (+ printed-and-re-parsed tree), `isoSchema`
* reference answers (the specification): `specExec`, `specSdl`, `specSchema`
* verdict: `ok` when the implementation's answer equals the reference answer; otherwise
  `bad:<signature>`, the signature naming the deviation switch (Model/GqlParse.lean `Quirks`) that
  is needed to turn the reference answer into the implementation's answer.  An answer that no
  set of known switches explains gets `bad:unexplained`.
-/
import IsoVerif.Model.GqlSchemaParse
import IsoVerif.Model.GqlPrint

namespace IsoVerif.Gql

/-- the property's domain: documents over the June-2018 character set -/
def inDomain (s : Str) : Bool := s.all isSourceChar

/-! ### model and reference answers -/

def relayExec (s : Str) : Outcome := parseExec true Quirks.relay s
def specExec (s : Str) : Outcome := parseExec false Quirks.spec s

def relaySdl (s : Str) : Outcome := parseSdl true Quirks.relay TsDef.relayProj s
def specSdl (s : Str) : Outcome := parseSdl false Quirks.spec TsDef.relayProj s

/-- print the relay-model tree with relay's printer and parse the text again (relay model) -/
def relayRoundTrip (s : Str) : Option Outcome :=
  match tsDocOf true Quirks.relay s with
  | .ok ds => some (relaySdl (relayPrint ds))
  | _ => none

/-- valid SDL within the supported subset of the compiler's parser: definitions (and, in an
extension document, `extend type`); a schema definition names each root operation type at most
once (§3.2 — the compiler's tree has one slot per operation type). -/
def isoSupported (ext : Bool) : TsDef → Bool
  | .schema _ _ ops =>
    (ops.filter fun o => o.1 == .query).length ≤ 1 && (ops.filter fun o => o.1 == .mutation).length ≤ 1 &&
      (ops.filter fun o => o.1 == .subscription).length ≤ 1
  | .scalar .. | .object .. | .interface .. | .union .. | .enum .. | .input .. | .directive .. => true
  | .extObject .. => ext
  | _ => false

def sdlSubset (relayLexer : Bool) (q : Quirks) (ext : Bool) (s : Str) : Outcome :=
  match tsDocOf relayLexer q s with
  | .ok ds => if ds.all (isoSupported ext) then .accept (tsDocSexp (ds.map TsDef.isoProj)) else .reject
  | .fail => .reject
  | .panic => .panic

def specSchema (ext : Bool) (s : Str) : Outcome := sdlSubset false Quirks.spec ext s
/-- the reference grammar with the compiler's deviation switches (the statement C30 relates the
hand model to) -/
def isoRefSchema (ext : Bool) (s : Str) : Outcome := sdlSubset true Quirks.iso ext s
/-- the hand model of parse_schema.rs -/
def isoSchema (ext : Bool) (s : Str) : Outcome := GqlSchema.parseSchemaText true ext s

/-! ### classification -/

/-- (signature, the switch turned off) in the order in which they are tried -/
def switches : List (String × (Quirks → Quirks)) :=
  [("string-escapes-verbatim", fun q => { q with rawStrings := false }),
   ("lone-cr-block-string", fun q => { q with blockRustLines := false }),
   ("escaped-triple-quote", fun q => { q with blockKeepEscapes := false }),
   ("double-description", fun q => { q with hackSource := false }),
   ("description-on-extension", fun q => { q with descOnExtension := false }),
   ("post-2018:schema-description", fun q => { q with descOnSchema := false }),
   ("post-2018:interface-implements", fun q => { q with interfaceImplements := false }),
   ("post-2018:repeatable", fun q => { q with repeatable := false }),
   ("post-2018:variable-directives", fun q => { q with varDirectives := false }),
   ("post-2018:variable-definition-location", fun q => { q with varDefLocation := false }),
   ("empty-extension", fun q => { q with emptyExtension := false, emptyObjectExtension := false }),
   ("enum-value-reserved-name", fun q => { q with enumReserved := false }),
   ("fragment-named-on", fun q => { q with fragmentNamedOn := false }),
   ("empty-document", fun q => { q with emptyDocument := false }),
   ("int-overflow-i64", fun q => { q with i64Ints := false }),
   ("panic:dangling-description", fun q => { q with panicDanglingString := false }),
   ("directive-definition-missing-at", fun q => { q with missingAt := false }),
   ("directive-location-schema", fun q => { q with noSchemaLocation := false }),
   ("union-without-members", fun q => { q with unionNeedsMembers := false }),
   ("block-string-constant", fun q => { q with noBlockValues := false })]

/-- switch off every switch that is not needed to reproduce `impl`; the signature is the first
switch that has to stay on -/
def neededSwitch (run : Quirks → Outcome) (impl : Outcome) :
    List (String × (Quirks → Quirks)) → Quirks → Option String → Option String
  | [], _, first => first
  | (name, off) :: rest, q, first =>
    if off q == q then neededSwitch run impl rest q first
    else if run (off q) == impl then neededSwitch run impl rest (off q) first
    else neededSwitch run impl rest q (first.or (some name))

def strOfCps (s : Str) : String := String.ofList (s.map Char.ofNat)

/-- relay's lexer reports an error where the specification's lexical grammar has tokens -/
def lexerSignature (s : Str) : Option String :=
  match specLex s, relayLex s with
  | some _, .error k =>
    if k == cps "ErrorNumberLiteralTrailingInvalid" then some "number-followed-by-name"
    else if k == cps "ErrorNumberLiteralLeadingZero" then some "number-leading-zero"
    else some ("lexer:" ++ strOfCps k)
  | some a, .ok b => if a == b then none else some "lexer-tokens-differ"
  | some _, .panic => some "lexer-panic"
  | none, .ok _ => some "lexer-accepts-more"
  | none, _ => none

/-- explanation of `impl ≠ spec` for an implementation that uses relay's lexer and the grammar
`run q` -/
def explain (s : Str) (run : Quirks → Outcome) (all : Quirks) (impl : Outcome) : String :=
  match lexerSignature s with
  | some sig => sig
  | none =>
    if run all != impl then "unexplained"
    else match neededSwitch run impl switches all none with
      | some sig => sig
      | none => "unexplained"

def verdictOf (sig : String) : String := "bad:" ++ sig

/-- C29, executable documents: the oracle on the implementation's answer -/
def c29ExecVerdict (s : Str) (impl : Outcome) : String :=
  if !inDomain s then "ok"
  else if impl == specExec s then "ok"
  else verdictOf (explain s (fun q => parseExec false q s) Quirks.relay impl)

mutual
def Value.anyStr (p : Str → Bool) : Value → Bool
  | .str v => p v
  | .list vs => vs.anyStr p
  | .obj fs => fs.anyStr p
  | _ => false
def ValueList.anyStr (p : Str → Bool) : ValueList → Bool
  | .nil => false
  | .cons v vs => v.anyStr p || vs.anyStr p
def FieldList.anyStr (p : Str → Bool) : FieldList → Bool
  | .nil => false
  | .cons _ v fs => v.anyStr p || fs.anyStr p
end

def dirsAnyStr (p : Str → Bool) (ds : List Dir) : Bool := ds.any fun d => d.args.anyStr p
def inputValAnyStr (p : Str → Bool) (v : InputVal) : Bool :=
  (match v.default with | some d => d.anyStr p | none => false) || dirsAnyStr p v.dirs
def fieldDefAnyStr (p : Str → Bool) (f : FieldDef) : Bool :=
  f.args.any (inputValAnyStr p) || dirsAnyStr p f.dirs

/-- some string *value* (default value, directive argument) of the definition satisfies `p` -/
def TsDef.anyStr (p : Str → Bool) : TsDef → Bool
  | .schema _ dirs _ | .extSchema dirs _ | .scalar _ _ dirs | .extScalar _ dirs
  | .union _ _ dirs _ | .extUnion _ dirs _ => dirsAnyStr p dirs
  | .object _ _ _ dirs fs | .interface _ _ _ dirs fs | .extObject _ _ dirs fs
  | .extInterface _ _ dirs fs => dirsAnyStr p dirs || fs.any (fieldDefAnyStr p)
  | .enum _ _ dirs vs | .extEnum _ dirs vs => dirsAnyStr p dirs || vs.any fun v => dirsAnyStr p v.dirs
  | .input _ _ dirs fs | .extInput _ dirs fs => dirsAnyStr p dirs || fs.any (inputValAnyStr p)
  | .directive _ _ _ args _ _ => args.any (inputValAnyStr p)

/-- the stored text is the body of a quoted string that lexes back to itself -/
def quotable (v : Str) : Bool := lexQuoted (v.length + 2) (v ++ [34]) [] == some (v, [])

/-- C29, printing a parsed schema and re-parsing it: `rt` is the implementation's re-parsed tree
(`none`: the implementation's answer was the same tree) -/
def c29RoundTripSignature (s : Str) (rt : Option Outcome) : Option String :=
  match rt with
  | none => none
  | some o =>
    match tsDocOf true Quirks.relay s with
    | .ok ds =>
      if ds.any (TsDef.anyStr fun v => !quotable v) then some "print-block-string"
      else if o == .accept (tsDocSexp ((ds.map TsDef.printedProj).map TsDef.relayProj)) then
        (if ds.any (fun d => match d with | .directive _ _ _ _ true _ => true | _ => false)
         then some "print-drops-repeatable" else some "print-drops-description")
      else some "roundtrip-unexplained"
    | _ => some "roundtrip-unexplained"

/-- C29, type-system documents -/
def c29SdlVerdict (s : Str) (impl : Outcome) (rt : Option Outcome) : String :=
  if !inDomain s then "ok"
  else if impl != specSdl s then
    verdictOf (explain s (fun q => parseSdl false q TsDef.relayProj s) Quirks.relay impl)
  else match c29RoundTripSignature s rt with
    | some sig => verdictOf sig
    | none => "ok"

/-- C30 -/
def c30Verdict (ext : Bool) (s : Str) (impl : Outcome) : String :=
  if impl == .panic then
    (if inDomain s then verdictOf "panic" else verdictOf "panic:block-string-char")
  else if !inDomain s then "ok"
  else if impl == specSchema ext s then "ok"
  else
    let sig := explain s (fun q => sdlSubset false q ext s) Quirks.iso impl
    if sig != "unexplained" then verdictOf sig
    else if impl == GqlSchema.parseSchemaText true ext s &&
        GqlSchema.parseSchemaText false ext s == isoRefSchema ext s then
      verdictOf "value-alternative-resumes"
    else verdictOf "unexplained"

end IsoVerif.Gql
