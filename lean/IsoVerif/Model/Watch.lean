/-
M-WATCH: executable model of how watch mode keeps the source database in step with the file system.

  crates/isograph_compiler/src/watch.rs         categorize_and_filter_events, process_{create,modify,remove}_event,
                                                categorize_changed_file_and_filter_changes_in_artifact_directory
  crates/isograph_compiler/src/source_files.rs  initialize_sources, update_sources, handle_update_{schema,
                                                schema_extensions, source_file, source_folder}
  crates/isograph_compiler/src/read_files.rs    read_files_in_folder, read_file, is_iso_literal_source_path
  crates/isograph_schema/src/isograph_database.rs  insert_iso_literal, remove_iso_literal, remove_iso_literals_from_path

What is modelled and how.

* A path is the list of its components below the working directory (`Path::starts_with` is the list
  prefix `isPrefix`; the old string comparison is `strPrefix` on the `/`-joined bytes).  A file
  content is abstracted to an identifier and ONE bit: whether `String::from_utf8` accepts it.
* The file system is an association list `path ↦ file content | dir`; its meaning is the lookup
  `Fs.get` (first binding).  Only what the code asks of it is modelled: `is_file`, `exists`,
  `read_dir` recursion (every file below a folder), `fs::read`.  Permission errors, symbolic links and
  changes between the moment an event batch is categorised and the moment it is applied are NOT
  modelled: one state `fs'` serves `categorise` and `updateSources` (the debouncer calls the first,
  the watch loop the second, a channel hop later).
* The three hash / B-tree maps of `IsographDatabase` are association lists with replace-on-insert.
* Six places where the code was found to deviate from "watch = fresh batch compile" (DESIGN F10) are
  parameters (`Facts`), regenerated from the source by translator `t7_watch` into `Gen/WatchLits.lean`;
  the model reproduces the code for either value, the theorems are about the value the source has now.
* Every error return that ends the watch loop (`update_sources(..)?` in `handle_watch_command`) is an
  explicit `Fatal`; `update_sources` goes on with the remaining events and returns all errors, and so
  does the model.  The `panic!`s for events with the wrong number of paths are excluded by the type
  `Raw` (one path, or two for `both`), the `panic!` on a `Config` change is `Fatal.configPanic`.
* The directory walk `visit_dirs_skipping_isograph` does not descend below a directory *named*
  `__isograph`; every file it thereby misses has `__isograph` in its path and is dropped by the
  substring test anyway (the translator checks that the two literals are equal), so the walk is "all
  files below the folder".  The substring test is made on the path relative to the working directory:
  the model assumes that the working directory's own absolute path does not contain `__isograph`.
-/
import IsoVerif.Gen.WatchLits

namespace IsoVerif.Watch

abbrev Name := List UInt8
abbrev Path := List Name

structure Content where
  id : Nat
  utf8 : Bool
deriving DecidableEq, Repr

inductive Node
  | file (c : Content)
  | dir
deriving DecidableEq, Repr

abbrev Fs := List (Path × Node)

def Fs.get : Fs → Path → Option Node
  | [], _ => none
  | (q, n) :: rest, p => if q = p then some n else Fs.get rest p

def isFile (fs : Fs) (p : Path) : Bool :=
  match fs.get p with
  | some (.file _) => true
  | _ => false

def isDir (fs : Fs) (p : Path) : Bool :=
  match fs.get p with
  | some .dir => true
  | _ => false

def pathExists (fs : Fs) (p : Path) : Bool := (fs.get p).isSome

/-- `Path::starts_with`: `a` is `p` or an ancestor of `p`. -/
def isPrefix : Path → Path → Bool
  | [], _ => true
  | _ :: _, [] => false
  | a :: as, b :: bs => decide (a = b) && isPrefix as bs

def bytesPrefix : List UInt8 → List UInt8 → Bool
  | [], _ => true
  | _ :: _, [] => false
  | a :: as, b :: bs => decide (a = b) && bytesPrefix as bs

/-- the path as the string `a/b/c` -/
def pathString : Path → List UInt8
  | [] => []
  | [a] => a
  | a :: rest => a ++ 47 :: pathString rest

/-- `str::starts_with` on the relative path strings (what `remove_iso_literals_from_path` used) -/
def strPrefix (a p : Path) : Bool := bytesPrefix (pathString a) (pathString p)

def containsSub (needle : List UInt8) : List UInt8 → Bool
  | [] => needle.isEmpty
  | c :: rest => bytesPrefix needle (c :: rest) || containsSub needle rest

/-- `Path::extension` of a file name: the part after the last `.`, unless there is no `.` or the only
one is the first byte. -/
def splitLastDot (name : Name) : Option (Name × Name) :=
  let rec go (before : Name) (rest : Name) (best : Option (Name × Name)) : Option (Name × Name) :=
    match rest with
    | [] => best
    | c :: rest' => go (before ++ [c]) rest' (if c = 46 then some (before, rest') else best)
  go [] name none

def extension (name : Name) : Option Name :=
  match splitLastDot name with
  | none => none
  | some (before, after) => if before.isEmpty then none else some after

/-- `is_iso_literal_source_path` (the two filters of `read_files_in_folder`) -/
def passesFilter (p : Path) : Bool :=
  match p.getLast? with
  | none => false
  | some name =>
    (match extension name with
     | none => false
     | some e => Gen.WatchLits.sourceExtensions.contains e)
    && !containsSub Gen.WatchLits.isographMarker (pathString p)

/-- The places where the source was found to deviate (see the translator). -/
structure Facts where
  prefixByComponents : Bool
  singleFileFiltered : Bool
  renameReadsTarget : Bool
  nonUtf8Skipped : Bool
  fromToHandled : Bool
  createFolderHandled : Bool
deriving DecidableEq, Repr

def currentFacts : Facts :=
  { prefixByComponents := Gen.WatchLits.prefixByComponents
    singleFileFiltered := Gen.WatchLits.singleFileFiltered
    renameReadsTarget := Gen.WatchLits.renameReadsTarget
    nonUtf8Skipped := Gen.WatchLits.nonUtf8Skipped
    fromToHandled := Gen.WatchLits.fromToHandled
    createFolderHandled := Gen.WatchLits.createFolderHandled }

def repairedFacts : Facts := ⟨true, true, true, true, true, true⟩
def originalFacts : Facts := ⟨false, false, false, false, false, false⟩

/-- The paths of `CompilerConfig` that the categorisation looks at. -/
structure Cfg where
  projectRoot : Path
  artifactDir : Path
  schema : Path
  exts : List Path
  config : Path
deriving Repr

/-! ### association-list maps -/

abbrev AMap := List (Path × Content)

def AMap.get : AMap → Path → Option Content
  | [], _ => none
  | (q, c) :: rest, p => if q = p then some c else AMap.get rest p

def AMap.remove (m : AMap) (p : Path) : AMap := m.filter (fun kv => !decide (kv.1 = p))

def AMap.insert (m : AMap) (p : Path) (c : Content) : AMap := (p, c) :: m.remove p

/-- `remove_iso_literals_from_path` -/
def removeFromPath (F : Facts) (m : AMap) (folder : Path) : AMap :=
  m.filter (fun kv => !(if F.prefixByComponents then isPrefix folder kv.1 else strPrefix folder kv.1))

structure Db where
  iso : AMap
  schema : Option Content
  exts : AMap
deriving DecidableEq, Repr

inductive Fatal
  | utf8 | read | traverse | schemaNotFound | canonicalize | notAFile | configPanic
deriving DecidableEq, Repr

/-! ### reading -/

/-- `read_file`: `ok none` = skipped with a warning. -/
def readFile (F : Facts) (fs : Fs) (p : Path) : Except Fatal (Option Content) :=
  match fs.get p with
  | some (.file c) =>
    if c.utf8 then .ok (some c) else if F.nonUtf8Skipped then .ok none else .error .utf8
  | _ => .error .read

/-- the files below `d` that the two filters let through, in listing order (shadowed bindings of the
association list are not entries of the directory) -/
def candidates (fs : Fs) (d : Path) : List Path :=
  (fs.filter (fun qn => isPrefix d qn.1 && isFile fs qn.1 && passesFilter qn.1)).map (·.1)

def readAll (F : Facts) (fs : Fs) : List Path → Except Fatal (List (Path × Content))
  | [] => .ok []
  | p :: rest =>
    match readFile F fs p with
    | .error e => .error e
    | .ok none => readAll F fs rest
    | .ok (some c) =>
      match readAll F fs rest with
      | .error e => .error e
      | .ok l => .ok ((p, c) :: l)

/-- `read_files_in_folder` -/
def readFolder (F : Facts) (fs : Fs) (d : Path) : Except Fatal (List (Path × Content)) :=
  if isDir fs d then readAll F fs (candidates fs d) else .error .traverse

def insertAll (m : AMap) : List (Path × Content) → AMap
  | [] => m
  | (p, c) :: rest => insertAll (m.insert p c) rest

/-- `read_schema_file` -/
def readSchema (fs : Fs) (p : Path) : Except Fatal Content :=
  match fs.get p with
  | none => .error .canonicalize
  | some .dir => .error .notAFile
  | some (.file c) => if c.utf8 then .ok c else .error .utf8

/-! ### events -/

/-- A debounced `notify` event as the callback of `create_debounced_file_watcher` receives it.
`remove` stands for `Remove(File | Folder | Any)`, `other` for every kind the code ignores
(`Access(_)`, `Modify(Metadata(_))`, `Create(Other)`, `Remove(Other)`, `Modify(Name(Other))`, …). -/
inductive Raw
  | createFile (p : Path)
  | createFolder (p : Path)
  | data (p : Path)
  | remove (p : Path)
  | both (s t : Path)
  | from_ (p : Path)
  | to (p : Path)
  | any (p : Path)
  | other (p : Path)
deriving DecidableEq, Repr

inductive Kind
  | config | schema | ext | file | folder
deriving DecidableEq, Repr

inductive Change
  | createOrModify (p : Path)
  | rename (s t : Path)
  | remove (p : Path)
deriving DecidableEq, Repr

abbrev SEv := Change × Kind

/-- `categorize_changed_file_and_filter_changes_in_artifact_directory` -/
def categorizePath (cfg : Cfg) (fs : Fs) (p : Path) : Option Kind :=
  if isPrefix cfg.artifactDir p then none
  else if isPrefix cfg.projectRoot p then (if isFile fs p then some .file else some .folder)
  else if p = cfg.schema then some .schema
  else if cfg.exts.contains p then some .ext
  else if p = cfg.config then some .config
  else none

def existsOrRemove (cfg : Cfg) (fs : Fs) (p : Path) : Option SEv :=
  (categorizePath cfg fs p).map fun k =>
    if pathExists fs p then (.createOrModify p, k) else (.remove p, k)

/-- `process_create_event` / `process_modify_event` / `process_remove_event` -/
def processRaw (F : Facts) (cfg : Cfg) (fs : Fs) : Raw → Option SEv
  | .createFile p => (categorizePath cfg fs p).map fun k => (.createOrModify p, k)
  | .createFolder p =>
    if F.createFolderHandled then (categorizePath cfg fs p).map fun k => (.createOrModify p, k) else none
  | .data p => if isFile fs p then (categorizePath cfg fs p).map fun k => (.createOrModify p, k) else none
  | .remove p => (categorizePath cfg fs p).map fun k => (.remove p, k)
  | .any p => existsOrRemove cfg fs p
  | .from_ p => if F.fromToHandled then existsOrRemove cfg fs p else none
  | .to p => if F.fromToHandled then existsOrRemove cfg fs p else none
  | .both s t => (categorizePath cfg fs t).map fun k => (.rename s t, k)
  | .other _ => none

/-- `categorize_and_filter_events` (the caller drops an empty result) -/
def categorise (F : Facts) (cfg : Cfg) (fs : Fs) (evs : List Raw) : List SEv :=
  evs.filterMap (processRaw F cfg fs)

/-! ### `update_sources` -/

/-- `create_or_update_iso_literals` -/
def createOrUpdateIso (F : Facts) (fs : Fs) (db : Db) (p : Path) : Db × Option Fatal :=
  if F.singleFileFiltered && !passesFilter p then (db, none)
  else
    match readFile F fs p with
    | .error e => (db, some e)
    | .ok (some c) => ({ db with iso := db.iso.insert p c }, none)
    | .ok none => ({ db with iso := db.iso.remove p }, none)

/-- `handle_update_source_file` -/
def handleSourceFile (F : Facts) (fs : Fs) (db : Db) : Change → Db × Option Fatal
  | .createOrModify p => createOrUpdateIso F fs db p
  | .rename s t =>
    if F.renameReadsTarget || (db.iso.get s).isSome then
      createOrUpdateIso F fs { db with iso := db.iso.remove s } t
    else (db, none)
  | .remove p => ({ db with iso := db.iso.remove p }, none)

/-- `read_iso_literals_from_folder` -/
def readIsoFromFolder (F : Facts) (fs : Fs) (db : Db) (d : Path) : Db × Option Fatal :=
  match readFolder F fs d with
  | .error e => (db, some e)
  | .ok l => ({ db with iso := insertAll db.iso l }, none)

/-- `handle_update_source_folder` -/
def handleSourceFolder (F : Facts) (fs : Fs) (db : Db) : Change → Db × Option Fatal
  | .createOrModify d => readIsoFromFolder F fs db d
  | .rename s t => readIsoFromFolder F fs { db with iso := removeFromPath F db.iso s } t
  | .remove d => ({ db with iso := removeFromPath F db.iso d }, none)

/-- `handle_update_schema` -/
def handleSchema (cfg : Cfg) (fs : Fs) (db : Db) : Change → Db × Option Fatal
  | .createOrModify _ =>
    match readSchema fs cfg.schema with
    | .ok c => ({ db with schema := some c }, none)
    | .error e => (db, some e)
  | .rename _ t =>
    if cfg.schema = t then (db, none) else ({ db with schema := none }, some .schemaNotFound)
  | .remove _ => ({ db with schema := none }, some .schemaNotFound)

/-- `create_or_update_schema_extension` -/
def createOrUpdateExt (fs : Fs) (db : Db) (p : Path) : Db × Option Fatal :=
  match readSchema fs p with
  | .ok c => ({ db with exts := db.exts.insert p c }, none)
  | .error e => (db, some e)

/-- `handle_update_schema_extensions` -/
def handleExt (cfg : Cfg) (fs : Fs) (db : Db) : Change → Db × Option Fatal
  | .createOrModify p => createOrUpdateExt fs db p
  | .rename s t =>
    if cfg.exts.contains t then createOrUpdateExt fs db t else ({ db with exts := db.exts.remove s }, none)
  | .remove p => ({ db with exts := db.exts.remove p }, none)

def handle (F : Facts) (cfg : Cfg) (fs : Fs) (db : Db) : SEv → Db × Option Fatal
  | (_, .config) => (db, some .configPanic)
  | (c, .schema) => handleSchema cfg fs db c
  | (c, .ext) => handleExt cfg fs db c
  | (c, .file) => handleSourceFile F fs db c
  | (c, .folder) => handleSourceFolder F fs db c

/-- `update_sources`: every event is handled, the errors are collected; a non-empty error list is the
`Err` that makes `handle_watch_command` return. -/
def updateSources (F : Facts) (cfg : Cfg) (fs : Fs) : Db → List SEv → Db × List Fatal
  | db, [] => (db, [])
  | db, e :: rest =>
    let r := handle F cfg fs db e
    let r' := updateSources F cfg fs r.1 rest
    (r'.1, (match r.2 with | some f => [f] | none => []) ++ r'.2)

/-! ### `initialize_sources` (what a fresh batch compile reads) -/

def readExts (fs : Fs) : List Path → Except Fatal AMap
  | [] => .ok []
  | p :: rest =>
    match readSchema fs p with
    | .error e => .error e
    | .ok c =>
      match readExts fs rest with
      | .error e => .error e
      | .ok m => .ok (m.insert p c)

def initializeSources (F : Facts) (cfg : Cfg) (fs : Fs) : Except Fatal Db :=
  match readSchema fs cfg.schema with
  | .error e => .error e
  | .ok sc =>
    match readExts fs cfg.exts with
    | .error e => .error e
    | .ok ex =>
      match readFolder F fs cfg.projectRoot with
      | .error e => .error e
      | .ok l => .ok { iso := insertAll [] l, schema := some sc, exts := ex }

/-! ### the specification side: what the database has to hold for a file system -/

/-- what a batch compile (repaired code) holds for `p`: the content of a UTF-8 file below the project
root whose path passes the filter -/
def expectedIso (cfg : Cfg) (fs : Fs) (p : Path) : Option Content :=
  if isPrefix cfg.projectRoot p && passesFilter p then
    match fs.get p with
    | some (.file c) => if c.utf8 then some c else none
    | _ => none
  else none

def expectedSchema (fs : Fs) (p : Path) : Option Content :=
  match fs.get p with
  | some (.file c) => if c.utf8 then some c else none
  | _ => none

/-- The database holds exactly what `initialize_sources` reads from `fs`. -/
def Reflects (cfg : Cfg) (db : Db) (fs : Fs) : Prop :=
  (∀ p, db.iso.get p = expectedIso cfg fs p) ∧
  db.schema = expectedSchema fs cfg.schema ∧
  (∀ p, db.exts.get p = if cfg.exts.contains p then expectedSchema fs p else none)

/-- What a categorised event says about the source file at `p` when it is read literally against the
current file system: `some (some c)` "p holds c", `some none` "there is no source at p", `none`
nothing.  A file event speaks about its own path (a rename about both), "folder removed / moved
away" about every path below it, "folder appeared / changed" (if it is a folder now) about the sources
that are below it now. -/
def says (cfg : Cfg) (fs : Fs) : SEv → Path → Option (Option Content)
  | (.createOrModify a, .file), p => if p = a then some (expectedIso cfg fs a) else none
  | (.remove a, .file), p => if p = a then some none else none
  | (.rename s t, .file), p =>
    if p = t then some (expectedIso cfg fs t) else if p = s then some none else none
  | (.createOrModify d, .folder), p =>
    if isDir fs d && isPrefix d p && (expectedIso cfg fs p).isSome then some (expectedIso cfg fs p) else none
  | (.remove d, .folder), p => if isPrefix d p then some none else none
  | (.rename s t, .folder), p =>
    if isDir fs t && isPrefix t p && (expectedIso cfg fs p).isSome then some (expectedIso cfg fs p)
    else if isPrefix s p then some none else none
  | (_, .schema), _ => none
  | (_, .ext), _ => none
  | (_, .config), _ => none

/-- the last thing the batch says about `p` -/
def lastSaying (cfg : Cfg) (fs : Fs) : List SEv → Path → Option (Option Content)
  | [], _ => none
  | e :: rest, p =>
    match lastSaying cfg fs rest p with
    | some v => some v
    | none => says cfg fs e p

def isCreateOrModify : Change → Bool
  | .createOrModify _ => true
  | _ => false

/-- The assumption about the watcher (`notify` + debouncer), for one delivered batch `evs` that takes
the watched tree from `fs` to `fs'`:

* sources: for every path, the last thing the batch says about it (events read literally, against
  `fs'`) is true of `fs'`; a path the batch says nothing about holds the same source in `fs` and `fs'`;
* schema and extensions: they are only ever edited in place (every event about them is a
  create-or-modify of a file that can be read), and an edit that changes what is read is reported. -/
structure SchemaInPlace (F : Facts) (cfg : Cfg) (evs : List Raw) (fs' : Fs) : Prop where
  schemaEvents : ∀ c, (c, Kind.schema) ∈ categorise F cfg fs' evs →
    isCreateOrModify c = true ∧ (expectedSchema fs' cfg.schema).isSome = true
  extEvents : ∀ c, (c, Kind.ext) ∈ categorise F cfg fs' evs →
    ∃ x, c = .createOrModify x ∧ (expectedSchema fs' x).isSome = true
  noConfig : ∀ c, (c, Kind.config) ∉ categorise F cfg fs' evs

structure DeliversAll (F : Facts) (cfg : Cfg) (evs : List Raw) (fs fs' : Fs) : Prop where
  sources : ∀ p, match lastSaying cfg fs' (categorise F cfg fs' evs) p with
    | none => expectedIso cfg fs p = expectedIso cfg fs' p
    | some v => v = expectedIso cfg fs' p
  inPlace : SchemaInPlace F cfg evs fs'
  schemaReported : expectedSchema fs cfg.schema ≠ expectedSchema fs' cfg.schema →
    ∃ c, (c, Kind.schema) ∈ categorise F cfg fs' evs
  extReported : ∀ x, cfg.exts.contains x = true → expectedSchema fs x ≠ expectedSchema fs' x →
    (Change.createOrModify x, Kind.ext) ∈ categorise F cfg fs' evs

/-- No race between the watcher and the file system: a path that an event reports as created (or as
the target of a rename) exists when the batch is handled. -/
def NoRace (fs' : Fs) (evs : List Raw) : Prop :=
  ∀ e ∈ evs, match e with
    | .createFile p => pathExists fs' p = true
    | .createFolder p => pathExists fs' p = true
    | .both _ t => pathExists fs' t = true
    | _ => True

/-! ### decidable forms of the hypotheses (used by the driver on every case and by the examples;
`Lemmas/WatchCheck.lean` proves that they imply the propositions) -/

def sourcesOkAt (F : Facts) (cfg : Cfg) (evs : List Raw) (fs fs' : Fs) (p : Path) : Bool :=
  match lastSaying cfg fs' (categorise F cfg fs' evs) p with
  | none => decide (expectedIso cfg fs p = expectedIso cfg fs' p)
  | some v => decide (v = expectedIso cfg fs' p)

def schemaInPlaceB (F : Facts) (cfg : Cfg) (evs : List Raw) (fs' : Fs) : Bool :=
  (categorise F cfg fs' evs).all fun e =>
    match e.2 with
    | .schema => isCreateOrModify e.1 && (expectedSchema fs' cfg.schema).isSome
    | .ext =>
      (match e.1 with
       | .createOrModify x => (expectedSchema fs' x).isSome
       | _ => false)
    | .config => false
    | _ => true

/-- the paths to look at are the bindings of the two file systems: about any other path every saying
is "no source", which is true -/
def deliversAllB (F : Facts) (cfg : Cfg) (evs : List Raw) (fs fs' : Fs) : Bool :=
  ((fs.map (·.1)) ++ (fs'.map (·.1))).all (sourcesOkAt F cfg evs fs fs')
  && schemaInPlaceB F cfg evs fs'
  && (decide (expectedSchema fs cfg.schema = expectedSchema fs' cfg.schema)
      || (categorise F cfg fs' evs).any (fun e => decide (e.2 = Kind.schema)))
  && cfg.exts.all (fun x =>
      decide (expectedSchema fs x = expectedSchema fs' x)
      || (categorise F cfg fs' evs).any (fun e => decide (e = (Change.createOrModify x, Kind.ext))))

def noRaceB (fs' : Fs) (evs : List Raw) : Bool :=
  evs.all fun e => match e with
    | .createFile p => pathExists fs' p
    | .createFolder p => pathExists fs' p
    | .both _ t => pathExists fs' t
    | _ => true

/-! ### a whole watch session: one batch after the other -/

/-- the database after the batches `(events, file system when they are handled)` -/
def runSession (F : Facts) (cfg : Cfg) (db : Db) : List (List Raw × Fs) → Db
  | [] => db
  | (evs, fs') :: rest =>
    runSession F cfg (updateSources F cfg fs' db (categorise F cfg fs' evs)).1 rest

def lastFs (fs : Fs) : List (List Raw × Fs) → Fs
  | [] => fs
  | (_, fs') :: rest => lastFs fs' rest

/-- every batch of the session delivers all changes since the previous one -/
def DeliversSession (F : Facts) (cfg : Cfg) : Fs → List (List Raw × Fs) → Prop
  | _, [] => True
  | fs, (evs, fs') :: rest => DeliversAll F cfg evs fs fs' ∧ DeliversSession F cfg fs' rest

end IsoVerif.Watch
