/-
M-TEXT / resolve — position resolution (crates/resolve_position, the `#[derive(ResolvePosition)]`
of crates/resolve_position_macros, and its uses in isograph_lang_types) over a generic rose tree of
spans.

What the derive generates for a struct (pinned by T5, `Gen.ResolveShape.derivePin`): for every
`#[resolve_field]` field in declaration order (`Option`/`Vec` iterated in order)
    if field.location.span.contains(position) { return field.item.resolve(new_parent, position) }
and finally `return ResolvedNode::<Struct>(self.path(parent))`.  So: the FIRST resolvable child (in
field order) whose span contains the position is entered, no matter whether a later one contains
it too; nothing is checked for the node itself.  For an enum the derive delegates to the variant's
item without a span check (the root `IsoLiteralExtractionResult`, and `Selection` by hand).
`TypeAnnotationDeclaration` has a hand-written impl that returns itself (a leaf).
`position` is `Span::new(o, o)` (isograph_lsp), and `Span::contains(other)` is
`start <= other.start && end >= other.end`: **both ends inclusive**.

`Tree` is the generic span tree: a node = (kind, span, resolvable children in resolve order).
`resolve` returns the chain "resolved node, its parent, …, root".  `astOf` builds the tree of a
parsed declaration of the parser model following exactly the `#[resolve_field]` fields that T5
extracts (`Gen.ResolveShape.structs`; the translator fails if they differ from what is written
here), the same tree that the hook `verif_dump_tree` dumps from the real AST.
-/
import IsoVerif.Model.IsoParse
import IsoVerif.Gen.ResolveShape

namespace IsoVerif.Resolve
open IsoVerif.IsoParse

/-- the variants of `IsographResolvedNode` -/
inductive NodeKind where
  | EntrypointDeclaration | EntityNameWrapper | Description | ClientFieldDeclaration
  | ClientPointerDeclaration | ScalarSelection | ObjectSelection | ClientScalarSelectableNameWrapper
  | ClientObjectSelectableNameWrapper | SelectionSet | TypeAnnotation | VariableNameWrapper
  | VariableDeclarationInner
  deriving DecidableEq, Repr, Inhabited

def NodeKind.name : NodeKind → String
  | .EntrypointDeclaration => "EntrypointDeclaration" | .EntityNameWrapper => "EntityNameWrapper"
  | .Description => "Description" | .ClientFieldDeclaration => "ClientFieldDeclaration"
  | .ClientPointerDeclaration => "ClientPointerDeclaration" | .ScalarSelection => "ScalarSelection"
  | .ObjectSelection => "ObjectSelection"
  | .ClientScalarSelectableNameWrapper => "ClientScalarSelectableNameWrapper"
  | .ClientObjectSelectableNameWrapper => "ClientObjectSelectableNameWrapper"
  | .SelectionSet => "SelectionSet" | .TypeAnnotation => "TypeAnnotation"
  | .VariableNameWrapper => "VariableNameWrapper" | .VariableDeclarationInner => "VariableDeclarationInner"

mutual
  /-- a node: kind `κ`, span `[s, e]`, resolvable children in the order `resolve` tries them -/
  inductive Tree (κ : Type) where
    | node (kind : κ) (s e : Nat) (children : Forest κ)
  inductive Forest (κ : Type) where
    | nil
    | cons (t : Tree κ) (ts : Forest κ)
end

variable {κ : Type}

def Tree.kind : Tree κ → κ | .node k _ _ _ => k
def Tree.s : Tree κ → Nat | .node _ s _ _ => s
def Tree.e : Tree κ → Nat | .node _ _ e _ => e
def Tree.children : Tree κ → Forest κ | .node _ _ _ c => c

def Forest.toList : Forest κ → List (Tree κ)
  | .nil => []
  | .cons t ts => t :: ts.toList

def Forest.ofList : List (Tree κ) → Forest κ
  | [] => .nil
  | t :: ts => .cons t (Forest.ofList ts)

/-- `Span{s,e}.contains(Span::new(o, o))` -/
def containsOff (s e o : Nat) : Bool := s ≤ o && o ≤ e

def Tree.containsOff (t : Tree κ) (o : Nat) : Bool := Resolve.containsOff t.s t.e o

/-- one link of the returned chain -/
structure Link (κ : Type) where
  kind : κ
  s : Nat
  e : Nat
  deriving DecidableEq, Repr

mutual
  /-- the resolved node followed by its ancestors up to `t` -/
  def resolve (o : Nat) : Tree κ → List (Link κ)
    | .node k s e cs =>
      match resolveIn o cs with
      | some chain => chain ++ [⟨k, s, e⟩]
      | none => [⟨k, s, e⟩]
  /-- the first child (in order) that contains `o` is entered -/
  def resolveIn (o : Nat) : Forest κ → Option (List (Link κ))
    | .nil => none
    | .cons t ts => if containsOff t.s t.e o then some (resolve o t) else resolveIn o ts
end

/-! ## the tree of a parsed declaration -/

def leaf (k : NodeKind) (sp : Span) : Tree NodeKind := .node k sp.s sp.e .nil

mutual
  /-- `SelectionSet { #[resolve_field] selections }` -/
  def selsForest : Sels → Forest NodeKind
    | .nil => .nil
    | .cons s tl => .cons (selTree s) (selsForest tl)
  /-- `ScalarSelection` (no resolve field) / `ObjectSelection { #[resolve_field] selection_set }` -/
  def selTree : Sel → Tree NodeKind
    | .scalar sp _ _ _ _ => .node .ScalarSelection sp.s sp.e .nil
    | .object sp _ _ _ _ set setSpan =>
      .node .ObjectSelection sp.s sp.e (.cons (.node .SelectionSet setSpan.s setSpan.e (selsForest set)) .nil)
end

def selSetTree (s : SelSet) : Tree NodeKind := .node .SelectionSet s.span.s s.span.e (selsForest s.sels)

/-- `VariableDeclarationInner { #[resolve_field] name, #[resolve_field] type_ }` -/
def varTree (v : Loc VarDef) : Tree NodeKind :=
  .node .VariableDeclarationInner v.span.s v.span.e
    (.cons (leaf .VariableNameWrapper v.item.name.span) (.cons (leaf .TypeAnnotation v.item.type.span) .nil))

def optLeaf (k : NodeKind) : Option (Loc Bytes) → List (Tree NodeKind)
  | none => []
  | some d => [leaf k d.span]

/-- the tree `verif_dump_tree` dumps: fields in `#[resolve_field]` declaration order -/
def astOf : Decl → Tree NodeKind
  | .field sp parent name vars _ desc set _ _ =>
    .node .ClientFieldDeclaration sp.s sp.e (Forest.ofList (
      [leaf .EntityNameWrapper parent.span, leaf .ClientScalarSelectableNameWrapper name.span] ++
      optLeaf .Description desc ++ [selSetTree set] ++ vars.map varTree))
  | .pointer sp parent name vars target _ desc set _ _ =>
    .node .ClientPointerDeclaration sp.s sp.e (Forest.ofList (
      [leaf .EntityNameWrapper parent.span, leaf .ClientObjectSelectableNameWrapper name.span,
       leaf .TypeAnnotation target.span] ++
      optLeaf .Description desc ++ [selSetTree set] ++ vars.map varTree))
  | .entrypoint sp parent name _ _ _ _ =>
    .node .EntrypointDeclaration sp.s sp.e (Forest.ofList
      [leaf .EntityNameWrapper parent.span, leaf .ClientScalarSelectableNameWrapper name.span])

end IsoVerif.Resolve
