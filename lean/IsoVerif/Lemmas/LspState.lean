/-
Lemmas for C21 (the language server's view of file contents): the server's two maps track the
world's maps pointwise; the memo layer (`stale`) stays empty when no request precedes the first
buffer notification; a wrong answer source is always a stale path with an open buffer.
-/
import IsoVerif.Model.LspState

namespace IsoVerif.Lemmas.LspState
open IsoVerif.Util IsoVerif.LspState

theorem get_set (m : FMap) (q p : Path) (v : Option Bytes) :
    (FMap.set m q v).get p = if q == p then v else m.get p := rfl

/-- the two maps of a server state agree pointwise with those of a world state -/
def MapsAgree (a b : St) : Prop :=
  ∀ p, a.disk.get p = b.disk.get p ∧ a.bufs.get p = b.bufs.get p

theorem applyOp_agree (a b : St) (op : Op) (h : MapsAgree a b) :
    MapsAgree (applyOp a op) (applyOp b op) := by
  intro p
  have hp := h p
  cases op <;> simp [applyOp, get_set, hp.1, hp.2]

theorem srvStep_agree (v : Srv) (s : St) (op : Op) (h : MapsAgree v.st s) :
    MapsAgree (srvStep v op).st (applyOp s op) := by
  cases op with
  | didOpen q t => exact applyOp_agree _ _ _ h
  | didChange q t => exact applyOp_agree _ _ _ h
  | didClose q => exact applyOp_agree _ _ _ h
  | diskRemove q => exact applyOp_agree _ _ _ h
  | diskWrite q t =>
    simp only [srvStep]
    split
    · rename_i heq
      have heq' : v.st.disk.get q = some t := by simpa using heq
      intro p
      have hp := h p
      simp only [applyOp, get_set]
      refine ⟨?_, hp.2⟩
      by_cases hqp : q = p
      · subst hqp; simp [heq']
      · have : (q == p) = false := by simpa using hqp
        simp [this, hp.1]
    · exact applyOp_agree _ _ _ h
  | check =>
    simp only [srvStep]
    split
    · exact h
    · exact h

theorem srvRun_agree (hist : List Op) (v : Srv) (s : St) (h : MapsAgree v.st s) :
    MapsAgree (srvRun v hist).st (runOps s hist) := by
  induction hist generalizing v s with
  | nil => exact h
  | cons op rest ih =>
    simp only [srvRun, runOps, List.foldl_cons]
    exact ih (srvStep v op) (applyOp s op) (srvStep_agree v s op h)

theorem srv_maps (d0 : FMap) (hist : List Op) (p : Path) :
    (srvRun (start d0) hist).st.disk.get p = (runOps ⟨d0, []⟩ hist).disk.get p ∧
    (srvRun (start d0) hist).st.bufs.get p = (runOps ⟨d0, []⟩ hist).bufs.get p :=
  srvRun_agree hist (start d0) ⟨d0, []⟩ (fun _ => ⟨rfl, rfl⟩) p

theorem srv_effective (d0 : FMap) (hist : List Op) (p : Path) :
    effective (srvRun (start d0) hist).st p =
      effective (fresh (runOps ⟨d0, []⟩ hist).disk (runOps ⟨d0, []⟩ hist).bufs) p := by
  have h := srv_maps d0 hist p
  simp only [effective, fresh, h.1, h.2]

/-- Every request comes after the first buffer notification. -/
def noCheckBeforeBufferOp : List Op → Bool
  | [] => true
  | .check :: _ => false
  | .didOpen _ _ :: _ => true
  | .didChange _ _ :: _ => true
  | .didClose _ :: _ => true
  | _ :: rest => noCheckBeforeBufferOp rest

theorem stale_nil_of_counter (hist : List Op) (v : Srv) (hs : v.stale = [])
    (hc : v.openCounter = true) : (srvRun v hist).stale = [] := by
  induction hist generalizing v with
  | nil => exact hs
  | cons op rest ih =>
    simp only [srvRun, List.foldl_cons]
    apply ih
    · cases op <;> simp only [srvStep] <;> (try split) <;> simp [hs]
    · cases op <;> simp only [srvStep] <;> (try split) <;> simp [hc]

theorem stale_nil_of_no_early_check (hist : List Op) (v : Srv) (hs : v.stale = [])
    (h : noCheckBeforeBufferOp hist = true) : (srvRun v hist).stale = [] := by
  induction hist generalizing v with
  | nil => exact hs
  | cons op rest ih =>
    simp only [srvRun, List.foldl_cons]
    cases op with
    | check => simp [noCheckBeforeBufferOp] at h
    | didOpen q t => exact stale_nil_of_counter rest _ (by simp [srvStep, hs]) (by simp [srvStep])
    | didChange q t => exact stale_nil_of_counter rest _ (by simp [srvStep, hs]) (by simp [srvStep])
    | didClose q => exact stale_nil_of_counter rest _ (by simp [srvStep, hs]) (by simp [srvStep])
    | diskWrite q t =>
      apply ih
      · simp only [srvStep]; split <;> simp [hs]
      · simpa [noCheckBeforeBufferOp] using h
    | diskRemove q =>
      apply ih
      · simp [srvStep, hs]
      · simpa [noCheckBeforeBufferOp] using h

theorem observed_of_stale_nil (v : Srv) (hs : v.stale = []) (p : Path) :
    observed v p = effective v.st p := by
  simp [observed, effective, hs]

theorem srv_observed_of_no_early_check (d0 : FMap) (hist : List Op)
    (h : noCheckBeforeBufferOp hist = true) :
    ∀ p, observed (srvRun (start d0) hist) p =
      effective (fresh (runOps ⟨d0, []⟩ hist).disk (runOps ⟨d0, []⟩ hist).bufs) p := by
  intro p
  rw [observed_of_stale_nil _ (stale_nil_of_no_early_check hist (start d0) rfl h) p]
  exact srv_effective d0 hist p

theorem stale_characterised (v : Srv) (p : Path) (h : observed v p ≠ effective v.st p) :
    v.stale.contains p = true ∧ (v.st.bufs.get p).isSome = true ∧
      observed v p = v.st.disk.get p := by
  simp only [observed, effective] at h ⊢
  cases hd : v.st.disk.get p <;> cases hb : v.st.bufs.get p <;>
    cases hc : v.stale.contains p <;> simp_all

theorem srv_stale_characterised (d0 : FMap) (hist : List Op) (p : Path)
    (h : observed (srvRun (start d0) hist) p ≠ effective (srvRun (start d0) hist).st p) :
    (srvRun (start d0) hist).stale.contains p = true ∧
      ((srvRun (start d0) hist).st.bufs.get p).isSome = true ∧
      observed (srvRun (start d0) hist) p = (srvRun (start d0) hist).st.disk.get p :=
  stale_characterised _ p h

end IsoVerif.Lemmas.LspState
