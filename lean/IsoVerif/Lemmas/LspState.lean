/-
Lemmas for C21 (the language server's view of file contents): the server's two maps track the
world's maps pointwise; the memo layer (`stale`) stays empty when no request precedes the first
buffer notification; a wrong answer source is always a stale path with an open buffer.
-/
import IsoVerif.Model.LspState

namespace IsoVerif.Lemmas.LspState
open IsoVerif.Util IsoVerif.LspState

theorem get_set (m : FMap) (q p : Path) (v : Option Bytes) :
    (FMap.set m q v).get p = if q == p then v else m.get p := rfl

/-- the two maps of a server state agree pointwise with those of a world state -/
def MapsAgree (a b : St) : Prop :=
  ∀ p, a.disk.get p = b.disk.get p ∧ a.bufs.get p = b.bufs.get p

theorem applyOp_agree (a b : St) (op : Op) (h : MapsAgree a b) :
    MapsAgree (applyOp a op) (applyOp b op) := by
  intro p
  have hp := h p
  cases op <;> simp [applyOp, get_set, hp.1, hp.2]

theorem srvStep_agree (tracked : Bool) (v : Srv) (s : St) (op : Op) (h : MapsAgree v.st s) :
    MapsAgree (srvStep tracked v op).st (applyOp s op) := by
  cases op with
  | didOpen q t => exact applyOp_agree _ _ _ h
  | didChange q t => exact applyOp_agree _ _ _ h
  | didClose q => exact applyOp_agree _ _ _ h
  | diskRemove q => exact applyOp_agree _ _ _ h
  | diskWrite q t =>
    simp only [srvStep]
    split
    · rename_i heq
      have heq' : v.st.disk.get q = some t := by simpa using heq
      intro p
      have hp := h p
      simp only [applyOp, get_set]
      refine ⟨?_, hp.2⟩
      by_cases hqp : q = p
      · subst hqp; simp [heq']
      · have : (q == p) = false := by simpa using hqp
        simp [this, hp.1]
    · exact applyOp_agree _ _ _ h
  | check =>
    simp only [srvStep]
    split
    · exact h
    · exact h

theorem srvRun_agree (tracked : Bool) (hist : List Op) (v : Srv) (s : St)
    (h : MapsAgree v.st s) : MapsAgree (srvRun tracked v hist).st (runOps s hist) := by
  induction hist generalizing v s with
  | nil => exact h
  | cons op rest ih =>
    simp only [srvRun, runOps, List.foldl_cons]
    exact ih (srvStep tracked v op) (applyOp s op) (srvStep_agree tracked v s op h)

theorem srv_maps (tracked : Bool) (d0 : FMap) (hist : List Op) (p : Path) :
    (srvRun tracked (start d0) hist).st.disk.get p = (runOps ⟨d0, []⟩ hist).disk.get p ∧
    (srvRun tracked (start d0) hist).st.bufs.get p = (runOps ⟨d0, []⟩ hist).bufs.get p :=
  srvRun_agree tracked hist (start d0) ⟨d0, []⟩ (fun _ => ⟨rfl, rfl⟩) p

theorem srv_effective (tracked : Bool) (d0 : FMap) (hist : List Op) (p : Path) :
    effective (srvRun tracked (start d0) hist).st p =
      effective (fresh (runOps ⟨d0, []⟩ hist).disk (runOps ⟨d0, []⟩ hist).bufs) p := by
  have h := srv_maps tracked d0 hist p
  simp only [effective, fresh, h.1, h.2]

/-- Every request comes after the first buffer notification. -/
def noCheckBeforeBufferOp : List Op → Bool
  | [] => true
  | .check :: _ => false
  | .didOpen _ _ :: _ => true
  | .didChange _ _ :: _ => true
  | .didClose _ :: _ => true
  | _ :: rest => noCheckBeforeBufferOp rest

/-- once the `OpenFileMap` counter exists (or absent singletons are tracked), a request memoises
nothing without a dependency on it -/
theorem stale_nil_of_counter (tracked : Bool) (hist : List Op) (v : Srv) (hs : v.stale = [])
    (hc : (v.openCounter || tracked) = true) : (srvRun tracked v hist).stale = [] := by
  induction hist generalizing v with
  | nil => exact hs
  | cons op rest ih =>
    simp only [srvRun, List.foldl_cons]
    apply ih
    · cases op <;> simp only [srvStep] <;> (try split) <;> simp [hs] <;> simp_all
    · cases op <;> simp only [srvStep] <;> (try split) <;> simp_all

theorem stale_nil_of_no_early_check (tracked : Bool) (hist : List Op) (v : Srv)
    (hs : v.stale = []) (h : noCheckBeforeBufferOp hist = true) :
    (srvRun tracked v hist).stale = [] := by
  induction hist generalizing v with
  | nil => exact hs
  | cons op rest ih =>
    simp only [srvRun, List.foldl_cons]
    cases op with
    | check => simp [noCheckBeforeBufferOp] at h
    | didOpen q t =>
      exact stale_nil_of_counter tracked rest _ (by simp [srvStep, hs]) (by simp [srvStep])
    | didChange q t =>
      exact stale_nil_of_counter tracked rest _ (by simp [srvStep, hs]) (by simp [srvStep])
    | didClose q =>
      exact stale_nil_of_counter tracked rest _ (by simp [srvStep, hs]) (by simp [srvStep])
    | diskWrite q t =>
      apply ih
      · simp only [srvStep]; split <;> simp [hs]
      · simpa [noCheckBeforeBufferOp] using h
    | diskRemove q =>
      apply ih
      · simp [srvStep, hs]
      · simpa [noCheckBeforeBufferOp] using h

theorem observed_of_stale_nil (v : Srv) (hs : v.stale = []) (p : Path) :
    observed v p = effective v.st p := by
  simp [observed, effective, hs]

theorem srv_observed_of_no_early_check (tracked : Bool) (d0 : FMap) (hist : List Op)
    (h : noCheckBeforeBufferOp hist = true) :
    ∀ p, observed (srvRun tracked (start d0) hist) p =
      effective (fresh (runOps ⟨d0, []⟩ hist).disk (runOps ⟨d0, []⟩ hist).bufs) p := by
  intro p
  rw [observed_of_stale_nil _ (stale_nil_of_no_early_check tracked hist (start d0) rfl h) p]
  exact srv_effective tracked d0 hist p

/-- with tracking, `stale` stays empty for every history, hence observed = effective -/
theorem srv_observed_of_tracked (d0 : FMap) (hist : List Op) :
    ∀ p, observed (srvRun true (start d0) hist) p =
      effective (fresh (runOps ⟨d0, []⟩ hist).disk (runOps ⟨d0, []⟩ hist).bufs) p := by
  intro p
  rw [observed_of_stale_nil _ (stale_nil_of_counter true hist (start d0) rfl (by simp)) p]
  exact srv_effective true d0 hist p

theorem stale_characterised (v : Srv) (p : Path) (h : observed v p ≠ effective v.st p) :
    v.stale.contains p = true ∧ (v.st.bufs.get p).isSome = true ∧
      observed v p = v.st.disk.get p := by
  simp only [observed, effective] at h ⊢
  cases hd : v.st.disk.get p <;> cases hb : v.st.bufs.get p <;>
    cases hc : v.stale.contains p <;> simp_all

theorem srv_stale_characterised (tracked : Bool) (d0 : FMap) (hist : List Op) (p : Path)
    (h : observed (srvRun tracked (start d0) hist) p ≠
      effective (srvRun tracked (start d0) hist).st p) :
    (srvRun tracked (start d0) hist).stale.contains p = true ∧
      ((srvRun tracked (start d0) hist).st.bufs.get p).isSome = true ∧
      observed (srvRun tracked (start d0) hist) p =
        (srvRun tracked (start d0) hist).st.disk.get p :=
  stale_characterised _ p h

end IsoVerif.Lemmas.LspState
