/-
Lemmas for C30: the hand model of parse_schema.rs (Model/GqlSchemaParse.lean) against the
reference grammar with the compiler's deviation switches (`pType`, `pValue Quirks.iso`, …), and
totality (no `.panic`).
-/
import IsoVerif.Model.GqlOracle

namespace IsoVerif.GqlSchema
open IsoVerif.Gql

/-- forget the error position -/
def R.toOpt {α : Type} : R α → Option (α × List Tok)
  | .ok a r => some (a, r)
  | .err _ => none
  | .panic => none

def R.isPanic {α : Type} : R α → Bool
  | .panic => true
  | _ => false

theorem tokPunct_cases (p : Punct) (ts : List Tok) :
    (∃ r, ts = .punct p :: r ∧ tokPunct p ts = .ok () r) ∨
    ((∀ r, ts ≠ .punct p :: r) ∧ tokPunct p ts = .err ts) := by
  cases ts with
  | nil => right; exact ⟨by simp, rfl⟩
  | cons t r =>
    cases t with
    | punct p' =>
      by_cases h : p' = p
      · left; subst h; exact ⟨r, rfl, by simp [tokPunct]⟩
      · right; refine ⟨by intro r' h'; simp at h'; exact h h'.1, by simp [tokPunct, h]⟩
    | name _ => right; exact ⟨by simp, rfl⟩
    | int _ => right; exact ⟨by simp, rfl⟩
    | float _ => right; exact ⟨by simp, rfl⟩
    | str _ => right; exact ⟨by simp, rfl⟩
    | block _ => right; exact ⟨by simp, rfl⟩

theorem bangOpt_eq (t : Ty) (r : List Tok) :
    bangOpt t r = match tokPunct .bang r with
      | .ok _ r' => (.nonNull t, r')
      | _ => (t, r) := by
  rcases tokPunct_cases .bang r with ⟨r', h1, h2⟩ | ⟨h1, h2⟩
  · subst h1; simp [bangOpt, h2]
  · rw [h2]
    unfold bangOpt
    split
    · rename_i r' ; exact absurd rfl (h1 r')
    · rfl

/-- `parse_type_annotation` reads exactly the Type of the grammar -/
theorem parseType_eq (f : Nat) : ∀ ts, (parseTypeAnnotation f ts).toOpt = pType f ts := by
  induction f with
  | zero => intro ts; simp [parseTypeAnnotation, pType, R.toOpt]
  | succ f ih =>
    intro ts
    cases ts with
    | nil => simp [parseTypeAnnotation, pType, R.toOpt]
    | cons t r =>
      cases t with
      | name n =>
        simp only [parseTypeAnnotation, pType, bangOpt_eq]
        cases tokPunct .bang r <;> simp [R.toOpt]
      | punct p =>
        cases p <;> try (simp [parseTypeAnnotation, pType, R.toOpt]; done)
        -- lbrack
        simp only [parseTypeAnnotation, pType]
        rw [← ih r]
        cases h : parseTypeAnnotation f r with
        | ok inner r1 =>
          simp only [R.bind, R.toOpt]
          rcases tokPunct_cases .rbrack r1 with ⟨r2, h1, h2⟩ | ⟨h1, h2⟩
          · subst h1
            simp only [h2, bangOpt_eq]
            cases tokPunct .bang r2 <;> simp [R.toOpt]
          · rw [h2]
            simp only [R.toOpt]
            split
            · rename_i t' r' heq
              simp at heq
              exact absurd heq.2 (h1 r')
            · rfl
        | err p => simp [R.bind, R.toOpt]
        | panic => simp [R.bind, R.toOpt]
      | int _ => simp [parseTypeAnnotation, pType, R.toOpt]
      | float _ => simp [parseTypeAnnotation, pType, R.toOpt]
      | str _ => simp [parseTypeAnnotation, pType, R.toOpt]
      | block _ => simp [parseTypeAnnotation, pType, R.toOpt]

theorem iso_flags : Quirks.iso.i64Ints = true ∧ Quirks.iso.noBlockValues = true ∧ Quirks.iso.rawStrings = true ∧
    Quirks.iso.hackSource = false ∧ Quirks.iso.enumReserved = false := by
  refine ⟨rfl, rfl, rfl, rfl, rfl⟩

theorem strValue_iso (raw : Str) : strValue Quirks.iso raw = raw := by
  simp [strValue, iso_flags.2.2.1]

/-- `parse_constant_value` (with the alternatives committed, `resume = false`) reads exactly the
constant Value of the grammar with the compiler's switches -/
theorem value_eq (f : Nat) :
    (∀ ts, (parseConstantValue false false f ts).toOpt = pValue Quirks.iso true f ts) ∧
    (∀ ts, (listItems false f ts).toOpt = pValues Quirks.iso true f ts) ∧
    (∀ ts, (objectItems false f ts).toOpt = pFields Quirks.iso true .rbrace f ts) := by
  induction f with
  | zero => simp [parseConstantValue, listItems, objectItems, pValue, pValues, pFields, R.toOpt]
  | succ f ih =>
    obtain ⟨ihv, ihl, iho⟩ := ih
    refine ⟨?_, ?_, ?_⟩
    · intro ts
      rcases ts with _ | ⟨t, r⟩
      · simp [parseConstantValue, pValue, R.toOpt]
      · cases t with
        | int src =>
          simp only [parseConstantValue, pValue, iso_flags.1]
          by_cases h : fitsI64 (intOfSrc src) = true <;> simp [h, R.toOpt]
        | float src => simp [parseConstantValue, pValue, R.toOpt]
        | str raw => simp [parseConstantValue, pValue, R.toOpt, strValue_iso]
        | block raw => simp [parseConstantValue, pValue, R.toOpt, iso_flags.2.1]
        | name n =>
          simp only [parseConstantValue, pValue]
          by_cases h1 : n == kwTrue <;> by_cases h2 : n == kwFalse <;> by_cases h3 : n == kwNull <;>
            simp [h1, h2, h3, R.toOpt]
        | punct p =>
          cases p with
          | lbrack =>
            simp only [parseConstantValue, pValue]
            rw [← ihl r]
            cases listItems false f r <;> simp [R.toOpt]
          | lbrace =>
            simp only [parseConstantValue, pValue]
            rw [← iho r]
            cases objectItems false f r <;> simp [R.toOpt]
          | dollar =>
            rcases r with _ | ⟨t2, r2⟩
            · simp [parseConstantValue, pValue, R.toOpt]
            · cases t2 <;> simp [parseConstantValue, pValue, R.toOpt]
          | _ => simp [parseConstantValue, pValue, R.toOpt]
    · intro ts
      rcases ts with _ | ⟨t, r⟩
      · simp only [listItems, pValues]
        rw [← ihv []]
        cases parseConstantValue false false f [] <;> simp [R.toOpt]
        rename_i v r'
        rw [← ihl r']
        cases listItems false f r' <;> simp [R.toOpt]
      · by_cases hrb : t = .punct .rbrack
        · subst hrb; simp [listItems, pValues, R.toOpt]
        · have e1 : listItems false (f + 1) (t :: r) =
              match parseConstantValue false false f (t :: r) with
              | .ok v r1 =>
                match listItems false f r1 with
                | .ok vs r' => .ok (.cons v vs) r'
                | .err p => .err p
                | .panic => .panic
              | .err p => .err p
              | .panic => .panic := by
            cases t with
            | punct p => cases p <;> first | (exfalso; exact hrb rfl) | rfl
            | _ => rfl
          have e2 : pValues Quirks.iso true (f + 1) (t :: r) =
              match pValue Quirks.iso true f (t :: r) with
              | some (v, r1) =>
                match pValues Quirks.iso true f r1 with
                | some (vs, r') => some (.cons v vs, r')
                | none => none
              | none => none := by
            cases t with
            | punct p => cases p <;> first | (exfalso; exact hrb rfl) | rfl
            | _ => rfl
          rw [e1, e2, ← ihv (t :: r)]
          cases parseConstantValue false false f (t :: r) <;> simp [R.toOpt]
          rename_i v r'
          rw [← ihl r']
          cases listItems false f r' <;> simp [R.toOpt]
    · intro ts
      rcases ts with _ | ⟨t, r⟩
      · simp [objectItems, pFields, R.toOpt]
      · cases t with
        | punct p => cases p <;> simp [objectItems, pFields, R.toOpt]
        | name n =>
          rcases r with _ | ⟨t2, r2⟩
          · simp [objectItems, pFields, R.toOpt]
          · by_cases hc : t2 = .punct .colon
            · subst hc
              simp only [objectItems, pFields]
              rw [← ihv r2]
              cases parseConstantValue false false f r2 <;> simp [R.toOpt]
              rename_i v r'
              rw [← iho r']
              cases objectItems false f r' <;> simp [R.toOpt]
            · cases t2 with
              | punct p => cases p <;> first | (exfalso; exact hc rfl) | simp [objectItems, pFields, R.toOpt]
              | _ => simp [objectItems, pFields, R.toOpt]
        | _ => simp [objectItems, pFields, R.toOpt]

/-! ### arguments, directives, input values, fields -/

theorem iso_block_flags : Quirks.iso.blockKeepEscapes = true ∧ Quirks.iso.blockRustLines = true := ⟨rfl, rfl⟩

theorem blockValue_iso (raw : Str) : blockValue Quirks.iso raw = cleanBlockString raw := by
  simp [blockValue, cleanBlockString, iso_block_flags.1, iso_block_flags.2]

/-- `parse_optional_description` reads the Description? of the grammar (strings verbatim, block
strings through `clean_block_string_literal`) -/
theorem desc_eq (ts : List Tok) : parseOptionalDescription ts = pDesc Quirks.iso ts := by
  unfold parseOptionalDescription pDesc
  split <;> simp [strValue_iso, blockValue_iso]

theorem toOpt_bind {α β : Type} (x : R α) (k : α → List Tok → R β) :
    (x.bind k).toOpt = match x.toOpt with
      | some (a, r) => (k a r).toOpt
      | none => none := by
  cases x <;> simp [R.bind, R.toOpt]

/-- one `name: value` pair followed by the rest of the argument loop -/
theorem pair_then_more (f : Nat) (ihm : ∀ ts, (parseMoreArguments false f ts).toOpt = pFields Quirks.iso true .rparen f ts)
    (r : List Tok) :
    ((parseNameValuePair false f r).bind fun nv r1 =>
      (parseMoreArguments false f r1).bind fun fs r2 => R.ok (FieldList.cons nv.1 nv.2 fs) r2).toOpt =
    match r with
    | .name n :: .punct .colon :: r' =>
      match pValue Quirks.iso true f r' with
      | some (v, r1) =>
        match pFields Quirks.iso true .rparen f r1 with
        | some (fs, r2) => some (.cons n v fs, r2)
        | none => none
      | none => none
    | _ => none := by
  rcases r with _ | ⟨t, r⟩
  · simp [parseNameValuePair, tokName, R.bind, R.toOpt]
  · cases t with
    | name n =>
      rcases r with _ | ⟨t2, r2⟩
      · simp [parseNameValuePair, tokName, tokPunct, R.bind, R.toOpt]
      · by_cases hc : t2 = .punct .colon
        · subst hc
          simp only [parseNameValuePair, tokName, tokPunct, R.bind, beq_self_eq_true, if_true]
          rw [← (value_eq f).1 r2]
          cases parseConstantValue false false f r2 <;> simp [R.toOpt]
          rename_i v r'
          rw [← ihm r']
          cases parseMoreArguments false f r' <;> simp [R.toOpt]
        · cases t2 with
          | punct p =>
            cases p <;> first | (exfalso; exact hc rfl) | simp [parseNameValuePair, tokName, tokPunct, R.bind, R.toOpt]
          | _ => simp [parseNameValuePair, tokName, tokPunct, R.bind, R.toOpt]
    | _ => simp [parseNameValuePair, tokName, R.bind, R.toOpt]

theorem moreArguments_eq (f : Nat) : ∀ ts, (parseMoreArguments false f ts).toOpt = pFields Quirks.iso true .rparen f ts := by
  induction f with
  | zero => intro ts; simp [parseMoreArguments, pFields, R.toOpt]
  | succ f ih =>
    intro ts
    rcases tokPunct_cases .rparen ts with ⟨r, h1, h2⟩ | ⟨h1, h2⟩
    · subst h1
      simp [parseMoreArguments, h2, pFields, R.toOpt]
    · simp only [parseMoreArguments, h2]
      rw [pair_then_more f ih ts]
      rcases ts with _ | ⟨t, r⟩
      · simp [pFields]
      · cases t with
        | punct p =>
          have : p ≠ .rparen := fun h => h1 r (by rw [h])
          cases p <;> first | (exfalso; exact this rfl) | simp [pFields]
        | name n =>
          rcases r with _ | ⟨t2, r2⟩
          · simp [pFields]
          · cases t2 with
            | punct p => cases p <;> first | (simp [pFields]; done) | (simp only [pFields]; rfl)
            | _ => simp [pFields]
        | _ => simp [pFields]

/-- `parse_optional_constant_arguments` reads Arguments[Const]? -/
theorem args_eq (f : Nat) (ts : List Tok) :
    (parseOptionalConstantArguments false f ts).toOpt = pArgs Quirks.iso true f ts := by
  rcases tokPunct_cases .lparen ts with ⟨r, h1, h2⟩ | ⟨h1, h2⟩
  · subst h1
    simp only [parseOptionalConstantArguments, h2, pArgs]
    cases f with
    | zero => simp [pFields, R.toOpt]
    | succ f =>
      simp only
      rw [pair_then_more f (moreArguments_eq f) r]
      rcases r with _ | ⟨t, r⟩
      · simp [pFields]
      · cases t with
        | punct p => cases p <;> simp [pFields]
        | name n =>
          rcases r with _ | ⟨t2, r2⟩
          · simp [pFields]
          · cases t2 with
            | punct p =>
              cases p <;> simp [pFields]
              -- colon
              cases pValue Quirks.iso true f r2 <;> simp
              rename_i x
              cases pFields Quirks.iso true .rparen f x.2 <;> simp
            | _ => simp [pFields]
        | _ => simp [pFields]
  · simp only [parseOptionalConstantArguments, h2, R.toOpt]
    unfold pArgs
    split
    · rename_i r; exact absurd rfl (h1 r)
    · rfl

/-- `parse_constant_directives` reads Directives[Const]? -/
theorem dirs_eq (f : Nat) : ∀ ts, (parseConstantDirectives false f ts).toOpt = pDirs Quirks.iso true f ts := by
  induction f with
  | zero => intro ts; simp [parseConstantDirectives, pDirs, R.toOpt]
  | succ f ih =>
    intro ts
    rcases tokPunct_cases .at ts with ⟨r, h1, h2⟩ | ⟨h1, h2⟩
    · subst h1
      simp only [parseConstantDirectives, h2]
      rcases r with _ | ⟨t, r⟩
      · simp [tokName, R.bind, R.toOpt, pDirs]
      · cases t with
        | name n =>
          simp only [tokName, R.bind, pDirs]
          rw [← args_eq f r]
          cases parseOptionalConstantArguments false f r <;> simp [R.toOpt]
          rename_i args r1
          rw [← ih r1]
          cases parseConstantDirectives false f r1 <;> simp [R.toOpt]
        | _ => simp [tokName, R.bind, R.toOpt, pDirs]
    · simp only [parseConstantDirectives, h2, R.toOpt]
      unfold pDirs
      split
      · rename_i n r; exact absurd rfl (h1 _)
      · rename_i r _; exact absurd rfl (h1 _)
      · rfl

theorem default_eq (f : Nat) (ts : List Tok) :
    (parseOptionalDefault false f ts).toOpt = pDefault Quirks.iso f ts := by
  rcases tokPunct_cases .eq ts with ⟨r, h1, h2⟩ | ⟨h1, h2⟩
  · subst h1
    simp only [parseOptionalDefault, h2, pDefault]
    rw [← (value_eq f).1 r]
    cases parseConstantValue false false f r <;> simp [R.bind, R.toOpt]
  · simp only [parseOptionalDefault, h2, R.toOpt]
    unfold pDefault
    split
    · rename_i r; exact absurd rfl (h1 r)
    · rfl

/-- `parse_argument_definition` reads InputValueDefinition -/
theorem inputVal_eq (f : Nat) (ts : List Tok) :
    (parseArgumentDefinition false f ts).toOpt = pInputVal Quirks.iso f ts := by
  simp only [parseArgumentDefinition, pInputVal, desc_eq]
  rcases (pDesc Quirks.iso ts).2 with _ | ⟨t, r⟩
  · simp [tokName, R.bind, R.toOpt]
  · cases t with
    | name n =>
      rcases r with _ | ⟨t2, r2⟩
      · simp [tokName, tokPunct, R.bind, R.toOpt]
      · by_cases hc : t2 = .punct .colon
        · subst hc
          simp only [tokName, tokPunct, R.bind, beq_self_eq_true, if_true]
          rw [← parseType_eq f r2]
          cases parseTypeAnnotation f r2 <;> simp [R.toOpt]
          rename_i ty r3
          rw [← default_eq f r3]
          cases parseOptionalDefault false f r3 <;> simp [R.toOpt]
          rename_i dv r4
          rw [← dirs_eq f r4]
          cases parseConstantDirectives false f r4 <;> simp [R.toOpt]
        · cases t2 with
          | punct p => cases p <;> first | (exfalso; exact hc rfl) | simp [tokName, tokPunct, R.bind, R.toOpt]
          | _ => simp [tokName, tokPunct, R.bind, R.toOpt]
    | _ => simp [tokName, R.bind, R.toOpt]

/-- a token list that does not start with the punctuator `p` is not seen as `p` by `pInputVals` -/
theorem pDesc_snd_punct (p : Punct) (r : List Tok) : pDesc Quirks.iso (.punct p :: r) = (none, .punct p :: r) := rfl

theorem pInputVals_step (close : Punct) (f : Nat) (ts : List Tok) (h1 : ∀ r, ts ≠ .punct close :: r) :
    pInputVals Quirks.iso close (f + 1) ts =
      match pInputVal Quirks.iso f ts with
      | some (v, r1) =>
        match pInputVals Quirks.iso close f r1 with
        | some (vs, r2) => some (v :: vs, r2)
        | none => none
      | none => none := by
  rcases ts with _ | ⟨t, r⟩
  · rfl
  · cases t with
    | punct p =>
      have hp : p ≠ close := fun h => h1 r (by rw [h])
      simp [pInputVals, hp, pInputVal, pDesc_snd_punct]
    | _ => rfl

theorem moreArgumentDefinitions_eq (close : Punct) (f : Nat) :
    ∀ ts, (parseMoreArgumentDefinitions false close f ts).toOpt = pInputVals Quirks.iso close f ts := by
  induction f with
  | zero => intro ts; simp [parseMoreArgumentDefinitions, pInputVals, R.toOpt]
  | succ f ih =>
    intro ts
    rcases tokPunct_cases close ts with ⟨r, h1, h2⟩ | ⟨h1, h2⟩
    · subst h1
      simp [parseMoreArgumentDefinitions, h2, pInputVals, R.toOpt]
    · simp only [parseMoreArgumentDefinitions, h2]
      rw [pInputVals_step close f ts h1, toOpt_bind, inputVal_eq]
      cases pInputVal Quirks.iso f ts <;> simp
      rename_i x
      rw [toOpt_bind, ih]
      cases pInputVals Quirks.iso close f x.2 <;> simp [R.toOpt]

/-- `parse_optional_enclosed_items(open, close, parse_argument_definition)` reads
(open InputValueDefinition+ close)? -/
theorem optionalArgumentDefinitions_eq (opn close : Punct) (f : Nat) (ts : List Tok) :
    (parseOptionalArgumentDefinitions false opn close f ts).toOpt = pInputValsOpt Quirks.iso opn close f ts := by
  rcases tokPunct_cases opn ts with ⟨r, h1, h2⟩ | ⟨h1, h2⟩
  · subst h1
    simp only [parseOptionalArgumentDefinitions, h2, pInputValsOpt, beq_self_eq_true, if_true]
    cases f with
    | zero => simp [pInputVals, R.toOpt]
    | succ f =>
      simp only
      rw [toOpt_bind, inputVal_eq]
      rcases r with _ | ⟨t, r'⟩
      · simp [pInputVals, pInputVal, pDesc]
      · by_cases hcl : t = .punct close
        · subst hcl
          simp [pInputVals, pInputVal, pDesc_snd_punct]
        · have unfoldRef := pInputVals_step close f (t :: r') (by intro r hr; simp at hr; exact hcl hr.1)
          rw [unfoldRef]
          cases pInputVal Quirks.iso f (t :: r') <;> simp
          rename_i x
          rw [toOpt_bind, moreArgumentDefinitions_eq]
          cases pInputVals Quirks.iso close f x.2 <;> simp [R.toOpt]
  · simp only [parseOptionalArgumentDefinitions, h2, R.toOpt]
    unfold pInputValsOpt
    split
    · rename_i p r
      split
      · rename_i hp
        have : p = opn := by simpa using hp
        subst this
        exact absurd rfl (h1 r)
      · rfl
    · rfl

/-- `parse_field` reads FieldDefinition -/
theorem field_eq (f : Nat) (ts : List Tok) : (parseField false f ts).toOpt = pFieldDef Quirks.iso f ts := by
  simp only [parseField, pFieldDef, desc_eq, iso_flags.2.2.2.1, Bool.false_eq_true, if_false]
  rcases (pDesc Quirks.iso ts).2 with _ | ⟨t, r⟩
  · simp [tokName, R.bind, R.toOpt]
  · cases t with
    | name n =>
      simp only [tokName, R.bind]
      rw [← optionalArgumentDefinitions_eq .lparen .rparen f r]
      cases parseOptionalArgumentDefinitions false .lparen .rparen f r <;> simp [R.toOpt]
      rename_i args r2
      rcases tokPunct_cases .colon r2 with ⟨r3, h1, h2⟩ | ⟨h1, h2⟩
      · subst h1
        simp only [h2]
        rw [← parseType_eq f r3]
        cases parseTypeAnnotation f r3 <;> simp [R.toOpt]
        rename_i ty r4
        rw [← dirs_eq f r4]
        cases parseConstantDirectives false f r4 <;> simp [R.toOpt]
      · simp only [h2]
        split
        · rename_i heq
          simp at heq
          exact absurd heq.2 (h1 _)
        · rfl
    | _ => simp [tokName, R.bind, R.toOpt]

theorem pFieldDefs_step (f : Nat) (ts : List Tok) (h1 : ∀ r, ts ≠ .punct .rbrace :: r) :
    pFieldDefs Quirks.iso (f + 1) ts =
      match pFieldDef Quirks.iso f ts with
      | some (v, r1) =>
        match pFieldDefs Quirks.iso f r1 with
        | some (vs, r2) => some (v :: vs, r2)
        | none => none
      | none => none := by
  rcases ts with _ | ⟨t, r⟩
  · rfl
  · cases t with
    | punct p =>
      have hp : p ≠ .rbrace := fun h => h1 r (by rw [h])
      cases p <;> first | (exfalso; exact hp rfl) | rfl
    | _ => rfl

theorem moreFields_eq (f : Nat) : ∀ ts, (parseMoreFields false f ts).toOpt = pFieldDefs Quirks.iso f ts := by
  induction f with
  | zero => intro ts; simp [parseMoreFields, pFieldDefs, R.toOpt]
  | succ f ih =>
    intro ts
    rcases tokPunct_cases .rbrace ts with ⟨r, h1, h2⟩ | ⟨h1, h2⟩
    · subst h1
      simp [parseMoreFields, h2, pFieldDefs, R.toOpt]
    · have unfoldRef := pFieldDefs_step f ts h1
      simp only [parseMoreFields, h2]
      rw [unfoldRef, toOpt_bind, field_eq]
      cases pFieldDef Quirks.iso f ts <;> simp
      rename_i x
      rw [toOpt_bind, ih]
      cases pFieldDefs Quirks.iso f x.2 <;> simp [R.toOpt]

/-- `parse_optional_fields` reads FieldsDefinition? -/
theorem optionalFields_eq (f : Nat) (ts : List Tok) :
    (parseOptionalFields false f ts).toOpt = pFieldDefsOpt Quirks.iso f ts := by
  rcases tokPunct_cases .lbrace ts with ⟨r, h1, h2⟩ | ⟨h1, h2⟩
  · subst h1
    simp only [parseOptionalFields, h2, pFieldDefsOpt]
    cases f with
    | zero => simp [pFieldDefs, R.toOpt]
    | succ f =>
      simp only
      rw [toOpt_bind, field_eq]
      by_cases hcl : ∃ r', r = .punct .rbrace :: r'
      · obtain ⟨r', hr⟩ := hcl
        subst hr
        simp [pFieldDefs, pFieldDef, pDesc_snd_punct, iso_flags.2.2.2.1]
      · have unfoldRef := pFieldDefs_step f r (by intro r' hr; exact hcl ⟨r', hr⟩)
        rw [unfoldRef]
        cases pFieldDef Quirks.iso f r <;> simp
        rename_i x
        rw [toOpt_bind, moreFields_eq]
        cases pFieldDefs Quirks.iso f x.2 <;> simp [R.toOpt]
  · simp only [parseOptionalFields, h2, R.toOpt]
    unfold pFieldDefsOpt
    split
    · rename_i r; exact absurd rfl (h1 r)
    · rfl

/-! ### totality: no Rust panic site is reachable -/

def NoPanic {α : Type} (x : R α) : Prop := x ≠ .panic

theorem np_ok {α : Type} (a : α) (r : List Tok) : NoPanic (R.ok a r) := by simp [NoPanic]
theorem np_err {α : Type} (r : List Tok) : NoPanic (R.err r : R α) := by simp [NoPanic]

theorem np_bind {α β : Type} (x : R α) (k : α → List Tok → R β) (hx : NoPanic x)
    (hk : ∀ a r, NoPanic (k a r)) : NoPanic (x.bind k) := by
  cases x with
  | ok a r => exact hk a r
  | err r => simp [R.bind, NoPanic]
  | panic => exact absurd rfl hx

theorem np_tokPunct (p : Punct) (ts : List Tok) : NoPanic (tokPunct p ts) := by
  rcases tokPunct_cases p ts with ⟨r, _, h⟩ | ⟨_, h⟩ <;> simp [h, NoPanic]

theorem np_tokName (ts : List Tok) : NoPanic (tokName ts) := by
  unfold tokName; split <;> simp [NoPanic]

theorem np_matchingIdent (kw : Str) (ts : List Tok) : NoPanic (matchingIdent kw ts) := by
  unfold matchingIdent; split
  · split <;> simp [NoPanic]
  · simp [NoPanic]

theorem np_value (resume : Bool) (f : Nat) :
    (∀ skip ts, NoPanic (parseConstantValue resume skip f ts)) ∧
    (∀ ts, NoPanic (listItems resume f ts)) ∧ (∀ ts, NoPanic (objectItems resume f ts)) := by
  induction f with
  | zero => simp [parseConstantValue, listItems, objectItems, NoPanic]
  | succ f ih =>
    obtain ⟨ihv, ihl, iho⟩ := ih
    refine ⟨?_, ?_, ?_⟩
    · intro skip ts
      unfold parseConstantValue
      split
      · split
        · exact np_err _
        · split
          · exact np_ok _ _
          · split
            · exact ihv _ _
            · exact np_err _
      · exact np_ok _ _
      · exact np_ok _ _
      · split <;> (try split) <;> (try split) <;> exact np_ok _ _
      · have := ihl ‹_›
        split
        · exact np_ok _ _
        · split
          · split
            · have := iho ‹_›
              split <;> simp_all [NoPanic]
            · exact np_err _
          · exact np_err _
        · simp_all [NoPanic]
      · have := iho ‹_›
        split <;> simp_all [NoPanic]
      · exact np_err _
    · intro ts
      unfold listItems
      split
      · exact np_ok _ _
      · have h1 := ihv false ts
        split
        · rename_i v r _
          have h2 := ihl r
          split <;> simp_all [NoPanic]
        · exact np_err _
        · simp_all [NoPanic]
    · intro ts
      unfold objectItems
      split
      · exact np_ok _ _
      · rename_i n r
        have h1 := ihv false r
        split
        · rename_i v r1 _
          have h2 := iho r1
          split <;> simp_all [NoPanic]
        · exact np_err _
        · simp_all [NoPanic]
      · exact np_err _
      · exact np_err _

/-- one step of a no-panic proof for a function written with `R.bind`, `match` and `if` -/
macro "np_step" : tactic => `(tactic| first
  | exact np_ok _ _ | exact np_err _ | exact np_tokPunct _ _ | exact np_tokName _
  | exact np_matchingIdent _ _ | assumption | apply np_bind | intro _ _ | split)

theorem np_parseConstantValue (resume skip : Bool) (f : Nat) (ts : List Tok) :
    NoPanic (parseConstantValue resume skip f ts) := (np_value resume f).1 skip ts

theorem np_nameValuePair (resume : Bool) (f : Nat) (ts : List Tok) : NoPanic (parseNameValuePair resume f ts) := by
  unfold parseNameValuePair
  repeat (first | exact np_parseConstantValue _ _ _ _ | np_step)

theorem np_moreArguments (resume : Bool) (f : Nat) : ∀ ts, NoPanic (parseMoreArguments resume f ts) := by
  induction f with
  | zero => intro ts; exact np_err _
  | succ f ih =>
    intro ts
    unfold parseMoreArguments
    repeat (first | exact np_nameValuePair _ _ _ | exact ih _ | np_step)

theorem np_optionalConstantArguments (resume : Bool) (f : Nat) (ts : List Tok) :
    NoPanic (parseOptionalConstantArguments resume f ts) := by
  unfold parseOptionalConstantArguments
  repeat (first | exact np_nameValuePair _ _ _ | exact np_moreArguments _ _ _ | np_step)

theorem np_constantDirectives (resume : Bool) (f : Nat) : ∀ ts, NoPanic (parseConstantDirectives resume f ts) := by
  induction f with
  | zero => intro ts; exact np_err _
  | succ f ih =>
    intro ts
    unfold parseConstantDirectives
    repeat (first | exact np_optionalConstantArguments _ _ _ | exact ih _ | np_step)

theorem np_typeAnnotation (f : Nat) : ∀ ts, NoPanic (parseTypeAnnotation f ts) := by
  induction f with
  | zero => intro ts; exact np_err _
  | succ f ih =>
    intro ts
    unfold parseTypeAnnotation
    repeat (first | exact ih _ | np_step)

theorem np_optionalDefault (resume : Bool) (f : Nat) (ts : List Tok) : NoPanic (parseOptionalDefault resume f ts) := by
  unfold parseOptionalDefault
  repeat (first | exact np_parseConstantValue _ _ _ _ | np_step)

theorem np_argumentDefinition (resume : Bool) (f : Nat) (ts : List Tok) :
    NoPanic (parseArgumentDefinition resume f ts) := by
  unfold parseArgumentDefinition
  repeat (first | exact np_typeAnnotation _ _ | exact np_optionalDefault _ _ _ | exact np_constantDirectives _ _ _ | np_step)

theorem np_moreArgumentDefinitions (resume : Bool) (close : Punct) (f : Nat) :
    ∀ ts, NoPanic (parseMoreArgumentDefinitions resume close f ts) := by
  induction f with
  | zero => intro ts; exact np_err _
  | succ f ih =>
    intro ts
    unfold parseMoreArgumentDefinitions
    repeat (first | exact np_argumentDefinition _ _ _ | exact ih _ | np_step)

theorem np_optionalArgumentDefinitions (resume : Bool) (o c : Punct) (f : Nat) (ts : List Tok) :
    NoPanic (parseOptionalArgumentDefinitions resume o c f ts) := by
  unfold parseOptionalArgumentDefinitions
  repeat (first | exact np_argumentDefinition _ _ _ | exact np_moreArgumentDefinitions _ _ _ _ | np_step)

theorem np_field (resume : Bool) (f : Nat) (ts : List Tok) : NoPanic (parseField resume f ts) := by
  unfold parseField
  repeat (first | exact np_optionalArgumentDefinitions _ _ _ _ _ | exact np_typeAnnotation _ _ | exact np_constantDirectives _ _ _ | np_step)

theorem np_moreFields (resume : Bool) (f : Nat) : ∀ ts, NoPanic (parseMoreFields resume f ts) := by
  induction f with
  | zero => intro ts; exact np_err _
  | succ f ih =>
    intro ts
    unfold parseMoreFields
    repeat (first | exact np_field _ _ _ | exact ih _ | np_step)

theorem np_optionalFields (resume : Bool) (f : Nat) (ts : List Tok) : NoPanic (parseOptionalFields resume f ts) := by
  unfold parseOptionalFields
  repeat (first | exact np_field _ _ _ | exact np_moreFields _ _ _ | np_step)

theorem np_moreInterfaces (f : Nat) : ∀ ts, NoPanic (parseMoreInterfaces f ts) := by
  induction f with
  | zero => intro ts; exact np_err _
  | succ f ih =>
    intro ts
    unfold parseMoreInterfaces
    repeat (first | exact ih _ | np_step)

theorem np_implementsIfPresent (f : Nat) (ts : List Tok) : NoPanic (parseImplementsIfPresent f ts) := by
  unfold parseImplementsIfPresent
  repeat (first | exact np_moreInterfaces _ _ | np_step)

theorem np_objectLike (resume : Bool) (f : Nat) (ts : List Tok) : NoPanic (parseObjectLike resume f ts) := by
  unfold parseObjectLike
  repeat (first | exact np_implementsIfPresent _ _ | exact np_constantDirectives _ _ _ | exact np_optionalFields _ _ _ | np_step)

theorem np_scalar (resume : Bool) (f : Nat) (d : Option Str) (ts : List Tok) : NoPanic (parseScalar resume f d ts) := by
  unfold parseScalar
  repeat (first | exact np_constantDirectives _ _ _ | np_step)

theorem np_inputObject (resume : Bool) (f : Nat) (d : Option Str) (ts : List Tok) :
    NoPanic (parseInputObject resume f d ts) := by
  unfold parseInputObject
  repeat (first | exact np_constantDirectives _ _ _ | exact np_optionalArgumentDefinitions _ _ _ _ _ | np_step)

theorem np_directiveLocation (ts : List Tok) : NoPanic (parseDirectiveLocation ts) := by
  unfold parseDirectiveLocation
  repeat np_step

theorem np_moreLocations (f : Nat) : ∀ ts, NoPanic (parseMoreLocations f ts) := by
  induction f with
  | zero => intro ts; exact np_err _
  | succ f ih =>
    intro ts
    unfold parseMoreLocations
    repeat (first | exact np_directiveLocation _ | exact ih _ | np_step)

theorem np_directiveLocations (f : Nat) (ts : List Tok) : NoPanic (parseDirectiveLocations f ts) := by
  unfold parseDirectiveLocations
  repeat (first | exact np_directiveLocation _ | exact np_moreLocations _ _ | np_step)

theorem np_directiveDefinition (resume : Bool) (f : Nat) (d : Option Str) (ts : List Tok) :
    NoPanic (parseDirectiveDefinition resume f d ts) := by
  unfold parseDirectiveDefinition
  repeat (first | exact np_optionalArgumentDefinitions _ _ _ _ _ | exact np_directiveLocations _ _ | np_step)

theorem np_enumValueDefinition (resume : Bool) (f : Nat) (ts : List Tok) :
    NoPanic (parseEnumValueDefinition resume f ts) := by
  unfold parseEnumValueDefinition
  repeat (first | exact np_constantDirectives _ _ _ | np_step)

theorem np_moreEnumValues (resume : Bool) (f : Nat) : ∀ ts, NoPanic (parseMoreEnumValues resume f ts) := by
  induction f with
  | zero => intro ts; exact np_err _
  | succ f ih =>
    intro ts
    unfold parseMoreEnumValues
    repeat (first | exact np_enumValueDefinition _ _ _ | exact ih _ | np_step)

theorem np_enumDefinition (resume : Bool) (f : Nat) (d : Option Str) (ts : List Tok) :
    NoPanic (parseEnumDefinition resume f d ts) := by
  unfold parseEnumDefinition
  repeat (first | exact np_constantDirectives _ _ _ | exact np_enumValueDefinition _ _ _ | exact np_moreEnumValues _ _ _ | np_step)

theorem np_moreUnionMembers (f : Nat) : ∀ ts, NoPanic (parseMoreUnionMembers f ts) := by
  induction f with
  | zero => intro ts; exact np_err _
  | succ f ih =>
    intro ts
    unfold parseMoreUnionMembers
    repeat (first | exact ih _ | np_step)

theorem np_unionDefinition (resume : Bool) (f : Nat) (d : Option Str) (ts : List Tok) :
    NoPanic (parseUnionDefinition resume f d ts) := by
  unfold parseUnionDefinition
  repeat (first | exact np_constantDirectives _ _ _ | exact np_moreUnionMembers _ _ | np_step)

theorem np_rootOperationType (ts : List Tok) : NoPanic (parseRootOperationType ts) := by
  unfold parseRootOperationType
  repeat np_step

theorem np_moreRootTypes (f : Nat) : ∀ t ts, NoPanic (parseMoreRootTypes f t ts) := by
  induction f with
  | zero => intro t ts; exact np_err _
  | succ f ih =>
    intro t ts
    unfold parseMoreRootTypes
    repeat (first | exact np_rootOperationType _ | exact ih _ _ | np_step)

theorem np_schemaDefinition (resume : Bool) (f : Nat) (d : Option Str) (ts : List Tok) :
    NoPanic (parseSchemaDefinition resume f d ts) := by
  unfold parseSchemaDefinition
  repeat (first | exact np_constantDirectives _ _ _ | exact np_rootOperationType _ | exact np_moreRootTypes _ _ _ | np_step)

theorem np_typeSystemDefinition (resume : Bool) (f : Nat) (ts : List Tok) :
    NoPanic (parseTypeSystemDefinition resume f ts) := by
  unfold parseTypeSystemDefinition
  repeat (first | exact np_objectLike _ _ _ | exact np_scalar _ _ _ _ | exact np_inputObject _ _ _ _ | exact np_directiveDefinition _ _ _ _ | exact np_enumDefinition _ _ _ _ | exact np_unionDefinition _ _ _ _ | exact np_schemaDefinition _ _ _ _ | np_step)

theorem np_typeSystemDocument (resume : Bool) (f : Nat) : ∀ ts, NoPanic (parseTypeSystemDocument resume f ts) := by
  induction f with
  | zero => intro ts; exact np_err _
  | succ f ih =>
    intro ts
    unfold parseTypeSystemDocument
    repeat (first | exact np_typeSystemDefinition _ _ _ | exact ih _ | np_step)

/-- the `expect` / `assert!` of `parse_type_system_extension` cannot fire: the function is only
called when `peek_type_system_doc_type` has seen the identifier `extend` -/
theorem np_typeSystemExtension (resume : Bool) (f : Nat) (ts : List Tok) (h : peekDocType ts = some true) :
    NoPanic (parseTypeSystemExtension resume f ts) := by
  unfold peekDocType at h
  split at h <;> try (simp at h; done)
  rename_i n r
  have hn : (n == kwExtend) = true := by simpa using h
  simp only [parseTypeSystemExtension, tokName, hn, if_true]
  repeat (first | exact np_objectLike _ _ _ | np_step)

theorem np_typeSystemExtensionDocument (resume : Bool) (f : Nat) :
    ∀ ts, NoPanic (parseTypeSystemExtensionDocument resume f ts) := by
  induction f with
  | zero => intro ts; exact np_err _
  | succ f ih =>
    intro ts
    unfold parseTypeSystemExtensionDocument
    split
    · exact np_ok _ _
    · split
      · rename_i h
        repeat (first | exact np_typeSystemExtension _ _ _ h | exact ih _ | np_step)
      · repeat (first | exact np_typeSystemDefinition _ _ _ | exact ih _ | np_step)
      · exact np_err _

/-- `parse_schema` / `parse_schema_extensions` never panic on a token list -/
theorem parseSchemaToks_total (resume ext : Bool) (ts : List Tok) : parseSchemaToks resume ext ts ≠ .panic := by
  unfold parseSchemaToks outcomeOf
  cases ext
  · have := np_typeSystemDocument resume (fuelFor ts) ts
    simp only [Bool.false_eq_true, if_false]
    split <;> simp_all [NoPanic]
  · have := np_typeSystemExtensionDocument resume (fuelFor ts) ts
    simp only [if_true]
    split <;> simp_all [NoPanic]

end IsoVerif.GqlSchema
