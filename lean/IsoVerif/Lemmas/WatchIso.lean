/-
The iso-literal map after `update_sources` (repaired code), pointwise: the last thing the batch says
about a path, read literally.
-/
import IsoVerif.Lemmas.WatchBasic

namespace IsoVerif.Watch

/-- the map only holds paths that a batch compile would read -/
def NoJunk (cfg : Cfg) (db : Db) : Prop :=
  ∀ q, db.iso.get q ≠ none → (isPrefix cfg.projectRoot q = true ∧ passesFilter q = true)

/-- what `categorise` guarantees about the events it produces -/
def WellCat (cfg : Cfg) (fs : Fs) : SEv → Prop
  | (.createOrModify a, .file) => isPrefix cfg.projectRoot a = true ∧ isFile fs a = true
  | (.rename _ t, .file) => isPrefix cfg.projectRoot t = true ∧ isFile fs t = true
  | (.remove a, .file) => isPrefix cfg.projectRoot a = true
  | (.createOrModify d, .folder) => isPrefix cfg.projectRoot d = true ∧ isFile fs d = false
  | (.rename _ t, .folder) => isPrefix cfg.projectRoot t = true ∧ isFile fs t = false
  | (.remove d, .folder) => isPrefix cfg.projectRoot d = true
  | _ => True

/-! ### helpers -/

/-- every event `categorise` builds around a path of kind `k` is well categorised -/
private theorem wellCat_of_categorizePath (cfg : Cfg) (fs : Fs) (p : Path) (k : Kind)
    (h : categorizePath cfg fs p = some k) :
    WellCat cfg fs (.createOrModify p, k) ∧ (∀ s, WellCat cfg fs (.rename s p, k)) ∧
      WellCat cfg fs (.remove p, k) := by
  unfold categorizePath at h
  split at h
  · exact absurd h (by simp)
  · split at h
    · rename_i hroot
      split at h
      · rename_i hf
        cases h
        simp [WellCat, hroot, hf]
      · rename_i hf
        cases h
        simp [WellCat, hroot, hf]
    · split at h
      · cases h; simp [WellCat]
      · split at h
        · cases h; simp [WellCat]
        · split at h
          · cases h; simp [WellCat]
          · exact absurd h (by simp)

private theorem wellCat_of_existsOrRemove (cfg : Cfg) (fs : Fs) (p : Path) (e : SEv)
    (h : existsOrRemove cfg fs p = some e) : WellCat cfg fs e := by
  unfold existsOrRemove at h
  cases hk : categorizePath cfg fs p with
  | none => rw [hk] at h; exact absurd h (by simp)
  | some k =>
    rw [hk] at h
    have hw := wellCat_of_categorizePath cfg fs p k hk
    simp only [Option.map_some, Option.some.injEq] at h
    split at h
    · subst h; exact hw.1
    · subst h; exact hw.2.2

private theorem wellCat_of_map (cfg : Cfg) (fs : Fs) (p : Path) (f : Kind → SEv) (e : SEv)
    (hf : ∀ k, categorizePath cfg fs p = some k → WellCat cfg fs (f k))
    (h : (categorizePath cfg fs p).map f = some e) : WellCat cfg fs e := by
  cases hk : categorizePath cfg fs p with
  | none => rw [hk] at h; exact absurd h (by simp)
  | some k =>
    rw [hk] at h
    simp only [Option.map_some, Option.some.injEq] at h
    subst h
    exact hf k hk

private theorem wellCat_of_processRaw (F : Facts) (cfg : Cfg) (fs : Fs) (r : Raw) (e : SEv)
    (h : processRaw F cfg fs r = some e) : WellCat cfg fs e := by
  cases r with
  | createFile p =>
    exact wellCat_of_map cfg fs p _ e (fun k hk => (wellCat_of_categorizePath cfg fs p k hk).1) h
  | createFolder p =>
    simp only [processRaw] at h
    split at h
    · exact wellCat_of_map cfg fs p _ e (fun k hk => (wellCat_of_categorizePath cfg fs p k hk).1) h
    · exact absurd h (by simp)
  | data p =>
    simp only [processRaw] at h
    split at h
    · exact wellCat_of_map cfg fs p _ e (fun k hk => (wellCat_of_categorizePath cfg fs p k hk).1) h
    · exact absurd h (by simp)
  | remove p =>
    exact wellCat_of_map cfg fs p _ e (fun k hk => (wellCat_of_categorizePath cfg fs p k hk).2.2) h
  | both s t =>
    exact wellCat_of_map cfg fs t _ e (fun k hk => (wellCat_of_categorizePath cfg fs t k hk).2.1 s) h
  | from_ p =>
    simp only [processRaw] at h
    split at h
    · exact wellCat_of_existsOrRemove cfg fs p e h
    · exact absurd h (by simp)
  | to p =>
    simp only [processRaw] at h
    split at h
    · exact wellCat_of_existsOrRemove cfg fs p e h
    · exact absurd h (by simp)
  | any p => exact wellCat_of_existsOrRemove cfg fs p e h
  | other p => exact absurd h (by simp [processRaw])

theorem categorise_wellCat (F : Facts) (cfg : Cfg) (fs : Fs) (evs : List Raw) :
    ∀ e ∈ categorise F cfg fs evs, WellCat cfg fs e := by
  intro e he
  unfold categorise at he
  rw [List.mem_filterMap] at he
  obtain ⟨r, _, hr⟩ := he
  exact wellCat_of_processRaw F cfg fs r e hr

/-! ### `expectedIso` -/

private theorem expectedIso_eq_some_iff (cfg : Cfg) (fs : Fs) (p : Path) (c : Content) :
    expectedIso cfg fs p = some c ↔
      (isPrefix cfg.projectRoot p = true ∧ passesFilter p = true ∧
        fs.get p = some (.file c) ∧ c.utf8 = true) := by
  unfold expectedIso
  constructor
  · intro h
    split at h
    · rename_i hpf
      simp only [Bool.and_eq_true] at hpf
      split at h
      · rename_i c' hc
        split at h
        · rename_i hu
          cases h
          exact ⟨hpf.1, hpf.2, hc, hu⟩
        · exact absurd h (by simp)
      · exact absurd h (by simp)
    · exact absurd h (by simp)
  · rintro ⟨h1, h2, h3, h4⟩
    simp [h1, h2, h3, h4]

private theorem expectedIso_of_get_file (cfg : Cfg) (fs : Fs) (p : Path) (c : Content)
    (h1 : isPrefix cfg.projectRoot p = true) (h2 : passesFilter p = true)
    (h3 : fs.get p = some (.file c)) :
    expectedIso cfg fs p = if c.utf8 = true then some c else none := by
  unfold expectedIso
  simp [h1, h2, h3]

private theorem expectedIso_of_not_filter (cfg : Cfg) (fs : Fs) (p : Path)
    (h2 : passesFilter p = false) : expectedIso cfg fs p = none := by
  unfold expectedIso
  simp [h2]

private theorem isFile_get {fs : Fs} {p : Path} (h : isFile fs p = true) :
    ∃ c, fs.get p = some (.file c) := by
  unfold isFile at h
  split at h
  · rename_i c hc; exact ⟨c, hc⟩
  · exact absurd h (by simp)

private theorem noJunk_get_none {cfg : Cfg} {db : Db} (hj : NoJunk cfg db) (q : Path)
    (h : ¬ (isPrefix cfg.projectRoot q = true ∧ passesFilter q = true)) : db.iso.get q = none := by
  cases hq : db.iso.get q with
  | none => rfl
  | some c => exact absurd (hj q (by simp [hq])) h

/-! ### the handlers, one by one -/

private theorem createOrUpdateIso_get (cfg : Cfg) (fs : Fs) (db : Db) (a : Path)
    (hp : isPrefix cfg.projectRoot a = true) (hf : isFile fs a = true) (hj : NoJunk cfg db) :
    (∀ p, (createOrUpdateIso repairedFacts fs db a).1.iso.get p =
        if p = a then expectedIso cfg fs a else db.iso.get p) ∧
      NoJunk cfg (createOrUpdateIso repairedFacts fs db a).1 := by
  obtain ⟨c, hc⟩ := isFile_get hf
  have hsf : repairedFacts.singleFileFiltered = true := rfl
  cases hpf : passesFilter a with
  | false =>
    have hE : createOrUpdateIso repairedFacts fs db a = (db, none) := by
      unfold createOrUpdateIso
      simp [hsf, hpf]
    rw [hE]
    refine ⟨?_, hj⟩
    intro p
    by_cases hpa : p = a
    · subst hpa
      rw [if_pos rfl, expectedIso_of_not_filter cfg fs p hpf]
      exact noJunk_get_none hj p (by simp [hpf])
    · rw [if_neg hpa]
  | true =>
    have hr := readFile_file repairedFacts rfl fs a c hc
    have hx := expectedIso_of_get_file cfg fs a c hp hpf hc
    by_cases hu : c.utf8 = true
    · have hE : createOrUpdateIso repairedFacts fs db a =
          ({ db with iso := db.iso.insert a c }, none) := by
        unfold createOrUpdateIso
        rw [hr]
        simp [hsf, hpf, hu]
      rw [hE]
      rw [if_pos hu] at hx
      constructor
      · intro p
        show AMap.get (db.iso.insert a c) p = _
        rw [AMap.get_insert, hx]
        by_cases hpa : p = a
        · subst hpa; simp
        · have : ¬ a = p := fun h => hpa h.symm
          simp [hpa, this]
      · intro q hq
        change AMap.get (db.iso.insert a c) q ≠ none at hq
        rw [AMap.get_insert] at hq
        by_cases haq : a = q
        · subst haq; exact ⟨hp, hpf⟩
        · rw [if_neg haq] at hq; exact hj q hq
    · have hE : createOrUpdateIso repairedFacts fs db a =
          ({ db with iso := db.iso.remove a }, none) := by
        unfold createOrUpdateIso
        rw [hr]
        simp [hsf, hpf, hu]
      rw [hE]
      rw [if_neg hu] at hx
      constructor
      · intro p
        show AMap.get (db.iso.remove a) p = _
        rw [AMap.get_remove, hx]
        by_cases hpa : p = a
        · subst hpa; simp
        · have : ¬ a = p := fun h => hpa h.symm
          simp [hpa, this]
      · intro q hq
        change AMap.get (db.iso.remove a) q ≠ none at hq
        rw [AMap.get_remove] at hq
        by_cases haq : a = q
        · rw [if_pos haq] at hq; exact absurd rfl hq
        · rw [if_neg haq] at hq; exact hj q hq

private theorem noJunk_remove (cfg : Cfg) (db : Db) (s : Path) (hj : NoJunk cfg db) :
    NoJunk cfg { db with iso := db.iso.remove s } := by
  intro q hq
  change AMap.get (db.iso.remove s) q ≠ none at hq
  rw [AMap.get_remove] at hq
  by_cases hsq : s = q
  · rw [if_pos hsq] at hq; exact absurd rfl hq
  · rw [if_neg hsq] at hq; exact hj q hq

private theorem noJunk_removeFromPath (cfg : Cfg) (db : Db) (s : Path) (hj : NoJunk cfg db) :
    NoJunk cfg { db with iso := removeFromPath repairedFacts db.iso s } := by
  intro q hq
  change AMap.get (removeFromPath repairedFacts db.iso s) q ≠ none at hq
  rw [get_removeFromPath_components repairedFacts rfl] at hq
  by_cases hsq : isPrefix s q = true
  · rw [if_pos hsq] at hq; exact absurd rfl hq
  · rw [if_neg hsq] at hq; exact hj q hq

private theorem readIsoFromFolder_get (cfg : Cfg) (fs : Fs) (db : Db) (d : Path)
    (hp : isPrefix cfg.projectRoot d = true) (hj : NoJunk cfg db) :
    (∀ p, (readIsoFromFolder repairedFacts fs db d).1.iso.get p =
        if (isDir fs d && isPrefix d p && (expectedIso cfg fs p).isSome) = true
        then expectedIso cfg fs p else db.iso.get p) ∧
      NoJunk cfg (readIsoFromFolder repairedFacts fs db d).1 := by
  cases hd : isDir fs d with
  | false =>
    have hE : readIsoFromFolder repairedFacts fs db d = (db, some .traverse) := by
      unfold readIsoFromFolder
      rw [readFolder_not_dir repairedFacts fs d hd]
    rw [hE]
    refine ⟨?_, hj⟩
    intro p
    simp
  | true =>
    obtain ⟨l, hl, hmem⟩ := readFolder_dir repairedFacts rfl fs d hd
    have hE : readIsoFromFolder repairedFacts fs db d =
        ({ db with iso := insertAll db.iso l }, none) := by
      unfold readIsoFromFolder
      rw [hl]
    rw [hE]
    have hg : ∀ p c, (p, c) ∈ l → expectedIso cfg fs p = some c := by
      intro p c hpc
      obtain ⟨h1, h2, h3, h4⟩ := (hmem p c).1 hpc
      exact (expectedIso_eq_some_iff cfg fs p c).2 ⟨isPrefix_trans hp h1, h2, h3, h4⟩
    have hin : ∀ q, q ∈ l.map (·.1) ↔
        (isPrefix d q = true ∧ (expectedIso cfg fs q).isSome = true) := by
      intro q
      constructor
      · intro hq
        rw [List.mem_map] at hq
        obtain ⟨⟨q', c⟩, hqc, rfl⟩ := hq
        refine ⟨((hmem q' c).1 hqc).1, ?_⟩
        show (expectedIso cfg fs q').isSome = true
        rw [hg q' c hqc]; rfl
      · rintro ⟨h1, h2⟩
        cases hx : expectedIso cfg fs q with
        | none => rw [hx] at h2; exact absurd h2 (by simp)
        | some c =>
          obtain ⟨_, h3, h4, h5⟩ := (expectedIso_eq_some_iff cfg fs q c).1 hx
          rw [List.mem_map]
          exact ⟨(q, c), (hmem q c).2 ⟨h1, h3, h4, h5⟩, rfl⟩
    have hget : ∀ q, AMap.get (insertAll db.iso l) q =
        if (isPrefix d q = true ∧ (expectedIso cfg fs q).isSome = true)
        then expectedIso cfg fs q else db.iso.get q := by
      intro q
      rw [get_insertAll db.iso l (expectedIso cfg fs) hg q]
      by_cases hq : q ∈ l.map (·.1)
      · rw [if_pos hq, if_pos ((hin q).1 hq)]
      · rw [if_neg hq, if_neg (fun h => hq ((hin q).2 h))]
    constructor
    · intro p
      show AMap.get (insertAll db.iso l) p = _
      rw [hget p]
      simp only [Bool.true_and, Bool.and_eq_true]
    · intro q hq
      change AMap.get (insertAll db.iso l) q ≠ none at hq
      rw [hget q] at hq
      by_cases hc : (isPrefix d q = true ∧ (expectedIso cfg fs q).isSome = true)
      · cases hx : expectedIso cfg fs q with
        | none => rw [hx] at hc; exact absurd hc.2 (by simp)
        | some c =>
          obtain ⟨h1, h2, _, _⟩ := (expectedIso_eq_some_iff cfg fs q c).1 hx
          exact ⟨h1, h2⟩
      · rw [if_neg hc] at hq; exact hj q hq

/-! ### the main statements -/

theorem handle_iso_get (cfg : Cfg) (fs : Fs) (db : Db) (e : SEv) (hw : WellCat cfg fs e)
    (hj : NoJunk cfg db) :
    (∀ p, (handle repairedFacts cfg fs db e).1.iso.get p =
        (match says cfg fs e p with | some v => v | none => db.iso.get p)) ∧
      NoJunk cfg (handle repairedFacts cfg fs db e).1 := by
  obtain ⟨c, k⟩ := e
  cases k with
  | config => exact ⟨fun p => by simp [handle, says], hj⟩
  | schema =>
    have hiso : (handle repairedFacts cfg fs db (c, Kind.schema)).1.iso = db.iso := by
      cases c <;> simp only [handle, handleSchema] <;> (repeat' split) <;> rfl
    exact ⟨fun p => by rw [hiso]; simp [says], fun q hq => hj q (by rw [hiso] at hq; exact hq)⟩
  | ext =>
    have hiso : (handle repairedFacts cfg fs db (c, Kind.ext)).1.iso = db.iso := by
      cases c <;> simp only [handle, handleExt, createOrUpdateExt] <;> (repeat' split) <;> rfl
    exact ⟨fun p => by rw [hiso]; simp [says], fun q hq => hj q (by rw [hiso] at hq; exact hq)⟩
  | file =>
    cases c with
    | createOrModify a =>
      obtain ⟨h1, h2⟩ := createOrUpdateIso_get cfg fs db a hw.1 hw.2 hj
      refine ⟨?_, h2⟩
      intro p
      show (createOrUpdateIso repairedFacts fs db a).1.iso.get p = _
      rw [h1 p]
      simp only [says]
      split <;> rfl
    | rename s t =>
      have hj' := noJunk_remove cfg db s hj
      obtain ⟨h1, h2⟩ := createOrUpdateIso_get cfg fs _ t hw.1 hw.2 hj'
      have hE : handle repairedFacts cfg fs db (Change.rename s t, Kind.file) =
          createOrUpdateIso repairedFacts fs { db with iso := db.iso.remove s } t := by
        simp [handle, handleSourceFile, repairedFacts]
      rw [hE]
      refine ⟨?_, h2⟩
      intro p
      rw [h1 p]
      simp only [says]
      by_cases hpt : p = t
      · simp [hpt]
      · rw [if_neg hpt, if_neg hpt]
        show AMap.get (db.iso.remove s) p = _
        rw [AMap.get_remove]
        by_cases hps : p = s
        · subst hps; simp
        · have : ¬ s = p := fun h => hps h.symm
          simp [hps, this]
    | remove a =>
      refine ⟨?_, noJunk_remove cfg db a hj⟩
      intro p
      show AMap.get (db.iso.remove a) p = _
      rw [AMap.get_remove]
      simp only [says]
      by_cases hpa : p = a
      · subst hpa; simp
      · have : ¬ a = p := fun h => hpa h.symm
        simp [hpa, this]
  | folder =>
    cases c with
    | createOrModify d =>
      obtain ⟨h1, h2⟩ := readIsoFromFolder_get cfg fs db d hw.1 hj
      refine ⟨?_, h2⟩
      intro p
      show (readIsoFromFolder repairedFacts fs db d).1.iso.get p = _
      rw [h1 p]
      simp only [says]
      split <;> rfl
    | rename s t =>
      have hj' := noJunk_removeFromPath cfg db s hj
      obtain ⟨h1, h2⟩ := readIsoFromFolder_get cfg fs _ t hw.1 hj'
      refine ⟨?_, h2⟩
      intro p
      show (readIsoFromFolder repairedFacts fs
        { db with iso := removeFromPath repairedFacts db.iso s } t).1.iso.get p = _
      rw [h1 p]
      simp only [says]
      split
      · rfl
      · show AMap.get (removeFromPath repairedFacts db.iso s) p = _
        rw [get_removeFromPath_components repairedFacts rfl]
        split <;> rfl
    | remove d =>
      refine ⟨?_, noJunk_removeFromPath cfg db d hj⟩
      intro p
      show AMap.get (removeFromPath repairedFacts db.iso d) p = _
      rw [get_removeFromPath_components repairedFacts rfl]
      simp only [says]
      split <;> rfl

theorem updateSources_iso_get (cfg : Cfg) (fs : Fs) (evs : List SEv)
    (hw : ∀ e ∈ evs, WellCat cfg fs e) (db : Db) (hj : NoJunk cfg db) (p : Path) :
    (updateSources repairedFacts cfg fs db evs).1.iso.get p =
      (match lastSaying cfg fs evs p with | some v => v | none => db.iso.get p) := by
  induction evs generalizing db with
  | nil => simp [updateSources, lastSaying]
  | cons e rest ih =>
    obtain ⟨h1, h2⟩ := handle_iso_get cfg fs db e (hw e (by simp)) hj
    have hrest : ∀ e' ∈ rest, WellCat cfg fs e' := fun e' he' => hw e' (by simp [he'])
    have := ih hrest (handle repairedFacts cfg fs db e).1 h2
    show (updateSources repairedFacts cfg fs (handle repairedFacts cfg fs db e).1 rest).1.iso.get p = _
    rw [this]
    simp only [lastSaying]
    cases lastSaying cfg fs rest p with
    | some v => rfl
    | none => exact h1 p

/-- the source part of `C20_refine` -/
theorem refine_iso (cfg : Cfg) (db : Db) (fs fs' : Fs) (evs : List Raw)
    (h : ∀ p, db.iso.get p = expectedIso cfg fs p)
    (hs : ∀ p, match lastSaying cfg fs' (categorise repairedFacts cfg fs' evs) p with
      | none => expectedIso cfg fs p = expectedIso cfg fs' p
      | some v => v = expectedIso cfg fs' p) :
    ∀ p, (updateSources repairedFacts cfg fs' db (categorise repairedFacts cfg fs' evs)).1.iso.get p =
      expectedIso cfg fs' p := by
  intro p
  have hj : NoJunk cfg db := by
    intro q hq
    rw [h q] at hq
    cases hx : expectedIso cfg fs q with
    | none => exact absurd hx hq
    | some c =>
      obtain ⟨h1, h2, _, _⟩ := (expectedIso_eq_some_iff cfg fs q c).1 hx
      exact ⟨h1, h2⟩
  rw [updateSources_iso_get cfg fs' _ (categorise_wellCat repairedFacts cfg fs' evs) db hj p]
  have := hs p
  cases hl : lastSaying cfg fs' (categorise repairedFacts cfg fs' evs) p with
  | none => rw [hl] at this; simp only; rw [h p]; exact this
  | some v => rw [hl] at this; exact this

end IsoVerif.Watch
