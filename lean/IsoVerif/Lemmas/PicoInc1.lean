/-
C01, stage 2b/3 (nested calls ACROSS source changes, with collections): definitions and the
stability lemmas of the invariant.

Setting: a program whose call graph is acyclic by a rank on function indices.  The invariant is
history-free.  Every stored revision `r` of node `n` (not currently being brought up to date)
  * is correct under the current sources if it was verified in the current epoch (`correct`);
  * remembers — existentially — the sources `(σx, mx)` it last ran under and the reads `R` of
    that run (`BigN P σx mx n r.val R`), and for every such read an EDGE FACT (`DepFor`):
      - a source that was present: it is among the recorded dependencies, and if it is still
        there and was not re-stamped after `r.tv`, it is observed now as it was then;
      - a source that was absent: recorded as such, and if it is there now it was stamped after
        `r.tv`;
      - a callee `q` that returned `w`: recorded, still stored, verified at least as recently as
        `r` (unless it has no dependencies at all), and if its `tu ≤ r.tv` it is still worth `w`.
The edge facts are stable under everything that happens to OTHER nodes (`Evolves`): a node is
only ever re-verified (same value, same `tu`) or re-executed, and a re-execution that changes the
value stamps it with a `tu` beyond its previous `tv`.
-/
import IsoVerif.Lemmas.PicoSem2

namespace IsoVerif.Pico

/-! ## acyclic programs -/

def Expr.calls : Expr → List Nat
  | .lit _ | .param | .sing _ | .trk _ => []
  | .src k => k.calls
  | .call f a => f :: a.calls
  | .add a b => a.calls ++ b.calls
  | .eq a b => a.calls ++ b.calls
  | .ite c t e => c.calls ++ t.calls ++ e.calls
  | .half a => a.calls

/-- the call graph decreases along `rank` -/
def Acyclic (P : Prog) (rank : Nat → Nat) : Prop :=
  ∀ f g, g ∈ (fnOf P f).body.calls → rank g < rank f

theorem nodeOf_fn (P : Prog) (f a : Nat) : (nodeOf P f a).fn = f := rfl

/-- the callees read by an evaluation are calls of the expression -/
theorem BigE.node_reads {P : Prog} {σ : Srcs} {m : Maps} {e : Expr} {a v : Nat} {R : List Read}
    (h : BigE P σ m e a v R) : ∀ q w, Read.node q w ∈ R → q.fn ∈ e.calls := by
  induction h with
  | lit n a => intro q w hq; cases hq
  | param a => intro q w hq; cases hq
  | src hk hl ih =>
    intro q w hq
    rcases List.mem_append.1 hq with h1 | h1
    · exact ih q w h1
    · simp at h1
  | sing hl => intro q w hq; simp at hq
  | singAbs hl => intro q w hq; simp at hq
  | trk => intro q w hq; simp at hq
  | @call f e a av v R R2 he hb ihe _ =>
    intro q w hq
    rcases List.mem_append.1 hq with h1 | h1
    · exact List.mem_cons_of_mem _ (ihe q w h1)
    · simp at h1; rw [h1.1]; exact List.mem_cons_self
  | add hx hy ihx ihy =>
    intro q w hq
    rcases List.mem_append.1 hq with h1 | h1
    · exact List.mem_append_left _ (ihx q w h1)
    · exact List.mem_append_right _ (ihy q w h1)
  | eq hx hy ihx ihy =>
    intro q w hq
    rcases List.mem_append.1 hq with h1 | h1
    · exact List.mem_append_left _ (ihx q w h1)
    · exact List.mem_append_right _ (ihy q w h1)
  | iteT hc hz ht ihc iht =>
    intro q w hq
    rcases List.mem_append.1 hq with h1 | h1
    · exact List.mem_append_left _ (List.mem_append_left _ (ihc q w h1))
    · exact List.mem_append_left _ (List.mem_append_right _ (iht q w h1))
  | iteF hc he ihc ihe =>
    intro q w hq
    rcases List.mem_append.1 hq with h1 | h1
    · exact List.mem_append_left _ (List.mem_append_left _ (ihc q w h1))
    · exact List.mem_append_right _ (ihe q w h1)
  | half hx ih => exact ih

/-! ## the recorded dependency list, in order -/

/-- `TrackedDependencies::push` on the list of nodes, oldest first -/
def pushNode (l : List DepNode) (n : DepNode) : List DepNode :=
  if l.getLast? = some n then l else l ++ [n]

def pushAll (l : List DepNode) (ks : List DepNode) : List DepNode := ks.foldl pushNode l

theorem pushAll_append (l a b : List DepNode) : pushAll l (a ++ b) = pushAll (pushAll l a) b := by
  simp [pushAll, List.foldl_append]

theorem pushAll_snoc (l ks : List DepNode) (k : DepNode) : pushAll l (ks ++ [k]) = pushNode (pushAll l ks) k := by
  simp [pushAll, List.foldl_append]

/-- `pushDep` on the reversed list is `pushNode` on the list -/
theorem pushDep_nodes (rdeps : List Dep) (n : DepNode) (e : Nat) :
    (pushDep rdeps ⟨n, e⟩).reverse.map (·.node) = pushNode (rdeps.reverse.map (·.node)) n := by
  cases rdeps with
  | nil => simp [pushDep, pushNode]
  | cons l rest =>
    have hlast : ((l :: rest).reverse.map (·.node)).getLast? = some l.node := by simp
    by_cases h : l.node = n
    · simp only [pushDep, h, if_true, pushNode, hlast]
      simp [h]
    · have : ¬ some l.node = some n := fun e => h (Option.some.inj e)
      simp only [pushDep, h, if_false, pushNode, hlast, this]
      simp

theorem mem_pushNode {l : List DepNode} {n x : DepNode} : x ∈ pushNode l n ↔ x ∈ l ∨ x = n := by
  unfold pushNode
  split
  · rename_i h
    constructor
    · exact Or.inl
    · rintro (h1 | h1)
      · exact h1
      · rw [h1]; exact List.mem_of_getLast? h
  · simp

theorem mem_pushAll {ks l : List DepNode} {x : DepNode} : x ∈ pushAll l ks ↔ x ∈ l ∨ x ∈ ks := by
  induction ks generalizing l with
  | nil => simp [pushAll]
  | cons k ks ih =>
    have : pushAll l (k :: ks) = pushAll (pushNode l k) ks := rfl
    rw [this, ih, mem_pushNode]
    simp only [List.mem_cons]
    constructor
    · rintro ((h | h) | h)
      · exact Or.inl h
      · exact Or.inr (Or.inl h)
      · exact Or.inr (Or.inr h)
    · rintro (h | h | h)
      · exact Or.inl (Or.inl h)
      · exact Or.inl (Or.inr h)
      · exact Or.inr h

/-- an entry of the recorded list comes from an element of the trace before which everything was
already recorded -/
theorem pushAll_split : ∀ (ks : List DepNode) (D1 : List DepNode) (n : DepNode) (D2 : List DepNode),
    pushAll [] ks = D1 ++ n :: D2 → ∃ K1 K2, ks = K1 ++ n :: K2 ∧ ∀ k, k ∈ K1 → k ∈ D1 := by
  intro ks0
  induction hlen : ks0.length generalizing ks0 with
  | zero =>
    intro D1 n D2 h
    have : ks0 = [] := List.length_eq_zero_iff.1 hlen
    subst this; simp [pushAll] at h
  | succ m ihm =>
    intro D1 n D2 h
    rcases List.eq_nil_or_concat ks0 with hnil | ⟨ks, k, hks⟩
    · subst hnil; simp at hlen
    subst hks
    have ih := ihm ks (by simp at hlen; exact hlen)
    rw [List.concat_eq_append] at h ⊢
    rw [pushAll_snoc] at h
    unfold pushNode at h
    split at h
    · obtain ⟨K1, K2, hk, hK1⟩ := ih D1 n D2 h
      exact ⟨K1, K2 ++ [k], by rw [hk]; simp, hK1⟩
    · -- `k` was appended
      rcases List.eq_nil_or_concat D2 with hD2 | ⟨D2', x, hD2⟩
      · subst hD2
        have h' : pushAll [] ks ++ [k] = D1 ++ [n] := h
        have := List.append_inj' h' rfl
        obtain ⟨e1, e2⟩ := this
        cases e2
        refine ⟨ks, [], rfl, ?_⟩
        intro k' hk'
        rw [← e1]; exact mem_pushAll.2 (Or.inr hk')
      · subst hD2
        have h' : pushAll [] ks ++ [k] = (D1 ++ n :: D2') ++ [x] := by rw [h]; simp
        obtain ⟨e1, e2⟩ := List.append_inj' h' rfl
        cases e2
        obtain ⟨K1, K2, hk, hK1⟩ := ih D1 n D2' e1
        exact ⟨K1, K2 ++ [k], by rw [hk]; simp, hK1⟩

/-! ## edge facts -/

/-- the recorded dependency that corresponds to a read -/
def Read.kind : Read → DepNode
  | .src k o => if o.1.isSome then .source k else .absent k
  | .node q _ => .derived q


/-- the edge fact of revision `r` (in storage `s`) for one read of its last run -/
def DepFor (s : Storage) (r : Rev) : Read → Prop
  | .src k o =>
    if o.1.isSome then
      (∃ d, d ∈ r.deps ∧ d.node = .source k) ∧
      ((∃ nd, alookup s.srcs k = some nd ∧ nd.tu ≤ r.tv) → keyObs s.srcs s.maps k = o)
    else
      (∃ d, d ∈ r.deps ∧ d.node = .absent k) ∧ o = (none, 0) ∧
      (∀ nd, alookup s.srcs k = some nd → r.tv < nd.tu)
  | .node q w =>
    (∃ d, d ∈ r.deps ∧ d.node = .derived q) ∧
    ∃ rq, alookup s.derived q = some rq ∧ (rq.deps ≠ [] → r.tv ≤ rq.tv) ∧ (rq.tu ≤ r.tv → rq.val = w)

/-- what the verification of dependency `d` found, and would find again: nothing to do -/
def DepQuiet (s : Storage) (d : Dep) : Prop :=
  match d.node with
  | .source k => ∃ nd, alookup s.srcs k = some nd ∧ nd.tu ≤ d.stamp
  | .absent k => alookup s.srcs k = none
  | .derived q => ∃ rq, alookup s.derived q = some rq ∧ rq.tu ≤ d.stamp ∧ (rq.deps = [] ∨ rq.tv = s.epoch)

/-- what a stored revision that is not being worked on satisfies -/
structure RevOk (P : Prog) (s : Storage) (n : NodeId) (r : Rev) : Prop where
  tv_le : r.tv ≤ s.epoch
  tu_tv : r.tu ≤ r.tv
  stamps : ∀ d, d ∈ r.deps → d.stamp ≤ r.tv
  tu_stamp : ∀ d, d ∈ r.deps → r.tu ≤ d.stamp
  correct : r.tv = s.epoch → ∃ R, BigN P s.srcs s.maps n r.val R
  quiet : r.tv = s.epoch → ∀ d, d ∈ r.deps → DepQuiet s d
  ghost : ∃ σx mx R, BigN P σx mx n r.val R ∧ (∀ rd, rd ∈ R → DepFor s r rd) ∧
    (∀ d, d ∈ r.deps → ∃ rd, rd ∈ R ∧ rd.kind = d.node) ∧
    r.deps.map (·.node) = pushAll [] (R.map Read.kind)

/-- the invariant; `B` are the nodes currently being brought up to date (exempt) -/
structure INV (P : Prog) (s : Storage) (B : List NodeId) : Prop where
  epochPos : 1 ≤ s.epoch
  stackB : ∀ fr, fr ∈ s.stack → fr.id ∈ B
  srcTu : ∀ k nd, alookup s.srcs k = some nd → nd.tu ≤ s.epoch
  mapsInit : MapsInit s
  nodes : ∀ n r, alookup s.derived n = some r → n ∉ B → RevOk P s n r
  busyTv : ∀ n r, alookup s.derived n = some r → n ∈ B → r.tv = s.epoch

/-- the dependency was re-stamped since it was recorded -/
def Changed (s : Storage) (d : Dep) : Prop :=
  match d.node with
  | .source k => ∀ nd, alookup s.srcs k = some nd → d.stamp < nd.tu
  | .absent k => (alookup s.srcs k).isSome = true
  | .derived q => ∀ rq, alookup s.derived q = some rq → d.stamp < rq.tu

/-- what happens to the stored nodes within one epoch: a node is left alone, or — if it was not yet
verified in this epoch — verified, keeping value and `time_updated`, or re-stamped with a NEW value -/
structure Moves (s s' : Storage) : Prop where
  epoch : s'.epoch = s.epoch
  srcs : s'.srcs = s.srcs
  maps : s'.maps = s.maps
  node : ∀ q r, alookup s.derived q = some r → ∃ r', alookup s'.derived q = some r' ∧
    (r' = r ∨ (r.tv < s.epoch ∧ r'.tv = s.epoch ∧
      ((r'.val = r.val ∧ r'.tu = r.tu) ∨ (r.deps ≠ [] ∧ r.tv < r'.tu ∧ r'.val ≠ r.val))))

theorem Moves.refl (s : Storage) : Moves s s := ⟨rfl, rfl, rfl, fun _ r h => ⟨r, h, Or.inl rfl⟩⟩

theorem Moves.trans {a b c : Storage} (h1 : Moves a b) (h2 : Moves b c) : Moves a c := by
  refine ⟨h2.epoch.trans h1.epoch, h2.srcs.trans h1.srcs, h2.maps.trans h1.maps, ?_⟩
  intro q r hq
  obtain ⟨r1, hq1, hc1⟩ := h1.node q r hq
  obtain ⟨r2, hq2, hc2⟩ := h2.node q r1 hq1
  refine ⟨r2, hq2, ?_⟩
  rcases hc1 with rfl | ⟨hlt, htv, hcase⟩
  · rcases hc2 with rfl | ⟨hlt2, htv2, hcase2⟩
    · exact Or.inl rfl
    · right; rw [h1.epoch] at hlt2 htv2; exact ⟨hlt2, htv2, hcase2⟩
  · rcases hc2 with rfl | ⟨hlt2, _, _⟩
    · exact Or.inr ⟨hlt, htv, hcase⟩
    · rw [h1.epoch] at hlt2; omega

theorem Moves.congr_left {s s0 s' : Storage} (h : Moves s s') (he : s0.epoch = s.epoch)
    (hs : s0.srcs = s.srcs) (hm : s0.maps = s.maps) (hd : s0.derived = s.derived) : Moves s0 s' :=
  ⟨by rw [he]; exact h.epoch, by rw [hs]; exact h.srcs, by rw [hm]; exact h.maps,
   fun q r hq => by rw [hd] at hq; rw [he]; exact h.node q r hq⟩

/-- why the body of `m` may run while the storage moves on from `s`: `m` is not stored, or it is
stored, not yet verified in this epoch, and one of its recorded dependencies is found re-stamped
at some moment `sx` of the move -/
def Just (s : Storage) (m : NodeId) : Prop :=
  alookup s.derived m = none ∨
    ∃ rev d sx, alookup s.derived m = some rev ∧ rev.tv < s.epoch ∧ d ∈ rev.deps ∧ Moves s sx ∧ Changed sx d

theorem Just.congr_left {s s0 : Storage} {m : NodeId} (h : Just s m) (he : s0.epoch = s.epoch)
    (hs : s0.srcs = s.srcs) (hm : s0.maps = s.maps) (hd : s0.derived = s.derived) : Just s0 m := by
  rcases h with h | ⟨rev, d, sx, h1, h2, h3, h4, h5⟩
  · exact Or.inl (by rw [hd]; exact h)
  · exact Or.inr ⟨rev, d, sx, by rw [hd]; exact h1, by rw [he]; exact h2, h3, h4.congr_left he hs hm hd, h5⟩

/-- a justification relative to a later moment is one relative to an earlier moment -/
theorem Just.back {a b : Storage} {m : NodeId} (hab : Moves a b) (h : Just b m) : Just a m := by
  rcases h with h | ⟨rev, d, sx, h1, h2, h3, h4, h5⟩
  · cases ha : alookup a.derived m with
    | none => exact Or.inl ha
    | some r =>
      obtain ⟨r', hr', _⟩ := hab.node m r ha
      rw [h] at hr'; cases hr'
  · cases ha : alookup a.derived m with
    | none => exact Or.inl ha
    | some r =>
      obtain ⟨r', hr', hc⟩ := hab.node m r ha
      have e : r' = rev := Option.some.inj (hr'.symm.trans h1)
      rcases hc with hc | ⟨_, htv, _⟩
      · have e2 : rev = r := e.symm.trans hc
        rw [e2] at h2 h3
        exact Or.inr ⟨r, d, sx, ha, by rw [← hab.epoch]; exact h2, h3, hab.trans h4, h5⟩
      · rw [e] at htv; rw [hab.epoch] at h2; omega

/-- what may happen to the stored nodes while something else is brought up to date; only nodes
satisfying `bp` are touched or created, only bodies of such nodes run, and each run is justified -/
structure Evolves (bp : NodeId → Prop) (s s' : Storage) : Prop where
  epoch : s'.epoch = s.epoch
  srcs : s'.srcs = s.srcs
  maps : s'.maps = s.maps
  node : ∀ q r, alookup s.derived q = some r → ∃ r', alookup s'.derived q = some r' ∧
    (r' = r ∨ (bp q ∧ r.tv < s.epoch ∧ r'.tv = s.epoch ∧
      ((r'.val = r.val ∧ r'.tu = r.tu) ∨ (r.deps ≠ [] ∧ r.tv < r'.tu ∧ r'.val ≠ r.val))))
  born : ∀ q, alookup s.derived q = none → (alookup s'.derived q).isSome = true → bp q
  log : ∃ new, s'.log = new ++ s.log ∧ ∀ m, m ∈ new → bp m ∧ Just s m

theorem Evolves.moves {bp : NodeId → Prop} {s s' : Storage} (h : Evolves bp s s') : Moves s s' := by
  refine ⟨h.epoch, h.srcs, h.maps, ?_⟩
  intro q r hq
  obtain ⟨r', hq', hc⟩ := h.node q r hq
  refine ⟨r', hq', ?_⟩
  rcases hc with rfl | ⟨_, h2⟩
  · exact Or.inl rfl
  · exact Or.inr h2

theorem Evolves.refl (bp : NodeId → Prop) (s : Storage) : Evolves bp s s :=
  ⟨rfl, rfl, rfl, fun q r h => ⟨r, h, Or.inl rfl⟩, fun q hq hq' => by simp [hq] at hq',
   ⟨[], rfl, fun _ h => by cases h⟩⟩

theorem Evolves.mono {bp bp' : NodeId → Prop} {s s' : Storage} (h : Evolves bp s s') (hb : ∀ q, bp q → bp' q) :
    Evolves bp' s s' := by
  refine ⟨h.epoch, h.srcs, h.maps, ?_, fun q hq hq' => hb q (h.born q hq hq'), ?_⟩
  · intro q r hq
    obtain ⟨r', hq', hc⟩ := h.node q r hq
    refine ⟨r', hq', ?_⟩
    rcases hc with rfl | ⟨h1, h2⟩
    · exact Or.inl rfl
    · exact Or.inr ⟨hb q h1, h2⟩
  · obtain ⟨new, h1, h2⟩ := h.log
    exact ⟨new, h1, fun m hm => ⟨hb m (h2 m hm).1, (h2 m hm).2⟩⟩

/-- composition, where between the two steps some bodies `mid` (justified relative to `a`) started -/
theorem Evolves.trans' {bp : NodeId → Prop} {a b b' c : Storage} (h1 : Evolves bp a b) (h2 : Evolves bp b' c)
    (he : b'.epoch = b.epoch) (hs : b'.srcs = b.srcs) (hm : b'.maps = b.maps) (hd : b'.derived = b.derived)
    (mid : List NodeId) (hlog : b'.log = mid ++ b.log) (hmid : ∀ m, m ∈ mid → bp m ∧ Just a m) :
    Evolves bp a c := by
  refine ⟨h2.epoch.trans (he.trans h1.epoch), h2.srcs.trans (hs.trans h1.srcs), h2.maps.trans (hm.trans h1.maps), ?_, ?_, ?_⟩
  · intro q r hq
    obtain ⟨r1, hq1, hc1⟩ := h1.node q r hq
    obtain ⟨r2, hq2, hc2⟩ := h2.node q r1 (by rw [hd]; exact hq1)
    refine ⟨r2, hq2, ?_⟩
    rcases hc1 with rfl | ⟨hb, hlt, htv, hcase⟩
    · rcases hc2 with rfl | ⟨hb2, hlt2, htv2, hcase2⟩
      · exact Or.inl rfl
      · right; rw [he, h1.epoch] at hlt2 htv2; exact ⟨hb2, hlt2, htv2, hcase2⟩
    · rcases hc2 with rfl | ⟨_, hlt2, _, _⟩
      · exact Or.inr ⟨hb, hlt, htv, hcase⟩
      · rw [he, h1.epoch] at hlt2; omega
  · intro q hq hq'
    cases hq1 : alookup b.derived q with
    | none => exact h2.born q (by rw [hd]; exact hq1) hq'
    | some r1 => exact h1.born q hq (by simp [hq1])
  · obtain ⟨n1, e1, j1⟩ := h1.log
    obtain ⟨n2, e2, j2⟩ := h2.log
    refine ⟨n2 ++ mid ++ n1, by rw [e2, hlog, e1]; simp, ?_⟩
    intro x hx
    rcases List.mem_append.1 hx with hx | hx
    · rcases List.mem_append.1 hx with hx | hx
      · obtain ⟨p, j⟩ := j2 x hx
        exact ⟨p, (j.congr_left he.symm hs.symm hm.symm hd.symm).back h1.moves⟩
      · exact hmid x hx
    · exact j1 x hx

theorem Evolves.trans {bp : NodeId → Prop} {a b c : Storage} (h1 : Evolves bp a b) (h2 : Evolves bp b c) :
    Evolves bp a c :=
  h1.trans' h2 rfl rfl rfl rfl [] rfl (fun _ h => by cases h)

/-- an edge fact of an UNCHANGED revision survives whatever happens to the other nodes -/
theorem DepFor.evolves {bp : NodeId → Prop} {s s' : Storage} {r : Rev} {rd : Read} (he : Evolves bp s s') (htv : r.tv ≤ s.epoch)
    (h : DepFor s r rd) : DepFor s' r rd := by
  cases rd with
  | src k o =>
    unfold DepFor at h ⊢
    rw [he.srcs, he.maps]; exact h
  | node q w =>
    unfold DepFor at h ⊢
    obtain ⟨hd, rq, hq, hmono, hval⟩ := h
    obtain ⟨rq', hq', hc⟩ := he.node q rq hq
    refine ⟨hd, rq', hq', ?_, ?_⟩
    · rcases hc with rfl | ⟨_, _, htv', _⟩
      · exact hmono
      · intro _; rw [htv']; exact htv
    · rcases hc with rfl | ⟨_, hlt, htv', hcase⟩
      · exact hval
      · rcases hcase with ⟨hv, htu⟩ | ⟨hne, hgt, _⟩
        · intro hle; rw [hv]; exact hval (by rw [← htu]; exact hle)
        · intro hle
          have := hmono hne
          omega

theorem DepQuiet.evolves {bp : NodeId → Prop} {s s' : Storage} {d : Dep} (he : Evolves bp s s') (h : DepQuiet s d) :
    DepQuiet s' d := by
  unfold DepQuiet at h ⊢
  cases hn : d.node with
  | source k => rw [hn] at h; simp only at h ⊢; rw [he.srcs]; exact h
  | absent k => rw [hn] at h; simp only at h ⊢; rw [he.srcs]; exact h
  | derived q =>
    rw [hn] at h; simp only at h ⊢
    obtain ⟨rq, hq, htu, hdv⟩ := h
    obtain ⟨rq', hq', hc⟩ := he.node q rq hq
    rcases hc with rfl | ⟨_, hlt, htv', hcase⟩
    · exact ⟨rq', hq', htu, by rw [he.epoch]; exact hdv⟩
    · rcases hcase with ⟨_, htu'⟩ | ⟨hne, _⟩
      · exact ⟨rq', hq', by rw [htu']; exact htu, Or.inr (by rw [he.epoch]; exact htv')⟩
      · rcases hdv with hdv | hdv
        · exact absurd hdv hne
        · omega

theorem DepQuiet.congr {s : Storage} {d : Dep} (h : DepQuiet s d) {s' : Storage} (he : s'.epoch = s.epoch)
    (hs : s'.srcs = s.srcs) (hd : s'.derived = s.derived) : DepQuiet s' d := by
  unfold DepQuiet at h ⊢
  rw [he, hs, hd]; exact h

theorem RevOk.evolves {P : Prog} {bp : NodeId → Prop} {s s' : Storage} {n : NodeId} {r : Rev} (he : Evolves bp s s') (h : RevOk P s n r) :
    RevOk P s' n r := by
  refine ⟨by rw [he.epoch]; exact h.tv_le, h.tu_tv, h.stamps, h.tu_stamp, ?_, ?_, ?_⟩
  · intro ht; rw [he.srcs, he.maps]; exact h.correct (by rw [← he.epoch]; exact ht)
  · intro ht d hd; exact (h.quiet (by rw [← he.epoch]; exact ht) d hd).evolves he
  · obtain ⟨σx, mx, R, hb, hd, hx⟩ := h.ghost
    exact ⟨σx, mx, R, hb, fun rd hrd => (hd rd hrd).evolves he h.tv_le, hx⟩

/-- the invariant only looks at the epoch, the sources, the tracked fields and the stored nodes -/
theorem DepFor.congr {s : Storage} {r : Rev} {rd : Read} (h : DepFor s r rd) {s' : Storage}
    (hs : s'.srcs = s.srcs) (hm : s'.maps = s.maps) (hd : s'.derived = s.derived) : DepFor s' r rd := by
  cases rd with
  | src k o => unfold DepFor at h ⊢; rw [hs, hm]; exact h
  | node q w => unfold DepFor at h ⊢; rw [hd]; exact h

theorem RevOk.congr {P : Prog} {s : Storage} {n : NodeId} {r : Rev} (h : RevOk P s n r) {s' : Storage}
    (he : s'.epoch = s.epoch) (hs : s'.srcs = s.srcs) (hm : s'.maps = s.maps) (hd : s'.derived = s.derived) :
    RevOk P s' n r := by
  refine ⟨by rw [he]; exact h.tv_le, h.tu_tv, h.stamps, h.tu_stamp, ?_, ?_, ?_⟩
  · intro ht; rw [hs, hm]; exact h.correct (by rw [← he]; exact ht)
  · intro ht d' hd'; exact (h.quiet (by rw [← he]; exact ht) d' hd').congr he hs hd
  · obtain ⟨σx, mx, R, hb, hdf, hx⟩ := h.ghost
    exact ⟨σx, mx, R, hb, fun rd hrd => (hdf rd hrd).congr hs hm hd, hx⟩

theorem INV.congr {P : Prog} {s : Storage} {B : List NodeId} (h : INV P s B) {s' : Storage} (he : s'.epoch = s.epoch)
    (hs : s'.srcs = s.srcs) (hm : s'.maps = s.maps) (hd : s'.derived = s.derived)
    (hstk : ∀ fr, fr ∈ s'.stack → fr.id ∈ B) : INV P s' B := by
  refine ⟨by rw [he]; exact h.epochPos, hstk, ?_, ?_, ?_, ?_⟩
  · intro k nd hk; rw [he]; rw [hs] at hk; exact h.srcTu k nd hk
  · intro i hi; rw [hs] at hi; rw [hm]; exact h.mapsInit i hi
  · intro n r hn hb; rw [hd] at hn; exact (h.nodes n r hn hb).congr he hs hm hd
  · intro n r hn hb; rw [hd] at hn; rw [he]; exact h.busyTv n r hn hb

end IsoVerif.Pico
