/-
Helper lemmas for Props/C28.lean, part 1: ranges, the first success of the backtracking matcher.
-/
import IsoVerif.Model.Swc

namespace IsoVerif.Swc
open IsoVerif.Gen.SwcLits

/-! ### Range tables: decidable inclusion / disjointness checks with their soundness -/

def rangeIn (r : Nat × Nat) (rs : List (Nat × Nat)) : Bool :=
  rs.any fun q => decide (q.1 ≤ r.1) && decide (r.2 ≤ q.2)

def rangesSubset (a b : List (Nat × Nat)) : Bool := a.all fun r => rangeIn r b

def rangesDisjoint (a b : List (Nat × Nat)) : Bool :=
  a.all fun r => b.all fun q => decide (r.2 < q.1) || decide (q.2 < r.1)

theorem inRanges_iff {rs : List (Nat × Nat)} {c : Nat} :
    inRanges rs c = true ↔ ∃ r ∈ rs, r.1 ≤ c ∧ c ≤ r.2 := by
  simp [inRanges, List.any_eq_true]

theorem rangesSubset_sound {a b : List (Nat × Nat)} (h : rangesSubset a b = true) {c : Nat}
    (hc : inRanges a c = true) : inRanges b c = true := by
  rw [inRanges_iff] at hc ⊢
  obtain ⟨r, hr, h1, h2⟩ := hc
  simp only [rangesSubset, List.all_eq_true] at h
  have := h r hr
  simp only [rangeIn, List.any_eq_true, Bool.and_eq_true, decide_eq_true_eq] at this
  obtain ⟨q, hq, h3, h4⟩ := this
  exact ⟨q, hq, by omega, by omega⟩

theorem rangesDisjoint_sound {a b : List (Nat × Nat)} (h : rangesDisjoint a b = true) {c : Nat}
    (hc : inRanges a c = true) : inRanges b c = false := by
  cases hb : inRanges b c with
  | false => rfl
  | true =>
    rw [inRanges_iff] at hc hb
    obtain ⟨r, hr, h1, h2⟩ := hc
    obtain ⟨q, hq, h3, h4⟩ := hb
    simp only [rangesDisjoint, List.all_eq_true] at h
    have := h r hr q hq
    simp only [Bool.or_eq_true, decide_eq_true_eq] at this
    omega

/-! ### First success -/

def first (re : Re) (s : St) : Option St := (matchAll re s).head?

theorem head?_append_of_head? {α} {l m : List α} {a : α} (h : l.head? = some a) :
    (l ++ m).head? = some a := by
  cases l with
  | nil => simp at h
  | cons x xs => simpa using h

theorem head?_flatMap_of_head? {α β} {l : List α} {f : α → List β} {a : α} {b : β}
    (h1 : l.head? = some a) (h2 : (f a).head? = some b) : (l.flatMap f).head? = some b := by
  cases l with
  | nil => simp at h1
  | cons x xs =>
    simp only [List.head?_cons, Option.some.injEq] at h1
    subst h1
    rw [List.flatMap_cons]
    exact head?_append_of_head? h2

theorem first_cat {a b : Re} {s s1 s2 : St} (h1 : first a s = some s1) (h2 : first b s1 = some s2) :
    first (.cat a b) s = some s2 := by
  unfold first at *
  simp only [matchAll]
  exact head?_flatMap_of_head? h1 h2

theorem first_alt_left {a b : Re} {s x : St} (h : first a s = some x) : first (.alt a b) s = some x := by
  unfold first at *
  simp only [matchAll]
  exact head?_append_of_head? h

theorem first_alt_right {a b : Re} {s : St} (h : matchAll a s = []) : first (.alt a b) s = first b s := by
  unfold first
  simp [matchAll, h]

theorem first_grp {i : Nat} {r : Re} {s s' : St} (h : first r s = some s') :
    first (.grp i r) s =
      some { s' with caps := (i, s.rest.take (s.rest.length - s'.rest.length)) :: s'.caps } := by
  unfold first at *
  simp only [matchAll]
  cases hm : matchAll r s with
  | nil => simp [hm] at h
  | cons x xs =>
    simp only [hm, List.head?_cons, Option.some.injEq] at h
    subst h
    simp

theorem stripPrefix_append (cs rest : Str) : stripPrefix cs (cs ++ rest) = some rest := by
  induction cs with
  | nil => simp [stripPrefix]
  | cons c cs ih => simp [stripPrefix, ih]

theorem first_lit (cs rest : Str) (caps : List (Nat × Str)) :
    first (.lit cs) ⟨cs ++ rest, caps⟩ = some ⟨rest, caps⟩ := by
  simp [first, matchAll, stripPrefix_append]

theorem matchAll_lit_nil {cs : Str} {s : St} (h : stripPrefix cs s.rest = none) : matchAll (.lit cs) s = [] := by
  simp [matchAll, h]

theorem matchAll_cls_cons {rs : List (Nat × Nat)} {c : Nat} {r : Str} {caps : List (Nat × Str)}
    (h : inRanges rs c = true) : matchAll (.cls false rs) ⟨c :: r, caps⟩ = [⟨r, caps⟩] := by
  simp [matchAll, h]

theorem matchAll_cls_stop {rs : List (Nat × Nat)} {s : St}
    (h : ∀ c, s.rest.head? = some c → inRanges rs c = false) : matchAll (.cls false rs) s = [] := by
  obtain ⟨rest, caps⟩ := s
  cases rest with
  | nil => simp [matchAll]
  | cons c r =>
    have := h c (by simp)
    simp [matchAll, this]

/-- Greedy `[class]*` over `w ++ rest`: the first success has consumed exactly `w`, when `w` lies in the
class and `rest` does not start with a character of the class. -/
theorem starLoop_cls_first {rs : List (Nat × Nat)} (w rest : Str) (caps : List (Nat × Str)) (n : Nat)
    (hn : w.length ≤ n) (hw : ∀ c ∈ w, inRanges rs c = true)
    (hr : ∀ c, rest.head? = some c → inRanges rs c = false) :
    (starLoop (matchAll (.cls false rs)) n ⟨w ++ rest, caps⟩).head? = some ⟨rest, caps⟩ := by
  induction w generalizing n with
  | nil =>
    cases n with
    | zero => simp [starLoop]
    | succ n =>
      have : matchAll (.cls false rs) ⟨rest, caps⟩ = [] := matchAll_cls_stop (by simpa using hr)
      simp [starLoop, this]
  | cons c w ih =>
    cases n with
    | zero => simp at hn
    | succ n =>
      have hc : inRanges rs c = true := hw c (by simp)
      have hstep : matchAll (.cls false rs) ⟨c :: w ++ rest, caps⟩ = [⟨w ++ rest, caps⟩] := by
        simpa using matchAll_cls_cons (r := w ++ rest) (caps := caps) hc
      have ih' := ih n (by simpa using hn) (fun x hx => hw x (by simp [hx]))
      simp only [starLoop, hstep]
      simp only [List.cons_append, List.length_cons, List.filter_cons, Nat.lt_succ_self, decide_true,
        if_true, List.filter_nil, List.flatMap_cons, List.flatMap_nil, List.append_nil]
      exact head?_append_of_head? ih'

theorem first_star_cls {rs : List (Nat × Nat)} (w rest : Str) (caps : List (Nat × Str))
    (hw : ∀ c ∈ w, inRanges rs c = true) (hr : ∀ c, rest.head? = some c → inRanges rs c = false) :
    first (.star (.cls false rs)) ⟨w ++ rest, caps⟩ = some ⟨rest, caps⟩ := by
  unfold first
  simp only [matchAll]
  exact starLoop_cls_first w rest caps _ (by simp) hw hr

/-- `[start][cont]*` over `(c :: cs) ++ rest`. -/
theorem first_ident {S C : List (Nat × Nat)} (c : Nat) (cs rest : Str) (caps : List (Nat × Str))
    (hc : inRanges S c = true) (hcs : ∀ x ∈ cs, inRanges C x = true)
    (hr : ∀ x, rest.head? = some x → inRanges C x = false) :
    first (.cat (.cls false S) (.star (.cls false C))) ⟨(c :: cs) ++ rest, caps⟩ = some ⟨rest, caps⟩ := by
  apply first_cat (s1 := ⟨cs ++ rest, caps⟩)
  · simp [first, matchAll, hc]
  · exact first_star_cls cs rest caps hcs hr

theorem take_length_sub (x rest : Str) : (x ++ rest).take ((x ++ rest).length - rest.length) = x := by
  simp

/-- Leftmost search: a success at the first position is the result. -/
theorem search_of_first {re : Re} {s : Str} {r : St} (h : first re ⟨s, []⟩ = some r) : search re s = some r := by
  cases s with
  | nil => simpa [search, first] using h
  | cons c cs =>
    unfold first at h
    simp [search, h]

end IsoVerif.Swc
