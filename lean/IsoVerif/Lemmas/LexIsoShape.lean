/-
A fact about the iso lexer that the parser's string slicing relies on: the text of a
`StringLiteral` token starts and ends with the one-byte character `"`, the text of a
`BlockStringLiteral` token starts and ends with `"""`.
-/
import IsoVerif.Lemmas.Lex
import IsoVerif.Model.IsoLex

namespace IsoVerif.IsoLex
open IsoVerif.Lex IsoVerif.Gen.IsoTokens

/-! ## every token comes from one `stepNE` at some suffix -/

theorem lexFrom_mem {κ : Type} (L : Lexer κ) : ∀ (fuel : Nat) (cs : List Chr) (pos : Nat) (t : Tok κ),
    t ∈ lexFrom L fuel cs pos →
    ∃ k, cs.drop k ≠ [] ∧ (stepNE L (cs.drop k) (pos + width (cs.take k))).1 = some t
  | 0, _, _, _, h => by simp [lexFrom] at h
  | fuel + 1, cs, pos, t, h => by
    simp only [lexFrom] at h
    cases hs : step L cs pos with
    | none => rw [hs] at h; simp at h
    | some r =>
      obtain ⟨t?, n⟩ := r
      rw [hs] at h
      simp only at h
      have hcs : cs ≠ [] ∧ stepNE L cs pos = (t?, n) := by
        unfold step at hs
        split at hs
        · simp at hs
        · simp at hs; exact ⟨by simp, hs⟩
      have hrec : t ∈ lexFrom L fuel (cs.drop n) (pos + width (cs.take n)) →
          ∃ k, cs.drop k ≠ [] ∧ (stepNE L (cs.drop k) (pos + width (cs.take k))).1 = some t := by
        intro hm
        obtain ⟨k, hk1, hk2⟩ := lexFrom_mem L fuel _ _ t hm
        refine ⟨n + k, by simpa [List.drop_drop, Nat.add_comm] using hk1, ?_⟩
        rw [width_take_add, ← List.drop_drop]
        simpa [Nat.add_assoc] using hk2
      cases t? with
      | none => exact hrec h
      | some t0 =>
        simp only [List.mem_cons] at h
        rcases h with rfl | h
        · exact ⟨0, by simpa using hcs.1, by simp [width, hcs.2]⟩
        · exact hrec h

/-! ## matching a literal character -/

theorem matchLen_empty : ∀ (cs : List Chr) (n : Nat) (best : Option Nat), RE.matchLen .empty cs n best = best
  | [], n, best => by simp [RE.matchLen, RE.nullable]
  | c :: cs, n, best => by simp [RE.matchLen, RE.nullable, RE.isDead]

theorem matchLen_eps (cs : List Chr) (n : Nat) (best : Option Nat) (hn : 0 < n) :
    RE.matchLen .eps cs n best = some n := by
  cases cs with
  | nil => simp [RE.matchLen, RE.nullable, hn]
  | cons c cs => simp [RE.matchLen, RE.nullable, RE.isDead, RE.deriv, matchLen_empty, hn]

/-- a single literal character matches exactly one character with that code point -/
theorem matchLen_chr (c : Nat) (cs : List Chr) (n : Nat) (h : RE.matchLen (.chr c) cs 0 none = some n) :
    n = 1 ∧ ∃ d rest, cs = d :: rest ∧ d.cp = c := by
  cases cs with
  | nil => simp [RE.matchLen, RE.nullable] at h
  | cons d rest =>
    simp only [RE.matchLen, RE.nullable, RE.isDead, RE.deriv] at h
    by_cases hd : d.cp = c
    · simp only [hd, if_true] at h
      rw [matchLen_eps _ _ _ (by omega)] at h
      simp at h
      exact ⟨h.symm, d, rest, rfl, hd⟩
    · simp only [hd, if_false] at h
      rw [matchLen_empty] at h
      simp at h

theorem bestMatch_mem {κ : Type} : ∀ (rules : List (Rule κ)) (cs : List Chr) (r : Rule κ) (n : Nat),
    bestMatch rules cs = some (r, n) → r ∈ rules ∧ RE.matchLen r.re cs 0 none = some n
  | [], _, _, _, h => by simp [bestMatch] at h
  | r0 :: rs, cs, r, n, h => by
    simp only [bestMatch] at h
    cases h1 : RE.matchLen r0.re cs 0 none with
    | none =>
      rw [h1] at h
      simp only at h
      obtain ⟨hm, hl⟩ := bestMatch_mem rs cs r n h
      exact ⟨by simp [hm], hl⟩
    | some n0 =>
      rw [h1] at h
      cases h2 : bestMatch rs cs with
      | none =>
        rw [h2] at h
        simp only [Option.some.injEq, Prod.mk.injEq] at h
        obtain ⟨rfl, rfl⟩ := h
        exact ⟨by simp, h1⟩
      | some p =>
        obtain ⟨r', n'⟩ := p
        rw [h2] at h
        simp only at h
        split at h
        · simp only [Option.some.injEq, Prod.mk.injEq] at h
          obtain ⟨rfl, rfl⟩ := h
          obtain ⟨hm, hl⟩ := bestMatch_mem rs cs r' n' h2
          exact ⟨by simp [hm], hl⟩
        · simp only [Option.some.injEq, Prod.mk.injEq] at h
          obtain ⟨rfl, rfl⟩ := h
          exact ⟨by simp, h1⟩

theorem mkSeq_eps (r : RE) : RE.mkSeq .eps r = r := by cases r <;> rfl
theorem mkSeq_empty (r : RE) : RE.mkSeq .empty r = .empty := by cases r <;> rfl

/-- `"c" r` : the first character must be `c`, then `r` -/
theorem matchLen_seq_chr (c : Nat) (r : RE) (d : Chr) (rest : List Chr) (n : Nat) (best : Option Nat) :
    RE.matchLen (.seq (.chr c) r) (d :: rest) n best =
      if d.cp = c then RE.matchLen r rest (n + 1) best else best := by
  simp only [RE.matchLen, RE.nullable, RE.isDead, RE.deriv, Bool.false_and, Bool.and_false, Bool.false_eq_true, if_false]
  by_cases hd : d.cp = c
  · simp [hd, mkSeq_eps]
  · simp [hd, mkSeq_empty, matchLen_empty]

theorem matchLen_seq_chr_nil (c : Nat) (r : RE) (n : Nat) (best : Option Nat) :
    RE.matchLen (.seq (.chr c) r) [] n best = best := by
  simp [RE.matchLen, RE.nullable]

/-- the literal `"""` matches exactly three `"` characters -/
theorem matchLen_quote3 (cs : List Chr) (n : Nat)
    (h : RE.matchLen (.seq (.chr 34) (.seq (.chr 34) (.chr 34))) cs 0 none = some n) :
    n = 3 ∧ ∃ a b c rest, cs = a :: b :: c :: rest ∧ a.cp = 34 ∧ b.cp = 34 ∧ c.cp = 34 := by
  cases cs with
  | nil => simp [matchLen_seq_chr_nil] at h
  | cons a r1 =>
    rw [matchLen_seq_chr] at h
    by_cases ha : a.cp = 34
    · simp only [ha, if_true] at h
      cases r1 with
      | nil => simp [matchLen_seq_chr_nil] at h
      | cons b r2 =>
        rw [matchLen_seq_chr] at h
        by_cases hb : b.cp = 34
        · simp only [hb, if_true] at h
          cases r2 with
          | nil => simp [RE.matchLen, RE.nullable] at h
          | cons c r3 =>
            simp only [RE.matchLen, RE.nullable, RE.isDead, RE.deriv] at h
            by_cases hc : c.cp = 34
            · simp only [hc, if_true] at h
              rw [matchLen_eps _ _ _ (by omega)] at h
              simp at h
              exact ⟨h.symm, a, b, c, r3, rfl, ha, hb, hc⟩
            · simp only [hc, if_false] at h
              rw [matchLen_empty] at h
              simp at h
        · simp [hb] at h
    · simp [ha] at h

theorem bind_noCb (o : Option String) : o.bind noCb = none := by cases o <;> rfl

/-! ## the sub-lexers: where a `Quote` / `TripleQuote` token comes from -/

theorem stringRules_quote : ∀ r ∈ stringRules, r.kind = .Quote → r.re = .chr 34 := by
  intro r hr hk
  simp only [stringRules, List.mem_cons, List.mem_nil_iff, or_false] at hr
  rcases hr with rfl | rfl | rfl | rfl | rfl <;> simp_all

theorem blockRules_triple : ∀ r ∈ blockRules, r.kind = .TripleQuote →
    r.re = .seq (.chr 34) (.seq (.chr 34) (.chr 34)) := by
  intro r hr hk
  simp only [blockRules, List.mem_cons, List.mem_nil_iff, or_false] at hr
  rcases hr with rfl | rfl | rfl <;> simp_all

theorem step_string_quote (cs : List Chr) (t : Tok StringKind) (n : Nat)
    (h : step stringLexer cs 0 = some (some t, n)) (hk : t.kind = .Quote) :
    n = 1 ∧ ∃ d rest, cs = d :: rest ∧ d.cp = 34 := by
  unfold step at h
  split at h
  · simp at h
  · rename_i c cs'
    simp only [Option.some.injEq] at h
    unfold stepNE at h
    simp only [stringLexer, noPre] at h
    cases hb : bestMatch stringRules (c :: cs') with
    | none =>
      rw [hb] at h
      simp only [Prod.mk.injEq, Option.some.injEq] at h
      obtain ⟨rfl, _⟩ := h
      simp [mkTok, stringError] at hk
    | some p =>
      obtain ⟨r, n0⟩ := p
      rw [hb] at h
      simp only [bind_noCb, Prod.mk.injEq] at h
      obtain ⟨h1, h2⟩ := h
      split at h1
      · simp at h1
      · simp only [Option.some.injEq] at h1
        subst h1
        simp only [mkTok] at hk
        obtain ⟨hm, hl⟩ := bestMatch_mem _ _ _ _ hb
        rw [stringRules_quote r hm hk] at hl
        obtain ⟨rfl, d, rest, hcs, hd⟩ := matchLen_chr _ _ _ hl
        exact ⟨by simp [norm] at h2; exact h2.symm, d, rest, hcs, hd⟩

theorem step_block_triple (cs : List Chr) (t : Tok BlockKind) (n : Nat)
    (h : step blockLexer cs 0 = some (some t, n)) (hk : t.kind = .TripleQuote) :
    n = 3 ∧ ∃ a b c rest, cs = a :: b :: c :: rest ∧ a.cp = 34 ∧ b.cp = 34 ∧ c.cp = 34 := by
  unfold step at h
  split at h
  · simp at h
  · rename_i c cs'
    simp only [Option.some.injEq] at h
    unfold stepNE at h
    simp only [blockLexer, noPre] at h
    cases hb : bestMatch blockRules (c :: cs') with
    | none =>
      rw [hb] at h
      simp only [Prod.mk.injEq, Option.some.injEq] at h
      obtain ⟨rfl, _⟩ := h
      simp [mkTok, blockError] at hk
    | some p =>
      obtain ⟨r, n0⟩ := p
      rw [hb] at h
      simp only [bind_noCb, Prod.mk.injEq] at h
      obtain ⟨h1, h2⟩ := h
      split at h1
      · simp at h1
      · simp only [Option.some.injEq] at h1
        subst h1
        simp only [mkTok] at hk
        obtain ⟨hm, hl⟩ := bestMatch_mem _ _ _ _ hb
        rw [blockRules_triple r hm hk] at hl
        obtain ⟨rfl, x, y, z, rest, hcs, hx, hy, hz⟩ := matchLen_quote3 _ _ hl
        exact ⟨by simp [norm] at h2; exact h2.symm, x, y, z, rest, hcs, hx, hy, hz⟩

/-! ## the callbacks -/

/-- `lex_string` accepts only right after a `"`: `j` characters, then the closing quote -/
theorem lexStringLoop_true : ∀ (fuel : Nat) (cs : List Chr) (k k' : Nat),
    lexStringLoop fuel cs k = (true, k') →
    ∃ j d rest, k' = k + j + 1 ∧ cs.drop j = d :: rest ∧ d.cp = 34
  | 0, _, _, _, h => by simp [lexStringLoop] at h
  | fuel + 1, cs, k, k', h => by
    unfold lexStringLoop at h
    cases hs : step stringLexer cs 0 with
    | none => rw [hs] at h; simp at h
    | some p =>
      obtain ⟨t?, n⟩ := p
      rw [hs] at h
      have hrec : lexStringLoop fuel (cs.drop n) (k + n) = (true, k') →
          ∃ j d rest, k' = k + j + 1 ∧ cs.drop j = d :: rest ∧ d.cp = 34 := by
        intro h'
        obtain ⟨j, d, rest, h1, h2, h3⟩ := lexStringLoop_true fuel _ _ _ h'
        exact ⟨n + j, d, rest, by omega, by rw [← List.drop_drop]; exact h2, h3⟩
      cases t? with
      | none => exact hrec h
      | some t =>
        simp only at h
        split at h
        · rename_i hq
          simp only [Prod.mk.injEq, true_and] at h
          obtain ⟨rfl, d, rest, hcs, hd⟩ := step_string_quote cs t n hs hq
          exact ⟨0, d, rest, by omega, by simpa using hcs, hd⟩
        · simp at h
        · simp at h
        · exact hrec h

/-- `lex_block_string` accepts only right after `"""` -/
theorem lexBlockLoop_true : ∀ (fuel : Nat) (cs : List Chr) (k k' : Nat),
    lexBlockLoop fuel cs k = (true, k') →
    ∃ j a b c rest, k' = k + j + 3 ∧ cs.drop j = a :: b :: c :: rest ∧ a.cp = 34 ∧ b.cp = 34 ∧ c.cp = 34
  | 0, _, _, _, h => by simp [lexBlockLoop] at h
  | fuel + 1, cs, k, k', h => by
    unfold lexBlockLoop at h
    cases hs : step blockLexer cs 0 with
    | none => rw [hs] at h; simp at h
    | some p =>
      obtain ⟨t?, n⟩ := p
      rw [hs] at h
      have hrec : lexBlockLoop fuel (cs.drop n) (k + n) = (true, k') →
          ∃ j a b c rest, k' = k + j + 3 ∧ cs.drop j = a :: b :: c :: rest ∧ a.cp = 34 ∧ b.cp = 34 ∧ c.cp = 34 := by
        intro h'
        obtain ⟨j, a, b, c, rest, h1, h2, h3⟩ := lexBlockLoop_true fuel _ _ _ h'
        exact ⟨n + j, a, b, c, rest, by omega, by rw [← List.drop_drop]; exact h2, h3⟩
      cases t? with
      | none => exact hrec h
      | some t =>
        simp only at h
        split at h
        · rename_i hq
          simp only [Prod.mk.injEq, true_and] at h
          obtain ⟨rfl, a, b, c, rest, hcs, hx⟩ := step_block_triple cs t n hs hq
          exact ⟨0, a, b, c, rest, by omega, by simpa using hcs, hx⟩
        · simp at h
        · exact hrec h

/-! ## the number scanner never produces a string token -/

def NumKind (k : IsoKind) : Prop := k = .IntegerLiteral ∨ k = .ErrorNumberLiteralTrailingInvalid ∨ k = .Error

theorem expDigits_kind (r : List Chr) (n : Nat) : NumKind (expDigits r n).1 := by
  unfold expDigits
  simp only
  split
  · split <;> simp [NumKind]
  · simp [NumKind]

theorem expHead_kind (r : List Chr) (n : Nat) : NumKind (expHead r n).1 := by
  unfold expHead
  split
  · simp [NumKind]
  · split
    · exact expDigits_kind _ _
    · split
      · split
        · split
          · exact expDigits_kind _ _
          · simp [NumKind]
        · simp [NumKind]
      · simp [NumKind]

theorem fracTail_kind (r : List Chr) (n : Nat) : NumKind (fracTail r n).1 := by
  unfold fracTail
  split
  · simp [NumKind]
  · split
    · exact expHead_kind _ _
    · split <;> simp [NumKind]

theorem intTail_kind (r : List Chr) (n : Nat) : NumKind (intTail r n).1 := by
  unfold intTail
  split
  · simp [NumKind]
  · split
    · split
      · split
        · exact fracTail_kind _ _
        · simp [NumKind]
      · simp [NumKind]
    · split
      · exact expHead_kind _ _
      · split <;> simp [NumKind]

theorem kind_of_eq {p : IsoKind × Nat} {k : IsoKind} {n : Nat} (hp : NumKind p.1) (h : p = (k, n)) : NumKind k := by
  subst h; exact hp

theorem numberPre_kind (cs : List Chr) (k : IsoKind) (n : Nat) (h : numberPre cs = some (k, n)) : NumKind k := by
  unfold numberPre at h
  simp only at h
  split at h
  · split at h
    · simp only [Option.some.injEq] at h
      exact kind_of_eq (intTail_kind _ _) h
    · split at h
      · split at h
        · split at h
          · simp at h
          · simp only [Option.some.injEq] at h
            exact kind_of_eq (intTail_kind _ _) h
        · simp only [Option.some.injEq, Prod.mk.injEq] at h
          rw [← h.1]; simp [NumKind]
      · simp at h
  · simp at h

/-! ## the main lexer: where a `StringLiteral` / `BlockStringLiteral` token comes from -/

theorem isoRules_string : ∀ r ∈ isoRules, r.kind = .StringLiteral → r.re = .chr 34 ∧ r.cb = some "lex_string" := by
  intro r hr hk
  simp only [isoRules, List.mem_cons, List.mem_nil_iff, or_false] at hr
  rcases hr with rfl | rfl | rfl | rfl | rfl | rfl | rfl | rfl | rfl | rfl | rfl | rfl | rfl | rfl | rfl | rfl | rfl | rfl | rfl | rfl | rfl <;> simp_all

theorem isoRules_block : ∀ r ∈ isoRules, r.kind = .BlockStringLiteral →
    r.re = .seq (.chr 34) (.seq (.chr 34) (.chr 34)) ∧ r.cb = some "lex_block_string" := by
  intro r hr hk
  simp only [isoRules, List.mem_cons, List.mem_nil_iff, or_false] at hr
  rcases hr with rfl | rfl | rfl | rfl | rfl | rfl | rfl | rfl | rfl | rfl | rfl | rfl | rfl | rfl | rfl | rfl | rfl | rfl | rfl | rfl | rfl <;> simp_all

/-- a `StringLiteral` token is `"`, `j` further characters, `"` -/
theorem isoStep_string (cs : List Chr) (pos : Nat) (t : Tok IsoKind)
    (h : (stepNE isoLexer cs pos).1 = some t) (hk : t.kind = .StringLiteral) :
    ∃ d rest j e rest', cs = d :: rest ∧ d.cp = 34 ∧ rest.drop j = e :: rest' ∧ e.cp = 34 ∧
      t.s = pos ∧ t.e = pos + width (cs.take (j + 2)) := by
  unfold stepNE at h
  simp only [isoLexer] at h
  cases hpre : numberPre cs with
  | some p =>
    obtain ⟨k, n⟩ := p
    rw [hpre] at h
    simp only [Option.some.injEq] at h
    subst h
    have := numberPre_kind cs k n hpre
    simp only [mkTok] at hk
    subst hk
    simp [NumKind] at this
  | none =>
    rw [hpre] at h
    simp only at h
    cases hb : bestMatch isoRules cs with
    | none =>
      rw [hb] at h
      simp only [Option.some.injEq] at h
      subst h
      simp [mkTok, isoError] at hk
    | some p =>
      obtain ⟨r, n0⟩ := p
      rw [hb] at h
      simp only at h
      obtain ⟨hm, hl⟩ := bestMatch_mem _ _ _ _ hb
      cases hcb : r.cb.bind isoCbs with
      | none =>
        rw [hcb] at h
        simp only at h
        split at h
        · simp at h
        · simp only [Option.some.injEq] at h
          subst h
          simp only [mkTok] at hk
          have := (isoRules_string r hm hk).2
          rw [this] at hcb
          simp [isoCbs] at hcb
      | some cb =>
        rw [hcb] at h
        simp only [Option.some.injEq] at h
        subst h
        simp only [mkTok] at hk ⊢
        have hok : (cb (cs.drop (norm n0))).1 = true ∧ r.kind = .StringLiteral := by
          by_cases hc : (cb (cs.drop (norm n0))).1 = true
          · simp only [hc, if_true] at hk; exact ⟨hc, hk⟩
          · simp only [hc] at hk; simp [isoError] at hk
        obtain ⟨hre, hname⟩ := isoRules_string r hm hok.2
        rw [hre] at hl
        obtain ⟨rfl, d, rest, hcs, hd⟩ := matchLen_chr _ _ _ hl
        rw [hname] at hcb
        simp only [Option.bind, isoCbs, if_true, Option.some.injEq] at hcb
        subst hcb
        have hnorm : norm 1 = 1 := by simp [norm]
        rw [hnorm] at hok ⊢
        subst hcs
        simp only [List.drop_succ_cons, List.drop_zero] at hok ⊢
        have hloop : lexStringLoop rest.length rest 0 = (true, (lexStringCb rest).2) := by
          have : (lexStringCb rest) = lexStringLoop rest.length rest 0 := rfl
          rw [← this]
          exact Prod.ext hok.1 rfl
        obtain ⟨j, e, rest', h1, h2, h3⟩ := lexStringLoop_true _ _ _ _ hloop
        refine ⟨d, rest, j, e, rest', rfl, hd, h2, h3, ?_, ?_⟩
        · trivial
        · have : 1 + (lexStringCb rest).2 = j + 2 := by omega
          rw [this]

/-- a `BlockStringLiteral` token is `"""`, `j` further characters, `"""` -/
theorem isoStep_block (cs : List Chr) (pos : Nat) (t : Tok IsoKind)
    (h : (stepNE isoLexer cs pos).1 = some t) (hk : t.kind = .BlockStringLiteral) :
    ∃ a b c rest j x y z rest', cs = a :: b :: c :: rest ∧ a.cp = 34 ∧ b.cp = 34 ∧ c.cp = 34 ∧
      rest.drop j = x :: y :: z :: rest' ∧ x.cp = 34 ∧ y.cp = 34 ∧ z.cp = 34 ∧
      t.s = pos ∧ t.e = pos + width (cs.take (j + 6)) := by
  unfold stepNE at h
  simp only [isoLexer] at h
  cases hpre : numberPre cs with
  | some p =>
    obtain ⟨k, n⟩ := p
    rw [hpre] at h
    simp only [Option.some.injEq] at h
    subst h
    have := numberPre_kind cs k n hpre
    simp only [mkTok] at hk
    subst hk
    simp [NumKind] at this
  | none =>
    rw [hpre] at h
    simp only at h
    cases hb : bestMatch isoRules cs with
    | none =>
      rw [hb] at h
      simp only [Option.some.injEq] at h
      subst h
      simp [mkTok, isoError] at hk
    | some p =>
      obtain ⟨r, n0⟩ := p
      rw [hb] at h
      simp only at h
      obtain ⟨hm, hl⟩ := bestMatch_mem _ _ _ _ hb
      cases hcb : r.cb.bind isoCbs with
      | none =>
        rw [hcb] at h
        simp only at h
        split at h
        · simp at h
        · simp only [Option.some.injEq] at h
          subst h
          simp only [mkTok] at hk
          have := (isoRules_block r hm hk).2
          rw [this] at hcb
          simp [isoCbs] at hcb
      | some cb =>
        rw [hcb] at h
        simp only [Option.some.injEq] at h
        subst h
        simp only [mkTok] at hk ⊢
        have hok : (cb (cs.drop (norm n0))).1 = true ∧ r.kind = .BlockStringLiteral := by
          by_cases hc : (cb (cs.drop (norm n0))).1 = true
          · simp only [hc, if_true] at hk; exact ⟨hc, hk⟩
          · simp only [hc] at hk; simp [isoError] at hk
        obtain ⟨hre, hname⟩ := isoRules_block r hm hok.2
        rw [hre] at hl
        obtain ⟨rfl, a, b, c, rest, hcs, ha, hb', hc⟩ := matchLen_quote3 _ _ hl
        rw [hname] at hcb
        simp [Option.bind, isoCbs] at hcb
        subst hcb
        have hnorm : norm 3 = 3 := by simp [norm]
        rw [hnorm] at hok ⊢
        subst hcs
        simp only [List.drop_succ_cons, List.drop_zero] at hok ⊢
        have hloop : lexBlockLoop rest.length rest 0 = (true, (lexBlockCb rest).2) := by
          have : (lexBlockCb rest) = lexBlockLoop rest.length rest 0 := rfl
          rw [← this]
          exact Prod.ext hok.1 rfl
        obtain ⟨j, x, y, z, rest', h1, h2, h3, h4, h5⟩ := lexBlockLoop_true _ _ _ _ hloop
        refine ⟨a, b, c, rest, j, x, y, z, rest', rfl, ha, hb', hc, h2, h3, h4, h5, trivial, ?_⟩
        have : 3 + (lexBlockCb rest).2 = j + 6 := by omega
        rw [this]

end IsoVerif.IsoLex
