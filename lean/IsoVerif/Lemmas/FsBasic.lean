/-
Basic facts about the file-system part of M-FS: what each `std::fs` call of the model does to the
lookup function `Fs.get`, the fault-free run `run`, and the "artifact directory is absent or a
directory" invariant `RootOk`.
-/
import IsoVerif.Model.Fs

namespace IsoVerif.Fs
open IsoVerif.Util

variable {α : Type} [DecidableEq α]

/-! ### lookups -/

theorem get_erase (fs : Fs α) (p q : Path α) :
    Fs.get (Fs.erase fs p) q = if p = q then none else Fs.get fs q := by
  induction fs with
  | nil => simp [Fs.erase, Fs.get]
  | cons x rest ih =>
    obtain ⟨r, e⟩ := x
    simp only [Fs.erase] at ih ⊢
    by_cases hr : r = p
    · subst hr
      simp only [List.filter, decide_true, Bool.not_true]
      rw [ih]
      by_cases h : r = q <;> simp [Fs.get, h]
    · simp only [List.filter, hr, decide_false, Bool.not_false, Fs.get]
      rw [ih]
      by_cases h : r = q
      · subst h; simp [Ne.symm hr]
      · simp [h]

theorem get_set (fs : Fs α) (p q : Path α) (e : Entry) :
    Fs.get (Fs.set fs p e) q = if p = q then some e else Fs.get fs q := by
  simp only [Fs.set, Fs.get, get_erase]
  by_cases h : p = q <;> simp [h]

theorem isPrefixOf_nil (q : Path α) : isPrefixOf ([] : Path α) q = true := by
  cases q <;> rfl

theorem isPrefixOf_refl (p : Path α) : isPrefixOf p p = true := by
  induction p with
  | nil => rfl
  | cons a as ih => simp [isPrefixOf, ih]

theorem get_eraseTree (fs : Fs α) (p q : Path α) :
    Fs.get (Fs.eraseTree fs p) q = if isPrefixOf p q then none else Fs.get fs q := by
  induction fs with
  | nil => simp [Fs.eraseTree, Fs.get]
  | cons x rest ih =>
    obtain ⟨r, e⟩ := x
    simp only [Fs.eraseTree] at ih ⊢
    by_cases hr : isPrefixOf p r = true
    · simp only [List.filter, hr, Bool.not_true]
      rw [ih]
      by_cases h : r = q
      · subst h; simp [hr]
      · simp [Fs.get, h]
    · simp only [Bool.not_eq_true] at hr
      simp only [List.filter, hr, Bool.not_false, Fs.get]
      rw [ih]
      by_cases h : r = q
      · subst h; simp [hr]
      · simp [h]

/-! ### the operations, pointwise -/

theorem deleteDirectory_absent (fs : Fs α) (p : Path α) (h : Fs.get fs p = none) :
    deleteDirectory fs p = .ok fs := by
  simp [deleteDirectory, h]

theorem deleteDirectory_dir (fs : Fs α) (p : Path α) (h : Fs.get fs p = some .dir) :
    deleteDirectory fs p = .ok (Fs.eraseTree fs p) := by
  simp [deleteDirectory, h]

theorem removeFile_file (fs : Fs α) (p : Path α) (c : Bytes) (h : Fs.get fs p = some (.file c)) :
    removeFile fs p = .ok (Fs.erase fs p) := by
  simp [removeFile, h]

/-- writing below the artifact directory: the parent is a directory, the target is not -/
theorem writeFile_ok (fs : Fs α) (p : Path α) (c : Bytes) (hp : p ≠ [])
    (hpar : Fs.get fs p.dropLast = some .dir) (hnd : Fs.get fs p ≠ some .dir) :
    writeFile fs p c = .ok (Fs.set fs p (.file c)) := by
  cases p with
  | nil => exact absurd rfl hp
  | cons a as =>
    simp only [writeFile, hpar]

/-- `create_dir_all(artifact_directory)` -/
theorem createDirAll_nil (fs : Fs α) :
    createDirAll fs [] =
      match Fs.get fs [] with
      | some (.file _) => .error .notADirectory
      | some .dir => .ok fs
      | none => .ok (Fs.set fs [] .dir) := by
  unfold createDirAll createDirAllFrom
  cases Fs.get fs [] with
  | none => rfl
  | some e => cases e <;> rfl

theorem createDirAll_nil_of_dir (fs : Fs α) (h : Fs.get fs [] = some .dir) :
    createDirAll fs [] = .ok fs := by
  simp [createDirAll_nil, h]

/-- creating a non-empty path is the same as first creating the artifact directory -/
theorem createDirAll_cons_eq (fs : Fs α) (c : α) (rest : List α) :
    createDirAll fs (c :: rest) =
      (match createDirAll fs [] with
       | .ok fs1 => createDirAll fs1 (c :: rest)
       | .error e => .error e) := by
  simp only [createDirAll, createDirAllFrom]
  cases h : Fs.get fs [] with
  | none => simp [get_set]
  | some e =>
    cases e with
    | dir => simp [h]
    | file c' => simp

/-- `create_dir_all(artifact_directory/e/s)` when the artifact directory exists and neither `e` nor
`e/s` is a plain file: afterwards `e` and `e/s` are directories and nothing else changed. -/
theorem createDirAll_two (fs : Fs α) (e s : α) (hroot : Fs.get fs [] = some .dir)
    (he : ∀ c, Fs.get fs [e] ≠ some (.file c)) (hs : ∀ c, Fs.get fs [e, s] ≠ some (.file c)) :
    ∃ fs', createDirAll fs [e, s] = .ok fs' ∧
      ∀ q, Fs.get fs' q = if q = [e] ∨ q = [e, s] then some .dir else Fs.get fs q := by
  simp only [createDirAll, createDirAllFrom, hroot, List.nil_append, List.cons_append]
  cases h1 : Fs.get fs [e] with
  | some x =>
    cases x with
    | file c => exact absurd h1 (he c)
    | dir =>
      simp only
      cases h2 : Fs.get fs [e, s] with
      | some y =>
        cases y with
        | file c => exact absurd h2 (hs c)
        | dir =>
          refine ⟨fs, rfl, fun q => ?_⟩
          by_cases hq1 : q = [e]
          · simp [hq1, h1]
          · by_cases hq2 : q = [e, s]
            · simp [hq2, h2]
            · simp [hq1, hq2]
      | none =>
        refine ⟨_, rfl, fun q => ?_⟩
        rw [get_set]
        by_cases hq2 : q = [e, s]
        · simp [hq2]
        · by_cases hq1 : q = [e]
          · subst hq1; simp [h1]
          · have : ¬ ([e, s] = q) := fun h => hq2 h.symm
            simp [hq1, hq2, this]
  | none =>
    simp only
    have h2 : Fs.get (Fs.set fs [e] .dir) [e, s] = Fs.get fs [e, s] := by
      rw [get_set]; simp
    cases h3 : Fs.get fs [e, s] with
    | some y =>
      cases y with
      | file c => exact absurd h3 (hs c)
      | dir =>
        rw [h2, h3]
        refine ⟨_, rfl, fun q => ?_⟩
        rw [get_set]
        by_cases hq1 : q = [e]
        · simp [hq1]
        · have : ¬ ([e] = q) := fun h => hq1 h.symm
          by_cases hq2 : q = [e, s]
          · subst hq2; simp [h3]
          · simp [hq1, hq2, this]
    | none =>
      rw [h2, h3]
      refine ⟨_, rfl, fun q => ?_⟩
      rw [get_set, get_set]
      by_cases hq2 : q = [e, s]
      · simp [hq2]
      · have h2' : ¬ ([e, s] = q) := fun h => hq2 h.symm
        by_cases hq1 : q = [e]
        · simp [hq1]
        · have : ¬ ([e] = q) := fun h => hq1 h.symm
          simp [hq1, hq2, this, h2']

/-! ### the fault-free run -/

/-- `apply_file_system_operations` without an injected fault, as an `Except` -/
def run (arts : List (Artifact α)) : Fs α → List (Op α) → Except FsError (Fs α)
  | fs, [] => .ok fs
  | fs, op :: rest =>
    match applyOp arts fs op with
    | .ok fs' => run arts fs' rest
    | .error e => .error e

theorem run_nil (arts : List (Artifact α)) (fs : Fs α) : run arts fs [] = .ok fs := rfl

theorem run_append (arts : List (Artifact α)) (fs : Fs α) (a b : List (Op α)) :
    run arts fs (a ++ b) =
      match run arts fs a with
      | .ok fs' => run arts fs' b
      | .error e => .error e := by
  induction a generalizing fs with
  | nil => simp [run]
  | cons op rest ih =>
    simp only [List.cons_append, run]
    cases applyOp arts fs op with
    | ok fs' => simp [ih]
    | error e => simp

theorem run_append_ok (arts : List (Artifact α)) (fs fs1 fs2 : Fs α) (a b : List (Op α))
    (h1 : run arts fs a = .ok fs1) (h2 : run arts fs1 b = .ok fs2) : run arts fs (a ++ b) = .ok fs2 := by
  rw [run_append, h1]; exact h2

theorem applyAll_of_run (arts : List (Artifact α)) (fs fs' : Fs α) (ops : List (Op α)) (i : Nat)
    (h : run arts fs ops = .ok fs') : applyAll arts fs ops i none = (fs', .ok) := by
  induction ops generalizing fs i with
  | nil => simp [run] at h; simp [applyAll, h]
  | cons op rest ih =>
    simp only [run] at h
    simp only [applyAll]
    cases hop : applyOp arts fs op with
    | ok fs1 => rw [hop] at h; simpa using ih fs1 (i + 1) h
    | error e => rw [hop] at h; simp at h

/-- Running a list built with `flatMap`, with an invariant indexed by the processed prefix and the
remaining suffix. -/
theorem run_flatMap_inv {β : Type} (arts : List (Artifact α)) (g : β → List (Op α))
    (I : List β → List β → Fs α → Prop) (xs : List β)
    (step : ∀ pre x suf fs, xs = pre ++ x :: suf → I pre (x :: suf) fs →
      ∃ fs', run arts fs (g x) = .ok fs' ∧ I (pre ++ [x]) suf fs') :
    ∀ (fs : Fs α), I [] xs fs → ∃ fs', run arts fs (xs.flatMap g) = .ok fs' ∧ I xs [] fs' := by
  suffices H : ∀ suf pre fs, xs = pre ++ suf → I pre suf fs →
      ∃ fs', run arts fs (suf.flatMap g) = .ok fs' ∧ I xs [] fs' by
    intro fs h; exact H xs [] fs rfl h
  intro suf
  induction suf with
  | nil =>
    intro pre fs hx h
    simp only [List.append_nil] at hx
    subst hx
    exact ⟨fs, rfl, h⟩
  | cons x suf ih =>
    intro pre fs hx h
    obtain ⟨fs1, h1, hI1⟩ := step pre x suf fs hx h
    obtain ⟨fs2, h2, hI2⟩ := ih (pre ++ [x]) fs1 (by simp [hx]) hI1
    refine ⟨fs2, ?_, hI2⟩
    simp only [List.flatMap_cons]
    exact run_append_ok arts fs fs1 fs2 _ _ h1 h2

/-! ### the artifact directory is absent (then nothing is below it) or a directory -/

def RootOk (fs : Fs α) : Prop := Fs.get fs [] = some .dir ∨ ∀ p, Fs.get fs p = none

/-- the shape of every path the planner writes to: never the artifact directory itself -/
def Op.okShape : Op α → Prop
  | .writeFile p _ => p ≠ []
  | _ => True

theorem createDirAllFrom_root (fs fs' : Fs α) (pre : Path α) (rest : List α) (hpre : pre ≠ [])
    (h : createDirAllFrom fs pre rest = .ok fs') : Fs.get fs' [] = Fs.get fs [] := by
  induction rest generalizing fs pre with
  | nil =>
    simp only [createDirAllFrom] at h
    split at h
    · simp at h
    · simp at h; rw [← h]
    · simp at h; rw [← h, get_set]; simp [hpre]
  | cons c rest ih =>
    simp only [createDirAllFrom] at h
    split at h
    · simp at h
    · exact ih fs (pre ++ [c]) (by simp) h
    · rw [ih _ (pre ++ [c]) (by simp) h, get_set]; simp [hpre]

theorem createDirAll_root (fs fs' : Fs α) (p : Path α) (h : createDirAll fs p = .ok fs') :
    Fs.get fs' [] = some .dir := by
  cases p with
  | nil =>
    rw [createDirAll_nil] at h
    split at h
    · simp at h
    · next hd => simp at h; rw [← h]; exact hd
    · simp at h; rw [← h, get_set]; simp
  | cons c rest =>
    simp only [createDirAll, createDirAllFrom] at h
    split at h
    · simp at h
    · next hd => rw [createDirAllFrom_root fs fs' _ rest (by simp) h]; exact hd
    · rw [createDirAllFrom_root _ fs' _ rest (by simp) h, get_set]; simp

theorem RootOk_applyOp (arts : List (Artifact α)) (fs fs' : Fs α) (op : Op α) (hs : op.okShape)
    (hr : RootOk fs) (h : applyOp arts fs op = .ok fs') : RootOk fs' := by
  cases op with
  | deleteDirectory p =>
    simp only [applyOp, deleteDirectory] at h
    split at h
    · simp at h; rw [← h]; exact hr
    · next hd =>
      simp at h; rw [← h]
      cases p with
      | nil => right; intro q; rw [get_eraseTree]; simp [isPrefixOf_nil]
      | cons a as =>
        rcases hr with hr | hr
        · left; rw [get_eraseTree]; simp [isPrefixOf, hr]
        · rw [hr] at hd; simp at hd
    · simp at h
  | createDirectory p =>
    left; exact createDirAll_root fs fs' p h
  | writeFile p idx =>
    simp only [applyOp] at h
    cases ha : arts[idx]? with
    | none => rw [ha] at h; simp at h
    | some a =>
      rw [ha] at h
      cases p with
      | nil => exact absurd rfl hs
      | cons x xs =>
        simp only [writeFile] at h
        cases hpar : Fs.get fs (x :: xs).dropLast with
        | none => rw [hpar] at h; simp at h
        | some y =>
          rw [hpar] at h
          cases y with
          | file c => simp at h
          | dir =>
            rcases hr with hr | hr
            · left
              cases ht : Fs.get fs (x :: xs) with
              | none => rw [ht] at h; simp at h; rw [← h, get_set]; simp [hr]
              | some z =>
                rw [ht] at h
                cases z with
                | dir => simp at h
                | file c => simp at h; rw [← h, get_set]; simp [hr]
            · rw [hr] at hpar; simp at hpar
  | deleteFile p =>
    simp only [applyOp, removeFile] at h
    split at h
    · next c hf =>
      simp at h; rw [← h]
      rcases hr with hr | hr
      · left; rw [get_erase]
        by_cases hp : p = []
        · subst hp; rw [hr] at hf; simp at hf
        · simp [hp, hr]
      · rw [hr] at hf; simp at hf
    · simp at h
    · simp at h

theorem RootOk_applyAll (arts : List (Artifact α)) (ops : List (Op α)) (hs : ∀ op ∈ ops, op.okShape)
    (fs : Fs α) (i : Nat) (fault : Option Nat) (hr : RootOk fs) :
    RootOk (applyAll arts fs ops i fault).1 := by
  induction ops generalizing fs i with
  | nil => simpa [applyAll] using hr
  | cons op rest ih =>
    simp only [applyAll]
    split
    · exact hr
    · cases hop : applyOp arts fs op with
      | ok fs1 =>
        simp only
        exact ih (fun o ho => hs o (List.mem_cons_of_mem _ ho)) fs1 (i + 1)
          (RootOk_applyOp arts fs fs1 op (hs op List.mem_cons_self) hr hop)
      | error e =>
        cases e <;> exact hr

end IsoVerif.Fs
