/-
Basic lemmas over M-PICO: association lists, strict vs. plain from-scratch evaluation.
-/
import IsoVerif.Model.Pico
import IsoVerif.Model.PicoSpec

namespace IsoVerif.Pico

section alist
variable {α β : Type} [DecidableEq α]

@[simp] theorem alookup_nil (a : α) : alookup ([] : List (α × β)) a = none := rfl

theorem alookup_ainsert_self (l : List (α × β)) (a : α) (b : β) : alookup (ainsert l a b) a = some b := by
  induction l with
  | nil => simp [ainsert, alookup]
  | cons p l ih =>
    obtain ⟨k, v⟩ := p
    by_cases h : k = a
    · simp [ainsert, alookup, h]
    · simp [ainsert, alookup, h, ih]

theorem alookup_ainsert_ne (l : List (α × β)) (a a' : α) (b : β) (h : a ≠ a') :
    alookup (ainsert l a b) a' = alookup l a' := by
  induction l with
  | nil => simp [ainsert, alookup, h]
  | cons p l ih =>
    obtain ⟨k, v⟩ := p
    by_cases hk : k = a
    · subst hk; simp [ainsert, alookup, h]
    · by_cases hk' : k = a'
      · subst hk'; simp [ainsert, alookup, hk]
      · simp [ainsert, alookup, hk, hk', ih]

theorem alookup_ainsert (l : List (α × β)) (a a' : α) (b : β) :
    alookup (ainsert l a b) a' = if a = a' then some b else alookup l a' := by
  by_cases h : a = a'
  · subst h; simp [alookup_ainsert_self]
  · simp [h, alookup_ainsert_ne _ _ _ _ h]

theorem alookup_aerase_self (l : List (α × β)) (a : α) : alookup (aerase l a) a = none := by
  induction l with
  | nil => rfl
  | cons p l ih =>
    obtain ⟨k, v⟩ := p
    by_cases h : k = a
    · simp [aerase, h, ih]
    · simp [aerase, alookup, h, ih]

theorem alookup_aerase_ne (l : List (α × β)) (a a' : α) (h : a ≠ a') :
    alookup (aerase l a) a' = alookup l a' := by
  induction l with
  | nil => rfl
  | cons p l ih =>
    obtain ⟨k, v⟩ := p
    by_cases hk : k = a
    · subst hk; simp [aerase, alookup, h, ih]
    · by_cases hk' : k = a'
      · subst hk'; simp [aerase, alookup, hk]
      · simp [aerase, alookup, hk, hk', ih]

theorem alookup_filterKey_of_pos (l : List (α × β)) (p : α → Bool) (a : α) (h : p a = true) :
    alookup (l.filter (fun q => p q.1)) a = alookup l a := by
  induction l with
  | nil => rfl
  | cons q l ih =>
    obtain ⟨k, v⟩ := q
    by_cases hk : k = a
    · subst hk; simp [List.filter, h, alookup]
    · by_cases hp : p k = true
      · simp [List.filter, hp, alookup, hk, ih]
      · simp [List.filter, hp, alookup, hk, ih]

theorem alookup_filterKey_some (l : List (α × β)) (p : α → Bool) (a : α) (b : β)
    (h : alookup (l.filter (fun q => p q.1)) a = some b) : alookup l a = some b := by
  induction l with
  | nil => simp [alookup] at h
  | cons q l ih =>
    obtain ⟨k, v⟩ := q
    by_cases hp : p k = true
    · by_cases hk : k = a
      · subst hk; simpa [List.filter, hp, alookup] using h
      · simp [List.filter, hp, alookup, hk] at h ⊢; exact ih h
    · have h' : alookup (l.filter (fun q => p q.1)) a = some b := by simpa [List.filter, hp] using h
      by_cases hk : k = a
      · subst hk
        -- then the filtered list cannot contain the key
        have : ∀ (l : List (α × β)), alookup (l.filter (fun q => p q.1)) k = none := by
          intro l
          induction l with
          | nil => rfl
          | cons q l ih2 =>
            obtain ⟨k2, v2⟩ := q
            by_cases hp2 : p k2 = true
            · have : k2 ≠ k := fun e => hp (e ▸ hp2)
              simp [List.filter, hp2, alookup, this, ih2]
            · simp [List.filter, hp2, ih2]
        rw [this] at h'; cases h'
      · simp [alookup, hk]; exact ih h'

end alist

/-! ## strict success implies the same plain result -/

theorem evalPS_ok_evalP (call call' : NodeId → Res Nat) (P : Prog) (srcs : List (Key × SrcNode)) (maps : List (List Nat))
    (hc : ∀ id v, call id = .ok v → call' id = .ok v) :
    ∀ (e : Expr) (a v : Nat), evalPS call P srcs maps e a = .ok v → evalP call' P srcs maps e a = .ok v := by
  intro e
  induction e with
  | lit n => intro a v h; simpa [evalPS, evalP] using h
  | param => intro a v h; simpa [evalPS, evalP] using h
  | src k ih =>
    intro a v h
    simp only [evalPS] at h
    cases hk : evalPS call P srcs maps k a with
    | panic p => simp [hk] at h
    | ok kv =>
      simp only [hk] at h
      simp only [evalP, ih a kv hk]
      cases hl : alookup srcs (.src kv) with
      | none => simp [hl] at h
      | some nd => simpa [hl] using h
  | sing i =>
    intro a v h
    simp only [evalPS] at h
    simp only [evalP]
    cases hl : alookup srcs (.sing i) with
    | none => simp [hl] at h
    | some nd => simpa [hl] using h
  | trk m =>
    intro a v h
    simp only [evalPS] at h
    simp only [evalP]
    cases hl : alookup srcs (.ctr m) with
    | none => simp [hl] at h
    | some nd => simpa [hl] using h
  | call f e ih =>
    intro a v h
    simp only [evalPS] at h
    cases he : evalPS call P srcs maps e a with
    | panic p => simp [he] at h
    | ok av =>
      simp only [he] at h
      simp only [evalP, ih a av he]
      exact hc _ _ h
  | add x y ihx ihy =>
    intro a v h
    simp only [evalPS] at h
    cases hx : evalPS call P srcs maps x a with
    | panic p => simp [hx] at h
    | ok xv =>
      simp only [hx] at h
      cases hy : evalPS call P srcs maps y a with
      | panic p => simp [hy] at h
      | ok yv =>
        simp only [hy] at h
        simp only [evalP, ihx a xv hx, ihy a yv hy]; exact h
  | eq x y ihx ihy =>
    intro a v h
    simp only [evalPS] at h
    cases hx : evalPS call P srcs maps x a with
    | panic p => simp [hx] at h
    | ok xv =>
      simp only [hx] at h
      cases hy : evalPS call P srcs maps y a with
      | panic p => simp [hy] at h
      | ok yv =>
        simp only [hy] at h
        simp only [evalP, ihx a xv hx, ihy a yv hy]; exact h
  | ite c t e ihc iht ihe =>
    intro a v h
    simp only [evalPS] at h
    cases hcv : evalPS call P srcs maps c a with
    | panic p => simp [hcv] at h
    | ok cv =>
      simp only [hcv] at h
      simp only [evalP, ihc a cv hcv]
      by_cases hz : cv ≠ 0
      · rw [if_pos hz] at h ⊢; exact iht a v h
      · rw [if_neg hz] at h ⊢; exact ihe a v h
  | half x ih =>
    intro a v h
    simp only [evalPS] at h
    cases hx : evalPS call P srcs maps x a with
    | panic p => simp [hx] at h
    | ok xv =>
      simp only [hx] at h
      simp only [evalP, ih a xv hx]; exact h

theorem evalSS_ok_evalS (P : Prog) (srcs : List (Key × SrcNode)) (maps : List (List Nat)) :
    ∀ (fuel : Nat) (path : List NodeId) (id : NodeId) (v : Nat),
      evalSS fuel P srcs maps path id = .ok v → evalS fuel P srcs maps path id = .ok v := by
  intro fuel
  induction fuel with
  | zero => intro path id v h; simp [evalSS] at h
  | succ n ih =>
    intro path id v h
    simp only [evalSS] at h
    simp only [evalS]
    by_cases hp : path.contains id = true
    · rw [if_pos hp] at h; cases h
    · rw [if_neg hp] at h ⊢
      exact evalPS_ok_evalP _ _ P srcs maps (fun id' v' h' => ih _ _ _ h') _ _ _ h

end IsoVerif.Pico
