/-
Basic lemmas over M-PICO: association lists.
-/
import IsoVerif.Model.Pico
import IsoVerif.Model.PicoSpec

namespace IsoVerif.Pico

section alist
variable {α β : Type} [DecidableEq α]

@[simp] theorem alookup_nil (a : α) : alookup ([] : List (α × β)) a = none := rfl

theorem alookup_ainsert_self (l : List (α × β)) (a : α) (b : β) : alookup (ainsert l a b) a = some b := by
  induction l with
  | nil => simp [ainsert, alookup]
  | cons p l ih =>
    obtain ⟨k, v⟩ := p
    by_cases h : k = a
    · simp [ainsert, alookup, h]
    · simp [ainsert, alookup, h, ih]

theorem alookup_ainsert_ne (l : List (α × β)) (a a' : α) (b : β) (h : a ≠ a') :
    alookup (ainsert l a b) a' = alookup l a' := by
  induction l with
  | nil => simp [ainsert, alookup, h]
  | cons p l ih =>
    obtain ⟨k, v⟩ := p
    by_cases hk : k = a
    · subst hk; simp [ainsert, alookup, h]
    · by_cases hk' : k = a'
      · subst hk'; simp [ainsert, alookup, hk]
      · simp [ainsert, alookup, hk, hk', ih]

theorem alookup_ainsert (l : List (α × β)) (a a' : α) (b : β) :
    alookup (ainsert l a b) a' = if a = a' then some b else alookup l a' := by
  by_cases h : a = a'
  · subst h; simp [alookup_ainsert_self]
  · simp [h, alookup_ainsert_ne _ _ _ _ h]

theorem alookup_aerase_self (l : List (α × β)) (a : α) : alookup (aerase l a) a = none := by
  induction l with
  | nil => rfl
  | cons p l ih =>
    obtain ⟨k, v⟩ := p
    by_cases h : k = a
    · simp [aerase, h, ih]
    · simp [aerase, alookup, h, ih]

theorem alookup_aerase_ne (l : List (α × β)) (a a' : α) (h : a ≠ a') :
    alookup (aerase l a) a' = alookup l a' := by
  induction l with
  | nil => rfl
  | cons p l ih =>
    obtain ⟨k, v⟩ := p
    by_cases hk : k = a
    · subst hk; simp [aerase, alookup, h, ih]
    · by_cases hk' : k = a'
      · subst hk'; simp [aerase, alookup, hk]
      · simp [aerase, alookup, hk, hk', ih]

theorem alookup_filterKey_of_pos (l : List (α × β)) (p : α → Bool) (a : α) (h : p a = true) :
    alookup (l.filter (fun q => p q.1)) a = alookup l a := by
  induction l with
  | nil => rfl
  | cons q l ih =>
    obtain ⟨k, v⟩ := q
    by_cases hk : k = a
    · subst hk; simp [List.filter, h, alookup]
    · by_cases hp : p k = true
      · simp [List.filter, hp, alookup, hk, ih]
      · simp [List.filter, hp, alookup, hk, ih]

theorem alookup_filterKey_some (l : List (α × β)) (p : α → Bool) (a : α) (b : β)
    (h : alookup (l.filter (fun q => p q.1)) a = some b) : alookup l a = some b := by
  induction l with
  | nil => simp [alookup] at h
  | cons q l ih =>
    obtain ⟨k, v⟩ := q
    by_cases hp : p k = true
    · by_cases hk : k = a
      · subst hk; simpa [List.filter, hp, alookup] using h
      · simp [List.filter, hp, alookup, hk] at h ⊢; exact ih h
    · have h' : alookup (l.filter (fun q => p q.1)) a = some b := by simpa [List.filter, hp] using h
      by_cases hk : k = a
      · subst hk
        -- then the filtered list cannot contain the key
        have : ∀ (l : List (α × β)), alookup (l.filter (fun q => p q.1)) k = none := by
          intro l
          induction l with
          | nil => rfl
          | cons q l ih2 =>
            obtain ⟨k2, v2⟩ := q
            by_cases hp2 : p k2 = true
            · have : k2 ≠ k := fun e => hp (e ▸ hp2)
              simp [List.filter, hp2, alookup, this, ih2]
            · simp [List.filter, hp2, ih2]
        rw [this] at h'; cases h'
      · simp [alookup, hk]; exact ih h'

end alist

end IsoVerif.Pico
