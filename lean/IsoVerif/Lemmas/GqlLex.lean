/-
Lemmas for C29_lex: the regular expressions of relay's logos token table (regenerated from
relay_lexer.rs by translator T2 on every run) against the lexical grammar of the specification.
-/
import IsoVerif.Model.GqlLex

namespace IsoVerif.Gql
open Re IsoVerif.Gen.GqlTokens

/-! ### the derivative matcher on the two shapes that occur in the table -/

theorem derivs_empty (s : Str) : derivs .empty s = .empty := by
  induction s with
  | nil => rfl
  | cons c cs ih => simpa [derivs, deriv] using ih

theorem isMatch_empty (s : Str) : isMatch .empty s = false := by
  simp [isMatch, derivs_empty, nullable]

/-- `[B]*` matches exactly the strings over `B` -/
theorem isMatch_star_cls (B : List (Nat × Nat)) (s : Str) :
    isMatch (.star (.cls B)) s = s.all (fun c => inRanges c B) := by
  induction s with
  | nil => simp [isMatch, derivs, nullable]
  | cons c cs ih =>
    by_cases h : inRanges c B = true
    · have : deriv c (.star (.cls B)) = .star (.cls B) := by simp [deriv, h, mkSeq]
      simp only [isMatch, derivs, this, List.all_cons, h, Bool.true_and]
      simpa [isMatch] using ih
    · have h' : inRanges c B = false := by simpa using h
      have : deriv c (.star (.cls B)) = .empty := by simp [deriv, h', mkSeq]
      simp only [isMatch, derivs, this, List.all_cons, h', Bool.false_and]
      simpa [isMatch] using isMatch_empty cs

/-- `[A][B]*` -/
theorem isMatch_cls_star_cls (A B : List (Nat × Nat)) (s : Str) :
    isMatch (.seq (.cls A) (.star (.cls B))) s =
      match s with
      | [] => false
      | c :: cs => inRanges c A && cs.all (fun c => inRanges c B) := by
  cases s with
  | nil => simp [isMatch, derivs, nullable]
  | cons c cs =>
    by_cases h : inRanges c A = true
    · have : deriv c (.seq (.cls A) (.star (.cls B))) = .star (.cls B) := by
        simp [deriv, nullable, h, mkSeq]
      simp only [isMatch, derivs, this, h, Bool.true_and]
      simpa [isMatch] using isMatch_star_cls B cs
    · have h' : inRanges c A = false := by simpa using h
      have : deriv c (.seq (.cls A) (.star (.cls B))) = .empty := by
        simp [deriv, nullable, h', mkSeq]
      simp only [isMatch, derivs, this, h', Bool.false_and]
      simpa [isMatch] using isMatch_empty cs

/-! ### lookup in the generated table -/

def ruleRe (table : List TokRule) (kind : String) : Re :=
  match table.find? (fun r => r.kind == cps kind) with
  | some r => r.re
  | none => .empty

/-- the classes of the `Identifier` regex are NameStart and NameContinue (in the 2018 text: the
first and the following characters of `/[_A-Za-z][_0-9A-Za-z]*/`) -/
theorem nameStart_class (c : Nat) :
    inRanges c [(97, 122), (65, 90), (95, 95)] = isNameStart c := by
  rw [Bool.eq_iff_iff]
  simp [inRanges, isNameStart]
  omega

theorem nameCont_class (c : Nat) :
    inRanges c [(97, 122), (65, 90), (48, 57), (95, 95)] = isNameCont c := by
  rw [Bool.eq_iff_iff]
  simp [inRanges, isNameCont, isNameStart, isDigit]
  omega

theorem identifier_shape :
    ruleRe tokenKind "Identifier" =
      .seq (.cls [(97, 122), (65, 90), (95, 95)]) (.star (.cls [(97, 122), (65, 90), (48, 57), (95, 95)])) := by
  decide +kernel

/-- The `Identifier` rule of relay's lexer matches exactly the Names of the specification. -/
theorem identifier_eq_name (s : Str) : isMatch (ruleRe tokenKind "Identifier") s = isName s := by
  rw [identifier_shape, isMatch_cls_star_cls]
  cases s with
  | nil => rfl
  | cons c cs =>
    simp only [isName, nameStart_class]
    congr 1
    induction cs with
    | nil => rfl
    | cons d ds ih => rw [List.all_cons, List.all_cons, nameCont_class, ih]

/-! ### punctuators -/

def punctText : Punct → Str
  | .bang => [33] | .dollar => [36] | .amp => [38] | .lparen => [40] | .rparen => [41]
  | .spread => [46, 46, 46] | .colon => [58] | .eq => [61] | .at => [64] | .lbrack => [91]
  | .rbrack => [93] | .lbrace => [123] | .pipe => [124] | .rbrace => [125]

def allPuncts : List Punct :=
  [.bang, .dollar, .amp, .lparen, .rparen, .spread, .colon, .eq, .at, .lbrack, .rbrack, .lbrace, .pipe, .rbrace]

/-- every rule of the table that the model maps to a punctuator is the literal text of that
punctuator, and every punctuator has such a rule -/
def punctTableOk : Bool :=
  (tokenKind.all fun r =>
    match punctOfKind r.kind with
    | some p => r.re == Re.lit (punctText p) && !r.skip && r.callback == []
    | none => true) &&
  (allPuncts.all fun p => tokenKind.any fun r => punctOfKind r.kind == some p) &&
  (allPuncts.all fun p => specLex (punctText p) == some [.punct p])

set_option maxHeartbeats 4000000 in
theorem punct_table : punctTableOk = true := by decide +kernel

/-! ### ignored tokens -/

theorem skip_shape :
    (tokenKind.filter (·.skip)).map (·.re) =
      [.alt (plus (.cls [(32, 32), (9, 9), (13, 13), (10, 10), (12, 12), (44, 44), (65279, 65279)]))
            (.seq (.cls [(35, 35)]) (.star (.ncls [(10, 10), (13, 13)])))] := by
  decide +kernel

/-- relay's white-space class = the one-character Ignored tokens of the specification plus the
form feed (U+000C, which is not even a SourceCharacter) -/
theorem ignored_class (c : Nat) :
    inRanges c [(32, 32), (9, 9), (13, 13), (10, 10), (12, 12), (44, 44), (65279, 65279)] =
      (isIgnoredChar c || c == 12) := by
  rw [Bool.eq_iff_iff]
  simp [inRanges, isIgnoredChar]
  omega

/-- a comment stops at LF / CR (CommentChar = not a LineTerminator) — but relay's class has no
SourceCharacter restriction -/
theorem comment_class (c : Nat) : inRanges c [(10, 10), (13, 13)] = (c == 10 || c == 13) := by
  rw [Bool.eq_iff_iff]
  simp [inRanges]
  omega

/-! ### string sub-lexers -/

set_option maxHeartbeats 4000000 in
theorem string_shapes :
    ruleRe stringToken "StringCharacters" = plus (.cls [(9, 9), (32, 32), (33, 33), (35, 91), (93, 65535)]) ∧
    ruleRe stringToken "EscapedCharacter" =
      .seq (.cls [(92, 92)]) (.cls [(34, 34), (92, 92), (47, 47), (98, 98), (102, 102), (110, 110), (114, 114), (116, 116)]) ∧
    ruleRe stringToken "EscapedUnicode" =
      .seq (.cls [(92, 92)]) (.seq (.cls [(117, 117)]) (.seq (.cls [(48, 57), (65, 70), (97, 102)])
        (.seq (.cls [(48, 57), (65, 70), (97, 102)]) (.seq (.cls [(48, 57), (65, 70), (97, 102)])
          (.cls [(48, 57), (65, 70), (97, 102)]))))) ∧
    ruleRe stringToken "Quote" = Re.lit [34] ∧
    ruleRe blockStringToken "Other" = .cls [(9, 9), (10, 10), (13, 13), (32, 65535)] ∧
    ruleRe blockStringToken "TripleQuote" = Re.lit [34, 34, 34] ∧
    ruleRe blockStringToken "EscapedTripleQuote" = Re.lit [92, 34, 34, 34] := by
  decide +kernel

/-- StringCharacter :: SourceCharacter but not `"` or `\` or LineTerminator -/
theorem stringChar_class (c : Nat) :
    inRanges c [(9, 9), (32, 32), (33, 33), (35, 91), (93, 65535)] =
      (isSourceChar c && !(c == 34) && !(c == 92) && !(c == 10) && !(c == 13)) := by
  rw [Bool.eq_iff_iff]
  simp [inRanges, isSourceChar]
  omega

theorem escapedChar_class (c : Nat) :
    inRanges c [(34, 34), (92, 92), (47, 47), (98, 98), (102, 102), (110, 110), (114, 114), (116, 116)] =
      isEscapedChar c := by
  rw [Bool.eq_iff_iff]
  simp [inRanges, isEscapedChar]
  omega

theorem hex_class (c : Nat) : inRanges c [(48, 57), (65, 70), (97, 102)] = isHexDigit c := by
  rw [Bool.eq_iff_iff]
  simp [inRanges, isHexDigit, isDigit]
  omega

/-- BlockStringCharacter ranges over SourceCharacter -/
theorem blockChar_class (c : Nat) : inRanges c [(9, 9), (10, 10), (13, 13), (32, 65535)] = isSourceChar c := by
  rw [Bool.eq_iff_iff]
  simp [inRanges, isSourceChar]
  omega

end IsoVerif.Gql
