/-
Lemmas for the sequential algebra of the intern crate (C05): SmallBytes, orderings, serde.
-/
import IsoVerif.Model.InternSeq

namespace IsoVerif.InternSeq
open IsoVerif.Gen.ArenaConsts

/-! ### SmallBytes -/

theorem smallMaxLen_lt : smallMaxLen < 256 := by decide

theorem deref_fromBytes (b : Bytes) : deref (fromBytes b) = b := by
  unfold fromBytes makeSmall
  split
  · rename_i r h
    split at h
    · rename_i hl
      cases h
      have : b.length % 256 = b.length := Nat.mod_eq_of_lt (by have := smallMaxLen_lt; omega)
      simp [deref, this]
    · cases h
  · rfl

theorem isSmall_fromBytes (b : Bytes) : isSmall (fromBytes b) = decide (b.length ≤ smallMaxLen) := by
  unfold fromBytes makeSmall
  by_cases h : b.length ≤ smallMaxLen <;> simp [h, isSmall]

theorem sbEq_fromBytes (a b : Bytes) : sbEq (fromBytes a) (fromBytes b) = true ↔ a = b := by
  simp [sbEq, deref_fromBytes]

theorem fromBytes_inj (a b : Bytes) : fromBytes a = fromBytes b ↔ a = b := by
  constructor
  · intro h
    have := congrArg deref h
    rwa [deref_fromBytes, deref_fromBytes] at this
  · rintro rfl; rfl

theorem sbHash_fromBytes {α : Type} (h : Bytes → α) (b : Bytes) : sbHash h (fromBytes b) = h b := by
  simp [sbHash, deref_fromBytes]

theorem serdeRoundTrip_fromBytes (b : Bytes) : serdeRoundTrip (fromBytes b) = fromBytes b := by
  simp [serdeRoundTrip, deref_fromBytes]

/-! ### cmpBytes -/

theorem cmpBytes_refl (a : Bytes) : cmpBytes a a = .eq := by
  induction a with
  | nil => rfl
  | cons x xs ih => simp [cmpBytes, ih, UInt8.lt_irrefl]

theorem cmpBytes_eq_iff (a b : Bytes) : cmpBytes a b = .eq ↔ a = b := by
  induction a generalizing b with
  | nil => cases b <;> simp [cmpBytes]
  | cons x xs ih =>
    cases b with
    | nil => simp [cmpBytes]
    | cons y ys =>
      simp only [cmpBytes]
      by_cases h1 : x < y
      · simp only [h1, if_true]
        constructor
        · intro h; cases h
        · intro h; cases h; exact absurd h1 (UInt8.lt_irrefl _)
      · by_cases h2 : y < x
        · simp only [h1, h2, if_true, if_false]
          constructor
          · intro h; cases h
          · intro h; cases h; exact absurd h2 (UInt8.lt_irrefl _)
        · simp only [h1, h2, if_false, ih]
          have hxy : x = y := UInt8.le_antisymm (UInt8.not_lt.1 h2) (UInt8.not_lt.1 h1)
          constructor
          · rintro rfl; rw [hxy]
          · intro h; cases h; rfl

theorem cmpBytes_swap (a b : Bytes) : cmpBytes b a = (cmpBytes a b).swap := by
  induction a generalizing b with
  | nil => cases b <;> rfl
  | cons x xs ih =>
    cases b with
    | nil => rfl
    | cons y ys =>
      simp only [cmpBytes]
      by_cases h1 : x < y
      · have h2 : ¬ y < x := UInt8.not_lt.2 (UInt8.le_of_lt h1)
        simp [h1, h2]
      · by_cases h2 : y < x
        · simp [h1, h2]
        · simp [h1, h2, ih]

theorem cmpBytesId_eq (look : Nat → Bytes) (a b : Nat) : cmpBytesId look a b = cmpBytes (look a) (look b) := by
  unfold cmpBytesId
  split
  · subst_vars; rw [cmpBytes_refl]
  · rfl

/-! ### cmpList / paths -/

theorem cmpList_eq_iff {α : Type} (c : α → α → Ordering) (hc : ∀ a b, c a b = .eq ↔ a = b) (l m : List α) :
    cmpList c l m = .eq ↔ l = m := by
  induction l generalizing m with
  | nil => cases m <;> simp [cmpList]
  | cons x xs ih =>
    cases m with
    | nil => simp [cmpList]
    | cons y ys =>
      simp only [cmpList]
      cases h : c x y with
      | eq =>
        have := (hc x y).1 h
        subst this
        simp [ih]
      | lt =>
        have hne : x ≠ y := fun e => by rw [(hc x y).2 e] at h; cases h
        simp [hne]
      | gt =>
        have hne : x ≠ y := fun e => by rw [(hc x y).2 e] at h; cases h
        simp [hne]

theorem cmpList_map {α β : Type} (c : β → β → Ordering) (f : α → β) (l m : List α) :
    cmpList (fun a b => c (f a) (f b)) l m = cmpList c (l.map f) (m.map f) := by
  induction l generalizing m with
  | nil => cases m <;> rfl
  | cons x xs ih =>
    cases m with
    | nil => rfl
    | cons y ys => simp only [cmpList, List.map_cons, ih]

theorem linearize_reverse (node : Nat → PathNode) (f p : Nat) :
    (linearize node f p).reverse = components node f p := by
  induction f generalizing p with
  | zero => rfl
  | succ f ih =>
    simp only [linearize, components, List.reverse_cons]
    cases (node p).parent with
    | none => rfl
    | some q => simp [ih]

/-- `PathId::cmp` is the top-down, component-wise comparison of the component texts. -/
theorem cmpPathId_eq (node : Nat → PathNode) (look : Nat → Bytes) (f p q : Nat) :
    cmpPathId node look f p q =
      cmpList cmpBytes ((components node f p).map look) ((components node f q).map look) := by
  unfold cmpPathId
  rw [linearize_reverse, linearize_reverse, ← cmpList_map]
  congr 1
  funext a b
  exact cmpBytesId_eq look a b

/-! ### serde -/

theorem strip_relabel (I : Nat → S → Nat) (t : T) : strip (relabel I t) = strip t := by
  induction t with
  | leaf n => rfl
  | pair a b iha ihb => simp [relabel, strip, iha, ihb]
  | ref ty i v ih => simp [relabel, strip, ih]

/-- every occurrence of an id carries the value the table `val` gives it -/
def Agrees (val : Nat → Nat → T) : T → Prop
  | .leaf _ => True
  | .pair a b => Agrees val a ∧ Agrees val b
  | .ref ty i v => v = val ty i ∧ Agrees val v

/-- ids are canonical for the numbering `I` (same-process round trip) -/
def Canon (I : Nat → S → Nat) : T → Prop
  | .leaf _ => True
  | .pair a b => Canon I a ∧ Canon I b
  | .ref ty i v => i = I ty (strip v) ∧ Canon I v

theorem relabel_canon (I : Nat → S → Nat) (t : T) (h : Canon I t) : relabel I t = t := by
  induction t with
  | leaf n => rfl
  | pair a b iha ihb => simp [relabel, iha h.1, ihb h.2]
  | ref ty i v ih => simp only [relabel, ih h.2]; rw [← h.1]

/-- the invariant relating the serialiser's `ref_to_index` and the deserialiser's `index_to_ref` -/
def Rel (val : Nat → Nat → T) (I : Nat → S → Nat) (st : Nat → SerSt) (tb : Nat → List T) : Prop :=
  ∀ ty, (tb ty).length = (st ty).next ∧
    ∀ i k, lookup (st ty).map i = some k → (tb ty)[k]? = some (relabel I (.ref ty i (val ty i)))

theorem rel0 (val : Nat → Nat → T) (I : Nat → S → Nat) : Rel val I st0 tb0 := by
  intro ty; exact ⟨rfl, by intro i k h; simp [st0, lookup] at h⟩

theorem enc_dec (val : Nat → Nat → T) (I : Nat → S → Nat) (t : T) :
    ∀ st tb, Agrees val t → Rel val I st tb →
      ∃ tb', dec I (enc t st).1 tb = some (relabel I t, tb') ∧ Rel val I (enc t st).2 tb' := by
  induction t with
  | leaf n => intro st tb _ hr; exact ⟨tb, rfl, hr⟩
  | pair a b iha ihb =>
    intro st tb hag hr
    obtain ⟨tb1, hd1, hr1⟩ := iha st tb hag.1 hr
    obtain ⟨tb2, hd2, hr2⟩ := ihb (enc a st).2 tb1 hag.2 hr1
    refine ⟨tb2, ?_, hr2⟩
    simp only [enc, dec, hd1, hd2, relabel]
  | ref ty i v ih =>
    intro st tb hag hr
    obtain ⟨hv, hagv⟩ := hag
    simp only [enc]
    cases hl : lookup (st ty).map i with
    | some k =>
      refine ⟨tb, ?_, hr⟩
      simp only [dec, (hr ty).2 i k hl, ← hv]
    | none =>
      obtain ⟨tb1, hd1, hr1⟩ := ih st tb hagv hr
      refine ⟨updS tb1 ty (tb1 ty ++ [T.ref ty (I ty (strip (relabel I v))) (relabel I v)]), ?_, ?_⟩
      · simp only [dec, hd1, relabel, strip_relabel]
      · intro ty'
        by_cases hty : ty' = ty
        · subst hty
          simp only [updS, if_true]
          refine ⟨by simp [(hr1 ty').1], ?_⟩
          intro j k hjk
          have hlen := (hr1 ty').1
          by_cases hsome : (lookup ((enc v st).2 ty').map i).isSome
          · rw [if_pos hsome] at hjk
            have := (hr1 ty').2 j k hjk
            rw [List.getElem?_append_left]
            · exact this
            · exact (List.getElem?_eq_some_iff.1 this).1
          · rw [if_neg hsome] at hjk
            simp only [lookup] at hjk
            split at hjk
            · rename_i hij
              cases hjk; subst hij
              rw [List.getElem?_append_right (by omega), hlen]
              simp [relabel, strip_relabel, ← hv]
            · have := (hr1 ty').2 j k hjk
              rw [List.getElem?_append_left]
              · exact this
              · exact (List.getElem?_eq_some_iff.1 this).1
        · simp only [updS, hty, if_false]
          exact hr1 ty'

/-- **Round trip**: data whose ids are used consistently (`Agrees`) deserialises, under fresh
guards, to the same data with every id renumbered by the deserialising process. -/
theorem roundTrip_relabel (val : Nat → Nat → T) (I : Nat → S → Nat) (t : T) (h : Agrees val t) :
    roundTrip I t = some (relabel I t) := by
  obtain ⟨tb', hd, _⟩ := enc_dec val I t st0 tb0 h (rel0 val I)
  simp [roundTrip, hd]

end IsoVerif.InternSeq
