/-
Fuel-free, trace-carrying big-step semantics of M-PICO programs (proof-only).

`BigE P σ m e a v R`: under sources `σ` / tracked fields `m`, expression `e` with parameter `a`
evaluates (without panicking) to `v`, performing the DIRECT reads `R` in order: source keys with
what was observed (also `None`), and callees with the value they returned.  The callee's own reads
are not part of `R`.  `evalS` (fuel, cycle check) refines it.
-/
import IsoVerif.Lemmas.PicoStage1

namespace IsoVerif.Pico

inductive Read
  | src (k : Key) (o : Option Nat × Nat)
  | node (id : NodeId) (v : Nat)
  deriving DecidableEq, Repr

abbrev Srcs := List (Key × SrcNode)
abbrev Maps := List (List Nat)

inductive BigE (P : Prog) (σ : Srcs) (m : Maps) : Expr → Nat → Nat → List Read → Prop
  | lit (n a : Nat) : BigE P σ m (.lit n) a n []
  | param (a : Nat) : BigE P σ m .param a a []
  | src {k : Expr} {a kv : Nat} {R : List Read} {nd : SrcNode} :
      BigE P σ m k a kv R → alookup σ (.src kv) = some nd →
      BigE P σ m (.src k) a nd.val (R ++ [.src (.src kv) (keyObs σ m (.src kv))])
  | sing {i a : Nat} {nd : SrcNode} :
      alookup σ (.sing i) = some nd →
      BigE P σ m (.sing i) a (nd.val + 1) [.src (.sing i) (keyObs σ m (.sing i))]
  | singAbs {i a : Nat} :
      alookup σ (.sing i) = none →
      BigE P σ m (.sing i) a 0 [.src (.sing i) (keyObs σ m (.sing i))]
  | trk {i a : Nat} :
      BigE P σ m (.trk i) a (mapLen m i) [.src (.ctr i) (keyObs σ m (.ctr i))]
  | call {f : Nat} {e : Expr} {a av v : Nat} {R R2 : List Read} :
      BigE P σ m e a av R →
      BigE P σ m (fnOf P (nodeOf P f av).fn).body (nodeOf P f av).arg v R2 →
      BigE P σ m (.call f e) a v (R ++ [.node (nodeOf P f av) v])
  | add {x y : Expr} {a xv yv : Nat} {R1 R2 : List Read} :
      BigE P σ m x a xv R1 → BigE P σ m y a yv R2 → BigE P σ m (.add x y) a (xv + yv) (R1 ++ R2)
  | eq {x y : Expr} {a xv yv : Nat} {R1 R2 : List Read} :
      BigE P σ m x a xv R1 → BigE P σ m y a yv R2 →
      BigE P σ m (.eq x y) a (if xv = yv then 1 else 0) (R1 ++ R2)
  | iteT {c t e : Expr} {a cv v : Nat} {R1 R2 : List Read} :
      BigE P σ m c a cv R1 → cv ≠ 0 → BigE P σ m t a v R2 → BigE P σ m (.ite c t e) a v (R1 ++ R2)
  | iteF {c t e : Expr} {a v : Nat} {R1 R2 : List Read} :
      BigE P σ m c a 0 R1 → BigE P σ m e a v R2 → BigE P σ m (.ite c t e) a v (R1 ++ R2)
  | half {x : Expr} {a xv : Nat} {R : List Read} :
      BigE P σ m x a xv R → BigE P σ m (.half x) a (xv / 2) R

/-- the value of a node (a call) under `σ`, with the direct reads of its body -/
def BigN (P : Prog) (σ : Srcs) (m : Maps) (id : NodeId) (v : Nat) (R : List Read) : Prop :=
  BigE P σ m (fnOf P id.fn).body id.arg v R

/-! ## determinism -/

theorem BigE.det {P : Prog} {σ : Srcs} {m : Maps} {e : Expr} {a v : Nat} {R : List Read}
    (h : BigE P σ m e a v R) : ∀ {v' : Nat} {R' : List Read}, BigE P σ m e a v' R' → v = v' ∧ R = R' := by
  induction h with
  | lit n a => intro v' R' h'; cases h'; exact ⟨rfl, rfl⟩
  | param a => intro v' R' h'; cases h'; exact ⟨rfl, rfl⟩
  | src hk hl ih =>
    intro v' R' h'
    cases h' with
    | src hk' hl' =>
      obtain ⟨e1, e2⟩ := ih hk'
      subst e1; subst e2
      rw [hl] at hl'; cases hl'; exact ⟨rfl, rfl⟩
  | sing hl =>
    intro v' R' h'
    cases h' with
    | sing hl' => rw [hl] at hl'; cases hl'; exact ⟨rfl, rfl⟩
    | singAbs hl' => rw [hl] at hl'; cases hl'
  | singAbs hl =>
    intro v' R' h'
    cases h' with
    | sing hl' => rw [hl] at hl'; cases hl'
    | singAbs hl' => exact ⟨rfl, rfl⟩
  | trk =>
    intro v' R' h'
    cases h' with
    | trk => exact ⟨rfl, rfl⟩
  | call he hb ihe ihb =>
    intro v' R' h'
    cases h' with
    | call he' hb' =>
      obtain ⟨e1, e2⟩ := ihe he'
      subst e1; subst e2
      obtain ⟨e3, _⟩ := ihb hb'
      subst e3; exact ⟨rfl, rfl⟩
  | add hx hy ihx ihy =>
    intro v' R' h'
    cases h' with
    | add hx' hy' =>
      obtain ⟨e1, e2⟩ := ihx hx'
      obtain ⟨e3, e4⟩ := ihy hy'
      subst e1; subst e2; subst e3; subst e4; exact ⟨rfl, rfl⟩
  | eq hx hy ihx ihy =>
    intro v' R' h'
    cases h' with
    | eq hx' hy' =>
      obtain ⟨e1, e2⟩ := ihx hx'
      obtain ⟨e3, e4⟩ := ihy hy'
      subst e1; subst e2; subst e3; subst e4; exact ⟨rfl, rfl⟩
  | iteT hc hz ht ihc iht =>
    intro v' R' h'
    cases h' with
    | iteT hc' hz' ht' =>
      obtain ⟨_, e2⟩ := ihc hc'
      obtain ⟨e3, e4⟩ := iht ht'
      subst e2; subst e3; subst e4; exact ⟨rfl, rfl⟩
    | iteF hc' he' =>
      obtain ⟨e1, _⟩ := ihc hc'
      exact absurd e1 hz
  | iteF hc he ihc ihe =>
    intro v' R' h'
    cases h' with
    | iteT hc' hz' ht' =>
      obtain ⟨e1, _⟩ := ihc hc'
      exact absurd e1.symm hz'
    | iteF hc' he' =>
      obtain ⟨_, e2⟩ := ihc hc'
      obtain ⟨e3, e4⟩ := ihe he'
      subst e2; subst e3; subst e4; exact ⟨rfl, rfl⟩
  | half hx ih =>
    intro v' R' h'
    cases h' with
    | half hx' =>
      obtain ⟨e1, e2⟩ := ih hx'
      subst e1; subst e2; exact ⟨rfl, rfl⟩

/-! ## `evalS` refines `BigE` -/

theorem bigE_of_evalP {P : Prog} {σ : Srcs} {m : Maps} (call : NodeId → Res Nat)
    (hcall : ∀ id v, call id = .ok v → ∃ R, BigN P σ m id v R) :
    ∀ (e : Expr) (a v : Nat), evalP call P σ m e a = .ok v → ∃ R, BigE P σ m e a v R := by
  intro e
  induction e with
  | lit n => intro a v h; simp only [evalP] at h; cases h; exact ⟨_, .lit _ _⟩
  | param => intro a v h; simp only [evalP] at h; cases h; exact ⟨_, .param _⟩
  | src k ih =>
    intro a v h
    simp only [evalP] at h
    cases hk : evalP call P σ m k a with
    | panic p => simp [hk] at h
    | ok kv =>
      simp only [hk] at h
      cases hl : alookup σ (.src kv) with
      | none => simp [hl] at h
      | some nd =>
        simp only [hl] at h; cases h
        obtain ⟨R, hR⟩ := ih a kv hk
        exact ⟨_, .src hR hl⟩
  | sing i =>
    intro a v h
    simp only [evalP] at h
    cases hl : alookup σ (.sing i) with
    | none => simp only [hl] at h; cases h; exact ⟨_, .singAbs hl⟩
    | some nd => simp only [hl] at h; cases h; exact ⟨_, .sing hl⟩
  | trk i =>
    intro a v h
    simp only [evalP] at h
    cases h; exact ⟨_, .trk⟩
  | call f e ih =>
    intro a v h
    simp only [evalP] at h
    cases he : evalP call P σ m e a with
    | panic p => simp [he] at h
    | ok av =>
      simp only [he] at h
      obtain ⟨R, hR⟩ := ih a av he
      obtain ⟨R2, hR2⟩ := hcall _ _ h
      exact ⟨_, .call hR hR2⟩
  | add x y ihx ihy =>
    intro a v h
    simp only [evalP] at h
    cases hx : evalP call P σ m x a with
    | panic p => simp [hx] at h
    | ok xv =>
      simp only [hx] at h
      cases hy : evalP call P σ m y a with
      | panic p => simp [hy] at h
      | ok yv =>
        simp only [hy] at h; cases h
        obtain ⟨R1, h1⟩ := ihx a xv hx
        obtain ⟨R2, h2⟩ := ihy a yv hy
        exact ⟨_, .add h1 h2⟩
  | eq x y ihx ihy =>
    intro a v h
    simp only [evalP] at h
    cases hx : evalP call P σ m x a with
    | panic p => simp [hx] at h
    | ok xv =>
      simp only [hx] at h
      cases hy : evalP call P σ m y a with
      | panic p => simp [hy] at h
      | ok yv =>
        simp only [hy] at h; cases h
        obtain ⟨R1, h1⟩ := ihx a xv hx
        obtain ⟨R2, h2⟩ := ihy a yv hy
        exact ⟨_, .eq h1 h2⟩
  | ite c t e ihc iht ihe =>
    intro a v h
    simp only [evalP] at h
    cases hc : evalP call P σ m c a with
    | panic p => simp [hc] at h
    | ok cv =>
      simp only [hc] at h
      obtain ⟨R1, h1⟩ := ihc a cv hc
      by_cases hz : cv ≠ 0
      · rw [if_pos hz] at h
        obtain ⟨R2, h2⟩ := iht a v h
        exact ⟨_, .iteT h1 hz h2⟩
      · rw [if_neg hz] at h
        have hz' : cv = 0 := Decidable.of_not_not hz
        subst hz'
        obtain ⟨R2, h2⟩ := ihe a v h
        exact ⟨_, .iteF h1 h2⟩
  | half x ih =>
    intro a v h
    simp only [evalP] at h
    cases hx : evalP call P σ m x a with
    | panic p => simp [hx] at h
    | ok xv =>
      simp only [hx] at h; cases h
      obtain ⟨R, hR⟩ := ih a xv hx
      exact ⟨_, .half hR⟩

theorem bigN_of_evalS {P : Prog} {σ : Srcs} {m : Maps} :
    ∀ (fuel : Nat) (path : List NodeId) (id : NodeId) (v : Nat),
      evalS fuel P σ m path id = .ok v → ∃ R, BigN P σ m id v R := by
  intro fuel
  induction fuel with
  | zero => intro path id v h; simp [evalS] at h
  | succ n ih =>
    intro path id v h
    simp only [evalS] at h
    by_cases hp : path.contains id = true
    · rw [if_pos hp] at h; cases h
    · rw [if_neg hp] at h
      exact bigE_of_evalP _ (fun id' v' h' => ih _ _ _ h') _ _ _ h

/-! ## same reads, same result -/

/-- a read holds under other sources -/
def Read.holds (P : Prog) (σ : Srcs) (m : Maps) : Read → Prop
  | .src k o => keyObs σ m k = o
  | .node id v => ∃ R, BigN P σ m id v R

/-- if every direct read of an evaluation holds under `σ'`, the evaluation is the same under `σ'` -/
theorem BigE.transfer {P : Prog} {σ σ' : Srcs} {m m' : Maps} {e : Expr} {a v : Nat} {R : List Read}
    (h : BigE P σ m e a v R) : (∀ r, r ∈ R → r.holds P σ' m') → BigE P σ' m' e a v R := by
  induction h with
  | lit n a => intro _; exact .lit _ _
  | param a => intro _; exact .param _
  | @src k a kv R nd hk hl ih =>
    intro hall
    have h1 := ih (fun r hr => hall r (List.mem_append_left _ hr))
    have ho : keyObs σ' m' (.src kv) = keyObs σ m (.src kv) :=
      hall (.src (.src kv) (keyObs σ m (.src kv))) (List.mem_append_right _ (List.mem_singleton.2 rfl))
    obtain ⟨nd', hl', hv⟩ := lookup_of_obs hl ho
    have := BigE.src (P := P) (m := m') h1 hl'
    rw [ho, hv] at this; exact this
  | @sing i a nd hl =>
    intro hall
    have ho : keyObs σ' m' (.sing i) = keyObs σ m (.sing i) := hall _ (List.mem_singleton.2 rfl)
    obtain ⟨nd', hl', hv⟩ := lookup_of_obs hl ho
    have := BigE.sing (P := P) (m := m') (a := a) hl'
    rw [ho, hv] at this; exact this
  | @singAbs i a hl =>
    intro hall
    have ho : keyObs σ' m' (.sing i) = keyObs σ m (.sing i) := hall _ (List.mem_singleton.2 rfl)
    have hl' : alookup σ' (.sing i) = none := by
      cases hq : alookup σ' (.sing i) with
      | none => rfl
      | some nd' =>
        have e1 := keyObs_fst_some (m := m') hq
        have e2 := keyObs_fst_none (m := m) hl
        rw [ho, e2] at e1; cases e1
    have := BigE.singAbs (P := P) (m := m') (a := a) hl'
    rw [ho] at this; exact this
  | @trk i a =>
    intro hall
    have ho : keyObs σ' m' (.ctr i) = keyObs σ m (.ctr i) := hall _ (List.mem_singleton.2 rfl)
    have hlen : mapLen m' i = mapLen m i := by
      have := congrArg Prod.snd ho
      simpa [keyObs] using this
    have := BigE.trk (P := P) (σ := σ') (m := m') (i := i) (a := a)
    rw [ho, hlen] at this; exact this
  | call he hb ihe _ =>
    intro hall
    have h1 := ihe (fun r hr => hall r (List.mem_append_left _ hr))
    obtain ⟨R2', h2⟩ := hall _ (List.mem_append_right _ (List.mem_singleton.2 rfl))
    exact .call h1 h2
  | add hx hy ihx ihy =>
    intro hall
    exact .add (ihx (fun r hr => hall r (List.mem_append_left _ hr))) (ihy (fun r hr => hall r (List.mem_append_right _ hr)))
  | eq hx hy ihx ihy =>
    intro hall
    exact .eq (ihx (fun r hr => hall r (List.mem_append_left _ hr))) (ihy (fun r hr => hall r (List.mem_append_right _ hr)))
  | iteT hc hz ht ihc iht =>
    intro hall
    exact .iteT (ihc (fun r hr => hall r (List.mem_append_left _ hr))) hz (iht (fun r hr => hall r (List.mem_append_right _ hr)))
  | iteF hc he ihc ihe =>
    intro hall
    exact .iteF (ihc (fun r hr => hall r (List.mem_append_left _ hr))) (ihe (fun r hr => hall r (List.mem_append_right _ hr)))
  | half hx ih => intro hall; exact .half (ih hall)

/-- every read of an evaluation holds under the sources it was made under -/
theorem BigE.reads_hold {P : Prog} {σ : Srcs} {m : Maps} {e : Expr} {a v : Nat} {R : List Read}
    (h : BigE P σ m e a v R) : ∀ r, r ∈ R → r.holds P σ m := by
  induction h with
  | lit n a => intro r hr; cases hr
  | param a => intro r hr; cases hr
  | @src k a kv R nd hk hl ih =>
    intro r hr
    rcases List.mem_append.1 hr with h1 | h1
    · exact ih r h1
    · rw [List.mem_singleton.1 h1]; rfl
  | sing hl => intro r hr; rw [List.mem_singleton.1 hr]; rfl
  | singAbs hl => intro r hr; rw [List.mem_singleton.1 hr]; rfl
  | trk => intro r hr; rw [List.mem_singleton.1 hr]; rfl
  | call he hb ihe _ =>
    intro r hr
    rcases List.mem_append.1 hr with h1 | h1
    · exact ihe r h1
    · rw [List.mem_singleton.1 h1]; exact ⟨_, hb⟩
  | add hx hy ihx ihy =>
    intro r hr
    rcases List.mem_append.1 hr with h1 | h1
    · exact ihx r h1
    · exact ihy r h1
  | eq hx hy ihx ihy =>
    intro r hr
    rcases List.mem_append.1 hr with h1 | h1
    · exact ihx r h1
    · exact ihy r h1
  | iteT hc hz ht ihc iht =>
    intro r hr
    rcases List.mem_append.1 hr with h1 | h1
    · exact ihc r h1
    · exact iht r h1
  | iteF hc he ihc ihe =>
    intro r hr
    rcases List.mem_append.1 hr with h1 | h1
    · exact ihc r h1
    · exact ihe r h1
  | half hx ih => exact ih

end IsoVerif.Pico
