/-
Closed facts about the witness operations of the ops family (C09): each text below is what the REAL
compiler printed for the corresponding witness project of harness/ops/src/witness.rs (replayed on every
run from corpus/C09/witnesses.txt).  Everything is decided by kernel evaluation of the reference
lexer / parser (gql family) and of `validate` (Model/Core/GqlValid.lean).
-/
import IsoVerif.Model.Core.GqlValid
import IsoVerif.Model.Core.OpsJs

namespace IsoVerif.Ops.Witness
open IsoVerif.Core IsoVerif.GqlValid
open IsoVerif.Gql (Ty)

def userArgs : List VArg :=
  [⟨cs!"name", .named cs!"String", none⟩, ⟨cs!"n", .named cs!"Int", none⟩, ⟨cs!"filter", .named cs!"UserFilter", none⟩]

/-- the schema of the witness projects (`witness::base_schema`) -/
def schema : VSchema :=
  { types := [
      ⟨cs!"Query", .object [] [
        ⟨cs!"node", [⟨cs!"id", .nonNull (.named cs!"ID"), none⟩], .named cs!"Node"⟩,
        ⟨cs!"user", userArgs, .named cs!"User"⟩,
        ⟨cs!"me", [], .nonNull (.named cs!"User")⟩,
        ⟨cs!"users", [⟨cs!"ids", .nonNull (.list (.nonNull (.named cs!"ID"))), none⟩],
          .nonNull (.list (.nonNull (.named cs!"User")))⟩]⟩,
      ⟨cs!"Node", .interface [⟨cs!"id", [], .nonNull (.named cs!"ID")⟩]⟩,
      ⟨cs!"User", .object [cs!"Node"] [
        ⟨cs!"id", [], .nonNull (.named cs!"ID")⟩,
        ⟨cs!"name", [], .named cs!"String"⟩,
        ⟨cs!"age", [], .named cs!"Int"⟩,
        ⟨cs!"friend", userArgs, .named cs!"User"⟩,
        ⟨cs!"best", [], .named cs!"User"⟩]⟩,
      ⟨cs!"UserFilter", .input [⟨cs!"id", .named cs!"ID", none⟩, ⟨cs!"name", .named cs!"String", none⟩]⟩] }

/-- `Valid` of the text, `none` when it does not parse -/
def check (text : Str) : Option Bool := (parseDoc text).map (Valid schema)

def plainText : Str :=
  cs!"query Home($k: Int, $q: String) {  me {    id,    friend____n___v_k: friend(n: $k) {      id,      age,    },    name,  },  user____name___v_q____n___l_3: user(name: $q, n: 3) {    id,    age,    name,  },}"

/-- F12 (`user(filter: { id: $id })` in `field Query.Home($id: ID)`): `$id` is used and not declared -/
def f12Text : Str :=
  cs!"query Home {  user____filter___o_id__v_id_c: user(filter: { id: $id }) {    id,    name,  },}"

/-- what the operation should have been -/
def f12Repaired : Str :=
  cs!"query Home($id: ID) {  user____filter___o_id__v_id_c: user(filter: { id: $id }) {    id,    name,  },}"

/-- F12b (`Inner(f: { id: $uid })`, `Inner` selects `friend(filter: $f)`): the object is replaced by `$uid` -/
def f12bText : Str :=
  cs!"query Home($uid: ID) {  me {    id,    friend____filter___v_uid: friend(filter: $uid) {      id,      name,    },  },}"

/-- what the compiler prints for the same program since the repair of F12b -/
def f12bRepaired : Str :=
  cs!"query Home($uid: ID) {  me {    id,    friend____filter___o_id__v_uid_c: friend(filter: { id: $uid }) {      id,      name,    },  },}"

/-- F11 (`user(n: -5)`): the alias is not a Name -/
def f11NegText : Str :=
  cs!"query Home {  user____n___l_-5: user(n: -5) {    id,    name,  },}"

/-- F11 (`user(name: \"a b\")` and `u2: user(name: \"a_b\")`): two fields, one response name -/
def f11CollideText : Str :=
  cs!"query Home {  user____name___s_a_b: user(name: \"a b\") {    id,    name,  },  user____name___s_a_b: user(name: \"a_b\") {    id,    age,  },}"

/-- before e06371c: `$ids: [ID!]!` was declared as `[ID!]` -/
def listVarBefore : Str :=
  cs!"query Home($ids: [ID!]) {  users____ids___v_ids: users(ids: $ids) {    id,    name,  },}"
def listVarAfter : Str :=
  cs!"query Home($ids: [ID!]!) {  users____ids___v_ids: users(ids: $ids) {    id,    name,  },}"

/-- before 31b992f: `$q` is only used below a client pointer, which the operation does not contain -/
def pointerVarBefore : Str :=
  cs!"query Home($q: String) {  me {    id,    best {      id,    },    name,  },}"
def pointerVarAfter : Str :=
  cs!"query Home {  me {    id,    best {      id,    },    name,  },}"

/-- F13: the file the compiler writes for `user(name: \"it's\")` -/
def f13File : Str :=
  cs!"export default 'query Home {\\\n  user____name___s_it_s: user(name: \"it's\") {\\\n    id,\\\n    name,\\\n  },\\\n}';"

/-- the pretty text of the same operation (what `generate_query_text(.., Format::Pretty)` returns) -/
def f13Pretty : Str :=
  cs!"query Home {\\\n  user____name___s_it_s: user(name: \"it's\") {\\\n    id,\\\n    name,\\\n  },\\\n}"

/-- F11 (`user(n: -5)`), pretty -/
def f11NegPretty : Str :=
  cs!"query Home {\\\n  user____n___l_-5: user(n: -5) {\\\n    id,\\\n    name,\\\n  },\\\n}"

def plainFile : Str :=
  cs!"export default 'query Home {\\\n  me {\\\n    id,\\\n    name,\\\n  },\\\n}';"

theorem plain_valid : check plainText = some true := by decide +kernel
theorem f12_invalid : check f12Text = some false := by decide +kernel
theorem f12_repaired_valid : check f12Repaired = some true := by decide +kernel
theorem f12b_invalid : check f12bText = some false := by decide +kernel
theorem f12b_repaired_valid : check f12bRepaired = some true := by decide +kernel
theorem f11neg_unparsed : check f11NegText = none := by decide +kernel
theorem f11collide_invalid : check f11CollideText = some false := by decide +kernel
theorem listVar_before_invalid : check listVarBefore = some false := by decide +kernel
theorem listVar_after_valid : check listVarAfter = some true := by decide +kernel
theorem pointerVar_before_invalid : check pointerVarBefore = some false := by decide +kernel
theorem pointerVar_after_valid : check pointerVarAfter = some true := by decide +kernel
theorem f13_not_javascript : jsValue f13File = none := by decide +kernel
/-- since the repair of F13 the file is `queryTextFile f13Pretty` (apostrophe escaped): JavaScript
again, and the operation the runtime reads is valid -/
theorem f13_repaired_javascript :
    jsValue (queryTextFile f13Pretty) =
      some cs!"query Home {  user____name___s_it_s: user(name: \"it's\") {    id,    name,  },}" := by decide +kernel
theorem f13_repaired_valid :
    check cs!"query Home {  user____name___s_it_s: user(name: \"it's\") {    id,    name,  },}" = some true := by
  decide +kernel
theorem f13_before_is_unescaped : f13File = exportDefault ++ f13Pretty ++ cs!"';" := by decide +kernel
/-- F11: the file is JavaScript, its value does not parse -/
theorem f11neg_javascript : jsValue (queryTextFile f11NegPretty) = some f11NegText := by decide +kernel
theorem plain_javascript :
    jsValue plainFile = some cs!"query Home {  me {    id,    name,  },}" := by decide +kernel

end IsoVerif.Ops.Witness
