/-
Helper lemmas for C01–C03 over M-PICO.
-/
import IsoVerif.Model.Pico
import IsoVerif.Model.PicoSpec

namespace IsoVerif.Pico

end IsoVerif.Pico
