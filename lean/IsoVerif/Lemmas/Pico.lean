/-
Helper lemmas for C01–C03 over M-PICO (collected).
-/
import IsoVerif.Model.Pico
import IsoVerif.Model.PicoSpec
import IsoVerif.Lemmas.PicoBasic
import IsoVerif.Lemmas.PicoStage1
import IsoVerif.Lemmas.PicoRerun
import IsoVerif.Lemmas.PicoSem
import IsoVerif.Lemmas.PicoStage2
import IsoVerif.Lemmas.PicoInc8
import IsoVerif.Lemmas.PicoQuiet
import IsoVerif.Lemmas.PicoJust
