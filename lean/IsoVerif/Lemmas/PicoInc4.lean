/-
C01, stage 2b/3: running a body under the invariant (`invoke_inc`) and installing the new
revision of the node that was brought up to date (`install`, `unbusy`).
-/
import IsoVerif.Lemmas.PicoInc3

namespace IsoVerif.Pico

/-- `invoke` for a node that is marked busy: the frame is pushed, the body runs, the frame is popped -/
theorem invoke_inc {P : Prog} {rank : Nat → Nat} {f : Nat} {B : List NodeId} (hacy : Acyclic P rank)
    (hF : SpecF P rank f) (s2 : Storage) (id : NodeId) (v : Nat) (R : List Read)
    (hinv2 : INV P s2 (id :: B)) (hstk : ∀ fr, fr ∈ s2.stack → fr.id ∈ B) (hidB : id ∉ B)
    (hf : rank id.fn ≤ f) (hB : ∀ b, b ∈ B → rank id.fn < rank b.fn)
    (hbig : BigN P s2.srcs s2.maps id v R) :
    ∃ s3 fr3, invoke (callVia (execF (upToDate f P))) P s2 id =
        ({ s3 with stack := s2.stack, events := (true, id) :: s3.events }, .ok (v, fr3)) ∧
      EvalRes P (id :: B) (fun q => rank q.fn < rank id.fn)
        { s2 with stack := ⟨id, [], 1⟩ :: s2.stack, runs := bump s2.runs id.fn, log := id :: s2.log, events := (false, id) :: s2.events } ⟨id, [], 1⟩ s2.stack R s3 fr3 := by
  have hany : (s2.stack.any fun fr => decide (fr.id = id)) = false := by
    rw [List.any_eq_false]
    intro fr hfr
    have := hstk fr hfr
    simp only [decide_eq_true_eq]
    intro e; rw [e] at this; exact hidB this
  have hinv2' : INV P { s2 with stack := ⟨id, [], 1⟩ :: s2.stack, runs := bump s2.runs id.fn, log := id :: s2.log, events := (false, id) :: s2.events } (id :: B) := by
    refine hinv2.congr rfl rfl rfl rfl ?_
    intro fr hfr
    rcases List.mem_cons.1 hfr with rfl | h
    · exact List.mem_cons_self
    · exact List.mem_cons_of_mem _ (hstk fr h)
  have hguard : ∀ g, g ∈ (fnOf P id.fn).body.calls →
      rank g < f ∧ rank g < rank id.fn ∧ ∀ b, b ∈ id :: B → rank g < rank b.fn := by
    intro g hg
    have h1 := hacy id.fn g hg
    refine ⟨Nat.lt_of_lt_of_le h1 hf, h1, ?_⟩
    intro b hb
    rcases List.mem_cons.1 hb with rfl | h
    · exact h1
    · exact Nat.lt_trans h1 (hB b h)
  obtain ⟨s3, fr3, he3, r3⟩ := evalE_inc (K := rank id.fn) hF hbig
    { s2 with stack := ⟨id, [], 1⟩ :: s2.stack, runs := bump s2.runs id.fn, log := id :: s2.log, events := (false, id) :: s2.events } ⟨id, [], 1⟩ s2.stack rfl rfl hguard hinv2' rfl
  refine ⟨s3, fr3, ?_, r3⟩
  unfold invoke
  simp only [hany, Bool.false_eq_true, if_false, he3, r3.stack]

theorem kind_derived' {rd : Read} {q : NodeId} (h : rd.kind = .derived q) : ∃ w, rd = .node q w := by
  cases rd with
  | src k o =>
    simp only [Read.kind] at h
    by_cases ho : o.1.isSome = true
    · rw [if_pos ho] at h; cases h
    · rw [if_neg ho] at h; cases h
  | node x w => simp only [Read.kind] at h; cases h; exact ⟨w, rfl⟩

/-- the busy node has been dealt with and its stored revision satisfies `RevOk` -/
theorem unbusy {P : Prog} {s : Storage} {id : NodeId} {B : List NodeId} (h : INV P s (id :: B))
    (hstk : ∀ fr, fr ∈ s.stack → fr.id ∈ B)
    (hid : ∀ r, alookup s.derived id = some r → RevOk P s id r) : INV P s B := by
  refine ⟨h.epochPos, hstk, h.srcTu, h.mapsInit, ?_, ?_⟩
  · intro n r hn hnB
    by_cases hni : n = id
    · subst hni; exact hid r hn
    · exact h.nodes n r hn (fun hm => by rcases List.mem_cons.1 hm with e | e; exact hni e; exact hnB e)
  · intro n r hn hnB; exact h.busyTv n r hn (List.mem_cons_of_mem _ hnB)

/-- the revision of a node that just ran (its frame started empty) satisfies `RevOk` -/
theorem revOk_of_run {P : Prog} {s3 : Storage} {id : NodeId} {v tuN : Nat} {R : List Read} {fr3 : Frame}
    (hbig : BigN P s3.srcs s3.maps id v R)
    (hreads : ∀ rd, rd ∈ R → ReadOk s3 fr3 rd ∧ ∃ d, d ∈ fr3.rdeps ∧ d.node = rd.kind)
    (hexact : ∀ d, d ∈ fr3.rdeps → ∃ rd, rd ∈ R ∧ rd.kind = d.node)
    (hstamps : ∀ d, d ∈ fr3.rdeps → d.stamp = s3.epoch) (htu : tuN ≤ s3.epoch)
    (horder : fr3.rdeps.reverse.map (·.node) = pushAll [] (R.map Read.kind))
    (hsrcTu : ∀ k nd, alookup s3.srcs k = some nd → nd.tu ≤ s3.epoch) (hmaxE : fr3.maxTu ≤ s3.epoch)
    (sF : Storage) (he : sF.epoch = s3.epoch) (hs : sF.srcs = s3.srcs) (hm : sF.maps = s3.maps)
    (hd : ∀ q, q ≠ id → alookup sF.derived q = alookup s3.derived q)
    (hne : ∀ q w, Read.node q w ∈ R → q ≠ id) :
    RevOk P sF id (Rev.mk v tuN s3.epoch fr3.rdeps.reverse) := by
  refine ⟨by rw [he]; exact Nat.le_refl _, htu, ?_, ?_, fun _ => ⟨R, by rw [hs, hm]; exact hbig⟩, ?_, ?_⟩
  · intro d hd'; rw [hstamps d (List.mem_reverse.1 hd')]; exact Nat.le_refl _
  · intro d hd'; rw [hstamps d (List.mem_reverse.1 hd')]; exact htu
  · intro _ d hd'
    have hdm := List.mem_reverse.1 hd'
    obtain ⟨rd, hrd, hk⟩ := hexact d hdm
    obtain ⟨hok, _⟩ := hreads rd hrd
    unfold DepQuiet
    rw [hstamps d hdm]
    cases rd with
    | src k o =>
      simp only [ReadOk] at hok
      simp only [Read.kind] at hk
      by_cases ho : o.1.isSome = true
      · rw [if_pos ho] at hok hk
        rw [← hk]; simp only
        obtain ⟨nd, hnd, _⟩ := hok.2
        exact ⟨nd, by rw [hs]; exact hnd, hsrcTu k nd hnd⟩
      · rw [if_neg ho] at hok hk
        rw [← hk]; simp only
        rw [hs]
        cases hnd : alookup s3.srcs k with
        | none => rfl
        | some nd =>
          have h1 := hok.1
          rw [hok.2.1] at h1
          have := keyObs_fst_some (m := s3.maps) hnd
          rw [← h1] at this; cases this
    | node q w =>
      simp only [ReadOk] at hok
      simp only [Read.kind] at hk
      rw [← hk]; simp only
      obtain ⟨rq, hq, _, htv, htuq⟩ := hok
      exact ⟨rq, by rw [hd q (hne q w hrd)]; exact hq, Nat.le_trans htuq hmaxE, Or.inr (by rw [he]; exact htv)⟩
  · refine ⟨s3.srcs, s3.maps, R, hbig, ?_, fun d hd' => hexact d (List.mem_reverse.1 hd'), horder⟩
    intro rd hrd
    obtain ⟨hok, d, hdm, hk⟩ := hreads rd hrd
    cases rd with
    | src k o =>
      simp only [ReadOk] at hok
      simp only [DepFor]
      by_cases ho : o.1.isSome = true
      · rw [if_pos ho] at hok ⊢
        refine ⟨⟨d, List.mem_reverse.2 hdm, by rw [hk]; simp [Read.kind, ho]⟩, ?_⟩
        intro _; rw [hs, hm]; exact hok.1.symm
      · rw [if_neg ho] at hok ⊢
        refine ⟨⟨d, List.mem_reverse.2 hdm, by rw [hk]; simp [Read.kind, ho]⟩, hok.2.1, ?_⟩
        intro nd hnd
        rw [hs] at hnd
        have h1 := hok.1
        rw [hok.2.1] at h1
        have := keyObs_fst_some (m := s3.maps) hnd
        rw [← h1] at this; cases this
    | node q w =>
      simp only [ReadOk] at hok
      simp only [DepFor]
      obtain ⟨rq, hq, hv, htv, _⟩ := hok
      refine ⟨⟨d, List.mem_reverse.2 hdm, by rw [hk]; rfl⟩, rq, ?_, fun _ => by rw [htv]; exact Nat.le_refl _, fun _ => hv⟩
      rw [hd q (hne q w hrd)]; exact hq

/-- installing the new revision of `id` -/
theorem install {P : Prog} {rank : Nat → Nat} {B : List NodeId} (hacy : Acyclic P rank)
    (s s3 sF : Storage) (id : NodeId) (v : Nat) (R : List Read) (fr3 : Frame) (tuN : Nat)
    (hinv : INV P s B) (hidB : id ∉ B)
    (hev : Evolves (fun q => rank q.fn < rank id.fn ∨ q = id) s s3)
    (hinv3 : INV P s3 (id :: B))
    (hbig : BigN P s3.srcs s3.maps id v R)
    (hreads : ∀ rd, rd ∈ R → ReadOk s3 fr3 rd ∧ ∃ d, d ∈ fr3.rdeps ∧ d.node = rd.kind)
    (hexact : ∀ d, d ∈ fr3.rdeps → ∃ rd, rd ∈ R ∧ rd.kind = d.node)
    (hstamps : ∀ d, d ∈ fr3.rdeps → d.stamp = s3.epoch) (htu : tuN ≤ s3.epoch)
    (horder : fr3.rdeps.reverse.map (·.node) = pushAll [] (R.map Read.kind)) (hmaxE : fr3.maxTu ≤ s3.epoch)
    (hold : ∀ rev, alookup s.derived id = some rev → rev.tv < s.epoch ∧
        ((v = rev.val ∧ tuN = rev.tu) ∨ (rev.deps ≠ [] ∧ rev.tv < tuN ∧ v ≠ rev.val)))
    (he : sF.epoch = s3.epoch) (hs : sF.srcs = s3.srcs) (hm : sF.maps = s3.maps)
    (hd : sF.derived = ainsert s3.derived id (Rev.mk v tuN s3.epoch fr3.rdeps.reverse)) (hlg : sF.log = s3.log)
    (hstk : ∀ fr, fr ∈ sF.stack → fr.id ∈ B) :
    INV P sF B ∧ Evolves (fun q => rank q.fn ≤ rank id.fn) s sF := by
  have hlk : ∀ q, q ≠ id → alookup sF.derived q = alookup s3.derived q := by
    intro q hq; rw [hd]; exact alookup_ainsert_ne _ _ _ _ (Ne.symm hq)
  have hlid : alookup sF.derived id = some (Rev.mk v tuN s3.epoch fr3.rdeps.reverse) := by
    rw [hd]; exact alookup_ainsert_self _ _ _
  have hnodeR : ∀ q w, Read.node q w ∈ R → q ≠ id := by
    intro q w hq e
    have := hacy id.fn q.fn (BigE.node_reads hbig q w hq)
    rw [e] at this; exact Nat.lt_irrefl _ this
  have hE : s3.epoch = s.epoch := hev.epoch
  -- the evolution of the whole storage
  have hevF : Evolves (fun q => rank q.fn ≤ rank id.fn) s sF := by
    refine ⟨he.trans hev.epoch, hs.trans hev.srcs, hm.trans hev.maps, ?_, ?_, ?_⟩
    rotate_left 2
    · obtain ⟨new, e, j⟩ := hev.log
      refine ⟨new, by rw [hlg]; exact e, fun x hx => ⟨?_, (j x hx).2⟩⟩
      rcases (j x hx).1 with hb | hb
      · exact Nat.le_of_lt hb
      · rw [hb]; exact Nat.le_refl _
    · intro q r hq
      by_cases hqi : q = id
      · subst hqi
        refine ⟨_, hlid, Or.inr ⟨Nat.le_refl _, (hold r hq).1, hE, ?_⟩⟩
        rcases (hold r hq).2 with ⟨h1, h2⟩ | h2
        · exact Or.inl ⟨h1, h2⟩
        · exact Or.inr h2
      · obtain ⟨r', hq', hc⟩ := hev.node q r hq
        refine ⟨r', by rw [hlk q hqi]; exact hq', ?_⟩
        rcases hc with rfl | ⟨hb, hrest⟩
        · exact Or.inl rfl
        · rcases hb with hb | hb
          · exact Or.inr ⟨Nat.le_of_lt hb, hrest⟩
          · exact absurd hb hqi
    · intro q hq hq'
      by_cases hqi : q = id
      · rw [hqi]; exact Nat.le_refl _
      · rw [hlk q hqi] at hq'
        rcases hev.born q hq hq' with hb | hb
        · exact Nat.le_of_lt hb
        · exact absurd hb hqi
  refine ⟨?_, hevF⟩
  refine ⟨by rw [he]; exact hinv3.epochPos, hstk, ?_, ?_, ?_, ?_⟩
  · intro k nd hk; rw [he]; rw [hs] at hk; exact hinv3.srcTu k nd hk
  · intro i hi; rw [hs] at hi; rw [hm]; exact hinv3.mapsInit i hi
  · intro n r hn hnB
    by_cases hni : n = id
    · subst hni
      rw [hlid] at hn; cases hn
      exact revOk_of_run hbig hreads hexact hstamps htu horder hinv3.srcTu hmaxE sF he hs hm hlk hnodeR
    · rw [hlk n hni] at hn
      have hok3 := hinv3.nodes n r hn (fun hmem => by rcases List.mem_cons.1 hmem with e | e; exact hni e; exact hnB e)
      by_cases hrk : rank n.fn ≤ rank id.fn
      · -- cannot have read `id`: the edges of its ghost run are untouched by the installation
        obtain ⟨σx, mx, Rn, hbn, hdf, hx⟩ := hok3.ghost
        refine ⟨by rw [he]; exact hok3.tv_le, hok3.tu_tv, hok3.stamps, hok3.tu_stamp, ?_, ?_, σx, mx, Rn, hbn, ?_, hx⟩
        · intro ht; rw [hs, hm]; exact hok3.correct (by rw [← he]; exact ht)
        · intro ht d hdm
          have hq3 := hok3.quiet (by rw [← he]; exact ht) d hdm
          unfold DepQuiet at hq3 ⊢
          cases hn' : d.node with
          | source k => rw [hn'] at hq3; simp only at hq3 ⊢; rw [hs]; exact hq3
          | absent k => rw [hn'] at hq3; simp only at hq3 ⊢; rw [hs]; exact hq3
          | derived x =>
            rw [hn'] at hq3; simp only at hq3 ⊢
            obtain ⟨rd, hrd, hk⟩ := hx.1 d hdm
            obtain ⟨w, hw⟩ := kind_derived' (hk.trans hn')
            have hxi : x ≠ id := by
              intro e
              have := hacy n.fn x.fn (BigE.node_reads hbn x w (hw ▸ hrd))
              rw [e] at this; omega
            rw [hlk x hxi, he]; exact hq3
        · intro rd hrd
          have h0 := hdf rd hrd
          cases rd with
          | src k o => simp only [DepFor] at h0 ⊢; rw [hs, hm]; exact h0
          | node x w =>
            simp only [DepFor] at h0 ⊢
            have hxi : x ≠ id := by
              intro e
              have := hacy n.fn x.fn (BigE.node_reads hbn x w hrd)
              rw [e] at this; omega
            rw [hlk x hxi]; exact h0
      · -- of higher rank: untouched since `s`, where the invariant held with `id`'s old revision
        have hnot : ¬ (rank n.fn < rank id.fn ∨ n = id) := by
          intro h; rcases h with h | h
          · omega
          · exact hni h
        cases hsn : alookup s.derived n with
        | none => exact absurd (hev.born n hsn (by simp [hn])) hnot
        | some rs =>
          obtain ⟨r', hq', hc⟩ := hev.node n rs hsn
          rw [hn] at hq'; cases hq'
          rcases hc with rfl | ⟨hb, _⟩
          · exact (hinv.nodes n _ hsn hnB).evolves hevF
          · exact absurd hb hnot
  · intro n r hn hnB
    have hni : n ≠ id := fun e => hidB (e ▸ hnB)
    rw [hlk n hni] at hn; rw [he]
    exact hinv3.busyTv n r hn (List.mem_cons_of_mem _ hnB)

end IsoVerif.Pico
