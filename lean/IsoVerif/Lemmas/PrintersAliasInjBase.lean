/-
Helper lemmas for `PrintersAliasInj`: splitting lemmas for atoms and top-level strings, decimal
digits, and the linear form of an object chunk.
-/
import IsoVerif.Model.Core.Alias

namespace IsoVerif.Core
namespace AliasInj

/-- the string starts with an alphanumeric char -/
def hdAl : Str → Bool
  | [] => false
  | c :: _ => isAlnum c

/-- the string starts with `__x`, `x` alphanumeric (a field separator followed by a chunk) -/
def hdU2 : Str → Bool
  | a :: b :: rest => a == 95 && b == 95 && hdAl rest
  | _ => false

theorem all_split (x y r1 r2 : Str) (hx : x.all isAlnum = true) (hy : y.all isAlnum = true)
    (h1 : hdAl r1 = false) (h2 : hdAl r2 = false) (h : x ++ r1 = y ++ r2) : x = y ∧ r1 = r2 := by
  induction x generalizing y with
  | nil =>
    cases y with
    | nil => exact ⟨rfl, by simpa using h⟩
    | cons c t =>
      simp only [List.nil_append, List.cons_append] at h
      subst h
      simp only [List.all_cons, Bool.and_eq_true] at hy
      simp only [hdAl] at h1
      rw [hy.1] at h1; cases h1
  | cons c t ih =>
    cases y with
    | nil =>
      simp only [List.nil_append, List.cons_append] at h
      subst h
      simp only [List.all_cons, Bool.and_eq_true] at hx
      simp only [hdAl] at h2
      rw [hx.1] at h2; cases h2
    | cons c' t' =>
      simp only [List.cons_append, List.cons.injEq] at h
      simp only [List.all_cons, Bool.and_eq_true] at hx hy
      obtain ⟨e1, e2⟩ := ih t' hx.2 hy.2 h.2
      exact ⟨by rw [h.1, e1], e2⟩

theorem isAtom_all {x : Str} (h : isAtom x = true) : x.all isAlnum = true := by
  simp only [isAtom, Bool.and_eq_true] at h; exact h.2

theorem isAtom_cons {x : Str} (h : isAtom x = true) : ∃ c t, x = c :: t ∧ isAlnum c = true := by
  cases x with
  | nil => simp [isAtom] at h
  | cons c t =>
    have := isAtom_all h
    simp only [List.all_cons, Bool.and_eq_true] at this
    exact ⟨c, t, rfl, this.1⟩

theorem atom_split (x y r1 r2 : Str) (hx : isAtom x = true) (hy : isAtom y = true)
    (h1 : hdAl r1 = false) (h2 : hdAl r2 = false) (h : x ++ r1 = y ++ r2) : x = y ∧ r1 = r2 :=
  all_split x y r1 r2 (isAtom_all hx) (isAtom_all hy) h1 h2 h

theorem isAlnum_word {c : Nat} (h : isAlnum c = true) : isWordChar c = true := by
  simp only [isAlnum, isWordChar, Bool.or_eq_true, Bool.and_eq_true, decide_eq_true_eq, beq_iff_eq] at *
  omega

theorem collapse_of_word (s : Str) (h : s.all isWordChar = true) : collapseStr s = s := by
  induction s with
  | nil => rfl
  | cons c t ih =>
    simp only [List.all_cons, Bool.and_eq_true] at h
    simp only [collapseStr, List.map_cons, h.1, if_true, List.cons.injEq, true_and]
    exact ih h.2

theorem all_alnum_word (s : Str) (h : s.all isAlnum = true) : s.all isWordChar = true := by
  induction s with
  | nil => rfl
  | cons c t ih =>
    simp only [List.all_cons, Bool.and_eq_true] at h ⊢
    exact ⟨isAlnum_word h.1, ih h.2⟩

theorem collapse_atom {s : Str} (h : isAtom s = true) : collapseStr s = s :=
  collapse_of_word s (all_alnum_word s (isAtom_all h))

/-! ### showNat -/

def isDigit (c : Nat) : Bool := 48 ≤ c && c ≤ 57

theorem isDigit_alnum {c : Nat} (h : isDigit c = true) : isAlnum c = true := by
  simp only [isDigit, isAlnum, Bool.or_eq_true, Bool.and_eq_true, decide_eq_true_eq] at *
  omega

def pstep (a d : Nat) : Nat := a * 10 + (d - 48)

theorem digitsAux_parse (fuel : Nat) : ∀ (n : Nat) (acc : Str), n < fuel →
    (digitsAux fuel n acc).foldl pstep 0 = acc.foldl pstep n := by
  induction fuel with
  | zero => intro n acc h; omega
  | succ fuel ih =>
    intro n acc h
    unfold digitsAux
    by_cases h10 : n < 10
    · simp only [h10, if_true, List.foldl_cons, pstep]
      congr 1; omega
    · simp only [h10, if_false]
      rw [ih (n / 10) _ (by omega)]
      simp only [List.foldl_cons, pstep]
      congr 1; omega

theorem showNat_inj {n m : Nat} (h : showNat n = showNat m) : n = m := by
  have h1 := digitsAux_parse (n + 1) n [] (by omega)
  have h2 := digitsAux_parse (m + 1) m [] (by omega)
  simp only [List.foldl_nil] at h1 h2
  unfold showNat at h
  rw [← h1, ← h2, h]

theorem digitsAux_digits (fuel : Nat) : ∀ (n : Nat) (acc : Str), acc.all isDigit = true →
    (digitsAux fuel n acc).all isDigit = true := by
  induction fuel with
  | zero => intro n acc h; simpa [digitsAux] using h
  | succ fuel ih =>
    intro n acc h
    unfold digitsAux
    by_cases h10 : n < 10
    · simp only [h10, if_true, List.all_cons, h, Bool.and_true]
      simp only [isDigit, Bool.and_eq_true, decide_eq_true_eq]; omega
    · simp only [h10, if_false]
      apply ih
      simp only [List.all_cons, h, Bool.and_true]
      simp only [isDigit, Bool.and_eq_true, decide_eq_true_eq]; omega

theorem digitsAux_ne_nil_of_acc (fuel : Nat) : ∀ (n : Nat) (acc : Str), acc ≠ [] →
    digitsAux fuel n acc ≠ [] := by
  induction fuel with
  | zero => intro n acc h; simpa [digitsAux] using h
  | succ fuel ih =>
    intro n acc h
    unfold digitsAux
    by_cases h10 : n < 10
    · simp [h10]
    · simp only [h10, if_false]
      exact ih _ _ (by simp)

theorem showNat_ne_nil (n : Nat) : showNat n ≠ [] := by
  unfold showNat digitsAux
  by_cases h10 : n < 10
  · simp [h10]
  · simp only [h10, if_false]
    exact digitsAux_ne_nil_of_acc _ _ _ (by simp)

theorem showNat_digits (n : Nat) : (showNat n).all isDigit = true :=
  digitsAux_digits _ _ _ rfl

theorem all_digit_alnum (s : Str) (h : s.all isDigit = true) : s.all isAlnum = true := by
  induction s with
  | nil => rfl
  | cons c t ih =>
    simp only [List.all_cons, Bool.and_eq_true] at h ⊢
    exact ⟨isDigit_alnum h.1, ih h.2⟩

theorem showNat_atom (n : Nat) : isAtom (showNat n) = true := by
  simp only [isAtom, Bool.and_eq_true, Bool.not_eq_true', List.isEmpty_eq_false_iff]
  exact ⟨showNat_ne_nil n, all_digit_alnum _ (showNat_digits n)⟩


/-! ### top-level strings -/

/-- continuation after a top-level argument: end of string or the `____` separator -/
def TopCont (r : Str) : Prop := r = [] ∨ ∃ t, r = 95 :: 95 :: 95 :: 95 :: t

theorem go_word : ∀ (s : Str) (p : Nat), isTopStr.go p s = true → s.all isWordChar = true := by
  intro s
  induction s with
  | nil => intro p _; rfl
  | cons d more ih =>
    intro p h
    simp only [isTopStr.go, Bool.and_eq_true, Bool.or_eq_true, beq_iff_eq] at h
    simp only [List.all_cons, Bool.and_eq_true]
    refine ⟨?_, ih d h.2⟩
    rcases h.1 with h1 | h1
    · exact isAlnum_word h1
    · rw [h1.1.1]; decide

theorem topStr_word {s : Str} (h : isTopStr s = true) : s.all isWordChar = true := by
  cases s with
  | nil => rfl
  | cons c rest =>
    simp only [isTopStr, Bool.and_eq_true] at h
    simp only [List.all_cons, Bool.and_eq_true]
    exact ⟨isAlnum_word h.1, go_word rest c h.2⟩

theorem collapse_top {s : Str} (h : isTopStr s = true) : collapseStr s = s :=
  collapse_of_word s (topStr_word h)

theorem go_us {p : Nat} {more : Str} (h : isTopStr.go p (95 :: more) = true) :
    ∃ e more', more = e :: more' ∧ isAlnum e = true := by
  cases more with
  | nil =>
    simp only [isTopStr.go, Bool.and_eq_true, Bool.or_eq_true, beq_iff_eq] at h
    rcases h.1 with h1 | h1
    · exact absurd h1 (by decide)
    · simp at h1
  | cons e more' =>
    refine ⟨e, more', rfl, ?_⟩
    simp only [isTopStr.go, Bool.and_eq_true, Bool.or_eq_true, beq_iff_eq] at h
    rcases h.2.1 with h1 | h1
    · exact h1
    · simp at h1

theorem go_nil_cons {p d : Nat} {more r1 r2 : Str} (hg : isTopStr.go p (d :: more) = true)
    (h1 : TopCont r1) (h : r1 = d :: (more ++ r2)) : False := by
  rcases h1 with h1 | ⟨t, h1⟩
  · rw [h1] at h; cases h
  · rw [h1] at h
    obtain ⟨hd, ht⟩ := List.cons.inj h
    subst hd
    obtain ⟨e, more', hm, he⟩ := go_us hg
    subst hm
    simp only [List.cons_append] at ht
    obtain ⟨he2, _⟩ := List.cons.inj ht
    subst he2
    revert he; decide

theorem go_split : ∀ (s t : Str) (p : Nat) (r1 r2 : Str), isTopStr.go p s = true →
    isTopStr.go p t = true → TopCont r1 → TopCont r2 → s ++ r1 = t ++ r2 → s = t ∧ r1 = r2 := by
  intro s
  induction s with
  | nil =>
    intro t p r1 r2 _ ht h1 h2 h
    cases t with
    | nil => exact ⟨rfl, by simpa using h⟩
    | cons d more =>
      simp only [List.nil_append, List.cons_append] at h
      exact (go_nil_cons ht h1 h).elim
  | cons d more ih =>
    intro t p r1 r2 hs ht h1 h2 h
    cases t with
    | nil =>
      simp only [List.nil_append, List.cons_append] at h
      exact (go_nil_cons hs h2 h.symm).elim
    | cons d' more' =>
      simp only [List.cons_append, List.cons.injEq] at h
      obtain ⟨hd, hm⟩ := h
      subst hd
      simp only [isTopStr.go, Bool.and_eq_true] at hs ht
      obtain ⟨e1, e2⟩ := ih more' d r1 r2 hs.2 ht.2 h1 h2 hm
      exact ⟨by rw [e1], e2⟩

theorem topStr_split (s t r1 r2 : Str) (hs : isTopStr s = true) (ht : isTopStr t = true)
    (h1 : TopCont r1) (h2 : TopCont r2) (h : s ++ r1 = t ++ r2) : s = t ∧ r1 = r2 := by
  cases s with
  | nil => simp [isTopStr] at hs
  | cons c rest =>
    cases t with
    | nil => simp [isTopStr] at ht
    | cons c' rest' =>
      simp only [List.cons_append, List.cons.injEq] at h
      obtain ⟨hc, hm⟩ := h
      subst hc
      simp only [isTopStr, Bool.and_eq_true] at hs ht
      obtain ⟨e1, e2⟩ := go_split rest rest' c r1 r2 hs.2 ht.2 h1 h2 hm
      exact ⟨by rw [e1], e2⟩

/-! ### objects -/

/-- everything of an object chunk after the leading `o`: `_k1__c1_k2__c2…_c` -/
def tailStr : List (Str × Value) → Str
  | [] => cs!"_c"
  | (k, v) :: rest => cs!"_" ++ k ++ cs!"__" ++ aliasChunkT v ++ tailStr rest

theorem join_tail : ∀ (rest : List (Str × Value)) (k : Str) (v : Value),
    joinStr cs!"_" (aliasFieldsT ((k, v) :: rest)) ++ cs!"_c"
      = k ++ cs!"__" ++ aliasChunkT v ++ tailStr rest := by
  intro rest
  induction rest with
  | nil => intro k v; simp only [aliasFieldsT, joinStr, tailStr]
  | cons f r ih =>
    intro k v
    obtain ⟨k2, v2⟩ := f
    have := ih k2 v2
    rw [aliasFieldsT] at this ⊢
    rw [aliasFieldsT]
    simp only [joinStr, tailStr, List.append_assoc] at this ⊢
    rw [this]

theorem obj_chunk (fs : List (Str × Value)) (h : fs ≠ []) :
    aliasChunkT (.obj fs) = 111 :: tailStr fs := by
  cases fs with
  | nil => exact (h rfl).elim
  | cons f rest =>
    obtain ⟨k, v⟩ := f
    rw [aliasChunkT, List.append_assoc, join_tail, tailStr]
    simp only [List.cons_append, List.nil_append, List.append_assoc]

end AliasInj
end IsoVerif.Core
