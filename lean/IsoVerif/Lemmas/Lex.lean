/-
Theorems about the generic lexer model `IsoVerif.Lex`, true for EVERY table, callback set and
override hook: token spans are non-empty, consecutive (sorted, non-overlapping), inside the input
and on character boundaries.
-/
import IsoVerif.Model.Lex

namespace IsoVerif.Lex

/-! ## characters -/

theorem groups_flatten : ∀ (s : Bytes), (groups s).flatten = s
  | [] => by simp [groups]
  | b :: tl => by
    have ih := groups_flatten tl
    simp only [groups]
    split
    · rename_i h; rw [h] at ih; simp at ih; simp [← ih]
    · rename_i g gs h
      rw [h] at ih
      split
      · rename_i c r
        split <;> simp_all
      · simp_all

theorem groups_ne_nil : ∀ (s : Bytes), ∀ g ∈ groups s, g ≠ []
  | [], g, hg => by simp [groups] at hg
  | b :: tl, g, hg => by
    have ih := groups_ne_nil tl
    simp only [groups] at hg
    split at hg
    · simp at hg; simp [hg]
    · rename_i g0 gs h
      rw [h] at ih
      split at hg
      · split at hg
        · simp at hg
          rcases hg with rfl | hg
          · simp
          · exact ih g (by simp [hg])
        · simp at hg
          rcases hg with rfl | rfl | hg
          · simp
          · exact ih _ (by simp)
          · exact ih g (by simp [hg])
      · simp at hg
        rcases hg with rfl | hg
        · simp
        · exact ih g (by simp [hg])

/-- every group after the first starts with a non-continuation byte -/
def TailHeads : List Bytes → Prop
  | [] => True
  | _ :: gs => ∀ g ∈ gs, ∃ c r, g = c :: r ∧ isCont c = false

theorem groups_tailHeads : ∀ (s : Bytes), TailHeads (groups s)
  | [] => by simp [groups, TailHeads]
  | b :: tl => by
    have ih := groups_tailHeads tl
    have hne := groups_ne_nil tl
    simp only [groups]
    split
    · simp [TailHeads]
    · rename_i g0 gs h
      rw [h] at ih hne
      simp only [TailHeads] at ih
      split
      · rename_i c r
        split
        · simpa [TailHeads] using ih
        · rename_i hc
          simp only [TailHeads, List.mem_cons]
          intro g hg
          rcases hg with rfl | hg
          · exact ⟨c, r, rfl, by simpa using hc⟩
          · exact ih g hg
      · exact absurd rfl (hne [] (by simp))

theorem width_map_length (gs : List Bytes) :
    width (gs.map fun g => (⟨decode g, g.length⟩ : Chr)) = gs.flatten.length := by
  induction gs with
  | nil => simp [width]
  | cons g gs ih => simp [width, ih]

theorem width_chars (s : Bytes) : width (chars s) = s.length := by
  simp [chars, width_map_length, groups_flatten]

theorem chars_len_pos (s : Bytes) : ∀ c ∈ chars s, 1 ≤ c.len := by
  intro c hc
  simp only [chars, List.mem_map] at hc
  obtain ⟨g, hg, rfl⟩ := hc
  have := groups_ne_nil s g hg
  cases g with
  | nil => exact absurd rfl this
  | cons _ _ => simp

theorem width_take_chars (s : Bytes) (k : Nat) :
    width ((chars s).take k) = ((groups s).take k).flatten.length := by
  simp [chars, ← List.map_take, width_map_length]

/-- a prefix of whole groups ends at a character boundary -/
theorem flatten_take_boundary (gs : List Bytes) (hne : ∀ g ∈ gs, g ≠ []) (ht : TailHeads gs) (k : Nat) :
    isBoundary gs.flatten ((gs.take k).flatten.length) = true := by
  by_cases hk0 : k = 0
  · subst hk0; simp [isBoundary]
  by_cases hk : gs.length ≤ k
  · rw [List.take_of_length_le hk]; simp [isBoundary]
  · -- 0 < k < gs.length : the byte at that offset is the head of group k
    have hk' : k < gs.length := Nat.lt_of_not_le hk
    have hsplit : gs = gs.take k ++ gs.drop k := (List.take_append_drop k gs).symm
    have hdrop : gs.drop k ≠ [] := by
      intro h
      have := congrArg List.length h
      simp at this
      omega
    obtain ⟨g, rest, hg⟩ : ∃ g rest, gs.drop k = g :: rest := by
      cases h : gs.drop k with
      | nil => exact absurd h hdrop
      | cons g rest => exact ⟨g, rest, rfl⟩
    have hgmem : g ∈ gs := by
      have : g ∈ gs.drop k := by rw [hg]; simp
      exact List.mem_of_mem_drop this
    -- g is not the first group
    have hgtail : ∃ c r, g = c :: r ∧ isCont c = false := by
      cases gs with
      | nil => simp at hk'
      | cons g0 gs' =>
        simp only [TailHeads] at ht
        apply ht
        cases k with
        | zero => exact absurd rfl hk0
        | succ k' =>
          simp only [List.drop_succ_cons] at hg
          have : g ∈ gs'.drop k' := by rw [hg]; simp
          exact List.mem_of_mem_drop this
    obtain ⟨c, r, rfl, hc⟩ := hgtail
    have hflat : gs.flatten = (gs.take k).flatten ++ (c :: (r ++ rest.flatten)) := by
      conv => lhs; rw [hsplit]
      rw [List.flatten_append, hg]
      simp
    have hget : gs.flatten[(gs.take k).flatten.length]? = some c := by
      rw [hflat]
      simp
    unfold isBoundary
    rw [hget]
    simp [hc]

theorem prefix_boundary (s : Bytes) (k : Nat) : isBoundary s (width ((chars s).take k)) = true := by
  rw [width_take_chars]
  have := flatten_take_boundary (groups s) (groups_ne_nil s) (groups_tailHeads s) k
  rwa [groups_flatten] at this

/-! ## widths -/

theorem width_append (a b : List Chr) : width (a ++ b) = width a + width b := by
  induction a with
  | nil => simp [width]
  | cons c a ih => simp [width, ih, Nat.add_assoc]

theorem width_take_add (cs : List Chr) (n k : Nat) :
    width (cs.take (n + k)) = width (cs.take n) + width ((cs.drop n).take k) := by
  rw [List.take_add, width_append]

theorem width_take_le (cs : List Chr) (n : Nat) : width (cs.take n) ≤ width cs := by
  have := width_append (cs.take n) (cs.drop n)
  rw [List.take_append_drop] at this
  omega

theorem width_take_pos (cs : List Chr) (n : Nat) (hcs : cs ≠ []) (hn : 1 ≤ n) (hlen : ∀ c ∈ cs, 1 ≤ c.len) :
    1 ≤ width (cs.take n) := by
  cases cs with
  | nil => exact absurd rfl hcs
  | cons c cs =>
    cases n with
    | zero => omega
    | succ n =>
      have := hlen c (by simp)
      simp only [List.take_succ_cons, width]
      omega

/-! ## one step -/

theorem norm_pos (n : Nat) : 1 ≤ norm n := by
  unfold norm; split <;> simp_all <;> omega

theorem stepNE_spec {κ : Type} (L : Lexer κ) (cs : List Chr) (pos : Nat) :
    1 ≤ (stepNE L cs pos).2 ∧
    ∀ t, (stepNE L cs pos).1 = some t → t.s = pos ∧ t.e = pos + width (cs.take (stepNE L cs pos).2) := by
  unfold stepNE
  split
  · exact ⟨norm_pos _, fun t ht => by simp at ht; subst ht; simp [mkTok]⟩
  · split
    · exact ⟨Nat.le_refl _, fun t ht => by simp at ht; subst ht; simp [mkTok]⟩
    · split
      · refine ⟨norm_pos _, fun t ht => ?_⟩
        simp only at ht
        split at ht
        · simp at ht
        · simp at ht; subst ht; simp [mkTok]
      · refine ⟨?_, fun t ht => by simp at ht; subst ht; simp [mkTok]⟩
        have := norm_pos ‹Nat›
        simp only
        omega

theorem step_spec {κ : Type} (L : Lexer κ) (cs : List Chr) (pos : Nat) (t? : Option (Tok κ)) (n : Nat)
    (h : step L cs pos = some (t?, n)) :
    1 ≤ n ∧ cs ≠ [] ∧ ∀ t, t? = some t → t.s = pos ∧ t.e = pos + width (cs.take n) := by
  unfold step at h
  split at h
  · simp at h
  · rename_i c cs'
    simp only [Option.some.injEq] at h
    have := stepNE_spec L (c :: cs') pos
    rw [h] at this
    exact ⟨this.1, by simp, this.2⟩

/-! ## the whole stream -/

/-- `x` is the end of a prefix of whole characters of `cs` (which starts at byte `pos`) -/
def PrefixPos (cs : List Chr) (pos x : Nat) : Prop := ∃ k, x = pos + width (cs.take k)

structure TokOK {κ : Type} (cs : List Chr) (pos : Nat) (t : Tok κ) : Prop where
  lo : pos ≤ t.s
  ne : t.s < t.e
  ps : PrefixPos cs pos t.s
  pe : PrefixPos cs pos t.e

theorem PrefixPos.shift {cs : List Chr} {pos n x : Nat}
    (h : PrefixPos (cs.drop n) (pos + width (cs.take n)) x) : PrefixPos cs pos x := by
  obtain ⟨k, hk⟩ := h
  exact ⟨n + k, by rw [width_take_add]; omega⟩

theorem lexFrom_ok {κ : Type} (L : Lexer κ) : ∀ (fuel : Nat) (cs : List Chr) (pos : Nat),
    (∀ c ∈ cs, 1 ≤ c.len) →
    (∀ t ∈ lexFrom L fuel cs pos, TokOK cs pos t) ∧
    (lexFrom L fuel cs pos).Pairwise (fun a b => a.e ≤ b.s)
  | 0, cs, pos, _ => by simp [lexFrom]
  | fuel + 1, cs, pos, hlen => by
    simp only [lexFrom]
    cases h : step L cs pos with
    | none => simp
    | some r =>
      obtain ⟨t?, n⟩ := r
      obtain ⟨hn, hcs, ht⟩ := step_spec L cs pos t? n h
      have hlen' : ∀ c ∈ cs.drop n, 1 ≤ c.len := fun c hc => hlen c (List.mem_of_mem_drop hc)
      obtain ⟨ih1, ih2⟩ := lexFrom_ok L fuel (cs.drop n) (pos + width (cs.take n)) hlen'
      have hw := width_take_pos cs n hcs hn hlen
      have hrest : ∀ t ∈ lexFrom L fuel (cs.drop n) (pos + width (cs.take n)), TokOK cs pos t := by
        intro t htm
        have := ih1 t htm
        exact ⟨by have := this.lo; omega, this.ne, this.ps.shift, this.pe.shift⟩
      cases t? with
      | none => exact ⟨hrest, ih2⟩
      | some t =>
        obtain ⟨hs, he⟩ := ht t rfl
        refine ⟨?_, ?_⟩
        · intro t' ht'
          simp only [List.mem_cons] at ht'
          rcases ht' with rfl | ht'
          · exact ⟨by omega, by omega, ⟨0, by simp [width, hs]⟩, ⟨n, he⟩⟩
          · exact hrest t' ht'
        · simp only [List.pairwise_cons]
          refine ⟨?_, ih2⟩
          intro t' ht'
          have := (ih1 t' ht').lo
          omega

/-! ## the four generic theorems, for every lexer `L` and every byte string `s` -/

theorem lex_tokOK {κ : Type} (L : Lexer κ) (s : Bytes) : ∀ t ∈ lex L s, TokOK (chars s) 0 t :=
  (lexFrom_ok L _ (chars s) 0 (chars_len_pos s)).1

/-- spans are non-empty -/
theorem lex_nonempty {κ : Type} (L : Lexer κ) (s : Bytes) : ∀ t ∈ lex L s, t.s < t.e :=
  fun t ht => (lex_tokOK L s t ht).ne

/-- spans are consecutive: every token ends before the next one starts -/
theorem lex_sorted {κ : Type} (L : Lexer κ) (s : Bytes) : (lex L s).Pairwise (fun a b => a.e ≤ b.s) :=
  (lexFrom_ok L _ (chars s) 0 (chars_len_pos s)).2

/-- spans lie inside the input -/
theorem lex_inside {κ : Type} (L : Lexer κ) (s : Bytes) : ∀ t ∈ lex L s, t.e ≤ s.length := by
  intro t ht
  obtain ⟨k, hk⟩ := (lex_tokOK L s t ht).pe
  have := width_take_le (chars s) k
  rw [width_chars] at this
  omega

/-- both ends of every span are character boundaries (`str::is_char_boundary`) -/
theorem lex_boundaries {κ : Type} (L : Lexer κ) (s : Bytes) :
    ∀ t ∈ lex L s, isBoundary s t.s = true ∧ isBoundary s t.e = true := by
  intro t ht
  have h := lex_tokOK L s t ht
  obtain ⟨k1, h1⟩ := h.ps
  obtain ⟨k2, h2⟩ := h.pe
  simp only [Nat.zero_add] at h1 h2
  rw [h1, h2]
  exact ⟨prefix_boundary s k1, prefix_boundary s k2⟩

end IsoVerif.Lex
