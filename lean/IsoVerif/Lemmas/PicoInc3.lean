/-
C01, stage 2b/3: the specification of `upToDate` (`bring_up_to_date`), the wrapper `execF`, and the
verification loop over the recorded dependencies.
-/
import IsoVerif.Lemmas.PicoInc2

namespace IsoVerif.Pico

/-- the specification of `upToDate` at fuel `f` -/
def SpecU (P : Prog) (rank : Nat → Nat) (f : Nat) : Prop :=
  ∀ (s : Storage) (B : List NodeId) (id : NodeId) (v : Nat) (R : List Read),
    INV P s B → (∀ b, b ∈ B → rank id.fn < rank b.fn) → rank id.fn < f →
    BigN P s.srcs s.maps id v R →
    ∃ s' b tu r', upToDate f P s id = (s', .ok (b, tu)) ∧ INV P s' B ∧
      Evolves (fun q => rank q.fn ≤ rank id.fn) s s' ∧ s'.stack = s.stack ∧
      alookup s'.derived id = some r' ∧ r'.val = v ∧ r'.tv = s.epoch ∧ r'.tu ≤ tu ∧ tu ≤ s.epoch ∧
      (∀ r, alookup s.derived id = some r → (b = true → r.val ≠ v) ∧ (b = false → r.val = v ∧ r'.tu = r.tu))

theorem Evolves.congr_right {bp : NodeId → Prop} {s s' s'' : Storage} (h : Evolves bp s s') (he : s''.epoch = s'.epoch)
    (hs : s''.srcs = s'.srcs) (hm : s''.maps = s'.maps) (hd : s''.derived = s'.derived) (hl : s''.log = s'.log) :
    Evolves bp s s'' :=
  ⟨he.trans h.epoch, hs.trans h.srcs, hm.trans h.maps, fun q r hq => by rw [hd]; exact h.node q r hq,
   fun q hq hq' => by rw [hd] at hq'; exact h.born q hq hq', by rw [hl]; exact h.log⟩

theorem Evolves.congr_left {bp : NodeId → Prop} {s s0 s' : Storage} (h : Evolves bp s s') (he : s0.epoch = s.epoch)
    (hs : s0.srcs = s.srcs) (hm' : s0.maps = s.maps) (hd : s0.derived = s.derived) (hl : s0.log = s.log) :
    Evolves bp s0 s' :=
  ⟨by rw [he]; exact h.epoch, by rw [hs]; exact h.srcs, by rw [hm']; exact h.maps,
   fun q r hq => by rw [hd] at hq; rw [he]; exact h.node q r hq,
   fun q hq hq' => by rw [hd] at hq; exact h.born q hq hq', by
     obtain ⟨new, e, j⟩ := h.log
     exact ⟨new, by rw [hl]; exact e, fun m hm => ⟨(j m hm).1, (j m hm).2.congr_left he hs hm' hd⟩⟩⟩

theorem specF_of_U {P : Prog} {rank : Nat → Nat} {f : Nat} (hU : SpecU P rank f) : SpecF P rank f := by
  intro s B id v R fr rest hinv hB hf hs hbig
  obtain ⟨s', b, tu, r', he, hinv', hev, hst, hl, hval, htv, htu, htuE, _⟩ := hU s B id v R hinv hB hf hbig
  have hp : pushTop s id = s := by simp [pushTop, hs]
  have hst' : s'.stack = fr :: rest := hst.trans hs
  refine ⟨regDep s' (.derived id) tu, b, tu, r', ?_, ?_, ?_, ?_, ?_, hval, htv, htu, htuE⟩
  · unfold execF; rw [hp, he]
  · rw [regDep_cons s' fr rest _ _ hst']
    refine hinv'.congr rfl rfl rfl rfl ?_
    intro fr' hfr'
    rcases List.mem_cons.1 hfr' with rfl | h
    · exact hinv'.stackB fr (by rw [hst']; exact List.mem_cons_self)
    · exact hinv'.stackB fr' (by rw [hst']; exact List.mem_cons_of_mem _ h)
  · rw [regDep_cons s' fr rest _ _ hst']; exact hev.congr_right rfl rfl rfl rfl rfl
  · rw [regDep_cons s' fr rest _ _ hst', hev.epoch]
  · rw [regDep_cons s' fr rest _ _ hst']; exact hl

/-! ## the verdict of the verification loop -/

/-- the dependency is as it was when it was recorded -/
def Unchanged (P : Prog) (s : Storage) (d : Dep) : Prop :=
  match d.node with
  | .source k => ∃ nd, alookup s.srcs k = some nd ∧ nd.tu ≤ d.stamp
  | .absent k => alookup s.srcs k = none
  | .derived q => ∃ rq, alookup s.derived q = some rq ∧ rq.tu ≤ d.stamp ∧ (rq.deps = [] ∨ rq.tv = s.epoch) ∧
      ∃ R, BigN P s.srcs s.maps q rq.val R

theorem Unchanged.toQuiet {P : Prog} {s : Storage} {d : Dep} (h : Unchanged P s d) : DepQuiet s d := by
  unfold Unchanged at h; unfold DepQuiet
  cases hn : d.node with
  | source k => rw [hn] at h; exact h
  | absent k => rw [hn] at h; exact h
  | derived q =>
    rw [hn] at h; simp only at h ⊢
    obtain ⟨rq, hq, htu, hdv, _⟩ := h
    exact ⟨rq, hq, htu, hdv⟩

theorem Unchanged.evolves {P : Prog} {bp : NodeId → Prop} {s s' : Storage} {d : Dep} (he : Evolves bp s s') (h : Unchanged P s d) :
    Unchanged P s' d := by
  unfold Unchanged at h ⊢
  cases hn : d.node with
  | source k => rw [hn] at h; simp only at h ⊢; rw [he.srcs]; exact h
  | absent k => rw [hn] at h; simp only at h ⊢; rw [he.srcs]; exact h
  | derived q =>
    rw [hn] at h; simp only at h ⊢
    obtain ⟨rq, hq, htu, hdv, R, hR⟩ := h
    obtain ⟨rq', hq', hc⟩ := he.node q rq hq
    rcases hc with rfl | ⟨_, hlt, htv', hcase⟩
    · exact ⟨rq', hq', htu, by rw [he.epoch]; exact hdv, R, by rw [he.srcs, he.maps]; exact hR⟩
    · have hde : rq.deps = [] := by
        rcases hdv with h1 | h1
        · exact h1
        · omega
      rcases hcase with ⟨hv, htu'⟩ | ⟨hne, _⟩
      · exact ⟨rq', hq', by rw [htu']; exact htu, Or.inr (by rw [he.epoch]; exact htv'), R,
          by rw [he.srcs, he.maps, hv]; exact hR⟩
      · exact absurd hde hne

theorem Changed.evolves {bp : NodeId → Prop} {s s' : Storage} {d : Dep} (he : Evolves bp s s')
    (hmono : ∀ q, d.node = .derived q → ∀ rq, alookup s.derived q = some rq → rq.deps ≠ [] → d.stamp ≤ rq.tv)
    (hpres : ∀ q, d.node = .derived q → (alookup s.derived q).isSome = true)
    (h : Changed s d) : Changed s' d := by
  unfold Changed at h ⊢
  cases hn : d.node with
  | source k => rw [hn] at h; simp only at h ⊢; rw [he.srcs]; exact h
  | absent k => rw [hn] at h; simp only at h ⊢; rw [he.srcs]; exact h
  | derived q =>
    rw [hn] at h; simp only at h ⊢
    intro rq' hq'
    have hp := hpres q hn
    cases hq : alookup s.derived q with
    | none => rw [hq] at hp; simp at hp
    | some rq =>
      obtain ⟨rq2, hq2, hc⟩ := he.node q rq hq
      rw [hq'] at hq2; cases hq2
      rcases hc with rfl | ⟨_, _, _, hcase⟩
      · exact h _ hq
      · rcases hcase with ⟨_, htu'⟩ | ⟨hne, hgt, _⟩
        · rw [htu']; exact h _ hq
        · have := hmono q hn rq hq hne; omega


/-- a stored node without dependencies is a constant: it is correct under any sources -/
theorem const_of_empty_deps {P : Prog} {s : Storage} {q : NodeId} {rq : Rev} (h : RevOk P s q rq) (hd : rq.deps = []) :
    ∃ R, BigN P s.srcs s.maps q rq.val R := by
  obtain ⟨σx, mx, R, hb, hdf, _, _⟩ := h.ghost
  have hR : R = [] := by
    cases R with
    | nil => rfl
    | cons rd rest =>
      have := hdf rd List.mem_cons_self
      cases rd with
      | src k o =>
        simp only [DepFor] at this
        by_cases ho : o.1.isSome = true
        · rw [if_pos ho] at this; obtain ⟨⟨d, hdm, _⟩, _⟩ := this; rw [hd] at hdm; cases hdm
        · rw [if_neg ho] at this; obtain ⟨⟨d, hdm, _⟩, _⟩ := this; rw [hd] at hdm; cases hdm
      | node x w =>
        simp only [DepFor] at this
        obtain ⟨⟨d, hdm, _⟩, _⟩ := this; rw [hd] at hdm; cases hdm
  subst hR
  exact ⟨[], BigE.transfer hb (fun r hr => by cases hr)⟩

/-- the verification loop (`any_dependency_changed`) under the invariant -/
theorem anyDep_inc {P : Prog} {rank : Nat → Nat} {f : Nat} {B : List NodeId} (hU : SpecU P rank f) (bound : Nat) :
    ∀ (deps pref : List Dep) (s : Storage), INV P s B →
      (∀ d', d' ∈ pref → Unchanged P s d') →
      (∀ D1 d D2, deps = D1 ++ d :: D2 → ∀ q, d.node = .derived q → ∀ s', Evolves (fun q => rank q.fn < bound) s s' →
          (∀ d', d' ∈ pref ++ D1 → Unchanged P s' d') → ∃ v R, BigN P s'.srcs s'.maps q v R) →
      (∀ d, d ∈ deps → d.stamp < s.epoch) →
      (∀ d, d ∈ deps → ∀ q, d.node = .derived q →
          rank q.fn < bound ∧ rank q.fn < f ∧ (∀ b, b ∈ B → rank q.fn < rank b.fn) ∧ q ∉ B) →
      (∀ d, d ∈ deps → ∀ q, d.node = .derived q → (alookup s.derived q).isSome = true) →
      (∀ d, d ∈ deps → ∀ q, d.node = .derived q → ∀ rq, alookup s.derived q = some rq → rq.deps ≠ [] → d.stamp ≤ rq.tv) →
      ∃ s' b, anyDep (depChanged (dropTu (upToDate f P))) deps s = (s', .ok b) ∧ INV P s' B ∧
        Evolves (fun q => rank q.fn < bound) s s' ∧ s'.stack = s.stack ∧
        (b = false → ∀ d, d ∈ deps → Unchanged P s' d) ∧ (b = true → ∃ d, d ∈ deps ∧ Changed s' d) := by
  intro deps
  induction deps with
  | nil =>
    intro pref s hinv _ _ _ _ _ _
    exact ⟨s, false, rfl, hinv, Evolves.refl _ s, rfl,
      fun _ d hd => (by cases hd), fun h => (by cases h)⟩
  | cons d ds ih =>
    intro pref s hinv hpu hnext hst hrk hpres hmono
    have hne : d.stamp ≠ s.epoch := Nat.ne_of_lt (hst d List.mem_cons_self)
    -- continuing with the rest from a state `s1` that `s` evolved into
    have hcont : ∀ s1 : Storage, INV P s1 B → Evolves (fun q => rank q.fn < bound) s s1 → s1.stack = s.stack →
        Unchanged P s1 d →
        ∃ s' b, anyDep (depChanged (dropTu (upToDate f P))) ds s1 = (s', .ok b) ∧ INV P s' B ∧
          Evolves (fun q => rank q.fn < bound) s s' ∧ s'.stack = s.stack ∧
          (b = false → ∀ d', d' ∈ d :: ds → Unchanged P s' d') ∧ (b = true → ∃ d', d' ∈ d :: ds ∧ Changed s' d') := by
      intro s1 hinv1 hev1 hstk1 hun
      have hpres1 : ∀ d', d' ∈ ds → ∀ q, d'.node = .derived q → (alookup s1.derived q).isSome = true := by
        intro d' hd' q hq
        have := hpres d' (List.mem_cons_of_mem _ hd') q hq
        cases hl : alookup s.derived q with
        | none => rw [hl] at this; simp at this
        | some rq => obtain ⟨rq', hq', _⟩ := hev1.node q rq hl; simp [hq']
      have hmono1 : ∀ d', d' ∈ ds → ∀ q, d'.node = .derived q → ∀ rq, alookup s1.derived q = some rq →
          rq.deps ≠ [] → d'.stamp ≤ rq.tv := by
        intro d' hd' q hq rq1 hq1 hne1
        have hp := hpres d' (List.mem_cons_of_mem _ hd') q hq
        cases hl : alookup s.derived q with
        | none => rw [hl] at hp; simp at hp
        | some rq =>
          obtain ⟨rq', hq', hc⟩ := hev1.node q rq hl
          rw [hq1] at hq'; cases hq'
          rcases hc with rfl | ⟨_, _, htv', _⟩
          · exact hmono d' (List.mem_cons_of_mem _ hd') q hq _ hl hne1
          · have := hst d' (List.mem_cons_of_mem _ hd'); omega
      obtain ⟨s2, b, he2, hinv2, hev2, hstk2, hf2, ht2⟩ := ih (pref ++ [d]) s1 hinv1
        (fun d' hd' => by
          rcases List.mem_append.1 hd' with h | h
          · exact (hpu d' h).evolves hev1
          · rw [List.mem_singleton.1 h]; exact hun)
        (fun D1 d2 D2 hdec q hq s' hev' hall =>
          hnext (d :: D1) d2 D2 (by rw [hdec]; rfl) q hq s' (hev1.trans hev')
            (fun d' hd' => hall d' (by simpa [List.append_assoc] using hd')))
        (fun d' hd' => by rw [hev1.epoch]; exact hst d' (List.mem_cons_of_mem _ hd'))
        (fun d' hd' => hrk d' (List.mem_cons_of_mem _ hd')) hpres1 hmono1
      refine ⟨s2, b, he2, hinv2, hev1.trans hev2, hstk2.trans hstk1, ?_, ?_⟩
      · intro hb d' hd'
        rcases List.mem_cons.1 hd' with rfl | h
        · exact hun.evolves hev2
        · exact hf2 hb d' h
      · intro hb
        obtain ⟨d', hd', hc⟩ := ht2 hb
        exact ⟨d', List.mem_cons_of_mem _ hd', hc⟩
    -- stopping at `d`
    have hstop : ∀ s1 : Storage, INV P s1 B → Evolves (fun q => rank q.fn < bound) s s1 → s1.stack = s.stack →
        Changed s1 d →
        ∃ s' b, (s1, Res.ok true) = (s', Res.ok b) ∧ INV P s' B ∧ Evolves (fun q => rank q.fn < bound) s s' ∧
          s'.stack = s.stack ∧
          (b = false → ∀ d', d' ∈ d :: ds → Unchanged P s' d') ∧ (b = true → ∃ d', d' ∈ d :: ds ∧ Changed s' d') :=
      fun s1 hinv1 hev1 hstk1 hch =>
        ⟨s1, true, rfl, hinv1, hev1, hstk1, fun h => (by cases h), fun _ => ⟨d, List.mem_cons_self, hch⟩⟩
    simp only [anyDep, if_neg hne]
    cases hn : d.node with
    | source k =>
      simp only [depChanged, hn]
      cases hl : alookup s.srcs k with
      | none =>
        simp only
        exact hstop s hinv (Evolves.refl _ s) rfl (by unfold Changed; rw [hn]; intro nd h; rw [hl] at h; cases h)
      | some nd =>
        simp only
        by_cases hgt : nd.tu > d.stamp
        · simp only [hgt, decide_true]
          exact hstop s hinv (Evolves.refl _ s) rfl
            (by unfold Changed; rw [hn]; intro nd' h; rw [hl] at h; cases h; exact hgt)
        · simp only [hgt, decide_false]
          exact hcont s hinv (Evolves.refl _ s) rfl
            (by unfold Unchanged; rw [hn]; exact ⟨nd, hl, Nat.le_of_not_gt hgt⟩)
    | absent k =>
      simp only [depChanged, hn]
      cases hl : alookup s.srcs k with
      | none =>
        simp only [Option.isSome_none]
        exact hcont s hinv (Evolves.refl _ s) rfl (by unfold Unchanged; rw [hn]; exact hl)
      | some nd =>
        simp only [Option.isSome_some]
        exact hstop s hinv (Evolves.refl _ s) rfl (by unfold Changed; rw [hn]; simp [hl])
    | derived q =>
      simp only [depChanged, hn]
      obtain ⟨hrk1, hrk2, hrk3, hqB⟩ := hrk d List.mem_cons_self q hn
      cases hl : alookup s.derived q with
      | none =>
        simp only
        exact hstop s hinv (Evolves.refl _ s) rfl (by unfold Changed; rw [hn]; intro rq h; rw [hl] at h; cases h)
      | some rq =>
        simp only
        by_cases hgt : rq.tu > d.stamp
        · rw [if_pos hgt]
          exact hstop s hinv (Evolves.refl _ s) rfl
            (by unfold Changed; rw [hn]; intro rq' h; rw [hl] at h; cases h; exact hgt)
        · rw [if_neg hgt]
          have hok := hinv.nodes q rq hl hqB
          by_cases hemp : rq.deps.isEmpty = true
          · rw [if_pos hemp]
            have hde : rq.deps = [] := List.isEmpty_iff.1 hemp
            exact hcont s hinv (Evolves.refl _ s) rfl
              (by unfold Unchanged; rw [hn]
                  exact ⟨rq, hl, Nat.le_of_not_gt hgt, Or.inl hde, const_of_empty_deps hok hde⟩)
          · rw [if_neg hemp]
            have hdne : rq.deps ≠ [] := fun e => hemp (by rw [e]; rfl)
            obtain ⟨vq, Rq, hRq⟩ := hnext [] d ds rfl q hn s (Evolves.refl _ s) (by simpa using hpu)
            obtain ⟨s1, b1, tu1, r1, he1, hinv1, hev1', hstk1, hl1, hval1, htv1, _, _, hflag⟩ :=
              hU s B q vq Rq hinv hrk3 hrk2 hRq
            have hev1 : Evolves (fun x => rank x.fn < bound) s s1 :=
              hev1'.mono (fun x hx => Nat.lt_of_le_of_lt hx hrk1)
            simp only [dropTu, he1]
            cases b1 with
            | true =>
              refine hstop s1 hinv1 hev1 hstk1 ?_
              unfold Changed; rw [hn]
              intro rq' hq'
              rw [hl1] at hq'; cases hq'
              have hvne := (hflag rq hl).1 rfl
              obtain ⟨r2, hq2, hc⟩ := hev1.node q rq hl
              rw [hl1] at hq2; cases hq2
              rcases hc with rfl | ⟨_, _, _, hcase⟩
              · exact absurd hval1 hvne
              · rcases hcase with ⟨hv, _⟩ | ⟨_, hgt', _⟩
                · exact absurd (hv.symm.trans hval1) hvne
                · have := hmono d List.mem_cons_self q hn rq hl hdne; omega
            | false =>
              refine hcont s1 hinv1 hev1 hstk1 ?_
              unfold Unchanged; rw [hn]
              obtain ⟨hv, htu⟩ := (hflag rq hl).2 rfl
              exact ⟨r1, hl1, by rw [htu]; exact Nat.le_of_not_gt hgt, Or.inr (by rw [hev1.epoch]; exact htv1), Rq,
                by rw [hev1.srcs, hev1.maps, hval1]; exact hRq⟩

end IsoVerif.Pico
