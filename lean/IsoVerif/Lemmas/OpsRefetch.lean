import IsoVerif.Model.Core.Refetch

/-! Lemmas about the compiler's refetch-query bookkeeping (`IsoVerif.Ops.Book`):
the repaired compiler (`usedRefetchQueries`, `selectedKey`) always selects the transformed key's
query; the compiler before the repair (`usedRefetchQueriesOld`, `selectedKeyOld`) did so only when
the argument substitution kept the order of the child's distinct keys, and otherwise could select
another key's query or none (witnesses). -/

namespace IsoVerif.Ops.Book

/-! ### membership -/

theorem mem_insertKey {a x : Nat} : ∀ {l : List Nat}, a ∈ insertKey x l ↔ a = x ∨ a ∈ l
  | [] => by simp [insertKey]
  | y :: rest => by
    unfold insertKey
    by_cases h : x ≤ y
    · simp [h]
    · simp only [h, if_false, List.mem_cons, mem_insertKey (l := rest)]
      constructor
      · rintro (h1 | h1 | h1)
        · exact Or.inr (Or.inl h1)
        · exact Or.inl h1
        · exact Or.inr (Or.inr h1)
      · rintro (h1 | h1 | h1)
        · exact Or.inr (Or.inl h1)
        · exact Or.inl h1
        · exact Or.inr (Or.inr h1)

theorem mem_sortKeys {a : Nat} : ∀ {l : List Nat}, a ∈ sortKeys l ↔ a ∈ l
  | [] => by simp [sortKeys]
  | x :: rest => by
    simp only [sortKeys, mem_insertKey, List.mem_cons, mem_sortKeys (l := rest)]

/-! ### `indexOf?` -/

theorem getElem?_of_indexOf? {x : Nat} :
    ∀ {l : List Nat} {i : Nat}, indexOf? x l = some i → l[i]? = some x
  | [], i, h => by simp [indexOf?] at h
  | y :: rest, i, h => by
    unfold indexOf? at h
    by_cases hxy : x = y
    · subst hxy
      simp at h
      subst h
      simp
    · have hb : (x == y) = false := by simpa using hxy
      simp only [hb, Bool.false_eq_true, if_false, Option.map_eq_some_iff] at h
      obtain ⟨k, hk, rfl⟩ := h
      simpa using getElem?_of_indexOf? hk

theorem indexOf?_of_mem {x : Nat} : ∀ {l : List Nat}, x ∈ l → ∃ i, indexOf? x l = some i
  | [], h => by simp at h
  | y :: rest, h => by
    unfold indexOf?
    by_cases hxy : x = y
    · subst hxy
      exact ⟨0, by simp⟩
    · have hb : (x == y) = false := by simpa using hxy
      have hr : x ∈ rest := by
        rcases List.mem_cons.mp h with h1 | h1
        · exact absurd h1 hxy
        · exact h1
      obtain ⟨k, hk⟩ := indexOf?_of_mem hr
      exact ⟨k + 1, by simp [hb, hk]⟩

/-! ### sorting commutes with an order-preserving map -/

theorem insertKey_map (f : Nat → Nat) (x : Nat) :
    ∀ (l : List Nat), (∀ y ∈ l, (x ≤ y ↔ f x ≤ f y)) →
      insertKey (f x) (l.map f) = (insertKey x l).map f
  | [], _ => by simp [insertKey]
  | y :: rest, h => by
    have hy : (x ≤ y ↔ f x ≤ f y) := h y (List.mem_cons_self ..)
    have hrest : ∀ z ∈ rest, (x ≤ z ↔ f x ≤ f z) := fun z hz => h z (List.mem_cons_of_mem _ hz)
    have ih := insertKey_map f x rest hrest
    by_cases hxy : x ≤ y
    · have hf : f x ≤ f y := hy.mp hxy
      simp [insertKey, hxy, hf]
    · have hf : ¬ f x ≤ f y := fun c => hxy (hy.mpr c)
      simp [insertKey, hxy, hf, ih]

theorem le_iff_of_orderPreserving {f : Nat → Nat} {P : List Nat} (h : OrderPreserving f P)
    {a b : Nat} (ha : a ∈ P) (hb : b ∈ P) : a ≤ b ↔ f a ≤ f b := by
  constructor
  · intro hab
    rcases Nat.lt_or_eq_of_le hab with hlt | heq
    · exact Nat.le_of_lt (h a ha b hb hlt)
    · subst heq
      exact Nat.le_refl _
  · intro hfab
    apply Nat.le_of_not_lt
    intro hlt
    exact absurd (h b hb a ha hlt) (Nat.not_lt.mpr hfab)

theorem sortKeys_map_of_orderPreserving (f : Nat → Nat) (P : List Nat)
    (h : OrderPreserving f P) : sortKeys (P.map f) = (sortKeys P).map f := by
  induction P with
  | nil => simp [sortKeys]
  | cons x rest ih =>
    have hrest : OrderPreserving f rest := fun a ha b hb hab =>
      h a (List.mem_cons_of_mem _ ha) b (List.mem_cons_of_mem _ hb) hab
    simp only [List.map_cons, sortKeys, ih hrest]
    apply insertKey_map
    intro y hy
    exact le_iff_of_orderPreserving h (List.mem_cons_self ..)
      (List.mem_cons_of_mem _ (mem_sortKeys.mp hy))

example : OrderPreserving (fun k => 2 * k + 1) [3, 0, 3, 7] := by
  intro a ha b hb hab
  simp only
  omega

example : sortKeys ([3, 0, 3, 7].map fun k => 2 * k + 1) = (sortKeys [3, 0, 3, 7]).map fun k => 2 * k + 1 := by
  decide

/-! ### duplicate freeness -/

theorem nodup_insertKey {x : Nat} :
    ∀ {l : List Nat}, x ∉ l → l.Nodup → (insertKey x l).Nodup
  | [], _, _ => by simp [insertKey]
  | y :: rest, hx, hl => by
    have hxy : x ≠ y := fun c => hx (c ▸ List.mem_cons_self ..)
    have hxr : x ∉ rest := fun c => hx (List.mem_cons_of_mem _ c)
    have hyr : y ∉ rest := (List.nodup_cons.mp hl).1
    have hr : rest.Nodup := (List.nodup_cons.mp hl).2
    unfold insertKey
    by_cases h : x ≤ y
    · simp only [h, if_true]
      exact List.nodup_cons.mpr ⟨hx, hl⟩
    · simp only [h, if_false]
      refine List.nodup_cons.mpr ⟨?_, nodup_insertKey hxr hr⟩
      intro c
      rcases mem_insertKey.mp c with c | c
      · exact hxy c.symm
      · exact hyr c

theorem nodup_sortKeys : ∀ {l : List Nat}, l.Nodup → (sortKeys l).Nodup
  | [], _ => by simp [sortKeys]
  | x :: rest, h => by
    have hx : x ∉ rest := (List.nodup_cons.mp h).1
    have hr : rest.Nodup := (List.nodup_cons.mp h).2
    exact nodup_insertKey (fun c => hx (mem_sortKeys.mp c)) (nodup_sortKeys hr)

theorem nodup_map_of_injOn (f : Nat → Nat) :
    ∀ {l : List Nat}, l.Nodup → (∀ a ∈ l, ∀ b ∈ l, f a = f b → a = b) → (l.map f).Nodup
  | [], _, _ => by simp
  | x :: rest, h, hinj => by
    have hx : x ∉ rest := (List.nodup_cons.mp h).1
    have hr : rest.Nodup := (List.nodup_cons.mp h).2
    rw [List.map_cons]
    refine List.nodup_cons.mpr ⟨?_, nodup_map_of_injOn f hr ?_⟩
    · intro c
      obtain ⟨z, hz, hfz⟩ := List.mem_map.mp c
      have : z = x := hinj z (List.mem_cons_of_mem _ hz) x (List.mem_cons_self ..) hfz
      exact hx (this ▸ hz)
    · intro a ha b hb hab
      exact hinj a (List.mem_cons_of_mem _ ha) b (List.mem_cons_of_mem _ hb) hab

theorem injOn_of_orderPreserving {f : Nat → Nat} {P : List Nat} (h : OrderPreserving f P) :
    ∀ a ∈ P, ∀ b ∈ P, f a = f b → a = b := by
  intro a ha b hb hab
  rcases Nat.lt_trichotomy a b with hlt | heq | hgt
  · exact absurd hab (Nat.ne_of_lt (h a ha b hb hlt))
  · exact heq
  · exact absurd hab.symm (Nat.ne_of_lt (h b hb a ha hgt))

theorem dedupAdjacent_of_nodup : ∀ {l : List Nat}, l.Nodup → dedupAdjacent l = l
  | [], _ => rfl
  | [_], _ => rfl
  | x :: y :: rest, h => by
    have hxy : x ≠ y := fun c => (List.nodup_cons.mp h).1 (c ▸ List.mem_cons_self ..)
    have hb : (x == y) = false := by simpa using hxy
    have ih := dedupAdjacent_of_nodup (List.nodup_cons.mp h).2
    simp only [dedupAdjacent, hb, Bool.false_eq_true, if_false, ih]

/-- with distinct child keys and a strictly order-preserving substitution, collecting the
transformed keys in a set loses nothing -/
theorem dedupAdjacent_sortKeys_map (f : Nat → Nat) (P : List Nat)
    (hop : OrderPreserving f P) (hnd : P.Nodup) :
    dedupAdjacent (sortKeys (P.map f)) = (sortKeys P).map f := by
  rw [dedupAdjacent_of_nodup
    (nodup_sortKeys (nodup_map_of_injOn f hnd (injOn_of_orderPreserving hop)))]
  exact sortKeys_map_of_orderPreserving f P hop

/-! ### the runtime's composition, repaired compiler (F18)

The parent lists the child's paths in the CHILD'S order and transforms afterwards: no hypothesis on
the substitution is needed. -/

theorem selectedKey_correct (parentPaths : List Nat) (f : Nat → Nat)
    (childPaths : List Nat) (σ : Nat) (hσ : σ ∈ childPaths)
    (hsub : ∀ k ∈ childPaths, f k ∈ parentPaths) :
    selectedKey parentPaths f childPaths σ = some (f σ) := by
  obtain ⟨i, hi⟩ := indexOf?_of_mem (mem_sortKeys.mpr hσ)
  have hgi : (sortKeys childPaths)[i]? = some σ := getElem?_of_indexOf? hi
  obtain ⟨j, hj⟩ := indexOf?_of_mem (mem_sortKeys.mpr (hsub σ hσ))
  have hgj : (sortKeys parentPaths)[j]? = some (f σ) := getElem?_of_indexOf? hj
  have hused : (usedRefetchQueries parentPaths f childPaths)[i]? = some (some j) := by
    unfold usedRefetchQueries
    simp [List.getElem?_map, hgi, hj]
  unfold selectedKey childIndex
  simp only [hi, hused, hgj]

/-- the hypotheses are satisfiable on a non-trivial input: the substitution reverses the order of
two keys and merges two others, the child's list has a repeated key -/
example : ∀ k ∈ ([2, 0, 3, 1, 2] : List Nat), (fun k => 7 - k / 2 * 2) k ∈ ([9, 7, 5, 6, 3] : List Nat) := by
  decide

example : selectedKey [9, 7, 5, 6, 3] (fun k => 7 - k / 2 * 2) [2, 0, 3, 1, 2] 3
    = some ((fun k => 7 - k / 2 * 2) 3) := by
  decide

/-! ### the runtime's composition, before the repair

The child's paths were transformed first, collected in a set and sorted: correct only when the
substitution keeps the (strict) order of the child's distinct keys. -/

theorem selectedKeyOld_of_orderPreserving (parentPaths : List Nat) (f : Nat → Nat)
    (childPaths : List Nat) (σ : Nat) (hσ : σ ∈ childPaths)
    (hop : OrderPreserving f childPaths) (hnd : childPaths.Nodup)
    (hsub : ∀ k ∈ childPaths, f k ∈ parentPaths) :
    selectedKeyOld parentPaths f childPaths σ = some (f σ) := by
  obtain ⟨i, hi⟩ := indexOf?_of_mem (mem_sortKeys.mpr hσ)
  have hgi : (sortKeys childPaths)[i]? = some σ := getElem?_of_indexOf? hi
  obtain ⟨j, hj⟩ := indexOf?_of_mem (mem_sortKeys.mpr (hsub σ hσ))
  have hgj : (sortKeys parentPaths)[j]? = some (f σ) := getElem?_of_indexOf? hj
  have hused : (usedRefetchQueriesOld parentPaths f childPaths)[i]? = some (some j) := by
    unfold usedRefetchQueriesOld
    rw [dedupAdjacent_sortKeys_map f childPaths hop hnd]
    simp [List.getElem?_map, hgi, hj]
  unfold selectedKeyOld childIndex
  simp only [hi, hused, hgj]

/-- the hypotheses are satisfiable on a non-trivial input -/
example : OrderPreserving (fun k => k + 5) [0, 1, 2] := by
  intro a _ b _ hab
  simp only
  omega

example : ([0, 1, 2] : List Nat).Nodup := by decide

example : ∀ k ∈ ([0, 1, 2] : List Nat), (fun k => k + 5) k ∈ ([9, 7, 5, 6, 3] : List Nat) := by decide

/-- the conclusion on concrete numbers: the child's key `1` ends up with the parent's key `6` -/
example : selectedKeyOld [9, 7, 5, 6, 3] (fun k => k + 5) [0, 1, 2] 1 = some ((fun k => k + 5) 1) := by
  decide

/-- under the hypotheses of the old theorem, old and repaired compilers agree -/
theorem selectedKeyOld_eq_selectedKey_of_orderPreserving (parentPaths : List Nat) (f : Nat → Nat)
    (childPaths : List Nat) (σ : Nat) (hσ : σ ∈ childPaths)
    (hop : OrderPreserving f childPaths) (hnd : childPaths.Nodup)
    (hsub : ∀ k ∈ childPaths, f k ∈ parentPaths) :
    selectedKeyOld parentPaths f childPaths σ = selectedKey parentPaths f childPaths σ := by
  rw [selectedKeyOld_of_orderPreserving parentPaths f childPaths σ hσ hop hnd hsub,
    selectedKey_correct parentPaths f childPaths σ hσ hsub]

/-! ### witness: an order-reversing transformation selected the other key's query -/

theorem selectedKeyOld_witness_reorder :
    selectedKeyOld [0, 1] (fun k => 1 - k) [0, 1] 0 = some 0 := by
  decide

theorem witnessOld_not_expected :
    selectedKeyOld [0, 1] (fun k => 1 - k) [0, 1] 0 ≠ some ((fun k => 1 - k) 0) := by
  decide

/-- the witness violates exactly the order hypothesis -/
theorem witness_not_orderPreserving : ¬ OrderPreserving (fun k => 1 - k) [0, 1] := by
  intro h
  have := h 0 (by simp) 1 (by simp) (by decide)
  simp at this

/-- the repaired compiler on the same input -/
theorem selectedKey_repaired_reorder : selectedKey [0, 1] (fun k => 1 - k) [0, 1] 0 = some 1 := by
  decide

/-! ### witness: keys that MERGE under the substitution

The child has two keys, both become `5`; the parent handed down ONE index; the child's index `1` was
out of range. -/

theorem selectedKeyOld_witness_merge : selectedKeyOld [5] (fun _ => 5) [0, 1] 1 = none := by
  decide

theorem witness_merge_not_orderPreserving : ¬ OrderPreserving (fun _ => 5) [0, 1] := by
  intro h
  have := h 0 (by simp) 1 (by simp) (by decide)
  simp at this

/-- the repaired compiler on the same input -/
theorem selectedKey_repaired_merge : selectedKey [5] (fun _ => 5) [0, 1] 1 = some 5 := by
  decide

/-- `Nodup` was genuinely needed before the repair: a (weakly) order-preserving substitution on a
child list with a repeated key shifted the indices after the set collection -/
example : OrderPreserving (fun k => k) [0, 0, 1] ∧
    selectedKeyOld [0, 1] (fun k => k) [0, 0, 1] 1 ≠ some 1 := by
  refine ⟨fun a _ b _ hab => hab, by decide⟩

end IsoVerif.Ops.Book
