import IsoVerif.Model.Core.Refetch

/-! Lemmas about the compiler's refetch-query bookkeeping (`IsoVerif.Ops.Book`):
when the argument substitution keeps the order of the child's keys, the runtime's composition of
the child's index and the parent's `usedRefetchQueries` selects the transformed key's query;
when it does not, the composition can select another key's query (witness). -/

namespace IsoVerif.Ops.Book

/-! ### membership -/

theorem mem_insertKey {a x : Nat} : ∀ {l : List Nat}, a ∈ insertKey x l ↔ a = x ∨ a ∈ l
  | [] => by simp [insertKey]
  | y :: rest => by
    unfold insertKey
    by_cases h : x ≤ y
    · simp [h]
    · simp only [h, if_false, List.mem_cons, mem_insertKey (l := rest)]
      constructor
      · rintro (h1 | h1 | h1)
        · exact Or.inr (Or.inl h1)
        · exact Or.inl h1
        · exact Or.inr (Or.inr h1)
      · rintro (h1 | h1 | h1)
        · exact Or.inr (Or.inl h1)
        · exact Or.inl h1
        · exact Or.inr (Or.inr h1)

theorem mem_sortKeys {a : Nat} : ∀ {l : List Nat}, a ∈ sortKeys l ↔ a ∈ l
  | [] => by simp [sortKeys]
  | x :: rest => by
    simp only [sortKeys, mem_insertKey, List.mem_cons, mem_sortKeys (l := rest)]

/-! ### `indexOf?` -/

theorem getElem?_of_indexOf? {x : Nat} :
    ∀ {l : List Nat} {i : Nat}, indexOf? x l = some i → l[i]? = some x
  | [], i, h => by simp [indexOf?] at h
  | y :: rest, i, h => by
    unfold indexOf? at h
    by_cases hxy : x = y
    · subst hxy
      simp at h
      subst h
      simp
    · have hb : (x == y) = false := by simpa using hxy
      simp only [hb, Bool.false_eq_true, if_false, Option.map_eq_some_iff] at h
      obtain ⟨k, hk, rfl⟩ := h
      simpa using getElem?_of_indexOf? hk

theorem indexOf?_of_mem {x : Nat} : ∀ {l : List Nat}, x ∈ l → ∃ i, indexOf? x l = some i
  | [], h => by simp at h
  | y :: rest, h => by
    unfold indexOf?
    by_cases hxy : x = y
    · subst hxy
      exact ⟨0, by simp⟩
    · have hb : (x == y) = false := by simpa using hxy
      have hr : x ∈ rest := by
        rcases List.mem_cons.mp h with h1 | h1
        · exact absurd h1 hxy
        · exact h1
      obtain ⟨k, hk⟩ := indexOf?_of_mem hr
      exact ⟨k + 1, by simp [hb, hk]⟩

/-! ### sorting commutes with an order-preserving map -/

theorem insertKey_map (f : Nat → Nat) (x : Nat) :
    ∀ (l : List Nat), (∀ y ∈ l, (x ≤ y ↔ f x ≤ f y)) →
      insertKey (f x) (l.map f) = (insertKey x l).map f
  | [], _ => by simp [insertKey]
  | y :: rest, h => by
    have hy : (x ≤ y ↔ f x ≤ f y) := h y (List.mem_cons_self ..)
    have hrest : ∀ z ∈ rest, (x ≤ z ↔ f x ≤ f z) := fun z hz => h z (List.mem_cons_of_mem _ hz)
    have ih := insertKey_map f x rest hrest
    by_cases hxy : x ≤ y
    · have hf : f x ≤ f y := hy.mp hxy
      simp [insertKey, hxy, hf]
    · have hf : ¬ f x ≤ f y := fun c => hxy (hy.mpr c)
      simp [insertKey, hxy, hf, ih]

theorem le_iff_of_orderPreserving {f : Nat → Nat} {P : List Nat} (h : OrderPreserving f P)
    {a b : Nat} (ha : a ∈ P) (hb : b ∈ P) : a ≤ b ↔ f a ≤ f b := by
  constructor
  · intro hab
    rcases Nat.lt_or_eq_of_le hab with hlt | heq
    · exact Nat.le_of_lt (h a ha b hb hlt)
    · subst heq
      exact Nat.le_refl _
  · intro hfab
    apply Nat.le_of_not_lt
    intro hlt
    exact absurd (h b hb a ha hlt) (Nat.not_lt.mpr hfab)

theorem sortKeys_map_of_orderPreserving (f : Nat → Nat) (P : List Nat)
    (h : OrderPreserving f P) : sortKeys (P.map f) = (sortKeys P).map f := by
  induction P with
  | nil => simp [sortKeys]
  | cons x rest ih =>
    have hrest : OrderPreserving f rest := fun a ha b hb hab =>
      h a (List.mem_cons_of_mem _ ha) b (List.mem_cons_of_mem _ hb) hab
    simp only [List.map_cons, sortKeys, ih hrest]
    apply insertKey_map
    intro y hy
    exact le_iff_of_orderPreserving h (List.mem_cons_self ..)
      (List.mem_cons_of_mem _ (mem_sortKeys.mp hy))

example : OrderPreserving (fun k => 2 * k + 1) [3, 0, 3, 7] := by
  intro a ha b hb hab
  simp only
  omega

example : sortKeys ([3, 0, 3, 7].map fun k => 2 * k + 1) = (sortKeys [3, 0, 3, 7]).map fun k => 2 * k + 1 := by
  decide

/-! ### the runtime's composition -/

/-- `Nodup` is not needed: `indexOf?` returns the FIRST position, and any position of `σ` in the
child's sorted list is a position of `f σ` in the sorted transformed list. -/
theorem selectedKey_of_orderPreserving' (parentPaths : List Nat) (f : Nat → Nat)
    (childPaths : List Nat) (σ : Nat) (hσ : σ ∈ childPaths)
    (hop : OrderPreserving f childPaths)
    (hsub : ∀ k ∈ childPaths, f k ∈ parentPaths) :
    selectedKey parentPaths f childPaths σ = some (f σ) := by
  obtain ⟨i, hi⟩ := indexOf?_of_mem (mem_sortKeys.mpr hσ)
  have hgi : (sortKeys childPaths)[i]? = some σ := getElem?_of_indexOf? hi
  obtain ⟨j, hj⟩ := indexOf?_of_mem (mem_sortKeys.mpr (hsub σ hσ))
  have hgj : (sortKeys parentPaths)[j]? = some (f σ) := getElem?_of_indexOf? hj
  have hused : (usedRefetchQueries parentPaths f childPaths)[i]? = some (some j) := by
    unfold usedRefetchQueries
    rw [sortKeys_map_of_orderPreserving f childPaths hop]
    simp [List.getElem?_map, hgi, hj]
  unfold selectedKey childIndex
  simp only [hi, hused, hgj]

theorem selectedKey_of_orderPreserving (parentPaths : List Nat) (f : Nat → Nat)
    (childPaths : List Nat) (σ : Nat) (hσ : σ ∈ childPaths)
    (hop : OrderPreserving f childPaths) (hnd : childPaths.Nodup)
    (hsub : ∀ k ∈ childPaths, f k ∈ parentPaths) :
    selectedKey parentPaths f childPaths σ = some (f σ) :=
  have _ := hnd
  selectedKey_of_orderPreserving' parentPaths f childPaths σ hσ hop hsub

/-- the hypotheses are satisfiable on a non-trivial input -/
example : OrderPreserving (fun k => k + 5) [0, 1, 2] := by
  intro a _ b _ hab
  simp only
  omega

example : ([0, 1, 2] : List Nat).Nodup := by decide

example : ∀ k ∈ ([0, 1, 2] : List Nat), (fun k => k + 5) k ∈ ([9, 7, 5, 6, 3] : List Nat) := by decide

/-- the conclusion on concrete numbers: the child's key `1` ends up with the parent's key `6` -/
example : selectedKey [9, 7, 5, 6, 3] (fun k => k + 5) [0, 1, 2] 1 = some ((fun k => k + 5) 1) := by
  decide

/-! ### witness: an order-reversing transformation selects the other key's query -/

theorem selectedKey_witness_reorder : selectedKey [0, 1] (fun k => 1 - k) [0, 1] 0 = some 0 := by
  decide

theorem witness_not_expected :
    selectedKey [0, 1] (fun k => 1 - k) [0, 1] 0 ≠ some ((fun k => 1 - k) 0) := by
  decide

/-- the witness violates exactly the order hypothesis -/
theorem witness_not_orderPreserving : ¬ OrderPreserving (fun k => 1 - k) [0, 1] := by
  intro h
  have := h 0 (by simp) 1 (by simp) (by decide)
  simp at this

end IsoVerif.Ops.Book
