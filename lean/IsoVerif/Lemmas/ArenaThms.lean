/-
Consequences of the arena invariant: length at quiescence, `Drop`.
-/
import IsoVerif.Lemmas.ArenaInv

namespace IsoVerif.ArenaT
open IsoVerif.Arena IsoVerif.Gen.ArenaConsts

variable {s : St}

/-! ### Length at quiescence -/

theorem quiescent_resv (hq : Quiescent s) (t : Tid) : resv (s.thr t) = none := by
  rw [hq t]; rfl

/-- At quiescence the returned references are exactly the indices `base … next-1`, each once. -/
theorem refs_perm (h : Inv s) (hq : Quiescent s) :
    (addRefs s.hist).Perm (List.range' s.base (s.next - s.base)) := by
  rw [List.perm_ext_iff_of_nodup h.hist_nodup (List.nodup_range' (step := 1))]
  intro r
  rw [List.mem_range'_1]
  constructor
  · intro hr
    have := h.hist_range r hr
    omega
  · rintro ⟨h1, h2⟩
    rcases h.cover r h1 (by have := h.base_le; omega) with hr | ⟨t, ht⟩
    · exact hr
    · rw [quiescent_resv hq t] at ht; cases ht

theorem len_final (h : Inv s) (hq : Quiescent s) :
    len s = (s.base - minSize) + (addRefs s.hist).length := by
  have hp := (refs_perm h hq).length_eq
  rw [List.length_range'] at hp
  unfold len
  rw [h.next_mod, hp]
  have := h.base_ge; have := h.base_le
  omega

/-! ### Every handed-out slot is initialised at quiescence -/

/-- the element stored under biased index `i` (0 when the bucket or the slot is missing) -/
def valAt (s : St) (i : Nat) : Elem :=
  match s.bucket (idxA i) with
  | some p => (s.mem p (idxB i)).getD 0
  | none => 0

theorem slot_init (h : Inv s) (hq : Quiescent s) (i : Nat) (h1 : minSize ≤ i) (h2 : i < s.next) :
    ∃ p v, s.bucket (idxA i) = some p ∧ s.mem p (idxB i) = some v := by
  by_cases hb : i < s.base
  · exact h.slots0 i h1 hb
  · rcases h.cover i (by omega) h2 with hr | ⟨t, ht⟩
    · obtain ⟨t, v, hm⟩ := mem_addRefs.1 hr
      obtain ⟨p, hp, hv⟩ := h.slots t v i hm
      exact ⟨p, v, hp, hv⟩
    · rw [quiescent_resv hq t] at ht; cases ht

theorem valAt_of_addRet (h : Inv s) {t : Tid} {v : Elem} {r : Nat} (hm : Ev.addRet t v r ∈ s.hist) :
    valAt s r = v := by
  obtain ⟨p, hp, hv⟩ := h.slots t v r hm
  simp [valAt, hp, hv]

/-! ### Index arithmetic needed by `Drop` -/

theorem log2_eq_of_bounds {i k : Nat} (h1 : 2 ^ k ≤ i) (h2 : i < 2 ^ (k + 1)) : Nat.log2 i = k := by
  have h0 : i ≠ 0 := by have := Nat.two_pow_pos k; omega
  have ha : k ≤ Nat.log2 i := (Nat.le_log2 h0).2 h1
  have hb : Nat.log2 i < k + 1 := (Nat.log2_lt h0).2 h2
  omega

/-- Offsets inside bucket `a` map back to `(a, b)`. -/
theorem idx_base_add {a b : Nat} (ha : a ≤ 31) (hb : b < bucketCapacity a) :
    idxA (bucketBase a + b) = a ∧ idxB (bucketBase a + b) = b := by
  unfold bucketBase
  rw [bucketCapacity_eq a ha] at hb ⊢
  have hp := Nat.two_pow_pos (31 - a)
  have hlog : Nat.log2 (2 ^ (31 - a) + b) = 31 - a :=
    log2_eq_of_bounds (by omega) (by rw [Nat.pow_succ]; omega)
  have h0 : 2 ^ (31 - a) + b ≠ 0 := by omega
  have hw : 2 ^ (31 - a) + b < 2 ^ 32 := by
    have h1 : 2 ^ (31 - a + 1) ≤ 2 ^ 32 := Nat.pow_le_pow_right (by decide) (by omega)
    rw [Nat.pow_succ] at h1; omega
  rw [idxA_eq _ h0, idxB_eq _ h0 hw, hlog]
  omega

theorem bucketBase_pred {a : Nat} (h0 : 0 < a) (ha : a ≤ 31) :
    bucketBase (a - 1) = bucketBase a + bucketCapacity a := by
  unfold bucketBase
  have := bucketCapacity_double (a - 1) (by omega)
  have e : a - 1 + 1 = a := by omega
  rw [e] at this; omega

/-! ### `readSlots` and `dropLoop` -/

/-- values of the biased indices `lo, lo+1, …, lo+n-1` -/
def vals (s : St) (lo : Nat) : Nat → List Elem
  | 0 => []
  | n + 1 => vals s lo n ++ [valAt s (lo + n)]

theorem vals_length (s : St) (lo n : Nat) : (vals s lo n).length = n := by
  induction n with
  | zero => rfl
  | succ n ih => simp [vals, ih]

theorem vals_append (s : St) (lo n m : Nat) : vals s lo (n + m) = vals s lo n ++ vals s (lo + n) m := by
  induction m with
  | zero => simp [vals]
  | succ m ih =>
    rw [← Nat.add_assoc, vals, ih, vals, List.append_assoc, Nat.add_assoc]

theorem vals_getElem? (s : St) (lo n k : Nat) (hk : k < n) : (vals s lo n)[k]? = some (valAt s (lo + k)) := by
  induction n with
  | zero => omega
  | succ n ih =>
    rw [vals]
    by_cases hkn : k < n
    · rw [List.getElem?_append_left (by rw [vals_length]; exact hkn)]; exact ih hkn
    · have : k = n := by omega
      subst this
      rw [List.getElem?_append_right (by rw [vals_length]; exact Nat.le_refl _), vals_length]
      simp

theorem readSlots_vals (s : St) (a : Nat) (p : AllocId) (sz : Nat) (ha : a ≤ 31)
    (hp : s.bucket a = some p) (hsz : sz ≤ bucketCapacity a)
    (hinit : ∀ b, b < sz → ∃ v, s.mem p b = some v) :
    readSlots s.mem p sz = some (vals s (bucketBase a) sz) := by
  induction sz with
  | zero => rfl
  | succ n ih =>
    have ih' := ih (by omega) (fun b hb => hinit b (by omega))
    obtain ⟨v, hv⟩ := hinit n (by omega)
    obtain ⟨hA, hB⟩ := idx_base_add (a := a) (b := n) ha (by omega)
    simp only [readSlots, ih', hv, vals, valAt, hA, hB, hp, Option.getD_some]

/-- pointers of the buckets `a, a-1, …` (`todo` of them) -/
def ptrs (s : St) : Nat → Nat → List AllocId
  | 0, _ => []
  | todo + 1, a => (match s.bucket a with | some p => [p] | none => []) ++ ptrs s todo (a - 1)

theorem dropLoop_spec (s : St) (l lastA lastB : Nat) (hl : l = bucketBase lastA + lastB + 1)
    (hlb : lastB < bucketCapacity lastA)
    (hinit : ∀ i, minSize ≤ i → i < l → ∃ p v, s.bucket (idxA i) = some p ∧ s.mem p (idxB i) = some v)
    (todo a : Nat) (acc : List Elem) (freed : List AllocId)
    (ha : a ≤ 31) (hla : lastA + todo = a + 1) (ht : 0 < todo) (ha2 : a < numSizes) :
    dropLoop s lastA lastB todo a acc freed =
      .ok (acc ++ vals s (bucketBase a) (l - bucketBase a)) (freed ++ ptrs s todo a) := by
  induction todo generalizing a acc freed with
  | zero => omega
  | succ n ih =>
    have hns : numSizes ≤ 32 := by decide
    have hmin : minSize ≤ bucketBase a := by
      unfold bucketBase
      rw [bucketCapacity_eq a ha, minSize_eq]
      apply Nat.pow_le_pow_right (by decide)
      have := numSizes_eq; omega
    by_cases hlast : a = lastA
    · -- last bucket: `lastB + 1` slots
      subst hlast
      have hn : n = 0 := by omega
      subst hn
      have hbk : ∃ p, s.bucket a = some p := by
        obtain ⟨p, v, hp, _⟩ := hinit (bucketBase a) hmin (by omega)
        have := (idx_base_add (a := a) (b := 0) ha (by omega)).1
        rw [Nat.add_zero] at this; rw [this] at hp; exact ⟨p, hp⟩
      obtain ⟨p, hp⟩ := hbk
      have hrs : readSlots s.mem p (lastB + 1) = some (vals s (bucketBase a) (lastB + 1)) := by
        apply readSlots_vals s a p (lastB + 1) ha hp (by omega)
        intro b hb
        obtain ⟨hA, hB⟩ := idx_base_add (a := a) (b := b) ha (by omega)
        obtain ⟨p', v, hp', hv⟩ := hinit (bucketBase a + b) (by omega) (by omega)
        rw [hA, hp] at hp'; cases hp'
        rw [hB] at hv; exact ⟨v, hv⟩
      have e : l - bucketBase a = lastB + 1 := by omega
      simp only [dropLoop, hp, if_true, hrs, e, ptrs, List.append_nil]
    · -- a full bucket, then the buckets before it
      have hgt : lastA < a := by omega
      have hbase := bucketBase_pred (a := a) (by omega) ha
      have hle : bucketBase a + bucketCapacity a ≤ l := by
        -- base (a-1) ≤ base lastA
        have hmono : bucketBase (a - 1) ≤ bucketBase lastA := by
          unfold bucketBase
          rw [bucketCapacity_eq _ (by omega), bucketCapacity_eq _ (by omega)]
          exact Nat.pow_le_pow_right (by decide) (by omega)
        omega
      have hbk : ∃ p, s.bucket a = some p := by
        obtain ⟨p, v, hp, _⟩ := hinit (bucketBase a) hmin (by
          have : 0 < bucketCapacity a := by rw [bucketCapacity_eq a ha]; exact Nat.two_pow_pos _
          omega)
        have h0 : 0 < bucketCapacity a := by rw [bucketCapacity_eq a ha]; exact Nat.two_pow_pos _
        have := (idx_base_add (a := a) (b := 0) ha h0).1
        rw [Nat.add_zero] at this; rw [this] at hp; exact ⟨p, hp⟩
      obtain ⟨p, hp⟩ := hbk
      have hrs : readSlots s.mem p (bucketCapacity a) = some (vals s (bucketBase a) (bucketCapacity a)) := by
        apply readSlots_vals s a p _ ha hp (Nat.le_refl _)
        intro b hb
        obtain ⟨hA, hB⟩ := idx_base_add (a := a) (b := b) ha hb
        obtain ⟨p', v, hp', hv⟩ := hinit (bucketBase a + b) (by omega) (by omega)
        rw [hA, hp] at hp'; cases hp'
        rw [hB] at hv; exact ⟨v, hv⟩
      have ih' := ih (a - 1) (acc ++ vals s (bucketBase a) (bucketCapacity a)) (freed ++ [p])
        (by omega) (by omega) (by omega) (by omega)
      simp only [dropLoop, hp, hlast, if_false, hrs, ih', ptrs]
      have e : l - bucketBase a = bucketCapacity a + (l - bucketBase (a - 1)) := by omega
      rw [e, vals_append, hbase]
      simp [List.append_assoc]

/-- **Drop at quiescence**: no panic, no uninitialised slot; the dropped elements are exactly
the slots `minSize … next-1` in index order. -/
theorem drop_spec (h : Inv s) (hq : Quiescent s) :
    ∃ freed, dropArena s = .ok (vals s minSize (s.next - minSize)) freed := by
  unfold dropArena
  simp only [h.next_mod]
  by_cases he : s.next = minSize
  · simp [he, vals]
  · simp only [he, if_false]
    have hmin := h.min_le
    have hgt : minSize < s.next := by omega
    have hw := h.noWrap
    obtain ⟨a, b, hidx, ha, hb, hrec⟩ := index_spec (s.next - 1) (by omega) (by unfold W at hw; omega)
    have h0 : s.next - 1 ≠ 0 := by
      have : 0 < minSize := by decide
      omega
    rw [index_eq_idx (s.next - 1) h0 (by unfold W at hw; omega)] at hidx
    simp only [Option.some.injEq, Prod.mk.injEq] at hidx
    obtain ⟨hA, hB⟩ := hidx
    rw [hA, hB]
    have hns : numSizes ≤ 32 := by decide
    have hn0 : 0 < numSizes := by decide
    have hspec := dropLoop_spec s s.next a b (by omega) hb
      (fun i h1 h2 => slot_init h hq i h1 h2)
      (numSizes - a) (numSizes - 1) [] [] (by omega) (by omega) (by omega) (by omega)
    rw [hspec]
    have hb1 : bucketBase (numSizes - 1) = minSize := bucketCapacity_last
    rw [hb1]
    exact ⟨ptrs s (numSizes - a) (numSizes - 1), by simp⟩


theorem drop_exactly_once (h : Inv s) (hq : Quiescent s) :
    ∃ dropped freed, dropArena s = .ok dropped freed ∧ dropped.length = len s ∧
      ∀ t v r, Ev.addRet t v r ∈ s.hist → dropped[r - minSize]? = some v := by
  obtain ⟨freed, hd⟩ := drop_spec h hq
  refine ⟨_, freed, hd, ?_, ?_⟩
  · rw [vals_length]; unfold len; rw [h.next_mod]
  · intro t v r hm
    have hr := h.hist_range r (mem_addRefs.2 ⟨t, v, hm⟩)
    have hb := h.base_ge
    rw [vals_getElem? s minSize _ (r - minSize) (by omega)]
    have e : minSize + (r - minSize) = r := by omega
    rw [e, valAt_of_addRet h hm]

/-! ### Small facts used by the statements -/

theorem completed_spec {h : List Ev} (hn : (addRefs h).Nodup) {t : Tid} {v : Elem} {r : Nat}
    (hm : Ev.addRet t v r ∈ h) : completed h r = some v := by
  induction h with
  | nil => cases hm
  | cons e rest ih =>
    cases e with
    | addRet t' v' r' =>
      simp only [addRefs, List.nodup_cons] at hn
      simp only [completed]
      rcases List.mem_cons.1 hm with he | hm'
      · cases he; simp
      · have hr : r ∈ addRefs rest := mem_addRefs.2 ⟨t, v, hm'⟩
        have : r' ≠ r := fun e => hn.1 (e ▸ hr)
        simp only [this, if_false]
        exact ih hn.2 hm'
    | getRet _ _ _ _ =>
      rcases List.mem_cons.1 hm with he | hm'
      · cases he
      · simpa [completed] using ih (by simpa [addRefs] using hn) hm'
    | lenRet _ _ =>
      rcases List.mem_cons.1 hm with he | hm'
      · cases he
      · simpa [completed] using ih (by simpa [addRefs] using hn) hm'

theorem startGet_expect {s' : St} (h : Inv s) {t' t : Tid} {v : Elem} {r : Nat}
    (ha : Ev.addRet t' v r ∈ s.hist) (hs : step s t (.startGet r) = some s') :
    s'.thr t = .getCheck r (some v) := by
  simp only [step] at hs
  split at hs
  · cases hs
    simp [completed_spec h.hist_nodup ha]
  · cases hs

theorem len_mono_step {s' : St} {t : Tid} {a : Act} (hs : step s t a = some s') (hw : s'.next < W) :
    len s ≤ len s' := by
  have hm := next_mono_step (step_Step hs)
  unfold len
  rw [Nat.mod_eq_of_lt hw, Nat.mod_eq_of_lt (Nat.lt_of_le_of_lt hm hw)]
  omega

theorem thr_frame {s' : St} {t t' : Tid} (hs : Step s t s') (hne : t' ≠ t) : s'.thr t' = s.thr t' := by
  cases hs <;> simp [hne]

/-- threads that never occur in the trace keep their program counter -/
theorem run_frame {s0 s : St} {tr : List Label} (hr : run s0 tr = some s) {n : Nat}
    (hall : tr.all (fun l => decide (l.t < n)) = true) (t : Tid) (ht : n ≤ t) : s.thr t = s0.thr t := by
  induction tr generalizing s0 with
  | nil => simp [run] at hr; subst hr; rfl
  | cons l ls ih =>
    simp only [List.all_cons, Bool.and_eq_true, decide_eq_true_eq] at hall
    simp only [run] at hr
    split at hr
    · rename_i s1 hs1
      have h1 := hall.1
      have hne : t ≠ l.t := by
        intro e; rw [e] at ht; exact Nat.lt_irrefl _ (Nat.lt_of_lt_of_le h1 ht)
      rw [ih hr hall.2, thr_frame (step_Step hs1) hne]
    · cases hr

end IsoVerif.ArenaT
