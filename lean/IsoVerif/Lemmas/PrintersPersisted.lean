/-
Lemmas for C26 (persisted documents): plumbing of operation ids through `generate_operation_text`
and the persisted documents map; compact and pretty operation texts differ only in insignificant
characters.
-/
import IsoVerif.Lemmas.PrintersTree
import IsoVerif.Model.Core.Persisted
import IsoVerif.Lemmas.PrintersPersistedDocs
import IsoVerif.Lemmas.PrintersPersistedText

namespace IsoVerif.Core

/-- every recorded document is recorded under its hash -/
theorem runOps_docs_hashed (H : Str → Str) (opts : PersistOpts) (ops : List OpIn) :
    ∀ e ∈ (runOps H opts ops []).2, H e.2 = e.1 :=
  runOps_hashed_gen H opts ops [] (by intro e he; cases he)

/-- the documents file records exactly the operations the artifacts reference -/
theorem runOps_exact (H : Str → Str) (opts : PersistOpts) (ops : List OpIn) (id : Str) :
    id ∈ ((runOps H opts ops []).2.map (·.1)) ↔ id ∈ (runOps H opts ops []).1 := by
  rw [runOps_exact_gen]; simp

/-- every id written into an artifact names a recorded document whose hash it is -/
theorem runOps_ids (H : Str → Str) (opts : PersistOpts) (ops : List OpIn) :
    ∀ id ∈ (runOps H opts ops []).1, ∃ t, (runOps H opts ops []).2.lookup id = some t ∧ H t = id := by
  intro id hid
  obtain ⟨t, ht, hm⟩ := Docs.lookup_of_mem_keys _ id ((runOps_exact H opts ops id).mpr hid)
  exact ⟨t, ht, runOps_docs_hashed H opts ops _ hm⟩

/-- the document recorded for an operation is its compact text -/
theorem runOps_records_compact (H : Str → Str) (opts : PersistOpts) (ops : List OpIn) (op : OpIn)
    (h : op ∈ ops) : (runOps H opts ops []).2.lookup (H op.compact) = some op.compact ∨
      ∃ op' ∈ ops, H op'.compact = H op.compact ∧ (runOps H opts ops []).2.lookup (H op.compact) = some op'.compact := by
  have hid : H op.compact ∈ (runOps H opts ops []).1 := by
    rw [runOps_fst]; exact List.mem_map.mpr ⟨op, h, rfl⟩
  obtain ⟨t, ht, _⟩ := runOps_ids H opts ops _ hid
  rcases runOps_lookup_gen H opts ops _ t [] ht with h1 | ⟨op', hop', h1, h2⟩
  · cases h1
  · exact Or.inr ⟨op', hop', h1, h2 ▸ ht⟩

/-- compact text and (JavaScript value of the) pretty text agree up to insignificant characters
outside string literals, when no name / string / type text contains a quote, a backslash or a
line terminator -/
theorem compact_pretty_same (kind name vt : Str) (m : SelMap)
    (hk : isPlain kind = true) (hn : isPlain name = true) (hv : isPlain vt = true)
    (hm : Tree.plainList (queryTree m) = true) :
    ∃ t, jsSingleQuotedSimple (printQueryCore .pretty kind name vt m) = some t ∧
      stripInsignificant t = stripInsignificant (printQueryCore .compact kind name vt m) := by
  rw [printQueryCore_render, printQueryCore_render]
  obtain ⟨r, hj, _, _, he⟩ :=
    ((queryHeader_rel kind name vt hk hn hv).append (renderTrees_rel 1 (queryTree m) hm)).append
      (PieceRel.plain (s := [125]) (by rfl))
  refine ⟨r, ?_, he⟩
  have := hj []
  simpa [jsSingleQuotedSimple] using this

/-- a text whose only backslashes are the printer's line continuations and that has no apostrophe
is embedded as it is -/
theorem escapeJsBody_of_simple (s : Str) : ∀ t, jsSingleQuotedSimple s = some t → escapeJsBody s = s := by
  fun_induction jsSingleQuotedSimple s with
  | case1 => intro t _; rfl
  | case2 rest ih =>
    intro t h
    simp only [escapeJsBody]
    rw [ih t h]
  | case3 c rest hne hc =>
    intro t h
    simp at h
  | case4 c rest hne hc ih =>
    intro t h
    cases hr : jsSingleQuotedSimple rest with
    | none => simp [hr] at h
    | some t' =>
      have hrec := ih t' hr
      have h92 : c ≠ 92 := by intro hx; subst hx; simp at hc
      have h39 : c ≠ 39 := by intro hx; subst hx; simp at hc
      unfold escapeJsBody
      all_goals simp_all

/-- `compact_pretty_same` for the text as it is embedded in query_text.ts -/
theorem compact_embedded_same (kind name vt : Str) (m : SelMap)
    (hk : isPlain kind = true) (hn : isPlain name = true) (hv : isPlain vt = true)
    (hm : Tree.plainList (queryTree m) = true) :
    ∃ t, jsSingleQuotedSimple (escapeJsBody (printQueryCore .pretty kind name vt m)) = some t ∧
      stripInsignificant t = stripInsignificant (printQueryCore .compact kind name vt m) := by
  obtain ⟨t, h1, h2⟩ := compact_pretty_same kind name vt m hk hn hv hm
  exact ⟨t, by rw [escapeJsBody_of_simple _ t h1]; exact h1, h2⟩

end IsoVerif.Core
