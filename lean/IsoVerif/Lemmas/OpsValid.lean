/-
Lemmas for C09 / validity of generated operations.

* Group 1 (`IsoVerif.GqlValid`): FieldsInSetCanMerge (§5.3.2) holds trivially for a collected set
  whose response names are pairwise distinct; a closed witness that it fails for two fields with the
  same response name and different field names.
* Group 2 (`IsoVerif.Ops.Vars`): declared = used.  With no variable nested inside an object or list
  argument the variables collected before the repair of F12 (`reachableOld`) are exactly the printed ones and in general are
  among them (F12 witness: a variable inside an object argument); after the repair `reachable` = `printed` always.
-/
import IsoVerif.Model.Core.GqlValid
import IsoVerif.Model.Core.OpsVars

/-! ## Group 1: FieldsInSetCanMerge -/

namespace IsoVerif.GqlValid

/-- membership in `pairs` of a cons -/
theorem mem_pairs_cons {α : Type} (x : α) (rest : List α) (a b : α) :
    (a, b) ∈ pairs (x :: rest) ↔ (a = x ∧ b ∈ rest) ∨ (a, b) ∈ pairs rest := by
  simp only [pairs, List.mem_append, List.mem_map, Prod.mk.injEq]
  constructor
  · rintro (⟨c, hc, rfl, rfl⟩ | h)
    · exact Or.inl ⟨rfl, hc⟩
    · exact Or.inr h
  · rintro (⟨rfl, hb⟩ | h)
    · exact Or.inl ⟨b, hb, rfl, rfl⟩
    · exact Or.inr h

/-- `pairs l` is exactly the set of two-element sublists of `l` (positions `i < j`) -/
theorem mem_pairs_iff_sublist {α : Type} : ∀ (l : List α) (a b : α),
    (a, b) ∈ pairs l ↔ List.Sublist [a, b] l
  | [], a, b => by simp [pairs]
  | x :: rest, a, b => by
    rw [mem_pairs_cons, mem_pairs_iff_sublist rest a b]
    constructor
    · rintro (⟨rfl, hb⟩ | h)
      · exact List.Sublist.cons_cons _ (List.singleton_sublist.mpr hb)
      · exact List.Sublist.cons _ h
    · intro h
      cases h with
      | cons _ h => exact Or.inr h
      | cons_cons _ h => exact Or.inl ⟨rfl, List.singleton_sublist.mp h⟩

/-- both components of a pair are members -/
theorem mem_of_mem_pairs {α : Type} (l : List α) (a b : α) (h : (a, b) ∈ pairs l) :
    a ∈ l ∧ b ∈ l := by
  have hs := (mem_pairs_iff_sublist l a b).mp h
  exact ⟨hs.subset (by simp), hs.subset (by simp)⟩

/-- if the images under `f` are pairwise distinct, the two components of every pair differ under `f` -/
theorem pairs_ne_of_nodup {α β : Type} (f : α → β) : ∀ (l : List α), (l.map f).Nodup →
    ∀ a b, (a, b) ∈ pairs l → f a ≠ f b
  | [], _, a, b, h => by simp [pairs] at h
  | x :: rest, hnd, a, b, h => by
    rw [List.map_cons, List.nodup_cons] at hnd
    rcases (mem_pairs_cons x rest a b).mp h with ⟨rfl, hb⟩ | h'
    · intro heq
      exact hnd.1 (heq ▸ List.mem_map_of_mem hb)
    · exact pairs_ne_of_nodup f rest hnd.2 a b h'

/-- FieldsInSetCanMerge holds trivially for a set of fields with pairwise distinct response names -/
theorem canMergeSet_of_distinct (s : VSchema) (fuel : Nat) (fields : List CField)
    (h : (fields.map (·.response)).Nodup) : canMergeSet s (fuel + 1) fields = [] := by
  rw [canMergeSet, List.flatMap_eq_nil_iff]
  rintro ⟨a, b⟩ hab
  have hne : a.response ≠ b.response := pairs_ne_of_nodup (·.response) fields h a b hab
  have hb : (a.response != b.response) = true := bne_iff_ne.mpr hne
  simp only [hb, if_true]

/-- the same for SameResponseShape -/
theorem sameShapeSet_of_distinct (s : VSchema) (fuel : Nat) (fields : List CField)
    (h : (fields.map (·.response)).Nodup) : sameShapeSet s (fuel + 1) fields = [] := by
  rw [sameShapeSet, List.flatMap_eq_nil_iff]
  rintro ⟨a, b⟩ hab
  have hne : a.response ≠ b.response := pairs_ne_of_nodup (·.response) fields h a b hab
  have hb : (a.response != b.response) = true := bne_iff_ne.mpr hne
  simp only [hb, if_true]

/-- sanity witness for the other direction: two fields with one response name and different field
names cannot merge -/
theorem canMergeSet_witness :
    canMergeSet { types := [] } 1
      [⟨[1], [2], [3], .nil, none, .nil⟩, ⟨[1], [2], [4], .nil, none, .nil⟩] ≠ [] := by
  decide

/-- the witness's response names are indeed not pairwise distinct -/
theorem canMergeSet_witness_not_distinct :
    ¬ (([⟨[1], [2], [3], .nil, none, .nil⟩, ⟨[1], [2], [4], .nil, none, .nil⟩] : List CField).map
        (·.response)).Nodup := by
  decide

end IsoVerif.GqlValid

/-! ## Group 2: declared = used -/

namespace IsoVerif.Ops.Vars
open IsoVerif.Core

theorem argVars_eq_topVars_of_flat : ∀ (args : Args), flatArgs args = true →
    argVars args = topVars args
  | [], _ => rfl
  | (k, v) :: rest, h => by
    cases v with
    | var n =>
      simp only [flatArgs] at h
      simp only [argVars, topVars, valueVars, argVars_eq_topVars_of_flat rest h,
        List.singleton_append]
    | obj fields =>
      simp only [flatArgs, Bool.and_eq_true, List.isEmpty_iff] at h
      simp only [argVars, topVars, valueVars, h.1, argVars_eq_topVars_of_flat rest h.2,
        List.nil_append]
    | list items =>
      simp only [flatArgs, Bool.and_eq_true, List.isEmpty_iff] at h
      simp only [argVars, topVars, valueVars, h.1, argVars_eq_topVars_of_flat rest h.2,
        List.nil_append]
    | int i =>
      simp only [flatArgs] at h
      simp only [argVars, topVars, valueVars, argVars_eq_topVars_of_flat rest h, List.nil_append]
    | bool b =>
      simp only [flatArgs] at h
      simp only [argVars, topVars, valueVars, argVars_eq_topVars_of_flat rest h, List.nil_append]
    | str t =>
      simp only [flatArgs] at h
      simp only [argVars, topVars, valueVars, argVars_eq_topVars_of_flat rest h, List.nil_append]
    | float t =>
      simp only [flatArgs] at h
      simp only [argVars, topVars, valueVars, argVars_eq_topVars_of_flat rest h, List.nil_append]
    | null =>
      simp only [flatArgs] at h
      simp only [argVars, topVars, valueVars, argVars_eq_topVars_of_flat rest h, List.nil_append]
    | «enum» e =>
      simp only [flatArgs] at h
      simp only [argVars, topVars, valueVars, argVars_eq_topVars_of_flat rest h, List.nil_append]

/-- the top-level variables of an argument list are among all its variables -/
theorem topVars_subset_argVars : ∀ (args : Args), ∀ x ∈ topVars args, x ∈ argVars args
  | [], x, hx => by simp [topVars] at hx
  | (k, v) :: rest, x, hx => by
    cases v with
    | var n =>
      simp only [topVars, List.mem_cons] at hx
      simp only [argVars, valueVars, List.singleton_append, List.mem_cons]
      exact hx.imp id (topVars_subset_argVars rest x)
    | obj fields =>
      simp only [topVars] at hx
      simp only [argVars, List.mem_append]
      exact Or.inr (topVars_subset_argVars rest x hx)
    | list items =>
      simp only [topVars] at hx
      simp only [argVars, List.mem_append]
      exact Or.inr (topVars_subset_argVars rest x hx)
    | int i =>
      simp only [topVars] at hx
      simp only [argVars, List.mem_append]
      exact Or.inr (topVars_subset_argVars rest x hx)
    | bool b =>
      simp only [topVars] at hx
      simp only [argVars, List.mem_append]
      exact Or.inr (topVars_subset_argVars rest x hx)
    | str t =>
      simp only [topVars] at hx
      simp only [argVars, List.mem_append]
      exact Or.inr (topVars_subset_argVars rest x hx)
    | float t =>
      simp only [topVars] at hx
      simp only [argVars, List.mem_append]
      exact Or.inr (topVars_subset_argVars rest x hx)
    | null =>
      simp only [topVars] at hx
      simp only [argVars, List.mem_append]
      exact Or.inr (topVars_subset_argVars rest x hx)
    | «enum» e =>
      simp only [topVars] at hx
      simp only [argVars, List.mem_append]
      exact Or.inr (topVars_subset_argVars rest x hx)

mutual
theorem printedSel_eq_reachableSel : ∀ (s : Sel), printedSel s = reachableSel s
  | .scalar _ _ args => by
    simp only [printedSel, reachableSel]
  | .linked _ _ args _ map => by
    simp only [printedSel, reachableSel]
    rw [printedMap_eq_reachableMap map]
  | .clientObj _ _ _ _ _ => by
    simp only [printedSel, reachableSel]
  | .frag _ map => by
    simp only [printedSel, reachableSel]
    exact printedMap_eq_reachableMap map
theorem printedMap_eq_reachableMap : ∀ (m : SelMap), printedMap m = reachableMap m
  | [] => by simp only [printedMap, reachableMap]
  | (_, s) :: rest => by
    simp only [printedMap, reachableMap]
    rw [printedSel_eq_reachableSel s, printedMap_eq_reachableMap rest]
end

/-- declared = used (after the repair of F12): for EVERY merged selection map the variables the
compiler collects are exactly the variables the printed operation mentions, in the same order -/
theorem printed_eq_reachable (m : SelMap) : printedMap m = reachableMap m :=
  printedMap_eq_reachableMap m

mutual
theorem printedSel_eq_reachableOldSel_of_flat : ∀ (s : Sel), flatSel s = true →
    printedSel s = reachableOldSel s
  | .scalar _ _ args, h => by
    simp only [flatSel] at h
    simp only [printedSel, reachableOldSel]
    exact argVars_eq_topVars_of_flat args h
  | .linked _ _ args _ map, h => by
    simp only [flatSel, Bool.and_eq_true] at h
    simp only [printedSel, reachableOldSel]
    rw [argVars_eq_topVars_of_flat args h.1, printedMap_eq_reachableOldMap_of_flat map h.2]
  | .clientObj _ _ _ _ _, _ => by
    simp only [printedSel, reachableOldSel]
  | .frag _ map, h => by
    simp only [flatSel] at h
    simp only [printedSel, reachableOldSel]
    exact printedMap_eq_reachableOldMap_of_flat map h
theorem printedMap_eq_reachableOldMap_of_flat : ∀ (m : SelMap), flatMap m = true →
    printedMap m = reachableOldMap m
  | [], _ => by simp only [printedMap, reachableOldMap]
  | (_, s) :: rest, h => by
    simp only [flatMap, Bool.and_eq_true] at h
    simp only [printedMap, reachableOldMap]
    rw [printedSel_eq_reachableOldSel_of_flat s h.1, printedMap_eq_reachableOldMap_of_flat rest h.2]
end

/-- before the repair: with no variable nested inside an object or list argument, the variables the
old compiler collected are exactly the variables the printed operation mentions, in the same order -/
theorem printed_eq_reachableOld_of_flat (m : SelMap) (h : flatMap m = true) :
    printedMap m = reachableOldMap m :=
  printedMap_eq_reachableOldMap_of_flat m h

mutual
theorem reachableOldSel_subset_printedSel : ∀ (s : Sel), ∀ x ∈ reachableOldSel s, x ∈ printedSel s
  | .scalar _ _ args, x, hx => by
    simp only [reachableOldSel] at hx
    simp only [printedSel]
    exact topVars_subset_argVars args x hx
  | .linked _ _ args _ map, x, hx => by
    simp only [reachableOldSel, List.mem_append] at hx
    simp only [printedSel, List.mem_append]
    exact hx.imp (topVars_subset_argVars args x) (reachableOldMap_subset_printedMap map x)
  | .clientObj _ _ _ _ _, x, hx => by
    simp only [reachableOldSel] at hx
    exact absurd hx (List.not_mem_nil)
  | .frag _ map, x, hx => by
    simp only [reachableOldSel] at hx
    simp only [printedSel]
    exact reachableOldMap_subset_printedMap map x hx
theorem reachableOldMap_subset_printedMap : ∀ (m : SelMap),
    ∀ x ∈ reachableOldMap m, x ∈ printedMap m
  | [], x, hx => by
    simp only [reachableOldMap] at hx
    exact absurd hx (List.not_mem_nil)
  | (_, s) :: rest, x, hx => by
    simp only [reachableOldMap, List.mem_append] at hx
    simp only [printedMap, List.mem_append]
    exact hx.imp (reachableOldSel_subset_printedSel s x) (reachableOldMap_subset_printedMap rest x)
end

/-- before the repair the collected variables were among the printed ones (every declared variable
was used; the converse is what F12 broke) -/
theorem reachableOld_subset_printed (m : SelMap) : ∀ x ∈ reachableOldMap m, x ∈ printedMap m :=
  reachableOldMap_subset_printedMap m

/-- hence also among the variables collected after the repair -/
theorem reachableOld_subset_reachable (m : SelMap) : ∀ x ∈ reachableOldMap m, x ∈ reachableMap m := by
  intro x hx
  rw [← printed_eq_reachable m]
  exact reachableOld_subset_printed m x hx

/-- F12: a field whose argument is the object `{ i: $x }` -/
def f12Map : SelMap :=
  [(⟨0, .serverField [117] [([102], .obj [([105], .var [120])])]⟩,
    .scalar false [117] [([102], .obj [([105], .var [120])])])]

theorem f12_printed : printedMap f12Map = [[120]] := by decide

/-- before the repair nothing was collected (and so nothing declared) -/
theorem f12_reachableOld : reachableOldMap f12Map = [] := by decide

/-- after the repair `$x` is collected -/
theorem f12_reachable : reachableMap f12Map = [[120]] := by decide

theorem f12_not_flat : flatMap f12Map = false := by decide

/-- F12 witness: the printed operation mentions `$x`, the old compiler collected nothing -/
theorem f12_printed_ne_reachableOld : printedMap f12Map ≠ reachableOldMap f12Map := by
  rw [f12_printed, f12_reachableOld]
  exact List.cons_ne_nil _ _

end IsoVerif.Ops.Vars
