/-
Lemmas for C29_roundtrip: the reference parser reads back what the canonical token printer
(`Ty.toks`, `Value.toks`, `FieldDef.toks` of Model/GqlPrint.lean) writes.
-/
import IsoVerif.Model.GqlPrint

namespace IsoVerif.Gql

/-! ### strings -/

theorem unescape_escape (v : Str) : ∀ f, (escapeStr v).length < f → unescape f (escapeStr v) = v := by
  induction v with
  | nil => intro f hf; cases f <;> simp [escapeStr, unescape] at *
  | cons c r ih =>
    intro f hf
    cases f with
    | zero => omega
    | succ f =>
      by_cases h34 : c = 34
      · subst h34
        have hl : (escapeStr r).length < f := by simp [escapeStr] at hf; omega
        simp only [escapeStr, beq_self_eq_true, if_true]
        cases f with
        | zero => omega
        | succ f' =>
          have := ih (f' + 1) hl
          simp [unescape, escValue, this]
      · by_cases h92 : c = 92
        · subst h92
          have hl : (escapeStr r).length < f := by simp [escapeStr] at hf; omega
          simp only [escapeStr]
          have := ih f hl
          simp [unescape, escValue, this]
        · by_cases h10 : c = 10
          · subst h10
            have hl : (escapeStr r).length < f := by simp [escapeStr] at hf; omega
            have := ih f hl
            simp [escapeStr, unescape, escValue, this]
          · by_cases h13 : c = 13
            · subst h13
              have hl : (escapeStr r).length < f := by simp [escapeStr] at hf; omega
              have := ih f hl
              simp [escapeStr, unescape, escValue, this]
            · have hl : (escapeStr r).length < f := by simp [escapeStr, h34, h92, h10, h13] at hf; omega
              have := ih f hl
              simp [escapeStr, unescape, h34, h92, h10, h13, this]

theorem strValue_spec_escape (v : Str) : strValue Quirks.spec (escapeStr v) = v := by
  simp [strValue, Quirks.spec, unescape_escape]

/-! ### integers -/

theorem digitsVal_natDigits (f : Nat) : ∀ n acc, n < f → digitsVal (natDigits f n acc) 0 = digitsVal acc n := by
  induction f with
  | zero => intro n acc h; omega
  | succ f ih =>
    intro n acc h
    by_cases h10 : n < 10
    · simp [natDigits, h10, digitsVal]
    · simp only [natDigits, h10, if_false]
      rw [ih (n / 10) _ (by omega)]
      simp only [digitsVal]
      congr 1
      omega

theorem natDigits_head (f : Nat) : ∀ n acc, n < f → ∃ d r, natDigits f n acc = d :: r ∧ 48 ≤ d := by
  induction f with
  | zero => intro n acc h; omega
  | succ f ih =>
    intro n acc h
    by_cases h10 : n < 10
    · exact ⟨48 + n, acc, by simp [natDigits, h10], by omega⟩
    · simp only [natDigits, h10, if_false]
      exact ih (n / 10) _ (by omega)

theorem intOfSrc_intStr (v : Int) : intOfSrc (intSrc v) = v := by
  cases v with
  | ofNat n =>
    obtain ⟨d, r, hd, h48⟩ := natDigits_head (n + 1) n [] (by omega)
    have hv := digitsVal_natDigits (n + 1) n [] (by omega)
    simp only [intSrc, intStr, natStr, hd] at hv ⊢
    have : intOfSrc (d :: r) = Int.ofNat (digitsVal (d :: r) 0) := by
      unfold intOfSrc
      split
      · rename_i heq; simp at heq; omega
      · rfl
    rw [this, hv]; rfl
  | negSucc n =>
    have hv := digitsVal_natDigits (n + 2) (n + 1) [] (by omega)
    simp only [intSrc, intStr, natStr, intOfSrc, hv, digitsVal]
    rfl

/-! ### types -/

def Ty.isCore : Ty → Bool
  | .nonNull _ => false
  | _ => true

/-- a NonNullType wraps a NamedType or a ListType, never another NonNullType -/
def Ty.wf : Ty → Bool
  | .named _ => true
  | .list t => t.wf
  | .nonNull t => t.isCore && t.wf

def Ty.depth : Ty → Nat
  | .named _ => 1
  | .list t => t.depth + 1
  | .nonNull t => t.depth

def noBang : List Tok → Bool
  | .punct .bang :: _ => false
  | _ => true

theorem bangOpt_noBang (t : Ty) (r : List Tok) (h : noBang r = true) : bangOpt t r = (t, r) := by
  unfold bangOpt; split
  · simp [noBang] at h
  · rfl

theorem pType_toks (t : Ty) : t.wf = true → ∀ f rest, t.depth ≤ f →
    (t.isCore = true → pType f (t.toks ++ rest) = some (bangOpt t rest)) ∧
    ((noBang rest = true ∨ t.isCore = false) → pType f (t.toks ++ rest) = some (t, rest)) := by
  induction t with
  | named n =>
    intro _ f rest hf
    cases f with
    | zero => simp [Ty.depth] at hf
    | succ f =>
      refine ⟨fun _ => by simp [Ty.toks, pType], fun h => ?_⟩
      rcases h with h | h
      · simp [Ty.toks, pType, bangOpt_noBang _ _ h]
      · simp [Ty.isCore] at h
  | list t ih =>
    intro hwf f rest hf
    cases f with
    | zero => simp [Ty.depth] at hf
    | succ f =>
      have hwf' : t.wf = true := by simpa [Ty.wf] using hwf
      have hd : t.depth ≤ f := by simp [Ty.depth] at hf; omega
      have key : pType f (t.toks ++ (.punct .rbrack :: rest)) = some (t, .punct .rbrack :: rest) :=
        (ih hwf' f (.punct .rbrack :: rest) hd).2 (Or.inl rfl)
      have e : pType (f + 1) ((Ty.list t).toks ++ rest) = some (bangOpt (.list t) rest) := by
        simp [Ty.toks, pType, key]
      refine ⟨fun _ => e, fun h => ?_⟩
      rcases h with h | h
      · rw [e, bangOpt_noBang _ _ h]
      · simp [Ty.isCore] at h
  | nonNull t ih =>
    intro hwf f rest hf
    have hw : t.isCore = true ∧ t.wf = true := by simpa [Ty.wf] using hwf
    have hd : t.depth ≤ f := by simpa [Ty.depth] using hf
    have key := (ih hw.2 f (.punct .bang :: rest) hd).1 hw.1
    refine ⟨fun h => by simp [Ty.isCore] at h, fun _ => ?_⟩
    simp only [Ty.toks, List.append_assoc, List.singleton_append, key, bangOpt]

/-- `pType` reads back a printed type -/
theorem pType_roundtrip (t : Ty) (f : Nat) (rest : List Tok) (hwf : t.wf = true) (hf : t.depth ≤ f)
    (hrest : noBang rest = true) : pType f (t.toks ++ rest) = some (t, rest) :=
  (pType_toks t hwf f rest hf).2 (Or.inl hrest)

/-! ### values -/

mutual
def Value.size : Value → Nat
  | .list vs => vs.size + 1
  | .obj fs => fs.size + 1
  | _ => 1
def ValueList.size : ValueList → Nat
  | .nil => 1
  | .cons v vs => v.size + vs.size + 1
def FieldList.size : FieldList → Nat
  | .nil => 1
  | .cons _ v fs => v.size + fs.size + 1
end

mutual
/-- well-formed value: no variable in a constant, an enum value is not `true`/`false`/`null` -/
def Value.wf (const : Bool) : Value → Bool
  | .var _ => !const
  | .enum n => !(n == kwTrue) && !(n == kwFalse) && !(n == kwNull)
  | .list vs => vs.wf const
  | .obj fs => fs.wf const
  | _ => true
def ValueList.wf (const : Bool) : ValueList → Bool
  | .nil => true
  | .cons v vs => v.wf const && vs.wf const
def FieldList.wf (const : Bool) : FieldList → Bool
  | .nil => true
  | .cons _ v fs => v.wf const && fs.wf const
end

theorem Value.toks_head (v : Value) : ∃ t r, v.toks = t :: r ∧ t ≠ .punct .rbrack := by
  cases v <;> simp [Value.toks]

theorem kw_distinct : (kwFalse == kwTrue) = false ∧ (kwNull == kwTrue) = false ∧ (kwNull == kwFalse) = false := by
  decide

theorem spec_flags : Quirks.spec.i64Ints = false ∧ Quirks.spec.noBlockValues = false ∧ Quirks.spec.rawStrings = false := by
  refine ⟨rfl, rfl, rfl⟩

mutual
theorem pValue_toks (const : Bool) : ∀ (v : Value) (f : Nat) (rest : List Tok), v.wf const = true → v.size ≤ f →
    pValue Quirks.spec const f (v.toks ++ rest) = some (v, rest)
  | .var n, f, rest, hwf, hf => by
    cases f with
    | zero => simp [Value.size] at hf
    | succ f =>
      have hc : const = false := by simpa [Value.wf] using hwf
      subst hc
      simp [Value.toks, pValue]
  | .int v, f, rest, _, hf => by
    cases f with
    | zero => simp [Value.size] at hf
    | succ f =>
      simp only [Value.toks, List.singleton_append, pValue, intOfSrc_intStr, spec_flags.1]
      split <;> simp
  | .float s, f, rest, _, hf => by
    cases f with
    | zero => simp [Value.size] at hf
    | succ f => simp [Value.toks, pValue]
  | .str s, f, rest, _, hf => by
    cases f with
    | zero => simp [Value.size] at hf
    | succ f => simp [Value.toks, pValue, strValue_spec_escape]
  | .bool b, f, rest, _, hf => by
    cases f with
    | zero => simp [Value.size] at hf
    | succ f => cases b <;> simp [Value.toks, pValue, kw_distinct.1]
  | .null, f, rest, _, hf => by
    cases f with
    | zero => simp [Value.size] at hf
    | succ f => simp [Value.toks, pValue, kw_distinct.2.1, kw_distinct.2.2]
  | .enum n, f, rest, hwf, hf => by
    cases f with
    | zero => simp [Value.size] at hf
    | succ f =>
      have h : (n == kwTrue) = false ∧ (n == kwFalse) = false ∧ (n == kwNull) = false := by
        simpa [Value.wf, and_assoc] using hwf
      simp [Value.toks, pValue, h.1, h.2.1, h.2.2]
  | .list vs, f, rest, hwf, hf => by
    cases f with
    | zero => simp [Value.size] at hf
    | succ f =>
      have h := pValues_toks const vs f rest (by simpa [Value.wf] using hwf) (by simp [Value.size] at hf; omega)
      simp [Value.toks, pValue, h]
  | .obj fs, f, rest, hwf, hf => by
    cases f with
    | zero => simp [Value.size] at hf
    | succ f =>
      have h := pFields_toks const .rbrace fs f rest (by simpa [Value.wf] using hwf) (by simp [Value.size] at hf; omega)
      simp [Value.toks, pValue, h]
theorem pValues_toks (const : Bool) : ∀ (vs : ValueList) (f : Nat) (rest : List Tok), vs.wf const = true → vs.size ≤ f →
    pValues Quirks.spec const f (vs.toks ++ .punct .rbrack :: rest) = some (vs, rest)
  | .nil, f, rest, _, hf => by
    cases f with
    | zero => simp [ValueList.size] at hf
    | succ f => simp [ValueList.toks, pValues]
  | .cons v vs, f, rest, hwf, hf => by
    cases f with
    | zero => simp [ValueList.size] at hf
    | succ f =>
      have hw : v.wf const = true ∧ vs.wf const = true := by simpa [ValueList.wf] using hwf
      have h1 := pValue_toks const v f (vs.toks ++ .punct .rbrack :: rest) hw.1 (by simp [ValueList.size] at hf; omega)
      have h2 := pValues_toks const vs f rest hw.2 (by simp [ValueList.size] at hf; omega)
      obtain ⟨t, r, ht, hne⟩ := Value.toks_head v
      have e : (ValueList.cons v vs).toks ++ .punct .rbrack :: rest = v.toks ++ (vs.toks ++ .punct .rbrack :: rest) := by
        simp [ValueList.toks]
      rw [e]
      have : pValues Quirks.spec const (f + 1) (v.toks ++ (vs.toks ++ .punct .rbrack :: rest)) =
          match pValue Quirks.spec const f (v.toks ++ (vs.toks ++ .punct .rbrack :: rest)) with
          | some (v, r) =>
            match pValues Quirks.spec const f r with
            | some (vs, r') => some (.cons v vs, r')
            | none => none
          | none => none := by
        rw [ht]
        simp only [List.cons_append]
        cases t with
        | punct p => cases p <;> first | (exfalso; exact hne rfl) | rfl
        | _ => rfl
      rw [this, h1]
      simp [h2]
theorem pFields_toks (const : Bool) (close : Punct) : ∀ (fs : FieldList) (f : Nat) (rest : List Tok),
    fs.wf const = true → fs.size ≤ f →
    pFields Quirks.spec const close f (fs.toks ++ .punct close :: rest) = some (fs, rest)
  | .nil, f, rest, _, hf => by
    cases f with
    | zero => simp [FieldList.size] at hf
    | succ f => simp [FieldList.toks, pFields]
  | .cons n v fs, f, rest, hwf, hf => by
    cases f with
    | zero => simp [FieldList.size] at hf
    | succ f =>
      have hw : v.wf const = true ∧ fs.wf const = true := by simpa [FieldList.wf] using hwf
      have h1 := pValue_toks const v f (fs.toks ++ .punct close :: rest) hw.1 (by simp [FieldList.size] at hf; omega)
      have h2 := pFields_toks const close fs f rest hw.2 (by simp [FieldList.size] at hf; omega)
      simp [FieldList.toks, pFields, h1, h2]
end

/-- `pValue` reads back a printed value -/
theorem pValue_roundtrip (const : Bool) (v : Value) (f : Nat) (rest : List Tok) (hwf : v.wf const = true)
    (hf : v.size ≤ f) : pValue Quirks.spec const f (v.toks ++ rest) = some (v, rest) :=
  pValue_toks const v f rest hwf hf

/-! ### arguments, directives, input values, field definitions -/

/-- the next token is none of the given punctuators -/
def noHead (ps : List Punct) : List Tok → Bool
  | .punct p :: _ => !ps.contains p
  | _ => true

theorem noHead_mono (ps qs : List Punct) (ts : List Tok) (h : noHead ps ts = true)
    (hsub : ∀ p, qs.contains p = true → ps.contains p = true) : noHead qs ts = true := by
  cases ts with
  | nil => rfl
  | cons t r =>
    cases t with
    | punct p =>
      simp only [noHead, Bool.not_eq_true'] at h ⊢
      cases hq : qs.contains p with
      | false => rfl
      | true => rw [hsub p hq] at h; exact absurd h (by simp)
    | _ => rfl

theorem noBang_of_noHead (ps : List Punct) (ts : List Tok) (h : noHead ps ts = true)
    (hb : ps.contains .bang = true) : noBang ts = true := by
  cases ts with
  | nil => rfl
  | cons t r =>
    cases t with
    | punct p =>
      cases p <;> first | rfl | (simp only [noHead] at h; rw [hb] at h; exact absurd h (by decide))
    | _ => rfl

theorem pArgs_toks (const : Bool) (fs : FieldList) (f : Nat) (rest : List Tok) (hwf : fs.wf const = true)
    (hf : fs.size ≤ f) (hrest : noHead [.lparen] rest = true) :
    pArgs Quirks.spec const f (argsToks fs ++ rest) = some (fs, rest) := by
  cases fs with
  | nil =>
    simp only [argsToks, List.nil_append]
    unfold pArgs
    split
    · simp [noHead] at hrest
    · rfl
  | cons n v fs' =>
    have h := pFields_toks const .rparen (.cons n v fs') f rest hwf hf
    have e : argsToks (.cons n v fs') ++ rest =
        .punct .lparen :: ((FieldList.cons n v fs').toks ++ .punct .rparen :: rest) := by simp [argsToks]
    rw [e]
    simp only [pArgs, h]

def dirsSize : List Dir → Nat
  | [] => 1
  | d :: ds => d.args.size + dirsSize ds + 1

def dirsWf (const : Bool) (ds : List Dir) : Bool := ds.all fun d => d.args.wf const

theorem pDirs_toks (const : Bool) : ∀ (ds : List Dir) (f : Nat) (rest : List Tok), dirsWf const ds = true →
    dirsSize ds ≤ f → noHead [.at, .lparen] rest = true →
    pDirs Quirks.spec const f (dirsToks ds ++ rest) = some (ds, rest)
  | [], f, rest, _, hf, hrest => by
    cases f with
    | zero => simp [dirsSize] at hf
    | succ f =>
      simp only [dirsToks, List.nil_append]
      unfold pDirs
      split
      · simp [noHead] at hrest
      · simp [noHead] at hrest
      · rfl
  | d :: ds, f, rest, hwf, hf, hrest => by
    cases f with
    | zero => simp [dirsSize] at hf
    | succ f =>
      have hw : d.args.wf const = true ∧ dirsWf const ds = true := by simpa [dirsWf] using hwf
      have h2 := pDirs_toks const ds f rest hw.2 (by simp [dirsSize] at hf; omega) hrest
      have hnext : noHead [.lparen] (dirsToks ds ++ rest) = true := by
        cases ds with
        | nil => exact noHead_mono _ _ _ hrest (by intro p; cases p <;> simp)
        | cons d' ds' => simp [dirsToks, Dir.toks, noHead]
      have h1 := pArgs_toks const d.args f (dirsToks ds ++ rest) hw.1 (by simp [dirsSize] at hf; omega) hnext
      simp only [dirsToks, Dir.toks, List.cons_append, List.append_assoc, pDirs, h1, h2]

def optWf : Option Value → Bool
  | some d => d.wf true
  | none => true

def optSize : Option Value → Nat
  | some d => d.size
  | none => 0

theorem pDefault_toks (dv : Option Value) (f : Nat) (rest : List Tok) (hwf : optWf dv = true)
    (hf : optSize dv ≤ f) (hrest : noHead [.eq] rest = true) :
    pDefault Quirks.spec f (defaultToks dv ++ rest) = some (dv, rest) := by
  cases dv with
  | none =>
    simp only [defaultToks, List.nil_append]
    unfold pDefault
    split
    · simp [noHead] at hrest
    · rfl
  | some d =>
    have h := pValue_toks true d f rest hwf hf
    simp [defaultToks, pDefault, h]

def InputVal.wf (v : InputVal) : Bool := v.ty.wf && optWf v.default && dirsWf true v.dirs

def InputVal.size (v : InputVal) : Nat := v.ty.depth + optSize v.default + dirsSize v.dirs

theorem pDesc_descToks (d : Option Str) (rest : List Tok) (hrest : ∀ raw r, rest ≠ .str raw :: r ∧ rest ≠ .block raw :: r) :
    pDesc Quirks.spec (descToks d ++ rest) = (d, rest) := by
  cases d with
  | none =>
    simp only [descToks, List.nil_append]
    unfold pDesc
    split
    · rename_i raw r; exact absurd rfl (hrest raw r).1
    · rename_i raw r; exact absurd rfl (hrest raw r).2
    · rfl
  | some s => simp [descToks, pDesc, strValue_spec_escape]

/-- what may follow an input value definition or a field definition: not `!`, `=`, `@`, `(` -/
def followOk (rest : List Tok) : Bool := noHead [.bang, .eq, .at, .lparen] rest

theorem pInputVal_toks (v : InputVal) (f : Nat) (rest : List Tok) (hwf : v.wf = true) (hf : v.size ≤ f)
    (hrest : followOk rest = true) : pInputVal Quirks.spec f (v.toks ++ rest) = some (v, rest) := by
  have hw : (v.ty.wf = true ∧ optWf v.default = true) ∧ dirsWf true v.dirs = true := by
    simpa [InputVal.wf] using hwf
  have hd := pDirs_toks true v.dirs f rest hw.2 (by simp [InputVal.size] at hf; omega)
    (noHead_mono _ _ _ hrest (by intro p; cases p <;> simp))
  have hdef_rest : noHead [.eq] (dirsToks v.dirs ++ rest) = true := by
    cases hds : v.dirs with
    | nil => simpa [dirsToks] using noHead_mono _ _ _ hrest (by intro p; cases p <;> simp)
    | cons d ds => simp [dirsToks, Dir.toks, noHead]
  have hdef := pDefault_toks v.default f (dirsToks v.dirs ++ rest) hw.1.2
    (by simp [InputVal.size] at hf; omega) hdef_rest
  have hty_rest : noBang (defaultToks v.default ++ (dirsToks v.dirs ++ rest)) = true := by
    cases hdv : v.default with
    | some d => rfl
    | none =>
      cases hds : v.dirs with
      | nil => simpa [defaultToks, dirsToks] using noBang_of_noHead _ _ hrest (by decide)
      | cons d ds => simp [defaultToks, dirsToks, Dir.toks, noBang]
  have hty := pType_roundtrip v.ty f _ hw.1.1 (by simp [InputVal.size] at hf; omega) hty_rest
  have hdesc := pDesc_descToks v.desc
    (.name v.name :: .punct .colon :: (v.ty.toks ++ (defaultToks v.default ++ (dirsToks v.dirs ++ rest))))
    (by intro raw r; simp)
  have e : v.toks ++ rest = descToks v.desc ++ (.name v.name :: .punct .colon :: (v.ty.toks ++
      (defaultToks v.default ++ (dirsToks v.dirs ++ rest)))) := by
    simp [InputVal.toks]
  rw [e]
  simp only [pInputVal, hdesc, hty, hdef, hd]

def inputValsSize : List InputVal → Nat
  | [] => 1
  | v :: vs => v.size + inputValsSize vs + 1

def inputValsWf (vs : List InputVal) : Bool := vs.all InputVal.wf

theorem InputVal.toks_head (v : InputVal) : ∃ t r, v.toks = t :: r ∧ ∀ p, t ≠ .punct p := by
  cases hd : v.desc with
  | none =>
    have : v.toks = .name v.name :: .punct .colon :: (v.ty.toks ++ defaultToks v.default ++ dirsToks v.dirs) := by
      simp [InputVal.toks, hd, descToks]
    exact ⟨_, _, this, by simp⟩
  | some d =>
    have : v.toks = .str (escapeStr d) :: .name v.name :: .punct .colon ::
        (v.ty.toks ++ defaultToks v.default ++ dirsToks v.dirs) := by
      simp [InputVal.toks, hd, descToks]
    exact ⟨_, _, this, by simp⟩

theorem followOk_inputVals (vs : List InputVal) (close : Punct) (rest : List Tok)
    (hclose : [Punct.bang, .eq, .at, .lparen].contains close = false) :
    followOk (inputValsToks vs ++ .punct close :: rest) = true := by
  cases vs with
  | nil => cases close <;> simp_all [inputValsToks, followOk, noHead]
  | cons v vs' =>
    obtain ⟨t, r, ht, hne⟩ := InputVal.toks_head v
    simp only [inputValsToks, ht, List.cons_append, followOk]
    cases t with
    | punct p => exact absurd rfl (hne p)
    | _ => rfl

theorem pInputVals_toks (close : Punct) (hclose : [Punct.bang, .eq, .at, .lparen].contains close = false) :
    ∀ (vs : List InputVal) (f : Nat) (rest : List Tok), inputValsWf vs = true → inputValsSize vs ≤ f →
    pInputVals Quirks.spec close f (inputValsToks vs ++ .punct close :: rest) = some (vs, rest)
  | [], f, rest, _, hf => by
    cases f with
    | zero => simp [inputValsSize] at hf
    | succ f => simp [inputValsToks, pInputVals]
  | v :: vs, f, rest, hwf, hf => by
    cases f with
    | zero => simp [inputValsSize] at hf
    | succ f =>
      have hw : v.wf = true ∧ inputValsWf vs = true := by simpa [inputValsWf] using hwf
      have h1 := pInputVal_toks v f (inputValsToks vs ++ .punct close :: rest) hw.1
        (by simp [inputValsSize] at hf; omega) (followOk_inputVals vs close rest hclose)
      have h2 := pInputVals_toks close hclose vs f rest hw.2 (by simp [inputValsSize] at hf; omega)
      obtain ⟨t, r, ht, hne⟩ := InputVal.toks_head v
      have e : inputValsToks (v :: vs) ++ .punct close :: rest = v.toks ++ (inputValsToks vs ++ .punct close :: rest) := by
        simp [inputValsToks]
      rw [e]
      have : pInputVals Quirks.spec close (f + 1) (v.toks ++ (inputValsToks vs ++ .punct close :: rest)) =
          match pInputVal Quirks.spec f (v.toks ++ (inputValsToks vs ++ .punct close :: rest)) with
          | some (v, r1) =>
            match pInputVals Quirks.spec close f r1 with
            | some (vs, r2) => some (v :: vs, r2)
            | none => none
          | none => none := by
        rw [ht]
        simp only [List.cons_append]
        cases t with
        | punct p => exact absurd rfl (hne p)
        | _ => rfl
      rw [this, h1]
      simp [h2]

theorem pInputValsOpt_toks (vs : List InputVal) (f : Nat) (rest : List Tok) (hwf : inputValsWf vs = true)
    (hf : inputValsSize vs ≤ f) (hrest : noHead [.lparen] rest = true) :
    pInputValsOpt Quirks.spec .lparen .rparen f (inputArgsToks vs ++ rest) = some (vs, rest) := by
  cases vs with
  | nil =>
    simp only [inputArgsToks, List.nil_append]
    unfold pInputValsOpt
    split
    · rename_i p r
      split
      · rename_i hp
        have : p = .lparen := by simpa using hp
        subst this
        simp [noHead] at hrest
      · rfl
    · rfl
  | cons v vs' =>
    have h := pInputVals_toks .rparen (by decide) (v :: vs') f rest hwf hf
    have e : inputArgsToks (v :: vs') ++ rest =
        .punct .lparen :: (inputValsToks (v :: vs') ++ .punct .rparen :: rest) := by simp [inputArgsToks]
    rw [e]
    simp [pInputValsOpt, h]

def FieldDef.wf (fd : FieldDef) : Bool :=
  fd.hack.isNone && inputValsWf fd.args && fd.ty.wf && dirsWf true fd.dirs

def FieldDef.size (fd : FieldDef) : Nat := inputValsSize fd.args + fd.ty.depth + dirsSize fd.dirs

/-- `pFieldDef` reads back a printed field definition -/
theorem pFieldDef_toks (fd : FieldDef) (f : Nat) (rest : List Tok) (hwf : fd.wf = true) (hf : fd.size ≤ f)
    (hrest : noHead [.bang, .at, .lparen] rest = true) :
    pFieldDef Quirks.spec f (fd.toks ++ rest) = some (fd, rest) := by
  have hw : ((fd.hack = none ∧ inputValsWf fd.args = true) ∧ fd.ty.wf = true) ∧ dirsWf true fd.dirs = true := by
    simpa [FieldDef.wf] using hwf
  have hd := pDirs_toks true fd.dirs f rest hw.2 (by simp [FieldDef.size] at hf; omega)
    (noHead_mono _ _ _ hrest (by intro p; cases p <;> simp))
  have hty_rest : noBang (dirsToks fd.dirs ++ rest) = true := by
    cases hds : fd.dirs with
    | nil => simpa [dirsToks] using noBang_of_noHead _ _ hrest (by decide)
    | cons d ds => simp [dirsToks, Dir.toks, noBang]
  have hty := pType_roundtrip fd.ty f _ hw.1.2 (by simp [FieldDef.size] at hf; omega) hty_rest
  have hargs := pInputValsOpt_toks fd.args f (.punct .colon :: (fd.ty.toks ++ (dirsToks fd.dirs ++ rest)))
    hw.1.1.2 (by simp [FieldDef.size] at hf; omega) rfl
  have hdesc := pDesc_descToks fd.desc
    (.name fd.name :: (inputArgsToks fd.args ++ .punct .colon :: (fd.ty.toks ++ (dirsToks fd.dirs ++ rest))))
    (by intro raw r; simp)
  have e : fd.toks ++ rest = descToks fd.desc ++ (.name fd.name :: (inputArgsToks fd.args ++
      .punct .colon :: (fd.ty.toks ++ (dirsToks fd.dirs ++ rest)))) := by
    simp [FieldDef.toks]
  rw [e]
  have hq : Quirks.spec.hackSource = false := rfl
  simp only [pFieldDef, hdesc, hq, Bool.false_eq_true, if_false, hargs, hty, hd]
  have hh := hw.1.1.1
  cases fd
  simp_all

end IsoVerif.Gql
