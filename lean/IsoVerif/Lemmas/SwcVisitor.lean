/-
Helper lemmas for Props/C28.lean, part 4: the decision table of the visitor on accepted literals, and a
record of the regex as it was before the repair (`fix:` 3bc2a88), on which the model reproduces F16.
-/
import IsoVerif.Lemmas.SwcHeader
import IsoVerif.Lemmas.SwcPath

namespace IsoVerif.Swc
open IsoVerif.Gen.SwcLits

theorem parse_idents {lit k t f r : Str} (h : parseHeaderRest lit = some (k, t, f, r)) : IsIdent t ∧ IsIdent f :=
  ⟨(shape_of_parse h).it, (shape_of_parse h).ifd⟩

theorem identStart_not_dot : isIdentStart 46 = false := by decide
theorem identStart_not_sep : isIdentStart pathSep = false := by decide
theorem identCont_not_sep : isIdentCont pathSep = false := by decide

/-- an Identifier token is an ordinary path component -/
theorem ident_normal {x : Str} (h : IsIdent x) : NormalComp x := by
  obtain ⟨c, cs, rfl, hc, hcs⟩ := h
  have hc46 : c ≠ 46 := fun e => by rw [e, identStart_not_dot] at hc; exact Bool.noConfusion hc
  refine ⟨by simp, ?_, ?_, ?_⟩
  · intro e; simp [dot] at e; exact hc46 e.1
  · intro e; simp [dotdot] at e; exact hc46 e.1
  · intro hm
    simp only [List.mem_cons] at hm
    rcases hm with e | hm
    · rw [← e, identStart_not_sep] at hc; exact Bool.noConfusion hc
    · have := hcs _ hm
      rw [identCont_not_sep] at this; exact Bool.noConfusion this

/-- the two keyword tables agree: the parser's entrypoint keyword is the transform's Entrypoint type,
its field and pointer keywords are the transform's Field type -/
theorem kinds_agree : ∀ p ∈ parserKeywords, artifactType p.1 = some (p.2 == 0) := by decide

theorem artifactType_of_parserKind {k : Str} {n : Nat} (h : parserKind k = some n) :
    artifactType k = some (n == 0) := by
  unfold parserKind at h
  cases hf : parserKeywords.find? (fun p => p.1 == k) with
  | none => simp [hf] at h
  | some p =>
    have h1 := List.mem_of_find?_eq_some hf
    have h2 : p.1 = k := by simpa using List.find?_some hf
    have h3 : p.2 = n := by simpa [hf] using h
    rw [← h2, ← h3]
    exact kinds_agree p h1

theorem parseHeader_rest {lit k t f : Str} (h : parseHeader lit = some (k, t, f)) :
    ∃ r, parseHeaderRest lit = some (k, t, f, r) := by
  unfold parseHeader at h
  cases hp : parseHeaderRest lit with
  | none => simp [hp] at h
  | some q =>
    obtain ⟨k', t', f', r⟩ := q
    simp [hp] at h
    obtain ⟨rfl, rfl, rfl⟩ := h
    exact ⟨r, rfl⟩

theorem parserKind_of_parse {lit k t f : Str} (h : parseHeader lit = some (k, t, f)) : ∃ n, parserKind k = some n := by
  obtain ⟨r, hr⟩ := parseHeader_rest h
  obtain ⟨p, hp, rfl⟩ := (shape_of_parse hr).kw
  have := kinds_agree p hp
  cases hk : parserKind p.1 with
  | some n => exact ⟨n, rfl⟩
  | none =>
    exfalso
    unfold parserKind at hk
    have : parserKeywords.find? (fun q => q.1 == p.1) = none := by simpa using hk
    have h2 := List.find?_eq_none.mp this p hp
    simp at h2

/-! ### OPERATION_REGEX before the repair: `\s*(entrypoint|field|pointer)\s*([^\.\s]+)\.([^\s\(]+)`
(the AST the translator produced from the source at 3bc2a88^) -/

def oldWs : List (Nat × Nat) :=
  [(9, 13), (32, 32), (133, 133), (160, 160), (5760, 5760), (8192, 8202), (8232, 8233), (8239, 8239), (8287, 8287), (12288, 12288)]

def oldOpRegex : Re :=
  .cat (.star (.cls false oldWs)) (.cat (.grp 1 (.alt (.lit [101, 110, 116, 114, 121, 112, 111, 105, 110, 116])
    (.alt (.lit [102, 105, 101, 108, 100]) (.lit [112, 111, 105, 110, 116, 101, 114]))))
    (.cat (.star (.cls false oldWs)) (.cat (.grp 2 (.plus (.cls true ((46, 46) :: oldWs))))
      (.cat (.lit [46]) (.grp 3 (.plus (.cls true (oldWs ++ [(40, 40)]))))))))

def oldMatch (lit : Str) : Option (Str × Str × Str) :=
  match search oldOpRegex (trim lit) with
  | none => none
  | some st =>
    match cap st 1, cap st 2, cap st 3 with
    | some k, some t, some f => some (k, t, f)
    | _, _, _ => none

end IsoVerif.Swc
