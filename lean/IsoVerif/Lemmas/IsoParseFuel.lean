/-
Fuel sufficiency for the parser model: with a budget larger than the number of tokens still to be
consumed, no parse function returns `.fuel`.  A second, much simpler program logic (`FSpec`) over the
measure `rem st` = number of tokens not yet consumed.
-/
import IsoVerif.Lemmas.IsoParseLogic

namespace IsoVerif.IsoParse
open IsoVerif.Lex IsoVerif.IsoLex IsoVerif.Gen.IsoTokens

/-- tokens not yet consumed (the end-of-file marker does not count) -/
def rem (st : PL) : Nat := if st.cur.kind = .EndOfFile then 0 else st.rest.length + 1

/-- from states with fewer than `m` tokens left: `p` does not run out of fuel, never "un-consumes",
and (when `c`) consumes at least one token on success -/
def FSpec {α : Type} (m : Nat) (c : Bool) (p : P α) : Prop :=
  ∀ st, rem st < m →
    match p st with
    | .ok _ st' => rem st' ≤ rem st ∧ (c = true → rem st' < rem st)
    | .err _ st' => rem st' ≤ rem st
    | .panic _ => True
    | .fuel => False

theorem FSpec.pure {α : Type} {m : Nat} (a : α) : FSpec m false (pure a : P α) := by
  intro st _; exact ⟨Nat.le_refl _, by simp⟩

theorem FSpec.fail {α : Type} {m : Nat} {c : Bool} (d : Diag) : FSpec m c (fail d : P α) := by
  intro st _; exact Nat.le_refl _

theorem FSpec.panic {α : Type} {m : Nat} {c : Bool} (s : Site) : FSpec m c (panic s : P α) := by
  intro st _; trivial

theorem FSpec.zero {α : Type} {c : Bool} (p : P α) : FSpec 0 c p := by
  intro st h; omega

theorem FSpec.mono {α : Type} {m m' : Nat} {c : Bool} {p : P α} (h : FSpec m c p) (hm : m' ≤ m) : FSpec m' c p :=
  fun st hst => h st (by omega)

theorem FSpec.toFalse {α : Type} {m : Nat} {c : Bool} {p : P α} (h : FSpec m c p) : FSpec m false p := by
  intro st hst
  have := h st hst
  cases hp : p st with
  | ok a st' => rw [hp] at this; exact ⟨this.1, by simp⟩
  | err d st' => rw [hp] at this; exact this
  | panic s => trivial
  | fuel => rw [hp] at this; exact this

/-- general sequencing: the continuation runs with the budget `m'` that is left, which is `m - 1`
when the first part is known to consume -/
theorem FSpec.bindG {α β : Type} {m m' : Nat} {c1 c2 c : Bool} {p : P α} {f : α → P β}
    (h1 : FSpec m c1 p) (h2 : ∀ a, FSpec m' c2 (f a))
    (hm : (c1 = true ∧ m ≤ m' + 1) ∨ m ≤ m') (hc : c = true → c1 = true ∨ c2 = true) :
    FSpec m c (p >>= f) := by
  intro st hst
  rw [bind_apply]
  have hp := h1 st hst
  cases h : p st with
  | ok a st1 =>
    rw [h] at hp
    obtain ⟨hle, hlt⟩ := hp
    have hst1 : rem st1 < m' := by
      rcases hm with ⟨hc1, hm⟩ | hm
      · have := hlt hc1; omega
      · omega
    have hf := h2 a st1 hst1
    simp only
    cases h' : f a st1 with
    | ok b st2 =>
      rw [h'] at hf
      refine ⟨by omega, fun hcc => ?_⟩
      rcases hc hcc with hc1 | hc2
      · have := hlt hc1; omega
      · have := hf.2 hc2; omega
    | err d st2 => rw [h'] at hf; omega
    | panic s => trivial
    | fuel => rw [h'] at hf; exact hf
  | err d st1 => rw [h] at hp; exact hp
  | panic s => trivial
  | fuel => rw [h] at hp; exact hp

theorem FSpec.bindF {α β : Type} {m : Nat} {c1 : Bool} {p : P α} {f : α → P β}
    (h1 : FSpec m c1 p) (h2 : ∀ a, FSpec m false (f a)) : FSpec m false (p >>= f) :=
  FSpec.bindG h1 h2 (.inr (Nat.le_refl _)) (by simp)

/-- the first part consumes: the rest may run on a budget one smaller -/
theorem FSpec.bindL {α β : Type} {m : Nat} {p : P α} {f : α → P β}
    (h1 : FSpec (m + 1) true p) (h2 : ∀ a, FSpec m false (f a)) : FSpec (m + 1) true (p >>= f) :=
  FSpec.bindG h1 h2 (.inl ⟨rfl, Nat.le_refl _⟩) (fun _ => .inl rfl)

theorem FSpec.bindR {α β : Type} {m : Nat} {c1 : Bool} {p : P α} {f : α → P β}
    (h1 : FSpec m c1 p) (h2 : ∀ a, FSpec m true (f a)) : FSpec m true (p >>= f) :=
  FSpec.bindG h1 h2 (.inr (Nat.le_refl _)) (fun _ => .inr rfl)

/-- `match ← attempt p with …`: the `ok` continuation runs on budget `m'` (one smaller when `p`
consumes), the `error` continuation on the full budget -/
theorem FSpec.attemptG {α β : Type} {m m' : Nat} {c1 c2 c3 c : Bool} {p : P α} {k : Except Diag α → P β}
    (h1 : FSpec m c1 p) (hok : ∀ a, FSpec m' c2 (k (.ok a))) (herr : ∀ d, FSpec m c3 (k (.error d)))
    (hm : (c1 = true ∧ m ≤ m' + 1) ∨ m ≤ m') (hc : c = true → (c1 = true ∨ c2 = true) ∧ c3 = true) :
    FSpec m c (attempt p >>= k) := by
  intro st hst
  rw [bind_apply]
  unfold attempt
  have hp := h1 st hst
  cases h : p st with
  | ok a st1 =>
    rw [h] at hp
    obtain ⟨hle, hlt⟩ := hp
    have hst1 : rem st1 < m' := by
      rcases hm with ⟨hc1, hm⟩ | hm
      · have := hlt hc1; omega
      · omega
    have hf := hok a st1 hst1
    simp only
    cases h' : k (.ok a) st1 with
    | ok b st2 =>
      rw [h'] at hf
      refine ⟨by omega, fun hcc => ?_⟩
      rcases (hc hcc).1 with hc1 | hc2
      · have := hlt hc1; omega
      · have := hf.2 hc2; omega
    | err d st2 => rw [h'] at hf; omega
    | panic s => trivial
    | fuel => rw [h'] at hf; exact hf
  | err d st1 =>
    rw [h] at hp
    have hf := herr d st1 (by omega)
    simp only
    cases h' : k (.error d) st1 with
    | ok b st2 =>
      rw [h'] at hf
      refine ⟨by omega, fun hcc => ?_⟩
      have := hf.2 (hc hcc).2
      omega
    | err d2 st2 => rw [h'] at hf; omega
    | panic s => trivial
    | fuel => rw [h'] at hf; exact hf
  | panic s => trivial
  | fuel => rw [h] at hp; exact hp

theorem FSpec.attemptF {α β : Type} {m : Nat} {c1 : Bool} {p : P α} {k : Except Diag α → P β}
    (h1 : FSpec m c1 p) (hok : ∀ a, FSpec m false (k (.ok a))) (herr : ∀ d, FSpec m false (k (.error d))) :
    FSpec m false (attempt p >>= k) :=
  FSpec.attemptG h1 hok herr (.inr (Nat.le_refl _)) (by simp)

/-- `p` consumes; on `ok` the rest runs on `m`, on `error` a consuming alternative follows -/
theorem FSpec.attemptT {α β : Type} {m : Nat} {p : P α} {k : Except Diag α → P β}
    (h1 : FSpec (m + 1) true p) (hok : ∀ a, FSpec m false (k (.ok a))) (herr : ∀ d, FSpec (m + 1) true (k (.error d))) :
    FSpec (m + 1) true (attempt p >>= k) :=
  FSpec.attemptG h1 hok herr (.inl ⟨rfl, Nat.le_refl _⟩) (fun _ => ⟨.inl rfl, rfl⟩)

end IsoVerif.IsoParse

namespace IsoVerif.IsoParse
open IsoVerif.Lex IsoVerif.IsoLex IsoVerif.Gen.IsoTokens

theorem FSpec.bindL0 {α β : Type} {m : Nat} {p : P α} {f : α → P β}
    (h1 : FSpec m true p) (h2 : ∀ a, FSpec m false (f a)) : FSpec m true (p >>= f) :=
  FSpec.bindG h1 h2 (.inr (Nat.le_refl _)) (fun _ => .inl rfl)

theorem FSpec.attemptT0 {α β : Type} {m : Nat} {p : P α} {k : Except Diag α → P β}
    (h1 : FSpec m true p) (hok : ∀ a, FSpec m false (k (.ok a))) (herr : ∀ d, FSpec m true (k (.error d))) :
    FSpec m true (attempt p >>= k) :=
  FSpec.attemptG h1 hok herr (.inr (Nat.le_refl _)) (fun _ => ⟨.inl rfl, rfl⟩)

/-! ## primitives -/

theorem rem_parseToken (t : ST) (st : PL) (hk : st.cur.kind ≠ .EndOfFile) :
    ∃ st', parseToken t st = .ok st.cur st' ∧ rem st' < rem st := by
  unfold parseToken
  cases hr : st.rest with
  | nil =>
    refine ⟨_, rfl, ?_⟩
    simp [rem, eofTok, hk, hr]
  | cons n r =>
    refine ⟨_, rfl, ?_⟩
    simp only [rem, hk, if_false, hr, List.length_cons]
    split <;> omega

theorem fspec_peek {m : Nat} : FSpec m false peek := by
  intro st _; exact ⟨Nat.le_refl _, by simp⟩

theorem fspec_get {m : Nat} : FSpec m false get := by
  intro st _; exact ⟨Nat.le_refl _, by simp⟩

theorem fspec_source {m : Nat} (sp : Span) : FSpec m false (source sp) := by
  intro st _
  unfold source
  cases slice st.src sp.s sp.e with
  | some b => exact ⟨Nat.le_refl _, by simp⟩
  | none => trivial

theorem fspec_spanNew {m : Nat} (s e : Nat) : FSpec m false (spanNew s e) := by
  unfold spanNew
  split
  · exact FSpec.pure _
  · exact FSpec.panic _

theorem fspec_tokenOfKind {m : Nat} (k : IsoKind) (t : ST) (hk : k ≠ .EndOfFile) : FSpec m true (tokenOfKind k t) := by
  intro st _
  simp only [tokenOfKind, bind_apply, peek_apply]
  by_cases hkk : st.cur.kind = k
  · simp only [hkk, if_true]
    obtain ⟨st', h1, h2⟩ := rem_parseToken t st (by rw [hkk]; exact hk)
    rw [h1]
    exact ⟨Nat.le_of_lt h2, fun _ => h2⟩
  · simp only [hkk, if_false, fail_apply]
    exact Nat.le_refl _

theorem fspec_sourceOfKind {m : Nat} (k : IsoKind) (t : ST) (hk : k ≠ .EndOfFile) : FSpec m true (sourceOfKind k t) := by
  unfold sourceOfKind
  exact FSpec.bindL0 (fspec_tokenOfKind k t hk) fun tok => FSpec.bindF (fspec_source _) fun _ => FSpec.pure _

theorem fspec_withLoc {α : Type} {m : Nat} {c : Bool} {p : P α} (h : FSpec m c p) : FSpec m c (withLoc p) := by
  unfold withLoc
  refine FSpec.bindG (c1 := false) (c2 := c) fspec_get (fun st0 => ?_) (.inr (Nat.le_refl _)) (fun h => .inr h)
  refine FSpec.bindG (c1 := c) (c2 := false) h (fun r => ?_) (.inr (Nat.le_refl _)) (fun h => .inl h)
  exact FSpec.bindF fspec_get fun st1 => FSpec.bindF (fspec_spanNew _ _) fun _ => FSpec.pure _

theorem fspec_withOptLoc {α : Type} {m : Nat} {c : Bool} {p : P (Option α)} (h : FSpec m c p) :
    FSpec m c (withOptLoc p) := by
  unfold withOptLoc
  refine FSpec.bindG (c1 := false) (c2 := c) fspec_get (fun st0 => ?_) (.inr (Nat.le_refl _)) (fun h => .inr h)
  refine FSpec.bindG (c1 := c) (c2 := false) h (fun r => ?_) (.inr (Nat.le_refl _)) (fun h => .inl h)
  refine FSpec.bindF fspec_get fun st1 => ?_
  split
  · split
    · exact FSpec.pure _
    · exact FSpec.panic _
  · exact FSpec.bindF (fspec_spanNew _ _) fun _ => FSpec.pure _

theorem fspec_whiteSpaceSpan {m : Nat} : FSpec m false whiteSpaceSpan := by
  unfold whiteSpaceSpan
  exact FSpec.bindF fspec_get fun _ => fspec_spanNew _ _

theorem fspec_revSem {m : Nat} : FSpec m false revSem := by
  unfold revSem
  exact FSpec.bindF fspec_get fun _ => FSpec.pure _

theorem fspec_remainingTokenSpan {m : Nat} : FSpec m false remainingTokenSpan := by
  intro st _
  simp only [remainingTokenSpan, bind_apply, get_apply]
  by_cases hk : st.cur.kind = .EndOfFile
  · simp only [hk, if_true, pure_apply]
    exact ⟨Nat.le_refl _, by simp⟩
  · simp only [hk, if_false]
    obtain ⟨st', h1, h2⟩ := rem_parseToken .COMMENT st hk
    simp only [bind_apply, h1]
    unfold spanNew
    by_cases hle : st.cur.s ≤ st.src.length
    · simp only [hle, if_true, pure_apply]; exact ⟨Nat.le_of_lt h2, by simp⟩
    · simp only [hle, if_false, panic_apply]

/-! ## parse functions -/

theorem fspec_parseComma {m : Nat} : FSpec m true parseComma := fspec_tokenOfKind _ _ (by decide)

theorem fspec_parseLineBreak {m : Nat} : FSpec m false parseLineBreak := by
  unfold parseLineBreak
  refine FSpec.bindF fspec_whiteSpaceSpan fun ws => FSpec.bindF (fspec_source ws) fun text => ?_
  split
  · exact FSpec.pure _
  · exact FSpec.bindF fspec_peek fun t => FSpec.fail _

theorem fspec_parseCommaOrLineBreak {m : Nat} : FSpec m false parseCommaOrLineBreak := by
  unfold parseCommaOrLineBreak
  refine FSpec.attemptF fspec_parseComma (fun _ => FSpec.pure _) fun _ => ?_
  refine FSpec.attemptF fspec_parseLineBreak (fun _ => FSpec.pure _) fun _ => ?_
  exact FSpec.bindF fspec_peek fun t => FSpec.fail _

theorem fspec_delimLoop {α : Type} {M : Nat} {item : P α} (hitem : FSpec M true item)
    {delim : P Unit} (hdelim : FSpec M false delim) (closeK : IsoKind) (closeT : ST) (hk : closeK ≠ .EndOfFile) :
    ∀ (fuel : Nat) (acc : List α), fuel ≤ M → FSpec fuel true (delimLoop item delim closeK closeT fuel acc)
  | 0, _, _ => FSpec.zero _
  | fuel + 1, acc, hle => by
    unfold delimLoop
    refine FSpec.bindL (hitem.mono hle) fun x => ?_
    have hle' : fuel ≤ M := by omega
    refine FSpec.attemptF (fspec_tokenOfKind closeK closeT hk) (fun t => FSpec.pure _) fun _ => ?_
    refine FSpec.bindF (hdelim.mono hle') fun _ => ?_
    refine FSpec.attemptF (fspec_tokenOfKind closeK closeT hk) (fun t => FSpec.pure _) fun _ => ?_
    exact (fspec_delimLoop hitem hdelim closeK closeT hk fuel _ hle').toFalse

theorem fspec_delimitedList {α : Type} {M : Nat} {item : P α} (hitem : FSpec M true item)
    {delim : P Unit} (hdelim : FSpec M false delim) (closeK : IsoKind) (closeT : ST) (hk : closeK ≠ .EndOfFile)
    (fuel : Nat) (hle : fuel ≤ M) : FSpec fuel true (delimitedList item delim closeK closeT fuel) := by
  unfold delimitedList
  refine FSpec.attemptT0 (fspec_tokenOfKind closeK closeT hk) (fun t => FSpec.pure _) fun _ => ?_
  exact fspec_delimLoop hitem hdelim closeK closeT hk fuel [] hle

theorem fspec_stripQuotes {m : Nat} (b : Bytes) : FSpec m false (stripQuotes b) := by
  unfold stripQuotes
  split
  · exact FSpec.panic _
  · split
    · exact FSpec.pure _
    · exact FSpec.panic _

theorem fspec_cleanBlockString {m : Nat} (b : Bytes) : FSpec m false (cleanBlockString b) := by
  unfold cleanBlockString
  split
  · exact FSpec.panic _
  · split
    · exact FSpec.panic _
    · exact FSpec.pure _

theorem fspec_parseObjectEntry {m : Nat} {value : P (Loc Value)} (hv : FSpec m true value) :
    FSpec m true (parseObjectEntry value) := by
  unfold parseObjectEntry
  refine FSpec.bindL0 (fspec_sourceOfKind _ _ (by decide)) fun name => ?_
  refine FSpec.bindF (fspec_tokenOfKind _ _ (by decide)) fun _ => ?_
  exact FSpec.bindF hv fun v => FSpec.pure _

theorem fspec_parseValue : ∀ (fuel : Nat), FSpec fuel true (parseValue fuel)
  | 0 => FSpec.zero _
  | fuel + 1 => by
    unfold parseValue
    refine FSpec.attemptT0 ?_ (fun v => FSpec.pure v) fun _ => ?_
    · refine FSpec.bindL0 (fspec_tokenOfKind _ _ (by decide)) fun _ => ?_
      exact FSpec.bindF (fspec_sourceOfKind _ _ (by decide)) fun name => FSpec.pure _
    refine FSpec.attemptT0 ?_ (fun v => FSpec.pure v) fun _ => ?_
    · refine FSpec.bindL0 (fspec_sourceOfKind _ _ (by decide)) fun s => ?_
      exact FSpec.bindF (fspec_stripQuotes _) fun inner => FSpec.pure _
    refine FSpec.attemptT0 (fspec_sourceOfKind _ _ (by decide)) (fun number => ?_) fun _ => ?_
    · dsimp only
      split
      · exact FSpec.pure _
      · exact FSpec.fail _
    refine FSpec.attemptT0 ?_ (fun v => FSpec.pure v) fun _ => ?_
    · refine FSpec.bindL (fspec_tokenOfKind _ _ (by decide)) fun openT => ?_
      refine FSpec.bindF (fspec_delimitedList (fspec_parseObjectEntry (fspec_parseValue fuel)) fspec_parseCommaOrLineBreak
        .CloseBrace .CLOSE_BRACE (by decide) fuel (Nat.le_refl _)) fun entries => ?_
      exact FSpec.bindF (fspec_spanNew _ _) fun sp => FSpec.pure _
    refine FSpec.attemptT0 ?_ (fun v => FSpec.pure v) fun _ => FSpec.fail _
    refine FSpec.bindL0 (fspec_sourceOfKind _ _ (by decide)) fun w => ?_
    split
    · exact FSpec.pure _
    · split
      · exact FSpec.pure _
      · split
        · exact FSpec.pure _
        · exact FSpec.fail _

theorem fspec_parseArgument (fuel : Nat) : FSpec fuel true (parseArgument fuel) := by
  unfold parseArgument
  refine fspec_withLoc ?_
  refine FSpec.bindL0 (fspec_sourceOfKind _ _ (by decide)) fun name => ?_
  refine FSpec.bindF (fspec_tokenOfKind _ _ (by decide)) fun _ => ?_
  exact FSpec.bindF (fspec_parseValue fuel) fun v => FSpec.pure _

theorem fspec_parseOptionalArguments (fuel : Nat) : FSpec fuel false (parseOptionalArguments fuel) := by
  unfold parseOptionalArguments
  refine FSpec.attemptF (fspec_tokenOfKind _ _ (by decide)) (fun _ => ?_) fun _ => FSpec.pure _
  exact FSpec.bindF (fspec_delimitedList (fspec_parseArgument fuel) fspec_parseCommaOrLineBreak .CloseParen .CLOSE_PAREN
    (by decide) fuel (Nat.le_refl _)) fun l => FSpec.pure _

theorem fspec_directivesLoop (fuel0 : Nat) : ∀ (fuel : Nat) (acc : List (Loc Directive)), fuel ≤ fuel0 →
    FSpec fuel false (directivesLoop fuel0 fuel acc)
  | 0, _, _ => FSpec.zero _
  | fuel + 1, acc, hle => by
    unfold directivesLoop
    refine FSpec.attemptG (m' := fuel) (c2 := false) (c3 := false) (fspec_tokenOfKind (m := fuel + 1) .At .DIRECTIVE_AT (by decide))
      (fun atTok => ?_) (fun _ => FSpec.pure _) (.inl ⟨rfl, Nat.le_refl _⟩) (by simp)
    have hle' : fuel ≤ fuel0 := by omega
    refine FSpec.bindF (fspec_sourceOfKind _ _ (by decide)) fun name => ?_
    refine FSpec.bindF (fspec_spanNew _ _) fun sp => ?_
    refine FSpec.bindF ((fspec_parseOptionalArguments fuel0).mono hle') fun args => ?_
    exact fspec_directivesLoop fuel0 fuel _ hle'

theorem fspec_parseDirectives (fuel : Nat) : FSpec fuel false (parseDirectives fuel) := by
  unfold parseDirectives
  refine FSpec.bindF (fspec_withOptLoc (c := false) ?_) fun r => ?_
  · refine FSpec.bindF (fspec_directivesLoop fuel fuel [] (Nat.le_refl _)) fun ds => ?_
    split <;> exact FSpec.pure _
  · split <;> exact FSpec.pure _

theorem fspec_parseType : ∀ (fuel : Nat), FSpec fuel true (parseType fuel)
  | 0 => FSpec.zero _
  | fuel + 1 => by
    unfold parseType
    refine fspec_withLoc ?_
    refine FSpec.attemptT0 ?_ (fun t => FSpec.pure t) fun _ => ?_
    · refine FSpec.bindL0 (fspec_sourceOfKind _ _ (by decide)) fun name => ?_
      exact FSpec.attemptF (fspec_tokenOfKind _ _ (by decide)) (fun _ => FSpec.pure _) (fun _ => FSpec.pure _)
    refine FSpec.attemptT0 ?_ (fun t => FSpec.pure t) fun _ => ?_
    · refine FSpec.bindL (fspec_tokenOfKind _ _ (by decide)) fun _ => ?_
      refine FSpec.bindF (fspec_parseType fuel) fun inner => ?_
      refine FSpec.bindF (fspec_tokenOfKind _ _ (by decide)) fun _ => ?_
      exact FSpec.attemptF (fspec_tokenOfKind _ _ (by decide)) (fun _ => FSpec.pure _) (fun _ => FSpec.pure _)
    exact FSpec.bindR fspec_peek fun t => FSpec.fail _

theorem fspec_parseOptionalDefaultValue (fuel : Nat) : FSpec fuel false (parseOptionalDefaultValue fuel) := by
  unfold parseOptionalDefaultValue
  refine FSpec.attemptF (fspec_tokenOfKind _ _ (by decide)) (fun _ => ?_) fun _ => FSpec.pure _
  refine FSpec.bindF (fspec_parseValue fuel) fun v => ?_
  split
  · exact FSpec.fail _
  · exact FSpec.pure _

theorem fspec_parseVariableDefinition (fuel : Nat) : FSpec fuel true (parseVariableDefinition fuel) := by
  unfold parseVariableDefinition
  refine fspec_withLoc ?_
  refine FSpec.bindL0 (fspec_tokenOfKind _ _ (by decide)) fun _ => ?_
  refine FSpec.bindF (fspec_sourceOfKind _ _ (by decide)) fun name => ?_
  refine FSpec.bindF (fspec_tokenOfKind _ _ (by decide)) fun _ => ?_
  refine FSpec.bindF (fspec_parseType fuel) fun ty => ?_
  exact FSpec.bindF (fspec_parseOptionalDefaultValue fuel) fun dv => FSpec.pure _

theorem fspec_parseVariableDefinitions (fuel : Nat) : FSpec fuel false (parseVariableDefinitions fuel) := by
  unfold parseVariableDefinitions
  refine FSpec.attemptF (fspec_tokenOfKind _ _ (by decide)) (fun _ => ?_) fun _ => FSpec.pure _
  exact FSpec.bindF (fspec_delimitedList (fspec_parseVariableDefinition fuel) fspec_parseCommaOrLineBreak .CloseParen .CLOSE_PAREN
    (by decide) fuel (Nat.le_refl _)) fun l => FSpec.pure _

theorem fspec_parseOptionalDescription {m : Nat} : FSpec m false parseOptionalDescription := by
  unfold parseOptionalDescription
  refine FSpec.attemptF (fspec_sourceOfKind _ _ (by decide)) (fun s => ?_) fun _ => ?_
  · exact FSpec.bindF (fspec_stripQuotes _) fun inner => FSpec.pure _
  refine FSpec.attemptF (fspec_sourceOfKind _ _ (by decide)) (fun s => ?_) fun _ => FSpec.pure _
  exact FSpec.bindF (fspec_cleanBlockString _) fun c => FSpec.pure _

theorem fspec_selectionDirectiveSet {m : Nat} (isObject : Bool) (ds : Loc (List (Loc Directive))) :
    FSpec m false (selectionDirectiveSet isObject ds) := by
  unfold selectionDirectiveSet
  split
  · exact FSpec.fail _
  · split
    · exact FSpec.pure _
    · split
      · exact FSpec.pure _
      · split
        · exact FSpec.pure _
        · exact FSpec.fail _

theorem fspec_parseUpToThreeDots {m : Nat} : FSpec m false parseUpToThreeDots := by
  unfold parseUpToThreeDots
  refine FSpec.attemptF (fspec_withLoc (c := false) ?_) (fun l => FSpec.pure _) fun _ => FSpec.pure _
  refine FSpec.bindF (fspec_sourceOfKind _ _ (by decide)) fun _ => ?_
  refine FSpec.bindF fspec_peek fun t => ?_
  split
  · refine FSpec.bindF (fspec_sourceOfKind _ _ (by decide)) fun _ => ?_
    refine FSpec.bindF fspec_peek fun t => ?_
    split
    · exact FSpec.bindF (fspec_sourceOfKind _ _ (by decide)) fun _ => FSpec.pure _
    · exact FSpec.pure _
  · exact FSpec.pure _

theorem fspec_parseOptionalAliasAndFieldName {m : Nat} : FSpec m true parseOptionalAliasAndFieldName := by
  unfold parseOptionalAliasAndFieldName
  refine FSpec.bindL0 (fspec_sourceOfKind _ _ (by decide)) fun first => ?_
  refine FSpec.attemptF (fspec_tokenOfKind _ _ (by decide)) (fun _ => ?_) fun _ => FSpec.pure _
  exact FSpec.bindF (fspec_sourceOfKind _ _ (by decide)) fun name => FSpec.pure _

/-- `parse_selection`: the nested selection set is parsed after the name was consumed, so it may
run on a budget one smaller -/
theorem fspec_parseSelection (fuel0 m : Nat) (hm : m + 1 ≤ fuel0) {optSet : P (Option (Loc Sels))}
    (hset : FSpec m false optSet) : FSpec (m + 1) true (parseSelection fuel0 optSet) := by
  unfold parseSelection
  refine FSpec.bindL0 (fspec_withLoc ?_) fun r => FSpec.pure _
  refine FSpec.bindR fspec_parseUpToThreeDots fun o => ?_
  split
  · exact FSpec.fail _
  · refine FSpec.bindL fspec_parseOptionalAliasAndFieldName fun na => ?_
    have hm' : m ≤ fuel0 := by omega
    refine FSpec.bindF ((fspec_parseOptionalArguments fuel0).mono hm') fun args => ?_
    refine FSpec.bindF ((fspec_parseDirectives fuel0).mono hm') fun dirs => ?_
    refine FSpec.bindF hset fun set => ?_
    refine FSpec.bindF fspec_parseCommaOrLineBreak fun _ => ?_
    exact FSpec.bindF (fspec_selectionDirectiveSet _ _) fun ds => FSpec.pure _

theorem fspec_braced {m : Nat} {c : Bool} {body : P (List Sel)} (hbody : FSpec m c body) :
    FSpec (m + 1) false (do
      match ← attempt (tokenOfKind .OpenBrace .OPEN_BRACE) with
      | .error _ => pure none
      | .ok _ =>
        let l ← body
        pure (some (selsOfList l))) := by
  refine FSpec.attemptG (m' := m) (c2 := false) (c3 := false) (fspec_tokenOfKind (m := m + 1) .OpenBrace .OPEN_BRACE (by decide))
    (fun _ => ?_) (fun _ => FSpec.pure _) (.inl ⟨rfl, Nat.le_refl _⟩) (by simp)
  exact FSpec.bindF hbody fun l => FSpec.pure _

theorem fspec_selLoop (fuel0 : Nat) : ∀ (fuel : Nat) (acc : List Sel), fuel ≤ fuel0 →
    FSpec fuel true (selLoop fuel0 fuel acc)
  | 0, _, _ => FSpec.zero _
  | fuel + 1, acc, hle => by
    unfold selLoop
    refine FSpec.attemptT0 (fspec_tokenOfKind _ _ (by decide)) (fun _ => FSpec.pure _) fun _ => ?_
    have hnested : FSpec fuel false (withOptLoc (do
        match ← attempt (tokenOfKind .OpenBrace .OPEN_BRACE) with
        | .error _ => pure none
        | .ok _ =>
          let l ← selLoop fuel0 fuel []
          pure (some (selsOfList l)))) := by
      cases fuel with
      | zero => exact FSpec.zero _
      | succ f =>
        exact fspec_withOptLoc (fspec_braced ((fspec_selLoop fuel0 (f + 1) [] (by omega)).mono (Nat.le_succ f)))
    refine FSpec.bindL (fspec_parseSelection fuel0 fuel (by omega) hnested) fun sel => ?_
    exact (fspec_selLoop fuel0 fuel _ (by omega)).toFalse

end IsoVerif.IsoParse

namespace IsoVerif.IsoParse
open IsoVerif.Lex IsoVerif.IsoLex IsoVerif.Gen.IsoTokens

theorem fspec_parseOptionalSelectionSet (fuel : Nat) : FSpec fuel false (parseOptionalSelectionSet fuel) := by
  unfold parseOptionalSelectionSet
  cases fuel with
  | zero => exact FSpec.zero _
  | succ f =>
    exact fspec_withOptLoc (fspec_braced ((fspec_selLoop (f + 1) (f + 1) [] (Nat.le_refl _)).mono (Nat.le_succ f)))

theorem fspec_parseClientFieldDeclarationInner (fuel : Nat) (ex : Option Bytes) :
    FSpec fuel false (parseClientFieldDeclarationInner fuel ex) := by
  unfold parseClientFieldDeclarationInner
  refine FSpec.bindF (fspec_withLoc (c := false) ?_) fun r => FSpec.pure _
  refine FSpec.bindF (fspec_sourceOfKind _ _ (by decide)) fun parent => ?_
  refine FSpec.bindF (fspec_tokenOfKind _ _ (by decide)) fun _ => ?_
  refine FSpec.bindF (fspec_sourceOfKind _ _ (by decide)) fun name => ?_
  refine FSpec.bindF (fspec_parseVariableDefinitions fuel) fun vars => ?_
  refine FSpec.bindF (fspec_parseDirectives fuel) fun dirs => ?_
  refine FSpec.bindF fspec_parseOptionalDescription fun desc => ?_
  refine FSpec.bindF (fspec_parseOptionalSelectionSet fuel) fun set => ?_
  split
  · exact FSpec.fail _
  · split
    · exact FSpec.fail _
    · exact FSpec.bindF fspec_revSem fun sem => FSpec.pure _

theorem fspec_parseClientPointerTargetType (fuel : Nat) : FSpec fuel false (parseClientPointerTargetType fuel) := by
  unfold parseClientPointerTargetType
  refine FSpec.bindF (fspec_sourceOfKind _ _ (by decide)) fun kw => ?_
  split
  · exact FSpec.fail _
  · exact (fspec_parseType fuel).toFalse

theorem fspec_parseClientPointerDeclarationInner (fuel : Nat) (ex : Option Bytes) :
    FSpec fuel false (parseClientPointerDeclarationInner fuel ex) := by
  unfold parseClientPointerDeclarationInner
  refine FSpec.bindF (fspec_withLoc (c := false) ?_) fun r => FSpec.pure _
  refine FSpec.bindF (fspec_sourceOfKind _ _ (by decide)) fun parent => ?_
  refine FSpec.bindF (fspec_tokenOfKind _ _ (by decide)) fun _ => ?_
  refine FSpec.bindF (fspec_sourceOfKind _ _ (by decide)) fun name => ?_
  refine FSpec.bindF (fspec_parseVariableDefinitions fuel) fun vars => ?_
  refine FSpec.bindF (fspec_parseClientPointerTargetType fuel) fun target => ?_
  refine FSpec.bindF (fspec_parseDirectives fuel) fun dirs => ?_
  refine FSpec.bindF fspec_parseOptionalDescription fun desc => ?_
  refine FSpec.bindF (fspec_parseOptionalSelectionSet fuel) fun set => ?_
  split
  · exact FSpec.fail _
  · split
    · exact FSpec.fail _
    · exact FSpec.bindF fspec_revSem fun sem => FSpec.pure _

theorem fspec_parseEntrypointInner (fuel : Nat) (kw : Span) : FSpec fuel false (parseEntrypointInner fuel kw) := by
  unfold parseEntrypointInner
  refine FSpec.bindF (fspec_withLoc (c := false) ?_) fun r => FSpec.pure _
  refine FSpec.bindF (fspec_sourceOfKind _ _ (by decide)) fun parent => ?_
  refine FSpec.bindF (fspec_tokenOfKind _ _ (by decide)) fun dot => ?_
  refine FSpec.bindF (fspec_sourceOfKind _ _ (by decide)) fun name => ?_
  refine FSpec.bindF (fspec_parseDirectives fuel) fun dirs => ?_
  exact FSpec.bindF fspec_revSem fun sem => FSpec.pure _

theorem fspec_noLeftover {m : Nat} (d : Decl) : FSpec m false (noLeftover d) := by
  unfold noLeftover
  refine FSpec.bindF fspec_remainingTokenSpan fun o => ?_
  split
  · exact FSpec.fail _
  · exact FSpec.pure _

theorem fspec_parseIsoLiteral (fuel : Nat) (ex : Option Bytes) : FSpec fuel false (parseIsoLiteral fuel ex) := by
  unfold parseIsoLiteral
  refine FSpec.bindF fspec_peek fun disc => ?_
  refine FSpec.bindF (fspec_source _) fun text => ?_
  split
  · refine FSpec.bindF (fspec_sourceOfKind _ _ (by decide)) fun kw => ?_
    exact FSpec.bindF (fspec_parseEntrypointInner fuel kw.span) fun d => fspec_noLeftover d
  · split
    · refine FSpec.bindF (fspec_sourceOfKind _ _ (by decide)) fun _ => ?_
      exact FSpec.bindF (fspec_parseClientFieldDeclarationInner fuel ex) fun d => fspec_noLeftover d
    · split
      · refine FSpec.bindF (fspec_sourceOfKind _ _ (by decide)) fun _ => ?_
        exact FSpec.bindF (fspec_parseClientPointerDeclarationInner fuel ex) fun d => fspec_noLeftover d
      · exact FSpec.fail _

/-- sorted, non-empty tokens inside `src`: there are at most `|src|` of them -/
theorem chain_length (src : Bytes) : ∀ (toks : List (Tok IsoKind)) (lo : Nat), Chain src lo toks →
    toks.length ≤ src.length - lo
  | [], _, _ => Nat.zero_le _
  | t :: ts, lo, h => by
    obtain ⟨h1, h2, _, h4, _, h6⟩ := h
    have := chain_length src ts t.e h6
    have := h4.1
    simp only [List.length_cons]
    omega

/-- the budget `|src| + 2` of `parseIso` is larger than the number of tokens -/
theorem rem_new_lt (src : Bytes) (hwf : WF src (PL.new src)) : rem (PL.new src) < src.length + 2 := by
  have hc := hwf.chain
  have hl := chain_length src _ _ hc
  unfold rem
  split
  · omega
  · omega

end IsoVerif.IsoParse
