/-
Preservation of the arena invariant by every atomic step (one lemma per field), and the
invariant along every trace from `init` / `initZero`.
-/
import IsoVerif.Lemmas.ArenaTrace
namespace IsoVerif.ArenaT
open IsoVerif.Arena IsoVerif.Gen.ArenaConsts

variable {s s' : St} {t : Tid}

theorem Inv.next_mod (h : Inv s) : s.next % W = s.next := Nat.mod_eq_of_lt h.noWrap
theorem Inv.min_le (h : Inv s) : minSize ≤ s.next := Nat.le_trans h.base_ge h.base_le

theorem base_ge_step (h : Inv s) (hs : Step s t s') : minSize ≤ s'.base := by
  have := h.base_ge
  cases hs <;> simpa using this

theorem base_le_step (h : Inv s) (hs : Step s t s') : s'.base ≤ s'.next := by
  have := h.base_le
  cases hs <;> (try simp) <;> omega

theorem resv_range_step (h : Inv s) (hs : Step s t s') :
    ∀ t i, resv (s'.thr t) = some i → s'.base ≤ i ∧ i < s'.next := by
  have h1 := h.resv_range; have h2 := h.base_le; have h3 := h.noWrap
  cases hs <;> intro t' i' <;> (try simp) <;> grind [resv, Nat.mod_eq_of_lt]

theorem resv_uniq_step (h : Inv s) (hs : Step s t s') :
    ∀ t t' i, resv (s'.thr t) = some i → resv (s'.thr t') = some i → t = t' := by
  have h1 := h.resv_range; have h2 := h.resv_uniq; have h3 := h.noWrap
  cases hs <;> intro t1 t2 i' <;> (try simp) <;> grind [resv, Nat.mod_eq_of_lt]

theorem hist_range_step (h : Inv s) (hs : Step s t s') :
    ∀ r, r ∈ addRefs s'.hist → s'.base ≤ r ∧ r < s'.next := by
  have h1 := h.resv_range; have h2 := h.hist_range
  cases hs <;> intro r' <;> (try simp [addRefs]) <;> grind [resv]

theorem hist_resv_step (h : Inv s) (hs : Step s t s') :
    ∀ t i, resv (s'.thr t) = some i → i ∉ addRefs s'.hist := by
  have h1 := h.hist_resv; have h2 := h.hist_range; have h3 := h.resv_uniq; have h4 := h.noWrap
  cases hs <;> intro t1 i' <;> (try simp [addRefs]) <;> grind [resv, Nat.mod_eq_of_lt]

theorem hist_nodup_step (h : Inv s) (hs : Step s t s') : (addRefs s'.hist).Nodup := by
  have h1 := h.hist_resv; have h2 := h.hist_nodup
  cases hs <;> (try simp [addRefs]) <;> grind [resv]

theorem cover_step (h : Inv s) (hs : Step s t s') :
    ∀ i, s'.base ≤ i → i < s'.next → i ∈ addRefs s'.hist ∨ ∃ t, resv (s'.thr t) = some i := by
  have h1 := h.cover; have h4 := h.next_mod; have h5 := h.min_le
  cases hs <;> intro i' hb hn <;> (try simp [addRefs] at *) <;> grind [resv, Nat.mod_eq_of_lt]

theorem mutex_iff_step (h : Inv s) (hs : Step s t s') :
    ∀ t, inCrit (s'.thr t) = true ↔ s'.mutex = some t := by
  have h1 := h.mutex_iff
  cases hs <;> intro t1 <;> (try simp) <;> grind [inCrit]

theorem held_ok_step (h : Inv s) (hs : Step s t s') :
    ∀ t i p, resv (s'.thr t) = some i → held (s'.thr t) = some p → s'.bucket (idxA i) = some p := by
  have h1 := h.held_ok; have h2 := h.fresh_ok
  cases hs <;> intro t1 i1 p1 <;> (try simp) <;> grind [resv, held]

theorem fresh_ok_step (h : Inv s) (hs : Step s t s') :
    ∀ t v i p, s'.thr t = .slowStore v i p →
      s'.bucket (idxA i) = none ∧ p < s'.nextAlloc ∧ (∀ a, s'.bucket a ≠ some p) ∧ (∀ b, s'.mem p b = none) := by
  have h1 := h.fresh_ok; have h2 := h.alloc_lt; have h3 := h.mem_fresh; have h4 := h.mutex_iff
  have h5 := h.held_ok
  cases hs <;> intro t1 v1 i1 p1 <;> (try simp) <;> grind [resv, held, inCrit]

theorem alloc_lt_step (h : Inv s) (hs : Step s t s') :
    ∀ a p, s'.bucket a = some p → p < s'.nextAlloc := by
  have h1 := h.fresh_ok; have h2 := h.alloc_lt
  cases hs <;> intro a1 p1 <;> (try simp) <;> grind

theorem alloc_inj_step (h : Inv s) (hs : Step s t s') :
    ∀ a a' p, s'.bucket a = some p → s'.bucket a' = some p → a = a' := by
  have h1 := h.fresh_ok; have h2 := h.alloc_inj
  cases hs <;> intro a1 a2 p1 <;> (try simp) <;> grind

theorem mem_fresh_step (h : Inv s) (hs : Step s t s') :
    ∀ p b, s'.nextAlloc ≤ p → s'.mem p b = none := by
  have h1 := h.held_ok; have h2 := h.alloc_lt; have h3 := h.mem_fresh
  cases hs <;> intro p1 b1 <;> (try simp) <;> grind [resv, held]

theorem slots_step (h : Inv s) (hs : Step s t s') :
    ∀ t v r, Ev.addRet t v r ∈ s'.hist → ∃ p, s'.bucket (idxA r) = some p ∧ s'.mem p (idxB r) = some v := by
  have h1 := h.slots; have h2 := h.fresh_ok
  cases hs
  case write v i p hpc =>
    intro t1 v1 r1 hm
    simp only [setPc_hist, List.mem_cons, Ev.addRet.injEq] at hm
    have hb : s.bucket (idxA i) = some p := h.held_ok t i p (by simp [hpc, resv]) (by simp [hpc, held])
    rcases hm with ⟨rfl, rfl, rfl⟩ | hm
    · exact ⟨p, by simpa using hb, by simp⟩
    · obtain ⟨p', hb', hm'⟩ := h1 t1 v1 r1 hm
      refine ⟨p', by simpa using hb', ?_⟩
      have hr : r1 ∈ addRefs s.hist := mem_addRefs.2 ⟨t1, v1, hm⟩
      have hne : i ≠ r1 := fun e => h.hist_resv t i (by simp [hpc, resv]) (e ▸ hr)
      have hri := h.hist_range r1 hr
      have hii := h.resv_range t i (by simp [hpc, resv])
      have hbg := h.base_ge; have hw := h.noWrap
      simp only [setPc_mem, upd2_apply]
      split
      · rename_i hc
        obtain ⟨rfl, hbb⟩ := hc
        have ha : idxA r1 = idxA i := h.alloc_inj _ _ _ hb' hb
        exact absurd (idx_inj (by omega) (by omega) (by omega) (by omega) ha hbb).symm hne
      · exact hm'
  all_goals (intro t1 v1 r1 <;> (try simp) <;> grind)

theorem slots0_step (h : Inv s) (hs : Step s t s') :
    ∀ i, minSize ≤ i → i < s'.base → ∃ p v, s'.bucket (idxA i) = some p ∧ s'.mem p (idxB i) = some v := by
  have h1 := h.slots0; have h2 := h.fresh_ok
  cases hs
  case write v i p hpc =>
    intro j hj1 hj2
    simp only [setPc_base] at hj2
    obtain ⟨p', v', hb', hm'⟩ := h1 j hj1 hj2
    have hb : s.bucket (idxA i) = some p := h.held_ok t i p (by simp [hpc, resv]) (by simp [hpc, held])
    have hii := h.resv_range t i (by simp [hpc, resv])
    have hw := h.noWrap; have hbg := h.base_ge
    by_cases hc : p' = p ∧ idxB j = idxB i
    · obtain ⟨rfl, hbb⟩ := hc
      have ha : idxA j = idxA i := h.alloc_inj _ _ _ hb' hb
      have := idx_inj (i := j) (j := i) (by omega) (by omega) (by omega) (by omega) ha hbb
      omega
    · exact ⟨p', v', by simpa using hb', by simp [hc, hm']⟩
  all_goals (intro j <;> (try simp) <;> grind)

theorem get_exp_step (h : Inv s) (hs : Step s t s') :
    ∀ t r v, gexp (s'.thr t) = some (r, some v) → ∃ t', Ev.addRet t' v r ∈ s'.hist := by
  have h1 := h.get_exp
  cases hs
  case startGet r hidle h0 hw =>
    intro t1 r1 v1
    by_cases ht : t1 = t
    · subst ht
      simp only [setPc_thr, if_true, setPc_hist]
      simp only [gexp, Option.some.injEq, Prod.mk.injEq]
      rintro ⟨rfl, hc⟩
      exact completed_mem hc
    · simp only [setPc_thr, ht, if_false, setPc_hist]; exact h1 t1 r1 v1
  all_goals (intro t1 r1 v1 <;> (try simp) <;> grind [gexp])

theorem get_ptr_step (h : Inv s) (hs : Step s t s') :
    ∀ t r v q, s'.thr t = .getRead r (some v) q → ∃ p, q = some (some p) ∧ s'.bucket (idxA r) = some p := by
  have h1 := h.get_ptr; have h2 := h.fresh_ok
  cases hs
  case getLoadOk r exp hpc ha =>
    intro t1 r1 v1 q1
    by_cases ht : t1 = t
    · subst ht
      simp only [setPc_thr, if_true, Pc.getRead.injEq, setPc_bucket]
      rintro ⟨rfl, rfl, rfl⟩
      obtain ⟨t', ht'⟩ := h.get_exp t1 r v1 (by simp [hpc, gexp])
      obtain ⟨p, hp, _⟩ := h.slots t' v1 r ht'
      exact ⟨p, by rw [hp], hp⟩
    · simp only [setPc_thr, ht, if_false, setPc_bucket]; exact h1 t1 r1 v1 q1
  case getLoadOob r exp hpc ha =>
    intro t1 r1 v1 q1
    by_cases ht : t1 = t
    · subst ht
      simp only [setPc_thr, if_true, Pc.getRead.injEq, setPc_bucket]
      rintro ⟨rfl, rfl, rfl⟩
      obtain ⟨t', ht'⟩ := h.get_exp t1 r v1 (by simp [hpc, gexp])
      have hr := h.hist_range r (mem_addRefs.2 ⟨t', v1, ht'⟩)
      have hbg := h.base_ge; have hw := h.noWrap
      exact absurd (idxA_lt (by omega) (by omega)) ha
    · simp only [setPc_thr, ht, if_false, setPc_bucket]; exact h1 t1 r1 v1 q1
  all_goals (intro t1 r1 v1 q1 <;> (try simp) <;> grind)

theorem get_ret_step (h : Inv s) (hs : Step s t s') :
    ∀ t r v res, Ev.getRet t r (some v) res ∈ s'.hist → res = .ok v := by
  have h1 := h.get_ret
  cases hs
  case getCheckPanic r exp hpc hlt =>
    intro t1 r1 v1 res1
    simp only [setPc_hist, List.mem_cons, Ev.getRet.injEq]
    rintro (⟨rfl, rfl, rfl, rfl⟩ | hm)
    · obtain ⟨t', ht'⟩ := h.get_exp t1 r1 v1 (by simp [hpc, gexp])
      have hr := h.hist_range r1 (mem_addRefs.2 ⟨t', v1, ht'⟩)
      rw [h.next_mod] at hlt; omega
    · exact h1 _ _ _ _ hm
  case getRead r exp q res hpc hres =>
    intro t1 r1 v1 res1
    simp only [setPc_hist, List.mem_cons, Ev.getRet.injEq]
    rintro (⟨rfl, rfl, rfl, rfl⟩ | hm)
    · obtain ⟨p, rfl, hb⟩ := h.get_ptr t1 r1 v1 q hpc
      obtain ⟨t', ht'⟩ := h.get_exp t1 r1 v1 (by simp [hpc, gexp])
      obtain ⟨p', hb', hm'⟩ := h.slots t' v1 r1 ht'
      have : p' = p := by rw [hb] at hb'; exact (Option.some.inj hb').symm
      subst this
      simp [hres, hm']
    · exact h1 _ _ _ _ hm
  all_goals (intro t1 r1 v1 res1 <;> (try simp) <;> grind)

theorem stores_ok_step (h : Inv s) (hs : Step s t s') :
    ∀ a p, (a, p) ∈ s'.stores → s'.bucket a = some p := by
  have h1 := h.stores_ok; have h2 := h.fresh_ok
  cases hs <;> intro a1 p1 <;> (try simp) <;> grind

theorem stores_nodup_step (h : Inv s) (hs : Step s t s') : (s'.stores.map Prod.fst).Nodup := by
  have h1 := h.stores_ok; have h2 := h.fresh_ok; have h3 := h.stores_nodup
  cases hs
  case store v i p hpc =>
    simp only [setPc_stores, List.map_cons, List.nodup_cons]
    refine ⟨?_, h3⟩
    intro hm
    obtain ⟨⟨a, p'⟩, hmem, rfl⟩ := List.mem_map.1 hm
    have := h1 _ _ hmem
    rw [(h2 t v i p hpc).1] at this
    cases this
  all_goals simpa using h3

theorem len_le_step (h : Inv s) (hs : Step s t s') :
    ∀ n, n ∈ lenVals s'.hist → n + minSize ≤ s'.next := by
  have h1 := h.len_le; have h2 := h.next_mod; have h3 := h.min_le
  cases hs <;> intro n1 <;> (try simp [lenVals]) <;> grind

theorem len_sorted_step (h : Inv s) (hs : Step s t s') : (lenVals s'.hist).Pairwise (· ≥ ·) := by
  have h1 := h.len_le; have h2 := h.next_mod; have h3 := h.len_sorted
  cases hs
  case lenOk hpc hm =>
    simp only [setPc_hist, lenVals, List.pairwise_cons]
    refine ⟨?_, h3⟩
    intro n hn
    have := h1 n hn
    omega
  all_goals simpa [lenVals] using h3

theorem bucket_used_step (h : Inv s) (hs : Step s t s') :
    ∀ a p, s'.bucket a = some p → ∃ i, minSize ≤ i ∧ i < s'.next ∧ idxA i = a := by
  have h1 := h.bucket_used
  cases hs
  case store v i p hpc =>
    intro a1 p1
    simp only [setPc_bucket, upd_apply, setPc_next]
    split
    · rintro -
      have hr := h.resv_range t i (by simp [hpc, resv])
      have := h.base_ge
      exact ⟨i, by omega, hr.2, by omega⟩
    · exact h1 a1 p1
  case fetchOk v hpc hm =>
    intro a1 p1 hb
    obtain ⟨i, h1', h2', h3'⟩ := h1 a1 p1 (by simpa using hb)
    exact ⟨i, h1', by simp; omega, h3'⟩
  case fetchPanic v hpc hm =>
    intro a1 p1 hb
    obtain ⟨i, h1', h2', h3'⟩ := h1 a1 p1 (by simpa using hb)
    exact ⟨i, h1', by simp; omega, h3'⟩
  all_goals (intro a1 p1 <;> (try simp) <;> exact h1 a1 p1)

theorem orphan_step (h : Inv s) (hs : Step s t s') :
    ∀ p, p < s'.nextAlloc → (∃ a, s'.bucket a = some p) ∨ (∃ t v i, s'.thr t = .slowStore v i p) := by
  have h1 := h.orphan
  cases hs
  case recheckMiss v i hpc hb =>
    intro p1 hp
    simp only [setPc_nextAlloc] at hp
    by_cases he : p1 = s.nextAlloc
    · right; exact ⟨t, v, i, by simp [he]⟩
    · have hp' : p1 < s.nextAlloc := Nat.lt_of_le_of_ne (Nat.le_of_lt_succ hp) he
      rcases h1 p1 hp' with ⟨a, ha⟩ | ⟨t', v', i', ht'⟩
      · left; exact ⟨a, by simpa using ha⟩
      · right
        refine ⟨t', v', i', ?_⟩
        by_cases ht : t' = t
        · subst ht; rw [hpc] at ht'; cases ht'
        · simp [ht, ht']
  case store v i p hpc =>
    intro p1 hp
    rcases h1 p1 (by simpa using hp) with ⟨a, ha⟩ | ⟨t', v', i', ht'⟩
    · left
      refine ⟨a, ?_⟩
      by_cases he : a = idxA i
      · subst he; rw [(h.fresh_ok t v i p hpc).1] at ha; cases ha
      · simp [he, ha]
    · by_cases ht : t' = t
      · subst ht; rw [hpc] at ht'; cases ht'; left; exact ⟨idxA i, by simp⟩
      · right; exact ⟨t', v', i', by simp [ht, ht']⟩
  all_goals
    intro p1 hp
    rcases h1 p1 (by first | simpa using hp | exact hp) with ⟨a, ha⟩ | ⟨t', v', i', ht'⟩
    · left; exact ⟨a, by first | simpa using ha | exact ha⟩
    · right
      refine ⟨t', v', i', ?_⟩
      by_cases ht : t' = t <;> simp_all

theorem next_mono_step (hs : Step s t s') : s.next ≤ s'.next := by
  cases hs <;> simp

/-- Every field is preserved by a step that does not wrap the counter. -/
theorem inv_step (h : Inv s) (hs : Step s t s') (hw : s'.next < W) : Inv s' where
  noWrap := hw
  base_ge := base_ge_step h hs
  base_le := base_le_step h hs
  resv_range := resv_range_step h hs
  resv_uniq := resv_uniq_step h hs
  hist_range := hist_range_step h hs
  hist_resv := hist_resv_step h hs
  hist_nodup := hist_nodup_step h hs
  cover := cover_step h hs
  mutex_iff := mutex_iff_step h hs
  held_ok := held_ok_step h hs
  fresh_ok := fresh_ok_step h hs
  alloc_lt := alloc_lt_step h hs
  alloc_inj := alloc_inj_step h hs
  mem_fresh := mem_fresh_step h hs
  slots := slots_step h hs
  slots0 := slots0_step h hs
  get_exp := get_exp_step h hs
  get_ptr := get_ptr_step h hs
  get_ret := get_ret_step h hs
  stores_ok := stores_ok_step h hs
  stores_nodup := stores_nodup_step h hs
  len_le := len_le_step h hs
  len_sorted := len_sorted_step h hs
  bucket_used := bucket_used_step h hs
  orphan := orphan_step h hs

theorem next_mono_run {s0 s : St} {tr : List Label} (hr : run s0 tr = some s) : s0.next ≤ s.next := by
  induction tr generalizing s0 with
  | nil => simp [run] at hr; subst hr; exact Nat.le_refl _
  | cons l ls ih =>
    simp only [run] at hr
    split at hr
    · rename_i s1 hs1
      exact Nat.le_trans (next_mono_step (step_Step hs1)) (ih hr)
    · cases hr

theorem inv_run {s0 s : St} {tr : List Label} (h0 : Inv s0) (hr : run s0 tr = some s) (hw : s.next < W) :
    Inv s := by
  induction tr generalizing s0 with
  | nil => simp [run] at hr; subst hr; exact h0
  | cons l ls ih =>
    simp only [run] at hr
    split at hr
    · rename_i s1 hs1
      have hw1 : s1.next < W := Nat.lt_of_le_of_lt (next_mono_run hr) hw
      exact ih (inv_step h0 (step_Step hs1) hw1) hr
    · cases hr

theorem idxA_minSize : idxA minSize = numSizes - 1 := by
  rw [idxA_eq minSize (by decide), minSize_eq, Nat.log2_two_pow]; decide

theorem idxB_minSize : idxB minSize = 0 := by
  rw [idxB_eq minSize (by decide) (by decide)]
  have : Nat.log2 minSize = minShift := by rw [minSize_eq, Nat.log2_two_pow]
  rw [this, ← minSize_eq]; omega

theorem inv_init : Inv init where
  noWrap := by decide
  base_ge := by decide
  base_le := Nat.le_refl _
  resv_range := by intro t i h; simp [init, resv] at h
  resv_uniq := by intro t t' i h; simp [init, resv] at h
  hist_range := by intro r h; simp [init, addRefs] at h
  hist_resv := by intro t i h; simp [init, resv] at h
  hist_nodup := by simp [init, addRefs]
  cover := by intro i h1 h2; simp only [init] at h1 h2; omega
  mutex_iff := by intro t; simp [init, inCrit]
  held_ok := by intro t i p h; simp [init, resv] at h
  fresh_ok := by intro t v i p h; simp [init] at h
  alloc_lt := by intro a p h; simp [init] at h
  alloc_inj := by intro a a' p h; simp [init] at h
  mem_fresh := by intro p b _; rfl
  slots := by intro t v r h; simp [init] at h
  slots0 := by intro i h1 h2; simp only [init] at h2; have : initNext = minSize := by decide
               omega
  get_exp := by intro t r v h; simp [init, gexp] at h
  get_ptr := by intro t r v q h; simp [init] at h
  get_ret := by intro t r v res h; simp [init] at h
  stores_ok := by intro a p h; simp [init] at h
  stores_nodup := by simp [init]
  len_le := by intro n h; simp [init, lenVals] at h
  len_sorted := by simp [init, lenVals]
  bucket_used := by intro a p h; simp [init] at h
  orphan := by intro p h; simp [init] at h

theorem inv_initZero (z : Elem) : Inv (initZero z) where
  noWrap := by show initNextZero < W; decide
  base_ge := by show minSize ≤ initNextZero; decide
  base_le := Nat.le_refl _
  resv_range := by intro t i h; simp [initZero, resv] at h
  resv_uniq := by intro t t' i h; simp [initZero, resv] at h
  hist_range := by intro r h; simp [initZero, addRefs] at h
  hist_resv := by intro t i h; simp [initZero, resv] at h
  hist_nodup := by simp [initZero, addRefs]
  cover := by intro i h1 h2; simp only [initZero] at h1 h2; omega
  mutex_iff := by intro t; simp [initZero, inCrit]
  held_ok := by intro t i p h; simp [initZero, resv] at h
  fresh_ok := by intro t v i p h; simp [initZero] at h
  alloc_lt := by
    intro a p h
    simp only [initZero] at h ⊢
    split at h
    · cases h; decide
    · cases h
  alloc_inj := by
    intro a a' p h h'
    simp only [initZero] at h h'
    split at h
    · split at h'
      · omega
      · cases h'
    · cases h
  mem_fresh := by
    intro p b hp
    simp only [initZero] at hp ⊢
    have hp' : 1 ≤ p := hp
    have : ¬ (p = 0 ∧ b = 0) := by
      rintro ⟨rfl, _⟩
      exact absurd hp' (by decide)
    simp [this]
  slots := by intro t v r h; simp [initZero] at h
  slots0 := by
    intro i h1 h2
    have hi : i = minSize := by
      simp only [initZero] at h2
      have : initNextZero = minSize + 1 := by decide
      omega
    subst hi
    exact ⟨0, z, by simp [initZero, idxA_minSize], by simp [initZero, idxB_minSize]⟩
  get_exp := by intro t r v h; simp [initZero, gexp] at h
  get_ptr := by intro t r v q h; simp [initZero] at h
  get_ret := by intro t r v res h; simp [initZero] at h
  stores_ok := by intro a p h; simp [initZero] at h
  stores_nodup := by simp [initZero]
  len_le := by intro n h; simp [initZero, lenVals] at h
  len_sorted := by simp [initZero, lenVals]
  bucket_used := by
    intro a p h
    simp only [initZero] at h ⊢
    split at h
    · subst_vars; exact ⟨minSize, Nat.le_refl _, by decide, idxA_minSize⟩
    · cases h
  orphan := by
    intro p h
    have hp : p = 0 := by
      have h' : p < 1 := h
      exact Nat.lt_one_iff.1 h'
    subst hp
    left; exact ⟨numSizes - 1, by simp [initZero]⟩

end IsoVerif.ArenaT
