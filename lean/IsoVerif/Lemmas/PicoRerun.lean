/-
C02 lemmas over M-PICO: an equal-value write changes nothing; for call-free programs a node whose
recorded dependencies are all fresh is served without running any body, and a write to a key that is
not among a node's recorded dependencies leaves them fresh.
-/
import IsoVerif.Lemmas.PicoStage1

namespace IsoVerif.Pico

/-! ## equal-value writes (after the repair of F3) -/

theorem setSource_equal (s : Storage) (k : Key) (v : Nat) (nd : SrcNode)
    (h : alookup s.srcs k = some nd) (hv : nd.val = v) : setSource s k v = s := by
  unfold setSource; rw [h]; simp [hv]

theorem step_set_equal (fuel : Nat) (P : Prog) (s : Storage) (k v : Nat) (nd : SrcNode)
    (h : alookup s.srcs (.src k) = some nd) (hv : nd.val = v) :
    (step fuel P s (.set k v)).1 = s := by
  unfold step; split
  · rfl
  · exact setSource_equal s _ v nd h hv

theorem step_sset_equal (fuel : Nat) (P : Prog) (s : Storage) (i v : Nat) (nd : SrcNode)
    (h : alookup s.srcs (.sing i) = some nd) (hv : nd.val = v) :
    (step fuel P s (.sset i v)).1 = s := by
  unfold step; split
  · rfl
  · exact setSource_equal s _ v nd h hv

/-! ## fresh nodes are served without execution (call-free programs) -/

theorem anyDep_fresh (ex : Storage → NodeId → Storage × Res Bool) :
    ∀ (deps : List Dep) (s : Storage), NoDerived deps → DepsMatch s s.srcs s.maps deps →
      anyDep (depChanged ex) deps s = (s, .ok false) := by
  intro deps
  induction deps with
  | nil => intro s _ _; rfl
  | cons d ds ih =>
    intro s hso hf
    have ih' := ih s (fun d' hd' => hso d' (List.mem_cons_of_mem _ hd'))
      (fun d' hd' => hf d' (List.mem_cons_of_mem _ hd'))
    have hm := hf d List.mem_cons_self
    simp only [anyDep]
    by_cases he : d.stamp = s.epoch
    · rw [if_pos he]; exact ih'
    · rw [if_neg he]
      unfold DepMatch at hm
      rcases hso d List.mem_cons_self with ⟨k, hk⟩ | ⟨k, hk⟩
      · rw [hk] at hm
        obtain ⟨⟨nd, hnd, hle⟩, _⟩ := hm
        simp only [depChanged, hk, hnd]
        have : ¬ nd.tu > d.stamp := by omega
        simp [this, ih']
      · rw [hk] at hm
        simp only [depChanged, hk, hm.1]
        simp [ih']

/-- a present node whose dependencies all match the current state: `exec` runs no body -/
theorem exec_fresh_runs {P : Prog} (n : Nat) (s : Storage) (id : NodeId) (r : Rev) (hst : s.stack = [])
    (hl : alookup s.derived id = some r) (hso : NoDerived r.deps) (hf : DepsMatch s s.srcs s.maps r.deps) :
    ∃ s' b, exec (n + 1) P s id = (s', .ok b) ∧ s'.runs = s.runs ∧ s'.log = s.log ∧
      (alookup s'.derived id).map (·.val) = some r.val := by
  have hp : pushTop s id = { s with topCalls := s.topCalls ++ [id], pushes := s.pushes ++ [id] } := by
    simp [pushTop, hst]
  show ∃ s' b, execF (upToDate (n + 1) P) s id = (s', .ok b) ∧ _
  unfold execF
  rw [hp]
  simp only [upToDate, hl]
  by_cases htv : r.tv = s.epoch
  · rw [if_pos htv]
    exact ⟨_, false, rfl, by simp [regDep, hst], by simp [regDep, hst], by simp [regDep, hst, hl]⟩
  · rw [if_neg htv]
    have hsetTv : setTv { s with topCalls := s.topCalls ++ [id], pushes := s.pushes ++ [id] } id s.epoch =
        { s with topCalls := s.topCalls ++ [id], pushes := s.pushes ++ [id],
                 derived := ainsert s.derived id (Rev.mk r.val r.tu s.epoch r.deps) } := by
      simp [setTv, hl]
    simp only [hsetTv]
    have hA := anyDep_fresh (dropTu (upToDate n P)) r.deps
      { s with topCalls := s.topCalls ++ [id], pushes := s.pushes ++ [id],
               derived := ainsert s.derived id (Rev.mk r.val r.tu s.epoch r.deps) } hso
      (fun d hd => (hf d hd).congr rfl rfl)
    rw [hA]
    exact ⟨_, false, rfl, by simp [regDep, hst], by simp [regDep, hst],
      by simp [regDep, hst, alookup_ainsert_self]⟩

theorem step_call_fresh_runs {P : Prog} (fuel : Nat) (s : Storage) (f a : Nat) (r : Rev) (hfuel : 1 ≤ fuel)
    (hst : s.stack = []) (hl : alookup s.derived (nodeOf P f a) = some r) (hso : NoDerived r.deps)
    (hf : DepsMatch s s.srcs s.maps r.deps) :
    (step fuel P s (.call f a)).1.runs = s.runs ∧ (step fuel P s (.call f a)).1.log = s.log ∧
      ((step fuel P s (.call f a)).2 = .dead ∨ (step fuel P s (.call f a)).2 = .val r.val) := by
  unfold step
  by_cases hp : s.poisoned = true
  · rw [if_pos hp]; exact ⟨rfl, rfl, Or.inl rfl⟩
  · rw [if_neg hp]
    obtain ⟨n, rfl⟩ : ∃ n, fuel = n + 1 := ⟨fuel - 1, by omega⟩
    obtain ⟨s', b, he, hr, hlg, hv⟩ := exec_fresh_runs (P := P) n s (nodeOf P f a) r hst hl hso hf
    simp only [callVia, he]
    cases hl' : alookup s'.derived (nodeOf P f a) with
    | none => rw [hl'] at hv; simp at hv
    | some r' =>
      rw [hl'] at hv; simp at hv
      simp [hr, hlg, hv]

/-! ## writes to keys outside the recorded dependencies keep them matching -/

theorem depsMatch_other_key (s s' : Storage) (deps : List Dep) (k0 : Key)
    (hm : s'.maps = s.maps) (hsame : ∀ k, k ≠ k0 → alookup s'.srcs k = alookup s.srcs k)
    (hf : DepsMatch s s.srcs s.maps deps)
    (hk : ∀ d, d ∈ deps → d.node ≠ .source k0 ∧ d.node ≠ .absent k0) : DepsMatch s' s'.srcs s'.maps deps := by
  intro d hd
  have h := hf d hd
  unfold DepMatch at h ⊢
  cases hn : d.node with
  | source k =>
    rw [hn] at h
    have hne : k ≠ k0 := fun e => (hk d hd).1 (by rw [hn, e])
    simp only at h
    obtain ⟨⟨nd, hnd, hle⟩, _⟩ := h
    exact ⟨⟨nd, by rw [hsame k hne]; exact hnd, hle⟩, rfl⟩
  | absent k =>
    rw [hn] at h
    have hne : k ≠ k0 := fun e => (hk d hd).2 (by rw [hn, e])
    simp only at h
    exact ⟨by rw [hsame k hne]; exact h.1, by rw [hm]; exact h.2⟩
  | derived m => rw [hn] at h; exact h

theorem setSource_other (s : Storage) (k0 : Key) (v : Nat) :
    (setSource s k0 v).maps = s.maps ∧ (setSource s k0 v).derived = s.derived ∧
      ∀ k, k ≠ k0 → alookup (setSource s k0 v).srcs k = alookup s.srcs k := by
  unfold setSource
  split
  · split
    · exact ⟨rfl, rfl, fun k hne => alookup_ainsert_ne _ _ _ _ (Ne.symm hne)⟩
    · exact ⟨rfl, rfl, fun _ _ => rfl⟩
  · exact ⟨rfl, rfl, fun k hne => alookup_ainsert_ne _ _ _ _ (Ne.symm hne)⟩

theorem removeSource_other (s : Storage) (k0 : Key) :
    (removeSource s k0).maps = s.maps ∧ (removeSource s k0).derived = s.derived ∧
      ∀ k, k ≠ k0 → alookup (removeSource s k0).srcs k = alookup s.srcs k := by
  unfold removeSource
  split
  · exact ⟨rfl, rfl, fun k hne => alookup_aerase_ne _ _ _ (Ne.symm hne)⟩
  · exact ⟨rfl, rfl, fun _ _ => rfl⟩

/-! ## history level -/

/-- after a clean call of a call-free function the node is there, verified in the current epoch,
and its dependencies (sources, present or absent) match the current state — or the storage is
poisoned -/
theorem after_call_fresh {P : Prog} (hflat : Flat P) (fuel : Nat) (s : Storage) (f a : Nat) (hinv : Inv1 P s)
    (hclean : ∃ v, evalS fuel P s.srcs s.maps [] (nodeOf P f a) = .ok v) :
    let s1 := (step fuel P s (.call f a)).1
    Inv1 P s1 ∧ (s1.poisoned = true ∨
      ∃ r, alookup s1.derived (nodeOf P f a) = some r ∧ NoDerived r.deps ∧ DepsMatch s1 s1.srcs s1.maps r.deps) := by
  obtain ⟨v, hv⟩ := hclean
  have h1 := (step_call_flat hflat fuel s f a v hinv hv).1
  refine ⟨h1, ?_⟩
  by_cases hp : s.poisoned = true
  · left; unfold step; rw [if_pos hp]; exact hp
  · right
    cases fuel with
    | zero => simp [evalS] at hv
    | succ n =>
      simp only [evalS] at hv
      rw [if_neg (by simp)] at hv
      obtain ⟨s', b, r, he, hinv', hl, hval, hep, hsr, hmp, hpo, htv⟩ := exec_flat hflat _ n s (nodeOf P f a) v hinv hv
      have hs1 : (step (n + 1) P s (.call f a)).1 =
          { s' with refs := if s'.refs.contains (nodeOf P f a) then s'.refs else nodeOf P f a :: s'.refs } := by
        unfold step; rw [if_neg hp]; simp only [callVia, he, hl]
      rw [hs1]
      have hok := hinv'.nodes _ r hl
      exact ⟨r, hl, hok.noDerived, fun d hd => (hok.fresh_now htv d hd).congr rfl rfl⟩

/-- **unrelated write, call-free programs**: after a clean call of `(f, a)`, writing (with any value)
or removing a keyed source that is not among the node's recorded dependencies, then calling `(f, a)`
again, runs no body at all. -/
theorem unrelated_write_no_rerun {P : Prog} (hflat : Flat P) (fuel : Nat) (hfuel : 1 ≤ fuel) (s : Storage) (f a : Nat)
    (hinv : Inv1 P s) (hclean : ∃ v, evalS fuel P s.srcs s.maps [] (nodeOf P f a) = .ok v) (op : Op) (k : Nat)
    (hop : (∃ v, op = .set k v) ∨ op = .rem k)
    (hk : ∀ r, alookup (step fuel P s (.call f a)).1.derived (nodeOf P f a) = some r →
          ∀ d, d ∈ r.deps → d.node ≠ .source (.src k) ∧ d.node ≠ .absent (.src k)) :
    let s1 := (step fuel P s (.call f a)).1
    let s2 := (step fuel P s1 op).1
    (step fuel P s2 (.call f a)).1.runs = s2.runs ∧ (step fuel P s2 (.call f a)).1.log = s2.log := by
  intro s1 s2
  obtain ⟨hinv1, hcase⟩ := after_call_fresh hflat fuel s f a hinv hclean
  have hpois : ∀ sX : Storage, sX.poisoned = true → (step fuel P sX op).1 = sX ∧ (step fuel P sX (.call f a)).1 = sX := by
    intro sX hp
    exact ⟨by unfold step; rw [if_pos hp], by unfold step; rw [if_pos hp]⟩
  by_cases hp : s1.poisoned = true
  · have hs2 : s2 = s1 := (hpois s1 hp).1
    have : (step fuel P s2 (.call f a)).1 = s2 := by rw [hs2]; exact (hpois s1 hp).2
    rw [this]; exact ⟨rfl, rfl⟩
  · rcases hcase with hp' | ⟨r, hl, hso, hf⟩
    · exact absurd hp' hp
    · have hs2 : s2.stack = [] ∧ alookup s2.derived (nodeOf P f a) = some r ∧ DepsMatch s2 s2.srcs s2.maps r.deps := by
        rcases hop with ⟨v, rfl⟩ | rfl
        · have e : s2 = setSource s1 (.src k) v := by
            show (step fuel P s1 (.set k v)).1 = _
            unfold step; rw [if_neg hp]
          rw [e]
          obtain ⟨o1, o2, o3⟩ := setSource_other s1 (.src k) v
          exact ⟨(hinv1.setSource' (.src k) v).stack, by rw [o2]; exact hl,
            depsMatch_other_key s1 _ r.deps (.src k) o1 o3 hf (hk r hl)⟩
        · have e : s2 = removeSource s1 (.src k) := by
            show (step fuel P s1 (.rem k)).1 = _
            unfold step; rw [if_neg hp]
          rw [e]
          obtain ⟨o1, o2, o3⟩ := removeSource_other s1 (.src k)
          exact ⟨(hinv1.removeSource (.src k) (fun i e => by cases e)).stack, by rw [o2]; exact hl,
            depsMatch_other_key s1 _ r.deps (.src k) o1 o3 hf (hk r hl)⟩
      have := step_call_fresh_runs (P := P) fuel s2 f a r hfuel hs2.1 hs2.2.1 hso hs2.2.2
      exact ⟨this.1, this.2.1⟩


/-! ## a node verified in the current epoch is served without running anything (any program) -/

theorem step_call_verified_runs {P : Prog} (fuel : Nat) (hfuel : 1 ≤ fuel) (s : Storage) (f a : Nat) (r : Rev)
    (hst : s.stack = []) (hl : alookup s.derived (nodeOf P f a) = some r) (htv : r.tv = s.epoch) :
    (step fuel P s (.call f a)).1.runs = s.runs ∧ (step fuel P s (.call f a)).1.log = s.log ∧
      ((step fuel P s (.call f a)).2 = .dead ∨ (step fuel P s (.call f a)).2 = .val r.val) := by
  unfold step
  by_cases hp : s.poisoned = true
  · rw [if_pos hp]; exact ⟨rfl, rfl, Or.inl rfl⟩
  · rw [if_neg hp]
    obtain ⟨n, rfl⟩ : ∃ n, fuel = n + 1 := ⟨fuel - 1, by omega⟩
    have hp0 : pushTop s (nodeOf P f a) =
        { s with topCalls := s.topCalls ++ [nodeOf P f a], pushes := s.pushes ++ [nodeOf P f a] } := by
      simp [pushTop, hst]
    have hex : exec (n + 1) P s (nodeOf P f a) =
        ({ s with topCalls := s.topCalls ++ [nodeOf P f a], pushes := s.pushes ++ [nodeOf P f a] }, .ok false) := by
      show execF (upToDate (n + 1) P) s (nodeOf P f a) = _
      unfold execF
      rw [hp0]
      simp only [upToDate, hl]
      rw [if_pos htv]
      simp [regDep, hst]
    simp only [callVia, hex, hl]
    simp

end IsoVerif.Pico
