/-
The invariant lemmas assembled at `parseIso`.
-/
import IsoVerif.Lemmas.IsoParseSpec3

namespace IsoVerif.IsoParse
open IsoVerif.Lex IsoVerif.IsoLex IsoVerif.Gen.IsoTokens

/-- the lexer fact the parser's slicing relies on: a `StringLiteral` token is at least two bytes with
character boundaries after its first and before its last byte, a `BlockStringLiteral` at least six
with boundaries after the third and before the third-last byte -/
def StringTokensOK (src : Bytes) : Prop := ∀ t ∈ isoTokens src, TextOK src t

/-- what `parseIso` returns, given `StringTokensOK` -/
theorem parseIso_spec (src : Bytes) (ex : Option Bytes) (h : StringTokensOK src) :
    match parseIso src ex with
    | .ok d => DeclOK src d
    | .diag d => DiagGood src d
    | .panic _ => False
    | .fuel => True := by
  have hs := spec_parseIsoLiteral (src := src) (src.length + 2) ex (PL.new src) (wf_new src h)
  unfold parseIso
  cases hp : parseIsoLiteral (src.length + 2) ex (PL.new src) with
  | ok d st => rw [hp] at hs; exact hs.2.2.1
  | err d st => rw [hp] at hs; exact hs.2.2
  | panic s => rw [hp] at hs; exact hs
  | fuel => trivial

end IsoVerif.IsoParse
