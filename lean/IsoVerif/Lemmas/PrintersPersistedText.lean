/-
Helper lemmas for C26 (persisted documents): pieces of the pretty operation text and of the compact
operation text are related (`PieceRel`): the JavaScript value of the pretty piece and the compact piece
are both balanced with respect to string literals and strip to the same significant characters.
-/
import IsoVerif.Lemmas.PrintersTree
import IsoVerif.Model.Core.Persisted

namespace IsoVerif.Core

/-! ### plain strings -/

theorem isPlainChar_iff (c : Nat) :
    isPlainChar c = true ↔ c ≠ 34 ∧ c ≠ 92 ∧ c ≠ 39 ∧ c ≠ 10 ∧ c ≠ 13 := by
  simp [isPlainChar, and_assoc]

theorem isPlain_nil : isPlain [] = true := rfl

theorem isPlain_cons (c : Nat) (s : Str) : isPlain (c :: s) = (isPlainChar c && isPlain s) := by
  simp [isPlain, List.all_cons]

theorem isPlain_append (a b : Str) : isPlain (a ++ b) = (isPlain a && isPlain b) := by
  simp [isPlain, List.all_append]

theorem isPlain_append_of {a b : Str} (ha : isPlain a = true) (hb : isPlain b = true) :
    isPlain (a ++ b) = true := by
  rw [isPlain_append, ha, hb]; rfl

/-! ### `jsSingleQuotedSimple` -/

def isJsChar (c : Nat) : Bool := c != 92 && c != 39 && c != 10 && c != 13

theorem js_cons (c : Nat) (rest : Str) (h : isJsChar c = true) :
    jsSingleQuotedSimple (c :: rest) = (jsSingleQuotedSimple rest).map (c :: ·) := by
  have h' : c ≠ 92 ∧ c ≠ 39 ∧ c ≠ 10 ∧ c ≠ 13 := by
    simpa [isJsChar, and_assoc] using h
  obtain ⟨h1, h2, h3, h4⟩ := h'
  rw [jsSingleQuotedSimple.eq_def]
  split
  · rename_i heq; cases heq
  · rename_i heq; cases heq; exact absurd rfl h1
  · rename_i c' rest' _ heq
    cases heq
    simp [h1, h2, h3, h4]

theorem js_nl (rest : Str) : jsSingleQuotedSimple (92 :: 10 :: rest) = jsSingleQuotedSimple rest := by
  rw [jsSingleQuotedSimple]

/-- `r` is the value of the prefix `p` of a single-quoted literal body -/
def JsOk (p r : Str) : Prop :=
  ∀ rest, jsSingleQuotedSimple (p ++ rest) = (jsSingleQuotedSimple rest).map (r ++ ·)

theorem JsOk.nil : JsOk [] [] := by
  intro rest; simp

theorem JsOk.append {p1 r1 p2 r2 : Str} (h1 : JsOk p1 r1) (h2 : JsOk p2 r2) :
    JsOk (p1 ++ p2) (r1 ++ r2) := by
  intro rest
  rw [List.append_assoc, h1, h2, Option.map_map]
  congr 1
  funext x
  simp [List.append_assoc]

theorem JsOk.of_all (s : Str) (h : s.all isJsChar = true) : JsOk s s := by
  induction s with
  | nil => exact JsOk.nil
  | cons c s ih =>
    rw [List.all_cons, Bool.and_eq_true] at h
    intro rest
    rw [List.cons_append, js_cons c _ h.1, ih h.2, Option.map_map]
    rfl

theorem JsOk.nl : JsOk [92, 10] [] := by
  intro rest
  show jsSingleQuotedSimple (92 :: 10 :: rest) = _
  rw [js_nl]; simp

theorem isJsChar_of_plain (c : Nat) (h : isPlainChar c = true) : isJsChar c = true := by
  rw [isPlainChar_iff] at h
  simp [isJsChar, h.2.1, h.2.2.1, h.2.2.2.1, h.2.2.2.2]

theorem all_js_of_plain (s : Str) (h : isPlain s = true) : s.all isJsChar = true := by
  rw [isPlain, List.all_eq_true] at h
  rw [List.all_eq_true]
  intro c hc; exact isJsChar_of_plain c (h c hc)

/-! ### `stripInsignificant` -/

theorem strip_esc (e : Bool) (s : Str) :
    stripInsignificantAux false e s = stripInsignificantAux false false s := by
  cases s with
  | nil => simp [stripInsignificantAux]
  | cons c rest => simp [stripInsignificantAux]

def StripBal (s : Str) : Prop :=
  ∀ rest, stripInsignificantAux false false (s ++ rest)
    = stripInsignificantAux false false s ++ stripInsignificantAux false false rest

theorem StripBal.nil : StripBal [] := by
  intro rest; simp [stripInsignificantAux]

theorem StripBal.append {a b : Str} (ha : StripBal a) (hb : StripBal b) : StripBal (a ++ b) := by
  intro rest
  rw [List.append_assoc, ha, hb, ha, List.append_assoc]

theorem strip_append {a b : Str} (ha : StripBal a) :
    stripInsignificantAux false false (a ++ b)
      = stripInsignificantAux false false a ++ stripInsignificantAux false false b := ha b

theorem strip_noquote (s : Str) (h : s.all (fun c => c != 34) = true) (rest : Str) :
    stripInsignificantAux false false (s ++ rest)
      = dropInsignificantChars s ++ stripInsignificantAux false false rest := by
  induction s with
  | nil => simp [dropInsignificantChars]
  | cons c s ih =>
    rw [List.all_cons, Bool.and_eq_true] at h
    have hc : (c == 34) = false := by simpa using h.1
    rw [List.cons_append, stripInsignificantAux]
    by_cases hi : isInsignificant c = true
    · simp [hi, dropInsignificantChars, ih h.2]
    · simp [hi, hc, dropInsignificantChars]
      simpa [dropInsignificantChars] using ih h.2

theorem StripBal.of_noquote (s : Str) (h : s.all (fun c => c != 34) = true) :
    StripBal s ∧ stripInsignificantAux false false s = dropInsignificantChars s := by
  have h0 := strip_noquote s h []
  simp [stripInsignificantAux] at h0
  refine ⟨?_, h0⟩
  intro rest
  rw [strip_noquote s h rest, h0]

theorem noquote_of_plain (s : Str) (h : isPlain s = true) : s.all (fun c => c != 34) = true := by
  rw [isPlain, List.all_eq_true] at h
  rw [List.all_eq_true]
  intro c hc
  have := (isPlainChar_iff c).mp (h c hc)
  simp [this.1]

theorem strip_inside (s : Str) (h : isPlain s = true) (rest : Str) :
    stripInsignificantAux true false (s ++ 34 :: rest)
      = s ++ 34 :: stripInsignificantAux false false rest := by
  induction s with
  | nil =>
    simp [stripInsignificantAux]
  | cons c s ih =>
    rw [isPlain_cons, Bool.and_eq_true] at h
    have hc := (isPlainChar_iff c).mp h.1
    rw [List.cons_append, stripInsignificantAux]
    have h1 : (c != 34) = true := by simp [hc.1]
    have h2 : (c == 92) = false := by simp [hc.2.1]
    rw [h1, h2, ih h.2]; rfl

theorem strip_quoted (s : Str) (h : isPlain s = true) (rest : Str) :
    stripInsignificantAux false false ([34] ++ s ++ [34] ++ rest)
      = ([34] ++ s ++ [34]) ++ stripInsignificantAux false false rest := by
  have : [34] ++ s ++ [34] ++ rest = 34 :: (s ++ 34 :: rest) := by simp
  rw [this, stripInsignificantAux]
  have hi : isInsignificant 34 = false := by decide
  simp [hi, strip_inside s h rest]

theorem StripBal.quoted (s : Str) (h : isPlain s = true) : StripBal ([34] ++ s ++ [34]) := by
  intro rest
  have h0 := strip_quoted s h []
  simp only [List.append_nil, stripInsignificantAux] at h0
  rw [strip_quoted s h rest, h0]

/-! ### the relation between a piece of the pretty text and the piece of the compact text -/

def PieceRel (p c : Str) : Prop :=
  ∃ r, JsOk p r ∧ StripBal r ∧ StripBal c ∧
    stripInsignificantAux false false r = stripInsignificantAux false false c

theorem PieceRel.nil : PieceRel [] [] := ⟨[], JsOk.nil, StripBal.nil, StripBal.nil, rfl⟩

theorem PieceRel.append {p1 c1 p2 c2 : Str} (h1 : PieceRel p1 c1) (h2 : PieceRel p2 c2) :
    PieceRel (p1 ++ p2) (c1 ++ c2) := by
  obtain ⟨r1, j1, b1, bc1, e1⟩ := h1
  obtain ⟨r2, j2, b2, bc2, e2⟩ := h2
  refine ⟨r1 ++ r2, j1.append j2, b1.append b2, bc1.append bc2, ?_⟩
  rw [b1, bc1, e1, e2]

theorem PieceRel.plain2 {p c : Str} (hp : isPlain p = true) (hc : isPlain c = true)
    (h : dropInsignificantChars p = dropInsignificantChars c) : PieceRel p c := by
  obtain ⟨bp, ep⟩ := StripBal.of_noquote p (noquote_of_plain p hp)
  obtain ⟨bc, ec⟩ := StripBal.of_noquote c (noquote_of_plain c hc)
  exact ⟨p, JsOk.of_all p (all_js_of_plain p hp), bp, bc, by rw [ep, ec, h]⟩

theorem PieceRel.plain {s : Str} (h : isPlain s = true) : PieceRel s s := PieceRel.plain2 h h rfl

theorem PieceRel.quoted {s : Str} (h : isPlain s = true) : PieceRel ([34] ++ s ++ [34]) ([34] ++ s ++ [34]) := by
  refine ⟨[34] ++ s ++ [34], JsOk.of_all _ ?_, StripBal.quoted s h, StripBal.quoted s h, rfl⟩
  have := all_js_of_plain s h
  simp [List.all_append, this, isJsChar]

theorem PieceRel.ofNewLine : PieceRel (newLine .pretty) (newLine .compact) := by
  refine ⟨[], JsOk.nl, StripBal.nil, ?_, by decide⟩
  exact (StripBal.of_noquote [32] (by decide)).1

theorem isPlain_indent (l : Nat) : isPlain (indent l) = true := by
  unfold indent
  induction l with
  | zero => rfl
  | succ k ih => rw [replicateStr, isPlain_append, ih]; rfl

theorem drop_indent (l : Nat) : dropInsignificantChars (indent l) = [] := by
  unfold indent
  induction l with
  | zero => rfl
  | succ k ih =>
    rw [replicateStr]
    unfold dropInsignificantChars at ih ⊢
    rw [List.filter_append, ih]; rfl

theorem PieceRel.ofIndent (l : Nat) : PieceRel (indentFor .pretty l) (indentFor .compact l) := by
  show PieceRel (indent l) []
  exact PieceRel.plain2 (isPlain_indent l) rfl (drop_indent l)

/-! ### plainness of the alias -/

theorem isPlainChar_digit (n : Nat) (h : n < 10) : isPlainChar (48 + n) = true := by
  rw [isPlainChar_iff]; omega

theorem isPlain_digitsAux (fuel n : Nat) (acc : Str) (h : isPlain acc = true) :
    isPlain (digitsAux fuel n acc) = true := by
  induction fuel generalizing n acc with
  | zero => exact h
  | succ k ih =>
    rw [digitsAux]
    split
    · rename_i hn
      rw [isPlain_cons, isPlainChar_digit n hn, h]; rfl
    · apply ih
      rw [isPlain_cons, isPlainChar_digit (n % 10) (Nat.mod_lt _ (by omega)), h]; rfl

theorem isPlain_showNat (n : Nat) : isPlain (showNat n) = true :=
  isPlain_digitsAux _ _ [] rfl

theorem isPlain_showInt (i : Int) : isPlain (showInt i) = true := by
  cases i with
  | ofNat n => exact isPlain_showNat n
  | negSucc n =>
    show isPlain (45 :: showNat (n + 1)) = true
    rw [isPlain_cons, isPlain_showNat]; rfl

theorem isPlain_showBool (b : Bool) : isPlain (showBool b) = true := by
  cases b <;> rfl

theorem isPlainChar_word (c : Nat) (h : isWordChar c = true) : isPlainChar c = true := by
  rw [isPlainChar_iff]
  simp only [isWordChar, Bool.or_eq_true, Bool.and_eq_true, decide_eq_true_eq, beq_iff_eq] at h
  omega

theorem isPlain_collapseStr (s : Str) : isPlain (collapseStr s) = true := by
  unfold collapseStr
  induction s with
  | nil => rfl
  | cons c s ih =>
    rw [List.map_cons, isPlain_cons, ih]
    by_cases hc : isWordChar c = true
    · rw [if_pos hc, isPlainChar_word c hc]; rfl
    · rw [if_neg hc]; rfl

theorem isPlain_joinStr (sep : Str) (hs : isPlain sep = true) (l : List Str)
    (h : ∀ x ∈ l, isPlain x = true) : isPlain (joinStr sep l) = true := by
  induction l with
  | nil => rfl
  | cons x rest ih =>
    cases rest with
    | nil => exact h x List.mem_cons_self
    | cons y rest' =>
      rw [joinStr, isPlain_append, isPlain_append, h x List.mem_cons_self, hs,
        ih (fun z hz => h z (List.mem_cons_of_mem _ hz))]
      rfl

mutual
theorem isPlain_aliasChunkT (v : Value) (h : v.plain = true) : isPlain (aliasChunkT v) = true := by
  match v, h with
  | .var name, h =>
    rw [Value.plain] at h
    rw [aliasChunkT, isPlain_append, h]; rfl
  | .int i, _ => rw [aliasChunkT, isPlain_append, isPlain_showInt]; rfl
  | .bool b, _ => rw [aliasChunkT, isPlain_append, isPlain_showBool]; rfl
  | .str s, _ => rw [aliasChunkT, isPlain_append, isPlain_collapseStr]; rfl
  | .float t, h =>
    rw [Value.plain] at h
    rw [aliasChunkT, isPlain_append, h]; rfl
  | .null, _ => rfl
  | .enum e, h =>
    rw [Value.plain] at h
    rw [aliasChunkT, isPlain_append, h]; rfl
  | .list _, _ => rfl
  | .obj fields, h =>
    rw [Value.plain] at h
    rw [aliasChunkT, isPlain_append, isPlain_append,
      isPlain_joinStr _ (by rfl) _ (isPlain_aliasFieldsT fields h)]
    rfl
theorem isPlain_aliasFieldsT (fs : List (Str × Value)) (h : Value.plainFields fs = true) :
    ∀ x ∈ aliasFieldsT fs, isPlain x = true := by
  match fs, h with
  | [], _ => intro x hx; simp [aliasFieldsT] at hx
  | (k, v) :: rest, h =>
    rw [Value.plainFields, Bool.and_eq_true, Bool.and_eq_true] at h
    intro x hx
    rw [aliasFieldsT, List.mem_cons] at hx
    rcases hx with hx | hx
    · rw [hx, isPlain_append, isPlain_append, h.1.1, isPlain_aliasChunkT v h.1.2]; rfl
    · exact isPlain_aliasFieldsT rest h.2 x hx
end

theorem isPlain_aliasArgsT (args : Args) (h : Value.plainFields args = true) :
    isPlain (aliasArgsT args) = true := by
  induction args with
  | nil => rfl
  | cons a rest ih =>
    obtain ⟨k, v⟩ := a
    rw [Value.plainFields, Bool.and_eq_true, Bool.and_eq_true] at h
    rw [aliasArgsT]
    simp only [isPlain_append, h.1.1, isPlain_aliasChunkT v h.1.2, ih h.2]
    rfl

theorem isPlain_aliasT (name : Str) (args : Args) (hn : isPlain name = true)
    (h : Value.plainFields args = true) : isPlain (aliasT name args) = true := by
  rw [aliasT, isPlain_append, hn, isPlain_aliasArgsT args h]; rfl

/-! ### argument values -/

theorem gqlArgList_eq (args : Args) : gqlArgList args = gqlFields args := by
  induction args with
  | nil => simp [gqlArgList, gqlFields]
  | cons a rest ih =>
    obtain ⟨k, v⟩ := a
    simp [gqlArgList, gqlFields, ih]

mutual
theorem gqlValue_rel (v : Value) (h : v.plain = true) : PieceRel (gqlValue v) (gqlValue v) := by
  match v, h with
  | .var name, h =>
    rw [Value.plain] at h
    rw [gqlValue]
    exact PieceRel.plain (by rw [isPlain_cons, h]; rfl)
  | .int i, _ => rw [gqlValue]; exact PieceRel.plain (isPlain_showInt i)
  | .bool b, _ => rw [gqlValue]; exact PieceRel.plain (isPlain_showBool b)
  | .str s, h =>
    rw [Value.plain] at h
    rw [gqlValue]; exact PieceRel.quoted h
  | .float t, h =>
    rw [Value.plain] at h
    rw [gqlValue]; exact PieceRel.plain h
  | .null, _ => rw [gqlValue]; exact PieceRel.plain (by rfl)
  | .enum e, h =>
    rw [Value.plain] at h
    rw [gqlValue]; exact PieceRel.plain h
  | .list _, _ => rw [gqlValue]; exact PieceRel.nil
  | .obj fields, h =>
    rw [Value.plain] at h
    rw [gqlValue]
    exact ((PieceRel.plain (by rfl)).append (gqlFields_rel fields h)).append (PieceRel.plain (by rfl))
theorem gqlFields_rel (fs : List (Str × Value)) (h : Value.plainFields fs = true) :
    PieceRel (joinStr [44, 32] (gqlFields fs)) (joinStr [44, 32] (gqlFields fs)) := by
  match fs, h with
  | [], _ => rw [gqlFields, joinStr]; exact PieceRel.nil
  | [(k, v)], h =>
    rw [Value.plainFields, Bool.and_eq_true, Bool.and_eq_true] at h
    rw [gqlFields, gqlFields, joinStr]
    exact ((PieceRel.plain h.1.1).append (PieceRel.plain (by rfl))).append (gqlValue_rel v h.1.2)
  | (k, v) :: (k2, v2) :: rest, h =>
    rw [Value.plainFields, Bool.and_eq_true, Bool.and_eq_true] at h
    have ih := gqlFields_rel ((k2, v2) :: rest) h.2
    rw [gqlFields] at ih ⊢
    rw [gqlFields, joinStr]
    exact ((((PieceRel.plain h.1.1).append (PieceRel.plain (by rfl))).append (gqlValue_rel v h.1.2)).append
      (PieceRel.plain (by rfl))).append ih
end

theorem gqlArgs_rel (args : Args) (h : Value.plainFields args = true) :
    PieceRel (gqlArgs args) (gqlArgs args) := by
  unfold gqlArgs
  split
  · exact PieceRel.nil
  · rw [gqlArgList_eq]
    exact ((PieceRel.plain (by rfl)).append (gqlFields_rel args h)).append (PieceRel.plain (by rfl))

theorem aliasPrefix_rel (name : Str) (args : Args) (hn : isPlain name = true)
    (h : Value.plainFields args = true) : PieceRel (aliasPrefix name args) (aliasPrefix name args) := by
  unfold aliasPrefix
  split
  · exact PieceRel.nil
  · exact PieceRel.plain (isPlain_append_of (isPlain_aliasT name args hn h) (by rfl))

/-! ### trees -/

mutual
theorem renderTree_rel (level : Nat) (t : Tree) (h : t.plain = true) :
    PieceRel (renderTree .pretty level t) (renderTree .compact level t) := by
  match t, h with
  | .field name args none, h =>
    rw [Tree.plain, Bool.and_eq_true] at h
    rw [renderTree, renderTree]
    exact (((((PieceRel.ofIndent level).append (aliasPrefix_rel name args h.1 h.2)).append
      (PieceRel.plain h.1)).append (gqlArgs_rel args h.2)).append (PieceRel.plain (by rfl))).append PieceRel.ofNewLine
  | .field name args (some kids), h =>
    rw [Tree.plain, Bool.and_eq_true, Bool.and_eq_true] at h
    rw [renderTree, renderTree]
    exact (((((((((PieceRel.ofIndent level).append (aliasPrefix_rel name args h.1.1 h.1.2)).append
      (PieceRel.plain h.1.1)).append (gqlArgs_rel args h.1.2)).append (PieceRel.plain (by rfl))).append
      PieceRel.ofNewLine).append (renderTrees_rel (level + 1) kids h.2)).append
      (PieceRel.ofIndent level)).append (PieceRel.plain (by rfl))).append PieceRel.ofNewLine
  | .frag ty kids, h =>
    rw [Tree.plain, Bool.and_eq_true] at h
    rw [renderTree, renderTree]
    exact ((((((((PieceRel.ofIndent level).append (PieceRel.plain (by rfl))).append (PieceRel.plain h.1)).append
      (PieceRel.plain (by rfl))).append PieceRel.ofNewLine).append (renderTrees_rel (level + 1) kids h.2)).append
      (PieceRel.ofIndent level)).append (PieceRel.plain (by rfl))).append PieceRel.ofNewLine
theorem renderTrees_rel (level : Nat) (ts : List Tree) (h : Tree.plainList ts = true) :
    PieceRel (renderTrees .pretty level ts) (renderTrees .compact level ts) := by
  match ts, h with
  | [], _ => rw [renderTrees, renderTrees]; exact PieceRel.nil
  | t :: rest, h =>
    rw [Tree.plainList, Bool.and_eq_true] at h
    rw [renderTrees, renderTrees]
    exact (renderTree_rel level t h.1).append (renderTrees_rel level rest h.2)
end

theorem queryHeader_rel (kind name vt : Str)
    (hk : isPlain kind = true) (hn : isPlain name = true) (hv : isPlain vt = true) :
    PieceRel (queryHeader .pretty kind name vt) (queryHeader .compact kind name vt) := by
  unfold queryHeader
  exact (((((PieceRel.plain hk).append (PieceRel.plain (by rfl))).append (PieceRel.plain hn)).append
    (PieceRel.plain hv)).append (PieceRel.plain (by rfl))).append PieceRel.ofNewLine

end IsoVerif.Core
