/-
Lemmas for C13_imports: path arithmetic of relative specifiers (`Model/Core/Imports.lean`).  Core Lean only.
-/
import IsoVerif.Model.Core.Imports

namespace IsoVerif.Core.Imports

theorem ne_of_length_ne {a b : String} (h : a.length ≠ b.length) : a ≠ b := by
  intro e; exact h (congrArg String.length e)

theorem plain_iff (c : String) : plain c = true ↔ (c ≠ "" ∧ c ≠ "." ∧ c ≠ "..") := by
  simp [plain, and_assoc]

theorem applySpec_cons_plain (cur : Path) (c : String) (rest : List String) (h : plain c = true) :
    applySpec cur (c :: rest) = applySpec (cur ++ [c]) rest := by
  obtain ⟨h1, h2, h3⟩ := (plain_iff c).1 h
  simp [applySpec, h1, h2, h3]

theorem applySpec_cons_dot (cur : Path) (rest : List String) :
    applySpec cur ("." :: rest) = applySpec cur rest := by
  simp [applySpec]

theorem applySpec_cons_up (cur : Path) (b : String) (rest : List String) (h : plain b = true) :
    applySpec (cur ++ [b]) (".." :: rest) = applySpec cur rest := by
  obtain ⟨h1, h2, h3⟩ := (plain_iff b).1 h
  simp [applySpec, h3]

theorem applySpec_append (cur : Path) (a b : List String) :
    applySpec cur (a ++ b) = applySpec (applySpec cur a) b := by
  induction a generalizing cur with
  | nil => simp [applySpec]
  | cons c rest ih =>
    simp only [List.cons_append, applySpec]
    split
    · exact ih _
    · split
      · split
        · exact ih _
        · exact ih _
      · exact ih _

/-- ordinary components are appended -/
theorem applySpec_plain (cur : Path) (ps : List String) (h : allPlain ps = true) :
    applySpec cur ps = cur ++ ps := by
  induction ps generalizing cur with
  | nil => simp [applySpec]
  | cons c rest ih =>
    simp only [allPlain, List.all_cons, Bool.and_eq_true] at h
    rw [applySpec_cons_plain _ _ _ h.1, ih _ h.2]
    simp


theorem ups_eq (bs : Path) : (bs.map fun _ => "..") = List.replicate bs.length ".." := by
  induction bs with
  | nil => rfl
  | cons b bs ih => simp [List.replicate_succ, ih]

theorem applySpec_ups_aux (n : Nat) : ∀ (pre bs : Path), bs.length = n → allPlain bs = true →
    applySpec (pre ++ bs) (List.replicate n "..") = pre := by
  induction n with
  | zero =>
    intro pre bs hl _
    have : bs = [] := List.length_eq_zero_iff.1 hl
    subst this; simp [applySpec]
  | succ n ih =>
    intro pre bs hl hp
    rcases List.eq_nil_or_concat bs with h | ⟨l, b, h⟩
    · subst h; simp at hl
    · subst h
      simp only [List.concat_eq_append] at hl hp ⊢
      simp only [allPlain, List.all_append, List.all_cons, List.all_nil, Bool.and_true,
        Bool.and_eq_true] at hp
      have hl' : l.length = n := by simpa using hl
      rw [List.replicate_succ, ← List.append_assoc, applySpec_cons_up _ _ _ hp.2]
      exact ih pre l hl' hp.1

/-- one `..` per ordinary component pops them all -/
theorem applySpec_ups (pre bs : Path) (h : allPlain bs = true) :
    applySpec (pre ++ bs) (bs.map fun _ => "..") = pre := by
  rw [ups_eq]; exact applySpec_ups_aux _ pre bs rfl h

theorem resolve_append_file (dir : Path) (file : String) (spec : List String) :
    resolve (dir ++ [file]) spec = applySpec dir spec := by
  simp [resolve]

theorem applySpec_diffPaths (pre path base : Path)
    (hp : allPlain path = true) (hb : allPlain base = true) :
    applySpec (pre ++ base) (diffPaths path base) = pre ++ path := by
  have gen : ∀ (pre path base : Path), allPlain path = true → allPlain base = true →
      applySpec (pre ++ base) ((base.map fun _ => "..") ++ path) = pre ++ path := by
    intro pre path base hp hb
    rw [applySpec_append, applySpec_ups _ _ hb, applySpec_plain _ _ hp]
  induction path generalizing pre base with
  | nil =>
    cases base <;> (simp only [diffPaths]; exact gen _ _ _ hp hb)
  | cons p ps ih =>
    cases base with
    | nil => simp only [diffPaths]; exact gen _ _ _ hp hb
    | cons b bs =>
      simp only [diffPaths]
      split
      · rename_i heq
        have heq : p = b := by simpa using heq
        subst heq
        simp only [allPlain, List.all_cons, Bool.and_eq_true] at hp hb
        have := ih (pre ++ [p]) bs hp.2 hb.2
        simpa using this
      · exact gen _ _ _ hp hb

/-- `pathdiff::diff_paths` is a right inverse of resolution: resolving `diff_paths(path, base)` from a file
in directory `pre/base` gives `pre/path`. -/
theorem resolve_diffPaths (pre path base : Path) (file : String)
    (hp : allPlain path = true) (hb : allPlain base = true) :
    resolve (pre ++ base ++ [file]) (diffPaths path base) = pre ++ path := by
  rw [resolve_append_file]; exact applySpec_diffPaths pre path base hp hb

/-- a component of length > 2 is not ``, `.`, `..` -/
theorem plain_of_length (c : String) (h : 2 < c.length) : plain c = true := by
  rw [plain_iff]
  have l0 : "".length = 0 := by rfl
  have l1 : ".".length = 1 := by rfl
  have l2 : "..".length = 2 := by rfl
  refine ⟨?_, ?_, ?_⟩ <;>
    (intro e; have := congrArg String.length e; simp only [l0, l1, l2] at this; omega)

theorem dropLast_append_of_getLast? (l : List String) (x : String) (h : l.getLast? = some x) :
    l.dropLast ++ [x] = l := by
  obtain ⟨ys, rfl⟩ := List.getLast?_eq_some_iff.1 h
  simp

theorem refetch_len : "__refetch__".length = 11 := by rfl
theorem refetchQT_len : "__refetch__query_text__".length = 23 := by rfl
theorem Stem.str_length_refetch (n : Nat) : 2 < (Stem.refetch n).str.length := by
  show 2 < ("__refetch__" ++ toString n).length
  rw [String.length_append, refetch_len]
  generalize (toString n).length = k; omega
theorem Stem.str_length_refetchQT (n : Nat) : 2 < (Stem.refetchQueryText n).str.length := by
  show 2 < ("__refetch__query_text__" ++ toString n).length
  rw [String.length_append, refetchQT_len]
  generalize (toString n).length = k; omega
theorem Stem.str_length (s : Stem) : 2 < s.str.length := by
  cases s with
  | refetch n => exact Stem.str_length_refetch n
  | refetchQueryText n => exact Stem.str_length_refetchQT n
  | entrypoint => show 2 < "entrypoint".length; decide
  | resolverReader => show 2 < "resolver_reader".length; decide
  | refetchReader => show 2 < "refetch_reader".length; decide
  | paramType => show 2 < "param_type".length; decide
  | outputType => show 2 < "output_type".length; decide
  | parametersType => show 2 < "parameters_type".length; decide
  | queryText => show 2 < "query_text".length; decide
  | normalizationAst => show 2 < "normalization_ast".length; decide
  | rawResponseType => show 2 < "raw_response_type".length; decide

theorem stem_plain (s : Stem) (ext : Bool) : plain (s.str ++ extStr ext) = true ∧ plain (s.str ++ ".ts") = true := by
  have := Stem.str_length s
  constructor <;> (apply plain_of_length; rw [String.length_append]; omega)


theorem names_refl (p : Path) : names p p = true := by simp [names]

theorem names_ts (d : Path) (a : String) : names (d ++ [a]) (d ++ [a ++ ".ts"]) = true := by
  simp [names]

theorem names_ext (d : Path) (a : String) (ext : Bool) :
    names (d ++ [a ++ extStr ext]) (d ++ [a ++ ".ts"]) = true := by
  cases ext
  · simp only [extStr, Bool.false_eq_true, if_false, String.append_empty]; exact names_ts d a
  · simp only [extStr, if_true]; exact names_refl _

theorem plain_isograph : plain "__isograph" = true := by decide

/-- Every import template, printed from a place it fits, resolves to the file it is meant to name. -/
theorem template_resolves (art : Path) (ext : Bool) (place : Place) (t : Template)
    (hart : allPlain art = true) (hlast : art.getLast? = some "__isograph")
    (hplace : match place with
      | .nested ty field file => plain ty = true ∧ plain field = true ∧ plain file = true
      | .iso => True)
    (hnames : match t with
      | .cousin ty field _ | .cousinNoExt ty field _ | .isoUp ty field _ | .isoDown ty field _ =>
        plain ty = true ∧ plain field = true
      | .sibling _ => True)
    (hfits : t.fits place = true) :
    names (resolve (place.path art) (t.spec ext)) (t.target art place) = true := by
  have _ := hart
  have hart' : art.dropLast ++ ["__isograph"] = art := dropLast_append_of_getLast? _ _ hlast
  cases place with
  | nested ty0 f0 file =>
    obtain ⟨hty0, hf0, _⟩ := hplace
    have e : art ++ [ty0, f0, file] = (art ++ [ty0, f0]) ++ [file] := by simp
    cases t with
    | sibling s =>
      have hs := (stem_plain s ext).1
      simp only [Place.path, Template.spec, Template.target]
      rw [e, resolve_append_file, applySpec_cons_dot, applySpec_cons_plain _ _ _ hs]
      simp only [applySpec]
      have := names_ext (art ++ [ty0, f0]) s.str ext
      simpa using this
    | cousin ty f s =>
      obtain ⟨hty, hf⟩ := hnames
      have hs := (stem_plain s ext).1
      simp only [Place.path, Template.spec, Template.target]
      have e2 : art ++ [ty0, f0] = (art ++ [ty0]) ++ [f0] := by simp
      rw [e, resolve_append_file, e2, applySpec_cons_up _ _ _ hf0, applySpec_cons_up _ _ _ hty0,
        applySpec_cons_plain _ _ _ hty, applySpec_cons_plain _ _ _ hf, applySpec_cons_plain _ _ _ hs]
      simp only [applySpec]
      have := names_ext (art ++ [ty, f]) s.str ext
      simpa using this
    | cousinNoExt ty f s =>
      obtain ⟨hty, hf⟩ := hnames
      have hs : plain s.str = true := plain_of_length _ (Stem.str_length s)
      simp only [Place.path, Template.spec, Template.target]
      have e2 : art ++ [ty0, f0] = (art ++ [ty0]) ++ [f0] := by simp
      rw [e, resolve_append_file, e2, applySpec_cons_up _ _ _ hf0, applySpec_cons_up _ _ _ hty0,
        applySpec_cons_plain _ _ _ hty, applySpec_cons_plain _ _ _ hf, applySpec_cons_plain _ _ _ hs]
      simp only [applySpec]
      have := names_ts (art ++ [ty, f]) s.str
      simpa using this
    | isoUp ty f s => simp [Template.fits] at hfits
    | isoDown ty f s => simp [Template.fits] at hfits
  | iso =>
    cases t with
    | sibling s => simp [Template.fits] at hfits
    | cousin ty f s => simp [Template.fits] at hfits
    | cousinNoExt ty f s => simp [Template.fits] at hfits
    | isoUp ty f s =>
      obtain ⟨hty, hf⟩ := hnames
      have hs := (stem_plain s ext).1
      simp only [Place.path, Template.spec, Template.target]
      rw [resolve_append_file]
      conv => lhs; arg 1; arg 1; rw [← hart']
      rw [applySpec_cons_up _ _ _ plain_isograph, applySpec_cons_plain _ _ _ plain_isograph, hart',
        applySpec_cons_plain _ _ _ hty, applySpec_cons_plain _ _ _ hf, applySpec_cons_plain _ _ _ hs]
      simp only [applySpec]
      have := names_ext (art ++ [ty, f]) s.str ext
      simpa using this
    | isoDown ty f s =>
      obtain ⟨hty, hf⟩ := hnames
      have hs := (stem_plain s ext).1
      simp only [Place.path, Template.spec, Template.target]
      rw [resolve_append_file, applySpec_cons_dot,
        applySpec_cons_plain _ _ _ hty, applySpec_cons_plain _ _ _ hf, applySpec_cons_plain _ _ _ hs]
      simp only [applySpec]
      have := names_ext (art ++ [ty, f]) s.str ext
      simpa using this

/-- C13_imports over plans. -/
theorem plan_imports_resolve (p : Plan) (hwf : p.wellFormed = true) (hc : p.closed = true) :
    ∀ fs ∈ p.importsOf, ∃ q ∈ p.paths, names (resolve fs.1 fs.2) q = true := by
  intro fs hfs
  simp only [Plan.importsOf, List.mem_flatMap, List.mem_map] at hfs
  obtain ⟨f, hf, t, ht, rfl⟩ := hfs
  simp only [Plan.wellFormed, Bool.and_eq_true, List.all_eq_true] at hwf
  obtain ⟨⟨hart, hlast⟩, hfiles⟩ := hwf
  have hlast : p.art.getLast? = some "__isograph" := by simpa using hlast
  obtain ⟨hpl, himps⟩ := hfiles f hf
  obtain ⟨hfits, hnm⟩ := himps t ht
  simp only [Plan.closed, List.all_eq_true] at hc
  have hmem := hc f hf t ht
  refine ⟨t.target p.art f.place, by simpa using hmem, ?_⟩
  apply template_resolves p.art p.ext f.place t hart hlast _ _ hfits
  · cases hp : f.place with
    | nested ty field file => rw [hp] at hpl; simpa [and_assoc] using hpl
    | iso => trivial
  · cases t <;> first | trivial | simpa using hnm

end IsoVerif.Core.Imports
