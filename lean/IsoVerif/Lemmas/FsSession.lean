/-
`compile` and sessions: validation failures touch nothing (C17), the first and the later compiles of
a session leave exactly the artifacts (C18), and after any failure — I/O error, injected fault,
panic, at any operation — the next fault-free compile does so again (C19).
-/
import IsoVerif.Lemmas.FsCompile

namespace IsoVerif.Fs
open IsoVerif.Util

variable {α : Type} [DecidableEq α]

/-! ### `compile`, unfolded -/

/-- the in-memory state after `compile` ran its operations with outcome `o` -/
def stateAfter (reset : Bool) (new : State α) : Outcome → Option (State α)
  | .ok => some new
  | .ioError => if reset then none else some new
  | .panic => none

def resultOf : Outcome → CompileResult
  | .ok => .ok
  | .ioError => .ioError
  | .panic => .panic

/-- the operations `compile` plans for `arts` in session state `st` -/
def plannedOps (cr : CreateRoot) (hash : Bytes → Bytes) (arts : List (Artifact α))
    (st : Option (State α)) : List (Op α) :=
  match st with
  | none => recreateAll cr (fromArtifacts hash arts)
  | some old => diff old (fromArtifacts hash arts)

theorem compile_some (cr : CreateRoot) (reset : Bool) (hash : Bytes → Bytes) (s : Session α)
    (arts : List (Artifact α)) (fault : Option Nat) :
    compile cr reset hash s (some arts) fault =
      (⟨stateAfter reset (fromArtifacts hash arts)
          (applyAll arts s.fs (plannedOps cr hash arts s.fsState) 0 fault).2,
        (applyAll arts s.fs (plannedOps cr hash arts s.fsState) 0 fault).1⟩,
       resultOf (applyAll arts s.fs (plannedOps cr hash arts s.fsState) 0 fault).2) := by
  have hops : (getOps cr hash arts s.fsState).1 = plannedOps cr hash arts s.fsState := by
    unfold getOps plannedOps; cases s.fsState <;> rfl
  have hst : (getOps cr hash arts s.fsState).2 = some (fromArtifacts hash arts) := by
    unfold getOps; rfl
  unfold compile
  simp only
  rw [show getOps cr hash arts s.fsState = ((getOps cr hash arts s.fsState).1, (getOps cr hash arts s.fsState).2) from rfl]
  simp only [hops, hst]
  cases h : applyAll arts s.fs (plannedOps cr hash arts s.fsState) 0 fault with
  | mk fs' o => cases o <;> simp [stateAfter, resultOf]

/-- **C17**: a compile whose validation reports diagnostics changes neither the directory nor the
in-memory state, whatever the session state is. -/
theorem compile_diagnostics (cr : CreateRoot) (reset : Bool) (hash : Bytes → Bytes) (s : Session α)
    (fault : Option Nat) : compile cr reset hash s none fault = (s, .diagnostics) := rfl

theorem applyAll_ok_fault (arts : List (Artifact α)) (ops : List (Op α)) (fs : Fs α) (i : Nat)
    (fault : Option Nat) (h : (applyAll arts fs ops i fault).2 = .ok) :
    applyAll arts fs ops i fault = applyAll arts fs ops i none := by
  induction ops generalizing fs i with
  | nil => simp [applyAll]
  | cons op rest ih =>
    simp only [applyAll] at h ⊢
    by_cases hf : fault = some i
    · simp [hf] at h
    · simp only [hf, if_false] at h ⊢
      simp only [show ¬ ((none : Option Nat) = some i) by simp, if_false]
      cases hop : applyOp arts fs op with
      | ok fs1 => rw [hop] at h; simp only at h ⊢; exact ih fs1 (i + 1) h
      | error e => cases e <;> rfl

/-! ### one compile -/

theorem okShape_planned (cr : CreateRoot) (hash : Bytes → Bytes) (arts : List (Artifact α))
    (st : Option (State α)) : ∀ op ∈ plannedOps cr hash arts st, op.okShape := by
  cases st with
  | none => exact okShape_recreateAll cr _ (wf_fromArtifacts hash arts)
  | some old => exact okShape_diff old _ (wf_fromArtifacts hash arts)

/-- the artifact directory stays "absent or a directory" through any compile, failed or not -/
theorem compile_rootOk (cr : CreateRoot) (reset : Bool) (hash : Bytes → Bytes) (s : Session α)
    (arts : Option (List (Artifact α))) (fault : Option Nat) (h : RootOk s.fs) :
    RootOk (compile cr reset hash s arts fault).1.fs := by
  cases arts with
  | none => exact h
  | some a =>
    rw [compile_some]
    exact RootOk_applyAll a _ (okShape_planned cr hash a s.fsState) s.fs 0 fault h

/-- **C19 (b), the reduction**: with `resetOnIoError`, a compile that does not succeed leaves the
session without in-memory state. -/
theorem compile_fail_state (cr : CreateRoot) (hash : Bytes → Bytes) (s : Session α)
    (arts : List (Artifact α)) (fault : Option Nat)
    (h : (compile cr true hash s (some arts) fault).2 ≠ .ok) :
    (compile cr true hash s (some arts) fault).1.fsState = none := by
  rw [compile_some] at h ⊢
  cases ho : (applyAll arts s.fs (plannedOps cr hash arts s.fsState) 0 fault).2 with
  | ok => rw [ho] at h; exact absurd rfl h
  | ioError => simp [stateAfter]
  | panic => simp [stateAfter]

/-- first compile of a session (no in-memory state), on any directory contents -/
theorem compile_first (R : α → Bool) (cr : CreateRoot) (hcr : cr.creates) (reset : Bool)
    (hash : Bytes → Bytes) (s : Session α) (arts : List (Artifact α))
    (hst : s.fsState = none) (h0 : RootOk s.fs) (hs : NamesSane R arts) :
    ∃ fs', compile cr reset hash s (some arts) none = (⟨some (fromArtifacts hash arts), fs'⟩, .ok) ∧
      ∀ q, Fs.get fs' q = expectedGet arts q := by
  obtain ⟨fs', hr, ht⟩ := first_correct R cr hcr hash arts hs s.fs h0
  refine ⟨fs', ?_, ht⟩
  rw [compile_some, hst]
  simp only [plannedOps, hr, stateAfter, resultOf]

/-- later compile of a session whose directory was not edited by anyone else -/
theorem compile_next (R : α → Bool) (cr : CreateRoot) (reset : Bool)
    (hash : Bytes → Bytes) (s : Session α) (old new : List (Artifact α))
    (hst : s.fsState = some (fromArtifacts hash old)) (hfs : ∀ q, Fs.get s.fs q = expectedGet old q)
    (hso : NamesSane R old) (hsn : NamesSane R new) (hf : HashFaithful hash old new) :
    ∃ fs', compile cr reset hash s (some new) none = (⟨some (fromArtifacts hash new), fs'⟩, .ok) ∧
      ∀ q, Fs.get fs' q = expectedGet new q := by
  obtain ⟨fs', hr, ht⟩ := next_correct R hash old new hso hsn hf s.fs hfs
  refine ⟨fs', ?_, ht⟩
  rw [compile_some, hst]
  simp only [plannedOps, hr, stateAfter, resultOf]

/-! ### sessions -/

structure Step (α : Type) where
  arts : Option (List (Artifact α))     -- `none`: validation fails
  fault : Option Nat                     -- injected I/O fault at this operation index

def runSteps (cr : CreateRoot) (reset : Bool) (hash : Bytes → Bytes) :
    Session α → List (Step α) → Session α
  | s, [] => s
  | s, st :: rest => runSteps cr reset hash (compile cr reset hash s st.arts st.fault).1 rest

/-- equal hash ⇒ equal content on the contents `C` that occur -/
def HashInjOn (hash : Bytes → Bytes) (C : Bytes → Prop) : Prop :=
  ∀ x y, C x → C y → hash x = hash y → x = y

/-- The session invariant: the directory is absent or a directory, and either there is no in-memory
state, or the state is the one of an artifact list whose tree the directory holds exactly. -/
def SessionInv (R : α → Bool) (C : Bytes → Prop) (hash : Bytes → Bytes) (s : Session α) : Prop :=
  RootOk s.fs ∧
  (s.fsState = none ∨
   ∃ arts, s.fsState = some (fromArtifacts hash arts) ∧ NamesSane R arts ∧ (∀ a ∈ arts, C a.content) ∧
     ∀ q, Fs.get s.fs q = expectedGet arts q)

def StepOk (R : α → Bool) (C : Bytes → Prop) (st : Step α) : Prop :=
  ∀ arts, st.arts = some arts → NamesSane R arts ∧ ∀ a ∈ arts, C a.content

/-- a fault-free compile from a state satisfying the invariant succeeds and leaves the artifacts -/
theorem compile_of_inv (R : α → Bool) (C : Bytes → Prop) (cr : CreateRoot) (hcr : cr.creates)
    (reset : Bool) (hash : Bytes → Bytes) (hinj : HashInjOn hash C) (s : Session α)
    (hinv : SessionInv R C hash s) (arts : List (Artifact α)) (hs : NamesSane R arts)
    (hC : ∀ a ∈ arts, C a.content) :
    ∃ fs', compile cr reset hash s (some arts) none = (⟨some (fromArtifacts hash arts), fs'⟩, .ok) ∧
      ∀ q, Fs.get fs' q = expectedGet arts q := by
  obtain ⟨h0, hst⟩ := hinv
  rcases hst with hst | ⟨old, hst, hso, hCo, hfs⟩
  · exact compile_first R cr hcr reset hash s arts hst h0 hs
  · exact compile_next R cr reset hash s old arts hst hfs hso hs
      (fun a ha b hb hh => hinj _ _ (hCo a ha) (hC b hb) hh)

theorem inv_compile (R : α → Bool) (C : Bytes → Prop) (cr : CreateRoot) (hcr : cr.creates)
    (hash : Bytes → Bytes) (hinj : HashInjOn hash C) (s : Session α)
    (hinv : SessionInv R C hash s) (st : Step α) (hok : StepOk R C st) :
    SessionInv R C hash (compile cr true hash s st.arts st.fault).1 := by
  cases harts : st.arts with
  | none => exact hinv
  | some arts =>
    obtain ⟨hs, hC⟩ := hok arts harts
    refine ⟨compile_rootOk cr true hash s (some arts) st.fault hinv.1, ?_⟩
    by_cases hres : (compile cr true hash s (some arts) st.fault).2 = .ok
    · right
      -- the fault did not fire: this is the fault-free compile
      obtain ⟨fs', hc, ht⟩ := compile_of_inv R C cr hcr true hash hinj s hinv arts hs hC
      have heq : compile cr true hash s (some arts) st.fault = compile cr true hash s (some arts) none := by
        rw [compile_some] at hres
        rw [compile_some, compile_some]
        have : (applyAll arts s.fs (plannedOps cr hash arts s.fsState) 0 st.fault).2 = .ok := by
          cases ho : (applyAll arts s.fs (plannedOps cr hash arts s.fsState) 0 st.fault).2 with
          | ok => rfl
          | ioError => rw [ho] at hres; simp [resultOf] at hres
          | panic => rw [ho] at hres; simp [resultOf] at hres
        rw [applyAll_ok_fault _ _ _ _ _ this]
      rw [heq, hc]
      exact ⟨arts, rfl, hs, hC, ht⟩
    · left
      exact compile_fail_state cr hash s arts st.fault hres

/-- **Every history keeps the invariant**: validation failures, I/O faults at any operation,
successful compiles, in any order. -/
theorem inv_runSteps (R : α → Bool) (C : Bytes → Prop) (cr : CreateRoot) (hcr : cr.creates)
    (hash : Bytes → Bytes) (hinj : HashInjOn hash C) (steps : List (Step α))
    (hok : ∀ st ∈ steps, StepOk R C st) (s : Session α) (hinv : SessionInv R C hash s) :
    SessionInv R C hash (runSteps cr true hash s steps) := by
  induction steps generalizing s with
  | nil => exact hinv
  | cons st rest ih =>
    simp only [runSteps]
    exact ih (fun x hx => hok x (List.mem_cons_of_mem _ hx)) _
      (inv_compile R C cr hcr hash hinj s hinv st (hok st List.mem_cons_self))

theorem inv_fresh (R : α → Bool) (C : Bytes → Prop) (hash : Bytes → Bytes) (fs : Fs α)
    (h : RootOk fs) : SessionInv R C hash ⟨none, fs⟩ := ⟨h, Or.inl rfl⟩

end IsoVerif.Fs
