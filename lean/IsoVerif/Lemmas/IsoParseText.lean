/-
`StringTokensOK`: the text of every `StringLiteral` / `BlockStringLiteral` token of the iso lexer
can be sliced the way the parser does (`[1..len-1]`, `[3..len-3]`) without panicking.
-/
import IsoVerif.Lemmas.LexIsoShape
import IsoVerif.Lemmas.IsoParseTop
import IsoVerif.Lemmas.IsoParseFuel

namespace IsoVerif.IsoParse
open IsoVerif.Lex IsoVerif.IsoLex IsoVerif.Gen.IsoTokens

/-- a character with an ASCII code point is one byte long -/
theorem decode_ascii_len (g : Bytes) (h : decode g < 128) : g.length = 1 := by
  match g with
  | [] => simp [decode, badChar] at h
  | [a] => rfl
  | [a, b] =>
    simp only [decode] at h
    split at h
    · split at h
      · rename_i hc; simp only [Bool.and_eq_true, decide_eq_true_eq] at hc; omega
      · simp [badChar] at h
    · simp [badChar] at h
  | [a, b, c] =>
    simp only [decode] at h
    split at h
    · split at h
      · rename_i hc; simp only [Bool.and_eq_true, decide_eq_true_eq] at hc; omega
      · simp [badChar] at h
    · simp [badChar] at h
  | [a, b, c, d] =>
    simp only [decode] at h
    split at h
    · split at h
      · rename_i hc; simp only [Bool.and_eq_true, decide_eq_true_eq] at hc; omega
      · simp [badChar] at h
    · simp [badChar] at h
  | _ :: _ :: _ :: _ :: _ :: _ => simp [decode, badChar] at h

/-! ## token text in terms of character groups -/

def mkChr (g : Bytes) : Chr := ⟨decode g, g.length⟩

theorem chars_eq (s : Bytes) : chars s = (groups s).map mkChr := rfl

theorem width_map (gs : List Bytes) : width (gs.map mkChr) = gs.flatten.length := width_map_length gs

theorem textOf_append (A B C : Bytes) : textOf (A ++ (B ++ C)) A.length (A.length + B.length) = B := by
  unfold textOf
  rw [List.drop_left', Nat.add_sub_cancel_left, List.take_left'] <;> rfl

theorem textOf_groups (s : Bytes) (k m : Nat) :
    textOf s (width ((chars s).take k)) (width ((chars s).take k) + width (((chars s).drop k).take m)) =
      (((groups s).drop k).take m).flatten := by
  have h1 : width ((chars s).take k) = ((groups s).take k).flatten.length := by
    rw [chars_eq, ← List.map_take, width_map]
  have h2 : width (((chars s).drop k).take m) = (((groups s).drop k).take m).flatten.length := by
    rw [chars_eq, ← List.map_drop, ← List.map_take, width_map]
  have hs : s = ((groups s).take k).flatten ++ ((((groups s).drop k).take m).flatten ++
      (((groups s).drop k).drop m).flatten) := by
    rw [← List.flatten_append, List.take_append_drop, ← List.flatten_append, List.take_append_drop, groups_flatten]
  rw [h1, h2]
  have := textOf_append ((groups s).take k).flatten (((groups s).drop k).take m).flatten
    (((groups s).drop k).drop m).flatten
  rw [← hs] at this
  exact this

/-- groups that are not the first group of the input: non-empty, starting with a non-continuation byte -/
def Inner (g : Bytes) : Prop := ∃ c r, g = c :: r ∧ isCont c = false

theorem inner_of_drop (s : Bytes) (k : Nat) (g : Bytes) (h : g ∈ (groups s).drop (k + 1)) : Inner g := by
  have ht := groups_tailHeads s
  cases hg : groups s with
  | nil => rw [hg] at h; simp at h
  | cons g0 gs' =>
    rw [hg] at h ht
    simp only [List.drop_succ_cons] at h
    exact ht g (List.mem_of_mem_drop h)

theorem flatten_head_inner : ∀ (mid : List Bytes) (tail : Bytes) (x : UInt8),
    (∀ g ∈ mid, Inner g) → isCont x = false →
    ∃ c r, mid.flatten ++ (x :: tail) = c :: r ∧ isCont c = false
  | [], tail, x, _, hx => ⟨x, tail, rfl, hx⟩
  | g :: mid, tail, x, h, _ => by
    obtain ⟨c, r, rfl, hc⟩ := h g (by simp)
    exact ⟨c, r ++ mid.flatten ++ (x :: tail), by simp, hc⟩

/-- `"` … `"` with one-byte quotes -/
theorem quoteOK_of_groups (y x : UInt8) (mid : List Bytes) (hmid : ∀ g ∈ mid, Inner g) (hx : isCont x = false) :
    QuoteOK (([y] :: (mid ++ [[x]])).flatten) := by
  have hf : ([y] :: (mid ++ [[x]])).flatten = y :: (mid.flatten ++ [x]) := by simp
  rw [hf]
  refine ⟨by simp, ?_, ?_⟩
  · obtain ⟨c, r, hcr, hc⟩ := flatten_head_inner mid [] x hmid hx
    unfold isBoundary
    simp only [List.getElem?_cons_succ, hcr, List.getElem?_cons_zero, hc]
    simp
  · unfold isBoundary
    have : (y :: (mid.flatten ++ [x])).length - 1 = mid.flatten.length + 1 := by simp
    rw [this]
    simp [hx]

/-- `"""` … `"""` with one-byte quotes -/
theorem blockOK_of_groups (y1 y2 y3 x1 x2 x3 : UInt8) (mid : List Bytes) (hmid : ∀ g ∈ mid, Inner g)
    (hx : isCont x1 = false) :
    BlockOK (([y1] :: [y2] :: [y3] :: (mid ++ [[x1], [x2], [x3]])).flatten) := by
  have hf : ([y1] :: [y2] :: [y3] :: (mid ++ [[x1], [x2], [x3]])).flatten =
      y1 :: y2 :: y3 :: (mid.flatten ++ [x1, x2, x3]) := by simp
  rw [hf]
  refine ⟨by simp, ?_, ?_⟩
  · obtain ⟨c, r, hcr, hc⟩ := flatten_head_inner mid [x2, x3] x1 hmid hx
    unfold isBoundary
    simp only [List.getElem?_cons_succ, hcr, List.getElem?_cons_zero, hc]
    simp
  · unfold isBoundary
    have : (y1 :: y2 :: y3 :: (mid.flatten ++ [x1, x2, x3])).length - 3 = mid.flatten.length + 3 := by simp
    rw [this]
    simp [hx]

theorem take_succ_of_drop {α : Type} : ∀ (l : List α) (j : Nat) (x : α) (r : List α), l.drop j = x :: r →
    l.take (j + 1) = l.take j ++ [x]
  | [], j, x, r, h => by simp at h
  | a :: l, 0, x, r, h => by simp at h; simp [h.1]
  | a :: l, j + 1, x, r, h => by
    simp only [List.drop_succ_cons] at h
    simp only [List.take_succ_cons, List.cons_append, take_succ_of_drop l j x r h]

theorem take3_of_drop {α : Type} (l : List α) (j : Nat) (x y z : α) (r : List α) (h : l.drop j = x :: y :: z :: r) :
    l.take (j + 3) = l.take j ++ [x, y, z] := by
  have h1 := take_succ_of_drop l j x _ h
  have hd1 : l.drop (j + 1) = y :: z :: r := by
    have := congrArg (List.drop 1) h
    simpa [List.drop_drop, Nat.add_comm] using this
  have h2 := take_succ_of_drop l (j + 1) y _ hd1
  have hd2 : l.drop (j + 2) = z :: r := by
    have := congrArg (List.drop 2) h
    simpa [List.drop_drop, Nat.add_comm] using this
  have h3 := take_succ_of_drop l (j + 2) z _ hd2
  rw [show j + 3 = j + 2 + 1 from rfl, h3, show j + 2 = j + 1 + 1 from rfl, h2, h1]
  simp

theorem single_of_decode (g : Bytes) (c : Chr) (h : mkChr g = c) (hc : c.cp = 34) : ∃ y, g = [y] := by
  have hd : decode g = 34 := by rw [← hc, ← h]; rfl
  have := decode_ascii_len g (by omega)
  match g, this with
  | [y], _ => exact ⟨y, rfl⟩

theorem inner_single {x : UInt8} (h : Inner [x]) : isCont x = false := by
  obtain ⟨c, r, hcr, hc⟩ := h
  simp only [List.cons.injEq] at hcr
  rw [hcr.1]; exact hc

/-- the lexer fact the parser relies on, for every input -/
theorem stringTokensOK (src : Bytes) : StringTokensOK src := by
  intro t ht
  obtain ⟨k0, _, hstep⟩ := lexFrom_mem isoLexer _ _ _ t ht
  simp only [Nat.zero_add] at hstep
  have hdrop : (chars src).drop k0 = ((groups src).drop k0).map mkChr := by rw [chars_eq, List.map_drop]
  have hinner : ∀ g ∈ (groups src).drop (k0 + 1), Inner g := fun g hg => inner_of_drop src k0 g hg
  constructor
  · intro hk
    obtain ⟨d, rest, j, e, rest', hcs, hd, hrest, he, hs, hend⟩ := isoStep_string _ _ t hstep hk
    rw [hdrop] at hcs
    obtain ⟨gd, grest, hg, hgd, hgrest⟩ := List.map_eq_cons_iff.1 hcs
    have hrest' : (grest.drop j).map mkChr = e :: rest' := by rw [List.map_drop, hgrest]; exact hrest
    obtain ⟨ge, grest', hg2, hge, _⟩ := List.map_eq_cons_iff.1 hrest'
    obtain ⟨y, rfl⟩ := single_of_decode gd d hgd hd
    obtain ⟨x, rfl⟩ := single_of_decode ge e hge he
    have hgrest_eq : grest = (groups src).drop (k0 + 1) := by
      have := congrArg List.tail hg
      simpa [List.drop_drop, Nat.add_comm] using this.symm
    have hx : isCont x = false := by
      apply inner_single
      apply hinner
      rw [← hgrest_eq]
      exact List.mem_of_mem_drop (by rw [hg2]; simp)
    have hmid : ∀ g ∈ grest.take j, Inner g := fun g hg' =>
      hinner g (by rw [← hgrest_eq]; exact List.mem_of_mem_take hg')
    have htext : textOf src t.s t.e = (((groups src).drop k0).take (j + 2)).flatten := by
      rw [hs, hend]; exact textOf_groups src k0 (j + 2)
    rw [htext, hg]
    have : ([y] :: grest).take (j + 2) = [y] :: (grest.take j ++ [[x]]) := by
      rw [show j + 2 = (j + 1) + 1 from rfl, List.take_succ_cons, take_succ_of_drop grest j [x] grest' hg2]
    rw [this]
    exact quoteOK_of_groups y x _ hmid hx
  · intro hk
    obtain ⟨a, b, c, rest, j, x, y, z, rest', hcs, ha, hb, hc, hrest, hx, hy, hz, hs, hend⟩ :=
      isoStep_block _ _ t hstep hk
    rw [hdrop] at hcs
    obtain ⟨ga, g1, hg, hga, hg1⟩ := List.map_eq_cons_iff.1 hcs
    obtain ⟨gb, g2, hg1', hgb, hg2⟩ := List.map_eq_cons_iff.1 hg1
    obtain ⟨gc, grest, hg2', hgc, hgrest⟩ := List.map_eq_cons_iff.1 hg2
    subst hg1' hg2'
    have hrest' : (grest.drop j).map mkChr = x :: y :: z :: rest' := by rw [List.map_drop, hgrest]; exact hrest
    obtain ⟨gx, r1, hd1, hgx, hr1⟩ := List.map_eq_cons_iff.1 hrest'
    obtain ⟨gy, r2, hd2, hgy, hr2⟩ := List.map_eq_cons_iff.1 hr1
    obtain ⟨gz, grest', hd3, hgz, _⟩ := List.map_eq_cons_iff.1 hr2
    subst hd2 hd3
    obtain ⟨y1, rfl⟩ := single_of_decode ga a hga ha
    obtain ⟨y2, rfl⟩ := single_of_decode gb b hgb hb
    obtain ⟨y3, rfl⟩ := single_of_decode gc c hgc hc
    obtain ⟨x1, rfl⟩ := single_of_decode gx x hgx hx
    obtain ⟨x2, rfl⟩ := single_of_decode gy y hgy hy
    obtain ⟨x3, rfl⟩ := single_of_decode gz z hgz hz
    have hsub : ∀ g ∈ grest, g ∈ (groups src).drop (k0 + 1) := by
      intro g hg'
      have h1 : [y2] :: [y3] :: grest = (groups src).drop (k0 + 1) := by
        have := congrArg List.tail hg
        simpa [List.drop_drop, Nat.add_comm] using this.symm
      rw [← h1]; simp [hg']
    have hx1 : isCont x1 = false := by
      apply inner_single
      apply hinner
      apply hsub
      exact List.mem_of_mem_drop (by rw [hd1]; simp)
    have hmid : ∀ g ∈ grest.take j, Inner g := fun g hg' => hinner g (hsub g (List.mem_of_mem_take hg'))
    have htext : textOf src t.s t.e = (((groups src).drop k0).take (j + 6)).flatten := by
      rw [hs, hend]; exact textOf_groups src k0 (j + 6)
    rw [htext, hg]
    have : ([y1] :: [y2] :: [y3] :: grest).take (j + 6) = [y1] :: [y2] :: [y3] :: (grest.take j ++ [[x1], [x2], [x3]]) := by
      rw [show j + 6 = (j + 3) + 1 + 1 + 1 from rfl, List.take_succ_cons, List.take_succ_cons, List.take_succ_cons,
        take3_of_drop grest j [x1] [x2] [x3] grest' hd1]
    rw [this]
    exact blockOK_of_groups y1 y2 y3 x1 x2 x3 _ hmid hx1

/-- the recursion budget `|src| + 2` of `parseIso` always suffices -/
theorem parseIso_no_fuel (src : Bytes) (ex : Option Bytes) : parseIso src ex ≠ .fuel := by
  have hwf := wf_new src (stringTokensOK src)
  have := fspec_parseIsoLiteral (src.length + 2) ex (PL.new src) (rem_new_lt src hwf)
  unfold parseIso
  cases hp : parseIsoLiteral (src.length + 2) ex (PL.new src) with
  | ok d st => simp
  | err d st => simp
  | panic s => simp
  | fuel => rw [hp] at this; exact this.elim

end IsoVerif.IsoParse
