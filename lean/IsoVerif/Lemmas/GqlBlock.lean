/-
Lemmas for C30_block: `clean_block_string_literal` (split with `str::lines`, no `\"""` handling)
equals the specification's BlockStringValue() on every raw block-string text that has no lone
carriage return and no `\"""`.
-/
import IsoVerif.Model.GqlParse

namespace IsoVerif.Gql

/-- every carriage return is followed by a line feed -/
def noLoneCr : Str → Bool
  | [] => true
  | [c] => c != 13
  | c :: d :: r => if c == 13 then d == 10 && noLoneCr r else noLoneCr (d :: r)

/-- the text contains no `\"""` -/
def noEscTriple : Str → Bool
  | [] => true
  | c :: r => !(c == 92 && r.take 3 == [34, 34, 34]) && noEscTriple r

theorem unescapeTriple_id (f : Nat) (s : Str) (hf : s.length < f) (h : noEscTriple s = true) :
    unescapeTriple f s = s := by
  induction f generalizing s with
  | zero => omega
  | succ f ih =>
    cases s with
    | nil => rfl
    | cons c r =>
      simp only [noEscTriple, Bool.and_eq_true, Bool.not_eq_true'] at h
      have hr : unescapeTriple f r = r := ih r (by simp at hf; omega) h.2
      simp [unescapeTriple, h.1, hr]

theorem noLoneCr_tail (c : Nat) (r : Str) (hc : c ≠ 13) (h : noLoneCr (c :: r) = true) : noLoneCr r = true := by
  cases r with
  | nil => rfl
  | cons d r' => simpa [noLoneCr, hc] using h

theorem noLoneCr_cr (r : Str) (h : noLoneCr (13 :: r) = true) : ∃ r', r = 10 :: r' ∧ noLoneCr r' = true := by
  cases r with
  | nil => simp [noLoneCr] at h
  | cons d r' =>
    have : d = 10 ∧ noLoneCr r' = true := by simpa [noLoneCr] using h
    exact ⟨r', by rw [this.1], this.2⟩

/-- the state of `rustLines` at the end: is the last piece empty (so that it yields no line)? -/
def trailingEmpty : Str → Str → Bool
  | [], cur => cur.isEmpty
  | c :: r, cur => if c == 10 then trailingEmpty r [] else trailingEmpty r (c :: cur)

def noCrHead : Str → Bool
  | [] => true
  | c :: _ => c != 13

theorem stripTrailingCr_noCrHead (cur : Str) (h : noCrHead cur = true) : stripTrailingCr cur = cur.reverse := by
  cases cur with
  | nil => rfl
  | cons x xs =>
    have hx : x ≠ 13 := by simpa [noCrHead] using h
    unfold stripTrailingCr
    split
    · rename_i heq; simp at heq; exact absurd heq.1 hx
    · rfl

theorem split_vs_rust (n : Nat) : ∀ (s cur : Str), s.length ≤ n → noLoneCr s = true → noCrHead cur = true →
    splitLinesSpecAux s cur false = rustLines s cur ++ (if trailingEmpty s cur then [[]] else []) := by
  induction n with
  | zero =>
    intro s cur hl _ _
    have : s = [] := by cases s <;> simp_all
    subst this
    cases cur <;> simp [splitLinesSpecAux, rustLines, trailingEmpty]
  | succ n ih =>
    intro s cur hl hs hc
    cases s with
    | nil => cases cur <;> simp [splitLinesSpecAux, rustLines, trailingEmpty]
    | cons c r =>
      by_cases h10 : c = 10
      · subst h10
        have hr : noLoneCr r = true := noLoneCr_tail 10 r (by decide) hs
        have := ih r [] (by simp at hl; omega) hr rfl
        simp [splitLinesSpecAux, rustLines, trailingEmpty, this, stripTrailingCr_noCrHead cur hc]
      · by_cases h13 : c = 13
        · subst h13
          obtain ⟨r', hr, hr'⟩ := noLoneCr_cr r hs
          subst hr
          have := ih r' [] (by simp at hl; omega) hr' rfl
          simp [splitLinesSpecAux, rustLines, trailingEmpty, this, stripTrailingCr]
        · have hr : noLoneCr r = true := noLoneCr_tail c r h13 hs
          have hc' : noCrHead (c :: cur) = true := by simp [noCrHead, h13]
          have := ih r (c :: cur) (by simp at hl; omega) hr hc'
          simp [splitLinesSpecAux, rustLines, trailingEmpty, h10, h13, this]

theorem isBlank_nil : isBlank [] = true := rfl

theorem commonIndent_append_blank (ls : List Str) : commonIndent (ls ++ [[]]) = commonIndent ls := by
  induction ls with
  | nil => simp [commonIndent, isBlank_nil]
  | cons l ls ih => simp [commonIndent, ih]

theorem dropBlank_append (ls x : List Str) (h : dropBlank ls ≠ []) : dropBlank (ls ++ x) = dropBlank ls ++ x := by
  induction ls with
  | nil => simp [dropBlank] at h
  | cons l ls ih =>
    by_cases hb : isBlank l = true
    · simp only [List.cons_append, dropBlank, hb, if_true] at h ⊢
      exact ih h
    · simp [dropBlank, hb]

theorem dropBlank_all_blank (ls : List Str) (h : dropBlank ls = []) : dropBlank (ls ++ [[]]) = [] := by
  induction ls with
  | nil => simp [dropBlank, isBlank_nil]
  | cons l ls ih =>
    by_cases hb : isBlank l = true
    · simp only [List.cons_append, dropBlank, hb, if_true] at h ⊢
      exact ih h
    · simp [dropBlank, hb] at h

theorem trim_append_blank (ls : List Str) :
    (dropBlank (dropBlank (ls ++ [[]])).reverse).reverse = (dropBlank (dropBlank ls).reverse).reverse := by
  by_cases h : dropBlank ls = []
  · rw [dropBlank_all_blank ls h, h]
  · rw [dropBlank_append ls _ h]
    simp [dropBlank, isBlank_nil]

/-- a trailing empty line does not change the result of the line processing -/
theorem blockLines_append_blank (ls : List Str) : blockLines (ls ++ [[]]) = blockLines ls := by
  cases ls with
  | nil => simp [blockLines, commonIndent, dropBlank, isBlank_nil, joinLines]
  | cons l rest =>
    simp only [blockLines, List.cons_append, List.drop_succ_cons, List.drop_zero, commonIndent_append_blank]
    have : (l :: List.map (fun x => List.drop ((commonIndent rest).getD 0) x) (rest ++ [[]])) =
        (l :: List.map (fun x => List.drop ((commonIndent rest).getD 0) x) rest) ++ [[]] := by simp
    rw [this, trim_append_blank]

/-- `clean_block_string_literal` = BlockStringValue() where both are meant to agree -/
theorem clean_eq_blockStringValue (raw : Str) (h1 : noLoneCr raw = true) (h2 : noEscTriple raw = true) :
    cleanBlockString raw = blockStringValue raw := by
  unfold cleanBlockString blockStringValue splitLinesSpec
  rw [unescapeTriple_id _ raw (by omega) h2, split_vs_rust raw.length raw [] (Nat.le_refl _) h1 rfl]
  by_cases ht : trailingEmpty raw [] = true
  · simp [ht, blockLines_append_blank]
  · simp [ht]

end IsoVerif.Gql
