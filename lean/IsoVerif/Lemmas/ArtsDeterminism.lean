/-
Lemmas for C14_perm_invariant: every sink shape of `Model/Core/Determinism.lean` gives the same result
for every permutation of the iterated elements.  Core Lean only (`List.Perm`, `List.Pairwise`).
-/
import IsoVerif.Model.Core.Determinism

namespace IsoVerif.Core.Determinism
open List

variable {α β : Type} [DecidableEq α]

set_option linter.unusedSectionVars false

/-- the comparator is a total order (what `Ord` on the key type — text of interned strings, tuples of
them — provides) -/
structure TotalOrder (le : α → α → Bool) : Prop where
  total : ∀ a b, le a b = true ∨ le b a = true
  antisymm : ∀ a b, le a b = true → le b a = true → a = b
  trans : ∀ a b c, le a b = true → le b c = true → le a c = true

/-- strictly sorted: what a `BTreeSet` / the key list of a `BTreeMap` is -/
def StrictSorted (le : α → α → Bool) (l : List α) : Prop := l.Pairwise fun a b => le a b = true ∧ a ≠ b

/-! ### generic: strictly sorted lists are determined by their members -/

theorem eq_of_pairwise_asymm {γ : Type} {r : γ → γ → Prop} (asym : ∀ a b, r a b → r b a → False)
    {l₁ l₂ : List γ} (h₁ : l₁.Pairwise r) (h₂ : l₂.Pairwise r) (hm : ∀ x, x ∈ l₁ ↔ x ∈ l₂) : l₁ = l₂ := by
  have irr : ∀ a, ¬ r a a := fun a h => asym a a h h
  have n₁ : l₁.Nodup := h₁.imp (fun {a b} hab e => by subst e; exact irr a hab)
  have n₂ : l₂.Nodup := h₂.imp (fun {a b} hab e => by subst e; exact irr a hab)
  have p : l₁ ~ l₂ := (perm_ext_iff_of_nodup n₁ n₂).2 hm
  exact p.eq_of_pairwise (fun a b _ _ hab hba => (asym a b hab hba).elim) h₁ h₂

/-! ### sets -/

theorem mem_insertSet (le : α → α → Bool) (a x : α) (s : List α) :
    x ∈ insertSet le a s ↔ x = a ∨ x ∈ s := by
  induction s with
  | nil => simp [insertSet]
  | cons b bs ih =>
    simp only [insertSet]
    split
    · next hab => subst hab; simp
    · split
      · simp
      · simp only [mem_cons, ih]
        constructor
        · rintro (h | h | h) <;> simp [h]
        · rintro (h | h | h) <;> simp [h]

theorem sorted_insertSet {le : α → α → Bool} (h : TotalOrder le) (a : α) (s : List α)
    (hs : StrictSorted le s) : StrictSorted le (insertSet le a s) := by
  induction s with
  | nil => simp [insertSet, StrictSorted]
  | cons b bs ih =>
    unfold StrictSorted at hs ih ⊢
    rw [pairwise_cons] at hs
    simp only [insertSet]
    split
    · exact pairwise_cons.2 hs
    · next hab =>
      split
      · next hle =>
        refine pairwise_cons.2 ⟨?_, pairwise_cons.2 hs⟩
        intro x hx
        rcases mem_cons.1 hx with rfl | hx
        · exact ⟨hle, hab⟩
        · have hbx := hs.1 x hx
          refine ⟨h.trans _ _ _ hle hbx.1, ?_⟩
          intro e
          subst e
          exact hbx.2 (h.antisymm _ _ hbx.1 hle)
      · next hle =>
        have hba : le b a = true := by
          rcases h.total a b with h' | h'
          · exact absurd h' hle
          · exact h'
        refine pairwise_cons.2 ⟨?_, ih hs.2⟩
        intro x hx
        rcases (mem_insertSet le a x bs).1 hx with rfl | hx
        · exact ⟨hba, fun e => hab e.symm⟩
        · exact hs.1 x hx

theorem sorted_extendSet {le : α → α → Bool} (h : TotalOrder le) (s xs : List α)
    (hs : StrictSorted le s) : StrictSorted le (extendSet le s xs) := by
  induction xs generalizing s with
  | nil => exact hs
  | cons x xs ih => exact ih _ (sorted_insertSet h x s hs)

theorem mem_extendSet (le : α → α → Bool) (s xs : List α) (a : α) :
    a ∈ extendSet le s xs ↔ a ∈ s ∨ a ∈ xs := by
  induction xs generalizing s with
  | nil => simp [extendSet]
  | cons x xs ih =>
    show a ∈ extendSet le (insertSet le x s) xs ↔ _
    rw [ih, mem_insertSet, mem_cons]
    constructor
    · rintro ((h | h) | h) <;> simp [h]
    · rintro (h | h | h) <;> simp [h]

theorem strictSorted_ext {le : α → α → Bool} (h : TotalOrder le) {l₁ l₂ : List α}
    (h₁ : StrictSorted le l₁) (h₂ : StrictSorted le l₂) (hm : ∀ x, x ∈ l₁ ↔ x ∈ l₂) : l₁ = l₂ :=
  eq_of_pairwise_asymm (fun a b hab hba => hab.2 (h.antisymm a b hab.1 hba.1)) h₁ h₂ hm

/-- Shape `intoSortedSet` / `collectThenSortedSet`. -/
theorem extendSet_perm {le : α → α → Bool} (h : TotalOrder le) (s : List α) (hs : StrictSorted le s)
    {xs ys : List α} (p : xs.Perm ys) : extendSet le s xs = extendSet le s ys := by
  apply strictSorted_ext h (sorted_extendSet h s xs hs) (sorted_extendSet h s ys hs)
  intro a
  rw [mem_extendSet, mem_extendSet, p.mem_iff]

/-! ### maps -/

theorem keys_insertMap (le : α → α → Bool) (k : α) (v : β) (m : List (α × β)) :
    (insertMap le k v m).map Prod.fst = insertSet le k (m.map Prod.fst) := by
  induction m with
  | nil => simp [insertMap, insertSet]
  | cons kv rest ih =>
    obtain ⟨k', v'⟩ := kv
    simp only [insertMap, insertSet, map_cons]
    split
    · next e => subst e; simp
    · split
      · simp
      · simp [ih]

theorem keySorted_ext {le : α → α → Bool} (h : TotalOrder le) {m₁ m₂ : List (α × β)}
    (h₁ : StrictSorted le (m₁.map Prod.fst)) (h₂ : StrictSorted le (m₂.map Prod.fst))
    (hm : ∀ x, x ∈ m₁ ↔ x ∈ m₂) : m₁ = m₂ := by
  unfold StrictSorted at h₁ h₂
  rw [pairwise_map] at h₁ h₂
  exact eq_of_pairwise_asymm (r := fun (a b : α × β) => le a.1 b.1 = true ∧ a.1 ≠ b.1)
    (fun a b hab hba => hab.2 (h.antisymm _ _ hab.1 hba.1)) h₁ h₂ hm

theorem mem_insertMap {le : α → α → Bool} (h : TotalOrder le) (k : α) (v : β) (m : List (α × β))
    (hm : StrictSorted le (m.map Prod.fst)) (k' : α) (v' : β) :
    (k', v') ∈ insertMap le k v m ↔ (k' = k ∧ v' = v) ∨ (k' ≠ k ∧ (k', v') ∈ m) := by
  induction m with
  | nil => simp [insertMap]
  | cons kv rest ih =>
    obtain ⟨k₀, v₀⟩ := kv
    unfold StrictSorted at hm ih
    simp only [map_cons, pairwise_cons] at hm
    have hrest : ∀ w, (k₀, w) ∉ rest := by
      intro w hw
      exact (hm.1 k₀ (mem_map.2 ⟨_, hw, rfl⟩)).2 rfl
    simp only [insertMap]
    split
    · next e =>
      subst e
      simp only [mem_cons, Prod.mk.injEq]
      constructor
      · rintro (h' | h')
        · exact Or.inl h'
        · by_cases e : k' = k
          · subst e; exact absurd h' (hrest _)
          · exact Or.inr ⟨e, Or.inr h'⟩
      · rintro (h' | ⟨hne, h' | h'⟩)
        · exact Or.inl h'
        · exact absurd h'.1 hne
        · exact Or.inr h'
    · next hne =>
      split
      · next hle =>
        have hk : ∀ w, (k, w) ∉ (k₀, v₀) :: rest := by
          intro w hw
          rcases mem_cons.1 hw with e | hw
          · exact hne (Prod.mk.inj e).1
          · have := hm.1 k (mem_map.2 ⟨_, hw, rfl⟩)
            exact hne (h.antisymm _ _ hle this.1)
        simp only [mem_cons (a := (k', v')) (b := (k, v)), Prod.mk.injEq]
        constructor
        · rintro (h' | h')
          · exact Or.inl h'
          · by_cases e : k' = k
            · subst e; exact absurd h' (hk _)
            · exact Or.inr ⟨e, h'⟩
        · rintro (h' | ⟨_, h'⟩)
          · exact Or.inl h'
          · exact Or.inr h'
      · simp only [mem_cons (a := (k', v')) (b := (k₀, v₀)), ih hm.2, Prod.mk.injEq]
        constructor
        · rintro (h' | h' | h')
          · exact Or.inr ⟨fun e => hne (e.symm.trans h'.1), Or.inl h'⟩
          · exact Or.inl h'
          · exact Or.inr ⟨h'.1, Or.inr h'.2⟩
        · rintro (h' | ⟨hk, h' | h'⟩)
          · exact Or.inr (Or.inl h')
          · exact Or.inl h'
          · exact Or.inr (Or.inr ⟨hk, h'⟩)

theorem keys_keyedInsert (le : α → α → Bool) (f : α → β) (m : List (α × β)) (xs : List α) :
    (keyedInsert le f m xs).map Prod.fst = extendSet le (m.map Prod.fst) xs := by
  induction xs generalizing m with
  | nil => rfl
  | cons x xs ih =>
    show (keyedInsert le f (insertMap le x (f x) m) xs).map Prod.fst = extendSet le (insertSet le x (m.map Prod.fst)) xs
    rw [ih, keys_insertMap]

theorem mem_keyedInsert {le : α → α → Bool} (h : TotalOrder le) (f : α → β) (m : List (α × β))
    (hm : StrictSorted le (m.map Prod.fst)) (xs : List α) (k : α) (v : β) :
    (k, v) ∈ keyedInsert le f m xs ↔ (k ∈ xs ∧ v = f k) ∨ (k ∉ xs ∧ (k, v) ∈ m) := by
  induction xs generalizing m with
  | nil => simp [keyedInsert]
  | cons x xs ih =>
    show (k, v) ∈ keyedInsert le f (insertMap le x (f x) m) xs ↔ _
    have hm' : StrictSorted le ((insertMap le x (f x) m).map Prod.fst) := by
      rw [keys_insertMap]; exact sorted_insertSet h x _ hm
    rw [ih _ hm', mem_insertMap h x (f x) m hm, mem_cons]
    by_cases hx : k ∈ xs
    · simp [hx]
    · by_cases e : k = x
      · subst e; simp [hx]
      · simp [hx, e]

/-- Shape `keyedInsert`: the inserted value is a function of the key. -/
theorem keyedInsert_perm {le : α → α → Bool} (h : TotalOrder le) (f : α → β) (m : List (α × β))
    (hm : StrictSorted le (m.map Prod.fst)) {xs ys : List α} (p : xs.Perm ys) :
    keyedInsert le f m xs = keyedInsert le f m ys := by
  apply keySorted_ext h
  · rw [keys_keyedInsert]; exact sorted_extendSet h _ _ hm
  · rw [keys_keyedInsert]; exact sorted_extendSet h _ _ hm
  · rintro ⟨k, v⟩
    rw [mem_keyedInsert h f m hm, mem_keyedInsert h f m hm, p.mem_iff]

/-- `toMap` started from an arbitrary map -/
def toMapFrom (le : α → α → Bool) (m : List (α × β)) (xs : List (α × β)) : List (α × β) :=
  xs.foldl (fun acc kv => insertMap le kv.1 kv.2 acc) m

theorem keys_toMapFrom (le : α → α → Bool) (m xs : List (α × β)) :
    (toMapFrom le m xs).map Prod.fst = extendSet le (m.map Prod.fst) (xs.map Prod.fst) := by
  induction xs generalizing m with
  | nil => rfl
  | cons x xs ih =>
    show (toMapFrom le (insertMap le x.1 x.2 m) xs).map Prod.fst
      = extendSet le (insertSet le x.1 (m.map Prod.fst)) (xs.map Prod.fst)
    rw [ih, keys_insertMap]

theorem mem_toMapFrom {le : α → α → Bool} (h : TotalOrder le) (m : List (α × β))
    (hm : StrictSorted le (m.map Prod.fst)) (xs : List (α × β)) (hk : (xs.map Prod.fst).Nodup)
    (k : α) (v : β) :
    (k, v) ∈ toMapFrom le m xs ↔ (k, v) ∈ xs ∨ (k ∉ xs.map Prod.fst ∧ (k, v) ∈ m) := by
  induction xs generalizing m with
  | nil => simp [toMapFrom]
  | cons x xs ih =>
    obtain ⟨k₀, v₀⟩ := x
    show (k, v) ∈ toMapFrom le (insertMap le k₀ v₀ m) xs ↔ _
    have hm' : StrictSorted le ((insertMap le k₀ v₀ m).map Prod.fst) := by
      rw [keys_insertMap]; exact sorted_insertSet h k₀ _ hm
    simp only [map_cons, nodup_cons] at hk
    rw [ih _ hm' hk.2, mem_insertMap h k₀ v₀ m hm]
    simp only [mem_cons, map_cons, Prod.mk.injEq, not_or]
    constructor
    · rintro (h' | ⟨hn, h' | h'⟩)
      · exact Or.inl (Or.inr h')
      · exact Or.inl (Or.inl h')
      · exact Or.inr ⟨⟨h'.1, hn⟩, h'.2⟩
    · rintro ((h' | h') | ⟨⟨h1, h2⟩, h3⟩)
      · exact Or.inr ⟨by rw [h'.1]; exact hk.1, Or.inl h'⟩
      · exact Or.inl h'
      · exact Or.inr ⟨h2, Or.inr ⟨h1, h3⟩⟩

/-- Shape `pathKeyedVec`: an artifact list with pairwise different paths denotes the same path ↦ content map
in every order. -/
theorem toMap_perm {le : α → α → Bool} (h : TotalOrder le) {xs ys : List (α × β)} (p : xs.Perm ys)
    (hk : (xs.map Prod.fst).Nodup) : toMap le xs = toMap le ys := by
  have hk' : (ys.map Prod.fst).Nodup := (p.map Prod.fst).nodup_iff.1 hk
  have hnil : StrictSorted le (([] : List (α × β)).map Prod.fst) := by simp [StrictSorted]
  show toMapFrom le [] xs = toMapFrom le [] ys
  apply keySorted_ext h
  · rw [keys_toMapFrom]; exact sorted_extendSet h _ _ hnil
  · rw [keys_toMapFrom]; exact sorted_extendSet h _ _ hnil
  · rintro ⟨k, v⟩
    rw [mem_toMapFrom h [] hnil xs hk, mem_toMapFrom h [] hnil ys hk']
    simp [p.mem_iff]

/-! ### sort -/

theorem perm_insertSorted (le : α → α → Bool) (a : α) (l : List α) : insertSorted le a l ~ a :: l := by
  induction l with
  | nil => simp [insertSorted]
  | cons b bs ih =>
    simp only [insertSorted]
    split
    · exact Perm.refl _
    · exact (ih.cons b).trans (Perm.swap a b bs)

theorem perm_sortBy (le : α → α → Bool) (l : List α) : sortBy le l ~ l := by
  induction l with
  | nil => exact Perm.refl _
  | cons a l ih => exact (perm_insertSorted le a _).trans (ih.cons a)

theorem sorted_insertSorted {le : α → α → Bool} (h : TotalOrder le) (a : α) (l : List α)
    (hl : l.Pairwise fun x y => le x y = true) : (insertSorted le a l).Pairwise fun x y => le x y = true := by
  induction l with
  | nil => simp [insertSorted]
  | cons b bs ih =>
    rw [pairwise_cons] at hl
    simp only [insertSorted]
    split
    · next hle =>
      refine pairwise_cons.2 ⟨?_, pairwise_cons.2 hl⟩
      intro x hx
      rcases mem_cons.1 hx with rfl | hx
      · exact hle
      · exact h.trans _ _ _ hle (hl.1 x hx)
    · next hle =>
      have hba : le b a = true := by
        rcases h.total a b with h' | h'
        · exact absurd h' hle
        · exact h'
      refine pairwise_cons.2 ⟨?_, ih hl.2⟩
      intro x hx
      rcases mem_cons.1 ((perm_insertSorted le a bs).mem_iff.1 hx) with rfl | hx
      · exact hba
      · exact hl.1 x hx

theorem sorted_sortBy {le : α → α → Bool} (h : TotalOrder le) (l : List α) :
    (sortBy le l).Pairwise fun x y => le x y = true := by
  induction l with
  | nil => simp [sortBy]
  | cons a l ih => exact sorted_insertSorted h a _ ih

/-- Shape `collectThenSort`. -/
theorem sortBy_perm {le : α → α → Bool} (h : TotalOrder le) {xs ys : List α} (p : xs.Perm ys) :
    sortBy le xs = sortBy le ys :=
  Perm.eq_of_pairwise (le := fun x y => le x y = true) (fun a b _ _ => h.antisymm a b)
    (sorted_sortBy h xs) (sorted_sortBy h ys)
    ((perm_sortBy le xs).trans (p.trans (perm_sortBy le ys).symm))

/-- Shape `commutativeCount`. -/
theorem countBy_perm (w : α → Nat) (n : Nat) {xs ys : List α} (p : xs.Perm ys) :
    countBy w n xs = countBy w n ys :=
  p.foldl_eq' (fun x _ y _ z => Nat.add_right_comm z (w x) (w y)) n

/-! ### hash set -/

theorem mem_hashInsertAll (acc xs : List α) (a : α) : a ∈ hashInsertAll acc xs ↔ a ∈ acc ∨ a ∈ xs := by
  induction xs generalizing acc with
  | nil => simp [hashInsertAll]
  | cons x xs ih =>
    show a ∈ hashInsertAll (if x ∈ acc then acc else x :: acc) xs ↔ _
    rw [ih]
    split
    · next hx =>
      simp only [mem_cons]
      constructor
      · rintro (h | h) <;> simp [h]
      · rintro (h | h | h)
        · exact Or.inl h
        · exact Or.inl (h ▸ hx)
        · exact Or.inr h
    · simp only [mem_cons]
      constructor
      · rintro ((h | h) | h) <;> simp [h]
      · rintro (h | h | h) <;> simp [h]

theorem nodup_hashInsertAll (acc xs : List α) (hacc : acc.Nodup) : (hashInsertAll acc xs).Nodup := by
  induction xs generalizing acc with
  | nil => exact hacc
  | cons x xs ih =>
    show (hashInsertAll (if x ∈ acc then acc else x :: acc) xs).Nodup
    apply ih
    split
    · exact hacc
    · next hx => exact nodup_cons.2 ⟨hx, hacc⟩

/-- Shape `setToSet`: the resulting hash set has the same members (and stays duplicate-free); its own
iteration order is a separate site. -/
theorem hashInsertAll_perm (acc : List α) (hacc : acc.Nodup) {xs ys : List α} (p : xs.Perm ys) :
    (∀ a, a ∈ hashInsertAll acc xs ↔ a ∈ hashInsertAll acc ys) ∧
    (hashInsertAll acc xs).Nodup ∧ (hashInsertAll acc ys).Nodup ∧
    (hashInsertAll acc xs).Perm (hashInsertAll acc ys) := by
  have hm : ∀ a, a ∈ hashInsertAll acc xs ↔ a ∈ hashInsertAll acc ys := by
    intro a; rw [mem_hashInsertAll, mem_hashInsertAll, p.mem_iff]
  have n₁ := nodup_hashInsertAll acc xs hacc
  have n₂ := nodup_hashInsertAll acc ys hacc
  exact ⟨hm, n₁, n₂, (perm_ext_iff_of_nodup n₁ n₂).2 hm⟩

end IsoVerif.Core.Determinism
