/-
Helper definitions and lemmas for Props/C33.lean (signedsource model).
-/
import IsoVerif.Model.Signed

namespace IsoVerif.Signed
open IsoVerif.Util IsoVerif.Gen.SignedLits

/-- `"@generated "` -/
def genPrefix : Bytes := [64, 103, 101, 110, 101, 114, 97, 116, 101, 100, 32]

/-- The hash returns `reHexLen` lower-case hex digits. -/
def HexHash (h : Bytes → Bytes) : Prop := ∀ x, (h x).length = reHexLen ∧ (h x).all isHex = true

/-- `pat` does not occur in `X ++ Y` starting at any position inside `X`. -/
def NoOccBefore (pat X Y : Bytes) : Prop := ∀ k, k < X.length → isPrefix pat ((X ++ Y).drop k) = false

/-! ### Closed facts about the generated constants -/

theorem signingToken_eq : signingToken = genPrefix ++ newToken := by decide
theorem rePrefix_eq : rePrefix = genPrefix ++ sigOpen := by decide
theorem reSuffix_eq : reSuffix = sigClose := by decide
theorem newToken_ne_nil : newToken ≠ [] := by decide
theorem newToken_length : newToken.length = 48 := by decide
theorem reSuffix_length : reSuffix.length = 2 := by decide
theorem rePrefix_length : rePrefix.length = 25 := by decide
theorem reHexLen_eq : reHexLen = 32 := by decide
theorem matchLen_eq : matchLen = 59 := by decide
theorem hashSliceStart_eq : hashSliceStart = 25 := by decide
theorem hashSliceEndBack_eq : hashSliceEndBack = 2 := by decide
theorem matchHere_nil : matchHere [] = false := by decide

/-! ### `isPrefix` -/

theorem isPrefix_append (p t : Bytes) : isPrefix p (p ++ t) = true := by
  induction p with
  | nil => simp [isPrefix]
  | cons a p ih => simp [isPrefix, ih]

theorem isPrefix_length {p s : Bytes} (h : isPrefix p s = true) : p.length ≤ s.length := by
  induction p generalizing s with
  | nil => simp
  | cons a p ih =>
    cases s with
    | nil => simp [isPrefix] at h
    | cons x xs =>
      simp [isPrefix] at h
      have := ih h.2
      simp
      omega

/-! ### `NoOccBefore` -/

theorem NoOccBefore.head {pat : Bytes} {x : UInt8} {X Y : Bytes} (h : NoOccBefore pat (x :: X) Y) :
    isPrefix pat (x :: (X ++ Y)) = false := by
  have := h 0 (by simp)
  simpa using this

theorem NoOccBefore.tail {pat : Bytes} {x : UInt8} {X Y : Bytes} (h : NoOccBefore pat (x :: X) Y) :
    NoOccBefore pat X Y := by
  intro k hk
  have := h (k + 1) (by simp; omega)
  simpa using this

/-! ### `replaceAllAux` -/

theorem replaceAllAux_pass (pat rep : Bytes) : ∀ (X Y : Bytes) (n : Nat),
    NoOccBefore pat X Y → X.length ≤ n →
    replaceAllAux pat rep n (X ++ Y) = X ++ replaceAllAux pat rep (n - X.length) Y := by
  intro X
  induction X with
  | nil => intro Y n _ _; simp
  | cons x X ih =>
    intro Y n h hn
    cases n with
    | zero => simp at hn
    | succ n =>
      have h0 := h.head
      have hn' : X.length ≤ n := by simpa using hn
      simp only [List.cons_append, replaceAllAux, h0]
      simp [ih Y n h.tail hn']

theorem replaceAllAux_occ (pat rep : Bytes) (hp : pat ≠ []) (Y : Bytes) (n : Nat) :
    replaceAllAux pat rep (n + 1) (pat ++ Y) = rep ++ replaceAllAux pat rep n Y := by
  cases pat with
  | nil => exact absurd rfl hp
  | cons p ps =>
    have h1 : isPrefix (p :: ps) (p :: (ps ++ Y)) = true := isPrefix_append (p :: ps) Y
    have h2 : (p :: (ps ++ Y)).drop (p :: ps).length = Y :=
      List.drop_left (l₁ := p :: ps) (l₂ := Y)
    simp only [List.cons_append, replaceAllAux]
    rw [if_pos ⟨by simp, h1⟩, h2]

theorem replaceAllAux_none (pat rep : Bytes) : ∀ (B : Bytes) (n : Nat),
    NoOccBefore pat B [] → replaceAllAux pat rep n B = B := by
  intro B
  induction B with
  | nil => intro n _; cases n <;> simp [replaceAllAux]
  | cons x B ih =>
    intro n h
    cases n with
    | zero => simp [replaceAllAux]
    | succ n =>
      have h0 := h.head
      simp only [List.append_nil] at h0
      simp only [replaceAllAux, h0]
      simp [ih n h.tail]

theorem sign_single (h : Bytes → Bytes) (A B : Bytes)
    (hA : NoOccBefore newToken (A ++ genPrefix) (newToken ++ B))
    (hB : NoOccBefore newToken B []) :
    sign h (A ++ signingToken ++ B)
      = A ++ genPrefix ++ signature h (A ++ signingToken ++ B) ++ B := by
  unfold sign replaceAll
  generalize signature h (A ++ signingToken ++ B) = sg
  have hc : A ++ signingToken ++ B = (A ++ genPrefix) ++ (newToken ++ B) := by
    simp [signingToken_eq]
  rw [hc, replaceAllAux_pass _ _ _ _ _ hA (by simp)]
  have hf : ((A ++ genPrefix) ++ (newToken ++ B)).length - (A ++ genPrefix).length
      = (47 + B.length) + 1 := by
    simp only [List.length_append, newToken_length]
    omega
  rw [hf, replaceAllAux_occ _ _ newToken_ne_nil, replaceAllAux_none _ _ _ _ hB]
  simp

/-! ### `matchHere` -/

theorem matchHere_build (hx B : Bytes) (hl : hx.length = reHexLen) (hhex : hx.all isHex = true) :
    matchHere (rePrefix ++ (hx ++ (reSuffix ++ B))) = true := by
  unfold matchHere
  have d1 : (rePrefix ++ (hx ++ (reSuffix ++ B))).drop rePrefix.length = hx ++ (reSuffix ++ B) :=
    List.drop_left
  have t1 : (hx ++ (reSuffix ++ B)).take reHexLen = hx := List.take_left' hl
  have d2 : (rePrefix ++ (hx ++ (reSuffix ++ B))).drop (rePrefix.length + reHexLen)
      = reSuffix ++ B := by
    rw [← List.drop_drop, d1, List.drop_left' hl]
  rw [d1, t1, d2, isPrefix_append, isPrefix_append, hl, hhex]
  simp

theorem matchHere_length {s : Bytes} (h : matchHere s = true) : matchLen ≤ s.length := by
  unfold matchHere at h
  simp only [Bool.and_eq_true] at h
  have h2 := isPrefix_length h.2
  rw [List.length_drop] at h2
  have := reSuffix_length
  unfold matchLen
  omega

/-! ### `unsignAllAux` -/

theorem unsignAllAux_pass : ∀ (X Y : Bytes) (n : Nat),
    (∀ k, k < X.length → matchHere ((X ++ Y).drop k) = false) → X.length ≤ n →
    unsignAllAux n (X ++ Y) = X ++ unsignAllAux (n - X.length) Y := by
  intro X
  induction X with
  | nil => intro Y n _ _; simp
  | cons x X ih =>
    intro Y n h hn
    cases n with
    | zero => simp at hn
    | succ n =>
      have h0 : matchHere (x :: (X ++ Y)) = false := by
        have := h 0 (by simp)
        simpa using this
      have hn' : X.length ≤ n := by simpa using hn
      have ht : ∀ k, k < X.length → matchHere ((X ++ Y).drop k) = false := by
        intro k hk
        have := h (k + 1) (by simp; omega)
        simpa using this
      simp only [List.cons_append, unsignAllAux, h0]
      simp [ih Y n ht hn']

theorem unsignAllAux_hit {s : Bytes} (n : Nat) (h : matchHere s = true) :
    unsignAllAux (n + 1) s = signingToken ++ unsignAllAux n (s.drop matchLen) := by
  cases s with
  | nil => rw [matchHere_nil] at h; cases h
  | cons x xs => simp [unsignAllAux, h]

theorem unsignAllAux_none : ∀ (Y : Bytes) (n : Nat),
    (∀ k, matchHere (Y.drop k) = false) → unsignAllAux n Y = Y := by
  intro Y
  induction Y with
  | nil => intro n _; cases n <;> simp [unsignAllAux]
  | cons x Y ih =>
    intro n h
    cases n with
    | zero => simp [unsignAllAux]
    | succ n =>
      have h0 : matchHere (x :: Y) = false := by simpa using h 0
      have ht : ∀ k, matchHere (Y.drop k) = false := by
        intro k
        simpa using h (k + 1)
      simp only [unsignAllAux, h0]
      simp [ih n ht]

theorem unsign_eq (s : Bytes) : unsign s = unsignAllAux s.length s := by
  simp [unsign, unsignReplacesAll]

/-! ### `firstMatchAux` -/

theorem firstMatchAux_pass : ∀ (X Y : Bytes) (i : Nat),
    (∀ k, k < X.length → matchHere ((X ++ Y).drop k) = false) →
    firstMatchAux (X ++ Y) i = firstMatchAux Y (i + X.length) := by
  intro X
  induction X with
  | nil => intro Y i _; simp
  | cons x X ih =>
    intro Y i h
    have h0 : matchHere (x :: (X ++ Y)) = false := by
      have := h 0 (by simp)
      simpa using this
    have ht : ∀ k, k < X.length → matchHere ((X ++ Y).drop k) = false := by
      intro k hk
      have := h (k + 1) (by simp; omega)
      simpa using this
    simp only [List.cons_append, firstMatchAux, h0]
    rw [ih Y (i + 1) ht]
    simp [Nat.add_assoc, Nat.add_comm 1]

theorem firstMatchAux_hit {s : Bytes} (i : Nat) (h : matchHere s = true) :
    firstMatchAux s i = some i := by
  cases s with
  | nil => rw [matchHere_nil] at h; cases h
  | cons x xs => simp [firstMatchAux, h]

theorem firstMatchAux_none : ∀ (Y : Bytes) (i : Nat),
    (∀ k, matchHere (Y.drop k) = false) → firstMatchAux Y i = none := by
  intro Y
  induction Y with
  | nil => intro i _; simp [firstMatchAux]
  | cons x Y ih =>
    intro i h
    have h0 : matchHere (x :: Y) = false := by simpa using h 0
    have ht : ∀ k, matchHere (Y.drop k) = false := by
      intro k
      simpa using h (k + 1)
    simp only [firstMatchAux, h0]
    simp [ih (i + 1) ht]

theorem firstMatchAux_some : ∀ (s : Bytes) (j i : Nat), firstMatchAux s j = some i →
    ∃ d, i = j + d ∧ matchHere (s.drop d) = true := by
  intro s
  induction s with
  | nil => intro j i h; simp [firstMatchAux] at h
  | cons x xs ih =>
    intro j i h
    by_cases hm : matchHere (x :: xs) = true
    · simp [firstMatchAux, hm] at h
      exact ⟨0, by omega, by simpa using hm⟩
    · simp [firstMatchAux, hm] at h
      obtain ⟨d, hd, hmd⟩ := ih (j + 1) i h
      exact ⟨d + 1, by omega, by simpa using hmd⟩

theorem firstMatch_some {s : Bytes} {i : Nat} (h : firstMatch s = some i) :
    matchHere (s.drop i) = true := by
  obtain ⟨d, hd, hmd⟩ := firstMatchAux_some s 0 i h
  have : i = d := by omega
  rw [this]; exact hmd

theorem firstMatchAux_congr : ∀ (s s' : Bytes) (i : Nat), s.length = s'.length →
    (∀ k, matchHere (s.drop k) = matchHere (s'.drop k)) →
    firstMatchAux s i = firstMatchAux s' i := by
  intro s
  induction s with
  | nil =>
    intro s' i hl _
    cases s' with
    | nil => rfl
    | cons y ys => simp at hl
  | cons x xs ih =>
    intro s' i hl h
    cases s' with
    | nil => simp at hl
    | cons y ys =>
      have h0 : matchHere (x :: xs) = matchHere (y :: ys) := by simpa using h 0
      have ht : ∀ k, matchHere (xs.drop k) = matchHere (ys.drop k) := by
        intro k
        simpa using h (k + 1)
      have hl' : xs.length = ys.length := by simpa using hl
      simp only [firstMatchAux, h0, ih ys (i + 1) hl' ht]

/-! ### `isValidSignature` -/

theorem isValidSignature_elim {h : Bytes → Bytes} {s : Bytes} (hv : isValidSignature h s = true) :
    ∃ i, firstMatch s = some i ∧ h (unsign s) = actualHash s i := by
  unfold isValidSignature at hv
  cases hf : firstMatch s with
  | none => rw [hf] at hv; simp at hv
  | some i =>
    rw [hf] at hv
    exact ⟨i, rfl, by simpa using hv⟩

theorem actualHash_via_take (s : Bytes) (i : Nat) :
    actualHash s i = (((s.drop i).take matchLen).drop hashSliceStart).take
      (matchLen - hashSliceEndBack - hashSliceStart) := by
  unfold actualHash
  rw [List.drop_take, List.take_take, List.drop_drop]
  simp [matchLen_eq, hashSliceStart_eq, hashSliceEndBack_eq]

/-! ### Main theorems -/

theorem verify_single (h : Bytes → Bytes) (hh : HexHash h) (A B : Bytes)
    (hA : NoOccBefore newToken (A ++ genPrefix) (newToken ++ B))
    (hB : NoOccBefore newToken B [])
    (hM : ∀ k, k ≠ A.length → matchHere ((A ++ genPrefix ++ signature h (A ++ signingToken ++ B) ++ B).drop k) = false) :
    isValidSignature h (sign h (A ++ signingToken ++ B)) = true := by
  rw [sign_single h A B hA hB]
  generalize hc : A ++ signingToken ++ B = c at hM ⊢
  obtain ⟨hl, hhex⟩ := hh c
  -- the signed text, reassociated
  have hs : A ++ genPrefix ++ signature h c ++ B = A ++ (rePrefix ++ (h c ++ (reSuffix ++ B))) := by
    simp [signature, rePrefix_eq, reSuffix_eq, List.append_assoc]
  rw [hs] at hM ⊢
  generalize hY : rePrefix ++ (h c ++ (reSuffix ++ B)) = Y at hM ⊢
  have hmY : matchHere Y = true := by rw [← hY]; exact matchHere_build (h c) B hl hhex
  have hYlen : Y.length = matchLen + B.length := by
    rw [← hY]
    simp only [List.length_append, hl, matchLen]
    omega
  have hYdrop : Y.drop matchLen = B := by
    have : Y = (rePrefix ++ h c ++ reSuffix) ++ B := by rw [← hY]; simp [List.append_assoc]
    rw [this]
    apply List.drop_left'
    simp only [List.length_append, hl, matchLen]
  have hdA : (A ++ Y).drop A.length = Y := List.drop_left
  -- first match
  have hfm : firstMatch (A ++ Y) = some A.length := by
    unfold firstMatch
    rw [firstMatchAux_pass A Y 0 (fun k hk => hM k (by omega)), firstMatchAux_hit _ hmY]
    simp
  -- no match in the tail
  have hBnone : ∀ j, matchHere (B.drop j) = false := by
    intro j
    have := hM (A.length + (matchLen + j)) (by have := matchLen_eq; omega)
    rw [← List.drop_drop, hdA, ← List.drop_drop, hYdrop] at this
    exact this
  -- unsign
  have hun : unsign (A ++ Y) = c := by
    rw [unsign_eq, unsignAllAux_pass A Y _ (fun k hk => hM k (by omega)) (by simp)]
    have hf : (A ++ Y).length - A.length = (matchLen - 1 + B.length) + 1 := by
      simp only [List.length_append, hYlen, matchLen_eq]
      omega
    rw [hf, unsignAllAux_hit _ hmY, hYdrop, unsignAllAux_none B _ hBnone, ← hc]
    simp
  -- actual hash
  have hah : actualHash (A ++ Y) A.length = h c := by
    unfold actualHash
    rw [← List.drop_drop, hdA, ← hY]
    have e1 : hashSliceStart = rePrefix.length := by decide
    have e2 : matchLen - hashSliceEndBack - hashSliceStart = reHexLen := by decide
    rw [e2, e1, List.drop_left, List.take_left' hl]
  unfold isValidSignature
  rw [hfm]
  simp only []
  rw [hun, hah]
  simp

theorem unsignAllAux_inj : ∀ (n : Nat) (s s' : Bytes), s.length = s'.length →
    (∀ k, matchHere (s.drop k) = matchHere (s'.drop k)) →
    (∀ k, matchHere (s.drop k) = true → (s.drop k).take matchLen = (s'.drop k).take matchLen) →
    unsignAllAux n s = unsignAllAux n s' → s = s' := by
  intro n
  induction n with
  | zero => intro s s' _ _ _ h; simpa [unsignAllAux] using h
  | succ n ih =>
    intro s s' hl hsame hagree he
    cases s with
    | nil =>
      cases s' with
      | nil => rfl
      | cons y ys => simp at hl
    | cons x xs =>
      cases s' with
      | nil => simp at hl
      | cons y ys =>
        have h0 : matchHere (x :: xs) = matchHere (y :: ys) := by simpa using hsame 0
        by_cases hm : matchHere (x :: xs) = true
        · have hm' : matchHere (y :: ys) = true := by rw [← h0]; exact hm
          rw [unsignAllAux_hit n hm, unsignAllAux_hit n hm'] at he
          have he' := List.append_cancel_left he
          have htake : (x :: xs).take matchLen = (y :: ys).take matchLen := by
            simpa using hagree 0 (by simpa using hm)
          have hdrop : (x :: xs).drop matchLen = (y :: ys).drop matchLen := by
            apply ih _ _ _ _ _ he'
            · simp only [List.length_drop, hl]
            · intro k
              rw [List.drop_drop, List.drop_drop]
              exact hsame _
            · intro k hk
              rw [List.drop_drop] at hk ⊢
              rw [List.drop_drop]
              exact hagree _ hk
          rw [← List.take_append_drop matchLen (x :: xs), ← List.take_append_drop matchLen (y :: ys),
            htake, hdrop]
        · have hm0 : matchHere (x :: xs) = false := by simpa using hm
          have hm' : matchHere (y :: ys) = false := by rw [← h0]; exact hm0
          simp only [unsignAllAux, hm0, hm'] at he
          simp at he
          have hxs : xs = ys := by
            apply ih _ _ _ _ _ he.2
            · simpa using hl
            · intro k
              simpa using hsame (k + 1)
            · intro k hk
              simpa using hagree (k + 1) (by simpa using hk)
          rw [he.1, hxs]

theorem tamper_collision (h : Bytes → Bytes) (s s' : Bytes)
    (hlen : s.length = s'.length)
    (hsame : ∀ k, matchHere (s.drop k) = matchHere (s'.drop k))
    (hagree : ∀ k, matchHere (s.drop k) = true → (s.drop k).take matchLen = (s'.drop k).take matchLen)
    (hv : isValidSignature h s = true) (hv' : isValidSignature h s' = true) (hne : s ≠ s') :
    ∃ x y, x ≠ y ∧ h x = h y := by
  obtain ⟨i, hfi, hhi⟩ := isValidSignature_elim hv
  obtain ⟨i', hfi', hhi'⟩ := isValidSignature_elim hv'
  have hff : firstMatch s = firstMatch s' := firstMatchAux_congr s s' 0 hlen hsame
  have hii : i = i' := by
    rw [hfi, hfi'] at hff
    exact Option.some.inj hff
  subst hii
  have hah : actualHash s i = actualHash s' i := by
    rw [actualHash_via_take, actualHash_via_take, hagree i (firstMatch_some hfi)]
  refine ⟨unsign s, unsign s', ?_, ?_⟩
  · intro he
    apply hne
    rw [unsign_eq, unsign_eq, ← hlen] at he
    exact unsignAllAux_inj _ s s' hlen hsame hagree he
  · rw [hhi, hhi', hah]

theorem unsignAllAux_append (t : Bytes) : ∀ (n m : Nat) (s : Bytes), s.length ≤ n → s.length ≤ m →
    (∀ k, matchHere ((s ++ t).drop k) = matchHere (s.drop k)) →
    unsignAllAux m (s ++ t) = unsignAllAux n s ++ t := by
  have hnil : ∀ (m : Nat), (∀ k, matchHere (([] ++ t).drop k) = matchHere (([] : Bytes).drop k)) →
      unsignAllAux m ([] ++ t) = t := by
    intro m h
    apply unsignAllAux_none
    intro k
    have := h k
    simpa [matchHere_nil] using this
  intro n
  induction n with
  | zero =>
    intro m s hn _ h
    have : s = [] := by
      cases s with
      | nil => rfl
      | cons x xs => simp at hn
    subst this
    rw [hnil m h]
    simp [unsignAllAux]
  | succ n ih =>
    intro m s hn hm h
    cases s with
    | nil =>
      rw [hnil m h]
      simp [unsignAllAux]
    | cons x xs =>
      cases m with
      | zero => simp at hm
      | succ m =>
        have h0 : matchHere (x :: xs ++ t) = matchHere (x :: xs) := by simpa using h 0
        by_cases hmx : matchHere (x :: xs) = true
        · have hmx' : matchHere (x :: xs ++ t) = true := by rw [h0]; exact hmx
          have hlen := matchHere_length hmx
          rw [unsignAllAux_hit n hmx, unsignAllAux_hit m hmx', List.drop_append_of_le_length hlen,
            ih m ((x :: xs).drop matchLen)]
          · simp
          · rw [List.length_drop]; have := matchLen_eq; omega
          · rw [List.length_drop]; have := matchLen_eq; omega
          · intro k
            rw [← List.drop_append_of_le_length hlen, List.drop_drop, List.drop_drop]
            exact h _
        · have hm0 : matchHere (x :: xs) = false := by simpa using hmx
          have hm0' : matchHere (x :: (xs ++ t)) = false := by
            rw [← hm0, ← h0]; rfl
          simp only [List.cons_append, unsignAllAux, hm0, hm0']
          have := ih m xs (by simpa using hn) (by simpa using hm) (by
            intro k
            simpa using h (k + 1))
          simp [this]

theorem firstMatchAux_append (t : Bytes) : ∀ (s : Bytes) (i : Nat),
    (∀ k, matchHere ((s ++ t).drop k) = matchHere (s.drop k)) →
    firstMatchAux (s ++ t) i = firstMatchAux s i := by
  intro s
  induction s with
  | nil =>
    intro i h
    rw [firstMatchAux_none]
    · simp [firstMatchAux]
    · intro k
      have := h k
      simpa [matchHere_nil] using this
  | cons x xs ih =>
    intro i h
    have h0 : matchHere (x :: (xs ++ t)) = matchHere (x :: xs) := by simpa using h 0
    have ht : ∀ k, matchHere ((xs ++ t).drop k) = matchHere (xs.drop k) := by
      intro k
      simpa using h (k + 1)
    simp only [List.cons_append, firstMatchAux, h0, ih (i + 1) ht]

theorem append_collision (h : Bytes → Bytes) (s t : Bytes) (ht : t ≠ [])
    (hnm : ∀ k, matchHere ((s ++ t).drop k) = matchHere (s.drop k))
    (hv : isValidSignature h s = true) (hv' : isValidSignature h (s ++ t) = true) :
    ∃ x y, x ≠ y ∧ h x = h y := by
  obtain ⟨i, hfi, hhi⟩ := isValidSignature_elim hv
  obtain ⟨i', hfi', hhi'⟩ := isValidSignature_elim hv'
  have hff : firstMatch (s ++ t) = firstMatch s := firstMatchAux_append t s 0 hnm
  have hii : i' = i := by
    rw [hfi, hfi'] at hff
    exact Option.some.inj hff
  subst hii
  have hun : unsign (s ++ t) = unsign s ++ t := by
    rw [unsign_eq, unsign_eq]
    exact unsignAllAux_append t s.length (s ++ t).length s (Nat.le_refl _) (by simp) hnm
  have hmi := matchHere_length (firstMatch_some hfi)
  rw [List.length_drop] at hmi
  have hah : actualHash (s ++ t) i' = actualHash s i' := by
    unfold actualHash
    have := matchLen_eq
    have := hashSliceStart_eq
    have := hashSliceEndBack_eq
    rw [List.drop_append_of_le_length (by omega), List.take_append_of_le_length]
    rw [List.length_drop]
    omega
  refine ⟨unsign s, unsign (s ++ t), ?_, ?_⟩
  · rw [hun]
    intro he
    have hl := congrArg List.length he
    simp only [List.length_append] at hl
    have : t.length = 0 := by omega
    exact ht (List.length_eq_zero_iff.mp this)
  · rw [hhi, hhi', hah]

end IsoVerif.Signed
