/-
Helper definitions and lemmas for Props/C33.lean (signedsource model).
-/
import IsoVerif.Model.Signed

namespace IsoVerif.Signed
open IsoVerif.Util IsoVerif.Gen.SignedLits

/-- `"@generated "` -/
def genPrefix : Bytes := [64, 103, 101, 110, 101, 114, 97, 116, 101, 100, 32]

/-- The hash returns `reHexLen` lower-case hex digits. -/
def HexHash (h : Bytes → Bytes) : Prop := ∀ x, (h x).length = reHexLen ∧ (h x).all isHex = true

/-- `pat` does not occur in `X ++ Y` starting at any position inside `X`. -/
def NoOccBefore (pat X Y : Bytes) : Prop := ∀ k, k < X.length → isPrefix pat ((X ++ Y).drop k) = false

theorem verify_single (h : Bytes → Bytes) (hh : HexHash h) (A B : Bytes)
    (hA : NoOccBefore newToken (A ++ genPrefix) (newToken ++ B))
    (hB : NoOccBefore newToken B [])
    (hM : ∀ k, k ≠ A.length → matchHere ((A ++ genPrefix ++ signature h (A ++ signingToken ++ B) ++ B).drop k) = false) :
    isValidSignature h (sign h (A ++ signingToken ++ B)) = true := by
  sorry

theorem tamper_collision (h : Bytes → Bytes) (s s' : Bytes)
    (hlen : s.length = s'.length)
    (hsame : ∀ k, matchHere (s.drop k) = matchHere (s'.drop k))
    (hagree : ∀ k, matchHere (s.drop k) = true → (s.drop k).take matchLen = (s'.drop k).take matchLen)
    (hv : isValidSignature h s = true) (hv' : isValidSignature h s' = true) (hne : s ≠ s') :
    ∃ x y, x ≠ y ∧ h x = h y := by
  sorry

theorem append_collision (h : Bytes → Bytes) (s t : Bytes) (ht : t ≠ [])
    (hnm : ∀ k, matchHere ((s ++ t).drop k) = matchHere (s.drop k))
    (hv : isValidSignature h s = true) (hv' : isValidSignature h (s ++ t) = true) :
    ∃ x y, x ≠ y ∧ h x = h y := by
  sorry

end IsoVerif.Signed
