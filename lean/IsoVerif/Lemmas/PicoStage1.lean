/-
C01, stage 1: programs of nesting depth 0 (`Flat`: no body calls a memoised function), every
operation of the model (sources, singletons, tracked fields, calls, lookups, retain / clear /
never-gc, gc).  Under `CleanCalls` (no call panics) every call returns the from-scratch value —
reads of absent singletons / never-written tracked fields included (code after the repair of F1/F2).

The invariant is history-free.  For a derived node with revision `r` (all its dependencies are
sources, present or absent when read): for EVERY source state that matches the recorded
dependencies — a present one is still there with `tu ≤ stamp` and is observed as now, an absent
one is absent — the body evaluates to `r.val`; and a node verified in the current epoch matches
the current state.
-/
import IsoVerif.Lemmas.PicoBasic

namespace IsoVerif.Pico

/-- what a body can observe of a key -/
def keyObs (srcs : List (Key × SrcNode)) (maps : List (List Nat)) (k : Key) : Option Nat × Nat :=
  ((alookup srcs k).map (·.val), match k with | .ctr m => mapLen maps m | _ => 0)

theorem keyObs_of_lookup_maps {σ σ' : List (Key × SrcNode)} {m m' : List (List Nat)} {k : Key}
    (h1 : alookup σ' k = alookup σ k) (h2 : ∀ i, k = .ctr i → mapLen m' i = mapLen m i) :
    keyObs σ' m' k = keyObs σ m k := by
  unfold keyObs
  rw [h1]
  cases k with
  | src n => rfl
  | sing i => rfl
  | ctr i => simp [h2 i rfl]

/-- the observation recorded by a dependency holds in `(σ', m')` -/
def ObsMatch (s : Storage) (σ' : List (Key × SrcNode)) (m' : List (List Nat)) : DepNode → Prop
  | .source k => keyObs σ' m' k = keyObs s.srcs s.maps k
  | .absent k => alookup σ' k = none ∧ ∀ i, k = .ctr i → mapLen m' i = 0
  | .derived _ => True

/-- the dependency is intact in `s` (a present source still there and not re-stamped) and what it
recorded holds in `(σ', m')` -/
def DepMatch (s : Storage) (σ' : List (Key × SrcNode)) (m' : List (List Nat)) (d : Dep) : Prop :=
  match d.node with
  | .source k => (∃ nd, alookup s.srcs k = some nd ∧ nd.tu ≤ d.stamp) ∧ keyObs σ' m' k = keyObs s.srcs s.maps k
  | .absent k => alookup σ' k = none ∧ ∀ i, k = .ctr i → mapLen m' i = 0
  | .derived _ => False

theorem DepMatch.obs {s : Storage} {σ' : List (Key × SrcNode)} {m' : List (List Nat)} {d : Dep}
    (h : DepMatch s σ' m' d) : ObsMatch s σ' m' d.node := by
  unfold DepMatch at h; unfold ObsMatch
  cases hd : d.node with
  | source k => rw [hd] at h; exact h.2
  | absent k => rw [hd] at h; exact h
  | derived m => trivial

/-- the dependency refers to a source as it is in `s`: present, or absent -/
def NodeGood (s : Storage) : DepNode → Prop
  | .source k => ∃ nd, alookup s.srcs k = some nd
  | .absent k => alookup s.srcs k = none
  | .derived _ => False

/-- a property of every recorded dependency that only looks at the node -/
def AllN (p : DepNode → Prop) (ds : List Dep) : Prop := ∀ d, d ∈ ds → p d.node

theorem allN_pushDep (p : DepNode → Prop) (rdeps : List Dep) (n : DepNode) (e : Nat) :
    AllN p (pushDep rdeps ⟨n, e⟩) ↔ p n ∧ AllN p rdeps := by
  unfold AllN
  cases rdeps with
  | nil => simp [pushDep]
  | cons l rest =>
    by_cases h : l.node = n
    · simp only [pushDep, h, if_true, List.mem_cons]
      constructor
      · intro H; exact ⟨H _ (Or.inl rfl), fun d hd => by
          rcases hd with rfl | hd
          · rw [h]; exact H _ (Or.inl rfl)
          · exact H d (Or.inr hd)⟩
      · rintro ⟨h1, h2⟩ d hd
        rcases hd with rfl | hd
        · exact h1
        · exact h2 d (Or.inr hd)
    · simp only [pushDep, h, if_false, List.mem_cons]
      constructor
      · intro H; exact ⟨H _ (Or.inl rfl), fun d hd => H d (Or.inr hd)⟩
      · rintro ⟨h1, h2⟩ d hd
        rcases hd with rfl | hd
        · exact h1
        · exact h2 d hd

theorem stamps_pushDep (rdeps : List Dep) (n : DepNode) (e : Nat) (h : ∀ d, d ∈ rdeps → d.stamp = e) :
    ∀ d, d ∈ pushDep rdeps ⟨n, e⟩ → d.stamp = e := by
  cases rdeps with
  | nil => intro d hd; simp [pushDep] at hd; subst hd; rfl
  | cons l rest =>
    intro d hd
    by_cases hl : l.node = n
    · simp only [pushDep, hl, if_true, List.mem_cons] at hd
      rcases hd with rfl | hd
      · rfl
      · exact h d (List.mem_cons_of_mem _ hd)
    · simp only [pushDep, hl, if_false, List.mem_cons] at hd
      rcases hd with rfl | hd
      · rfl
      · exact h d (List.mem_cons.2 hd)

/-- the tracked field of a counter that was never written is empty -/
def MapsInit (s : Storage) : Prop := ∀ i, alookup s.srcs (.ctr i) = none → mapLen s.maps i = 0

/-- result of evaluating a call-free expression inside a frame -/
structure FlatRes (call : Storage → NodeId → Storage × Res Nat) (P : Prog) (e : Expr) (a : Nat) (s : Storage)
    (fr : Frame) (rest : List Frame) (v : Nat) (fr' : Frame) : Prop where
  eq : evalE call P e a s = ({ s with stack := fr' :: rest }, .ok v)
  id : fr'.id = fr.id
  mono : ∀ p : DepNode → Prop, AllN p fr'.rdeps → AllN p fr.rdeps
  good : AllN (NodeGood s) fr.rdeps → AllN (NodeGood s) fr'.rdeps
  stamps : (∀ d, d ∈ fr.rdeps → d.stamp = s.epoch) → ∀ d, d ∈ fr'.rdeps → d.stamp = s.epoch
  cov : ∀ σ' m' c', AllN (ObsMatch s σ' m') fr'.rdeps → evalP c' P σ' m' e a = .ok v

theorem regDep_cons (s : Storage) (fr : Frame) (rest : List Frame) (n : DepNode) (tu : Nat)
    (h : s.stack = fr :: rest) :
    regDep s n tu = { s with stack := { fr with rdeps := pushDep fr.rdeps ⟨n, s.epoch⟩, maxTu := max tu fr.maxTu } :: rest } := by
  simp [regDep, h]

theorem keyObs_fst_some {σ : List (Key × SrcNode)} {m : List (List Nat)} {k : Key} {nd : SrcNode}
    (h : alookup σ k = some nd) : (keyObs σ m k).1 = some nd.val := by simp [keyObs, h]

theorem keyObs_fst_none {σ : List (Key × SrcNode)} {m : List (List Nat)} {k : Key}
    (h : alookup σ k = none) : (keyObs σ m k).1 = none := by simp [keyObs, h]

/-- a present source observed equal: same lookup value -/
theorem lookup_of_obs {σ σ' : List (Key × SrcNode)} {m m' : List (List Nat)} {k : Key} {nd : SrcNode}
    (h : alookup σ k = some nd) (ho : keyObs σ' m' k = keyObs σ m k) :
    ∃ nd', alookup σ' k = some nd' ∧ nd'.val = nd.val := by
  cases hl' : alookup σ' k with
  | none =>
    have e1 := keyObs_fst_none (m := m') hl'
    have e2 := keyObs_fst_some (m := m) h
    rw [ho] at e1; rw [e1] at e2; cases e2
  | some nd' =>
    have e1 := keyObs_fst_some (m := m') hl'
    have e2 := keyObs_fst_some (m := m) h
    rw [ho] at e1; rw [e1] at e2
    exact ⟨nd', rfl, Option.some.inj e2⟩

/-- one single dependency pushed on a frame -/
theorem flatRes_push (call : Storage → NodeId → Storage × Res Nat) (P : Prog) (e : Expr) (a : Nat) (s : Storage)
    (fr : Frame) (rest : List Frame) (v tu : Nat) (n : DepNode)
    (heq : evalE call P e a s = ({ s with stack := { fr with rdeps := pushDep fr.rdeps ⟨n, s.epoch⟩, maxTu := tu } :: rest }, .ok v))
    (hgood : NodeGood s n)
    (hcov : ∀ σ' m' c', ObsMatch s σ' m' n → evalP c' P σ' m' e a = .ok v) :
    FlatRes call P e a s fr rest v { fr with rdeps := pushDep fr.rdeps ⟨n, s.epoch⟩, maxTu := tu } :=
  ⟨heq, rfl, fun p h => ((allN_pushDep p _ _ _).1 h).2, fun h => (allN_pushDep _ _ _ _).2 ⟨hgood, h⟩,
   fun h => stamps_pushDep _ _ _ h, fun σ' m' c' h => hcov σ' m' c' ((allN_pushDep _ _ _ _).1 h).1⟩

theorem evalE_flat (call : Storage → NodeId → Storage × Res Nat) (c : NodeId → Res Nat) (P : Prog) :
    ∀ (e : Expr), e.noCall = true → ∀ (a : Nat) (s : Storage) (fr : Frame) (rest : List Frame) (v : Nat),
      s.stack = fr :: rest → MapsInit s → evalP c P s.srcs s.maps e a = .ok v →
      ∃ fr', FlatRes call P e a s fr rest v fr' := by
  intro e
  induction e with
  | lit n =>
    intro _ a s fr rest v hs _ h
    simp only [evalP] at h; cases h
    refine ⟨fr, ⟨?_, rfl, fun _ h => h, fun hg => hg, fun h => h, ?_⟩⟩
    · simp only [evalE]; rw [← hs]
    · intro σ' m' c' _; simp [evalP]
  | param =>
    intro _ a s fr rest v hs _ h
    simp only [evalP] at h; cases h
    refine ⟨fr, ⟨?_, rfl, fun _ h => h, fun hg => hg, fun h => h, ?_⟩⟩
    · simp only [evalE]; rw [← hs]
    · intro σ' m' c' _; simp [evalP]
  | src k ih =>
    intro hnc a s fr rest v hs hmi h
    simp only [Expr.noCall] at hnc
    simp only [evalP] at h
    cases hk : evalP c P s.srcs s.maps k a with
    | panic p => simp [hk] at h
    | ok kv =>
      simp only [hk] at h
      cases hl : alookup s.srcs (.src kv) with
      | none => simp [hl] at h
      | some nd =>
        simp only [hl] at h; cases h
        obtain ⟨fr1, r1⟩ := ih hnc a s fr rest kv hs hmi hk
        refine ⟨{ fr1 with rdeps := pushDep fr1.rdeps ⟨.source (.src kv), s.epoch⟩, maxTu := max nd.tu fr1.maxTu }, ⟨?_, r1.id, ?_, ?_, ?_, ?_⟩⟩
        · simp only [evalE, r1.eq, hl]
          rw [regDep_cons { s with stack := fr1 :: rest } fr1 rest _ _ rfl]
        · intro p hp; exact r1.mono p ((allN_pushDep p _ _ _).1 hp).2
        · intro hg; exact (allN_pushDep _ _ _ _).2 ⟨⟨nd, hl⟩, r1.good hg⟩
        · intro hst; exact stamps_pushDep _ _ _ (r1.stamps hst)
        · intro σ' m' c' hag
          obtain ⟨ho, hrest⟩ := (allN_pushDep _ _ _ _).1 hag
          have h1 : evalP c' P σ' m' k a = .ok kv := r1.cov σ' m' c' hrest
          obtain ⟨nd', hl', hv'⟩ := lookup_of_obs hl ho
          simp only [evalP, h1, hl', hv']
  | sing i =>
    intro _ a s fr rest v hs _ h
    simp only [evalP] at h
    cases hl : alookup s.srcs (.sing i) with
    | none =>
      simp only [hl] at h; cases h
      refine ⟨_, flatRes_push call P _ a s fr rest 0 (max s.epoch fr.maxTu) (.absent (.sing i)) ?_ hl ?_⟩
      · simp only [evalE, hl]; rw [regDep_cons s fr rest _ _ hs]
      · intro σ' m' c' ho; simp only [evalP, ho.1]
    | some nd =>
      simp only [hl] at h; cases h
      refine ⟨_, flatRes_push call P _ a s fr rest (nd.val + 1) (max nd.tu fr.maxTu) (.source (.sing i)) ?_ ⟨nd, hl⟩ ?_⟩
      · simp only [evalE, hl]; rw [regDep_cons s fr rest _ _ hs]
      · intro σ' m' c' ho
        obtain ⟨nd', hl', hv'⟩ := lookup_of_obs hl ho
        simp only [evalP, hl', hv']
  | trk m =>
    intro _ a s fr rest v hs hmi h
    simp only [evalP] at h; cases h
    cases hl : alookup s.srcs (.ctr m) with
    | none =>
      refine ⟨_, flatRes_push call P _ a s fr rest (mapLen s.maps m) (max s.epoch fr.maxTu) (.absent (.ctr m)) ?_ hl ?_⟩
      · simp only [evalE, hl]; rw [regDep_cons s fr rest _ _ hs]
      · intro σ' m' c' ho; simp only [evalP]; rw [ho.2 m rfl, hmi m hl]
    | some nd =>
      refine ⟨_, flatRes_push call P _ a s fr rest (mapLen s.maps m) (max nd.tu fr.maxTu) (.source (.ctr m)) ?_ ⟨nd, hl⟩ ?_⟩
      · simp only [evalE, hl]; rw [regDep_cons s fr rest _ _ hs]
      · intro σ' m' c' ho
        have : mapLen m' m = mapLen s.maps m := by
          have := congrArg Prod.snd ho
          simpa [keyObs] using this
        simp only [evalP, this]
  | call f e _ => intro hnc; simp [Expr.noCall] at hnc
  | add x y ihx ihy =>
    intro hnc a s fr rest v hs hmi h
    simp only [Expr.noCall, Bool.and_eq_true] at hnc
    simp only [evalP] at h
    cases hx : evalP c P s.srcs s.maps x a with
    | panic p => simp [hx] at h
    | ok xv =>
      simp only [hx] at h
      cases hy : evalP c P s.srcs s.maps y a with
      | panic p => simp [hy] at h
      | ok yv =>
        simp only [hy] at h; cases h
        obtain ⟨fr1, r1⟩ := ihx hnc.1 a s fr rest xv hs hmi hx
        obtain ⟨fr2, r2⟩ := ihy hnc.2 a { s with stack := fr1 :: rest } fr1 rest yv rfl hmi hy
        refine ⟨fr2, ⟨?_, r2.id.trans r1.id, fun p hp => r1.mono p (r2.mono p hp), fun hg => r2.good (r1.good hg),
          fun hst => r2.stamps (r1.stamps hst), ?_⟩⟩
        · simp only [evalE, r1.eq, r2.eq]
        · intro σ' m' c' hag
          have h1 := r1.cov σ' m' c' (r2.mono _ hag)
          have h2 := r2.cov σ' m' c' hag
          simp only [evalP, h1, h2]
  | eq x y ihx ihy =>
    intro hnc a s fr rest v hs hmi h
    simp only [Expr.noCall, Bool.and_eq_true] at hnc
    simp only [evalP] at h
    cases hx : evalP c P s.srcs s.maps x a with
    | panic p => simp [hx] at h
    | ok xv =>
      simp only [hx] at h
      cases hy : evalP c P s.srcs s.maps y a with
      | panic p => simp [hy] at h
      | ok yv =>
        simp only [hy] at h; cases h
        obtain ⟨fr1, r1⟩ := ihx hnc.1 a s fr rest xv hs hmi hx
        obtain ⟨fr2, r2⟩ := ihy hnc.2 a { s with stack := fr1 :: rest } fr1 rest yv rfl hmi hy
        refine ⟨fr2, ⟨?_, r2.id.trans r1.id, fun p hp => r1.mono p (r2.mono p hp), fun hg => r2.good (r1.good hg),
          fun hst => r2.stamps (r1.stamps hst), ?_⟩⟩
        · simp only [evalE, r1.eq, r2.eq]
        · intro σ' m' c' hag
          have h1 := r1.cov σ' m' c' (r2.mono _ hag)
          have h2 := r2.cov σ' m' c' hag
          simp only [evalP, h1, h2]
  | ite cnd t e ihc iht ihe =>
    intro hnc a s fr rest v hs hmi h
    simp only [Expr.noCall, Bool.and_eq_true] at hnc
    simp only [evalP] at h
    cases hcv : evalP c P s.srcs s.maps cnd a with
    | panic p => simp [hcv] at h
    | ok cv =>
      simp only [hcv] at h
      obtain ⟨fr1, r1⟩ := ihc hnc.1.1 a s fr rest cv hs hmi hcv
      by_cases hz : cv ≠ 0
      · rw [if_pos hz] at h
        obtain ⟨fr2, r2⟩ := iht hnc.1.2 a { s with stack := fr1 :: rest } fr1 rest v rfl hmi h
        refine ⟨fr2, ⟨?_, r2.id.trans r1.id, fun p hp => r1.mono p (r2.mono p hp), fun hg => r2.good (r1.good hg),
          fun hst => r2.stamps (r1.stamps hst), ?_⟩⟩
        · simp only [evalE, r1.eq]; rw [if_pos hz]; exact r2.eq
        · intro σ' m' c' hag
          have h1 := r1.cov σ' m' c' (r2.mono _ hag)
          have h2 := r2.cov σ' m' c' hag
          simp only [evalP, h1]; rw [if_pos hz]; exact h2
      · rw [if_neg hz] at h
        obtain ⟨fr2, r2⟩ := ihe hnc.2 a { s with stack := fr1 :: rest } fr1 rest v rfl hmi h
        refine ⟨fr2, ⟨?_, r2.id.trans r1.id, fun p hp => r1.mono p (r2.mono p hp), fun hg => r2.good (r1.good hg),
          fun hst => r2.stamps (r1.stamps hst), ?_⟩⟩
        · simp only [evalE, r1.eq]; rw [if_neg hz]; exact r2.eq
        · intro σ' m' c' hag
          have h1 := r1.cov σ' m' c' (r2.mono _ hag)
          have h2 := r2.cov σ' m' c' hag
          simp only [evalP, h1]; rw [if_neg hz]; exact h2
  | half x ih =>
    intro hnc a s fr rest v hs hmi h
    simp only [Expr.noCall] at hnc
    simp only [evalP] at h
    cases hx : evalP c P s.srcs s.maps x a with
    | panic p => simp [hx] at h
    | ok xv =>
      simp only [hx] at h; cases h
      obtain ⟨fr1, r1⟩ := ih hnc a s fr rest xv hs hmi hx
      refine ⟨fr1, ⟨?_, r1.id, r1.mono, r1.good, r1.stamps, ?_⟩⟩
      · simp only [evalE, r1.eq]
      · intro σ' m' c' hag
        simp only [evalP, r1.cov σ' m' c' hag]


/-! ## the invariant -/

def NoDerived (deps : List Dep) : Prop := ∀ d, d ∈ deps → (∃ k, d.node = .source k) ∨ (∃ k, d.node = .absent k)

def DepsMatch (s : Storage) (σ' : List (Key × SrcNode)) (m' : List (List Nat)) (deps : List Dep) : Prop :=
  ∀ d, d ∈ deps → DepMatch s σ' m' d

structure NodeOk (P : Prog) (s : Storage) (n : NodeId) (r : Rev) : Prop where
  tv_le : r.tv ≤ s.epoch
  noDerived : NoDerived r.deps
  stamps : ∀ d, d ∈ r.deps → d.stamp ≤ r.tv
  fresh_now : r.tv = s.epoch → DepsMatch s s.srcs s.maps r.deps
  sound : ∀ σ' m' c', DepsMatch s σ' m' r.deps → evalP c' P σ' m' (fnOf P n.fn).body n.arg = .ok r.val

structure Inv1 (P : Prog) (s : Storage) : Prop where
  stack : s.stack = []
  srcTu : ∀ k nd, alookup s.srcs k = some nd → nd.tu ≤ s.epoch
  mapsInit : MapsInit s
  nodes : ∀ n r, alookup s.derived n = some r → NodeOk P s n r

theorem DepMatch.congr {s s' : Storage} {σ' : List (Key × SrcNode)} {m' : List (List Nat)} {d : Dep}
    (hs : s'.srcs = s.srcs) (hm : s'.maps = s.maps) (h : DepMatch s σ' m' d) : DepMatch s' σ' m' d := by
  unfold DepMatch at h ⊢
  cases hd : d.node with
  | source k => rw [hd] at h; simp only; rw [hs, hm]; exact h
  | absent k => rw [hd] at h; exact h
  | derived m => rw [hd] at h; exact h

/-- `NodeOk` only looks at the epoch, the sources and the tracked fields -/
theorem NodeOk.congr {P : Prog} {s : Storage} {n : NodeId} {r : Rev} (h : NodeOk P s n r) {s' : Storage}
    (he : s'.epoch = s.epoch) (hs : s'.srcs = s.srcs) (hm : s'.maps = s.maps) :
    NodeOk P s' n r := by
  refine ⟨by rw [he]; exact h.tv_le, h.noDerived, h.stamps, ?_, ?_⟩
  · intro ht d hd
    have := h.fresh_now (by rw [← he]; exact ht) d hd
    rw [hs, hm]; exact this.congr hs hm
  · intro σ' m' c' hf
    exact h.sound σ' m' c' (fun d hd => (hf d hd).congr hs.symm hm.symm)

theorem Inv1.congr {P : Prog} {s : Storage} (h : Inv1 P s) {s' : Storage} (hst : s'.stack = []) (he : s'.epoch = s.epoch)
    (hs : s'.srcs = s.srcs) (hm : s'.maps = s.maps) (hd : s'.derived = s.derived) : Inv1 P s' :=
  ⟨hst, by intro k nd hk; rw [he]; rw [hs] at hk; exact h.srcTu k nd hk,
   by intro i hi; rw [hs] at hi; rw [hm]; exact h.mapsInit i hi,
   by intro n r hn; rw [hd] at hn; exact (h.nodes n r hn).congr he hs hm⟩

/-! ## one execution -/

theorem anyDep_noDerived (ex : Storage → NodeId → Storage × Res Bool) :
    ∀ (deps : List Dep) (s : Storage), NoDerived deps → (∀ d, d ∈ deps → d.stamp < s.epoch) → MapsInit s →
      ∃ b, anyDep (depChanged ex) deps s = (s, .ok b) ∧ (b = false → DepsMatch s s.srcs s.maps deps) := by
  intro deps
  induction deps with
  | nil => intro s _ _ _; exact ⟨false, rfl, fun _ d hd => by cases hd⟩
  | cons d ds ih =>
    intro s hso hst hmi
    have hne : d.stamp ≠ s.epoch := Nat.ne_of_lt (hst d List.mem_cons_self)
    obtain ⟨b, hb, hfb⟩ := ih s (fun d' hd' => hso d' (List.mem_cons_of_mem _ hd'))
      (fun d' hd' => hst d' (List.mem_cons_of_mem _ hd')) hmi
    rcases hso d List.mem_cons_self with ⟨k, hk⟩ | ⟨k, hk⟩
    · simp only [anyDep, if_neg hne, depChanged, hk]
      cases hl : alookup s.srcs k with
      | none => exact ⟨true, by simp, by intro h; cases h⟩
      | some nd =>
        by_cases hgt : nd.tu > d.stamp
        · exact ⟨true, by simp [hgt], by intro h; cases h⟩
        · refine ⟨b, by simp [hgt, hb], ?_⟩
          intro hbf d' hd'
          rcases List.mem_cons.1 hd' with rfl | hd''
          · unfold DepMatch; rw [hk]; exact ⟨⟨nd, hl, Nat.le_of_not_gt hgt⟩, rfl⟩
          · exact hfb hbf d' hd''
    · simp only [anyDep, if_neg hne, depChanged, hk]
      cases hl : alookup s.srcs k with
      | some nd => exact ⟨true, by simp, by intro h; cases h⟩
      | none =>
        refine ⟨b, by simp [hb], ?_⟩
        intro hbf d' hd'
        rcases List.mem_cons.1 hd' with rfl | hd''
        · unfold DepMatch; rw [hk]; exact ⟨hl, fun i hi => hmi i (by rw [← hi]; exact hl)⟩
        · exact hfb hbf d' hd''

/-- a node just executed (its frame started empty) satisfies `NodeOk` -/
theorem nodeOk_fresh_exec {P : Prog} {s : Storage} {id : NodeId} {call : Storage → NodeId → Storage × Res Nat}
    {fr' : Frame} {v : Nat} {rest : List Frame} {s0 : Storage}
    (r : FlatRes call P (fnOf P id.fn).body id.arg s0 ⟨id, [], 1⟩ rest v fr') (tu : Nat)
    (he : s0.epoch = s.epoch) (hs : s0.srcs = s.srcs) (hm : s0.maps = s.maps)
    (hsrcTu : ∀ k nd, alookup s.srcs k = some nd → nd.tu ≤ s.epoch) (hmi : MapsInit s) :
    NodeOk P s id (Rev.mk v tu s.epoch fr'.rdeps.reverse) := by
  have hg : AllN (NodeGood s0) fr'.rdeps := r.good (fun d hd => by cases hd)
  have hstamp : ∀ d, d ∈ fr'.rdeps → d.stamp = s0.epoch := r.stamps (fun d hd => by cases hd)
  have hmatch : DepsMatch s s.srcs s.maps fr'.rdeps.reverse := by
    intro d hd
    have hd' := List.mem_reverse.1 hd
    have hgd := hg d hd'
    unfold DepMatch
    cases hn : d.node with
    | source k =>
      rw [hn] at hgd
      obtain ⟨nd, hl⟩ := hgd
      rw [hs] at hl
      exact ⟨⟨nd, hl, by rw [hstamp d hd', he]; exact hsrcTu _ _ hl⟩, rfl⟩
    | absent k =>
      rw [hn] at hgd
      have hl : alookup s.srcs k = none := by rw [← hs]; exact hgd
      exact ⟨hl, fun i hi => hmi i (by rw [← hi]; exact hl)⟩
    | derived m => rw [hn] at hgd; exact hgd
  refine ⟨Nat.le_refl _, ?_, ?_, fun _ => hmatch, ?_⟩
  · intro d hd
    have hgd := hg d (List.mem_reverse.1 hd)
    cases hn : d.node with
    | source k => exact Or.inl ⟨k, rfl⟩
    | absent k => exact Or.inr ⟨k, rfl⟩
    | derived m => rw [hn] at hgd; exact absurd hgd (by simp [NodeGood])
  · intro d hd
    show d.stamp ≤ s.epoch
    rw [hstamp d (List.mem_reverse.1 hd), he]; exact Nat.le_refl _
  · intro σ' m' c' hf
    refine r.cov σ' m' c' ?_
    intro d hd
    have := (hf d (List.mem_reverse.2 hd)).obs
    cases hn : d.node with
    | source k => rw [hn] at this; unfold ObsMatch at this ⊢; rw [hs, hm]; exact this
    | absent k => rw [hn] at this; exact this
    | derived m => trivial

theorem flat_fnOf {P : Prog} (h : Flat P) (f : Nat) : (fnOf P f).body.noCall = true := by
  unfold fnOf
  rw [List.getD_eq_getElem?_getD]
  cases hg : P[f]? with
  | none => rfl
  | some fn => exact h fn (List.mem_of_getElem? hg)

theorem invoke_flat (call : Storage → NodeId → Storage × Res Nat) (c : NodeId → Res Nat) {P : Prog} (hflat : Flat P)
    (s : Storage) (id : NodeId) (v : Nat) (hst : s.stack = []) (hmi : MapsInit s)
    (hv : evalP c P s.srcs s.maps (fnOf P id.fn).body id.arg = .ok v) :
    ∃ fr', invoke call P s id = ({ s with runs := bump s.runs id.fn, log := id :: s.log,
                                           events := (true, id) :: (false, id) :: s.events }, .ok (v, fr')) ∧
      FlatRes call P (fnOf P id.fn).body id.arg
        { s with stack := ⟨id, [], 1⟩ :: s.stack, runs := bump s.runs id.fn, log := id :: s.log,
                 events := (false, id) :: s.events } ⟨id, [], 1⟩ [] v fr' := by
  obtain ⟨fr', r⟩ := evalE_flat call c P _ (flat_fnOf hflat id.fn) id.arg
    { s with stack := ⟨id, [], 1⟩ :: s.stack, runs := bump s.runs id.fn, log := id :: s.log,
             events := (false, id) :: s.events } ⟨id, [], 1⟩ [] v
    (by simp [hst]) hmi hv
  refine ⟨fr', ?_, r⟩
  unfold invoke
  have hany : (s.stack.any fun fr => decide (fr.id = id)) = false := by simp [hst]
  simp only [hany]
  simp only [Bool.false_eq_true, if_false, r.eq]
  cases s; simp only at hst; subst hst; rfl

/-- what bringing a call-free function up to date does at top level -/
theorem upToDate_flat {P : Prog} (hflat : Flat P) (c : NodeId → Res Nat) (n : Nat) (s0 : Storage) (id : NodeId) (v : Nat)
    (hinv0 : Inv1 P s0) (hv : evalP c P s0.srcs s0.maps (fnOf P id.fn).body id.arg = .ok v) :
    ∃ (s' : Storage) (b : Bool × Nat) (r : Rev), upToDate (n + 1) P s0 id = (s', .ok b) ∧ Inv1 P s' ∧ alookup s'.derived id = some r ∧ r.val = v ∧
      s'.epoch = s0.epoch ∧ s'.srcs = s0.srcs ∧ s'.maps = s0.maps ∧ s'.poisoned = s0.poisoned ∧ r.tv = s'.epoch := by
  have hst0 := hinv0.stack
  -- installing a revision for `id` that satisfies `NodeOk` keeps the invariant
  have hinst : ∀ (sA : Storage) (r1 : Rev), sA.stack = [] → sA.epoch = s0.epoch → sA.srcs = s0.srcs → sA.maps = s0.maps →
      (∀ n' r', n' ≠ id → alookup sA.derived n' = some r' → alookup s0.derived n' = some r') →
      alookup sA.derived id = some r1 → NodeOk P s0 id r1 → Inv1 P sA := by
    intro sA r1 h1 h2 h3 h4 h5 h6 h7
    refine ⟨h1, ?_, ?_, ?_⟩
    · intro k nd hk; rw [h2]; rw [h3] at hk; exact hinv0.srcTu k nd hk
    · intro i hi; rw [h3] at hi; rw [h4]; exact hinv0.mapsInit i hi
    · intro n' r' hn'
      by_cases hid : n' = id
      · subst hid; rw [h6] at hn'; cases hn'; exact h7.congr h2 h3 h4
      · exact (hinv0.nodes n' r' (h5 n' r' hid hn')).congr h2 h3 h4
  simp only [upToDate]
  cases hl : alookup s0.derived id with
  | none =>
    simp only
    obtain ⟨fr', hi, r⟩ := invoke_flat (callVia (execF (upToDate n P))) c hflat s0 id v hst0 hinv0.mapsInit hv
    simp only [hi]
    have hnode := nodeOk_fresh_exec (s := s0) r fr'.maxTu rfl rfl rfl hinv0.srcTu hinv0.mapsInit
    refine ⟨_, (true, fr'.maxTu), Rev.mk v fr'.maxTu s0.epoch fr'.rdeps.reverse, rfl, ?_, ?_, rfl, ?_⟩
    · refine hinst _ _ hst0 rfl rfl rfl ?_ ?_ hnode
      · intro n' r' hne hn'
        rw [alookup_ainsert_ne _ _ _ _ (Ne.symm hne)] at hn'; exact hn'
      · exact alookup_ainsert_self _ _ _
    · exact alookup_ainsert_self _ _ _
    · exact ⟨rfl, rfl, rfl, rfl, rfl⟩
  | some rev =>
    simp only
    have hok := hinv0.nodes id rev hl
    by_cases htv : rev.tv = s0.epoch
    · simp only [if_pos htv]
      refine ⟨_, (false, rev.tu), rev, rfl, ?_, ?_, ?_, ?_⟩
      · exact hinv0.congr hst0 rfl rfl rfl rfl
      · exact hl
      · have := hok.sound s0.srcs s0.maps c (hok.fresh_now htv)
        rw [hv] at this; cases this; rfl
      · exact ⟨rfl, rfl, rfl, rfl, htv⟩
    · simp only [if_neg htv]
      have hsetTv : setTv s0 id s0.epoch = { s0 with derived := ainsert s0.derived id (Rev.mk rev.val rev.tu s0.epoch rev.deps) } := by
        simp [setTv, hl]
      rw [hsetTv]
      have hlt : ∀ d, d ∈ rev.deps → d.stamp < s0.epoch := by
        intro d hd
        have h1 := hok.stamps d hd
        have h2 := hok.tv_le
        omega
      obtain ⟨b, hb, hfb⟩ := anyDep_noDerived (dropTu (upToDate n P))
        rev.deps { s0 with derived := ainsert s0.derived id (Rev.mk rev.val rev.tu s0.epoch rev.deps) } hok.noDerived hlt
        hinv0.mapsInit
      simp only [hb]
      cases b with
      | false =>
        simp only
        have hfresh : DepsMatch s0 s0.srcs s0.maps rev.deps := hfb rfl
        have hnode : NodeOk P s0 id (Rev.mk rev.val rev.tu s0.epoch rev.deps) :=
          ⟨Nat.le_refl _, hok.noDerived, fun d hd => Nat.le_of_lt (hlt d hd), fun _ => hfresh, hok.sound⟩
        refine ⟨_, (false, rev.tu), Rev.mk rev.val rev.tu s0.epoch rev.deps, rfl, ?_, ?_, ?_, ?_⟩
        · refine hinst _ _ hst0 rfl rfl rfl ?_ ?_ hnode
          · intro n' r' hne hn'
            rw [alookup_ainsert_ne _ _ _ _ (Ne.symm hne)] at hn'; exact hn'
          · exact alookup_ainsert_self _ _ _
        · exact alookup_ainsert_self _ _ _
        · have := hok.sound s0.srcs s0.maps c hfresh
          rw [hv] at this; cases this; rfl
        · exact ⟨rfl, rfl, rfl, rfl, rfl⟩
      | true =>
        simp only
        obtain ⟨fr', hi, r⟩ := invoke_flat (callVia (execF (upToDate n P))) c hflat
          { s0 with derived := ainsert s0.derived id (Rev.mk rev.val rev.tu s0.epoch rev.deps) } id v hst0 hinv0.mapsInit hv
        simp only [hi, alookup_ainsert_self]
        have hnode : ∀ tu, NodeOk P s0 id (Rev.mk v tu s0.epoch fr'.rdeps.reverse) := fun tu =>
          nodeOk_fresh_exec (s := s0) r tu rfl rfl rfl hinv0.srcTu hinv0.mapsInit
        by_cases hval : rev.val ≠ v
        · simp only [if_pos hval]
          refine ⟨_, (true, fr'.maxTu), Rev.mk v fr'.maxTu s0.epoch fr'.rdeps.reverse, rfl, ?_, ?_, rfl, ?_⟩
          · refine hinst _ (Rev.mk v fr'.maxTu s0.epoch fr'.rdeps.reverse) hst0 rfl rfl rfl ?_ ?_ (hnode _)
            · intro n' r' hne hn'
              rw [alookup_ainsert_ne _ _ _ _ (Ne.symm hne), alookup_ainsert_ne _ _ _ _ (Ne.symm hne)] at hn'; exact hn'
            · exact alookup_ainsert_self _ _ _
          · exact alookup_ainsert_self _ _ _
          · exact ⟨rfl, rfl, rfl, rfl, rfl⟩
        · simp only [if_neg hval]
          have hval' : rev.val = v := Decidable.of_not_not hval
          refine ⟨_, (false, fr'.maxTu), Rev.mk rev.val rev.tu s0.epoch fr'.rdeps.reverse, rfl, ?_, ?_, hval', ?_⟩
          · refine hinst _ (Rev.mk rev.val rev.tu s0.epoch fr'.rdeps.reverse) hst0 rfl rfl rfl ?_ ?_
              (by rw [hval']; exact hnode _)
            · intro n' r' hne hn'
              rw [alookup_ainsert_ne _ _ _ _ (Ne.symm hne), alookup_ainsert_ne _ _ _ _ (Ne.symm hne)] at hn'; exact hn'
            · exact alookup_ainsert_self _ _ _
          · exact alookup_ainsert_self _ _ _
          · exact ⟨rfl, rfl, rfl, rfl, rfl⟩

theorem exec_flat {P : Prog} (hflat : Flat P) (c : NodeId → Res Nat) (n : Nat) (s : Storage) (id : NodeId) (v : Nat)
    (hinv : Inv1 P s) (hv : evalP c P s.srcs s.maps (fnOf P id.fn).body id.arg = .ok v) :
    ∃ s' b r, exec (n + 1) P s id = (s', .ok b) ∧ Inv1 P s' ∧ alookup s'.derived id = some r ∧ r.val = v ∧
      s'.epoch = s.epoch ∧ s'.srcs = s.srcs ∧ s'.maps = s.maps ∧ s'.poisoned = s.poisoned ∧ r.tv = s'.epoch := by
  have hp : pushTop s id = { s with topCalls := s.topCalls ++ [id], pushes := s.pushes ++ [id] } := by
    simp [pushTop, hinv.stack]
  obtain ⟨s', b, r, he, hinv', hl, hval, h1, h2, h3, h4, h5⟩ :=
    upToDate_flat hflat c n { s with topCalls := s.topCalls ++ [id], pushes := s.pushes ++ [id] } id v
      (hinv.congr hinv.stack rfl rfl rfl rfl) hv
  have hreg : regDep s' (.derived id) b.2 = s' := by simp [regDep, hinv'.stack]
  refine ⟨s', b.1, r, ?_, hinv', hl, hval, h1, h2, h3, h4, h5⟩
  show execF (upToDate (n + 1) P) s id = _
  unfold execF
  rw [hp, he]
  simp only [hreg]

/-! ## source operations -/

/-- the entry of one key changes — overwritten or inserted with the stamp of the new epoch, or
removed — and the epoch advances; everything else is as before -/
theorem NodeOk.touch {P : Prog} {s : Storage} {n : NodeId} {r : Rev} (h : NodeOk P s n r) {s' : Storage} (k0 : Key)
    (he : s'.epoch = s.epoch + 1)
    (hk0 : alookup s'.srcs k0 = none ∨ ∃ nd, alookup s'.srcs k0 = some nd ∧ nd.tu = s.epoch + 1)
    (hsame : ∀ k, k ≠ k0 → alookup s'.srcs k = alookup s.srcs k ∧ keyObs s'.srcs s'.maps k = keyObs s.srcs s.maps k) :
    NodeOk P s' n r := by
  refine ⟨by rw [he]; exact Nat.le_succ_of_le h.tv_le, h.noDerived, h.stamps, ?_, ?_⟩
  · intro ht; have := h.tv_le; omega
  · intro σ' m' c' hf
    refine h.sound σ' m' c' ?_
    intro d hd
    have hm := hf d hd
    unfold DepMatch at hm ⊢
    cases hn : d.node with
    | source k =>
      rw [hn] at hm
      simp only at hm ⊢
      obtain ⟨⟨nd, hnd, hle⟩, ho⟩ := hm
      have hne : k ≠ k0 := by
        intro e; subst e
        have h1 := h.stamps d hd
        have h2 := h.tv_le
        rcases hk0 with hk0 | ⟨nd', hnd', htu⟩
        · rw [hk0] at hnd; cases hnd
        · rw [hnd'] at hnd; cases hnd; omega
      obtain ⟨e1, e2⟩ := hsame k hne
      exact ⟨⟨nd, by rw [← e1]; exact hnd, hle⟩, by rw [← e2]; exact ho⟩
    | absent k => rw [hn] at hm; exact hm
    | derived m => rw [hn] at hm; exact hm

/-- `setSource` followed by an arbitrary change of the tracked field guarded by the counter `k0` -/
theorem Inv1.setSource {P : Prog} {s : Storage} (h : Inv1 P s) (k0 : Key) (v : Nat) (maps' : List (List Nat))
    (hmaps : ∀ i, Key.ctr i ≠ k0 → mapLen maps' i = mapLen s.maps i)
    (hchg : alookup s.srcs k0 = none ∨ (∃ nd, alookup s.srcs k0 = some nd ∧ nd.val ≠ v) ∨ maps' = s.maps) :
    Inv1 P { setSource s k0 v with maps := maps' } := by
  -- the two branches that change something have the same shape
  have hch : Inv1 P { s with epoch := s.epoch + 1, srcs := ainsert s.srcs k0 ⟨v, s.epoch + 1⟩, maps := maps' } := by
    refine ⟨h.stack, ?_, ?_, ?_⟩
    · intro k nd' hk
      simp only [alookup_ainsert] at hk
      by_cases hkk : k0 = k
      · simp [hkk] at hk; subst hk; exact Nat.le_refl _
      · simp [hkk] at hk; exact Nat.le_succ_of_le (h.srcTu k nd' hk)
    · intro i hi
      simp only [alookup_ainsert] at hi
      by_cases hkk : k0 = .ctr i
      · simp [hkk] at hi
      · simp [hkk] at hi
        show mapLen maps' i = 0
        rw [hmaps i (fun e => hkk e.symm)]; exact h.mapsInit i hi
    · intro n r hn
      refine (h.nodes n r hn).touch k0 rfl (Or.inr ⟨⟨v, s.epoch + 1⟩, alookup_ainsert_self _ _ _, rfl⟩) ?_
      intro k hne
      have h1 : alookup (ainsert s.srcs k0 ⟨v, s.epoch + 1⟩) k = alookup s.srcs k := alookup_ainsert_ne _ _ _ _ (Ne.symm hne)
      exact ⟨h1, keyObs_of_lookup_maps h1 (fun i hi => hmaps i (by rw [← hi]; exact hne))⟩
  unfold IsoVerif.Pico.setSource
  cases hl : alookup s.srcs k0 with
  | none => exact hch
  | some nd =>
    simp only
    by_cases hv : nd.val ≠ v
    · simp only [if_pos hv]; exact hch
    · simp only [if_neg hv]
      have hm : maps' = s.maps := by
        rcases hchg with hc | ⟨nd', hnd', hne⟩ | hc
        · rw [hl] at hc; cases hc
        · rw [hl] at hnd'; cases hnd'; exact absurd hne hv
        · exact hc
      exact h.congr h.stack rfl rfl hm rfl

theorem setSource_maps (s : Storage) (k : Key) (v : Nat) : (setSource s k v).maps = s.maps := by
  unfold setSource; split
  · split <;> rfl
  · rfl

theorem Inv1.setSource' {P : Prog} {s : Storage} (h : Inv1 P s) (k0 : Key) (v : Nat) :
    Inv1 P (IsoVerif.Pico.setSource s k0 v) := by
  have := h.setSource k0 v s.maps (fun _ _ => rfl) (Or.inr (Or.inr rfl))
  exact this.congr this.stack rfl rfl (setSource_maps s k0 v) rfl

theorem Inv1.removeSource {P : Prog} {s : Storage} (h : Inv1 P s) (k0 : Key) (hnc : ∀ i, k0 ≠ .ctr i) :
    Inv1 P (removeSource s k0) := by
  unfold IsoVerif.Pico.removeSource
  cases hl : alookup s.srcs k0 with
  | none => exact h
  | some nd =>
    simp only
    refine ⟨h.stack, ?_, ?_, ?_⟩
    · intro k nd' hk
      by_cases hkk : k0 = k
      · subst hkk; rw [alookup_aerase_self] at hk; cases hk
      · rw [alookup_aerase_ne _ _ _ hkk] at hk; exact Nat.le_succ_of_le (h.srcTu k nd' hk)
    · intro i hi
      rw [alookup_aerase_ne _ _ _ (hnc i)] at hi
      exact h.mapsInit i hi
    · intro n r hn
      refine (h.nodes n r hn).touch k0 rfl (Or.inl (alookup_aerase_self _ _)) ?_
      intro k hne
      have h1 : alookup (aerase s.srcs k0) k = alookup s.srcs k := alookup_aerase_ne _ _ _ (Ne.symm hne)
      exact ⟨h1, keyObs_of_lookup_maps h1 (fun _ _ => rfl)⟩

/-! ## every operation -/

theorem getD_setNth_ne {α : Type} (d x : α) : ∀ (l : List α) (m i : Nat), i ≠ m → (setNth l m x).getD i d = l.getD i d := by
  intro l
  induction l with
  | nil => intro m i _; rfl
  | cons y ys ih =>
    intro m i hne
    cases m with
    | zero =>
      cases i with
      | zero => exact absurd rfl hne
      | succ i => simp [setNth]
    | succ m =>
      cases i with
      | zero => simp [setNth]
      | succ i => simp [setNth]; exact ih m i (fun e => hne (by rw [e]))

theorem mapLen_setNth_ne (maps : List (List Nat)) (m i : Nat) (x : List Nat) (h : i ≠ m) :
    mapLen (setNth maps m x) i = mapLen maps i := by
  unfold mapLen; rw [getD_setNth_ne _ _ _ _ _ h]

theorem Inv1.touchCounter_maps {P : Prog} {s : Storage} (h : Inv1 P s) (m : Nat) (x : List Nat) :
    Inv1 P { touchCounter s m with maps := setNth (touchCounter s m).maps m x } := by
  have hmaps : (touchCounter s m).maps = s.maps := by
    unfold touchCounter
    cases hl : alookup s.srcs (.ctr m) with
    | none => exact setSource_maps _ _ _
    | some nd => exact setSource_maps _ _ _
  rw [hmaps]
  unfold touchCounter
  cases hl : alookup s.srcs (.ctr m) with
  | none =>
    simp only
    exact h.setSource (.ctr m) 0 _ (fun i hi => mapLen_setNth_ne _ _ _ _ (fun e => hi (by rw [e]))) (Or.inl hl)
  | some nd =>
    simp only
    exact h.setSource (.ctr m) (nd.val + 1) _ (fun i hi => mapLen_setNth_ne _ _ _ _ (fun e => hi (by rw [e])))
      (Or.inr (Or.inl ⟨nd, hl, by omega⟩))

theorem Inv1.gc {P : Prog} {s : Storage} (h : Inv1 P s) : Inv1 P (gc s).1 := by
  unfold IsoVerif.Pico.gc
  simp only
  split
  · exact h.congr h.stack rfl rfl rfl rfl
  · refine ⟨h.stack, h.srcTu, h.mapsInit, ?_⟩
    intro n r hn
    exact (h.nodes n r (alookup_filterKey_some _ _ _ _ hn)).congr rfl rfl rfl

/-- the outcome of a call in a state satisfying the invariant -/
theorem step_call_flat {P : Prog} (hflat : Flat P) (fuel : Nat) (s : Storage) (f a v : Nat) (hinv : Inv1 P s)
    (hv : evalS fuel P s.srcs s.maps [] (nodeOf P f a) = .ok v) :
    Inv1 P (step fuel P s (.call f a)).1 ∧
      ((step fuel P s (.call f a)).2 = .dead ∨ (step fuel P s (.call f a)).2 = .val v) := by
  unfold step
  by_cases hp : s.poisoned = true
  · rw [if_pos hp]; exact ⟨hinv, Or.inl rfl⟩
  · rw [if_neg hp]
    cases fuel with
    | zero => simp [evalS] at hv
    | succ n =>
      simp only [evalS] at hv
      rw [if_neg (by simp)] at hv
      obtain ⟨s', b, r, he, hinv', hl, hval, hep, hsr, hmp, _, _⟩ := exec_flat hflat _ n s (nodeOf P f a) v hinv hv
      simp only [callVia, he, hl]
      refine ⟨?_, Or.inr (by rw [hval])⟩
      exact hinv'.congr hinv'.stack rfl rfl rfl rfl

theorem Inv1.step {P : Prog} (hflat : Flat P) (fuel : Nat) {s : Storage} (hinv : Inv1 P s) (op : Op)
    (hclean : ∀ f a, op = .call f a → ∃ v, evalS fuel P s.srcs s.maps [] (nodeOf P f a) = .ok v) :
    Inv1 P (step fuel P s op).1 := by
  cases op with
  | call f a =>
    obtain ⟨v, hv⟩ := hclean f a rfl
    exact (step_call_flat hflat fuel s f a v hinv hv).1
  | set k v =>
    unfold IsoVerif.Pico.step; split
    · exact hinv
    · exact hinv.setSource' (.src k) v
  | rem k =>
    unfold IsoVerif.Pico.step; split
    · exact hinv
    · exact hinv.removeSource _ (fun i e => by cases e)
  | sset i v =>
    unfold IsoVerif.Pico.step; split
    · exact hinv
    · exact hinv.setSource' (.sing i) v
  | srem i =>
    unfold IsoVerif.Pico.step; split
    · exact hinv
    · exact hinv.removeSource _ (fun i e => by cases e)
  | tins m k =>
    unfold IsoVerif.Pico.step; split
    · exact hinv
    · exact hinv.touchCounter_maps m _
  | trem m k =>
    unfold IsoVerif.Pico.step; split
    · exact hinv
    · exact hinv.touchCounter_maps m _
  | look f a =>
    unfold IsoVerif.Pico.step; split
    · exact hinv
    · simp only; split
      · split <;> exact hinv
      · exact hinv
  | retain f a =>
    unfold IsoVerif.Pico.step; split
    · exact hinv
    · simp only; split
      · exact hinv.congr hinv.stack rfl rfl rfl rfl
      · exact hinv
  | unretain f a =>
    unfold IsoVerif.Pico.step; split
    · exact hinv
    · simp only; split
      · exact hinv.congr hinv.stack rfl rfl rfl rfl
      · exact hinv
  | nevergc f a =>
    unfold IsoVerif.Pico.step; split
    · exact hinv
    · simp only; split
      · exact hinv.congr hinv.stack rfl rfl rfl rfl
      · exact hinv
  | gc =>
    unfold IsoVerif.Pico.step; split
    · exact hinv
    · have := hinv.gc
      cases hg : IsoVerif.Pico.gc s with
      | mk s' r =>
        rw [hg] at this
        cases r <;> exact this

theorem Inv1.init (P : Prog) (cap nfn : Nat) : Inv1 P (Storage.init cap nfn) :=
  ⟨rfl, by intro k nd h; simp [Storage.init] at h,
   by intro i _; cases i with
      | zero => rfl
      | succ i => cases i <;> rfl,
   by intro n r h; simp [Storage.init] at h⟩

theorem runS_nil (fuel : Nat) (P : Prog) (s : Storage) : runS fuel P s [] = s := rfl

theorem runS_cons (fuel : Nat) (P : Prog) (s : Storage) (op : Op) (ops : List Op) :
    runS fuel P s (op :: ops) = runS fuel P (step fuel P s op).1 ops := by
  simp [runS, run]

theorem runS_append (fuel : Nat) (P : Prog) : ∀ (xs : List Op) (s : Storage) (ys : List Op),
    runS fuel P s (xs ++ ys) = runS fuel P (runS fuel P s xs) ys := by
  intro xs
  induction xs with
  | nil => intro s ys; rfl
  | cons x xs ih => intro s ys; simp only [List.cons_append, runS_cons]; exact ih _ _

/-- the invariant holds after every prefix of a history whose calls are clean -/
theorem inv1_runS {P : Prog} (hflat : Flat P) (fuel : Nat) : ∀ (pre : List Op) (s : Storage), Inv1 P s →
    (∀ p f a rest, pre = p ++ Op.call f a :: rest →
        ∃ v, evalS fuel P (runS fuel P s p).srcs (runS fuel P s p).maps [] (nodeOf P f a) = .ok v) →
    Inv1 P (runS fuel P s pre) := by
  intro pre
  induction pre with
  | nil => intro s h _; exact h
  | cons op ops ih =>
    intro s h hc
    rw [runS_cons]
    refine ih _ (h.step hflat fuel op ?_) ?_
    · intro f a hop; subst hop; exact hc [] f a ops rfl
    · intro p f a rest hp
      have := hc (op :: p) f a rest (by rw [hp]; rfl)
      rw [runS_cons] at this; exact this

/-- **C01, stage 1** -/
theorem c01_stage1 {P : Prog} (hflat : Flat P) (fuel cap : Nat) (h : List Op) (hclean : CleanCalls fuel cap P h)
    (pre : List Op) (f a : Nat) (rest : List Op) (hh : h = pre ++ Op.call f a :: rest) :
    (step fuel P (after fuel cap P pre) (.call f a)).2 = .dead ∨
      (step fuel P (after fuel cap P pre) (.call f a)).2 = outOfRes (evalScratch fuel P (after fuel cap P pre) (nodeOf P f a)) := by
  have hinv : Inv1 P (after fuel cap P pre) := by
    unfold after
    refine inv1_runS hflat fuel pre _ (Inv1.init P cap P.length) ?_
    intro p f' a' rest' hp
    exact hclean p f' a' (rest' ++ Op.call f a :: rest) (by rw [hh, hp]; simp)
  obtain ⟨v, hv⟩ := hclean pre f a rest hh
  rcases (step_call_flat hflat fuel _ f a v hinv hv).2 with hd | hval
  · exact Or.inl hd
  · right; rw [hval]; unfold evalScratch; rw [hv]; rfl

/-! ## a decidable form of `CleanCalls` (for concrete histories) -/

def Res.isOk {α : Type} : Res α → Bool
  | .ok _ => true
  | .panic _ => false

def cleanAt (fuel cap : Nat) (P : Prog) (h : List Op) (i : Nat) : Bool :=
  match h.getD i .gc with
  | .call f a => (evalS fuel P (after fuel cap P (h.take i)).srcs (after fuel cap P (h.take i)).maps [] (nodeOf P f a)).isOk
  | _ => true

def cleanCallsB (fuel cap : Nat) (P : Prog) (h : List Op) : Bool := (List.range h.length).all (cleanAt fuel cap P h)

theorem cleanCalls_of_B (fuel cap : Nat) (P : Prog) (h : List Op) (hb : cleanCallsB fuel cap P h = true) :
    CleanCalls fuel cap P h := by
  intro pre f a rest hh
  have hlen : pre.length < h.length := by rw [hh]; simp
  have hat : cleanAt fuel cap P h pre.length = true := by
    unfold cleanCallsB at hb
    rw [List.all_eq_true] at hb
    exact hb _ (List.mem_range.2 hlen)
  have htake : h.take pre.length = pre := by rw [hh]; simp
  have hget : h.getD pre.length .gc = .call f a := by rw [hh]; simp
  unfold cleanAt at hat
  rw [hget, htake] at hat
  simp only at hat
  cases he : evalS fuel P (after fuel cap P pre).srcs (after fuel cap P pre).maps [] (nodeOf P f a) with
  | ok v => exact ⟨v, rfl⟩
  | panic p => rw [he] at hat; simp [Res.isOk] at hat

end IsoVerif.Pico
