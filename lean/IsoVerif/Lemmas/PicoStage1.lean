/-
C01, stage 1: programs of nesting depth 0 (`Flat`: no body calls a memoised function), every
operation of the model (sources, singletons, tracked fields, calls, lookups, retain / clear /
never-gc, gc).  Under `CleanCalls` every call returns the from-scratch value.

The invariant is history-free.  For a derived node with revision `r` (all its dependencies are
sources): if every recorded dependency is still *fresh* (present, `tu ≤ stamp`) then for EVERY
source state that agrees with the current one on the recorded keys the body evaluates (strictly)
to `r.val`; and a node verified in the current epoch is fresh.
-/
import IsoVerif.Lemmas.PicoBasic

namespace IsoVerif.Pico

/-- call oracle for bodies that contain no call -/
def noCallee : NodeId → Res Nat := fun _ => .panic .fuel

/-- what a body can observe of a key -/
def keyObs (srcs : List (Key × SrcNode)) (maps : List (List Nat)) (k : Key) : Option Nat × Nat :=
  ((alookup srcs k).map (·.val), match k with | .ctr m => mapLen maps m | _ => 0)

def AgreeOn (K : List Key) (σ : List (Key × SrcNode)) (m : List (List Nat))
    (σ' : List (Key × SrcNode)) (m' : List (List Nat)) : Prop :=
  ∀ k, k ∈ K → keyObs σ m k = keyObs σ' m' k

def depKeys : List Dep → List Key
  | [] => []
  | d :: ds => match d.node with
    | .source k => k :: depKeys ds
    | .derived _ => depKeys ds

theorem mem_depKeys {ds : List Dep} {k : Key} : k ∈ depKeys ds ↔ ∃ d, d ∈ ds ∧ d.node = .source k := by
  induction ds with
  | nil => simp [depKeys]
  | cons d ds ih =>
    cases hd : d.node with
    | source k' =>
      simp only [depKeys, hd, List.mem_cons, ih]
      constructor
      · rintro (rfl | ⟨d', hd', hk⟩)
        · exact ⟨d, Or.inl rfl, hd⟩
        · exact ⟨d', Or.inr hd', hk⟩
      · rintro ⟨d', (rfl | hd'), hk⟩
        · rw [hd] at hk; cases hk; exact Or.inl rfl
        · exact Or.inr ⟨d', hd', hk⟩
    | derived m =>
      simp only [depKeys, hd, List.mem_cons, ih]
      constructor
      · rintro ⟨d', hd', hk⟩; exact ⟨d', Or.inr hd', hk⟩
      · rintro ⟨d', (rfl | hd'), hk⟩
        · rw [hd] at hk; cases hk
        · exact ⟨d', hd', hk⟩

theorem depKeys_reverse (ds : List Dep) (k : Key) : k ∈ depKeys ds.reverse ↔ k ∈ depKeys ds := by
  simp [mem_depKeys]

/-- pushing a source dependency keeps every old key and adds the new one -/
theorem depKeys_pushDep (rdeps : List Dep) (k : Key) (e : Nat) (k' : Key) :
    k' ∈ depKeys (pushDep rdeps ⟨.source k, e⟩) ↔ k' = k ∨ k' ∈ depKeys rdeps := by
  cases rdeps with
  | nil => simp [pushDep, depKeys]
  | cons l rest =>
    by_cases h : l.node = .source k
    · simp [pushDep, h, depKeys]
    · cases hl : l.node with
      | source k2 =>
        have hne : k2 ≠ k := fun e => h (by rw [hl, e])
        simp [pushDep, depKeys, hl, hne]
      | derived m => simp [pushDep, depKeys, hl]

/-- every dependency of the frame was stamped in the current epoch and is a present source -/
def FrameGood (s : Storage) (fr : Frame) : Prop :=
  ∀ d, d ∈ fr.rdeps → d.stamp = s.epoch ∧ ∃ k nd, d.node = .source k ∧ alookup s.srcs k = some nd

theorem frameGood_push (s : Storage) (fr : Frame) (k : Key) (nd : SrcNode) (tu : Nat)
    (hk : alookup s.srcs k = some nd) (hg : FrameGood s fr) :
    FrameGood s { fr with rdeps := pushDep fr.rdeps ⟨.source k, s.epoch⟩, maxTu := tu } := by
  intro d hd
  simp only at hd
  cases hr : fr.rdeps with
  | nil =>
    simp [hr, pushDep] at hd; subst hd; exact ⟨rfl, k, nd, rfl, hk⟩
  | cons l rest =>
    rw [hr] at hd
    by_cases h : l.node = .source k
    · simp [pushDep, h] at hd
      rcases hd with rfl | hd
      · exact ⟨rfl, k, nd, rfl, hk⟩
      · exact hg d (by rw [hr]; exact List.mem_cons_of_mem _ hd)
    · simp [pushDep, h] at hd
      rcases hd with rfl | rfl | hd
      · exact ⟨rfl, k, nd, rfl, hk⟩
      · exact hg _ (by rw [hr]; exact List.mem_cons_self)
      · exact hg d (by rw [hr]; exact List.mem_cons_of_mem _ hd)

/-- result of evaluating a call-free expression inside a frame -/
structure FlatRes (call : Storage → NodeId → Storage × Res Nat) (P : Prog) (e : Expr) (a : Nat) (s : Storage)
    (fr : Frame) (rest : List Frame) (v : Nat) (fr' : Frame) : Prop where
  eq : evalE call P e a s = ({ s with stack := fr' :: rest }, .ok v)
  id : fr'.id = fr.id
  mono : ∀ k, k ∈ depKeys fr.rdeps → k ∈ depKeys fr'.rdeps
  good : FrameGood s fr → FrameGood s fr'
  cov : ∀ σ' m' c', AgreeOn (depKeys fr'.rdeps) s.srcs s.maps σ' m' → evalPS c' P σ' m' e a = .ok v

theorem regDep_cons (s : Storage) (fr : Frame) (rest : List Frame) (n : DepNode) (tu : Nat)
    (h : s.stack = fr :: rest) :
    regDep s n tu = { s with stack := { fr with rdeps := pushDep fr.rdeps ⟨n, s.epoch⟩, maxTu := max tu fr.maxTu } :: rest } := by
  simp [regDep, h]

theorem evalE_flat (call : Storage → NodeId → Storage × Res Nat) (c : NodeId → Res Nat) (P : Prog) :
    ∀ (e : Expr), e.noCall = true → ∀ (a : Nat) (s : Storage) (fr : Frame) (rest : List Frame) (v : Nat),
      s.stack = fr :: rest → evalPS c P s.srcs s.maps e a = .ok v →
      ∃ fr', FlatRes call P e a s fr rest v fr' := by
  intro e
  induction e with
  | lit n =>
    intro _ a s fr rest v hs h
    simp only [evalPS] at h; cases h
    refine ⟨fr, ⟨?_, rfl, fun k hk => hk, fun hg => hg, ?_⟩⟩
    · simp only [evalE]; rw [← hs]
    · intro σ' m' c' _; simp [evalPS]
  | param =>
    intro _ a s fr rest v hs h
    simp only [evalPS] at h; cases h
    refine ⟨fr, ⟨?_, rfl, fun k hk => hk, fun hg => hg, ?_⟩⟩
    · simp only [evalE]; rw [← hs]
    · intro σ' m' c' _; simp [evalPS]
  | src k ih =>
    intro hnc a s fr rest v hs h
    simp only [Expr.noCall] at hnc
    simp only [evalPS] at h
    cases hk : evalPS c P s.srcs s.maps k a with
    | panic p => simp [hk] at h
    | ok kv =>
      simp only [hk] at h
      cases hl : alookup s.srcs (.src kv) with
      | none => simp [hl] at h
      | some nd =>
        simp only [hl] at h; cases h
        obtain ⟨fr1, r1⟩ := ih hnc a s fr rest kv hs hk
        refine ⟨{ fr1 with rdeps := pushDep fr1.rdeps ⟨.source (.src kv), s.epoch⟩, maxTu := max nd.tu fr1.maxTu }, ⟨?_, r1.id, ?_, ?_, ?_⟩⟩
        · simp only [evalE, r1.eq, hl]
          rw [regDep_cons { s with stack := fr1 :: rest } fr1 rest _ _ rfl]
        · intro k' hk'
          exact (depKeys_pushDep _ _ _ _).2 (Or.inr (r1.mono _ hk'))
        · intro hg
          exact frameGood_push s fr1 _ nd _ hl (r1.good hg)
        · intro σ' m' c' hag
          have h1 : evalPS c' P σ' m' k a = .ok kv :=
            r1.cov σ' m' c' (fun k' hk' => hag k' ((depKeys_pushDep _ _ _ _).2 (Or.inr hk')))
          have h2 := hag (.src kv) ((depKeys_pushDep _ _ _ _).2 (Or.inl rfl))
          simp only [keyObs, hl, Option.map] at h2
          simp only [evalPS, h1]
          cases hl' : alookup σ' (.src kv) with
          | none => simp [hl'] at h2
          | some nd' => simp [hl'] at h2; simp [h2]
  | sing i =>
    intro _ a s fr rest v hs h
    simp only [evalPS] at h
    cases hl : alookup s.srcs (.sing i) with
    | none => simp [hl] at h
    | some nd =>
      simp only [hl] at h; cases h
      refine ⟨{ fr with rdeps := pushDep fr.rdeps ⟨.source (.sing i), s.epoch⟩, maxTu := max nd.tu fr.maxTu }, ⟨?_, rfl, ?_, ?_, ?_⟩⟩
      · simp only [evalE, hl]; rw [regDep_cons s fr rest _ _ hs]
      · intro k' hk'; exact (depKeys_pushDep _ _ _ _).2 (Or.inr hk')
      · intro hg; exact frameGood_push s fr _ nd _ hl hg
      · intro σ' m' c' hag
        have h2 := hag (.sing i) ((depKeys_pushDep _ _ _ _).2 (Or.inl rfl))
        simp only [keyObs, hl, Option.map] at h2
        simp only [evalPS]
        cases hl' : alookup σ' (.sing i) with
        | none => simp [hl'] at h2
        | some nd' => simp [hl'] at h2; simp [h2]
  | trk m =>
    intro _ a s fr rest v hs h
    simp only [evalPS] at h
    cases hl : alookup s.srcs (.ctr m) with
    | none => simp [hl] at h
    | some nd =>
      simp only [hl] at h; cases h
      refine ⟨{ fr with rdeps := pushDep fr.rdeps ⟨.source (.ctr m), s.epoch⟩, maxTu := max nd.tu fr.maxTu }, ⟨?_, rfl, ?_, ?_, ?_⟩⟩
      · simp only [evalE, hl]; rw [regDep_cons s fr rest _ _ hs]
      · intro k' hk'; exact (depKeys_pushDep _ _ _ _).2 (Or.inr hk')
      · intro hg; exact frameGood_push s fr _ nd _ hl hg
      · intro σ' m' c' hag
        have h2 := hag (.ctr m) ((depKeys_pushDep _ _ _ _).2 (Or.inl rfl))
        simp only [keyObs, hl, Option.map] at h2
        simp only [evalPS]
        cases hl' : alookup σ' (.ctr m) with
        | none => simp [hl'] at h2
        | some nd' => simp [hl'] at h2; simp [h2]
  | call f e _ => intro hnc; simp [Expr.noCall] at hnc
  | add x y ihx ihy =>
    intro hnc a s fr rest v hs h
    simp only [Expr.noCall, Bool.and_eq_true] at hnc
    simp only [evalPS] at h
    cases hx : evalPS c P s.srcs s.maps x a with
    | panic p => simp [hx] at h
    | ok xv =>
      simp only [hx] at h
      cases hy : evalPS c P s.srcs s.maps y a with
      | panic p => simp [hy] at h
      | ok yv =>
        simp only [hy] at h; cases h
        obtain ⟨fr1, r1⟩ := ihx hnc.1 a s fr rest xv hs hx
        obtain ⟨fr2, r2⟩ := ihy hnc.2 a { s with stack := fr1 :: rest } fr1 rest yv rfl hy
        refine ⟨fr2, ⟨?_, r2.id.trans r1.id, fun k hk => r2.mono _ (r1.mono _ hk), fun hg => r2.good (r1.good hg), ?_⟩⟩
        · simp only [evalE, r1.eq, r2.eq]
        · intro σ' m' c' hag
          have h1 := r1.cov σ' m' c' (fun k hk => hag k (r2.mono _ hk))
          have h2 := r2.cov σ' m' c' hag
          simp only [evalPS, h1, h2]
  | eq x y ihx ihy =>
    intro hnc a s fr rest v hs h
    simp only [Expr.noCall, Bool.and_eq_true] at hnc
    simp only [evalPS] at h
    cases hx : evalPS c P s.srcs s.maps x a with
    | panic p => simp [hx] at h
    | ok xv =>
      simp only [hx] at h
      cases hy : evalPS c P s.srcs s.maps y a with
      | panic p => simp [hy] at h
      | ok yv =>
        simp only [hy] at h; cases h
        obtain ⟨fr1, r1⟩ := ihx hnc.1 a s fr rest xv hs hx
        obtain ⟨fr2, r2⟩ := ihy hnc.2 a { s with stack := fr1 :: rest } fr1 rest yv rfl hy
        refine ⟨fr2, ⟨?_, r2.id.trans r1.id, fun k hk => r2.mono _ (r1.mono _ hk), fun hg => r2.good (r1.good hg), ?_⟩⟩
        · simp only [evalE, r1.eq, r2.eq]
        · intro σ' m' c' hag
          have h1 := r1.cov σ' m' c' (fun k hk => hag k (r2.mono _ hk))
          have h2 := r2.cov σ' m' c' hag
          simp only [evalPS, h1, h2]
  | ite cnd t e ihc iht ihe =>
    intro hnc a s fr rest v hs h
    simp only [Expr.noCall, Bool.and_eq_true] at hnc
    simp only [evalPS] at h
    cases hcv : evalPS c P s.srcs s.maps cnd a with
    | panic p => simp [hcv] at h
    | ok cv =>
      simp only [hcv] at h
      obtain ⟨fr1, r1⟩ := ihc hnc.1.1 a s fr rest cv hs hcv
      by_cases hz : cv ≠ 0
      · rw [if_pos hz] at h
        obtain ⟨fr2, r2⟩ := iht hnc.1.2 a { s with stack := fr1 :: rest } fr1 rest v rfl h
        refine ⟨fr2, ⟨?_, r2.id.trans r1.id, fun k hk => r2.mono _ (r1.mono _ hk), fun hg => r2.good (r1.good hg), ?_⟩⟩
        · simp only [evalE, r1.eq]; rw [if_pos hz]; exact r2.eq
        · intro σ' m' c' hag
          have h1 := r1.cov σ' m' c' (fun k hk => hag k (r2.mono _ hk))
          have h2 := r2.cov σ' m' c' hag
          simp only [evalPS, h1]; rw [if_pos hz]; exact h2
      · rw [if_neg hz] at h
        obtain ⟨fr2, r2⟩ := ihe hnc.2 a { s with stack := fr1 :: rest } fr1 rest v rfl h
        refine ⟨fr2, ⟨?_, r2.id.trans r1.id, fun k hk => r2.mono _ (r1.mono _ hk), fun hg => r2.good (r1.good hg), ?_⟩⟩
        · simp only [evalE, r1.eq]; rw [if_neg hz]; exact r2.eq
        · intro σ' m' c' hag
          have h1 := r1.cov σ' m' c' (fun k hk => hag k (r2.mono _ hk))
          have h2 := r2.cov σ' m' c' hag
          simp only [evalPS, h1]; rw [if_neg hz]; exact h2
  | half x ih =>
    intro hnc a s fr rest v hs h
    simp only [Expr.noCall] at hnc
    simp only [evalPS] at h
    cases hx : evalPS c P s.srcs s.maps x a with
    | panic p => simp [hx] at h
    | ok xv =>
      simp only [hx] at h; cases h
      obtain ⟨fr1, r1⟩ := ih hnc a s fr rest xv hs hx
      refine ⟨fr1, ⟨?_, r1.id, r1.mono, r1.good, ?_⟩⟩
      · simp only [evalE, r1.eq]
      · intro σ' m' c' hag
        simp only [evalPS, r1.cov σ' m' c' hag]


/-! ## the invariant -/

def SrcOnly (deps : List Dep) : Prop := ∀ d, d ∈ deps → ∃ k, d.node = .source k

def DepsFresh (s : Storage) (deps : List Dep) : Prop :=
  ∀ d, d ∈ deps → ∀ k, d.node = .source k → ∃ nd, alookup s.srcs k = some nd ∧ nd.tu ≤ d.stamp

structure NodeOk (P : Prog) (s : Storage) (n : NodeId) (r : Rev) : Prop where
  tv_le : r.tv ≤ s.epoch
  srcOnly : SrcOnly r.deps
  stamps : ∀ d, d ∈ r.deps → d.stamp ≤ r.tv
  fresh_now : r.tv = s.epoch → DepsFresh s r.deps
  sound : DepsFresh s r.deps → ∀ σ' m' c', AgreeOn (depKeys r.deps) s.srcs s.maps σ' m' →
            evalPS c' P σ' m' (fnOf P n.fn).body n.arg = .ok r.val

structure Inv1 (P : Prog) (s : Storage) : Prop where
  stack : s.stack = []
  srcTu : ∀ k nd, alookup s.srcs k = some nd → nd.tu ≤ s.epoch
  nodes : ∀ n r, alookup s.derived n = some r → NodeOk P s n r

/-- `NodeOk` only looks at the epoch, the sources and the tracked fields -/
theorem NodeOk.congr {P : Prog} {s : Storage} {n : NodeId} {r : Rev} (h : NodeOk P s n r) {s' : Storage}
    (he : s'.epoch = s.epoch) (hs : s'.srcs = s.srcs) (hm : s'.maps = s.maps) :
    NodeOk P s' n r := by
  refine ⟨by rw [he]; exact h.tv_le, h.srcOnly, h.stamps, ?_, ?_⟩
  · intro ht; have := h.fresh_now (by rw [← he]; exact ht)
    intro d hd k hk; rw [hs]; exact this d hd k hk
  · intro hf σ' m' c' hag
    refine h.sound ?_ σ' m' c' ?_
    · intro d hd k hk; have := hf d hd k hk; rw [hs] at this; exact this
    · intro k hk; have := hag k hk; rw [hs, hm] at this; exact this

theorem Inv1.congr {P : Prog} {s : Storage} (h : Inv1 P s) {s' : Storage} (hst : s'.stack = []) (he : s'.epoch = s.epoch)
    (hs : s'.srcs = s.srcs) (hm : s'.maps = s.maps) (hd : s'.derived = s.derived) : Inv1 P s' :=
  ⟨hst, by intro k nd hk; rw [he]; rw [hs] at hk; exact h.srcTu k nd hk,
   by intro n r hn; rw [hd] at hn; exact (h.nodes n r hn).congr he hs hm⟩

/-! ## one execution -/

theorem anyDep_srcOnly (ex : Storage → NodeId → Storage × Res Bool) :
    ∀ (deps : List Dep) (s : Storage), SrcOnly deps → (∀ d, d ∈ deps → d.stamp < s.epoch) →
      ∃ b, anyDep (depChanged ex) deps s = (s, .ok b) ∧ (b = false → DepsFresh s deps) := by
  intro deps
  induction deps with
  | nil => intro s _ _; exact ⟨false, rfl, fun _ d hd => by cases hd⟩
  | cons d ds ih =>
    intro s hso hst
    obtain ⟨k, hk⟩ := hso d List.mem_cons_self
    have hne : d.stamp ≠ s.epoch := Nat.ne_of_lt (hst d List.mem_cons_self)
    obtain ⟨b, hb, hfb⟩ := ih s (fun d' hd' => hso d' (List.mem_cons_of_mem _ hd'))
      (fun d' hd' => hst d' (List.mem_cons_of_mem _ hd'))
    simp only [anyDep, if_neg hne, depChanged, hk]
    cases hl : alookup s.srcs k with
    | none => exact ⟨true, by simp, by intro h; cases h⟩
    | some nd =>
      by_cases hgt : nd.tu > d.stamp
      · exact ⟨true, by simp [hgt], by intro h; cases h⟩
      · refine ⟨b, by simp [hgt, hb], ?_⟩
        intro hbf d' hd' k' hk'
        rcases List.mem_cons.1 hd' with rfl | hd''
        · rw [hk] at hk'; cases hk'; exact ⟨nd, hl, Nat.le_of_not_gt hgt⟩
        · exact hfb hbf d' hd'' k' hk'

/-- a node just executed (its frame started empty) satisfies `NodeOk` -/
theorem nodeOk_fresh_exec {P : Prog} {s : Storage} {id : NodeId} {call : Storage → NodeId → Storage × Res Nat}
    {fr' : Frame} {v : Nat} {rest : List Frame} {s0 : Storage}
    (r : FlatRes call P (fnOf P id.fn).body id.arg s0 ⟨id, [], 1⟩ rest v fr') (tu : Nat)
    (he : s0.epoch = s.epoch) (hs : s0.srcs = s.srcs) (hm : s0.maps = s.maps)
    (hsrcTu : ∀ k nd, alookup s.srcs k = some nd → nd.tu ≤ s.epoch) :
    NodeOk P s id (Rev.mk v tu s.epoch fr'.rdeps.reverse) := by
  have hg : FrameGood s0 fr' := r.good (fun d hd => by cases hd)
  refine ⟨Nat.le_refl _, ?_, ?_, ?_, ?_⟩
  · intro d hd
    obtain ⟨_, k, nd, hk, _⟩ := hg d (List.mem_reverse.1 hd)
    exact ⟨k, hk⟩
  · intro d hd
    have := (hg d (List.mem_reverse.1 hd)).1
    show d.stamp ≤ s.epoch
    rw [this, he]; exact Nat.le_refl _
  · intro _ d hd k hk
    obtain ⟨hst, k', nd, hk', hl⟩ := hg d (List.mem_reverse.1 hd)
    rw [hk] at hk'; cases hk'
    rw [hs] at hl
    exact ⟨nd, hl, by rw [hst, he]; exact hsrcTu _ _ hl⟩
  · intro _ σ' m' c' hag
    refine r.cov σ' m' c' ?_
    intro k hk
    have := hag k ((depKeys_reverse _ _).2 hk)
    rw [hs, hm]; exact this


theorem flat_fnOf {P : Prog} (h : Flat P) (f : Nat) : (fnOf P f).body.noCall = true := by
  unfold fnOf
  rw [List.getD_eq_getElem?_getD]
  cases hg : P[f]? with
  | none => rfl
  | some fn => exact h fn (List.mem_of_getElem? hg)

theorem invoke_flat (call : Storage → NodeId → Storage × Res Nat) (c : NodeId → Res Nat) {P : Prog} (hflat : Flat P)
    (s : Storage) (id : NodeId) (v : Nat) (hst : s.stack = [])
    (hv : evalPS c P s.srcs s.maps (fnOf P id.fn).body id.arg = .ok v) :
    ∃ fr', invoke call P s id = ({ s with runs := bump s.runs id.fn, log := id :: s.log }, .ok (v, fr')) ∧
      FlatRes call P (fnOf P id.fn).body id.arg
        { s with stack := ⟨id, [], 1⟩ :: s.stack, runs := bump s.runs id.fn, log := id :: s.log } ⟨id, [], 1⟩ [] v fr' := by
  obtain ⟨fr', r⟩ := evalE_flat call c P _ (flat_fnOf hflat id.fn) id.arg
    { s with stack := ⟨id, [], 1⟩ :: s.stack, runs := bump s.runs id.fn, log := id :: s.log } ⟨id, [], 1⟩ [] v
    (by simp [hst]) hv
  refine ⟨fr', ?_, r⟩
  unfold invoke
  have hany : (s.stack.any fun fr => decide (fr.id = id)) = false := by simp [hst]
  simp only [hany]
  simp only [Bool.false_eq_true, if_false, r.eq]
  cases s; simp only at hst; subst hst; rfl

/-- `exec` after its first line (the push onto `top_level_calls`) -/
def execBody (fuel : Nat) (P : Prog) (s : Storage) (id : NodeId) : Storage × Res Bool :=
    match alookup s.derived id with
    | some rev =>
      if rev.tv = s.epoch then (regDep s (.derived id) rev.tu, .ok false)
      else
        let s := setTv s id s.epoch
        match anyDep (depChanged (exec fuel P)) rev.deps s with
        | (s, .panic p) => (s, .panic p)
        | (s, .ok false) => (regDep s (.derived id) rev.tu, .ok false)
        | (s, .ok true) =>
          match invoke (callVia (exec fuel P)) P s id with
          | (s, .panic p) => (s, .panic p)
          | (s, .ok (v, fr)) =>
            match alookup s.derived id with
            | none => (s, .panic .missingNode)
            | some r' =>
              if rev.val ≠ v then
                let s := { s with derived := ainsert s.derived id (Rev.mk v fr.maxTu r'.tv fr.rdeps.reverse) }
                (regDep s (.derived id) fr.maxTu, .ok true)
              else
                let s := { s with derived := ainsert s.derived id (Rev.mk r'.val r'.tu r'.tv fr.rdeps.reverse) }
                (regDep s (.derived id) fr.maxTu, .ok false)
    | none =>
      match invoke (callVia (exec fuel P)) P s id with
      | (s, .panic p) => (s, .panic p)
      | (s, .ok (v, fr)) =>
        let s := { s with derived := ainsert s.derived id (Rev.mk v fr.maxTu s.epoch fr.rdeps.reverse) }
        (regDep s (.derived id) fr.maxTu, .ok true)

def pushTop (s : Storage) (id : NodeId) : Storage :=
  if s.stack.isEmpty then { s with topCalls := s.topCalls ++ [id], pushes := s.pushes ++ [id] } else s

theorem exec_succ (fuel : Nat) (P : Prog) (s : Storage) (id : NodeId) :
    exec (fuel + 1) P s id = execBody fuel P (pushTop s id) id := rfl

/-- what a top-level execution of a call-free function does (after the push) -/
theorem execBody_flat {P : Prog} (hflat : Flat P) (c : NodeId → Res Nat) (n : Nat) (s0 : Storage) (id : NodeId) (v : Nat)
    (hinv0 : Inv1 P s0) (hv : evalPS c P s0.srcs s0.maps (fnOf P id.fn).body id.arg = .ok v) :
    ∃ s' b r, execBody n P s0 id = (s', .ok b) ∧ Inv1 P s' ∧ alookup s'.derived id = some r ∧ r.val = v ∧
      s'.epoch = s0.epoch ∧ s'.srcs = s0.srcs ∧ s'.maps = s0.maps ∧ s'.poisoned = s0.poisoned ∧ r.tv = s'.epoch := by
  have hst0 := hinv0.stack
  unfold execBody
  cases hl : alookup s0.derived id with
  | none =>
    simp only
    obtain ⟨fr', hi, r⟩ := invoke_flat (callVia (exec n P)) c hflat s0 id v hst0 hv
    simp only [hi]
    refine ⟨_, true, Rev.mk v fr'.maxTu s0.epoch fr'.rdeps.reverse, rfl, ?_, ?_, rfl, ?_⟩
    · refine ⟨?_, ?_, ?_⟩
      · simp [regDep, hst0]
      · intro k nd hk; simp [regDep, hst0] at hk ⊢; exact hinv0.srcTu k nd hk
      · intro n' r' hn'
        simp only [regDep, hst0] at hn'
        have hnode := nodeOk_fresh_exec (s := s0) r fr'.maxTu rfl rfl rfl hinv0.srcTu
        by_cases hid : id = n'
        · subst hid
          rw [alookup_ainsert_self] at hn'; cases hn'
          exact hnode.congr (by simp [regDep, hst0]) (by simp [regDep, hst0]) (by simp [regDep, hst0])
        · rw [alookup_ainsert_ne _ _ _ _ hid] at hn'
          exact (hinv0.nodes n' r' hn').congr (by simp [regDep, hst0]) (by simp [regDep, hst0]) (by simp [regDep, hst0])
    · simp only [regDep, hst0]; exact alookup_ainsert_self _ _ _
    · simp [regDep, hst0]
  | some rev =>
    simp only
    have hok := hinv0.nodes id rev hl
    by_cases htv : rev.tv = s0.epoch
    · simp only [if_pos htv]
      refine ⟨_, false, rev, rfl, ?_, ?_, ?_, ?_⟩
      · exact hinv0.congr (by simp [regDep, hst0]) (by simp [regDep, hst0]) (by simp [regDep, hst0]) (by simp [regDep, hst0]) (by simp [regDep, hst0])
      · simp only [regDep, hst0]; exact hl
      · have := hok.sound (hok.fresh_now htv) s0.srcs s0.maps c (fun _ _ => rfl)
        rw [hv] at this; cases this; rfl
      · simp [regDep, hst0, htv]
    · simp only [if_neg htv]
      -- `verify_derived_node`
      have hsetTv : setTv s0 id s0.epoch = { s0 with derived := ainsert s0.derived id (Rev.mk rev.val rev.tu s0.epoch rev.deps) } := by
        simp [setTv, hl]
      rw [hsetTv]
      have hlt : ∀ d, d ∈ rev.deps → d.stamp < s0.epoch := by
        intro d hd
        have h1 := hok.stamps d hd
        have h2 := hok.tv_le
        omega
      obtain ⟨b, hb, hfb⟩ := anyDep_srcOnly (exec n P)
        rev.deps { s0 with derived := ainsert s0.derived id (Rev.mk rev.val rev.tu s0.epoch rev.deps) } hok.srcOnly hlt
      simp only [hb]
      -- the state in which the node counts as verified
      have hinv1 : ∀ (r1 : Rev), r1.tv = s0.epoch → NodeOk P s0 id r1 →
          Inv1 P { s0 with derived := ainsert s0.derived id r1 } := by
        intro r1 _ hr1
        refine ⟨hst0, hinv0.srcTu, ?_⟩
        intro n' r' hn'
        by_cases hid : id = n'
        · subst hid
          simp only [alookup_ainsert_self] at hn'; cases hn'
          exact hr1.congr rfl rfl rfl
        · simp only [alookup_ainsert_ne _ _ _ _ hid] at hn'
          exact (hinv0.nodes n' r' hn').congr rfl rfl rfl
      cases b with
      | false =>
        simp only
        have hfresh : DepsFresh s0 rev.deps := hfb rfl
        have hnode : NodeOk P s0 id (Rev.mk rev.val rev.tu s0.epoch rev.deps) :=
          ⟨Nat.le_refl _, hok.srcOnly, fun d hd => Nat.le_of_lt (hlt d hd), fun _ => hfresh, fun hf => hok.sound hf⟩
        refine ⟨_, false, Rev.mk rev.val rev.tu s0.epoch rev.deps, rfl, ?_, ?_, ?_, ?_⟩
        · exact (hinv1 _ rfl hnode).congr (by simp [regDep, hst0]) (by simp [regDep, hst0]) (by simp [regDep, hst0]) (by simp [regDep, hst0]) (by simp [regDep, hst0])
        · simp only [regDep, hst0]; exact alookup_ainsert_self _ _ _
        · have := hok.sound hfresh s0.srcs s0.maps c (fun _ _ => rfl)
          rw [hv] at this; cases this; rfl
        · simp [regDep, hst0]
      | true =>
        simp only
        obtain ⟨fr', hi, r⟩ := invoke_flat (callVia (exec n P)) c hflat
          { s0 with derived := ainsert s0.derived id (Rev.mk rev.val rev.tu s0.epoch rev.deps) } id v hst0 hv
        simp only [hi, alookup_ainsert_self]
        have hnode : ∀ tu, NodeOk P s0 id (Rev.mk v tu s0.epoch fr'.rdeps.reverse) := fun tu =>
          nodeOk_fresh_exec (s := s0) r tu rfl rfl rfl hinv0.srcTu
        by_cases hval : rev.val ≠ v
        · simp only [if_pos hval]
          refine ⟨_, true, Rev.mk v fr'.maxTu s0.epoch fr'.rdeps.reverse, rfl, ?_, ?_, rfl, ?_⟩
          · refine ⟨by simp [regDep, hst0], ?_, ?_⟩
            · intro k nd hk; simp [regDep, hst0] at hk ⊢; exact hinv0.srcTu k nd hk
            · intro n' r' hn'
              simp only [regDep, hst0] at hn'
              by_cases hid : id = n'
              · subst hid
                rw [alookup_ainsert_self] at hn'; cases hn'
                exact (hnode _).congr (by simp [regDep, hst0]) (by simp [regDep, hst0]) (by simp [regDep, hst0])
              · rw [alookup_ainsert_ne _ _ _ _ hid, alookup_ainsert_ne _ _ _ _ hid] at hn'
                exact (hinv0.nodes n' r' hn').congr (by simp [regDep, hst0]) (by simp [regDep, hst0]) (by simp [regDep, hst0])
          · simp only [regDep, hst0]; exact alookup_ainsert_self _ _ _
          · simp [regDep, hst0]
        · simp only [if_neg hval]
          have hval' : rev.val = v := Decidable.of_not_not hval
          refine ⟨_, false, Rev.mk rev.val rev.tu s0.epoch fr'.rdeps.reverse, rfl, ?_, ?_, hval', ?_⟩
          · refine ⟨by simp [regDep, hst0], ?_, ?_⟩
            · intro k nd hk; simp [regDep, hst0] at hk ⊢; exact hinv0.srcTu k nd hk
            · intro n' r' hn'
              simp only [regDep, hst0] at hn'
              by_cases hid : id = n'
              · subst hid
                rw [alookup_ainsert_self] at hn'; cases hn'
                rw [hval']
                exact (hnode _).congr (by simp [regDep, hst0]) (by simp [regDep, hst0]) (by simp [regDep, hst0])
              · rw [alookup_ainsert_ne _ _ _ _ hid, alookup_ainsert_ne _ _ _ _ hid] at hn'
                exact (hinv0.nodes n' r' hn').congr (by simp [regDep, hst0]) (by simp [regDep, hst0]) (by simp [regDep, hst0])
          · simp only [regDep, hst0]; exact alookup_ainsert_self _ _ _
          · simp [regDep, hst0]


theorem exec_flat {P : Prog} (hflat : Flat P) (c : NodeId → Res Nat) (n : Nat) (s : Storage) (id : NodeId) (v : Nat)
    (hinv : Inv1 P s) (hv : evalPS c P s.srcs s.maps (fnOf P id.fn).body id.arg = .ok v) :
    ∃ s' b r, exec (n + 1) P s id = (s', .ok b) ∧ Inv1 P s' ∧ alookup s'.derived id = some r ∧ r.val = v ∧
      s'.epoch = s.epoch ∧ s'.srcs = s.srcs ∧ s'.maps = s.maps ∧ s'.poisoned = s.poisoned ∧ r.tv = s'.epoch := by
  rw [exec_succ]
  have hp : pushTop s id = { s with topCalls := s.topCalls ++ [id], pushes := s.pushes ++ [id] } := by
    simp [pushTop, hinv.stack]
  rw [hp]
  exact execBody_flat hflat c n _ id v (hinv.congr hinv.stack rfl rfl rfl rfl) hv


/-! ## source operations -/

/-- a key is overwritten with a new stamp / removed, the epoch advances; everything else is as before -/
theorem NodeOk.touch {P : Prog} {s : Storage} {n : NodeId} {r : Rev} (h : NodeOk P s n r) {s' : Storage} (k0 : Key)
    (he : s'.epoch = s.epoch + 1)
    (hk0 : alookup s'.srcs k0 = none ∨ ∃ nd, alookup s'.srcs k0 = some nd ∧ nd.tu = s.epoch + 1)
    (hsame : ∀ k, k ≠ k0 → alookup s'.srcs k = alookup s.srcs k ∧ keyObs s'.srcs s'.maps k = keyObs s.srcs s.maps k) :
    NodeOk P s' n r := by
  have hnot : DepsFresh s' r.deps → k0 ∉ depKeys r.deps := by
    intro hf hmem
    obtain ⟨d, hd, hk⟩ := mem_depKeys.1 hmem
    obtain ⟨nd, hnd, hle⟩ := hf d hd k0 hk
    have h1 := h.stamps d hd
    have h2 := h.tv_le
    rcases hk0 with hk0 | ⟨nd', hnd', htu⟩
    · rw [hk0] at hnd; cases hnd
    · rw [hnd'] at hnd; cases hnd; omega
  refine ⟨by rw [he]; exact Nat.le_succ_of_le h.tv_le, h.srcOnly, h.stamps, ?_, ?_⟩
  · intro ht; have := h.tv_le; omega
  · intro hf σ' m' c' hag
    have hk0' := hnot hf
    refine h.sound ?_ σ' m' c' ?_
    · intro d hd k hk
      have hne : k ≠ k0 := fun e => hk0' (e ▸ mem_depKeys.2 ⟨d, hd, hk⟩)
      have := hf d hd k hk
      rw [(hsame k hne).1] at this; exact this
    · intro k hk
      have hne : k ≠ k0 := fun e => hk0' (e ▸ hk)
      rw [← (hsame k hne).2]; exact hag k hk

/-- a key that was absent is inserted without advancing the epoch -/
theorem NodeOk.vacant {P : Prog} {s : Storage} {n : NodeId} {r : Rev} (h : NodeOk P s n r) {s' : Storage} (k0 : Key)
    (he : s'.epoch = s.epoch) (habs : alookup s.srcs k0 = none)
    (hk0 : ∃ nd, alookup s'.srcs k0 = some nd ∧ nd.tu = s.epoch)
    (hsame : ∀ k, k ≠ k0 → alookup s'.srcs k = alookup s.srcs k ∧ keyObs s'.srcs s'.maps k = keyObs s.srcs s.maps k) :
    NodeOk P s' n r := by
  -- a fresh node (in either state) does not mention the key
  have hnot' : DepsFresh s' r.deps → k0 ∉ depKeys r.deps := by
    intro hf hmem
    obtain ⟨d, hd, hk⟩ := mem_depKeys.1 hmem
    obtain ⟨nd, hnd, hle⟩ := hf d hd k0 hk
    obtain ⟨nd', hnd', htu⟩ := hk0
    rw [hnd'] at hnd; cases hnd
    have h1 := h.stamps d hd
    have h2 := h.tv_le
    have htv : r.tv = s.epoch := by omega
    obtain ⟨nd2, hnd2, _⟩ := h.fresh_now htv d hd k0 hk
    rw [habs] at hnd2; cases hnd2
  have hnot : DepsFresh s r.deps → k0 ∉ depKeys r.deps := by
    intro hf hmem
    obtain ⟨d, hd, hk⟩ := mem_depKeys.1 hmem
    obtain ⟨nd, hnd, _⟩ := hf d hd k0 hk
    rw [habs] at hnd; cases hnd
  refine ⟨by rw [he]; exact h.tv_le, h.srcOnly, h.stamps, ?_, ?_⟩
  · intro ht
    have hf := h.fresh_now (by rw [← he]; exact ht)
    have hk0' := hnot hf
    intro d hd k hk
    have hne : k ≠ k0 := fun e => hk0' (e ▸ mem_depKeys.2 ⟨d, hd, hk⟩)
    rw [(hsame k hne).1]; exact hf d hd k hk
  · intro hf σ' m' c' hag
    have hk0' := hnot' hf
    refine h.sound ?_ σ' m' c' ?_
    · intro d hd k hk
      have hne : k ≠ k0 := fun e => hk0' (e ▸ mem_depKeys.2 ⟨d, hd, hk⟩)
      have := hf d hd k hk
      rw [(hsame k hne).1] at this; exact this
    · intro k hk
      have hne : k ≠ k0 := fun e => hk0' (e ▸ hk)
      rw [← (hsame k hne).2]; exact hag k hk

theorem keyObs_of_lookup_maps {σ σ' : List (Key × SrcNode)} {m m' : List (List Nat)} {k : Key}
    (h1 : alookup σ' k = alookup σ k) (h2 : ∀ i, k = .ctr i → mapLen m' i = mapLen m i) :
    keyObs σ' m' k = keyObs σ m k := by
  unfold keyObs
  rw [h1]
  cases k with
  | src n => rfl
  | sing i => rfl
  | ctr i => simp [h2 i rfl]

/-- `setSource` followed by an arbitrary change of the tracked field `mm` guarded by the counter `k0`
(`mm = none`: no tracked field changes) -/
theorem Inv1.setSource {P : Prog} {s : Storage} (h : Inv1 P s) (k0 : Key) (v : Nat) (maps' : List (List Nat))
    (hmaps : ∀ i, Key.ctr i ≠ k0 → mapLen maps' i = mapLen s.maps i)
    (hchg : alookup s.srcs k0 = none ∨ (∃ nd, alookup s.srcs k0 = some nd ∧ nd.val ≠ v) ∨ maps' = s.maps) :
    Inv1 P { setSource s k0 v with maps := maps' } := by
  unfold IsoVerif.Pico.setSource
  cases hl : alookup s.srcs k0 with
  | none =>
    simp only
    refine ⟨h.stack, ?_, ?_⟩
    · intro k nd hk
      simp only [alookup_ainsert] at hk
      by_cases hkk : k0 = k
      · simp [hkk] at hk; subst hk; exact Nat.le_refl _
      · simp [hkk] at hk; exact h.srcTu k nd hk
    · intro n r hn
      refine (h.nodes n r hn).vacant k0 rfl hl ⟨⟨v, s.epoch⟩, alookup_ainsert_self _ _ _, rfl⟩ ?_
      intro k hne
      have h1 : alookup (ainsert s.srcs k0 ⟨v, s.epoch⟩) k = alookup s.srcs k := alookup_ainsert_ne _ _ _ _ (Ne.symm hne)
      exact ⟨h1, keyObs_of_lookup_maps h1 (fun i hi => hmaps i (by rw [← hi]; exact hne))⟩
  | some nd =>
    simp only
    by_cases hv : nd.val ≠ v
    · simp only [if_pos hv]
      refine ⟨h.stack, ?_, ?_⟩
      · intro k nd' hk
        simp only [alookup_ainsert] at hk
        by_cases hkk : k0 = k
        · simp [hkk] at hk; subst hk; exact Nat.le_refl _
        · simp [hkk] at hk; exact Nat.le_succ_of_le (h.srcTu k nd' hk)
      · intro n r hn
        refine (h.nodes n r hn).touch k0 rfl (Or.inr ⟨⟨v, s.epoch + 1⟩, alookup_ainsert_self _ _ _, rfl⟩) ?_
        intro k hne
        have h1 : alookup (ainsert s.srcs k0 ⟨v, s.epoch + 1⟩) k = alookup s.srcs k := alookup_ainsert_ne _ _ _ _ (Ne.symm hne)
        exact ⟨h1, keyObs_of_lookup_maps h1 (fun i hi => hmaps i (by rw [← hi]; exact hne))⟩
    · simp only [if_neg hv]
      -- nothing changes, so the tracked field must be unchanged as well
      have hm : maps' = s.maps := by
        rcases hchg with hc | ⟨nd', hnd', hne⟩ | hc
        · rw [hl] at hc; cases hc
        · rw [hl] at hnd'; cases hnd'; exact absurd hne hv
        · exact hc
      exact h.congr h.stack rfl rfl hm rfl

theorem setSource_maps (s : Storage) (k : Key) (v : Nat) : (setSource s k v).maps = s.maps := by
  unfold setSource; split
  · split <;> rfl
  · rfl

theorem Inv1.setSource' {P : Prog} {s : Storage} (h : Inv1 P s) (k0 : Key) (v : Nat) :
    Inv1 P (IsoVerif.Pico.setSource s k0 v) := by
  have := h.setSource k0 v s.maps (fun _ _ => rfl) (Or.inr (Or.inr rfl))
  exact this.congr this.stack rfl rfl (setSource_maps s k0 v) rfl

theorem Inv1.removeSource {P : Prog} {s : Storage} (h : Inv1 P s) (k0 : Key) : Inv1 P (removeSource s k0) := by
  unfold IsoVerif.Pico.removeSource
  cases hl : alookup s.srcs k0 with
  | none => exact h
  | some nd =>
    simp only
    refine ⟨h.stack, ?_, ?_⟩
    · intro k nd' hk
      by_cases hkk : k0 = k
      · subst hkk; rw [alookup_aerase_self] at hk; cases hk
      · rw [alookup_aerase_ne _ _ _ hkk] at hk; exact Nat.le_succ_of_le (h.srcTu k nd' hk)
    · intro n r hn
      refine (h.nodes n r hn).touch k0 rfl (Or.inl (alookup_aerase_self _ _)) ?_
      intro k hne
      have h1 : alookup (aerase s.srcs k0) k = alookup s.srcs k := alookup_aerase_ne _ _ _ (Ne.symm hne)
      exact ⟨h1, keyObs_of_lookup_maps h1 (fun _ _ => rfl)⟩


/-! ## every operation -/

theorem getD_setNth_ne {α : Type} (d x : α) : ∀ (l : List α) (m i : Nat), i ≠ m → (setNth l m x).getD i d = l.getD i d := by
  intro l
  induction l with
  | nil => intro m i _; rfl
  | cons y ys ih =>
    intro m i hne
    cases m with
    | zero =>
      cases i with
      | zero => exact absurd rfl hne
      | succ i => simp [setNth]
    | succ m =>
      cases i with
      | zero => simp [setNth]
      | succ i => simp [setNth]; exact ih m i (fun e => hne (by rw [e]))

theorem mapLen_setNth_ne (maps : List (List Nat)) (m i : Nat) (x : List Nat) (h : i ≠ m) :
    mapLen (setNth maps m x) i = mapLen maps i := by
  unfold mapLen; rw [getD_setNth_ne _ _ _ _ _ h]

theorem Inv1.touchCounter_maps {P : Prog} {s : Storage} (h : Inv1 P s) (m : Nat) (x : List Nat) :
    Inv1 P { touchCounter s m with maps := setNth (touchCounter s m).maps m x } := by
  have hmaps : (touchCounter s m).maps = s.maps := by
    unfold touchCounter IsoVerif.Pico.setSource
    cases hl : alookup s.srcs (.ctr m) with
    | none => simp
    | some nd => simp only; split <;> rfl
  rw [hmaps]
  unfold touchCounter
  cases hl : alookup s.srcs (.ctr m) with
  | none =>
    simp only
    exact h.setSource (.ctr m) 0 _ (fun i hi => mapLen_setNth_ne _ _ _ _ (fun e => hi (by rw [e]))) (Or.inl hl)
  | some nd =>
    simp only
    exact h.setSource (.ctr m) (nd.val + 1) _ (fun i hi => mapLen_setNth_ne _ _ _ _ (fun e => hi (by rw [e])))
      (Or.inr (Or.inl ⟨nd, hl, by omega⟩))

theorem Inv1.gc {P : Prog} {s : Storage} (h : Inv1 P s) : Inv1 P (gc s).1 := by
  unfold IsoVerif.Pico.gc
  simp only
  split
  · exact h.congr h.stack rfl rfl rfl rfl
  · refine ⟨h.stack, h.srcTu, ?_⟩
    intro n r hn
    exact (h.nodes n r (alookup_filterKey_some _ _ _ _ hn)).congr rfl rfl rfl

/-- the outcome of a call in a state satisfying the invariant -/
theorem step_call_flat {P : Prog} (hflat : Flat P) (fuel : Nat) (s : Storage) (f a v : Nat) (hinv : Inv1 P s)
    (hv : evalSS fuel P s.srcs s.maps [] (nodeOf P f a) = .ok v) :
    Inv1 P (step fuel P s (.call f a)).1 ∧
      ((step fuel P s (.call f a)).2 = .dead ∨ (step fuel P s (.call f a)).2 = .val v) := by
  unfold step
  by_cases hp : s.poisoned = true
  · rw [if_pos hp]; exact ⟨hinv, Or.inl rfl⟩
  · rw [if_neg hp]
    cases fuel with
    | zero => simp [evalSS] at hv
    | succ n =>
      simp only [evalSS] at hv
      have hc : ([] : List NodeId).contains (nodeOf P f a) = false := rfl
      rw [if_neg (by simp)] at hv
      obtain ⟨s', b, r, he, hinv', hl, hval, hep, hsr, hmp, _, _⟩ := exec_flat hflat _ n s (nodeOf P f a) v hinv hv
      simp only [callVia, he, hl]
      refine ⟨?_, Or.inr (by rw [hval])⟩
      exact hinv'.congr hinv'.stack rfl rfl rfl rfl

theorem Inv1.step {P : Prog} (hflat : Flat P) (fuel : Nat) {s : Storage} (hinv : Inv1 P s) (op : Op)
    (hclean : ∀ f a, op = .call f a → ∃ v, evalSS fuel P s.srcs s.maps [] (nodeOf P f a) = .ok v) :
    Inv1 P (step fuel P s op).1 := by
  cases op with
  | call f a =>
    obtain ⟨v, hv⟩ := hclean f a rfl
    exact (step_call_flat hflat fuel s f a v hinv hv).1
  | set k v =>
    unfold IsoVerif.Pico.step; split
    · exact hinv
    · exact hinv.setSource' (.src k) v
  | rem k =>
    unfold IsoVerif.Pico.step; split
    · exact hinv
    · exact hinv.removeSource _
  | sset i v =>
    unfold IsoVerif.Pico.step; split
    · exact hinv
    · exact hinv.setSource' (.sing i) v
  | srem i =>
    unfold IsoVerif.Pico.step; split
    · exact hinv
    · exact hinv.removeSource _
  | tins m k =>
    unfold IsoVerif.Pico.step; split
    · exact hinv
    · exact hinv.touchCounter_maps m _
  | trem m k =>
    unfold IsoVerif.Pico.step; split
    · exact hinv
    · exact hinv.touchCounter_maps m _
  | look f a =>
    unfold IsoVerif.Pico.step; split
    · exact hinv
    · simp only; split
      · split <;> exact hinv
      · exact hinv
  | retain f a =>
    unfold IsoVerif.Pico.step; split
    · exact hinv
    · simp only; split
      · exact hinv.congr hinv.stack rfl rfl rfl rfl
      · exact hinv
  | unretain f a =>
    unfold IsoVerif.Pico.step; split
    · exact hinv
    · simp only; split
      · exact hinv.congr hinv.stack rfl rfl rfl rfl
      · exact hinv
  | nevergc f a =>
    unfold IsoVerif.Pico.step; split
    · exact hinv
    · simp only; split
      · exact hinv.congr hinv.stack rfl rfl rfl rfl
      · exact hinv
  | gc =>
    unfold IsoVerif.Pico.step; split
    · exact hinv
    · have := hinv.gc
      cases hg : IsoVerif.Pico.gc s with
      | mk s' r =>
        rw [hg] at this
        cases r <;> exact this

theorem Inv1.init (P : Prog) (cap nfn : Nat) : Inv1 P (Storage.init cap nfn) :=
  ⟨rfl, by intro k nd h; simp [Storage.init] at h, by intro n r h; simp [Storage.init] at h⟩

theorem runS_nil (fuel : Nat) (P : Prog) (s : Storage) : runS fuel P s [] = s := rfl

theorem runS_cons (fuel : Nat) (P : Prog) (s : Storage) (op : Op) (ops : List Op) :
    runS fuel P s (op :: ops) = runS fuel P (step fuel P s op).1 ops := by
  simp [runS, run]

theorem runS_append (fuel : Nat) (P : Prog) : ∀ (xs : List Op) (s : Storage) (ys : List Op),
    runS fuel P s (xs ++ ys) = runS fuel P (runS fuel P s xs) ys := by
  intro xs
  induction xs with
  | nil => intro s ys; rfl
  | cons x xs ih => intro s ys; simp only [List.cons_append, runS_cons]; exact ih _ _

/-- the invariant holds after every prefix of a history whose calls are clean -/
theorem inv1_runS {P : Prog} (hflat : Flat P) (fuel : Nat) : ∀ (pre : List Op) (s : Storage), Inv1 P s →
    (∀ p f a rest, pre = p ++ Op.call f a :: rest →
        ∃ v, evalSS fuel P (runS fuel P s p).srcs (runS fuel P s p).maps [] (nodeOf P f a) = .ok v) →
    Inv1 P (runS fuel P s pre) := by
  intro pre
  induction pre with
  | nil => intro s h _; exact h
  | cons op ops ih =>
    intro s h hc
    rw [runS_cons]
    refine ih _ (h.step hflat fuel op ?_) ?_
    · intro f a hop; subst hop; exact hc [] f a ops rfl
    · intro p f a rest hp
      have := hc (op :: p) f a rest (by rw [hp]; rfl)
      rw [runS_cons] at this; exact this

/-- **C01, stage 1** -/
theorem c01_stage1 {P : Prog} (hflat : Flat P) (fuel cap : Nat) (h : List Op) (hclean : CleanCalls fuel cap P h)
    (pre : List Op) (f a : Nat) (rest : List Op) (hh : h = pre ++ Op.call f a :: rest) :
    (step fuel P (after fuel cap P pre) (.call f a)).2 = .dead ∨
      (step fuel P (after fuel cap P pre) (.call f a)).2 = outOfRes (evalScratch fuel P (after fuel cap P pre) (nodeOf P f a)) := by
  have hinv : Inv1 P (after fuel cap P pre) := by
    unfold after
    refine inv1_runS hflat fuel pre _ (Inv1.init P cap P.length) ?_
    intro p f' a' rest' hp
    exact hclean p f' a' (rest' ++ Op.call f a :: rest) (by rw [hh, hp]; simp)
  obtain ⟨v, hv⟩ := hclean pre f a rest hh
  have hs := evalSS_ok_evalS P _ _ fuel [] _ v hv
  rcases (step_call_flat hflat fuel _ f a v hinv hv).2 with hd | hval
  · exact Or.inl hd
  · right; rw [hval]; unfold evalScratch; rw [hs]; rfl


/-! ## a decidable form of `CleanCalls` (for concrete histories) -/

def Res.isOk {α : Type} : Res α → Bool
  | .ok _ => true
  | .panic _ => false

def cleanAt (fuel cap : Nat) (P : Prog) (h : List Op) (i : Nat) : Bool :=
  match h.getD i .gc with
  | .call f a => (evalSS fuel P (after fuel cap P (h.take i)).srcs (after fuel cap P (h.take i)).maps [] (nodeOf P f a)).isOk
  | _ => true

def cleanCallsB (fuel cap : Nat) (P : Prog) (h : List Op) : Bool := (List.range h.length).all (cleanAt fuel cap P h)

theorem cleanCalls_of_B (fuel cap : Nat) (P : Prog) (h : List Op) (hb : cleanCallsB fuel cap P h = true) :
    CleanCalls fuel cap P h := by
  intro pre f a rest hh
  have hlen : pre.length < h.length := by rw [hh]; simp
  have hat : cleanAt fuel cap P h pre.length = true := by
    unfold cleanCallsB at hb
    rw [List.all_eq_true] at hb
    exact hb _ (List.mem_range.2 hlen)
  have htake : h.take pre.length = pre := by rw [hh]; simp
  have hget : h.getD pre.length .gc = .call f a := by rw [hh]; simp
  unfold cleanAt at hat
  rw [hget, htake] at hat
  simp only at hat
  cases he : evalSS fuel P (after fuel cap P pre).srcs (after fuel cap P pre).maps [] (nodeOf P f a) with
  | ok v => exact ⟨v, rfl⟩
  | panic p => rw [he] at hat; simp [Res.isOk] at hat

end IsoVerif.Pico
