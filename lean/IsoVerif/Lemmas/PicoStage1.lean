/-
C01, stage 1: programs of nesting depth 0 (`Flat`: no body calls a memoised function), every
operation of the model (sources, singletons, tracked fields, calls, lookups, retain / clear /
never-gc, gc).  Under `CleanCalls` every call returns the from-scratch value.

The invariant is history-free.  For a derived node with revision `r` (all its dependencies are
sources): if every recorded dependency is still *fresh* (present, `tu ≤ stamp`) then for EVERY
source state that agrees with the current one on the recorded keys the body evaluates (strictly)
to `r.val`; and a node verified in the current epoch is fresh.
-/
import IsoVerif.Lemmas.PicoBasic

namespace IsoVerif.Pico

/-- call oracle for bodies that contain no call -/
def noCallee : NodeId → Res Nat := fun _ => .panic .fuel

/-- what a body can observe of a key -/
def keyObs (srcs : List (Key × SrcNode)) (maps : List (List Nat)) (k : Key) : Option Nat × Nat :=
  ((alookup srcs k).map (·.val), match k with | .ctr m => mapLen maps m | _ => 0)

def AgreeOn (K : List Key) (σ : List (Key × SrcNode)) (m : List (List Nat))
    (σ' : List (Key × SrcNode)) (m' : List (List Nat)) : Prop :=
  ∀ k, k ∈ K → keyObs σ m k = keyObs σ' m' k

def depKeys : List Dep → List Key
  | [] => []
  | d :: ds => match d.node with
    | .source k => k :: depKeys ds
    | .derived _ => depKeys ds

theorem mem_depKeys {ds : List Dep} {k : Key} : k ∈ depKeys ds ↔ ∃ d, d ∈ ds ∧ d.node = .source k := by
  induction ds with
  | nil => simp [depKeys]
  | cons d ds ih =>
    cases hd : d.node with
    | source k' =>
      simp only [depKeys, hd, List.mem_cons, ih]
      constructor
      · rintro (rfl | ⟨d', hd', hk⟩)
        · exact ⟨d, Or.inl rfl, hd⟩
        · exact ⟨d', Or.inr hd', hk⟩
      · rintro ⟨d', (rfl | hd'), hk⟩
        · rw [hd] at hk; cases hk; exact Or.inl rfl
        · exact Or.inr ⟨d', hd', hk⟩
    | derived m =>
      simp only [depKeys, hd, List.mem_cons, ih]
      constructor
      · rintro ⟨d', hd', hk⟩; exact ⟨d', Or.inr hd', hk⟩
      · rintro ⟨d', (rfl | hd'), hk⟩
        · rw [hd] at hk; cases hk
        · exact ⟨d', hd', hk⟩

theorem depKeys_reverse (ds : List Dep) (k : Key) : k ∈ depKeys ds.reverse ↔ k ∈ depKeys ds := by
  simp [mem_depKeys]

/-- pushing a source dependency keeps every old key and adds the new one -/
theorem depKeys_pushDep (rdeps : List Dep) (k : Key) (e : Nat) (k' : Key) :
    k' ∈ depKeys (pushDep rdeps ⟨.source k, e⟩) ↔ k' = k ∨ k' ∈ depKeys rdeps := by
  cases rdeps with
  | nil => simp [pushDep, depKeys]
  | cons l rest =>
    by_cases h : l.node = .source k
    · simp [pushDep, h, depKeys]
    · cases hl : l.node with
      | source k2 =>
        have hne : k2 ≠ k := fun e => h (by rw [hl, e])
        simp [pushDep, depKeys, hl, hne]
      | derived m => simp [pushDep, depKeys, hl]

/-- every dependency of the frame was stamped in the current epoch and is a present source -/
def FrameGood (s : Storage) (fr : Frame) : Prop :=
  ∀ d, d ∈ fr.rdeps → d.stamp = s.epoch ∧ ∃ k nd, d.node = .source k ∧ alookup s.srcs k = some nd

theorem frameGood_push (s : Storage) (fr : Frame) (k : Key) (nd : SrcNode) (tu : Nat)
    (hk : alookup s.srcs k = some nd) (hg : FrameGood s fr) :
    FrameGood s { fr with rdeps := pushDep fr.rdeps ⟨.source k, s.epoch⟩, maxTu := tu } := by
  intro d hd
  simp only at hd
  cases hr : fr.rdeps with
  | nil =>
    simp [hr, pushDep] at hd; subst hd; exact ⟨rfl, k, nd, rfl, hk⟩
  | cons l rest =>
    rw [hr] at hd
    by_cases h : l.node = .source k
    · simp [pushDep, h] at hd
      rcases hd with rfl | hd
      · exact ⟨rfl, k, nd, rfl, hk⟩
      · exact hg d (by rw [hr]; exact List.mem_cons_of_mem _ hd)
    · simp [pushDep, h] at hd
      rcases hd with rfl | rfl | hd
      · exact ⟨rfl, k, nd, rfl, hk⟩
      · exact hg _ (by rw [hr]; exact List.mem_cons_self)
      · exact hg d (by rw [hr]; exact List.mem_cons_of_mem _ hd)

/-- result of evaluating a call-free expression inside a frame -/
structure FlatRes (call : Storage → NodeId → Storage × Res Nat) (P : Prog) (e : Expr) (a : Nat) (s : Storage)
    (fr : Frame) (rest : List Frame) (v : Nat) (fr' : Frame) : Prop where
  eq : evalE call P e a s = ({ s with stack := fr' :: rest }, .ok v)
  id : fr'.id = fr.id
  mono : ∀ k, k ∈ depKeys fr.rdeps → k ∈ depKeys fr'.rdeps
  good : FrameGood s fr → FrameGood s fr'
  cov : ∀ σ' m' c', AgreeOn (depKeys fr'.rdeps) s.srcs s.maps σ' m' → evalPS c' P σ' m' e a = .ok v

theorem regDep_cons (s : Storage) (fr : Frame) (rest : List Frame) (n : DepNode) (tu : Nat)
    (h : s.stack = fr :: rest) :
    regDep s n tu = { s with stack := { fr with rdeps := pushDep fr.rdeps ⟨n, s.epoch⟩, maxTu := max tu fr.maxTu } :: rest } := by
  simp [regDep, h]

theorem evalE_flat (call : Storage → NodeId → Storage × Res Nat) (c : NodeId → Res Nat) (P : Prog) :
    ∀ (e : Expr), e.noCall = true → ∀ (a : Nat) (s : Storage) (fr : Frame) (rest : List Frame) (v : Nat),
      s.stack = fr :: rest → evalPS c P s.srcs s.maps e a = .ok v →
      ∃ fr', FlatRes call P e a s fr rest v fr' := by
  intro e
  induction e with
  | lit n =>
    intro _ a s fr rest v hs h
    simp only [evalPS] at h; cases h
    refine ⟨fr, ⟨?_, rfl, fun k hk => hk, fun hg => hg, ?_⟩⟩
    · simp only [evalE]; rw [← hs]
    · intro σ' m' c' _; simp [evalPS]
  | param =>
    intro _ a s fr rest v hs h
    simp only [evalPS] at h; cases h
    refine ⟨fr, ⟨?_, rfl, fun k hk => hk, fun hg => hg, ?_⟩⟩
    · simp only [evalE]; rw [← hs]
    · intro σ' m' c' _; simp [evalPS]
  | src k ih =>
    intro hnc a s fr rest v hs h
    simp only [Expr.noCall] at hnc
    simp only [evalPS] at h
    cases hk : evalPS c P s.srcs s.maps k a with
    | panic p => simp [hk] at h
    | ok kv =>
      simp only [hk] at h
      cases hl : alookup s.srcs (.src kv) with
      | none => simp [hl] at h
      | some nd =>
        simp only [hl] at h; cases h
        obtain ⟨fr1, r1⟩ := ih hnc a s fr rest kv hs hk
        refine ⟨{ fr1 with rdeps := pushDep fr1.rdeps ⟨.source (.src kv), s.epoch⟩, maxTu := max nd.tu fr1.maxTu }, ⟨?_, r1.id, ?_, ?_, ?_⟩⟩
        · simp only [evalE, r1.eq, hl]
          rw [regDep_cons { s with stack := fr1 :: rest } fr1 rest _ _ rfl]
        · intro k' hk'
          exact (depKeys_pushDep _ _ _ _).2 (Or.inr (r1.mono _ hk'))
        · intro hg
          exact frameGood_push s fr1 _ nd _ hl (r1.good hg)
        · intro σ' m' c' hag
          have h1 : evalPS c' P σ' m' k a = .ok kv :=
            r1.cov σ' m' c' (fun k' hk' => hag k' ((depKeys_pushDep _ _ _ _).2 (Or.inr hk')))
          have h2 := hag (.src kv) ((depKeys_pushDep _ _ _ _).2 (Or.inl rfl))
          simp only [keyObs, hl, Option.map] at h2
          simp only [evalPS, h1]
          cases hl' : alookup σ' (.src kv) with
          | none => simp [hl'] at h2
          | some nd' => simp [hl'] at h2; simp [h2]
  | sing i =>
    intro _ a s fr rest v hs h
    simp only [evalPS] at h
    cases hl : alookup s.srcs (.sing i) with
    | none => simp [hl] at h
    | some nd =>
      simp only [hl] at h; cases h
      refine ⟨{ fr with rdeps := pushDep fr.rdeps ⟨.source (.sing i), s.epoch⟩, maxTu := max nd.tu fr.maxTu }, ⟨?_, rfl, ?_, ?_, ?_⟩⟩
      · simp only [evalE, hl]; rw [regDep_cons s fr rest _ _ hs]
      · intro k' hk'; exact (depKeys_pushDep _ _ _ _).2 (Or.inr hk')
      · intro hg; exact frameGood_push s fr _ nd _ hl hg
      · intro σ' m' c' hag
        have h2 := hag (.sing i) ((depKeys_pushDep _ _ _ _).2 (Or.inl rfl))
        simp only [keyObs, hl, Option.map] at h2
        simp only [evalPS]
        cases hl' : alookup σ' (.sing i) with
        | none => simp [hl'] at h2
        | some nd' => simp [hl'] at h2; simp [h2]
  | trk m =>
    intro _ a s fr rest v hs h
    simp only [evalPS] at h
    cases hl : alookup s.srcs (.ctr m) with
    | none => simp [hl] at h
    | some nd =>
      simp only [hl] at h; cases h
      refine ⟨{ fr with rdeps := pushDep fr.rdeps ⟨.source (.ctr m), s.epoch⟩, maxTu := max nd.tu fr.maxTu }, ⟨?_, rfl, ?_, ?_, ?_⟩⟩
      · simp only [evalE, hl]; rw [regDep_cons s fr rest _ _ hs]
      · intro k' hk'; exact (depKeys_pushDep _ _ _ _).2 (Or.inr hk')
      · intro hg; exact frameGood_push s fr _ nd _ hl hg
      · intro σ' m' c' hag
        have h2 := hag (.ctr m) ((depKeys_pushDep _ _ _ _).2 (Or.inl rfl))
        simp only [keyObs, hl, Option.map] at h2
        simp only [evalPS]
        cases hl' : alookup σ' (.ctr m) with
        | none => simp [hl'] at h2
        | some nd' => simp [hl'] at h2; simp [h2]
  | call f e _ => intro hnc; simp [Expr.noCall] at hnc
  | add x y ihx ihy =>
    intro hnc a s fr rest v hs h
    simp only [Expr.noCall, Bool.and_eq_true] at hnc
    simp only [evalPS] at h
    cases hx : evalPS c P s.srcs s.maps x a with
    | panic p => simp [hx] at h
    | ok xv =>
      simp only [hx] at h
      cases hy : evalPS c P s.srcs s.maps y a with
      | panic p => simp [hy] at h
      | ok yv =>
        simp only [hy] at h; cases h
        obtain ⟨fr1, r1⟩ := ihx hnc.1 a s fr rest xv hs hx
        obtain ⟨fr2, r2⟩ := ihy hnc.2 a { s with stack := fr1 :: rest } fr1 rest yv rfl hy
        refine ⟨fr2, ⟨?_, r2.id.trans r1.id, fun k hk => r2.mono _ (r1.mono _ hk), fun hg => r2.good (r1.good hg), ?_⟩⟩
        · simp only [evalE, r1.eq, r2.eq]
        · intro σ' m' c' hag
          have h1 := r1.cov σ' m' c' (fun k hk => hag k (r2.mono _ hk))
          have h2 := r2.cov σ' m' c' hag
          simp only [evalPS, h1, h2]
  | eq x y ihx ihy =>
    intro hnc a s fr rest v hs h
    simp only [Expr.noCall, Bool.and_eq_true] at hnc
    simp only [evalPS] at h
    cases hx : evalPS c P s.srcs s.maps x a with
    | panic p => simp [hx] at h
    | ok xv =>
      simp only [hx] at h
      cases hy : evalPS c P s.srcs s.maps y a with
      | panic p => simp [hy] at h
      | ok yv =>
        simp only [hy] at h; cases h
        obtain ⟨fr1, r1⟩ := ihx hnc.1 a s fr rest xv hs hx
        obtain ⟨fr2, r2⟩ := ihy hnc.2 a { s with stack := fr1 :: rest } fr1 rest yv rfl hy
        refine ⟨fr2, ⟨?_, r2.id.trans r1.id, fun k hk => r2.mono _ (r1.mono _ hk), fun hg => r2.good (r1.good hg), ?_⟩⟩
        · simp only [evalE, r1.eq, r2.eq]
        · intro σ' m' c' hag
          have h1 := r1.cov σ' m' c' (fun k hk => hag k (r2.mono _ hk))
          have h2 := r2.cov σ' m' c' hag
          simp only [evalPS, h1, h2]
  | ite cnd t e ihc iht ihe =>
    intro hnc a s fr rest v hs h
    simp only [Expr.noCall, Bool.and_eq_true] at hnc
    simp only [evalPS] at h
    cases hcv : evalPS c P s.srcs s.maps cnd a with
    | panic p => simp [hcv] at h
    | ok cv =>
      simp only [hcv] at h
      obtain ⟨fr1, r1⟩ := ihc hnc.1.1 a s fr rest cv hs hcv
      by_cases hz : cv ≠ 0
      · rw [if_pos hz] at h
        obtain ⟨fr2, r2⟩ := iht hnc.1.2 a { s with stack := fr1 :: rest } fr1 rest v rfl h
        refine ⟨fr2, ⟨?_, r2.id.trans r1.id, fun k hk => r2.mono _ (r1.mono _ hk), fun hg => r2.good (r1.good hg), ?_⟩⟩
        · simp only [evalE, r1.eq]; rw [if_pos hz]; exact r2.eq
        · intro σ' m' c' hag
          have h1 := r1.cov σ' m' c' (fun k hk => hag k (r2.mono _ hk))
          have h2 := r2.cov σ' m' c' hag
          simp only [evalPS, h1]; rw [if_pos hz]; exact h2
      · rw [if_neg hz] at h
        obtain ⟨fr2, r2⟩ := ihe hnc.2 a { s with stack := fr1 :: rest } fr1 rest v rfl h
        refine ⟨fr2, ⟨?_, r2.id.trans r1.id, fun k hk => r2.mono _ (r1.mono _ hk), fun hg => r2.good (r1.good hg), ?_⟩⟩
        · simp only [evalE, r1.eq]; rw [if_neg hz]; exact r2.eq
        · intro σ' m' c' hag
          have h1 := r1.cov σ' m' c' (fun k hk => hag k (r2.mono _ hk))
          have h2 := r2.cov σ' m' c' hag
          simp only [evalPS, h1]; rw [if_neg hz]; exact h2
  | half x ih =>
    intro hnc a s fr rest v hs h
    simp only [Expr.noCall] at hnc
    simp only [evalPS] at h
    cases hx : evalPS c P s.srcs s.maps x a with
    | panic p => simp [hx] at h
    | ok xv =>
      simp only [hx] at h; cases h
      obtain ⟨fr1, r1⟩ := ih hnc a s fr rest xv hs hx
      refine ⟨fr1, ⟨?_, r1.id, r1.mono, r1.good, ?_⟩⟩
      · simp only [evalE, r1.eq]
      · intro σ' m' c' hag
        simp only [evalPS, r1.cov σ' m' c' hag]


/-! ## the invariant -/

def SrcOnly (deps : List Dep) : Prop := ∀ d, d ∈ deps → ∃ k, d.node = .source k

def DepsFresh (s : Storage) (deps : List Dep) : Prop :=
  ∀ d, d ∈ deps → ∀ k, d.node = .source k → ∃ nd, alookup s.srcs k = some nd ∧ nd.tu ≤ d.stamp

structure NodeOk (P : Prog) (s : Storage) (n : NodeId) (r : Rev) : Prop where
  tv_le : r.tv ≤ s.epoch
  srcOnly : SrcOnly r.deps
  stamps : ∀ d, d ∈ r.deps → d.stamp ≤ r.tv
  fresh_now : r.tv = s.epoch → DepsFresh s r.deps
  sound : DepsFresh s r.deps → ∀ σ' m' c', AgreeOn (depKeys r.deps) s.srcs s.maps σ' m' →
            evalPS c' P σ' m' (fnOf P n.fn).body n.arg = .ok r.val

structure Inv1 (P : Prog) (s : Storage) : Prop where
  stack : s.stack = []
  srcTu : ∀ k nd, alookup s.srcs k = some nd → nd.tu ≤ s.epoch
  nodes : ∀ n r, alookup s.derived n = some r → NodeOk P s n r

/-- `NodeOk` only looks at the epoch, the sources and the tracked fields -/
theorem NodeOk.congr {P : Prog} {s s' : Storage} {n : NodeId} {r : Rev}
    (he : s'.epoch = s.epoch) (hs : s'.srcs = s.srcs) (hm : s'.maps = s.maps) (h : NodeOk P s n r) :
    NodeOk P s' n r := by
  refine ⟨by rw [he]; exact h.tv_le, h.srcOnly, h.stamps, ?_, ?_⟩
  · intro ht; have := h.fresh_now (by rw [← he]; exact ht)
    intro d hd k hk; rw [hs]; exact this d hd k hk
  · intro hf σ' m' c' hag
    refine h.sound ?_ σ' m' c' ?_
    · intro d hd k hk; have := hf d hd k hk; rw [hs] at this; exact this
    · intro k hk; have := hag k hk; rw [hs, hm] at this; exact this

theorem Inv1.congr {P : Prog} {s s' : Storage} (hst : s'.stack = []) (he : s'.epoch = s.epoch)
    (hs : s'.srcs = s.srcs) (hm : s'.maps = s.maps) (hd : s'.derived = s.derived) (h : Inv1 P s) : Inv1 P s' :=
  ⟨hst, by intro k nd hk; rw [he]; rw [hs] at hk; exact h.srcTu k nd hk,
   by intro n r hn; rw [hd] at hn; exact (h.nodes n r hn).congr he hs hm⟩

/-! ## one execution -/

theorem anyDep_srcOnly (ex : Storage → NodeId → Storage × Res Bool) :
    ∀ (deps : List Dep) (s : Storage), SrcOnly deps → (∀ d, d ∈ deps → d.stamp < s.epoch) →
      ∃ b, anyDep (depChanged ex) deps s = (s, .ok b) ∧ (b = false → DepsFresh s deps) := by
  intro deps
  induction deps with
  | nil => intro s _ _; exact ⟨false, rfl, fun _ d hd => by cases hd⟩
  | cons d ds ih =>
    intro s hso hst
    obtain ⟨k, hk⟩ := hso d List.mem_cons_self
    have hne : d.stamp ≠ s.epoch := Nat.ne_of_lt (hst d List.mem_cons_self)
    obtain ⟨b, hb, hfb⟩ := ih s (fun d' hd' => hso d' (List.mem_cons_of_mem _ hd'))
      (fun d' hd' => hst d' (List.mem_cons_of_mem _ hd'))
    simp only [anyDep, if_neg hne, depChanged, hk]
    cases hl : alookup s.srcs k with
    | none => exact ⟨true, by simp, by intro h; cases h⟩
    | some nd =>
      by_cases hgt : nd.tu > d.stamp
      · exact ⟨true, by simp [hgt], by intro h; cases h⟩
      · refine ⟨b, by simp [hgt, hb], ?_⟩
        intro hbf d' hd' k' hk'
        rcases List.mem_cons.1 hd' with rfl | hd''
        · rw [hk] at hk'; cases hk'; exact ⟨nd, hl, Nat.le_of_not_gt hgt⟩
        · exact hfb hbf d' hd'' k' hk'

/-- a node just executed (its frame started empty) satisfies `NodeOk` -/
theorem nodeOk_fresh_exec {P : Prog} {s : Storage} {id : NodeId} {call : Storage → NodeId → Storage × Res Nat}
    {fr' : Frame} {v tu : Nat} {rest : List Frame} {s0 : Storage}
    (he : s0.epoch = s.epoch) (hs : s0.srcs = s.srcs) (hm : s0.maps = s.maps)
    (hsrcTu : ∀ k nd, alookup s.srcs k = some nd → nd.tu ≤ s.epoch)
    (r : FlatRes call P (fnOf P id.fn).body id.arg s0 ⟨id, [], 1⟩ rest v fr') :
    NodeOk P s id (Rev.mk v tu s.epoch fr'.rdeps.reverse) := by
  have hg : FrameGood s0 fr' := r.good (fun d hd => by cases hd)
  refine ⟨Nat.le_refl _, ?_, ?_, ?_, ?_⟩
  · intro d hd
    obtain ⟨_, k, nd, hk, _⟩ := hg d (List.mem_reverse.1 hd)
    exact ⟨k, hk⟩
  · intro d hd
    have := (hg d (List.mem_reverse.1 hd)).1
    show d.stamp ≤ s.epoch
    rw [this, he]; exact Nat.le_refl _
  · intro _ d hd k hk
    obtain ⟨hst, k', nd, hk', hl⟩ := hg d (List.mem_reverse.1 hd)
    rw [hk] at hk'; cases hk'
    rw [hs] at hl
    exact ⟨nd, hl, by rw [hst, he]; exact hsrcTu _ _ hl⟩
  · intro _ σ' m' c' hag
    refine r.cov σ' m' c' ?_
    intro k hk
    have := hag k ((depKeys_reverse _ _).2 hk)
    rw [hs, hm]; exact this

end IsoVerif.Pico
