/-
C01, stage 2b/3: what the evaluation of a body does to the storage and to the frame of the node
being executed, given a specification of the memoised call (`SpecF`).
-/
import IsoVerif.Lemmas.PicoInc1

namespace IsoVerif.Pico

/-- what the frame and the storage know about a read made under the current sources -/
def ReadOk (s : Storage) (fr : Frame) : Read → Prop
  | .src k o =>
    o = keyObs s.srcs s.maps k ∧
    if o.1.isSome then ∃ nd, alookup s.srcs k = some nd ∧ nd.tu ≤ fr.maxTu
    else o = (none, 0) ∧ s.epoch ≤ fr.maxTu
  | .node q w =>
    ∃ rq, alookup s.derived q = some rq ∧ rq.val = w ∧ rq.tv = s.epoch ∧ rq.tu ≤ fr.maxTu

theorem ReadOk.mono {bp : NodeId → Prop} {s s' : Storage} {fr fr' : Frame} {rd : Read} (he : Evolves bp s s') (hm : fr.maxTu ≤ fr'.maxTu)
    (h : ReadOk s fr rd) : ReadOk s' fr' rd := by
  cases rd with
  | src k o =>
    simp only [ReadOk] at h ⊢
    rw [he.srcs, he.maps, he.epoch]
    refine ⟨h.1, ?_⟩
    by_cases ho : o.1.isSome = true
    · rw [if_pos ho] at h ⊢
      obtain ⟨nd, h1, h2⟩ := h.2
      exact ⟨nd, h1, Nat.le_trans h2 hm⟩
    · rw [if_neg ho] at h ⊢
      exact ⟨h.2.1, Nat.le_trans h.2.2 hm⟩
  | node q w =>
    simp only [ReadOk] at h ⊢
    obtain ⟨rq, hq, hv, htv, htu⟩ := h
    obtain ⟨rq', hq', hc⟩ := he.node q rq hq
    rcases hc with rfl | ⟨_, hlt, _, _⟩
    · exact ⟨rq', hq', hv, by rw [he.epoch]; exact htv, Nat.le_trans htu hm⟩
    · omega

/-- the specification of a memoised call made by a body (fuel `f`) -/
def SpecF (P : Prog) (rank : Nat → Nat) (f : Nat) : Prop :=
  ∀ (s : Storage) (B : List NodeId) (id : NodeId) (v : Nat) (R : List Read) (fr : Frame) (rest : List Frame),
    INV P s B → (∀ b, b ∈ B → rank id.fn < rank b.fn) → rank id.fn < f → s.stack = fr :: rest →
    BigN P s.srcs s.maps id v R →
    ∃ s' b tu r', execF (upToDate f P) s id = (s', .ok b) ∧ INV P s' B ∧
      Evolves (fun q => rank q.fn ≤ rank id.fn) s s' ∧
      s'.stack = { fr with rdeps := pushDep fr.rdeps ⟨.derived id, s.epoch⟩, maxTu := max tu fr.maxTu } :: rest ∧
      alookup s'.derived id = some r' ∧ r'.val = v ∧ r'.tv = s.epoch ∧ r'.tu ≤ tu ∧ tu ≤ s.epoch

/-- result of evaluating an expression inside a frame; nodes created on the way satisfy `bp` -/
structure EvalRes (P : Prog) (B : List NodeId) (bp : NodeId → Prop) (s : Storage) (fr : Frame) (rest : List Frame)
    (R : List Read) (s' : Storage) (fr' : Frame) : Prop where
  inv : INV P s' B
  evolves : Evolves bp s s'
  stack : s'.stack = fr' :: rest
  id : fr'.id = fr.id
  maxLo : fr.maxTu ≤ fr'.maxTu
  maxHi : fr'.maxTu ≤ max fr.maxTu s.epoch
  mono : ∀ p : DepNode → Prop, AllN p fr'.rdeps → AllN p fr.rdeps
  keep : ∀ n, (∃ d, d ∈ fr.rdeps ∧ d.node = n) → ∃ d, d ∈ fr'.rdeps ∧ d.node = n
  stamps : (∀ d, d ∈ fr.rdeps → d.stamp = s.epoch) → ∀ d, d ∈ fr'.rdeps → d.stamp = s.epoch
  reads : ∀ rd, rd ∈ R → ReadOk s' fr' rd ∧ ∃ d, d ∈ fr'.rdeps ∧ d.node = rd.kind
  exact : ∀ d, d ∈ fr'.rdeps → (∃ d0, d0 ∈ fr.rdeps ∧ d0.node = d.node) ∨ ∃ rd, rd ∈ R ∧ rd.kind = d.node
  order : fr'.rdeps.reverse.map (·.node) = pushAll (fr.rdeps.reverse.map (·.node)) (R.map Read.kind)

theorem exists_pushDep (rdeps : List Dep) (n : DepNode) (e : Nat) (x : DepNode) :
    (∃ d, d ∈ pushDep rdeps ⟨n, e⟩ ∧ d.node = x) ↔ x = n ∨ ∃ d, d ∈ rdeps ∧ d.node = x := by
  cases rdeps with
  | nil => simp [pushDep]; exact ⟨fun h => h.symm, fun h => h.symm⟩
  | cons l rest =>
    by_cases h : l.node = n
    · simp only [pushDep, h, if_true, List.mem_cons]
      constructor
      · rintro ⟨d, rfl | hd, hx⟩
        · exact Or.inl hx.symm
        · exact Or.inr ⟨d, Or.inr hd, hx⟩
      · rintro (rfl | ⟨d, rfl | hd, hx⟩)
        · exact ⟨_, Or.inl rfl, rfl⟩
        · exact ⟨_, Or.inl rfl, by rw [← hx, h]⟩
        · exact ⟨d, Or.inr hd, hx⟩
    · simp only [pushDep, h, if_false, List.mem_cons]
      constructor
      · rintro ⟨d, rfl | hd, hx⟩
        · exact Or.inl hx.symm
        · exact Or.inr ⟨d, hd, hx⟩
      · rintro (rfl | ⟨d, hd, hx⟩)
        · exact ⟨_, Or.inl rfl, rfl⟩
        · exact ⟨d, Or.inr hd, hx⟩

/-- one dependency pushed onto the top frame: bookkeeping -/
theorem evalRes_push {P : Prog} {B : List NodeId} {bp : NodeId → Prop} {s : Storage} {fr : Frame} {rest : List Frame}
    (hinv : INV P s B) (hs : s.stack = fr :: rest) (n : DepNode) (tu : Nat) (rd : Read) (hkind : rd.kind = n)
    (htu : tu ≤ s.epoch)
    (hok : ReadOk s { fr with rdeps := pushDep fr.rdeps ⟨n, s.epoch⟩, maxTu := max tu fr.maxTu } rd) :
    EvalRes P B bp s fr rest [rd] (regDep s n tu)
      { fr with rdeps := pushDep fr.rdeps ⟨n, s.epoch⟩, maxTu := max tu fr.maxTu } := by
  rw [regDep_cons s fr rest n tu hs]
  have hstk : ∀ fr', fr' ∈ ({ fr with rdeps := pushDep fr.rdeps ⟨n, s.epoch⟩, maxTu := max tu fr.maxTu } :: rest) → fr'.id ∈ B := by
    intro fr' hfr'
    rcases List.mem_cons.1 hfr' with rfl | h
    · exact hinv.stackB fr (by rw [hs]; exact List.mem_cons_self)
    · exact hinv.stackB fr' (by rw [hs]; exact List.mem_cons_of_mem _ h)
  refine ⟨hinv.congr rfl rfl rfl rfl hstk,
    ⟨rfl, rfl, rfl, fun q r h => ⟨r, h, Or.inl rfl⟩, fun q hq hq' => by simp [hq] at hq', ⟨[], rfl, fun _ h => by cases h⟩⟩, rfl, rfl, Nat.le_max_right _ _,
    ?_, ?_, ?_, ?_, ?_, ?_, ?_⟩
  · show max tu fr.maxTu ≤ max fr.maxTu s.epoch; omega
  · intro p hp; exact ((allN_pushDep p _ _ _).1 hp).2
  · intro x hx; exact (exists_pushDep _ _ _ _).2 (Or.inr hx)
  · intro hst; exact stamps_pushDep _ _ _ hst
  · intro rd' hrd'
    rw [List.mem_singleton.1 hrd']
    refine ⟨?_, (exists_pushDep _ _ _ _).2 (Or.inl hkind)⟩
    exact hok.mono (Evolves.refl (fun _ => True) _) (Nat.le_refl _)
  · intro d hd
    rcases (exists_pushDep fr.rdeps n s.epoch d.node).1 ⟨d, hd, rfl⟩ with h | h
    · exact Or.inr ⟨rd, List.mem_singleton.2 rfl, by rw [hkind, h]⟩
    · exact Or.inl h
  · show (pushDep fr.rdeps ⟨n, s.epoch⟩).reverse.map (·.node) = _
    rw [pushDep_nodes]; simp [pushAll, hkind]

theorem EvalRes.refl {P : Prog} {B : List NodeId} {bp : NodeId → Prop} {s : Storage} {fr : Frame} {rest : List Frame}
    (hinv : INV P s B) (hs : s.stack = fr :: rest) : EvalRes P B bp s fr rest [] s fr :=
  ⟨hinv, Evolves.refl bp s, hs, rfl, Nat.le_refl _, Nat.le_max_left _ _, fun _ h => h, fun _ h => h, fun h => h,
   fun rd h => (by cases h), fun d hd => Or.inl ⟨d, hd, rfl⟩, by simp [pushAll]⟩

theorem EvalRes.trans {P : Prog} {B : List NodeId} {bp : NodeId → Prop} {s s1 s2 : Storage} {fr fr1 fr2 : Frame} {rest : List Frame}
    {R1 R2 : List Read} (h1 : EvalRes P B bp s fr rest R1 s1 fr1) (h2 : EvalRes P B bp s1 fr1 rest R2 s2 fr2) :
    EvalRes P B bp s fr rest (R1 ++ R2) s2 fr2 := by
  have he : s1.epoch = s.epoch := h1.evolves.epoch
  refine ⟨h2.inv, h1.evolves.trans h2.evolves, h2.stack, h2.id.trans h1.id, Nat.le_trans h1.maxLo h2.maxLo, ?_,
    fun p hp => h1.mono p (h2.mono p hp), fun n hn => h2.keep n (h1.keep n hn), ?_, ?_, ?_, ?_⟩
  · have a := h1.maxHi; have b := h2.maxHi; rw [he] at b; omega
  · intro hst; have := h2.stamps (by rw [he]; exact h1.stamps hst); rw [he] at this; exact this
  · intro rd hrd
    rcases List.mem_append.1 hrd with h | h
    · obtain ⟨a, d, hd, hk⟩ := h1.reads rd h
      exact ⟨a.mono h2.evolves h2.maxLo, h2.keep _ ⟨d, hd, hk⟩⟩
    · exact h2.reads rd h
  · intro d hd
    rcases h2.exact d hd with ⟨d0, hd0, hk⟩ | ⟨rd, hrd, hk⟩
    · rcases h1.exact d0 hd0 with ⟨d1, hd1, hk1⟩ | ⟨rd, hrd, hk1⟩
      · exact Or.inl ⟨d1, hd1, hk1.trans hk⟩
      · exact Or.inr ⟨rd, List.mem_append_left _ hrd, hk1.trans hk⟩
    · exact Or.inr ⟨rd, List.mem_append_right _ hrd, hk⟩
  · rw [h2.order, h1.order, List.map_append, pushAll_append]

theorem keyObs_isSome {σ : Srcs} {m : Maps} {k : Key} {nd : SrcNode} (h : alookup σ k = some nd) :
    (keyObs σ m k).1.isSome = true := by simp [keyObs, h]

theorem keyObs_none_nonctr {σ : Srcs} {m : Maps} {k : Key} (h : alookup σ k = none) (hk : ∀ i, k ≠ .ctr i) :
    keyObs σ m k = (none, 0) := by
  unfold keyObs; rw [h]
  cases k with
  | src n => rfl
  | sing i => rfl
  | ctr i => exact absurd rfl (hk i)

/-- a present source read inside a frame -/
theorem evalRes_source {P : Prog} {B : List NodeId} {bp : NodeId → Prop} {s : Storage} {fr : Frame} {rest : List Frame}
    (hinv : INV P s B) (hs : s.stack = fr :: rest) (k : Key) (nd : SrcNode) (hl : alookup s.srcs k = some nd) :
    EvalRes P B bp s fr rest [.src k (keyObs s.srcs s.maps k)] (regDep s (.source k) nd.tu)
      { fr with rdeps := pushDep fr.rdeps ⟨.source k, s.epoch⟩, maxTu := max nd.tu fr.maxTu } := by
  refine evalRes_push hinv hs (.source k) nd.tu _ ?_ (hinv.srcTu k nd hl) ?_
  · simp [Read.kind, keyObs_isSome hl]
  · simp only [ReadOk, keyObs_isSome hl, if_true]
    exact ⟨trivial, nd, hl, Nat.le_max_left _ _⟩

/-- an absent source read inside a frame -/
theorem evalRes_absent {P : Prog} {B : List NodeId} {bp : NodeId → Prop} {s : Storage} {fr : Frame} {rest : List Frame}
    (hinv : INV P s B) (hs : s.stack = fr :: rest) (k : Key) (hl : alookup s.srcs k = none)
    (ho : keyObs s.srcs s.maps k = (none, 0)) :
    EvalRes P B bp s fr rest [.src k (keyObs s.srcs s.maps k)] (regDep s (.absent k) s.epoch)
      { fr with rdeps := pushDep fr.rdeps ⟨.absent k, s.epoch⟩, maxTu := max s.epoch fr.maxTu } := by
  refine evalRes_push hinv hs (.absent k) s.epoch _ ?_ (Nat.le_refl _) ?_
  · simp [Read.kind, ho]
  · simp only [ReadOk, ho]
    exact ⟨trivial, by simp, Nat.le_max_left _ _⟩

theorem keyObs_ctr_absent {s : Storage} (hmi : MapsInit s) (i : Nat) (hl : alookup s.srcs (.ctr i) = none) :
    keyObs s.srcs s.maps (.ctr i) = (none, 0) := by
  unfold keyObs; rw [hl]; simp [hmi i hl]

/-- bodies under the invariant -/
theorem evalE_inc {P : Prog} {rank : Nat → Nat} {f K : Nat} {B : List NodeId} (hF : SpecF P rank f)
    {σ : Srcs} {m : Maps} {e : Expr} {a v : Nat} {R : List Read} (h : BigE P σ m e a v R) :
    ∀ (s : Storage) (fr : Frame) (rest : List Frame), s.srcs = σ → s.maps = m →
      (∀ g, g ∈ e.calls → rank g < f ∧ rank g < K ∧ ∀ b, b ∈ B → rank g < rank b.fn) →
      INV P s B → s.stack = fr :: rest →
      ∃ s' fr', evalE (callVia (execF (upToDate f P))) P e a s = (s', .ok v) ∧
        EvalRes P B (fun q => rank q.fn < K) s fr rest R s' fr' := by
  induction h with
  | lit n a => intro s fr rest _ _ _ hinv hs; exact ⟨s, fr, rfl, EvalRes.refl hinv hs⟩
  | param a => intro s fr rest _ _ _ hinv hs; exact ⟨s, fr, rfl, EvalRes.refl hinv hs⟩
  | @src k a kv Rk nd hk hl ih =>
    intro s fr rest hσ hm hg hinv hs
    obtain ⟨s1, fr1, he1, r1⟩ := ih s fr rest hσ hm (fun g hgm => hg g hgm) hinv hs
    have hσ1 : s1.srcs = σ := r1.evolves.srcs.trans hσ
    have hm1 : s1.maps = m := r1.evolves.maps.trans hm
    have hl1 : alookup s1.srcs (.src kv) = some nd := by rw [hσ1]; exact hl
    have r2 := evalRes_source (bp := fun q => rank q.fn < K) r1.inv r1.stack (.src kv) nd hl1
    have r12 := r1.trans r2
    rw [hσ1, hm1] at r12
    exact ⟨_, _, by simp only [evalE, he1, hl1], r12⟩
  | @sing i a nd hl =>
    intro s fr rest hσ hm _ hinv hs
    have hl1 : alookup s.srcs (.sing i) = some nd := by rw [hσ]; exact hl
    have r2 := evalRes_source (bp := fun q => rank q.fn < K) hinv hs (.sing i) nd hl1
    rw [hσ, hm] at r2
    exact ⟨_, _, by simp only [evalE, hl1], r2⟩
  | @singAbs i a hl =>
    intro s fr rest hσ hm _ hinv hs
    have hl1 : alookup s.srcs (.sing i) = none := by rw [hσ]; exact hl
    have r2 := evalRes_absent (bp := fun q => rank q.fn < K) hinv hs (.sing i) hl1 (keyObs_none_nonctr hl1 (fun i e => by cases e))
    rw [hσ, hm] at r2
    exact ⟨_, _, by simp only [evalE, hl1], r2⟩
  | @trk i a =>
    intro s fr rest hσ hm _ hinv hs
    cases hl1 : alookup s.srcs (.ctr i) with
    | some nd =>
      have r2 := evalRes_source (bp := fun q => rank q.fn < K) hinv hs (.ctr i) nd hl1
      rw [hσ, hm] at r2
      exact ⟨_, _, by simp only [evalE, hl1, hm], r2⟩
    | none =>
      have r2 := evalRes_absent (bp := fun q => rank q.fn < K) hinv hs (.ctr i) hl1 (keyObs_ctr_absent hinv.mapsInit i hl1)
      rw [hσ, hm] at r2
      exact ⟨_, _, by simp only [evalE, hl1, hm], r2⟩
  | @call g e a av v Re Rb he hb ihe _ =>
    intro s fr rest hσ hm hg hinv hs
    obtain ⟨s1, fr1, he1, r1⟩ := ihe s fr rest hσ hm (fun g' hgm => hg g' (List.mem_cons_of_mem _ hgm)) hinv hs
    have hσ1 : s1.srcs = σ := r1.evolves.srcs.trans hσ
    have hm1 : s1.maps = m := r1.evolves.maps.trans hm
    have hgg := hg g List.mem_cons_self
    have hb1 : BigN P s1.srcs s1.maps (nodeOf P g av) v Rb := by rw [hσ1, hm1]; exact hb
    obtain ⟨s2, b, tu, r', hex, hinv2, hev2, hst2, hl2, hval, htv, htu, htuE⟩ :=
      hF s1 B (nodeOf P g av) v Rb fr1 rest r1.inv (fun b hb => hgg.2.2 b hb) hgg.1 r1.stack hb1
    have he : s1.epoch = s.epoch := r1.evolves.epoch
    refine ⟨s2, { fr1 with rdeps := pushDep fr1.rdeps ⟨.derived (nodeOf P g av), s1.epoch⟩, maxTu := max tu fr1.maxTu }, ?_, ?_⟩
    · simp only [evalE, he1, callVia, hex, hl2, hval]
    · refine r1.trans ⟨hinv2, hev2.mono (fun q hq => Nat.lt_of_le_of_lt hq hgg.2.1), hst2, rfl,
        Nat.le_max_right _ _, ?_, ?_, ?_, ?_, ?_, ?_, ?_⟩
      · show max tu fr1.maxTu ≤ max fr1.maxTu s1.epoch; omega
      · intro p hp; exact ((allN_pushDep p _ _ _).1 hp).2
      · intro x hx; exact (exists_pushDep _ _ _ _).2 (Or.inr hx)
      · intro hst; exact stamps_pushDep _ _ _ hst
      · intro rd hrd
        rw [List.mem_singleton.1 hrd]
        refine ⟨?_, (exists_pushDep _ _ _ _).2 (Or.inl rfl)⟩
        simp only [ReadOk]
        exact ⟨r', hl2, hval, by rw [hev2.epoch]; exact htv, Nat.le_trans htu (Nat.le_max_left _ _)⟩
      · intro d hd
        rcases (exists_pushDep fr1.rdeps _ s1.epoch d.node).1 ⟨d, hd, rfl⟩ with h | h
        · exact Or.inr ⟨.node (nodeOf P g av) v, List.mem_singleton.2 rfl, by rw [h]; rfl⟩
        · exact Or.inl h
      · show (pushDep fr1.rdeps ⟨.derived (nodeOf P g av), s1.epoch⟩).reverse.map (·.node) = _
        rw [pushDep_nodes]; simp [pushAll, Read.kind]
  | @add x y a xv yv Rx Ry hx hy ihx ihy =>
    intro s fr rest hσ hm hg hinv hs
    obtain ⟨s1, fr1, he1, r1⟩ := ihx s fr rest hσ hm (fun g hgm => hg g (List.mem_append_left _ hgm)) hinv hs
    obtain ⟨s2, fr2, he2, r2⟩ := ihy s1 fr1 rest (r1.evolves.srcs.trans hσ) (r1.evolves.maps.trans hm)
      (fun g hgm => hg g (List.mem_append_right _ hgm)) r1.inv r1.stack
    exact ⟨s2, fr2, by simp only [evalE, he1, he2], r1.trans r2⟩
  | @eq x y a xv yv Rx Ry hx hy ihx ihy =>
    intro s fr rest hσ hm hg hinv hs
    obtain ⟨s1, fr1, he1, r1⟩ := ihx s fr rest hσ hm (fun g hgm => hg g (List.mem_append_left _ hgm)) hinv hs
    obtain ⟨s2, fr2, he2, r2⟩ := ihy s1 fr1 rest (r1.evolves.srcs.trans hσ) (r1.evolves.maps.trans hm)
      (fun g hgm => hg g (List.mem_append_right _ hgm)) r1.inv r1.stack
    exact ⟨s2, fr2, by simp only [evalE, he1, he2], r1.trans r2⟩
  | @iteT c t e a cv v Rc Rt hc hz ht ihc iht =>
    intro s fr rest hσ hm hg hinv hs
    obtain ⟨s1, fr1, he1, r1⟩ := ihc s fr rest hσ hm
      (fun g hgm => hg g (List.mem_append_left _ (List.mem_append_left _ hgm))) hinv hs
    obtain ⟨s2, fr2, he2, r2⟩ := iht s1 fr1 rest (r1.evolves.srcs.trans hσ) (r1.evolves.maps.trans hm)
      (fun g hgm => hg g (List.mem_append_left _ (List.mem_append_right _ hgm))) r1.inv r1.stack
    exact ⟨s2, fr2, by simp only [evalE, he1]; rw [if_pos hz]; exact he2, r1.trans r2⟩
  | @iteF c t e a v Rc Re hc he ihc ihe =>
    intro s fr rest hσ hm hg hinv hs
    obtain ⟨s1, fr1, he1, r1⟩ := ihc s fr rest hσ hm
      (fun g hgm => hg g (List.mem_append_left _ (List.mem_append_left _ hgm))) hinv hs
    obtain ⟨s2, fr2, he2, r2⟩ := ihe s1 fr1 rest (r1.evolves.srcs.trans hσ) (r1.evolves.maps.trans hm)
      (fun g hgm => hg g (List.mem_append_right _ hgm)) r1.inv r1.stack
    exact ⟨s2, fr2, by simp only [evalE, he1]; rw [if_neg (by simp)]; exact he2, r1.trans r2⟩
  | @half x a xv Rx hx ih =>
    intro s fr rest hσ hm hg hinv hs
    obtain ⟨s1, fr1, he1, r1⟩ := ih s fr rest hσ hm (fun g hgm => hg g hgm) hinv hs
    exact ⟨s1, fr1, by simp only [evalE, he1], r1⟩

end IsoVerif.Pico
