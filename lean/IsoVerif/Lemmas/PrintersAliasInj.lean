/-
Lemma for C12: injectivity of the alias encoding (`aliasT`) on the tight argument class.

Architecture (string level, no tokenisation): every piece of the encoding is an alphanumeric run
("atom") followed by a continuation that does not start with an alphanumeric char, so
`atom_split` (`x ++ r1 = y ++ r2 → x = y ∧ r1 = r2`) peels the pieces off one by one.
* `chunk_split` / `tail_split` (mutual, structural on `Value`): value chunks are prefix-free with
  respect to "good" continuations (`GoodCont`: not starting with an alphanumeric char nor with
  `__x`); inside an object the terminator `_c` and a next field `_k__…` are told apart by `hdU2`.
  An object chunk is `o` followed by `tailStr fields` (`obj_chunk`).
* `topStr_split`: top-level strings (`isTopStr`) followed by the end or `____`.
* `top_split`, `args_split`: the argument list; then `aliasT_injective`.
-/
import IsoVerif.Model.Core.Alias
import IsoVerif.Lemmas.PrintersAliasInjBase

namespace IsoVerif.Core
namespace AliasInj

/-- continuation after a chunk: not an alphanumeric char, and not `__x` -/
def GoodCont (r : Str) : Prop := hdAl r = false ∧ hdU2 r = false

theorem alnum_ne_us {c : Nat} (h : isAlnum c = true) : (c == 95) = false := by
  cases hc : c == 95 with
  | false => rfl
  | true =>
    rw [beq_iff_eq] at hc
    subst hc
    exact absurd h (by decide)

theorem topCont_good {r : Str} (h : TopCont r) : GoodCont r := by
  rcases h with h | ⟨t, h⟩
  · subst h; exact ⟨rfl, rfl⟩
  · subst h; exact ⟨rfl, rfl⟩

theorem good_us_al {c : Nat} {t : Str} (h : isAlnum c = true) : GoodCont (95 :: c :: t) := by
  refine ⟨rfl, ?_⟩
  simp only [hdU2, alnum_ne_us h, Bool.and_false, Bool.false_and]

theorem head_ne {a b : Nat} {s t : Str} (hne : a ≠ b) (h : a :: s = b :: t) : False :=
  hne (List.cons.inj h).1

theorem chunk_head : ∀ (v : Value), v.tightInner = true →
    ∃ c t, aliasChunkT v = c :: t ∧ isAlnum c = true
  | .var n, _ => ⟨118, 95 :: n, by simp only [aliasChunkT, List.cons_append, List.nil_append], by decide⟩
  | .int i, _ => ⟨108, 95 :: showInt i, by simp only [aliasChunkT, List.cons_append, List.nil_append], by decide⟩
  | .bool b, _ => ⟨108, 95 :: showBool b, by simp only [aliasChunkT, List.cons_append, List.nil_append], by decide⟩
  | .str s, _ => ⟨115, 95 :: collapseStr s, by simp only [aliasChunkT, List.cons_append, List.nil_append], by decide⟩
  | .float s, h => by simp [Value.tightInner] at h
  | .null, _ => ⟨108, [95, 110, 117, 108, 108], by simp only [aliasChunkT], by decide⟩
  | .enum e, _ => ⟨101, 95 :: e, by simp only [aliasChunkT, List.cons_append, List.nil_append], by decide⟩
  | .list l, h => by simp [Value.tightInner] at h
  | .obj fs, _ => ⟨111, 95 :: (joinStr cs!"_" (aliasFieldsT fs) ++ cs!"_c"), by simp only [aliasChunkT, List.cons_append, List.nil_append], by decide⟩

theorem tail_head (fs : List (Str × Value)) (h : Value.tightFields fs = true) :
    ∃ c t, tailStr fs = 95 :: c :: t ∧ isAlnum c = true := by
  cases fs with
  | nil => exact ⟨99, [], rfl, by decide⟩
  | cons f rest =>
    obtain ⟨k, v⟩ := f
    simp only [Value.tightFields, Bool.and_eq_true] at h
    obtain ⟨c, t, hk, hc⟩ := isAtom_cons h.1.1
    subst hk
    exact ⟨c, t ++ cs!"__" ++ aliasChunkT v ++ tailStr rest,
      by simp only [tailStr, List.cons_append, List.nil_append], hc⟩

theorem good_tail (fs : List (Str × Value)) (r : Str) (h : Value.tightFields fs = true) :
    GoodCont (tailStr fs ++ r) := by
  obtain ⟨c, t, e, hc⟩ := tail_head fs h
  rw [e]
  exact good_us_al hc

theorem tail_nil_cons {k : Str} {v : Value} {rest : List (Str × Value)} {r1 r2 : Str}
    (g1 : GoodCont r1) (hk : isAtom k = true) (hv : v.tightInner = true)
    (h : tailStr [] ++ r1 = tailStr ((k, v) :: rest) ++ r2) : False := by
  simp only [tailStr, List.append_assoc, List.cons_append, List.nil_append, List.cons.injEq,
    true_and] at h
  have := atom_split [99] k r1 _ (by decide) hk g1.1 rfl h
  obtain ⟨c, t, e, hc⟩ := chunk_head v hv
  have g := g1.2
  rw [this.2, e] at g
  simp only [hdU2, List.cons_append, hdAl, hc] at g
  exact absurd g (by decide)

theorem int_chunk {i : Int} (h : Value.tightInner (.int i) = true) :
    ∃ n : Nat, i = Int.ofNat n ∧ aliasChunkT (.int i) = cs!"l_" ++ showNat n := by
  cases i with
  | ofNat n => exact ⟨n, rfl, by simp only [aliasChunkT, showInt]⟩
  | negSucc n =>
    simp only [Value.tightInner, decide_eq_true_eq] at h
    have := Int.negSucc_lt_zero n
    omega

theorem showBool_atom (b : Bool) : isAtom (showBool b) = true := by
  cases b <;> decide

theorem l_split {x y r1 r2 : Str} (hx : isAtom x = true) (hy : isAtom y = true)
    (g1 : GoodCont r1) (g2 : GoodCont r2) (h : cs!"l_" ++ x ++ r1 = cs!"l_" ++ y ++ r2) :
    x = y ∧ r1 = r2 := by
  simp only [List.cons_append, List.nil_append, List.cons.injEq, true_and] at h
  exact atom_split x y r1 r2 hx hy g1.1 g2.1 h

theorem showNat_ne_of_not_digits {n : Nat} {s : Str} (hs : s.all isDigit = false)
    (h : showNat n = s) : False := by
  have := showNat_digits n
  rw [h, hs] at this
  cases this


theorem showBool_inj {a b : Bool} (h : showBool a = showBool b) : a = b := by
  cases a <;> cases b <;> first | rfl | exact absurd h (by decide)

theorem showBool_ne_null (b : Bool) : showBool b ≠ cs!"null" := by
  cases b <;> decide

set_option hygiene false in
local macro "mism" : tactic =>
  `(tactic| first
    | (exfalso; simp [Value.tightInner] at hw; done)
    | (exfalso; simp only [aliasChunkT, List.cons_append, List.nil_append] at h
       exact head_ne (by decide) h))

mutual
theorem chunk_split : ∀ (v w : Value) (r1 r2 : Str), v.tightInner = true → w.tightInner = true →
    GoodCont r1 → GoodCont r2 → aliasChunkT v ++ r1 = aliasChunkT w ++ r2 → v = w ∧ r1 = r2
  | .var n, w, r1, r2, hv, hw, g1, g2, h => by
    cases w
    case var m =>
      simp only [Value.tightInner] at hv hw
      simp only [aliasChunkT, List.cons_append, List.nil_append, List.cons.injEq, true_and] at h
      obtain ⟨e1, e2⟩ := atom_split n m r1 r2 hv hw g1.1 g2.1 h
      exact ⟨by rw [e1], e2⟩
    all_goals mism
  | .enum n, w, r1, r2, hv, hw, g1, g2, h => by
    cases w
    case enum m =>
      simp only [Value.tightInner] at hv hw
      simp only [aliasChunkT, List.cons_append, List.nil_append, List.cons.injEq, true_and] at h
      obtain ⟨e1, e2⟩ := atom_split n m r1 r2 hv hw g1.1 g2.1 h
      exact ⟨by rw [e1], e2⟩
    all_goals mism
  | .str n, w, r1, r2, hv, hw, g1, g2, h => by
    cases w
    case str m =>
      simp only [Value.tightInner] at hv hw
      simp only [aliasChunkT, collapse_atom hv, collapse_atom hw, List.cons_append, List.nil_append,
        List.cons.injEq, true_and] at h
      obtain ⟨e1, e2⟩ := atom_split n m r1 r2 hv hw g1.1 g2.1 h
      exact ⟨by rw [e1], e2⟩
    all_goals mism
  | .float _, w, r1, r2, hv, hw, g1, g2, h => by simp [Value.tightInner] at hv
  | .list _, w, r1, r2, hv, hw, g1, g2, h => by simp [Value.tightInner] at hv
  | .int i, w, r1, r2, hv, hw, g1, g2, h => by
    obtain ⟨n, hn, cn⟩ := int_chunk hv
    rw [cn] at h
    cases w
    case int j =>
      obtain ⟨m, hm, cm⟩ := int_chunk hw
      rw [cm] at h
      obtain ⟨e1, e2⟩ := l_split (showNat_atom n) (showNat_atom m) g1 g2 h
      have := showNat_inj e1
      subst this
      exact ⟨by rw [hn, hm], e2⟩
    case bool b =>
      simp only [aliasChunkT] at h
      obtain ⟨e1, _⟩ := l_split (showNat_atom n) (showBool_atom b) g1 g2 h
      exact (showNat_ne_of_not_digits (by cases b <;> decide) e1).elim
    case null =>
      simp only [aliasChunkT] at h
      obtain ⟨e1, _⟩ := l_split (y := cs!"null") (showNat_atom n) (by decide) g1 g2 h
      exact (showNat_ne_of_not_digits (by decide) e1).elim
    all_goals mism
  | .bool a, w, r1, r2, hv, hw, g1, g2, h => by
    cases w
    case int j =>
      obtain ⟨m, hm, cm⟩ := int_chunk hw
      rw [cm] at h
      simp only [aliasChunkT] at h
      obtain ⟨e1, _⟩ := l_split (showBool_atom a) (showNat_atom m) g1 g2 h
      exact (showNat_ne_of_not_digits (by cases a <;> decide) e1.symm).elim
    case bool b =>
      simp only [aliasChunkT] at h
      obtain ⟨e1, e2⟩ := l_split (showBool_atom a) (showBool_atom b) g1 g2 h
      exact ⟨by rw [showBool_inj e1], e2⟩
    case null =>
      simp only [aliasChunkT] at h
      obtain ⟨e1, _⟩ := l_split (y := cs!"null") (showBool_atom a) (by decide) g1 g2 h
      exact (showBool_ne_null a e1).elim
    all_goals mism
  | .null, w, r1, r2, hv, hw, g1, g2, h => by
    cases w
    case int j =>
      obtain ⟨m, hm, cm⟩ := int_chunk hw
      rw [cm] at h
      simp only [aliasChunkT] at h
      obtain ⟨e1, _⟩ := l_split (x := cs!"null") (by decide) (showNat_atom m) g1 g2 h
      exact (showNat_ne_of_not_digits (by decide) e1.symm).elim
    case bool b =>
      simp only [aliasChunkT] at h
      obtain ⟨e1, _⟩ := l_split (x := cs!"null") (by decide) (showBool_atom b) g1 g2 h
      exact (showBool_ne_null b e1.symm).elim
    case null =>
      simp only [aliasChunkT] at h
      obtain ⟨_, e2⟩ := l_split (x := cs!"null") (y := cs!"null") (by decide) (by decide) g1 g2 h
      exact ⟨rfl, e2⟩
    all_goals mism
  | .obj fs, w, r1, r2, hv, hw, g1, g2, h => by
    cases w
    case obj gs =>
      simp only [Value.tightInner, Bool.and_eq_true, Bool.not_eq_true', List.isEmpty_eq_false_iff]
        at hv hw
      rw [obj_chunk fs hv.1, obj_chunk gs hw.1] at h
      simp only [List.cons_append, List.cons.injEq, true_and] at h
      obtain ⟨e1, e2⟩ := tail_split fs gs r1 r2 hv.2 hw.2 g1 g2 h
      exact ⟨by rw [e1], e2⟩
    all_goals mism
theorem tail_split : ∀ (fs gs : List (Str × Value)) (r1 r2 : Str), Value.tightFields fs = true →
    Value.tightFields gs = true → GoodCont r1 → GoodCont r2 →
    tailStr fs ++ r1 = tailStr gs ++ r2 → fs = gs ∧ r1 = r2
  | [], gs, r1, r2, hf, hg, g1, g2, h => by
    cases gs with
    | nil =>
      simp only [tailStr, List.cons_append, List.nil_append, List.cons.injEq, true_and] at h
      exact ⟨rfl, h⟩
    | cons f rest =>
      obtain ⟨k, v⟩ := f
      simp only [Value.tightFields, Bool.and_eq_true] at hg
      exact (tail_nil_cons g1 hg.1.1 hg.1.2 h).elim
  | (k, v) :: rest, gs, r1, r2, hf, hg, g1, g2, h => by
    simp only [Value.tightFields, Bool.and_eq_true] at hf
    cases gs with
    | nil => exact (tail_nil_cons g2 hf.1.1 hf.1.2 h.symm).elim
    | cons f rest' =>
      obtain ⟨k', v'⟩ := f
      simp only [Value.tightFields, Bool.and_eq_true] at hg
      simp only [tailStr, List.append_assoc, List.cons_append, List.nil_append, List.cons.injEq,
        true_and] at h
      obtain ⟨e1, e2⟩ := atom_split k k' _ _ hf.1.1 hg.1.1 rfl rfl h
      simp only [List.cons.injEq, true_and] at e2
      obtain ⟨e3, e4⟩ := chunk_split v v' _ _ hf.1.2 hg.1.2 (good_tail rest r1 hf.2)
        (good_tail rest' r2 hg.2) e2
      obtain ⟨e5, e6⟩ := tail_split rest rest' r1 r2 hf.2 hg.2 g1 g2 e4
      exact ⟨by rw [e1, e3, e5], e6⟩
end


/-! ### top level -/

theorem top_split (v w : Value) (r1 r2 : Str) (hv : v.tightTop = true) (hw : w.tightTop = true)
    (t1 : TopCont r1) (t2 : TopCont r2) (h : aliasChunkT v ++ r1 = aliasChunkT w ++ r2) :
    v = w ∧ r1 = r2 := by
  cases v
  case str s =>
    cases w
    case str t =>
      simp only [Value.tightTop] at hv hw
      simp only [aliasChunkT, collapse_top hv, collapse_top hw, List.cons_append, List.nil_append,
        List.cons.injEq, true_and] at h
      obtain ⟨e1, e2⟩ := topStr_split s t r1 r2 hv hw t1 t2 h
      exact ⟨by rw [e1], e2⟩
    all_goals first
      | (exfalso; simp [Value.tightTop, Value.tightInner] at hw; done)
      | (exfalso; simp only [aliasChunkT, List.cons_append, List.nil_append] at h
         exact head_ne (by decide) h)
  all_goals (
    cases w
    case str t =>
      first
      | (exfalso; simp [Value.tightTop, Value.tightInner] at hv; done)
      | (exfalso; simp only [aliasChunkT, List.cons_append, List.nil_append] at h
         exact head_ne (by decide) h)
    all_goals exact chunk_split _ _ r1 r2 hv hw (topCont_good t1) (topCont_good t2) h)

theorem args_topCont (a : Args) : TopCont (aliasArgsT a) := by
  cases a with
  | nil => exact Or.inl rfl
  | cons x rest =>
    exact Or.inr ⟨x.1 ++ (95 :: 95 :: 95 :: (aliasChunkT x.2 ++ aliasArgsT rest)),
      by simp only [aliasArgsT, List.cons_append, List.nil_append, List.append_assoc]⟩

theorem args_split : ∀ (a b : Args), tightArgs a = true → tightArgs b = true →
    aliasArgsT a = aliasArgsT b → a = b := by
  intro a
  induction a with
  | nil =>
    intro b _ hb h
    cases b with
    | nil => rfl
    | cons y rest =>
      simp only [aliasArgsT, List.cons_append, List.nil_append, List.append_assoc] at h
      cases h
  | cons x ra ih =>
    intro b ha hb h
    obtain ⟨k, v⟩ := x
    cases b with
    | nil =>
      simp only [aliasArgsT, List.cons_append, List.nil_append, List.append_assoc] at h
      cases h
    | cons y rb =>
      obtain ⟨k', v'⟩ := y
      simp only [tightArgs, Bool.and_eq_true] at ha hb
      simp only [aliasArgsT, List.cons_append, List.nil_append, List.append_assoc, List.cons.injEq,
        true_and] at h
      obtain ⟨e1, e2⟩ := atom_split k k' _ _ ha.1.1 hb.1.1 rfl rfl h
      simp only [List.cons.injEq, true_and] at e2
      obtain ⟨e3, e4⟩ := top_split v v' _ _ ha.1.2 hb.1.2 (args_topCont ra) (args_topCont rb) e2
      rw [e1, e3, ih rb ha.2 hb.2 e4]

end AliasInj

/-- injectivity of the alias encoding on the tight class -/
theorem aliasT_injective (f g : Str) (a b : Args) (hf : isAtom f = true) (hg : isAtom g = true)
    (ha : tightArgs a = true) (hb : tightArgs b = true) (h : aliasT f a = aliasT g b) :
    f = g ∧ a = b := by
  unfold aliasT at h
  obtain ⟨e1, e2⟩ := AliasInj.atom_split f g _ _ hf hg
    (AliasInj.topCont_good (AliasInj.args_topCont a)).1
    (AliasInj.topCont_good (AliasInj.args_topCont b)).1 h
  exact ⟨e1, AliasInj.args_split a b ha hb e2⟩

end IsoVerif.Core
