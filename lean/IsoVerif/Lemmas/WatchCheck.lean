/-
Soundness of the decidable forms of the hypotheses `DeliversAll` / `SchemaInPlace` / `NoRace`.
-/
import IsoVerif.Model.Watch

namespace IsoVerif.Watch

theorem noRaceB_sound (fs' : Fs) (evs : List Raw) (h : noRaceB fs' evs = true) : NoRace fs' evs := by
  intro e he
  have h1 := (List.all_eq_true.mp h) e he
  cases e <;> first | exact h1 | trivial

theorem schemaInPlaceB_sound (F : Facts) (cfg : Cfg) (evs : List Raw) (fs' : Fs)
    (h : schemaInPlaceB F cfg evs fs' = true) : SchemaInPlace F cfg evs fs' := by
  have hall := List.all_eq_true.mp h
  refine ⟨?_, ?_, ?_⟩
  · intro c hc
    have h1 := hall _ hc
    simpa [Bool.and_eq_true] using h1
  · intro c hc
    have h1 := hall _ hc
    cases c with
    | createOrModify x => exact ⟨x, rfl, by simpa using h1⟩
    | rename s t => simp at h1
    | remove p => simp at h1
  · intro c hc
    have h1 := hall _ hc
    simp at h1

/-! ### the keys of the two file systems are the only paths that matter -/

private theorem get_mem_keys {fs : Fs} {p : Path} {n : Node} (h : Fs.get fs p = some n) :
    p ∈ fs.map (·.1) := by
  induction fs with
  | nil => simp [Fs.get] at h
  | cons qn rest ih =>
    obtain ⟨q, m⟩ := qn
    simp only [Fs.get] at h
    split at h
    · subst_vars; simp
    · simp [ih h]

private theorem get_none_of_not_key {fs : Fs} {p : Path} (h : p ∉ fs.map (·.1)) :
    Fs.get fs p = none := by
  cases hg : Fs.get fs p with
  | none => rfl
  | some n => exact absurd (get_mem_keys hg) h

private theorem expectedIso_none_of_not_key (cfg : Cfg) {fs : Fs} {p : Path}
    (h : p ∉ fs.map (·.1)) : expectedIso cfg fs p = none := by
  simp [expectedIso, get_none_of_not_key h]

private theorem says_none {cfg : Cfg} {fs : Fs} {e : SEv} {p : Path} {v : Option Content}
    (hx : expectedIso cfg fs p = none) (h : says cfg fs e p = some v) : v = none := by
  obtain ⟨c, k⟩ := e
  cases k <;> cases c <;> simp only [says] at h
  all_goals (repeat' split at h)
  all_goals simp_all

private theorem lastSaying_none {cfg : Cfg} {fs : Fs} {l : List SEv} {p : Path}
    {v : Option Content} (hx : expectedIso cfg fs p = none)
    (h : lastSaying cfg fs l p = some v) : v = none := by
  induction l with
  | nil => simp [lastSaying] at h
  | cons e rest ih =>
    simp only [lastSaying] at h
    split at h
    · next w hw =>
      cases h
      exact ih hw
    · exact says_none hx h

theorem deliversAllB_sound (F : Facts) (cfg : Cfg) (evs : List Raw) (fs fs' : Fs)
    (h : deliversAllB F cfg evs fs fs' = true) : DeliversAll F cfg evs fs fs' := by
  simp only [deliversAllB, Bool.and_eq_true] at h
  obtain ⟨⟨⟨hsrc, hin⟩, hsch⟩, hext⟩ := h
  refine ⟨?_, schemaInPlaceB_sound F cfg evs fs' hin, ?_, ?_⟩
  · intro p
    by_cases hk : p ∈ fs.map (·.1) ++ fs'.map (·.1)
    · have h1 := (List.all_eq_true.mp hsrc) p hk
      cases hL : lastSaying cfg fs' (categorise F cfg fs' evs) p with
      | none => simpa [sourcesOkAt, hL] using h1
      | some v => simpa [sourcesOkAt, hL] using h1
    · rw [List.mem_append, not_or] at hk
      have e1 := expectedIso_none_of_not_key cfg hk.1
      have e2 := expectedIso_none_of_not_key cfg hk.2
      cases hL : lastSaying cfg fs' (categorise F cfg fs' evs) p with
      | none => simp [e1, e2]
      | some v => simp [e2, lastSaying_none e2 hL]
  · intro hne
    rw [Bool.or_eq_true, decide_eq_true_eq] at hsch
    rcases hsch with heq | hany
    · exact absurd heq hne
    · obtain ⟨e, he, hk⟩ := List.any_eq_true.mp hany
      obtain ⟨c, k⟩ := e
      have hk' : k = Kind.schema := by simpa using hk
      subst hk'
      exact ⟨c, he⟩
  · intro x hx hne
    have hx' : x ∈ cfg.exts := by simpa using hx
    have h1 := (List.all_eq_true.mp hext) x hx'
    rw [Bool.or_eq_true, decide_eq_true_eq] at h1
    rcases h1 with heq | hany
    · exact absurd heq hne
    · obtain ⟨e, he, hk⟩ := List.any_eq_true.mp hany
      have hk' : e = (Change.createOrModify x, Kind.ext) := by simpa using hk
      subst hk'
      exact he

end IsoVerif.Watch
