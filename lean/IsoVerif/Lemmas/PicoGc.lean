/-
Lemmas for C03 over M-PICO: the LRU refines "last `cap` distinct", the marking loop of the
collector computes a dependency-closed set containing its roots, the collector only removes
nodes, and the history-level invariant tying the LRU to the ghost field `pushes`.
-/
import IsoVerif.Model.Pico
import IsoVerif.Model.PicoSpec

namespace IsoVerif.Pico

/-! ## the abstract LRU -/

theorem mem_recentDistinct (a : NodeId) (xs : List NodeId) : a ∈ recentDistinct xs ↔ a ∈ xs := by
  induction xs with
  | nil => simp [recentDistinct]
  | cons x xs ih =>
    simp only [recentDistinct]
    split
    · rename_i h
      have hx : x ∈ xs := by simpa using h
      rw [ih, List.mem_cons]
      constructor
      · intro h; exact Or.inr h
      · rintro (rfl | h)
        · exact hx
        · exact h
    · rw [List.mem_append, ih, List.mem_cons]
      simp only [List.mem_cons, List.not_mem_nil, or_false]
      exact Or.comm

theorem recentDistinct_nodup (xs : List NodeId) : (recentDistinct xs).Nodup := by
  induction xs with
  | nil => simp [recentDistinct]
  | cons x xs ih =>
    simp only [recentDistinct]
    split
    · exact ih
    · rename_i h
      have hx : x ∉ xs := by simpa using h
      rw [List.nodup_append]
      refine ⟨ih, by simp, ?_⟩
      intro a ha b hb
      rw [List.mem_singleton] at hb
      subst hb
      intro hab
      subst hab
      exact hx ((mem_recentDistinct _ _).1 ha)

theorem recentDistinct_snoc (xs : List NodeId) (x : NodeId) :
    recentDistinct (xs ++ [x]) = x :: (recentDistinct xs).erase x := by
  induction xs with
  | nil => simp [recentDistinct]
  | cons y xs ih =>
    simp only [List.cons_append, recentDistinct, ih]
    by_cases hyx : y = x
    · subst hyx
      have h1 : (xs ++ [y]).contains y = true := by simp
      rw [if_pos h1]
      split
      · rfl
      · rename_i h
        have hy : y ∉ recentDistinct xs := by
          rw [mem_recentDistinct]; simpa using h
        rw [List.erase_append, if_neg hy, List.erase_of_not_mem hy]
        simp
    · have h1 : (xs ++ [x]).contains y = xs.contains y := by
        simp [List.contains_eq_mem, hyx]
      rw [h1]
      split
      · rfl
      · rename_i h
        have hne : x ≠ y := fun h => hyx h.symm
        by_cases hx : x ∈ recentDistinct xs
        · rw [List.erase_append, if_pos hx]
        · rw [List.erase_append, if_neg hx, List.erase_of_not_mem hx]
          have : [y].erase x = [y] := by
            simp [hyx]
          rw [this]

theorem take_erase_take (l : List NodeId) (x : NodeId) (c : Nat) :
    ((l.take (c + 1)).erase x).take c = (l.erase x).take c := by
  induction l generalizing c with
  | nil => simp
  | cons y l ih =>
    rw [List.take_succ_cons]
    by_cases hyx : y = x
    · subst hyx
      simp [List.take_take]
    · have hb : (y == x) = false := by simpa using hyx
      rw [List.erase_cons, List.erase_cons, hb]
      simp only [Bool.false_eq_true, if_false]
      cases c with
      | zero => simp
      | succ c => rw [List.take_succ_cons, List.take_succ_cons, ih]

theorem lruPut_take (cap : Nat) (hcap : 1 ≤ cap) (l : List NodeId) (x : NodeId) :
    lruPut cap (l.take cap) x = (x :: l.erase x).take cap := by
  obtain ⟨c, rfl⟩ : ∃ c, cap = c + 1 := ⟨cap - 1, by omega⟩
  simp only [lruPut, List.take_succ_cons, take_erase_take]

theorem lruPut_lastDistinct (cap : Nat) (hcap : 1 ≤ cap) (xs : List NodeId) (x : NodeId) :
    lruPut cap (lastDistinct cap xs) x = lastDistinct cap (xs ++ [x]) := by
  simp only [lastDistinct, lruPut_take cap hcap, recentDistinct_snoc]

/-- generalised form of the LRU specification: feeding `ext` to the LRU of `xs`. -/
theorem foldl_lruPut_lastDistinct (cap : Nat) (hcap : 1 ≤ cap) (ext xs : List NodeId) :
    ext.foldl (lruPut cap) (lastDistinct cap xs) = lastDistinct cap (xs ++ ext) := by
  induction ext generalizing xs with
  | nil => simp
  | cons y ext ih =>
    rw [List.foldl_cons, lruPut_lastDistinct cap hcap, ih]
    simp

theorem lru_spec (cap : Nat) (hcap : 1 ≤ cap) (calls : List NodeId) :
    calls.foldl (lruPut cap) [] = lastDistinct cap calls := by
  have := foldl_lruPut_lastDistinct cap hcap calls []
  simpa [lastDistinct, recentDistinct] using this

/-! ## the marking loop -/

/-- the invariant of `mark`: a `some` result contains `seen` and `queue` and is dependency-closed
outside the initial `seen`. -/
theorem mark_inv (derived : List (NodeId × Rev)) (fuel : Nat) (queue seen keep : List NodeId)
    (h : mark derived fuel queue seen = some keep) :
    (∀ id ∈ seen, id ∈ keep) ∧ (∀ id ∈ queue, id ∈ keep) ∧
    (∀ id ∈ keep, id ∉ seen →
      ∃ r, alookup derived id = some r ∧ ∀ c ∈ depIds r.deps, c ∈ keep) := by
  induction fuel generalizing queue seen with
  | zero =>
    cases queue with
    | nil =>
      simp only [mark, Option.some.injEq] at h
      subst h
      exact ⟨fun _ h => h, by simp, fun id h h' => absurd h h'⟩
    | cons q queue => simp [mark] at h
  | succ fuel ih =>
    cases queue with
    | nil =>
      simp only [mark, Option.some.injEq] at h
      subst h
      exact ⟨fun _ h => h, by simp, fun id h h' => absurd h h'⟩
    | cons q queue =>
      simp only [mark] at h
      split at h
      · rename_i hc
        have hq : q ∈ seen := by simpa using hc
        obtain ⟨h1, h2, h3⟩ := ih queue seen h
        refine ⟨h1, ?_, h3⟩
        intro id hid
        rcases List.mem_cons.1 hid with rfl | hid
        · exact h1 _ hq
        · exact h2 _ hid
      · split at h
        · exact absurd h (by simp)
        · rename_i r hr
          obtain ⟨h1, h2, h3⟩ := ih _ _ h
          have hqk : q ∈ keep := h1 q (List.mem_cons_self ..)
          refine ⟨fun id hid => h1 id (List.mem_cons_of_mem _ hid), ?_, ?_⟩
          · intro id hid
            rcases List.mem_cons.1 hid with rfl | hid
            · exact hqk
            · exact h2 _ (List.mem_append_right _ hid)
          · intro id hid hns
            by_cases hidq : id = q
            · subst hidq
              exact ⟨r, hr, fun c hc => h2 c (List.mem_append_left _ hc)⟩
            · apply h3 id hid
              intro hmem
              rcases List.mem_cons.1 hmem with rfl | hmem
              · exact hidq rfl
              · exact hns hmem

/-- everything reachable from a root is marked -/
theorem mark_reach (derived : List (NodeId × Rev)) (fuel : Nat) (roots keep : List NodeId)
    (h : mark derived fuel roots [] = some keep) (root n : NodeId) (hr : root ∈ roots)
    (hreach : Reach derived root n) : n ∈ keep := by
  obtain ⟨_, h2, h3⟩ := mark_inv derived fuel roots [] keep h
  induction hreach with
  | refl => exact h2 _ hr
  | step _ hl hc ih =>
    obtain ⟨r', hr', hcl⟩ := h3 _ ih (by simp)
    rw [hl] at hr'
    cases hr'
    exact hcl _ hc

/-! ## filtering an association list by key -/

theorem alookup_filter_of_mem {β} (l : List (NodeId × β)) (keep : List NodeId) (n : NodeId)
    (hn : n ∈ keep) : alookup (l.filter (fun p => keep.contains p.1)) n = alookup l n := by
  induction l with
  | nil => rfl
  | cons p l ih =>
    obtain ⟨k, v⟩ := p
    rw [List.filter_cons]
    by_cases hk : k = n
    · subst hk
      have hc : keep.contains k = true := by simpa using hn
      simp only [hc, if_true, alookup]
    · by_cases hc : keep.contains k = true
      · simp only [hc, if_true, alookup, if_neg hk, ih]
      · have hc' : keep.contains k = false := by simpa using hc
        simp only [hc', Bool.false_eq_true, if_false, alookup, if_neg hk, ih]

theorem mem_of_alookup_filter {β} (l : List (NodeId × β)) (keep : List NodeId) (n : NodeId) (r : β)
    (h : alookup (l.filter (fun p => keep.contains p.1)) n = some r) : n ∈ keep := by
  induction l with
  | nil => simp [alookup] at h
  | cons p l ih =>
    obtain ⟨k, v⟩ := p
    rw [List.filter_cons] at h
    by_cases hc : keep.contains k = true
    · simp only [hc, if_true, alookup] at h
      by_cases hk : k = n
      · subst hk; simpa using hc
      · rw [if_neg hk] at h; exact ih h
    · have hc' : keep.contains k = false := by simpa using hc
      simp only [hc', Bool.false_eq_true, if_false] at h
      exact ih h

theorem alookup_filter_some {β} (l : List (NodeId × β)) (keep : List NodeId) (n : NodeId) (r : β)
    (h : alookup (l.filter (fun p => keep.contains p.1)) n = some r) : alookup l n = some r := by
  rw [← alookup_filter_of_mem l keep n (mem_of_alookup_filter l keep n r h)]
  exact h

/-! ## the collector -/

theorem gc_ok (s s' : Storage) (h : gc s = (s', .ok ())) :
    ∃ keep, mark s.derived (markFuel s.derived (gcRoots s)) (gcRoots s) [] = some keep ∧
      s' = { s with topCalls := [], lru := gcLru s,
                    derived := s.derived.filter (fun p => keep.contains p.1) } := by
  simp only [gc] at h
  split at h
  · simp at h
  · rename_i keep hk
    refine ⟨keep, hk, ?_⟩
    simp only [Prod.mk.injEq] at h
    exact h.1.symm

theorem gc_only_removes (s s' : Storage) (h : gc s = (s', .ok ())) (n : NodeId) (r : Rev)
    (hl : alookup s'.derived n = some r) : alookup s.derived n = some r := by
  obtain ⟨keep, _, rfl⟩ := gc_ok s s' h
  exact alookup_filter_some _ _ _ _ hl

theorem gc_frame (s s' : Storage) (h : gc s = (s', .ok ())) :
    s'.epoch = s.epoch ∧ s'.srcs = s.srcs ∧ s'.retained = s.retained ∧ s'.maps = s.maps ∧
    s'.runs = s.runs ∧ s'.topCalls = [] ∧ s'.lru = gcLru s := by
  obtain ⟨keep, _, rfl⟩ := gc_ok s s' h
  exact ⟨rfl, rfl, rfl, rfl, rfl, rfl, rfl⟩

theorem gc_keeps_reachable (s s' : Storage) (h : gc s = (s', .ok ())) (root n : NodeId)
    (hr : root ∈ gcRoots s) (hreach : Reach s.derived root n) :
    alookup s'.derived n = alookup s.derived n := by
  obtain ⟨keep, hk, rfl⟩ := gc_ok s s' h
  exact alookup_filter_of_mem _ _ _ (mark_reach _ _ _ _ hk root n hr hreach)

theorem roots_are_spec (s : Storage) :
    gcRoots s = s.topCalls.foldl (lruPut s.cap) s.lru ++ s.retained.map (·.1) := rfl

/-! ## the LRU and the ghost field `pushes` along a history -/

/-- `s'` differs from `s`, as far as the LRU bookkeeping goes, by the same ids appended to
`topCalls` and to the ghost `pushes`. -/
def TP (s s' : Storage) : Prop :=
  s'.lru = s.lru ∧ s'.cap = s.cap ∧
    ∃ ext, s'.topCalls = s.topCalls ++ ext ∧ s'.pushes = s.pushes ++ ext

theorem TP.refl (s : Storage) : TP s s := ⟨rfl, rfl, [], by simp, by simp⟩

theorem TP.trans {a b c : Storage} (h1 : TP a b) (h2 : TP b c) : TP a c := by
  obtain ⟨l1, c1, e1, t1, p1⟩ := h1
  obtain ⟨l2, c2, e2, t2, p2⟩ := h2
  exact ⟨l2.trans l1, c2.trans c1, e1 ++ e2, by rw [t2, t1, List.append_assoc],
    by rw [p2, p1, List.append_assoc]⟩

theorem TP.of_eq {s s' : Storage} (h1 : s'.lru = s.lru) (h2 : s'.cap = s.cap)
    (h3 : s'.topCalls = s.topCalls) (h4 : s'.pushes = s.pushes) : TP s s' :=
  ⟨h1, h2, [], by simp [h3], by simp [h4]⟩

theorem regDep_TP (s : Storage) (n : DepNode) (tu : Nat) : TP s (regDep s n tu) := by
  unfold regDep
  split <;> exact TP.of_eq rfl rfl rfl rfl

theorem setTv_TP (s : Storage) (id : NodeId) (e : Nat) : TP s (setTv s id e) := by
  unfold setTv
  split <;> exact TP.of_eq rfl rfl rfl rfl

theorem evalE_TP (call : Storage → NodeId → Storage × Res Nat) (P : Prog)
    (hc : ∀ s id, TP s (call s id).1) (e : Expr) (a : Nat) (s : Storage) :
    TP s (evalE call P e a s).1 := by
  induction e generalizing a s with
  | lit n => exact TP.refl _
  | param => exact TP.refl _
  | src k ih =>
    simp only [evalE]
    split
    · rename_i s1 kv heq
      have h1 : TP s s1 := by have := ih a s; rw [heq] at this; exact this
      split
      · exact h1.trans (regDep_TP ..)
      · exact h1.trans (regDep_TP ..)
    · exact ih a s
  | sing i =>
    simp only [evalE]
    split
    · exact regDep_TP ..
    · exact regDep_TP ..
  | trk m =>
    simp only [evalE]
    split
    · exact regDep_TP ..
    · exact regDep_TP ..
  | call f e ih =>
    simp only [evalE]
    split
    · rename_i s1 av heq
      have h1 : TP s s1 := by have := ih a s; rw [heq] at this; exact this
      exact h1.trans (hc ..)
    · exact ih a s
  | add x y ihx ihy =>
    simp only [evalE]
    split
    · rename_i s1 xv heq
      have h1 : TP s s1 := by have := ihx a s; rw [heq] at this; exact this
      split
      · rename_i s2 yv heq2
        have h2 : TP s1 s2 := by have := ihy a s1; rw [heq2] at this; exact this
        exact h1.trans h2
      · exact h1.trans (ihy a s1)
    · exact ihx a s
  | eq x y ihx ihy =>
    simp only [evalE]
    split
    · rename_i s1 xv heq
      have h1 : TP s s1 := by have := ihx a s; rw [heq] at this; exact this
      split
      · rename_i s2 yv heq2
        have h2 : TP s1 s2 := by have := ihy a s1; rw [heq2] at this; exact this
        exact h1.trans h2
      · exact h1.trans (ihy a s1)
    · exact ihx a s
  | ite c t e ihc iht ihe =>
    simp only [evalE]
    split
    · rename_i s1 cv heq
      have h1 : TP s s1 := by have := ihc a s; rw [heq] at this; exact this
      split
      · exact h1.trans (iht a s1)
      · exact h1.trans (ihe a s1)
    · exact ihc a s
  | half x ih =>
    simp only [evalE]
    split
    · rename_i s1 xv heq
      have h1 : TP s s1 := by have := ih a s; rw [heq] at this; exact this
      exact h1
    · exact ih a s

theorem anyDep_TP (chk : Storage → Dep → Storage × Res Bool)
    (hc : ∀ s d, TP s (chk s d).1) (ds : List Dep) (s : Storage) :
    TP s (anyDep chk ds s).1 := by
  induction ds generalizing s with
  | nil => exact TP.refl _
  | cons d ds ih =>
    simp only [anyDep]
    split
    · exact ih s
    · have h1 := hc s d
      split
      · rename_i s1 heq; rw [heq] at h1; exact h1
      · rename_i s1 heq; rw [heq] at h1; exact h1.trans (ih s1)
      · rename_i s1 p heq; rw [heq] at h1; exact h1

theorem depChanged_TP (ex : Storage → NodeId → Storage × Res Bool)
    (hc : ∀ s id, TP s (ex s id).1) (s : Storage) (d : Dep) :
    TP s (depChanged ex s d).1 := by
  unfold depChanged
  split
  · split <;> exact TP.refl _
  · exact TP.refl _
  · split
    · exact TP.refl _
    · split
      · exact TP.refl _
      · split
        · exact TP.refl _
        · exact hc ..

theorem callVia_TP (ex : Storage → NodeId → Storage × Res Bool)
    (hc : ∀ s id, TP s (ex s id).1) (s : Storage) (id : NodeId) :
    TP s (callVia ex s id).1 := by
  unfold callVia
  have h1 := hc s id
  split
  · rename_i s1 _ heq
    rw [heq] at h1
    split <;> exact h1
  · rename_i s1 p heq
    rw [heq] at h1
    exact h1

theorem invoke_TP (call : Storage → NodeId → Storage × Res Nat) (P : Prog)
    (hc : ∀ s id, TP s (call s id).1) (s : Storage) (id : NodeId) :
    TP s (invoke call P s id).1 := by
  unfold invoke
  split
  · exact TP.refl _
  · simp only []
    have h0 : TP s { s with stack := ⟨id, [], 1⟩ :: s.stack, runs := bump s.runs id.fn, log := id :: s.log,
                            events := (false, id) :: s.events } :=
      TP.of_eq rfl rfl rfl rfl
    have h1 := evalE_TP call P hc (fnOf P id.fn).body id.arg
      { s with stack := ⟨id, [], 1⟩ :: s.stack, runs := bump s.runs id.fn, log := id :: s.log,
               events := (false, id) :: s.events }
    split
    · rename_i s1 v heq
      rw [heq] at h1
      have h2 := h0.trans h1
      split
      · exact h2.trans (TP.of_eq rfl rfl rfl rfl)
      · exact h2
    · rename_i s1 p heq
      rw [heq] at h1
      exact (h0.trans h1).trans (TP.of_eq rfl rfl rfl rfl)

theorem dropTu_TP (core : Storage → NodeId → Storage × Res (Bool × Nat))
    (hc : ∀ s id, TP s (core s id).1) (s : Storage) (id : NodeId) : TP s (dropTu core s id).1 := by
  unfold dropTu
  have h1 := hc s id
  split
  · rename_i s1 b tu heq; rw [heq] at h1; exact h1
  · rename_i s1 p heq; rw [heq] at h1; exact h1

theorem pushTop_TP (s : Storage) (id : NodeId) : TP s (pushTop s id) := by
  unfold pushTop
  split
  · exact ⟨rfl, rfl, [id], rfl, rfl⟩
  · exact TP.refl _

theorem execF_TP (core : Storage → NodeId → Storage × Res (Bool × Nat))
    (hc : ∀ s id, TP s (core s id).1) (s : Storage) (id : NodeId) : TP s (execF core s id).1 := by
  unfold execF
  have h1 := (pushTop_TP s id).trans (hc (pushTop s id) id)
  split
  · rename_i s1 b tu heq; rw [heq] at h1; exact h1.trans (regDep_TP ..)
  · rename_i s1 p heq; rw [heq] at h1; exact h1

theorem upToDate_TP (fuel : Nat) (P : Prog) (s : Storage) (id : NodeId) :
    TP s (upToDate fuel P s id).1 := by
  induction fuel generalizing s id with
  | zero => exact TP.refl _
  | succ fuel ih =>
    have hcall : ∀ s id, TP s (callVia (execF (upToDate fuel P)) s id).1 := callVia_TP _ (execF_TP _ ih)
    have hchk : ∀ s d, TP s (depChanged (dropTu (upToDate fuel P)) s d).1 := depChanged_TP _ (dropTu_TP _ ih)
    simp only [upToDate]
    have hupd : ∀ (s : Storage) d, TP s { s with derived := d } := fun s d =>
      TP.of_eq (s' := { s with derived := d }) rfl rfl rfl rfl
    split
    · rename_i rev hrev
      split
      · exact TP.refl _
      · have h1 := (setTv_TP s id s.epoch).trans
          (anyDep_TP _ hchk rev.deps (setTv s id s.epoch))
        split
        · rename_i s1 p heq; rw [heq] at h1; exact h1
        · rename_i s1 heq; rw [heq] at h1; exact h1
        · rename_i s1 heq; rw [heq] at h1
          have h2 := invoke_TP _ P hcall s1 id
          split
          · rename_i s2 p heq2; rw [heq2] at h2; exact h1.trans h2
          · rename_i s2 v fr heq2; rw [heq2] at h2
            have h3 := h1.trans h2
            split
            · exact h3
            · split
              · exact h3.trans (hupd ..)
              · exact h3.trans (hupd ..)
    · have h2 := invoke_TP _ P hcall s id
      split
      · rename_i s2 p heq2; rw [heq2] at h2; exact h2
      · rename_i s2 v fr heq2; rw [heq2] at h2
        exact h2.trans (hupd ..)

theorem exec_TP (fuel : Nat) (P : Prog) (s : Storage) (id : NodeId) :
    TP s (exec fuel P s id).1 := execF_TP _ (upToDate_TP fuel P) s id

theorem setSource_TP (s : Storage) (k : Key) (v : Nat) : TP s (setSource s k v) := by
  unfold setSource
  split
  · split
    · exact TP.of_eq rfl rfl rfl rfl
    · exact TP.refl _
  · exact TP.of_eq rfl rfl rfl rfl

theorem removeSource_TP (s : Storage) (k : Key) : TP s (removeSource s k) := by
  unfold removeSource
  split
  · exact TP.of_eq rfl rfl rfl rfl
  · exact TP.refl _

theorem touchCounter_TP (s : Storage) (m : Nat) : TP s (touchCounter s m) := by
  unfold touchCounter
  split <;> exact setSource_TP ..

/-- the state invariant behind `C03_lru_invariant` -/
def LruInv (cap : Nat) (s : Storage) : Prop :=
  gcLru s = lastDistinct cap s.pushes ∧ s.cap = cap

theorem LruInv.of_TP {cap : Nat} (hcap : 1 ≤ cap) {s s' : Storage} (hi : LruInv cap s)
    (h : TP s s') : LruInv cap s' := by
  obtain ⟨hl, hc, ext, ht, hp⟩ := h
  obtain ⟨h1, h2⟩ := hi
  refine ⟨?_, hc.trans h2⟩
  unfold gcLru at h1 ⊢
  rw [h2] at h1
  rw [ht, hp, hl, hc, List.foldl_append, h2, h1, foldl_lruPut_lastDistinct cap hcap]

theorem gc_LruInv {cap : Nat} {s : Storage} (hi : LruInv cap s) : LruInv cap (gc s).1 := by
  obtain ⟨h1, h2⟩ := hi
  simp only [gc]
  split
  · exact ⟨h1, h2⟩
  · exact ⟨h1, h2⟩

theorem step_LruInv (fuel : Nat) (P : Prog) {cap : Nat} (hcap : 1 ≤ cap) (s : Storage) (op : Op)
    (hi : LruInv cap s) : LruInv cap (step fuel P s op).1 := by
  unfold step
  split
  · exact hi
  · cases op with
    | set k v => exact hi.of_TP hcap (setSource_TP ..)
    | rem k => exact hi.of_TP hcap (removeSource_TP ..)
    | sset i v => exact hi.of_TP hcap (setSource_TP ..)
    | srem i => exact hi.of_TP hcap (removeSource_TP ..)
    | tins m k =>
      exact hi.of_TP hcap ((touchCounter_TP s m).trans (TP.of_eq rfl rfl rfl rfl))
    | trem m k =>
      exact hi.of_TP hcap ((touchCounter_TP s m).trans (TP.of_eq rfl rfl rfl rfl))
    | call f a =>
      have h1 := callVia_TP _ (exec_TP fuel P) s (nodeOf P f a)
      simp only []
      split
      · rename_i s1 v heq; rw [heq] at h1
        exact hi.of_TP hcap (h1.trans (TP.of_eq rfl rfl rfl rfl))
      · rename_i s1 p heq; rw [heq] at h1
        exact hi.of_TP hcap (h1.trans (TP.of_eq rfl rfl rfl rfl))
    | look f a =>
      simp only []
      split
      · split <;> exact hi
      · exact hi
    | retain f a =>
      simp only []
      split
      · exact hi.of_TP hcap (TP.of_eq rfl rfl rfl rfl)
      · exact hi
    | unretain f a =>
      simp only []
      split
      · exact hi.of_TP hcap (TP.of_eq rfl rfl rfl rfl)
      · exact hi
    | nevergc f a =>
      simp only []
      split
      · exact hi.of_TP hcap (TP.of_eq rfl rfl rfl rfl)
      · exact hi
    | gc =>
      have h1 := gc_LruInv hi
      simp only []
      split
      · rename_i s1 _ heq; rw [heq] at h1; exact h1
      · rename_i s1 _ heq; rw [heq] at h1; exact h1

theorem runS_LruInv (fuel : Nat) (P : Prog) {cap : Nat} (hcap : 1 ≤ cap) (s : Storage) (h : List Op)
    (hi : LruInv cap s) : LruInv cap (runS fuel P s h) := by
  induction h generalizing s with
  | nil => exact hi
  | cons op ops ih =>
    have := ih (step fuel P s op).1 (step_LruInv fuel P hcap s op hi)
    simpa [runS, run] using this

theorem lru_invariant (fuel : Nat) (P : Prog) (cap : Nat) (hcap : 1 ≤ cap) (h : List Op) :
    gcLru (after fuel cap P h) = lastDistinct cap (after fuel cap P h).pushes ∧
      (after fuel cap P h).cap = cap :=
  runS_LruInv fuel P hcap (initS cap P) h ⟨by simp [gcLru, initS, Storage.init, lastDistinct, recentDistinct], rfl⟩

end IsoVerif.Pico
