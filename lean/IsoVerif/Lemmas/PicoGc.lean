/-
Lemmas for C03 over M-PICO: the LRU refines "last `cap` distinct", the marking loop of the
collector computes a dependency-closed set containing its roots, the collector only removes
nodes, and the history-level invariant tying the LRU to the ghost field `pushes`.
-/
import IsoVerif.Model.Pico
import IsoVerif.Model.PicoSpec

namespace IsoVerif.Pico

/-! ## the abstract LRU -/

theorem mem_recentDistinct (a : NodeId) (xs : List NodeId) : a ∈ recentDistinct xs ↔ a ∈ xs := by
  induction xs with
  | nil => simp [recentDistinct]
  | cons x xs ih =>
    simp only [recentDistinct]
    split
    · rename_i h
      have hx : x ∈ xs := by simpa using h
      rw [ih, List.mem_cons]
      constructor
      · intro h; exact Or.inr h
      · rintro (rfl | h)
        · exact hx
        · exact h
    · rw [List.mem_append, ih, List.mem_cons]
      simp only [List.mem_cons, List.not_mem_nil, or_false]
      exact Or.comm

theorem recentDistinct_nodup (xs : List NodeId) : (recentDistinct xs).Nodup := by
  induction xs with
  | nil => simp [recentDistinct]
  | cons x xs ih =>
    simp only [recentDistinct]
    split
    · exact ih
    · rename_i h
      have hx : x ∉ xs := by simpa using h
      rw [List.nodup_append]
      refine ⟨ih, by simp, ?_⟩
      intro a ha b hb
      rw [List.mem_singleton] at hb
      subst hb
      intro hab
      subst hab
      exact hx ((mem_recentDistinct _ _).1 ha)

theorem recentDistinct_snoc (xs : List NodeId) (x : NodeId) :
    recentDistinct (xs ++ [x]) = x :: (recentDistinct xs).erase x := by
  induction xs with
  | nil => simp [recentDistinct]
  | cons y xs ih =>
    simp only [List.cons_append, recentDistinct, ih]
    by_cases hyx : y = x
    · subst hyx
      have h1 : (xs ++ [y]).contains y = true := by simp
      rw [if_pos h1]
      split
      · rfl
      · rename_i h
        have hy : y ∉ recentDistinct xs := by
          rw [mem_recentDistinct]; simpa using h
        rw [List.erase_append, if_neg hy, List.erase_of_not_mem hy]
        simp
    · have h1 : (xs ++ [x]).contains y = xs.contains y := by
        simp [List.contains_eq_mem, hyx]
      rw [h1]
      split
      · rfl
      · rename_i h
        have hne : x ≠ y := fun h => hyx h.symm
        by_cases hx : x ∈ recentDistinct xs
        · rw [List.erase_append, if_pos hx]
        · rw [List.erase_append, if_neg hx, List.erase_of_not_mem hx]
          have : [y].erase x = [y] := by
            simp [hyx]
          rw [this]

theorem take_erase_take (l : List NodeId) (x : NodeId) (c : Nat) :
    ((l.take (c + 1)).erase x).take c = (l.erase x).take c := by
  induction l generalizing c with
  | nil => simp
  | cons y l ih =>
    rw [List.take_succ_cons]
    by_cases hyx : y = x
    · subst hyx
      simp [List.take_take]
    · have hb : (y == x) = false := by simpa using hyx
      rw [List.erase_cons, List.erase_cons, hb]
      simp only [Bool.false_eq_true, if_false]
      cases c with
      | zero => simp
      | succ c => rw [List.take_succ_cons, List.take_succ_cons, ih]

theorem lruPut_take (cap : Nat) (hcap : 1 ≤ cap) (l : List NodeId) (x : NodeId) :
    lruPut cap (l.take cap) x = (x :: l.erase x).take cap := by
  obtain ⟨c, rfl⟩ : ∃ c, cap = c + 1 := ⟨cap - 1, by omega⟩
  simp only [lruPut, List.take_succ_cons, take_erase_take]

theorem lruPut_lastDistinct (cap : Nat) (hcap : 1 ≤ cap) (xs : List NodeId) (x : NodeId) :
    lruPut cap (lastDistinct cap xs) x = lastDistinct cap (xs ++ [x]) := by
  simp only [lastDistinct, lruPut_take cap hcap, recentDistinct_snoc]

/-- generalised form of the LRU specification: feeding `ext` to the LRU of `xs`. -/
theorem foldl_lruPut_lastDistinct (cap : Nat) (hcap : 1 ≤ cap) (ext xs : List NodeId) :
    ext.foldl (lruPut cap) (lastDistinct cap xs) = lastDistinct cap (xs ++ ext) := by
  induction ext generalizing xs with
  | nil => simp
  | cons y ext ih =>
    rw [List.foldl_cons, lruPut_lastDistinct cap hcap, ih]
    simp

theorem lru_spec (cap : Nat) (hcap : 1 ≤ cap) (calls : List NodeId) :
    calls.foldl (lruPut cap) [] = lastDistinct cap calls := by
  have := foldl_lruPut_lastDistinct cap hcap calls []
  simpa [lastDistinct, recentDistinct] using this

/-! ## the marking loop -/

/-- the invariant of `mark`: a `some` result contains `seen` and `queue` and is dependency-closed
outside the initial `seen`. -/
theorem mark_inv (derived : List (NodeId × Rev)) (fuel : Nat) (queue seen keep : List NodeId)
    (h : mark derived fuel queue seen = some keep) :
    (∀ id ∈ seen, id ∈ keep) ∧ (∀ id ∈ queue, id ∈ keep) ∧
    (∀ id ∈ keep, id ∉ seen →
      ∃ r, alookup derived id = some r ∧ ∀ c ∈ depIds r.deps, c ∈ keep) := by
  induction fuel generalizing queue seen with
  | zero =>
    cases queue with
    | nil =>
      simp only [mark, Option.some.injEq] at h
      subst h
      exact ⟨fun _ h => h, by simp, fun id h h' => absurd h h'⟩
    | cons q queue => simp [mark] at h
  | succ fuel ih =>
    cases queue with
    | nil =>
      simp only [mark, Option.some.injEq] at h
      subst h
      exact ⟨fun _ h => h, by simp, fun id h h' => absurd h h'⟩
    | cons q queue =>
      simp only [mark] at h
      split at h
      · rename_i hc
        have hq : q ∈ seen := by simpa using hc
        obtain ⟨h1, h2, h3⟩ := ih queue seen h
        refine ⟨h1, ?_, h3⟩
        intro id hid
        rcases List.mem_cons.1 hid with rfl | hid
        · exact h1 _ hq
        · exact h2 _ hid
      · split at h
        · exact absurd h (by simp)
        · rename_i r hr
          obtain ⟨h1, h2, h3⟩ := ih _ _ h
          have hqk : q ∈ keep := h1 q (List.mem_cons_self ..)
          refine ⟨fun id hid => h1 id (List.mem_cons_of_mem _ hid), ?_, ?_⟩
          · intro id hid
            rcases List.mem_cons.1 hid with rfl | hid
            · exact hqk
            · exact h2 _ (List.mem_append_right _ hid)
          · intro id hid hns
            by_cases hidq : id = q
            · subst hidq
              exact ⟨r, hr, fun c hc => h2 c (List.mem_append_left _ hc)⟩
            · apply h3 id hid
              intro hmem
              rcases List.mem_cons.1 hmem with rfl | hmem
              · exact hidq rfl
              · exact hns hmem

/-- everything reachable from a root is marked -/
theorem mark_reach (derived : List (NodeId × Rev)) (fuel : Nat) (roots keep : List NodeId)
    (h : mark derived fuel roots [] = some keep) (root n : NodeId) (hr : root ∈ roots)
    (hreach : Reach derived root n) : n ∈ keep := by
  obtain ⟨_, h2, h3⟩ := mark_inv derived fuel roots [] keep h
  induction hreach with
  | refl => exact h2 _ hr
  | step _ hl hc ih =>
    obtain ⟨r', hr', hcl⟩ := h3 _ ih (by simp)
    rw [hl] at hr'
    cases hr'
    exact hcl _ hc

/-! ## filtering an association list by key -/

theorem alookup_filter_of_mem {β} (l : List (NodeId × β)) (keep : List NodeId) (n : NodeId)
    (hn : n ∈ keep) : alookup (l.filter (fun p => keep.contains p.1)) n = alookup l n := by
  induction l with
  | nil => rfl
  | cons p l ih =>
    obtain ⟨k, v⟩ := p
    rw [List.filter_cons]
    by_cases hk : k = n
    · subst hk
      have hc : keep.contains k = true := by simpa using hn
      simp only [hc, if_true, alookup]
    · by_cases hc : keep.contains k = true
      · simp only [hc, if_true, alookup, if_neg hk, ih]
      · have hc' : keep.contains k = false := by simpa using hc
        simp only [hc', Bool.false_eq_true, if_false, alookup, if_neg hk, ih]

theorem mem_of_alookup_filter {β} (l : List (NodeId × β)) (keep : List NodeId) (n : NodeId) (r : β)
    (h : alookup (l.filter (fun p => keep.contains p.1)) n = some r) : n ∈ keep := by
  induction l with
  | nil => simp [alookup] at h
  | cons p l ih =>
    obtain ⟨k, v⟩ := p
    rw [List.filter_cons] at h
    by_cases hc : keep.contains k = true
    · simp only [hc, if_true, alookup] at h
      by_cases hk : k = n
      · subst hk; simpa using hc
      · rw [if_neg hk] at h; exact ih h
    · have hc' : keep.contains k = false := by simpa using hc
      simp only [hc', Bool.false_eq_true, if_false] at h
      exact ih h

theorem alookup_filter_some {β} (l : List (NodeId × β)) (keep : List NodeId) (n : NodeId) (r : β)
    (h : alookup (l.filter (fun p => keep.contains p.1)) n = some r) : alookup l n = some r := by
  rw [← alookup_filter_of_mem l keep n (mem_of_alookup_filter l keep n r h)]
  exact h

/-! ## the collector -/

theorem gc_ok (s s' : Storage) (h : gc s = (s', .ok ())) :
    ∃ keep, mark s.derived (markFuel s.derived (gcRoots s)) (gcRoots s) [] = some keep ∧
      s' = { s with topCalls := [], lru := gcLru s,
                    derived := s.derived.filter (fun p => keep.contains p.1) } := by
  simp only [gc] at h
  split at h
  · simp at h
  · rename_i keep hk
    refine ⟨keep, hk, ?_⟩
    simp only [Prod.mk.injEq] at h
    exact h.1.symm

theorem gc_only_removes (s s' : Storage) (h : gc s = (s', .ok ())) (n : NodeId) (r : Rev)
    (hl : alookup s'.derived n = some r) : alookup s.derived n = some r := by
  obtain ⟨keep, _, rfl⟩ := gc_ok s s' h
  exact alookup_filter_some _ _ _ _ hl

theorem gc_frame (s s' : Storage) (h : gc s = (s', .ok ())) :
    s'.epoch = s.epoch ∧ s'.srcs = s.srcs ∧ s'.retained = s.retained ∧ s'.maps = s.maps ∧
    s'.runs = s.runs ∧ s'.topCalls = [] ∧ s'.lru = gcLru s := by
  obtain ⟨keep, _, rfl⟩ := gc_ok s s' h
  exact ⟨rfl, rfl, rfl, rfl, rfl, rfl, rfl⟩

theorem gc_keeps_reachable (s s' : Storage) (h : gc s = (s', .ok ())) (root n : NodeId)
    (hr : root ∈ gcRoots s) (hreach : Reach s.derived root n) :
    alookup s'.derived n = alookup s.derived n := by
  obtain ⟨keep, hk, rfl⟩ := gc_ok s s' h
  exact alookup_filter_of_mem _ _ _ (mark_reach _ _ _ _ hk root n hr hreach)

theorem roots_are_spec (s : Storage) :
    gcRoots s = s.topCalls.foldl (lruPut s.cap) s.lru ++ s.retained.map (·.1) := rfl

end IsoVerif.Pico
