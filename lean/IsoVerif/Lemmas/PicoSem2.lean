/-
More about the big-step semantics: the target of a read, the first point at which two
evaluations of the same expression under different sources diverge, and what `evalS` says about
the callees of an evaluation.
-/
import IsoVerif.Lemmas.PicoSem

namespace IsoVerif.Pico

/-- what a read looks at: a source key or a callee -/
def Read.target : Read → DepNode
  | .src k _ => .source k
  | .node id _ => .derived id

/-- Two evaluations of the same expression under different sources either make the same reads with
the same observations (then they agree), or they share a prefix of identical reads after which
both read the SAME target and observe something different. -/
theorem BigE.diverge {P : Prog} {σ1 σ2 : Srcs} {m1 m2 : Maps} {e : Expr} {a v1 : Nat} {R1 : List Read}
    (h1 : BigE P σ1 m1 e a v1 R1) : ∀ {v2 : Nat} {R2 : List Read}, BigE P σ2 m2 e a v2 R2 →
      (v1 = v2 ∧ R1 = R2) ∨
      ∃ pre r1 r2 post1 post2, R1 = pre ++ r1 :: post1 ∧ R2 = pre ++ r2 :: post2 ∧
        r1.target = r2.target ∧ r1 ≠ r2 := by
  induction h1 with
  | lit n a => intro v2 R2 h2; cases h2; exact Or.inl ⟨rfl, rfl⟩
  | param a => intro v2 R2 h2; cases h2; exact Or.inl ⟨rfl, rfl⟩
  | @src k a kv R nd hk hl ih =>
    intro v2 R2 h2
    cases h2 with
    | @src _ _ kv2 Rk2 nd2 hk2 hl2 =>
      rcases ih hk2 with ⟨e1, e2⟩ | ⟨pre, r1, r2, p1, p2, hR1, hR2, ht, hne⟩
      · subst e1; subst e2
        by_cases ho : keyObs σ1 m1 (.src kv) = keyObs σ2 m2 (.src kv)
        · left
          have e1 := keyObs_fst_some (m := m1) hl
          have e2 := keyObs_fst_some (m := m2) hl2
          rw [ho, e2] at e1
          exact ⟨(Option.some.inj e1).symm, by rw [ho]⟩
        · right
          exact ⟨R, .src (.src kv) (keyObs σ1 m1 (.src kv)), .src (.src kv) (keyObs σ2 m2 (.src kv)), [], [], rfl, rfl, rfl,
            fun e => ho (by injection e)⟩
      · right
        exact ⟨pre, r1, r2, p1 ++ [.src (.src kv) (keyObs σ1 m1 (.src kv))], p2 ++ [.src (.src kv2) (keyObs σ2 m2 (.src kv2))],
          by rw [hR1]; simp, by rw [hR2]; simp, ht, hne⟩
  | @sing i a nd hl =>
    intro v2 R2 h2
    by_cases ho : keyObs σ1 m1 (.sing i) = keyObs σ2 m2 (.sing i)
    · left
      cases h2 with
      | @sing _ _ nd2 hl2 =>
        have e1 := keyObs_fst_some (m := m1) hl
        have e2 := keyObs_fst_some (m := m2) hl2
        rw [ho, e2] at e1
        exact ⟨by rw [(Option.some.inj e1)], by rw [ho]⟩
      | singAbs hl2 =>
        have e1 := keyObs_fst_some (m := m1) hl
        have e2 := keyObs_fst_none (m := m2) hl2
        rw [ho, e2] at e1; cases e1
    · right
      have hR2 : R2 = [.src (.sing i) (keyObs σ2 m2 (.sing i))] := by cases h2 <;> rfl
      exact ⟨[], .src (.sing i) (keyObs σ1 m1 (.sing i)), .src (.sing i) (keyObs σ2 m2 (.sing i)), [], [], rfl,
        by rw [hR2]; rfl, rfl, fun e => ho (by injection e)⟩
  | @singAbs i a hl =>
    intro v2 R2 h2
    by_cases ho : keyObs σ1 m1 (.sing i) = keyObs σ2 m2 (.sing i)
    · left
      cases h2 with
      | @sing _ _ nd2 hl2 =>
        have e1 := keyObs_fst_none (m := m1) hl
        have e2 := keyObs_fst_some (m := m2) hl2
        rw [ho, e2] at e1; cases e1
      | singAbs hl2 => exact ⟨rfl, by rw [ho]⟩
    · right
      have hR2 : R2 = [.src (.sing i) (keyObs σ2 m2 (.sing i))] := by cases h2 <;> rfl
      exact ⟨[], .src (.sing i) (keyObs σ1 m1 (.sing i)), .src (.sing i) (keyObs σ2 m2 (.sing i)), [], [], rfl,
        by rw [hR2]; rfl, rfl, fun e => ho (by injection e)⟩
  | @trk i a =>
    intro v2 R2 h2
    cases h2 with
    | trk =>
      by_cases ho : keyObs σ1 m1 (.ctr i) = keyObs σ2 m2 (.ctr i)
      · left
        have : mapLen m1 i = mapLen m2 i := by
          have := congrArg Prod.snd ho
          simpa [keyObs] using this
        exact ⟨this, by rw [ho]⟩
      · right
        exact ⟨[], .src (.ctr i) (keyObs σ1 m1 (.ctr i)), .src (.ctr i) (keyObs σ2 m2 (.ctr i)), [], [], rfl, rfl, rfl,
          fun e => ho (by injection e)⟩
  | @call f e a av v R Rb he hb ihe ihb =>
    intro v2 R2 h2
    cases h2 with
    | @call _ _ _ av2 _ Re2 Rb2 he2 hb2 =>
      rcases ihe he2 with ⟨e1, e2⟩ | ⟨pre, r1, r2, p1, p2, hR1, hR2, ht, hne⟩
      · subst e1; subst e2
        by_cases hv : v = v2
        · left; subst hv; exact ⟨rfl, rfl⟩
        · right
          exact ⟨R, .node (nodeOf P f av) v, .node (nodeOf P f av) v2, [], [], rfl, rfl, rfl,
            fun e => hv (by injection e)⟩
      · right
        exact ⟨pre, r1, r2, p1 ++ [.node (nodeOf P f av) v], p2 ++ [.node (nodeOf P f av2) v2],
          by rw [hR1]; simp, by rw [hR2]; simp, ht, hne⟩
  | @add x y a xv yv Rx Ry hx hy ihx ihy =>
    intro v2 R2 h2
    cases h2 with
    | @add _ _ _ xv2 yv2 Rx2 Ry2 hx2 hy2 =>
      rcases ihx hx2 with ⟨e1, e2⟩ | ⟨pre, r1, r2, p1, p2, hR1, hR2, ht, hne⟩
      · subst e1; subst e2
        rcases ihy hy2 with ⟨e3, e4⟩ | ⟨pre, r1, r2, p1, p2, hR1, hR2, ht, hne⟩
        · subst e3; subst e4; exact Or.inl ⟨rfl, rfl⟩
        · right
          exact ⟨Rx ++ pre, r1, r2, p1, p2, by rw [hR1]; simp, by rw [hR2]; simp, ht, hne⟩
      · right
        exact ⟨pre, r1, r2, p1 ++ Ry, p2 ++ Ry2, by rw [hR1]; simp, by rw [hR2]; simp, ht, hne⟩
  | @eq x y a xv yv Rx Ry hx hy ihx ihy =>
    intro v2 R2 h2
    cases h2 with
    | @eq _ _ _ xv2 yv2 Rx2 Ry2 hx2 hy2 =>
      rcases ihx hx2 with ⟨e1, e2⟩ | ⟨pre, r1, r2, p1, p2, hR1, hR2, ht, hne⟩
      · subst e1; subst e2
        rcases ihy hy2 with ⟨e3, e4⟩ | ⟨pre, r1, r2, p1, p2, hR1, hR2, ht, hne⟩
        · subst e3; subst e4; exact Or.inl ⟨rfl, rfl⟩
        · right
          exact ⟨Rx ++ pre, r1, r2, p1, p2, by rw [hR1]; simp, by rw [hR2]; simp, ht, hne⟩
      · right
        exact ⟨pre, r1, r2, p1 ++ Ry, p2 ++ Ry2, by rw [hR1]; simp, by rw [hR2]; simp, ht, hne⟩
  | @iteT c t e a cv v Rc Rt hc hz ht ihc iht =>
    intro v2 R2 h2
    cases h2 with
    | @iteT _ _ _ _ cv2 _ Rc2 Rt2 hc2 hz2 ht2 =>
      rcases ihc hc2 with ⟨e1, e2⟩ | ⟨pre, r1, r2, p1, p2, hR1, hR2, htg, hne⟩
      · subst e1; subst e2
        rcases iht ht2 with ⟨e3, e4⟩ | ⟨pre, r1, r2, p1, p2, hR1, hR2, htg, hne⟩
        · subst e3; subst e4; exact Or.inl ⟨rfl, rfl⟩
        · right
          exact ⟨Rc ++ pre, r1, r2, p1, p2, by rw [hR1]; simp, by rw [hR2]; simp, htg, hne⟩
      · right
        exact ⟨pre, r1, r2, p1 ++ Rt, p2 ++ Rt2, by rw [hR1]; simp, by rw [hR2]; simp, htg, hne⟩
    | @iteF _ _ _ _ _ Rc2 Re2 hc2 he2 =>
      rcases ihc hc2 with ⟨e1, e2⟩ | ⟨pre, r1, r2, p1, p2, hR1, hR2, htg, hne⟩
      · exact absurd e1 hz
      · right
        exact ⟨pre, r1, r2, p1 ++ Rt, p2 ++ Re2, by rw [hR1]; simp, by rw [hR2]; simp, htg, hne⟩
  | @iteF c t e a v Rc Re hc he ihc ihe =>
    intro v2 R2 h2
    cases h2 with
    | @iteT _ _ _ _ cv2 _ Rc2 Rt2 hc2 hz2 ht2 =>
      rcases ihc hc2 with ⟨e1, e2⟩ | ⟨pre, r1, r2, p1, p2, hR1, hR2, htg, hne⟩
      · exact absurd e1.symm hz2
      · right
        exact ⟨pre, r1, r2, p1 ++ Re, p2 ++ Rt2, by rw [hR1]; simp, by rw [hR2]; simp, htg, hne⟩
    | @iteF _ _ _ _ _ Rc2 Re2 hc2 he2 =>
      rcases ihc hc2 with ⟨e1, e2⟩ | ⟨pre, r1, r2, p1, p2, hR1, hR2, htg, hne⟩
      · subst e2
        rcases ihe he2 with ⟨e3, e4⟩ | ⟨pre, r1, r2, p1, p2, hR1, hR2, htg, hne⟩
        · subst e3; subst e4; exact Or.inl ⟨rfl, rfl⟩
        · right
          exact ⟨Rc ++ pre, r1, r2, p1, p2, by rw [hR1]; simp, by rw [hR2]; simp, htg, hne⟩
      · right
        exact ⟨pre, r1, r2, p1 ++ Re, p2 ++ Re2, by rw [hR1]; simp, by rw [hR2]; simp, htg, hne⟩
  | @half x a xv R hx ih =>
    intro v2 R2 h2
    cases h2 with
    | @half _ _ xv2 R2' hx2 =>
      rcases ih hx2 with ⟨e1, e2⟩ | ⟨pre, r1, r2, p1, p2, hR1, hR2, ht, hne⟩
      · subst e1; subst e2; exact Or.inl ⟨rfl, rfl⟩
      · right; exact ⟨pre, r1, r2, p1, p2, hR1, hR2, ht, hne⟩

end IsoVerif.Pico
