/-
Helper lemmas for Props/C28.lean, part 3: path-component arithmetic.  The relative path the transform
builds (`pathdiff::diff_paths` + the format string), appended to the directory of the file and
normalised, is the path the compiler writes the entrypoint artifact to.
-/
import IsoVerif.Lemmas.Swc

namespace IsoVerif.Swc
open IsoVerif.Gen.SwcLits

/-- An ordinary directory / file name: not empty, not `.`, not `..`, no separator inside. -/
def NormalComp (c : Str) : Prop := c ≠ [] ∧ c ≠ dot ∧ c ≠ dotdot ∧ pathSep ∉ c

def NormalComps (l : List Str) : Prop := ∀ c ∈ l, NormalComp c

/-- Boolean form of `NormalComps`, for concrete lists. -/
def normalCompB (c : Str) : Bool := c != [] && c != dot && c != dotdot && !(c.contains pathSep)

theorem normalComp_of_B {c : Str} (h : normalCompB c = true) : NormalComp c := by
  simp only [normalCompB, Bool.and_eq_true, bne_iff_ne, ne_eq, Bool.not_eq_true', List.contains_eq_mem,
    decide_eq_false_iff_not] at h
  exact ⟨h.1.1.1, h.1.1.2, h.1.2, h.2⟩

theorem normalComps_of_all {l : List Str} (h : l.all normalCompB = true) : NormalComps l := by
  intro c hc
  exact normalComp_of_B (List.all_eq_true.mp h c hc)

theorem normalize_cons_normal {c : Str} (h : NormalComp c) (acc : List Str) (cs : List Str) :
    normalize acc (c :: cs) = normalize (c :: acc) cs := by
  obtain ⟨h1, h2, h3, _⟩ := h
  simp [normalize, h1, h2, h3]

theorem normalize_cons_dotdot (a : Str) (acc cs : List Str) :
    normalize (a :: acc) (dotdot :: cs) = normalize acc cs := by
  simp [normalize, dotdot, dot]

theorem normalize_cons_nil (acc cs : List Str) : normalize acc ([] :: cs) = normalize acc cs := by
  simp [normalize]

theorem normalize_cons_dot (acc cs : List Str) : normalize acc (dot :: cs) = normalize acc cs := by
  simp [normalize]

/-- walking down ordinary names -/
theorem normalize_push {L : List Str} (h : NormalComps L) (acc X : List Str) :
    normalize acc (L ++ X) = normalize (L.reverse ++ acc) X := by
  induction L generalizing acc with
  | nil => simp
  | cons c L ih =>
    rw [List.cons_append, normalize_cons_normal (h c (by simp)), ih (fun x hx => h x (by simp [hx]))]
    simp

/-- walking down `D` and up again as many times -/
theorem normalize_up {D : List Str} (h : NormalComps D) (acc X : List Str) :
    normalize acc (D ++ (List.replicate D.length dotdot ++ X)) = normalize acc X := by
  induction D generalizing acc X with
  | nil => simp
  | cons d D ih =>
    rw [List.cons_append, normalize_cons_normal (h d (by simp))]
    have e : List.replicate (d :: D).length dotdot ++ X = List.replicate D.length dotdot ++ (dotdot :: X) := by
      simp only [List.length_cons, List.replicate_succ']
      simp
    rw [e, ih (fun x hx => h x (by simp [hx])), normalize_cons_dotdot]

theorem map_const_eq_replicate {α β} (l : List α) (b : β) : l.map (fun _ => b) = List.replicate l.length b := by
  induction l with
  | nil => rfl
  | cons _ _ ih => simp [List.replicate_succ, ih]

/-- `diff_paths(A, D)` exists when `D` has no `..`, consists of `..` and names of `A`, and leads from
`D` to `A`. -/
theorem diff_resolve {A D : List Str} (hA : NormalComps A) (hD : NormalComps D) :
    ∃ rel, diffPaths A D = some rel ∧ (∀ c ∈ rel, c = dotdot ∨ c ∈ A) ∧
      ∀ acc X, normalize acc (D ++ (rel ++ X)) = normalize (A.reverse ++ acc) X := by
  induction A generalizing D with
  | nil =>
    refine ⟨D.map fun _ => dotdot, by cases D <;> simp [diffPaths], ?_, ?_⟩
    · intro c hc; simp at hc; exact Or.inl hc.2.symm
    · intro acc X
      rw [map_const_eq_replicate, normalize_up hD]; simp
  | cons a A ih =>
    cases D with
    | nil =>
      refine ⟨a :: A, by simp [diffPaths], fun c hc => Or.inr hc, ?_⟩
      intro acc X
      simpa using normalize_push hA acc X
    | cons b D =>
      by_cases hab : a = b
      · subst hab
        obtain ⟨rel, h1, h2, h3⟩ := ih (D := D) (fun x hx => hA x (by simp [hx])) (fun x hx => hD x (by simp [hx]))
        refine ⟨rel, by simp [diffPaths, h1], fun c hc => (h2 c hc).imp id (fun h => by simp [h]), ?_⟩
        intro acc X
        rw [List.cons_append, normalize_cons_normal (hD a (by simp)), h3]
        simp
      · have hb : b ≠ dotdot := (hD b (by simp)).2.2.1
        refine ⟨dotdot :: (D.map fun _ => dotdot) ++ a :: A, by simp [diffPaths, hab, hb], ?_, ?_⟩
        · intro c hc
          simp only [List.cons_append, List.mem_cons, List.mem_append, List.mem_map] at hc
          rcases hc with rfl | ⟨_, _, rfl⟩ | rfl | hc
          · exact Or.inl rfl
          · exact Or.inl rfl
          · exact Or.inr (by simp)
          · exact Or.inr (by simp [hc])
        · intro acc X
          have e : (b :: D) ++ ((dotdot :: (D.map fun _ => dotdot) ++ a :: A) ++ X)
              = (b :: D) ++ (List.replicate (b :: D).length dotdot ++ ((a :: A) ++ X)) := by
            rw [map_const_eq_replicate]
            simp [List.replicate_succ]
          rw [e, normalize_up hD, normalize_push hA]

/-! ### splitting the formatted string back into components -/

theorem splitOn_ne_nil (sep : Nat) (s : Str) : splitOn sep s ≠ [] := by
  induction s with
  | nil => simp [splitOn]
  | cons c cs ih =>
    simp only [splitOn]
    split
    · simp
    · split <;> simp

theorem splitOn_append_sep {sep : Nat} {a : Str} (h : sep ∉ a) (b : Str) :
    splitOn sep (a ++ sep :: b) = a :: splitOn sep b := by
  induction a with
  | nil => simp [splitOn]
  | cons c a ih =>
    have hc : c ≠ sep := fun e => h (by simp [e])
    have := ih (fun hm => h (by simp [hm]))
    simp [splitOn, hc, this]

theorem splitOn_nosep {sep : Nat} {a : Str} (h : sep ∉ a) : splitOn sep a = [a] := by
  induction a with
  | nil => simp [splitOn]
  | cons c a ih =>
    have hc : c ≠ sep := fun e => h (by simp [e])
    have := ih (fun hm => h (by simp [hm]))
    simp [splitOn, hc, this]

/-- the empty relative directory shows up as an empty first component (the string starts with the separator) -/
def relOrEmpty (rel : List Str) : List Str := if rel = [] then [[]] else rel

theorem splitOn_joinSep {sep : Nat} {rel : List Str} (h : ∀ c ∈ rel, sep ∉ c) (Y : Str) :
    splitOn sep (joinSep sep rel ++ sep :: Y) = relOrEmpty rel ++ splitOn sep Y := by
  induction rel with
  | nil => simp [joinSep, splitOn, relOrEmpty]
  | cons a rel ih =>
    cases rel with
    | nil => simp [joinSep, relOrEmpty, splitOn_append_sep (h a (by simp))]
    | cons b t =>
      have ih' := ih (fun c hc => h c (by simp [hc]))
      simp only [joinSep, List.append_assoc, List.cons_append]
      rw [splitOn_append_sep (h a (by simp)), ih']
      simp [relOrEmpty]

theorem normalize_relOrEmpty (acc rel X : List Str) :
    normalize acc (relOrEmpty rel ++ X) = normalize acc (rel ++ X) := by
  unfold relOrEmpty
  split
  · rename_i h; subst h; simp [normalize_cons_nil]
  · rfl

theorem normalize_normal_nil {A : List Str} (h : NormalComps A) : normalize [] A = some A := by
  have := normalize_push h [] []
  simpa [normalize] using this

/-! ### closed facts -/

theorem entry_file_eq : entrypointDisplay ++ pathSuffix = entrypointFileName := by decide
theorem entry_file_normal : NormalComp entrypointFileName := by
  refine ⟨by decide, by decide, by decide, by decide⟩
theorem isographFolder_normal : NormalComp isographFolder := by
  refine ⟨by decide, by decide, by decide, by decide⟩
theorem dotdot_nosep : pathSep ∉ dotdot := by decide
theorem dotPrefix_eq : dotPrefix = dot ++ [pathSep] := by decide

/-- the format string `"{}/{}/{}/{}.ts"` applied to the relative directory, type, field, `entrypoint` -/
def formatted (rel : List Str) (t f : Str) : Str :=
  joinSep pathSep rel ++ pathSep :: t ++ pathSep :: f ++ pathSep :: entrypointDisplay ++ pathSuffix

theorem formatted_eq (rel : List Str) (t f : Str) :
    formatted rel t f
      = joinSep pathSep rel ++ pathSep :: (t ++ pathSep :: (f ++ pathSep :: (entrypointDisplay ++ pathSuffix))) := by
  simp [formatted]

/-- The string the transform emits, split at the separators and appended to the file's directory,
normalises to `A ++ [t, f, entrypoint file]`. -/
theorem resolve_formatted {A D rel : List Str} {t f : Str} (hA : NormalComps A)
    (hrel : ∀ c ∈ rel, c = dotdot ∨ c ∈ A)
    (hres : ∀ acc X, normalize acc (D ++ (rel ++ X)) = normalize (A.reverse ++ acc) X)
    (ht : NormalComp t) (hf : NormalComp f) (pre : Bool) :
    normalize [] (D ++ splitOn pathSep ((if pre then dotPrefix else []) ++ formatted rel t f))
      = some (A ++ [t, f, entrypointFileName]) := by
  have hsep : ∀ c ∈ rel, pathSep ∉ c := by
    intro c hc
    rcases hrel c hc with rfl | hm
    · exact dotdot_nosep
    · exact (hA c hm).2.2.2
  have hE : pathSep ∉ entrypointDisplay ++ pathSuffix := by rw [entry_file_eq]; exact entry_file_normal.2.2.2
  have hsplit : splitOn pathSep (formatted rel t f) = relOrEmpty rel ++ [t, f, entrypointFileName] := by
    rw [formatted_eq, splitOn_joinSep hsep, splitOn_append_sep ht.2.2.2, splitOn_append_sep hf.2.2.2, splitOn_nosep hE,
      entry_file_eq]
  have hmain : normalize [] (D ++ (relOrEmpty rel ++ [t, f, entrypointFileName])) = some (A ++ [t, f, entrypointFileName]) := by
    have hn : ∀ acc, normalize acc (D ++ (relOrEmpty rel ++ [t, f, entrypointFileName]))
        = normalize acc (D ++ (rel ++ [t, f, entrypointFileName])) := by
      intro acc
      unfold relOrEmpty
      split
      · rename_i h; subst h
        show normalize acc (D ++ ([] :: [t, f, entrypointFileName])) = normalize acc (D ++ [t, f, entrypointFileName])
        have h0 := hres acc ([] :: [t, f, entrypointFileName])
        have h1 := hres acc [t, f, entrypointFileName]
        simp only [List.nil_append] at h0 h1
        rw [h0, h1, normalize_cons_nil]
      · rfl
    rw [hn, hres, normalize_cons_normal ht, normalize_cons_normal hf, normalize_cons_normal entry_file_normal]
    simp [normalize]
  cases pre with
  | false =>
    simp only [Bool.false_eq_true, if_false, List.nil_append]
    rw [hsplit]; exact hmain
  | true =>
    have hdot : pathSep ∉ dot := by decide
    simp only [if_true, dotPrefix_eq, List.append_assoc, List.singleton_append]
    rw [splitOn_append_sep hdot, hsplit]
    have hn : ∀ acc, normalize acc (D ++ dot :: (relOrEmpty rel ++ [t, f, entrypointFileName]))
        = normalize acc (D ++ (relOrEmpty rel ++ [t, f, entrypointFileName])) := by
      intro acc
      have hD : ∀ (D : List Str) acc (Y : List Str), normalize acc (D ++ dot :: Y) = normalize acc (D ++ Y) := by
        intro D
        induction D with
        | nil => intro acc Y; simp [normalize_cons_dot]
        | cons d D ih =>
          intro acc Y
          simp only [List.cons_append, normalize]
          split
          · exact ih _ _
          · split
            · split
              · rfl
              · exact ih _ _
            · exact ih _ _
      exact hD D acc _
    rw [hn, hmain]

/-- **Path**: the emitted relative path resolves, from the directory of the file, to the file the
compiler writes -- for every depth and position of the file, both ways of writing the prefix. -/
theorem path_resolves {D : List Str} {cfg : Cfg} {t f : Str}
    (hA : NormalComps (artifactDirComps cfg)) (hD : NormalComps D) (ht : NormalComp t) (hf : NormalComp f) :
    ∃ p, pathForArtifact D cfg t f = .ok p ∧
      resolveFrom D p = compilerArtifact cfg t f ∧
      compilerArtifact cfg t f = some (artifactDirComps cfg ++ [t, f, entrypointFileName]) := by
  obtain ⟨rel, h1, h2, h3⟩ := diff_resolve hA hD
  have hc : compilerArtifact cfg t f = some (artifactDirComps cfg ++ [t, f, entrypointFileName]) := by
    simp [compilerArtifact, normalize_normal_nil hA]
  have hp : pathForArtifact D cfg t f
      = .ok ((if rel.head? = some isographFolder then dotPrefix else []) ++ formatted rel t f) := by
    simp only [pathForArtifact, h1]
    split <;> rfl
  refine ⟨_, hp, ?_, hc⟩
  rw [hc]
  unfold resolveFrom
  by_cases hh : rel.head? = some isographFolder
  · simpa [hh] using resolve_formatted hA h2 h3 ht hf true
  · simpa [hh] using resolve_formatted hA h2 h3 ht hf false

/-! ### the specifier form (`./` or `../` in front) -/

theorem diffPaths_prefix (P X Y : List Str) : diffPaths (P ++ X) (P ++ Y) = diffPaths X Y := by
  induction P with
  | nil => rfl
  | cons p P ih => simp [diffPaths, ih]

theorem joinSep_cons_cons (sep : Nat) (a b : Str) (t : List Str) :
    joinSep sep (a :: b :: t) = a ++ sep :: joinSep sep (b :: t) := rfl

/-- A file in or below the directory that holds `__isograph` (and not inside `__isograph` itself)
gets a specifier starting with `./` or `../`. -/
theorem specifier_relative_below {cfg : Cfg} {E : List Str} {t f : Str}
    (hE : NormalComps E) (hiso : E.head? ≠ some isographFolder) :
    ∃ p, pathForArtifact (components (cfg.artifactDirectory.getD cfg.projectRoot) ++ E) cfg t f = .ok p ∧
      isRelativeSpecifier p = true := by
  unfold pathForArtifact artifactDirComps
  rw [diffPaths_prefix]
  cases E with
  | nil =>
    refine ⟨_, by simp only [diffPaths]; rfl, ?_⟩
    simp [isRelativeSpecifier, dotPrefix, stripPrefix]
  | cons e E =>
    have he : e ≠ dotdot := (hE e (by simp)).2.2.1
    have hne : isographFolder ≠ e := fun h => hiso (by simp [h])
    have hd : diffPaths [isographFolder] (e :: E)
        = some (dotdot :: ((E.map fun _ => dotdot) ++ [isographFolder])) := by
      simp [diffPaths, hne, he]
    refine ⟨_, by simp only [hd]; rfl, ?_⟩
    have hh : (dotdot :: ((E.map fun _ => dotdot) ++ [isographFolder])).head? ≠ some isographFolder := by
      simp only [List.head?_cons, ne_eq, Option.some.injEq]; decide
    simp only [hh, if_false]
    cases hm : (E.map fun _ => dotdot) ++ [isographFolder] with
    | nil => simp at hm
    | cons b tl =>
      rw [joinSep_cons_cons]
      simp [isRelativeSpecifier, dotdot, stripPrefix, pathSep]

end IsoVerif.Swc
