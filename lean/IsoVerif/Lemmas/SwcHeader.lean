/-
Helper lemmas for Props/C28.lean, part 2: what a literal whose header the parser accepts looks like,
what `trim` does to it, and the first success of OPERATION_REGEX on it.
-/
import IsoVerif.Lemmas.Swc

namespace IsoVerif.Swc
open IsoVerif.Gen.SwcLits

/-! ### The shape of the regex (re-checked against the regenerated AST) -/

def reWs : List (Nat × Nat) :=
  match opRegex with
  | .cat (.star (.cls false ws)) _ => ws
  | _ => []

def reKw : Re :=
  match opRegex with
  | .cat _ (.cat (.grp 1 kw) _) => kw
  | _ => .eps

def reIdS : List (Nat × Nat) :=
  match opRegex with
  | .cat _ (.cat _ (.cat _ (.cat (.grp 2 (.cat (.cls false s) _)) _))) => s
  | _ => []

def reIdC : List (Nat × Nat) :=
  match opRegex with
  | .cat _ (.cat _ (.cat _ (.cat (.grp 2 (.cat _ (.star (.cls false c)))) _))) => c
  | _ => []

def reIdent : Re := .cat (.cls false reIdS) (.star (.cls false reIdC))

/-- `WS* (kw) WS* (ident) WS* . WS* (ident)` -/
theorem opRegex_shape :
    opRegex =
      .cat (.star (.cls false reWs)) (.cat (.grp 1 reKw) (.cat (.star (.cls false reWs))
        (.cat (.grp 2 reIdent) (.cat (.star (.cls false reWs)) (.cat (.lit [lexPeriod])
          (.cat (.star (.cls false reWs)) (.grp 3 reIdent))))))) := by
  rfl

/-! ### Closed facts about the tables (decided by evaluation) -/

theorem lexWs_sub_reWs : rangesSubset lexWs reWs = true := by decide
theorem identStart_sub : rangesSubset lexIdentStart reIdS = true := by decide
theorem identCont_sub : rangesSubset lexIdentCont reIdC = true := by decide
theorem reIdC_sub : rangesSubset reIdC lexIdentCont = true := by decide
theorem identStart_not_reWs : rangesDisjoint lexIdentStart reWs = true := by decide
theorem lexWs_not_reIdC : rangesDisjoint lexWs reIdC = true := by decide
theorem period_not_reWs : inRanges reWs lexPeriod = false := by decide
theorem period_not_reIdC : inRanges reIdC lexPeriod = false := by decide
theorem identStart_not_white : rangesDisjoint lexIdentStart whiteSpace = true := by decide
theorem identCont_not_white : rangesDisjoint lexIdentCont whiteSpace = true := by decide
theorem trimsInput_true : trimsInput = true := by decide

/-- every keyword of the parser is matched by the alternation of the regex, whatever follows -/
theorem first_reKw : ∀ p ∈ parserKeywords, ∀ (rest : Str) (caps : List (Nat × Str)),
    first reKw ⟨p.1 ++ rest, caps⟩ = some ⟨rest, caps⟩ := by
  intro p hp rest caps
  simp only [parserKeywords, List.mem_cons, List.not_mem_nil, or_false] at hp
  rcases hp with rfl | rfl | rfl <;>
    simp [first, reKw, opRegex, matchAll, stripPrefix]

/-! ### Shape of an accepted header -/

def IsIdent (x : Str) : Prop :=
  ∃ c cs, x = c :: cs ∧ isIdentStart c = true ∧ ∀ y ∈ cs, isIdentCont y = true

def AllWs (w : Str) : Prop := ∀ c ∈ w, isLexWs c = true

def StopsIdent (r : Str) : Prop := ∀ c, r.head? = some c → isIdentCont c = false

structure HeaderShape (s k t f r : Str) : Prop where
  ex : ∃ w0 w1 w2 w3, AllWs w0 ∧ AllWs w1 ∧ AllWs w2 ∧ AllWs w3 ∧
      s = w0 ++ (k ++ (w1 ++ (t ++ (w2 ++ (lexPeriod :: (w3 ++ (f ++ r)))))))
  kw : ∃ p ∈ parserKeywords, p.1 = k
  ik : IsIdent k
  it : IsIdent t
  ifd : IsIdent f
  stop : StopsIdent r

theorem mem_takeWhile_true {α} {p : α → Bool} {l : List α} {a : α} (h : a ∈ l.takeWhile p) : p a = true := by
  induction l with
  | nil => simp at h
  | cons x xs ih =>
    cases hx : p x with
    | false => simp [hx] at h
    | true =>
      simp only [List.takeWhile_cons, hx, if_true, List.mem_cons] at h
      rcases h with rfl | h
      · exact hx
      · exact ih h

theorem skipWs_decomp (s : Str) : ∃ w, AllWs w ∧ s = w ++ skipWs s :=
  ⟨s.takeWhile isLexWs, fun _ hc => mem_takeWhile_true hc, (List.takeWhile_append_dropWhile).symm⟩

theorem head?_dropWhile_false {α} (p : α → Bool) (l : List α) :
    ∀ c, (l.dropWhile p).head? = some c → p c = false := by
  induction l with
  | nil => simp
  | cons x xs ih =>
    intro c
    cases hx : p x with
    | true => simpa [List.dropWhile_cons, hx] using ih c
    | false =>
      simp only [List.dropWhile_cons, hx, Bool.false_eq_true, if_false, List.head?_cons, Option.some.injEq]
      intro h; subst h; exact hx

theorem takeIdent_spec {s id r : Str} (h : takeIdent s = some (id, r)) :
    IsIdent id ∧ s = id ++ r ∧ StopsIdent r := by
  cases s with
  | nil => simp [takeIdent] at h
  | cons c l =>
    simp only [takeIdent] at h
    split at h
    · rename_i hc
      simp only [Option.some.injEq, Prod.mk.injEq] at h
      obtain ⟨rfl, rfl⟩ := h
      refine ⟨⟨c, _, rfl, hc, fun y hy => mem_takeWhile_true hy⟩, ?_, ?_⟩
      · simp [List.takeWhile_append_dropWhile]
      · exact head?_dropWhile_false _ _
    · simp at h

theorem parserKind_mem {k : Str} {n : Nat} (h : parserKind k = some n) : ∃ p ∈ parserKeywords, p.1 = k := by
  unfold parserKind at h
  cases hf : parserKeywords.find? (fun p => p.1 == k) with
  | none => simp [hf] at h
  | some p =>
    have h1 := List.mem_of_find?_eq_some hf
    have h2 := List.find?_some hf
    exact ⟨p, h1, by simpa using h2⟩

theorem shape_of_parse {lit k t f r : Str} (h : parseHeaderRest lit = some (k, t, f, r)) :
    HeaderShape lit k t f r := by
  unfold parseHeaderRest at h
  split at h
  · simp at h
  · rename_i kw r1 h1
    split at h
    · simp at h
    · rename_i n hk
      split at h
      · simp at h
      · rename_i t' r2 h2
        split at h
        · rename_i c r3 h3
          split at h
          · rename_i hc
            split at h
            · rename_i f' r4 h4
              simp only [Option.some.injEq, Prod.mk.injEq] at h
              obtain ⟨rfl, rfl, rfl, rfl⟩ := h
              obtain ⟨ik, e1, _⟩ := takeIdent_spec h1
              obtain ⟨it, e2, _⟩ := takeIdent_spec h2
              obtain ⟨ifd, e4, st⟩ := takeIdent_spec h4
              obtain ⟨w0, hw0, d0⟩ := skipWs_decomp lit
              obtain ⟨w1, hw1, d1⟩ := skipWs_decomp r1
              obtain ⟨w2, hw2, d2⟩ := skipWs_decomp r2
              obtain ⟨w3, hw3, d3⟩ := skipWs_decomp r3
              refine ⟨⟨w0, w1, w2, w3, hw0, hw1, hw2, hw3, ?_⟩, parserKind_mem hk, ik, it, ifd, st⟩
              rw [d0, e1, d1, e2, d2, h3, hc, d3, e4]
            · simp at h
          · simp at h
        · simp at h

/-! ### `trim` keeps the shape -/

theorem dropWhile_append_head {α} (p : α → Bool) (a b : List α) (hne : b ≠ [])
    (hb : ∀ x, b.head? = some x → p x = false) : (a ++ b).dropWhile p = a.dropWhile p ++ b := by
  induction a with
  | nil =>
    cases b with
    | nil => exact absurd rfl hne
    | cons x xs =>
      have := hb x (by simp)
      simp [this]
  | cons c a ih =>
    cases hc : p c with
    | true => simpa [List.dropWhile_cons, hc] using ih
    | false => simp [hc]

theorem trimEnd_append (p : Nat → Bool) (Q : Str) (b : Nat) (r : Str) (hb : p b = false) :
    ((Q ++ b :: r).reverse.dropWhile p).reverse = Q ++ b :: (r.reverse.dropWhile p).reverse := by
  have e : (Q ++ b :: r).reverse = r.reverse ++ (b :: Q.reverse) := by simp
  rw [e, dropWhile_append_head p _ _ (by simp) (by intro x hx; simp at hx; subst hx; exact hb)]
  simp

theorem allWs_dropWhile {w : Str} (p : Nat → Bool) (h : AllWs w) : AllWs (w.dropWhile p) :=
  fun c hc => h c ((List.dropWhile_sublist p).subset hc)

theorem stops_trimEnd {r : Str} (p : Nat → Bool) (h : StopsIdent r) :
    StopsIdent (r.reverse.dropWhile p).reverse := by
  have e : r = (r.reverse.dropWhile p).reverse ++ (r.reverse.takeWhile p).reverse := by
    have h1 := List.takeWhile_append_dropWhile (p := p) (l := r.reverse)
    calc r = r.reverse.reverse := (List.reverse_reverse r).symm
      _ = (r.reverse.takeWhile p ++ r.reverse.dropWhile p).reverse := by rw [h1]
      _ = _ := List.reverse_append
  intro c hc
  apply h c
  rw [e]
  exact head?_append_of_head? hc

theorem ident_not_white {x : Str} (h : IsIdent x) : ∀ c ∈ x, isWhiteSpace c = false := by
  obtain ⟨c0, cs, rfl, h0, hcs⟩ := h
  intro c hc
  simp only [List.mem_cons] at hc
  rcases hc with rfl | hc
  · exact rangesDisjoint_sound identStart_not_white h0
  · exact rangesDisjoint_sound identCont_not_white (hcs c hc)

theorem shape_trim {s k t f r : Str} (h : HeaderShape s k t f r) : ∃ r', HeaderShape (trim s) k t f r' := by
  obtain ⟨⟨w0, w1, w2, w3, hw0, hw1, hw2, hw3, rfl⟩, hkw, ik, it, ifd, st⟩ := h
  obtain ⟨k0, ks, rfl, hk0, hks⟩ := ik
  -- the last character of the field name
  have hf_ne : f ≠ [] := by obtain ⟨c, cs, rfl, _⟩ := ifd; simp
  obtain ⟨L, b, rfl⟩ : ∃ L b, f = L ++ [b] := by
    rcases List.eq_nil_or_concat f with hnil | ⟨L, b, hL⟩
    · exact absurd hnil hf_ne
    · exact ⟨L, b, by simpa using hL⟩
  have hbw : isWhiteSpace b = false := ident_not_white ifd b (by simp)
  have hk0w : isWhiteSpace k0 = false := rangesDisjoint_sound identStart_not_white hk0
  refine ⟨(r.reverse.dropWhile isWhiteSpace).reverse,
    ⟨w0.dropWhile isWhiteSpace, w1, w2, w3, allWs_dropWhile _ hw0, hw1, hw2, hw3, ?_⟩,
    hkw, ⟨k0, ks, rfl, hk0, hks⟩, it, ifd, stops_trimEnd _ st⟩
  unfold trim
  rw [dropWhile_append_head isWhiteSpace w0 _ (by simp)
    (by intro x hx; simp at hx; subst hx; exact hk0w)]
  have e : w0.dropWhile isWhiteSpace ++ ((k0 :: ks) ++ (w1 ++ (t ++ (w2 ++ (lexPeriod :: (w3 ++ ((L ++ [b]) ++ r)))))))
      = (w0.dropWhile isWhiteSpace ++ ((k0 :: ks) ++ (w1 ++ (t ++ (w2 ++ (lexPeriod :: (w3 ++ L))))))) ++ b :: r := by
    simp
  rw [e, trimEnd_append isWhiteSpace _ b r hbw]
  simp

/-! ### The regex on an accepted header -/

theorem first_grp_append {i : Nat} {re : Re} {x rest : Str} {caps caps' : List (Nat × Str)}
    (h : first re ⟨x ++ rest, caps⟩ = some ⟨rest, caps'⟩) :
    first (.grp i re) ⟨x ++ rest, caps⟩ = some ⟨rest, (i, x) :: caps'⟩ := by
  rw [first_grp h]
  simp

theorem allWs_reWs {w : Str} (h : AllWs w) : ∀ c ∈ w, inRanges reWs c = true :=
  fun c hc => rangesSubset_sound lexWs_sub_reWs (h c hc)

theorem first_reIdent {x rest : Str} (caps : List (Nat × Str)) (hx : IsIdent x)
    (hr : ∀ c, rest.head? = some c → inRanges reIdC c = false) :
    first reIdent ⟨x ++ rest, caps⟩ = some ⟨rest, caps⟩ := by
  obtain ⟨c, cs, rfl, hc, hcs⟩ := hx
  exact first_ident c cs rest caps (rangesSubset_sound identStart_sub hc)
    (fun y hy => rangesSubset_sound identCont_sub (hcs y hy)) hr

theorem ident_head_not_reWs {x rest : Str} (hx : IsIdent x) :
    ∀ c, (x ++ rest).head? = some c → inRanges reWs c = false := by
  obtain ⟨c0, cs, rfl, h0, _⟩ := hx
  intro c hc
  simp at hc
  subst hc
  exact rangesDisjoint_sound identStart_not_reWs h0

theorem ws_period_head_not_reIdC {w rest : Str} (hw : AllWs w) :
    ∀ c, (w ++ (lexPeriod :: rest)).head? = some c → inRanges reIdC c = false := by
  intro c hc
  cases w with
  | nil =>
    simp at hc
    subst hc
    exact period_not_reIdC
  | cons x xs =>
    simp at hc
    subst hc
    exact rangesDisjoint_sound lexWs_not_reIdC (hw _ (by simp))

theorem first_opRegex_shape {s k t f r : Str} (h : HeaderShape s k t f r) :
    first opRegex ⟨s, []⟩ = some ⟨r, [(3, f), (2, t), (1, k)]⟩ := by
  obtain ⟨⟨w0, w1, w2, w3, hw0, hw1, hw2, hw3, rfl⟩, ⟨p, hp, rfl⟩, ik, it, ifd, st⟩ := h
  rw [opRegex_shape]
  refine first_cat (first_star_cls w0 _ [] (allWs_reWs hw0) (ident_head_not_reWs ik)) ?_
  refine first_cat (first_grp_append (first_reKw p hp _ [])) ?_
  refine first_cat (first_star_cls w1 _ _ (allWs_reWs hw1) (ident_head_not_reWs it)) ?_
  refine first_cat (first_grp_append (first_reIdent _ it (ws_period_head_not_reIdC hw2))) ?_
  refine first_cat (first_star_cls w2 _ _ (allWs_reWs hw2)
    (by intro c hc; simp at hc; subst hc; exact period_not_reWs)) ?_
  refine first_cat (first_lit [lexPeriod] _ _) ?_
  refine first_cat (first_star_cls w3 _ _ (allWs_reWs hw3) (ident_head_not_reWs ifd)) ?_
  exact first_grp_append (first_reIdent _ ifd
    (fun c hc => by
      cases hcc : inRanges reIdC c with
      | false => rfl
      | true => exact absurd (rangesSubset_sound reIdC_sub hcc) (by simpa [isIdentCont] using st c hc)))

/-- **Classification**: on every literal whose header the parser accepts, the transform captures the
parser's keyword, type and field. -/
theorem captures_of_parse {lit k t f r : Str} (h : parseHeaderRest lit = some (k, t, f, r)) :
    swcCaptures lit = .ok k t f := by
  obtain ⟨r', hs⟩ := shape_trim (shape_of_parse h)
  have := search_of_first (first_opRegex_shape hs)
  simp [swcCaptures, trimsInput_true, this, cap]

end IsoVerif.Swc
