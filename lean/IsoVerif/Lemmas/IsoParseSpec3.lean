/-
`parseX_spec` lemmas, part 3: selections, declarations, `parse_iso_literal`.
-/
import IsoVerif.Lemmas.IsoParseSpec2

namespace IsoVerif.IsoParse
open IsoVerif.Lex IsoVerif.IsoLex IsoVerif.Gen.IsoTokens

variable {src : Bytes}

/-- `parse_up_to_three_dots` -/
theorem spec_parseUpToThreeDots : Spec src false parseUpToThreeDots (Good src) := by
  unfold parseUpToThreeDots
  have hinner : Spec src true (do
      let _ ← sourceOfKind .Period .DOT
      if (← peek).kind = .Period then
        let _ ← sourceOfKind .Period .DOT
        if (← peek).kind = .Period then
          let _ ← sourceOfKind .Period .DOT
          pure ()
        else pure ()
      else pure ()) (fun _ => True) := by
    refine Spec.bindL (spec_sourceOfKind .Period .DOT (by decide)) fun _ _ => ?_
    refine Spec.bindF spec_peek fun t _ => ?_
    split
    · refine Spec.bindF (spec_sourceOfKind .Period .DOT (by decide)) fun _ _ => ?_
      refine Spec.bindF spec_peek fun t _ => ?_
      split
      · exact Spec.bindF (spec_sourceOfKind .Period .DOT (by decide)) fun _ _ => Spec.pure _ trivial
      · exact Spec.pure _ trivial
    · exact Spec.pure _ trivial
  refine Spec.attemptF (spec_withLoc hinner) (fun l hl => Spec.pure _ (by simpa using hl.1)) fun _ _ => Spec.pure _ (by simp)

/-- `parse_optional_alias_and_field_name` -/
theorem spec_parseOptionalAliasAndFieldName : Spec src true parseOptionalAliasAndFieldName (Good src) := by
  unfold parseOptionalAliasAndFieldName
  refine Spec.bindL (spec_sourceOfKind .Identifier .SELECTION_NAME_OR_ALIAS (by decide)) fun first hf => ?_
  refine Spec.attemptF (spec_tokenOfKind .Colon .COLON (by decide)) (fun _ _ => ?_) fun _ _ => Spec.pure _ (by simp [hf.1])
  exact Spec.bindF (spec_sourceOfKind .Identifier .SELECTION_NAME_OR_ALIAS_POST_COLON (by decide)) fun name hn =>
    Spec.pure _ (by simp [hf.1, hn.1])

/-! ### goodness of selections -/

theorem good_selsOfList : ∀ (l : List Sel), Good src (selsOfList l) ↔ Good src l
  | [] => by simp [Good, spans, selsOfList, Sels.spans]
  | s :: tl => by
    have ih := good_selsOfList tl
    simp only [good_cons, ← ih]
    simp only [Good, spans, selsOfList, Sels.spans, List.mem_append, or_imp, forall_and]

@[simp] theorem good_selBody (b : SelBody) :
    Good src b ↔ Good src b.alias ∧ Good src b.name ∧ Good src b.args ∧ Good src b.set := by
  simp [Good, spans, or_imp, forall_and, and_assoc]

theorem good_sel_scalar (sp : Span) (al : Option (Loc Bytes)) (n : Loc Bytes) (a : List (Loc Arg)) (d : DirSet) :
    Good src (Sel.scalar sp al n a d) ↔ GoodSpan src sp ∧ Good src al ∧ Good src n ∧ Good src a := by
  simp only [Good, spans, Sel.spans, List.mem_cons, List.mem_append, or_imp, forall_and, forall_eq, and_assoc]

theorem good_sel_object (sp : Span) (al : Option (Loc Bytes)) (n : Loc Bytes) (a : List (Loc Arg)) (d : DirSet)
    (set : Sels) (ss : Span) :
    Good src (Sel.object sp al n a d set ss) ↔
      GoodSpan src sp ∧ GoodSpan src ss ∧ Good src al ∧ Good src n ∧ Good src a ∧ Good src set := by
  simp only [Good, spans, Sel.spans, List.mem_cons, List.mem_append, or_imp, forall_and, forall_eq, and_assoc]

theorem good_toSel (b : SelBody) (sp : Span) (hsp : GoodSpan src sp) (hb : Good src b) : Good src (b.toSel sp) := by
  obtain ⟨h1, h2, h3, h4⟩ := (good_selBody b).1 hb
  unfold SelBody.toSel
  cases hset : b.set with
  | none => exact (good_sel_scalar ..).2 ⟨hsp, h1, h2, h3⟩
  | some s =>
    rw [hset] at h4
    simp only [good_some, good_loc] at h4
    exact (good_sel_object ..).2 ⟨hsp, h4.1, h1, h2, h3, h4.2⟩

/-- `parse_selection` -/
theorem spec_parseSelection (fuel : Nat) {optSet : P (Option (Loc Sels))} (hset : Spec src false optSet (Good src)) :
    Spec src true (parseSelection fuel optSet) (Good src) := by
  unfold parseSelection
  have hinner : Spec src true (do
      match ← parseUpToThreeDots with
      | some sp => fail ⟨.spread, .span sp⟩
      | none =>
        let (name, alias) ← parseOptionalAliasAndFieldName
        let args ← parseOptionalArguments fuel
        let dirs ← parseDirectives fuel
        let set ← optSet
        parseCommaOrLineBreak
        let ds ← selectionDirectiveSet set.isSome dirs
        pure (⟨alias, name, args, ds, set⟩ : SelBody)) (Good src) := by
    refine Spec.bindR spec_parseUpToThreeDots fun o ho => ?_
    split
    · rename_i sp
      have hsp : GoodSpan src sp := by simpa using ho
      exact Spec.fail _ hsp
    · refine Spec.bindL spec_parseOptionalAliasAndFieldName fun na hna => ?_
      obtain ⟨name, alias⟩ := na
      simp only [good_pair] at hna
      refine Spec.bindF (spec_parseOptionalArguments fuel) fun args hargs => ?_
      refine Spec.bindF (spec_parseDirectives fuel) fun dirs hdirs => ?_
      refine Spec.bindF hset fun set hs => ?_
      refine Spec.bindF spec_parseCommaOrLineBreak fun _ _ => ?_
      refine Spec.bindF (spec_selectionDirectiveSet _ dirs (by simp only [good_loc] at hdirs; exact hdirs.1)) fun ds _ =>
        Spec.pure _ ?_
      simp only [good_selBody]
      exact ⟨hna.2, hna.1, hargs, hs⟩
  refine Spec.bindL (spec_withLoc hinner) fun r hr => Spec.pure _ (good_toSel _ _ hr.1 hr.2)

/-- "`{` then the selections": `none` exactly when there is no `{`, and then nothing was consumed -/
theorem specOpt_braced {body : P (List Sel)} {c : Bool} (hbody : Spec src c body (Good src)) :
    SpecOpt src (do
      match ← attempt (tokenOfKind .OpenBrace .OPEN_BRACE) with
      | .error _ => pure none
      | .ok _ =>
        let l ← body
        pure (some (selsOfList l))) (Good src) := by
  have htok := spec_tokenOfKind (src := src) .OpenBrace .OPEN_BRACE (by decide)
  intro st hwf
  rw [bind_apply]
  unfold attempt
  cases h1 : tokenOfKind .OpenBrace .OPEN_BRACE st with
  | err d st1 =>
    have := tokenOfKind_err _ _ _ _ _ h1
    subst this
    simp [pure_apply]
  | panic s => exact (htok.noPanic hwf h1).elim
  | fuel => trivial
  | ok t st1 =>
    obtain ⟨hwf1, hadv1, _, hc1⟩ := htok.ok hwf h1
    simp only
    rw [bind_apply]
    cases h2 : body st1 with
    | ok l st2 =>
      obtain ⟨hwf2, hadv2, hg2, _⟩ := hbody.ok hwf1 h2
      simp only [pure_apply]
      exact ⟨hwf2, hadv1.trans hadv2, (good_selsOfList l).2 hg2, (hc1 rfl).trans_left hadv2⟩
    | err d st2 =>
      obtain ⟨hwf2, hadv2, hd⟩ := hbody.err hwf1 h2
      exact ⟨hwf2, hadv1.trans hadv2, hd⟩
    | panic s => exact (hbody.noPanic hwf1 h2).elim
    | fuel => trivial

theorem good_optLoc_of {α : Type} [Spans α] {o : Option (Loc α)}
    (h : ∀ a, o = some a → GoodSpan src a.span ∧ Good src a.item) : Good src o := by
  cases o with
  | none => simp
  | some a => simpa using h a rfl

/-- the loop of `parse_optional_selection_set_inner` -/
theorem spec_selLoop (fuel0 : Nat) : ∀ (fuel : Nat) (acc : List Sel), Good src acc →
    Spec src true (selLoop fuel0 fuel acc) (Good src)
  | 0, _, _ => Spec.outOfFuel
  | fuel + 1, acc, hacc => by
    unfold selLoop
    refine Spec.attemptT (spec_tokenOfKind .CloseBrace .CLOSE_BRACE (by decide)) (fun _ _ => Spec.pure _ hacc) fun _ _ => ?_
    have hnested := (specOpt_withOptLoc (specOpt_braced (spec_selLoop fuel0 fuel [] (by simp)))).toSpec.imp
      (fun o ho => good_optLoc_of (src := src) ho)
    refine Spec.bindL (spec_parseSelection fuel0 hnested) fun sel hsel => ?_
    exact (spec_selLoop fuel0 fuel (acc ++ [sel]) (by simp [hacc, hsel])).toFalse

/-- `parse_optional_selection_set` -/
theorem spec_parseOptionalSelectionSet (fuel : Nat) : Spec src false (parseOptionalSelectionSet fuel) (Good src) := by
  unfold parseOptionalSelectionSet
  exact (specOpt_withOptLoc (specOpt_braced (spec_selLoop fuel fuel [] (by simp)))).toSpec.imp
    (fun o ho => good_optLoc_of (src := src) ho)

/-! ### semantic tokens -/

/-- the semantic tokens of a declaration, in the order they were pushed -/
def Decl.sem : Decl → List SemTok
  | .field _ _ _ _ _ _ _ _ sem => sem
  | .pointer _ _ _ _ _ _ _ _ _ sem => sem
  | .entrypoint _ _ _ _ _ _ sem => sem

/-- non-empty good spans, each ending at or before the start of every later one -/
def SemFinal (src : Bytes) (l : List SemTok) : Prop :=
  l.Pairwise (fun a b => a.span.e ≤ b.span.s) ∧ ∀ a ∈ l, a.span.s < a.span.e ∧ GoodSpan src a.span

theorem semSorted_facts : ∀ (l : List SemTok) (hi : Nat), SemSorted src l hi →
    l.Pairwise (fun a b => b.span.e ≤ a.span.s) ∧ ∀ a ∈ l, a.span.s < a.span.e ∧ a.span.e ≤ hi ∧ GoodSpan src a.span
  | [], _, _ => by simp
  | t :: ts, hi, h => by
    obtain ⟨h1, h2, h3, h4⟩ := h
    obtain ⟨ih1, ih2⟩ := semSorted_facts ts t.span.s h4
    refine ⟨List.pairwise_cons.2 ⟨fun a ha => (ih2 a ha).2.1, ih1⟩, ?_⟩
    intro a ha
    simp only [List.mem_cons] at ha
    rcases ha with rfl | ha
    · exact ⟨h1, h2, h3⟩
    · have := ih2 a ha
      exact ⟨this.1, by omega, this.2.2⟩

theorem semFinal_of_sorted (l : List SemTok) (hi : Nat) (h : SemSorted src l hi) : SemFinal src l.reverse := by
  obtain ⟨h1, h2⟩ := semSorted_facts l hi h
  refine ⟨List.pairwise_reverse.2 h1, ?_⟩
  intro a ha
  have := h2 a (List.mem_reverse.1 ha)
  exact ⟨this.1, this.2.2⟩

theorem good_of_semFinal (l : List SemTok) (h : SemFinal src l) : Good src l := by
  rw [good_list]
  intro x hx
  simp only [Good, spans, List.mem_singleton, forall_eq]
  exact (h.2 x hx).2

theorem spec_revSem' : Spec src false revSem (SemFinal src) := by
  intro st hwf
  simp only [revSem, bind_apply, get_apply, pure_apply]
  exact ⟨hwf, Adv.refl _, semFinal_of_sorted _ _ hwf.sem, by simp⟩

/-! ### declarations -/

/-- what is shown of a parsed declaration: all spans good, semantic tokens sorted -/
def DeclOK (src : Bytes) (d : Decl) : Prop := Good src d ∧ SemFinal src d.sem

def DeclBody.sem : DeclBody → List SemTok
  | .field _ _ _ _ _ _ _ sem => sem
  | .pointer _ _ _ _ _ _ _ _ sem => sem
  | .entrypoint _ _ _ _ _ sem => sem

section
variable (p n : Loc Bytes) (v : List (Loc VarDef)) (d : Loc (List (Loc Directive))) (de : Option (Loc Bytes))
  (set : Loc Sels) (ex : Bytes) (sem : List SemTok) (t : Loc Ty) (kw dot sp : Span)

theorem spans_body_field : spans (DeclBody.field p n v d de set ex sem) =
    spans p ++ spans n ++ spans v ++ spans d ++ spans de ++ spans set ++ spans sem := rfl
theorem spans_body_pointer : spans (DeclBody.pointer p n v t d de set ex sem) =
    spans p ++ spans n ++ spans v ++ spans t ++ spans d ++ spans de ++ spans set ++ spans sem := rfl
theorem spans_body_entrypoint : spans (DeclBody.entrypoint p n kw dot d sem) =
    kw :: dot :: (spans p ++ spans n ++ spans d ++ spans sem) := rfl
theorem spans_decl_field : spans (Decl.field sp p n v d de ⟨set.item, set.span⟩ ex sem) =
    sp :: (spans p ++ spans n ++ spans v ++ spans d ++ spans de ++ spans set ++ spans sem) := rfl
theorem spans_decl_pointer : spans (Decl.pointer sp p n v t d de ⟨set.item, set.span⟩ ex sem) =
    sp :: (spans p ++ spans n ++ spans v ++ spans t ++ spans d ++ spans de ++ spans set ++ spans sem) := rfl
theorem spans_decl_entrypoint : spans (Decl.entrypoint sp p n kw dot d sem) =
    sp :: kw :: dot :: (spans p ++ spans n ++ spans d ++ spans sem) := rfl

theorem good_body_field : Good src (DeclBody.field p n v d de set ex sem) ↔
    Good src p ∧ Good src n ∧ Good src v ∧ Good src d ∧ Good src de ∧ Good src set ∧ Good src sem := by
  simp only [Good, spans_body_field, List.mem_append, or_imp, forall_and, and_assoc]
theorem good_body_pointer : Good src (DeclBody.pointer p n v t d de set ex sem) ↔
    Good src p ∧ Good src n ∧ Good src v ∧ Good src t ∧ Good src d ∧ Good src de ∧ Good src set ∧ Good src sem := by
  simp only [Good, spans_body_pointer, List.mem_append, or_imp, forall_and, and_assoc]
theorem good_body_entrypoint : Good src (DeclBody.entrypoint p n kw dot d sem) ↔
    GoodSpan src kw ∧ GoodSpan src dot ∧ Good src p ∧ Good src n ∧ Good src d ∧ Good src sem := by
  simp only [Good, spans_body_entrypoint, List.mem_cons, List.mem_append, or_imp, forall_and, forall_eq, and_assoc]
end

theorem declOK_toDecl (b : DeclBody) (sp : Span) (hsp : GoodSpan src sp) (hb : Good src b) (hs : SemFinal src b.sem) :
    DeclOK src (b.toDecl sp) := by
  refine ⟨?_, by cases b <;> exact hs⟩
  cases b with
  | field p n v d de set ex sem =>
    simp only [Good, spans_body_field, List.mem_append, or_imp, forall_and] at hb
    simp only [DeclBody.toDecl, Good, spans_decl_field, List.mem_cons, List.mem_append, or_imp, forall_and, forall_eq]
    exact ⟨hsp, hb⟩
  | pointer p n v t d de set ex sem =>
    simp only [Good, spans_body_pointer, List.mem_append, or_imp, forall_and] at hb
    simp only [DeclBody.toDecl, Good, spans_decl_pointer, List.mem_cons, List.mem_append, or_imp, forall_and, forall_eq]
    exact ⟨hsp, hb⟩
  | entrypoint p n kw dot d sem =>
    simp only [Good, spans_body_entrypoint, List.mem_cons, List.mem_append, or_imp, forall_and, forall_eq] at hb
    simp only [DeclBody.toDecl, Good, spans_decl_entrypoint, List.mem_cons, List.mem_append, or_imp, forall_and, forall_eq]
    exact ⟨hsp, hb⟩

/-- `parse_client_field_declaration_inner` -/
theorem spec_parseClientFieldDeclarationInner (fuel : Nat) (ex : Option Bytes) :
    Spec src true (parseClientFieldDeclarationInner fuel ex) (DeclOK src) := by
  unfold parseClientFieldDeclarationInner
  have hinner : Spec src true (do
      let parent ← sourceOfKind .Identifier .SERVER_OBJECT_TYPE
      let _ ← tokenOfKind .Period .DOT
      let name ← sourceOfKind .Identifier .CLIENT_SELECTABLE_NAME
      let vars ← parseVariableDefinitions fuel
      let dirs ← parseDirectives fuel
      let desc ← parseOptionalDescription
      let set ← parseOptionalSelectionSet fuel
      match set with
      | none => fail ⟨.selset, .span ⟨0, 0⟩⟩
      | some set =>
        match ex with
        | none => fail ⟨.exportName, .span name.span⟩
        | some ex =>
          let sem ← revSem
          pure (DeclBody.field parent name vars dirs desc set ex sem)) (fun b => Good src b ∧ SemFinal src b.sem) := by
    refine Spec.bindL (spec_sourceOfKind .Identifier .SERVER_OBJECT_TYPE (by decide)) fun parent hp => ?_
    refine Spec.bindF (spec_tokenOfKind .Period .DOT (by decide)) fun _ _ => ?_
    refine Spec.bindF (spec_sourceOfKind .Identifier .CLIENT_SELECTABLE_NAME (by decide)) fun name hn => ?_
    refine Spec.bindF (spec_parseVariableDefinitions fuel) fun vars hv => ?_
    refine Spec.bindF (spec_parseDirectives fuel) fun dirs hd => ?_
    refine Spec.bindF spec_parseOptionalDescription fun desc hde => ?_
    refine Spec.bindF (spec_parseOptionalSelectionSet fuel) fun set hset => ?_
    split
    · exact Spec.fail _ (goodSpan_zero src)
    · split
      · exact Spec.fail _ hn.1
      · refine Spec.bindF spec_revSem' fun sem hsem => Spec.pure _ ⟨?_, hsem⟩
        have hs := good_of_semFinal sem hsem
        have hset' := hset
        simp only [good_some] at hset'
        exact (good_body_field ..).2 ⟨by simp [hp.1], by simp [hn.1], hv, hd, hde, hset', hs⟩
  exact Spec.bindL (spec_withLoc hinner) fun r hr => Spec.pure _ (declOK_toDecl _ _ hr.1 hr.2.1 hr.2.2)

/-- `parse_client_pointer_target_type` -/
theorem spec_parseClientPointerTargetType (fuel : Nat) : Spec src true (parseClientPointerTargetType fuel) (Good src) := by
  unfold parseClientPointerTargetType
  refine Spec.bindL (spec_sourceOfKind .Identifier .TO (by decide)) fun kw hkw => ?_
  split
  · exact Spec.fail _ hkw.1
  · exact (spec_parseType fuel).toFalse

/-- `parse_client_pointer_declaration_inner` -/
theorem spec_parseClientPointerDeclarationInner (fuel : Nat) (ex : Option Bytes) :
    Spec src true (parseClientPointerDeclarationInner fuel ex) (DeclOK src) := by
  unfold parseClientPointerDeclarationInner
  have hinner : Spec src true (do
      let parent ← sourceOfKind .Identifier .SERVER_OBJECT_TYPE
      let _ ← tokenOfKind .Period .DOT
      let name ← sourceOfKind .Identifier .CLIENT_SELECTABLE_NAME
      let vars ← parseVariableDefinitions fuel
      let target ← parseClientPointerTargetType fuel
      let dirs ← parseDirectives fuel
      let desc ← parseOptionalDescription
      let set ← parseOptionalSelectionSet fuel
      match set with
      | none => fail ⟨.selset, .span ⟨0, 0⟩⟩
      | some set =>
        match ex with
        | none => fail ⟨.exportName, .span name.span⟩
        | some ex =>
          let sem ← revSem
          pure (DeclBody.pointer parent name vars target dirs desc set ex sem))
      (fun b => Good src b ∧ SemFinal src b.sem) := by
    refine Spec.bindL (spec_sourceOfKind .Identifier .SERVER_OBJECT_TYPE (by decide)) fun parent hp => ?_
    refine Spec.bindF (spec_tokenOfKind .Period .DOT (by decide)) fun _ _ => ?_
    refine Spec.bindF (spec_sourceOfKind .Identifier .CLIENT_SELECTABLE_NAME (by decide)) fun name hn => ?_
    refine Spec.bindF (spec_parseVariableDefinitions fuel) fun vars hv => ?_
    refine Spec.bindF (spec_parseClientPointerTargetType fuel) fun target ht => ?_
    refine Spec.bindF (spec_parseDirectives fuel) fun dirs hd => ?_
    refine Spec.bindF spec_parseOptionalDescription fun desc hde => ?_
    refine Spec.bindF (spec_parseOptionalSelectionSet fuel) fun set hset => ?_
    split
    · exact Spec.fail _ (goodSpan_zero src)
    · split
      · exact Spec.fail _ hn.1
      · refine Spec.bindF spec_revSem' fun sem hsem => Spec.pure _ ⟨?_, hsem⟩
        have hs := good_of_semFinal sem hsem
        have hset' := hset
        simp only [good_some] at hset'
        exact (good_body_pointer ..).2 ⟨by simp [hp.1], by simp [hn.1], hv, ht, hd, hde, hset', hs⟩
  exact Spec.bindL (spec_withLoc hinner) fun r hr => Spec.pure _ (declOK_toDecl _ _ hr.1 hr.2.1 hr.2.2)

/-- `parse_iso_entrypoint_declaration` -/
theorem spec_parseEntrypointInner (fuel : Nat) (kw : Span) (hkw : GoodSpan src kw) :
    Spec src true (parseEntrypointInner fuel kw) (DeclOK src) := by
  unfold parseEntrypointInner
  have hinner : Spec src true (do
      let parent ← sourceOfKind .Identifier .SERVER_OBJECT_TYPE
      let dot ← tokenOfKind .Period .DOT
      let name ← sourceOfKind .Identifier .CLIENT_SELECTABLE_NAME
      let dirs ← parseDirectives fuel
      let sem ← revSem
      pure (DeclBody.entrypoint parent name kw (tokSpan dot) dirs sem)) (fun b => Good src b ∧ SemFinal src b.sem) := by
    refine Spec.bindL (spec_sourceOfKind .Identifier .SERVER_OBJECT_TYPE (by decide)) fun parent hp => ?_
    refine Spec.bindF (spec_tokenOfKind .Period .DOT (by decide)) fun dot hdot => ?_
    refine Spec.bindF (spec_sourceOfKind .Identifier .CLIENT_SELECTABLE_NAME (by decide)) fun name hn => ?_
    refine Spec.bindF (spec_parseDirectives fuel) fun dirs hd => ?_
    refine Spec.bindF spec_revSem' fun sem hsem => Spec.pure _ ⟨?_, hsem⟩
    exact (good_body_entrypoint ..).2 ⟨hkw, hdot.1, by simp [hp.1], by simp [hn.1], hd, good_of_semFinal sem hsem⟩
  exact Spec.bindL (spec_withLoc hinner) fun r hr => Spec.pure _ (declOK_toDecl _ _ hr.1 hr.2.1 hr.2.2)

theorem spec_noLeftover (d : Decl) (hd : DeclOK src d) : Spec src false (noLeftover d) (DeclOK src) := by
  unfold noLeftover
  refine Spec.bindF spec_remainingTokenSpan fun o ho => ?_
  split
  · rename_i sp
    have hsp : GoodSpan src sp := by simpa using ho
    exact Spec.fail _ hsp
  · exact Spec.pure _ hd

/-- `parse_iso_literal` (after `PeekableLexer::new`) -/
theorem spec_parseIsoLiteral (fuel : Nat) (ex : Option Bytes) : Spec src false (parseIsoLiteral fuel ex) (DeclOK src) := by
  unfold parseIsoLiteral
  refine Spec.bindF spec_peek fun disc hdisc => ?_
  refine Spec.bindF (spec_source _ hdisc) fun text _ => ?_
  split
  · refine Spec.bindF (spec_sourceOfKind .Identifier .KEYWORD_USE (by decide)) fun kw hkw => ?_
    exact Spec.bindF (spec_parseEntrypointInner fuel kw.span hkw.1) fun d hd => spec_noLeftover d hd
  · split
    · refine Spec.bindF (spec_sourceOfKind .Identifier .KEYWORD_DECLARATION (by decide)) fun _ _ => ?_
      exact Spec.bindF (spec_parseClientFieldDeclarationInner fuel ex) fun d hd => spec_noLeftover d hd
    · split
      · refine Spec.bindF (spec_sourceOfKind .Identifier .KEYWORD_DECLARATION (by decide)) fun _ _ => ?_
        exact Spec.bindF (spec_parseClientPointerDeclarationInner fuel ex) fun d hd => spec_noLeftover d hd
      · exact Spec.fail _ hdisc

/-! ### the initial state -/

theorem chain_of_tokens : ∀ (toks : List (Tok IsoKind)) (lo : Nat),
    toks.Pairwise (fun a b => a.e ≤ b.s) →
    (∀ t ∈ toks, lo ≤ t.s ∧ t.s < t.e ∧ GoodPos src t.s ∧ GoodPos src t.e ∧ TextOK src t) → Chain src lo toks
  | [], _, _, _ => trivial
  | t :: ts, lo, hp, h => by
    have ht := h t (by simp)
    obtain ⟨hp1, hp2⟩ := List.pairwise_cons.1 hp
    refine ⟨ht.1, ht.2.1, ht.2.2.1, ht.2.2.2.1, ht.2.2.2.2, chain_of_tokens ts t.e hp2 ?_⟩
    intro u hu
    have := h u (by simp [hu])
    exact ⟨hp1 u hu, this.2⟩

/-- `PeekableLexer::new` establishes the invariant (given the lexer fact about string tokens) -/
theorem wf_new (src : Bytes) (htext : ∀ t ∈ isoTokens src, TextOK src t) : WF src (PL.new src) := by
  have hall : ∀ t ∈ isoTokens src, 0 ≤ t.s ∧ t.s < t.e ∧ GoodPos src t.s ∧ GoodPos src t.e ∧ TextOK src t := by
    intro t ht
    have hb := lex_boundaries isoLexer src t ht
    have hi := lex_inside isoLexer src t ht
    have hn := lex_nonempty isoLexer src t ht
    exact ⟨Nat.zero_le _, hn, ⟨by omega, hb.1⟩, ⟨hi, hb.2⟩, htext t ht⟩
  have hchain := chain_of_tokens (src := src) (isoTokens src) 0 (lex_sorted isoLexer src) hall
  unfold PL.new
  cases h : isoTokens src with
  | nil =>
    exact ⟨rfl, goodPos_zero src, Nat.zero_le _, goodPos_len src, goodPos_len src, Nat.le_refl _, by simp,
      by simp [TextOK], trivial, trivial⟩
  | cons t ts =>
    rw [h] at hchain
    obtain ⟨h1, h2, h3, h4, h5, h6⟩ := hchain
    exact ⟨rfl, goodPos_zero src, h1, h3, h4, Nat.le_of_lt h2, fun _ => h2, h5, h6, trivial⟩

end IsoVerif.IsoParse
