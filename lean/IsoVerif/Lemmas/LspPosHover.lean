/-
Lemmas behind the hover / go-to-definition part of Props/C23.lean (position ↦ offset):
`getIndexOfLineChar_inv` and `hoverOffset_inv` (namespace `IsoVerif.Lemmas.LspPos`); all helpers
live in `IsoVerif.Lemmas.LspPosHover`.

`hoverOffset_inv` carries the extra hypothesis `isBoundary page 0 = true` (a valid UTF-8 page does
not start with a continuation byte).  It is necessary: for page = [0x80, 0x61], lits = [(1, 1)],
k = 0, o = 0 all other hypotheses hold but `hoverOffset` is `.panic "slice"` (`&page[0..1]`).
-/
import IsoVerif.Model.LspPos

namespace IsoVerif.Lemmas.LspPosHover
open IsoVerif.Util IsoVerif.LspPos

theorem units_pos {b : UInt8} (h : isCont b = false) : 1 ≤ units b := by
  unfold units; rw [h]; simp; split <;> omega

theorem units_cont {b : UInt8} (h : isCont b = true) : units b = 0 := by
  unfold units; rw [h]; simp

theorem isCont_nl : isCont nl = false := by decide

theorem advance_nil (p : Nat × Nat) : advance p [] = p := rfl

theorem advance_cons (p : Nat × Nat) (b : UInt8) (t : Bytes) :
    advance p (b :: t) = advance (posStep p b) t := rfl

theorem advance_append (p : Nat × Nat) (a b : Bytes) :
    advance p (a ++ b) = advance (advance p a) b := by
  simp [advance, List.foldl_append]

/-- the model's way of adding a relative position to an absolute one -/
def relPos (p d : Nat × Nat) : Nat × Nat := (p.1 + d.1, if d.1 > 0 then d.2 else p.2 + d.2)

theorem advance_rel (p : Nat × Nat) (t : Bytes) : advance p t = relPos p (advance (0, 0) t) := by
  induction t generalizing p with
  | nil => simp [advance_nil, relPos]
  | cons b t ih =>
    rw [advance_cons, advance_cons, ih, ih (posStep (0, 0) b)]
    unfold posStep relPos
    split <;> simp <;> grind

theorem utf16Len_append (a b : Bytes) : utf16Len (a ++ b) = utf16Len a + utf16Len b := by
  induction a with
  | nil => simp [utf16Len]
  | cons x a ih => simp [utf16Len, ih]; omega

theorem scanLines_inv (t : Bytes) : ∀ (pre : Bytes) (acc : Nat × Nat),
    acc.2 ≤ pre.length → advance (0, 0) pre = (acc.1, utf16Len (pre.drop acc.2)) →
    let r := scanLines t pre.length acc
    advance (0, 0) (pre ++ t) = (r.1, utf16Len ((pre ++ t).drop r.2)) := by
  induction t with
  | nil => intro pre acc _ h; simpa [scanLines] using h
  | cons b t ih =>
    intro pre acc hle h
    have := ih (pre ++ [b]) (if b == nl then (acc.1 + 1, pre.length + 1) else acc)
    simp only [List.length_append, List.length_singleton, List.append_assoc, List.singleton_append] at this
    simp only [scanLines]
    apply this
    · split
      · simp
      · simpa using (by omega)
    · rw [advance_append, h]
      simp only [advance_cons, advance_nil, posStep]
      split
      · simp [utf16Len]
      · simp [List.drop_append_of_le_length hle, utf16Len_append, utf16Len]

theorem deltaLineDeltaStart_adv (t : Bytes) : deltaLineDeltaStart t = advance (0, 0) t := by
  have := scanLines_inv t [] (0, 0) (by simp) (by simp [advance_nil, utf16Len])
  simp at this
  simp [deltaLineDeltaStart, this]


/-! ### `getIndexOfLineChar` -/

/-- shape of `advance` on a text: no line feed, or the text after the last line feed -/
theorem advance_shape (P : Bytes) : ∀ (l c : Nat),
    ((∀ x ∈ P, x ≠ nl) ∧ advance (l, c) P = (l, c + utf16Len P)) ∨
    (∃ A B, P = A ++ nl :: B ∧ (∀ x ∈ B, x ≠ nl) ∧
      advance (l, c) P = (l + countNl A + 1, utf16Len B)) := by
  induction P with
  | nil => intro l c; left; simp [advance_nil, utf16Len]
  | cons b P ih =>
    intro l c
    rw [advance_cons]
    by_cases hb : b = nl
    · subst hb
      have hs : posStep (l, c) nl = (l + 1, 0) := by simp [posStep]
      rw [hs]
      right
      rcases ih (l + 1) 0 with ⟨hn, ha⟩ | ⟨A, B, hP, hn, ha⟩
      · exact ⟨[], P, by simp, hn, by simp [ha, countNl]⟩
      · refine ⟨nl :: A, B, by simp [hP], hn, ?_⟩
        rw [ha]; simp [countNl]; omega
    · have hs : posStep (l, c) b = (l, c + units b) := by simp [posStep, hb]
      rw [hs]
      rcases ih l (c + units b) with ⟨hn, ha⟩ | ⟨A, B, hP, hn, ha⟩
      · left
        refine ⟨?_, ?_⟩
        · intro x hx
          rcases List.mem_cons.1 hx with rfl | hx
          · exact hb
          · exact hn x hx
        · rw [ha]; simp [utf16Len]; omega
      · right
        refine ⟨b :: A, B, by simp [hP], hn, ?_⟩
        rw [ha]; simp [countNl, hb]

theorem findLineStart_app (A rest : Bytes) : ∀ idx,
    findLineStart (A ++ nl :: rest) idx (countNl A + 1) = some (idx + A.length + 1) := by
  induction A with
  | nil => intro idx; simp [findLineStart, countNl]
  | cons b A ih =>
    intro idx
    by_cases hb : b = nl
    · subst hb
      simp only [List.cons_append, findLineStart, countNl]
      simp
      rw [show 1 + countNl A = countNl A + 1 by omega, ih]
      simp; omega
    · simp only [List.cons_append, findLineStart, countNl]
      simp [hb, ih]; omega

theorem advanceUnits_app (B rest : Bytes) (hn : ∀ x ∈ B, x ≠ nl)
    (hr : ∀ b, rest.head? = some b → isCont b = false) : ∀ idx,
    advanceUnits (B ++ rest) idx (utf16Len B) = idx + B.length := by
  induction B with
  | nil =>
    intro idx
    cases rest with
    | nil => simp [advanceUnits]
    | cons r rest =>
      have := hr r (by simp)
      simp [advanceUnits, this, utf16Len]
  | cons b B ih =>
    intro idx
    have hb : b ≠ nl := hn b (by simp)
    have ih' := ih (fun x hx => hn x (by simp [hx])) (idx + 1)
    simp only [List.cons_append, advanceUnits, utf16Len]
    cases hc : isCont b with
    | true => simp [units_cont hc, ih']; omega
    | false =>
      have := units_pos hc
      simp [hb, ih']
      rw [if_neg (by omega)]; omega

theorem getIndexOfLineChar_app (P R : Bytes)
    (hr : ∀ b, R.head? = some b → isCont b = false) :
    getIndexOfLineChar (P ++ R) (advance (0, 0) P).1 (advance (0, 0) P).2 = P.length := by
  rcases advance_shape P 0 0 with ⟨hn, ha⟩ | ⟨A, B, hP, hn, ha⟩
  · rw [ha]
    simp [getIndexOfLineChar, advanceUnits_app P R hn hr 0]
  · rw [ha]
    subst hP
    have h1 : (0 + countNl A + 1 == 0) = false := by simp
    simp only [getIndexOfLineChar, h1]
    rw [show 0 + countNl A + 1 = countNl A + 1 by omega]
    have : A ++ nl :: B ++ R = A ++ nl :: (B ++ R) := by simp
    rw [this, findLineStart_app]
    simp only []
    have hd : (A ++ nl :: (B ++ R)).drop (0 + A.length + 1) = B ++ R := by
      rw [show A ++ nl :: (B ++ R) = (A ++ [nl]) ++ (B ++ R) by simp]
      rw [List.drop_append_of_le_length (by simp)]
      simp
    rw [hd, advanceUnits_app B R hn hr]
    simp; omega

theorem isBoundary_head {s : Bytes} {i : Nat} (hb : isBoundary s i = true) :
    ∀ b, (s.drop i).head? = some b → isCont b = false := by
  intro b hh
  rw [List.head?_drop] at hh
  unfold isBoundary at hb
  split at hb
  · rename_i h
    have : i = s.length := by simpa using h
    subst this
    simp at hh
  · rw [hh] at hb
    simpa using hb

end IsoVerif.Lemmas.LspPosHover

namespace IsoVerif.Lemmas.LspPos
open IsoVerif.Util IsoVerif.LspPos IsoVerif.Lemmas.LspPosHover

/-- `get_index_of_line_char` inverts `utf16Pos` -/
theorem getIndexOfLineChar_inv (src : Bytes) (o : Nat) (hle : o ≤ src.length)
    (hb : isBoundary src o = true) :
    getIndexOfLineChar src (utf16Pos src o).1 (utf16Pos src o).2 = o := by
  have := getIndexOfLineChar_app (src.take o) (src.drop o) (isBoundary_head hb)
  rw [List.take_append_drop] at this
  unfold utf16Pos
  rw [this]
  simp [List.length_take]; omega

end IsoVerif.Lemmas.LspPos

namespace IsoVerif.Lemmas.LspPosHover
open IsoVerif.Util IsoVerif.LspPos

/-! ### order on positions -/

def PLe (a b : Nat × Nat) : Prop := a.1 < b.1 ∨ (a.1 = b.1 ∧ a.2 ≤ b.2)
def PLt (a b : Nat × Nat) : Prop := a.1 < b.1 ∨ (a.1 = b.1 ∧ a.2 < b.2)

theorem PLe_posStep {q p : Nat × Nat} (b : UInt8) (h : PLe q p) : PLe q (posStep p b) := by
  unfold PLe posStep at *; split <;> simp <;> omega

theorem PLt_posStep {q p : Nat × Nat} (b : UInt8) (h : PLt q p) : PLt q (posStep p b) := by
  unfold PLt posStep at *; split <;> simp <;> omega

theorem PLe_advance (t : Bytes) : ∀ {q p : Nat × Nat}, PLe q p → PLe q (advance p t) := by
  induction t with
  | nil => intro q p h; exact h
  | cons b t ih => intro q p h; rw [advance_cons]; exact ih (PLe_posStep b h)

theorem PLt_advance (t : Bytes) : ∀ {q p : Nat × Nat}, PLt q p → PLt q (advance p t) := by
  induction t with
  | nil => intro q p h; exact h
  | cons b t ih => intro q p h; rw [advance_cons]; exact ih (PLt_posStep b h)

theorem PLt_posStep_lead (p : Nat × Nat) {b : UInt8} (h : isCont b = false) :
    PLt p (posStep p b) := by
  have := units_pos h
  unfold PLt posStep; split <;> simp <;> omega

theorem take_split (page : Bytes) {a b : Nat} (h : a ≤ b) :
    page.take b = page.take a ++ (page.take b).drop a := by
  have := List.take_append_drop a (page.take b)
  rw [List.take_take, Nat.min_eq_left h] at this
  exact this.symm

theorem utf16Pos_split (page : Bytes) {a b : Nat} (h : a ≤ b) :
    utf16Pos page b = advance (utf16Pos page a) ((page.take b).drop a) := by
  unfold utf16Pos
  rw [← advance_append, ← take_split page h]

theorem utf16Pos_mono (page : Bytes) {a b : Nat} (h : a ≤ b) :
    PLe (utf16Pos page a) (utf16Pos page b) := by
  rw [utf16Pos_split page h]
  exact PLe_advance _ (Or.inr ⟨rfl, Nat.le_refl _⟩)

theorem utf16Pos_strict (page : Bytes) {a b : Nat} (h : a < b) (hb : b ≤ page.length)
    (ha : isBoundary page a = true) : PLt (utf16Pos page a) (utf16Pos page b) := by
  rw [utf16Pos_split page (Nat.le_of_lt h)]
  have hlen : a < (page.take b).length := by simp [List.length_take]; omega
  rw [List.drop_eq_getElem_cons hlen, advance_cons]
  apply PLt_advance
  apply PLt_posStep_lead
  apply isBoundary_head ha
  rw [List.head?_drop, List.getElem_take]
  simp

/-! ### slices and literal extents -/

theorem slice_ok (page : Bytes) {a b : Nat} (h : a ≤ b) (hb : b ≤ page.length)
    (ba : isBoundary page a = true) (bb : isBoundary page b = true) :
    slice page a b = .ok ((page.take b).drop a) := by
  simp [slice, h, hb, ba, bb]

theorem litsOk_cons {page : Bytes} {pe : Nat} {f : Bool} {s l : Nat} {rest : List (Nat × Nat)}
    (h : litsOk page pe f ((s, l) :: rest) = true) :
    pe ≤ s ∧ (f = false → pe < s) ∧ s + l ≤ page.length ∧ isBoundary page s = true ∧
      isBoundary page (s + l) = true ∧ litsOk page (s + l) false rest = true := by
  simp only [litsOk, Bool.and_eq_true, Bool.or_eq_true, decide_eq_true_eq] at h
  obtain ⟨⟨⟨⟨h1, h2⟩, h3⟩, h4⟩, h5⟩ := h
  refine ⟨?_, ?_, h2, h3, h4, h5⟩
  · rcases h1 with ⟨_, h⟩ | h <;> omega
  · intro hf; subst hf; simpa using h1

theorem litsOk_get {page : Bytes} (lits : List (Nat × Nat)) : ∀ (k pe : Nat) (f : Bool)
    (start len : Nat), litsOk page pe f lits = true → lits[k]? = some (start, len) →
    pe ≤ start ∧ (f = false → pe < start) ∧ start + len ≤ page.length := by
  induction lits with
  | nil => intro k pe f start len _ hk; simp at hk
  | cons x rest ih =>
    intro k pe f start len h hk
    obtain ⟨s, l⟩ := x
    obtain ⟨h1, h2, h3, _, _, h6⟩ := litsOk_cons h
    cases k with
    | zero =>
      simp at hk
      obtain ⟨rfl, rfl⟩ := hk
      exact ⟨h1, h2, h3⟩
    | succ k =>
      simp at hk
      obtain ⟨g1, g2, g3⟩ := ih k (s + l) false start len h6 hk
      have := g2 rfl
      exact ⟨by omega, fun _ => by omega, g3⟩

/-! ### `findUnderCursor` -/

theorem ok_bind {α β} (a : α) (f : α → Out β) : (Out.ok a >>= f) = f a := rfl

theorem findUnderCursor_cons (page : Bytes) (target : Nat × Nat) (start len : Nat)
    (rest : List (Nat × Nat)) (k : Nat) (st : FindSt) (inter iso : Bytes) (sp ep : Nat × Nat)
    (h1 : slice page st.maxPrevEnd start = .ok inter)
    (h2 : slice page start (start + len) = .ok iso)
    (hsp : sp = relPos (st.endLine, st.endChar) (advance (0, 0) inter))
    (hep : ep = relPos sp (advance (0, 0) iso)) :
    findUnderCursor page target ((start, len) :: rest) k st =
      if positionInRange sp ep target then
         .ok (some (k, getIndexOfLineChar iso (target.1 - sp.1)
           (if target.1 - sp.1 > 0 then target.2 else target.2 - sp.2)))
       else findUnderCursor page target rest (k + 1) ⟨ep.1, ep.2, start + len⟩ := by
  subst hep hsp
  simp only [findUnderCursor, h1, h2, ok_bind, deltaLineDeltaStart_adv]
  rfl

theorem inRange_true {sp ep t : Nat × Nat} (h1 : PLe sp t) (h2 : PLe t ep) :
    positionInRange sp ep t = true := by
  unfold PLe at h1 h2
  simp [positionInRange]
  omega

theorem inRange_false {sp ep t : Nat × Nat} (h : PLt ep t) :
    positionInRange sp ep t = false := by
  unfold PLt at h
  simp [positionInRange]
  omega

theorem isBoundary_sub (page : Bytes) (start len o : Nat) (hle : start + len ≤ page.length)
    (ho : o ≤ len) (hb : isBoundary page (start + o) = true) :
    isBoundary ((page.take (start + len)).drop start) o = true := by
  have hlen : ((page.take (start + len)).drop start).length = len := by
    simp [List.length_take]; omega
  unfold isBoundary
  rw [hlen]
  by_cases h : o = len
  · simp [h]
  · have h' : (o == len) = false := by simpa using h
    rw [h']
    simp only [Bool.false_eq_true, if_false]
    unfold isBoundary at hb
    have h2 : (start + o == page.length) = false := by simp; omega
    rw [h2] at hb
    simp only [Bool.false_eq_true, if_false] at hb
    rw [List.getElem?_drop, List.getElem?_take]
    rw [if_pos (by omega)]
    exact hb

theorem findUnderCursor_inv (page : Bytes) (lits : List (Nat × Nat)) :
    ∀ (k k0 prevEnd : Nat) (first : Bool) (st : FindSt) (start len o : Nat),
    litsOk page prevEnd first lits = true → lits[k]? = some (start, len) → o ≤ len →
    isBoundary page (start + o) = true → st.maxPrevEnd = prevEnd →
    (st.endLine, st.endChar) = utf16Pos page prevEnd → isBoundary page prevEnd = true →
    findUnderCursor page (utf16Pos page (start + o)) lits k0 st = .ok (some (k0 + k, o)) := by
  induction lits with
  | nil => intro k k0 pe f st start len o _ hk; simp at hk
  | cons x rest ih =>
    intro k k0 pe f st start len o hl hk ho hb hst hpos hpe
    obtain ⟨s, l⟩ := x
    obtain ⟨h1, _, h3, h4, h5, h6⟩ := litsOk_cons hl
    have hs1 := slice_ok page h1 (by omega) hpe h4
    have hs2 := slice_ok page (Nat.le_add_right s l) h3 h4 h5
    rw [← hst] at hs1
    rw [findUnderCursor_cons page _ s l rest k0 st _ _ (utf16Pos page s) (utf16Pos page (s + l))
      hs1 hs2
      (by rw [hst, hpos, ← advance_rel, ← utf16Pos_split page h1])
      (by rw [← advance_rel, ← utf16Pos_split page (Nat.le_add_right s l)])]
    cases k with
    | zero =>
      simp at hk
      obtain ⟨rfl, rfl⟩ := hk
      rw [if_pos (inRange_true (utf16Pos_mono page (Nat.le_add_right s o))
        (utf16Pos_mono page (by omega)))]
      have hT : utf16Pos page (s + o) =
          relPos (utf16Pos page s) (utf16Pos ((page.take (s + l)).drop s) o) := by
        rw [utf16Pos_split page (Nat.le_add_right s o), advance_rel]
        unfold utf16Pos
        rw [List.take_drop, List.take_take, Nat.min_eq_left (by omega)]
      have hi := IsoVerif.Lemmas.LspPos.getIndexOfLineChar_inv ((page.take (s + l)).drop s) o
        (by simp [List.length_take]; omega) (isBoundary_sub page s l o h3 ho hb)
      rw [hT]
      generalize utf16Pos ((page.take (s + l)).drop s) o = d at hi
      generalize utf16Pos page s = sp
      have e1 : (relPos sp d).1 - sp.1 = d.1 := by simp [relPos]
      have e2 : (if (relPos sp d).1 - sp.1 > 0 then (relPos sp d).2 else (relPos sp d).2 - sp.2)
          = d.2 := by
        rw [e1]; unfold relPos; split <;> simp
      rw [e2, e1, hi]
      simp
    | succ k =>
      simp at hk
      obtain ⟨g1, g2, g3⟩ := litsOk_get rest k (s + l) false start len h6 hk
      have hlt := g2 rfl
      rw [if_neg (by
        rw [inRange_false (utf16Pos_strict page (a := s + l) (b := start + o) (by omega) (by omega) h5)]
        simp)]
      rw [ih k (k0 + 1) (s + l) false _ start len o h6 hk ho hb rfl rfl h5]
      simp; omega

end IsoVerif.Lemmas.LspPosHover

namespace IsoVerif.Lemmas.LspPos
open IsoVerif.Util IsoVerif.LspPos IsoVerif.Lemmas.LspPosHover

/-- the position of byte `o` of the `k`-th literal resolves to `(k, o)`.  `h0` (a valid UTF-8 page
does not start with a continuation byte) is necessary: the first literal always evaluates
`&page[0..start]`. -/
theorem hoverOffset_inv (page : Bytes) (lits : List (Nat × Nat)) (k start len o : Nat)
    (h0 : isBoundary page 0 = true)
    (hl : litsOk page 0 true lits = true) (hk : lits[k]? = some (start, len)) (ho : o ≤ len)
    (hb : isBoundary page (start + o) = true) :
    hoverOffset page lits (utf16Pos page (start + o)) = .ok (some (k, o)) := by
  have := findUnderCursor_inv page lits k 0 0 true {} start len o hl hk ho hb rfl
    (by simp [utf16Pos, advance_nil]) h0
  simpa [hoverOffset] using this

end IsoVerif.Lemmas.LspPos
