/-
C02, nested calls: a node all of whose recorded dependencies — transitively — are as they were when
they were recorded is brought up to date without running any body (`quiet_upToDate`, operational,
any program); after a clean call the called node is in that situation (`quiet_of_verified`, from the
invariant of `PicoInc*`); a source write to a key the recorded closure does not mention keeps it
there (`QuietN.write`).
-/
import IsoVerif.Lemmas.PicoInc8
import IsoVerif.Lemmas.PicoRerun

namespace IsoVerif.Pico

/-- the verification of `d` finds nothing to do; `rec` is the same for a callee -/
def QuietDep (rec : NodeId → Prop) (s : Storage) (d : Dep) : Prop :=
  match d.node with
  | .source k => ∃ nd, alookup s.srcs k = some nd ∧ nd.tu ≤ d.stamp
  | .absent k => alookup s.srcs k = none
  | .derived q => ∃ rq, alookup s.derived q = some rq ∧ rq.tu ≤ d.stamp ∧ rec q

/-- node `n` is stored and (to depth `g`) every recorded dependency, transitively, is unchanged -/
def QuietN (s : Storage) : Nat → NodeId → Prop
  | 0, _ => False
  | g + 1, n => ∃ r, alookup s.derived n = some r ∧ ∀ d, d ∈ r.deps → QuietDep (QuietN s g) s d

/-- only `time_verified` of stored nodes moved -/
structure TvOnly (s s' : Storage) : Prop where
  epoch : s'.epoch = s.epoch
  srcs : s'.srcs = s.srcs
  maps : s'.maps = s.maps
  stack : s'.stack = s.stack
  runs : s'.runs = s.runs
  log : s'.log = s.log
  node : ∀ q r, alookup s.derived q = some r →
    ∃ r', alookup s'.derived q = some r' ∧ r'.val = r.val ∧ r'.tu = r.tu ∧ r'.deps = r.deps

theorem TvOnly.refl (s : Storage) : TvOnly s s :=
  ⟨rfl, rfl, rfl, rfl, rfl, rfl, fun _ r h => ⟨r, h, rfl, rfl, rfl⟩⟩

theorem TvOnly.trans {a b c : Storage} (h1 : TvOnly a b) (h2 : TvOnly b c) : TvOnly a c := by
  refine ⟨h2.epoch.trans h1.epoch, h2.srcs.trans h1.srcs, h2.maps.trans h1.maps, h2.stack.trans h1.stack,
    h2.runs.trans h1.runs, h2.log.trans h1.log, ?_⟩
  intro q r hq
  obtain ⟨r1, hq1, a1, a2, a3⟩ := h1.node q r hq
  obtain ⟨r2, hq2, b1, b2, b3⟩ := h2.node q r1 hq1
  exact ⟨r2, hq2, b1.trans a1, b2.trans a2, b3.trans a3⟩

theorem QuietN.mono {s s' : Storage} (h : TvOnly s s') : ∀ g n, QuietN s g n → QuietN s' g n := by
  intro g
  induction g with
  | zero => intro n hq; exact hq
  | succ g ih =>
    intro n hq
    obtain ⟨r, hl, hd⟩ := hq
    obtain ⟨r', hl', _, _, hdeps⟩ := h.node n r hl
    refine ⟨r', hl', ?_⟩
    intro d hdm
    rw [hdeps] at hdm
    have h0 := hd d hdm
    unfold QuietDep at h0 ⊢
    cases hn : d.node with
    | source k => rw [hn] at h0; simp only at h0 ⊢; rw [h.srcs]; exact h0
    | absent k => rw [hn] at h0; simp only at h0 ⊢; rw [h.srcs]; exact h0
    | derived q =>
      rw [hn] at h0; simp only at h0 ⊢
      obtain ⟨rq, hq1, htu, hrec⟩ := h0
      obtain ⟨rq', hq', _, htu', _⟩ := h.node q rq hq1
      exact ⟨rq', hq', by rw [htu']; exact htu, ih q hrec⟩

/-- one quiet dependency: `derived_node_changed_since` / the source checks answer "unchanged" -/
theorem quiet_dep {P : Prog} {g f : Nat}
    (ih : ∀ s n, QuietN s g n → ∃ (s' : Storage) (r : Rev), upToDate f P s n = (s', .ok (false, r.tu)) ∧ TvOnly s s')
    (s : Storage) (d : Dep) (h : QuietDep (QuietN s g) s d) :
    ∃ s', depChanged (dropTu (upToDate f P)) s d = (s', .ok false) ∧ TvOnly s s' := by
  unfold QuietDep at h
  cases hn : d.node with
  | source k =>
    rw [hn] at h
    obtain ⟨nd, hnd, hle⟩ := h
    refine ⟨s, ?_, TvOnly.refl s⟩
    simp only [depChanged, hn, hnd]
    have : ¬ nd.tu > d.stamp := Nat.not_lt.2 hle
    simp [this]
  | absent k =>
    rw [hn] at h
    refine ⟨s, ?_, TvOnly.refl s⟩
    simp only at h
    simp only [depChanged, hn, h]
    rfl
  | derived q =>
    rw [hn] at h
    obtain ⟨rq, hq, htu, hrec⟩ := h
    simp only [depChanged, hn, hq]
    rw [if_neg (Nat.not_lt.2 htu)]
    by_cases hemp : rq.deps.isEmpty = true
    · rw [if_pos hemp]; exact ⟨s, rfl, TvOnly.refl s⟩
    · rw [if_neg hemp]
      obtain ⟨s', r, he, htv⟩ := ih s q hrec
      exact ⟨s', by simp only [dropTu, he], htv⟩

theorem quiet_anyDep {P : Prog} {g f : Nat}
    (ih : ∀ s n, QuietN s g n → ∃ (s' : Storage) (r : Rev), upToDate f P s n = (s', .ok (false, r.tu)) ∧ TvOnly s s') :
    ∀ (deps : List Dep) (s : Storage), (∀ d, d ∈ deps → QuietDep (QuietN s g) s d) →
      ∃ s', anyDep (depChanged (dropTu (upToDate f P))) deps s = (s', .ok false) ∧ TvOnly s s' := by
  intro deps
  induction deps with
  | nil => intro s _; exact ⟨s, rfl, TvOnly.refl s⟩
  | cons d ds ihd =>
    intro s h
    simp only [anyDep]
    by_cases hst : d.stamp = s.epoch
    · rw [if_pos hst]; exact ihd s (fun d' hd' => h d' (List.mem_cons_of_mem _ hd'))
    · rw [if_neg hst]
      obtain ⟨s1, he1, htv1⟩ := quiet_dep ih s d (h d List.mem_cons_self)
      rw [he1]
      simp only
      have hrest : ∀ d', d' ∈ ds → QuietDep (QuietN s1 g) s1 d' := by
        intro d' hd'
        have h0 := h d' (List.mem_cons_of_mem _ hd')
        unfold QuietDep at h0 ⊢
        cases hn : d'.node with
        | source k => rw [hn] at h0; simp only at h0 ⊢; rw [htv1.srcs]; exact h0
        | absent k => rw [hn] at h0; simp only at h0 ⊢; rw [htv1.srcs]; exact h0
        | derived q =>
          rw [hn] at h0; simp only at h0 ⊢
          obtain ⟨rq, hq1, htu, hrec⟩ := h0
          obtain ⟨rq', hq', _, htu', _⟩ := htv1.node q rq hq1
          exact ⟨rq', hq', by rw [htu']; exact htu, QuietN.mono htv1 g q hrec⟩
      obtain ⟨s2, he2, htv2⟩ := ihd s1 hrest
      exact ⟨s2, he2, htv1.trans htv2⟩

/-- **a quiet node is brought up to date without running anything** (any program, any storage) -/
theorem quiet_upToDate (P : Prog) : ∀ (g f : Nat), g ≤ f → ∀ (s : Storage) (n : NodeId), QuietN s g n →
    ∃ (s' : Storage) (r : Rev), upToDate f P s n = (s', .ok (false, r.tu)) ∧ TvOnly s s' := by
  intro g
  induction g with
  | zero => intro f _ s n hq; exact absurd hq (by simp [QuietN])
  | succ g ih =>
    intro f hgf s n hq
    obtain ⟨f', rfl⟩ : ∃ f', f = f' + 1 := ⟨f - 1, by omega⟩
    have ih' := ih f' (by omega)
    obtain ⟨r, hl, hd⟩ := hq
    simp only [upToDate, hl]
    by_cases htv : r.tv = s.epoch
    · rw [if_pos htv]; exact ⟨s, r, rfl, TvOnly.refl s⟩
    · rw [if_neg htv]
      have hsetTv : setTv s n s.epoch = { s with derived := ainsert s.derived n (Rev.mk r.val r.tu s.epoch r.deps) } := by
        simp [setTv, hl]
      rw [hsetTv]
      have htv1 : TvOnly s { s with derived := ainsert s.derived n (Rev.mk r.val r.tu s.epoch r.deps) } := by
        refine ⟨rfl, rfl, rfl, rfl, rfl, rfl, ?_⟩
        intro q rq hq
        by_cases hqn : q = n
        · subst hqn; rw [hl] at hq; cases hq
          exact ⟨_, alookup_ainsert_self _ _ _, rfl, rfl, rfl⟩
        · exact ⟨rq, by simp only; rw [alookup_ainsert_ne _ _ _ _ (Ne.symm hqn)]; exact hq, rfl, rfl, rfl⟩
      have hd1 : ∀ d, d ∈ r.deps →
          QuietDep (QuietN { s with derived := ainsert s.derived n (Rev.mk r.val r.tu s.epoch r.deps) } g)
            { s with derived := ainsert s.derived n (Rev.mk r.val r.tu s.epoch r.deps) } d := by
        intro d hdm
        have h0 := hd d hdm
        unfold QuietDep at h0 ⊢
        cases hn : d.node with
        | source k => rw [hn] at h0; exact h0
        | absent k => rw [hn] at h0; exact h0
        | derived q =>
          rw [hn] at h0; simp only at h0 ⊢
          obtain ⟨rq, hq1, htu, hrec⟩ := h0
          obtain ⟨rq', hq', _, htu', _⟩ := htv1.node q rq hq1
          exact ⟨rq', hq', by rw [htu']; exact htu, QuietN.mono htv1 g q hrec⟩
      obtain ⟨s2, he2, htv2⟩ := quiet_anyDep (fun s n hq => ih' s n hq) r.deps _ hd1
      simp only [he2]
      exact ⟨s2, r, rfl, htv1.trans htv2⟩

/-- the top-level call of a quiet node runs no body -/
theorem step_call_quiet {P : Prog} (fuel : Nat) (s : Storage) (f a g : Nat) (hg : g ≤ fuel)
    (hq : QuietN s g (nodeOf P f a)) :
    (step fuel P s (.call f a)).1.runs = s.runs ∧ (step fuel P s (.call f a)).1.log = s.log := by
  unfold step
  by_cases hp : s.poisoned = true
  · rw [if_pos hp]; exact ⟨rfl, rfl⟩
  · rw [if_neg hp]
    have htop : TvOnly s (pushTop s (nodeOf P f a)) := by
      unfold pushTop
      split
      · exact ⟨rfl, rfl, rfl, rfl, rfl, rfl, fun _ r h => ⟨r, h, rfl, rfl, rfl⟩⟩
      · exact TvOnly.refl s
    obtain ⟨s', r, he, htv⟩ := quiet_upToDate P g fuel hg _ _ (QuietN.mono htop g _ hq)
    have hreg : ∀ (x : Storage) (n : DepNode) (tu : Nat), (regDep x n tu).runs = x.runs ∧ (regDep x n tu).log = x.log ∧
        (regDep x n tu).derived = x.derived := by
      intro x n tu; unfold regDep; split <;> exact ⟨rfl, rfl, rfl⟩
    have hexec : exec fuel P s (nodeOf P f a) = (regDep s' (.derived (nodeOf P f a)) r.tu, .ok false) := by
      show execF (upToDate fuel P) s (nodeOf P f a) = _
      unfold execF
      rw [he]
    obtain ⟨h1, h2, _⟩ := hreg s' (.derived (nodeOf P f a)) r.tu
    have hr : (regDep s' (.derived (nodeOf P f a)) r.tu).runs = s.runs := h1.trans (htv.runs.trans htop.runs)
    have hlg : (regDep s' (.derived (nodeOf P f a)) r.tu).log = s.log := h2.trans (htv.log.trans htop.log)
    cases hlk : alookup (regDep s' (.derived (nodeOf P f a)) r.tu).derived (nodeOf P f a) with
    | none => simp only [callVia, hexec, hlk]; exact ⟨hr, hlg⟩
    | some rr => simp only [callVia, hexec, hlk]; exact ⟨hr, hlg⟩

/-! ## after a clean call the node is quiet -/

theorem quiet_of_verified {P : Prog} {rank : Nat → Nat} (hacy : Acyclic P rank) {s : Storage} (h : TopInv P s) :
    ∀ (g : Nat) (n : NodeId) (r : Rev), rank n.fn < g → alookup s.derived n = some r →
      (r.deps = [] ∨ r.tv = s.epoch) → QuietN s g n := by
  intro g
  induction g with
  | zero => intro n r hr; exact absurd hr (Nat.not_lt_zero _)
  | succ g ih =>
    intro n r hr hl hcase
    refine ⟨r, hl, ?_⟩
    intro d hd
    rcases hcase with he | htv
    · rw [he] at hd; cases hd
    · have hok := h.nodes n r hl
      have hq := hok.quiet htv d hd
      unfold DepQuiet at hq
      unfold QuietDep
      cases hn : d.node with
      | source k => rw [hn] at hq; exact hq
      | absent k => rw [hn] at hq; exact hq
      | derived q =>
        rw [hn] at hq; simp only at hq ⊢
        obtain ⟨rq, hq1, htu, hdv⟩ := hq
        obtain ⟨σx, mx, R, hb, _, hx, _⟩ := hok.ghost
        obtain ⟨rd, hrd, hk⟩ := hx d hd
        obtain ⟨w, hw⟩ := kind_derived' (hk.trans hn)
        have hlt := hacy n.fn q.fn (BigE.node_reads hb q w (hw ▸ hrd))
        exact ⟨rq, hq1, htu, ih q rq (by omega) hq1 hdv⟩

/-! ## source writes the recorded closure does not mention -/

def AvoidDep (rec : NodeId → Prop) (k : Key) (d : Dep) : Prop :=
  match d.node with
  | .source k' => k' ≠ k
  | .absent k' => k' ≠ k
  | .derived q => rec q

/-- to depth `g`, no dependency recorded for `n` — or for a node recorded for it, transitively —
is the source `k` (present or absent) -/
def Avoids (dv : List (NodeId × Rev)) (k : Key) : Nat → NodeId → Prop
  | 0, _ => True
  | g + 1, n =>
    match alookup dv n with
    | none => True
    | some r => ∀ d, d ∈ r.deps → AvoidDep (Avoids dv k g) k d

instance AvoidDep.dec (rec : NodeId → Prop) [DecidablePred rec] (k : Key) (d : Dep) : Decidable (AvoidDep rec k d) := by
  unfold AvoidDep; split <;> infer_instance

instance Avoids.dec (dv : List (NodeId × Rev)) (k : Key) : ∀ g n, Decidable (Avoids dv k g n)
  | 0, _ => isTrue trivial
  | g + 1, n => by
    have : DecidablePred (Avoids dv k g) := Avoids.dec dv k g
    unfold Avoids
    split <;> infer_instance

theorem QuietN.write {s s' : Storage} (k : Key) (hd : s'.derived = s.derived)
    (hs : ∀ k', k' ≠ k → alookup s'.srcs k' = alookup s.srcs k') :
    ∀ g n, QuietN s g n → Avoids s.derived k g n → QuietN s' g n := by
  intro g
  induction g with
  | zero => intro n hq _; exact hq
  | succ g ih =>
    intro n hq hav
    obtain ⟨r, hl, hdq⟩ := hq
    refine ⟨r, by rw [hd]; exact hl, ?_⟩
    intro d hdm
    have h0 := hdq d hdm
    unfold Avoids at hav
    rw [hl] at hav
    have h1 := hav d hdm
    unfold QuietDep at h0 ⊢
    unfold AvoidDep at h1
    cases hn : d.node with
    | source k' => rw [hn] at h0 h1; simp only at h0 h1 ⊢; rw [hs k' h1]; exact h0
    | absent k' => rw [hn] at h0 h1; simp only at h0 h1 ⊢; rw [hs k' h1]; exact h0
    | derived q =>
      rw [hn] at h0 h1; simp only at h0 h1 ⊢
      obtain ⟨rq, hq1, htu, hrec⟩ := h0
      exact ⟨rq, by rw [hd]; exact hq1, htu, ih q hrec h1⟩

/-- the source an operation writes -/
def Op.srcKey : Op → Option Key
  | .set k _ | .rem k => some (.src k)
  | .sset i _ | .srem i => some (.sing i)
  | .tins m _ | .trem m _ => some (.ctr m)
  | _ => none

/-- `op` is a source operation on a key the recorded closure of `n` does not mention -/
def OpAvoids (dv : List (NodeId × Rev)) (g : Nat) (n : NodeId) (op : Op) : Prop :=
  match op.srcKey with
  | some k => Avoids dv k g n
  | none => False

instance (dv : List (NodeId × Rev)) (g : Nat) (n : NodeId) (op : Op) : Decidable (OpAvoids dv g n op) := by
  unfold OpAvoids; split <;> infer_instance

theorem touchCounter_other (s : Storage) (m : Nat) :
    (touchCounter s m).derived = s.derived ∧
      ∀ k, k ≠ .ctr m → alookup (touchCounter s m).srcs k = alookup s.srcs k := by
  unfold touchCounter
  split
  · exact ⟨(setSource_other s _ _).2.1, (setSource_other s _ _).2.2⟩
  · exact ⟨(setSource_other s _ _).2.1, (setSource_other s _ _).2.2⟩

/-- a source operation leaves the stored nodes and every other source alone -/
theorem step_src_frame (fuel : Nat) (P : Prog) (s : Storage) (op : Op) (k : Key) (hk : op.srcKey = some k) :
    (step fuel P s op).1.derived = s.derived ∧
      ∀ k', k' ≠ k → alookup (step fuel P s op).1.srcs k' = alookup s.srcs k' := by
  unfold step
  by_cases hp : s.poisoned = true
  · rw [if_pos hp]; exact ⟨rfl, fun _ _ => rfl⟩
  · rw [if_neg hp]
    cases op with
    | set k0 v => simp only [Op.srcKey, Option.some.injEq] at hk; subst hk; exact (setSource_other s _ _).2
    | rem k0 => simp only [Op.srcKey, Option.some.injEq] at hk; subst hk; exact (removeSource_other s _).2
    | sset i v => simp only [Op.srcKey, Option.some.injEq] at hk; subst hk; exact (setSource_other s _ _).2
    | srem i => simp only [Op.srcKey, Option.some.injEq] at hk; subst hk; exact (removeSource_other s _).2
    | tins m x => simp only [Op.srcKey, Option.some.injEq] at hk; subst hk; exact touchCounter_other s m
    | trem m x => simp only [Op.srcKey, Option.some.injEq] at hk; subst hk; exact touchCounter_other s m
    | call f a => simp [Op.srcKey] at hk
    | look f a => simp [Op.srcKey] at hk
    | retain f a => simp [Op.srcKey] at hk
    | unretain f a => simp [Op.srcKey] at hk
    | nevergc f a => simp [Op.srcKey] at hk
    | gc => simp [Op.srcKey] at hk

/-- a sequence of source writes the recorded closure of `n` does not mention keeps `n` quiet -/
theorem quiet_runS (fuel : Nat) (P : Prog) (g : Nat) (n : NodeId) :
    ∀ (ws : List Op) (s : Storage), QuietN s g n →
      (∀ op, op ∈ ws → ∃ k, op.srcKey = some k ∧ Avoids s.derived k g n) →
      QuietN (runS fuel P s ws) g n ∧ (runS fuel P s ws).derived = s.derived := by
  intro ws
  induction ws with
  | nil => intro s hq _; exact ⟨hq, rfl⟩
  | cons op ops ih =>
    intro s hq hws
    rw [runS_cons]
    obtain ⟨k, hk, hav⟩ := hws op List.mem_cons_self
    obtain ⟨hd, hs⟩ := step_src_frame fuel P s op k hk
    have hq1 := QuietN.write k hd hs g n hq hav
    obtain ⟨h1, h2⟩ := ih _ hq1 (fun op' hop' => by
      obtain ⟨k', hk', hav'⟩ := hws op' (List.mem_cons_of_mem _ hop')
      exact ⟨k', hk', by rw [hd]; exact hav'⟩)
    exact ⟨h1, h2.trans hd⟩

/-- **C02, unrelated writes, nested calls.**  After a clean call of `(f, a)` (history `pre` with clean
calls, acyclic program), any sequence `ws` of source operations — sets, removes, singleton writes,
tracked-field writes, with any values — on keys that the recorded dependency closure of the node
does not mention, followed by another call of `(f, a)`, runs no body at all. -/
theorem unrelated_writes_no_rerun {P : Prog} {rank : Nat → Nat} (hacy : Acyclic P rank) (fuel cap : Nat)
    (hrank : ∀ g, rank g < fuel) (pre : List Op) (f a : Nat) (ws : List Op)
    (hclean : CleanCalls fuel cap P (pre ++ [.call f a]))
    (hws : ∀ op, op ∈ ws → ∃ k, op.srcKey = some k ∧
      Avoids (after fuel cap P (pre ++ [.call f a])).derived k fuel (nodeOf P f a)) :
    (after fuel cap P (pre ++ .call f a :: ws ++ [.call f a])).runs = (after fuel cap P (pre ++ .call f a :: ws)).runs ∧
    (after fuel cap P (pre ++ .call f a :: ws ++ [.call f a])).log = (after fuel cap P (pre ++ .call f a :: ws)).log := by
  have hinv : TopInv P (after fuel cap P pre) := by
    unfold after
    refine topInv_runS hacy fuel hrank pre _ (TopInv.init P cap P.length) ?_
    intro p f' a' rest' hp
    exact hclean p f' a' (rest' ++ [.call f a]) (by rw [hp]; simp)
  obtain ⟨v, hv⟩ := hclean pre f a [] rfl
  obtain ⟨hinv1, _, hnode⟩ := step_call_inc hacy fuel hrank _ f a v hinv hv
  have e1 : after fuel cap P (pre ++ [.call f a]) = (step fuel P (after fuel cap P pre) (.call f a)).1 := by
    unfold after; rw [runS_append]; rfl
  have e2 : after fuel cap P (pre ++ .call f a :: ws) = runS fuel P (after fuel cap P (pre ++ [.call f a])) ws := by
    unfold after; rw [runS_append, runS_append]; rfl
  have e3 : after fuel cap P (pre ++ .call f a :: ws ++ [.call f a]) =
      (step fuel P (after fuel cap P (pre ++ .call f a :: ws)) (.call f a)).1 := by
    unfold after; rw [runS_append]; rfl
  rw [e3]
  by_cases hp : (after fuel cap P pre).poisoned = true
  · -- a poisoned storage ignores every operation
    have hstep : ∀ (sX : Storage) (op : Op), sX.poisoned = true → (step fuel P sX op).1 = sX := by
      intro sX op h; unfold step; rw [if_pos h]
    have hrun : ∀ (ops : List Op) (sX : Storage), sX.poisoned = true → runS fuel P sX ops = sX := by
      intro ops
      induction ops with
      | nil => intro sX _; rfl
      | cons o os ih => intro sX h; rw [runS_cons, hstep sX o h]; exact ih sX h
    have hp1 : (after fuel cap P (pre ++ [.call f a])).poisoned = true := by rw [e1, hstep _ _ hp]; exact hp
    have hp2 : (after fuel cap P (pre ++ .call f a :: ws)).poisoned = true := by rw [e2, hrun ws _ hp1]; exact hp1
    rw [hstep _ _ hp2]; exact ⟨rfl, rfl⟩
  · obtain ⟨⟨r', hl', htv'⟩, _⟩ := hnode (by cases h : (after fuel cap P pre).poisoned <;> simp_all)
    rw [← e1] at hl' htv' hinv1
    have hq1 : QuietN (after fuel cap P (pre ++ [.call f a])) fuel (nodeOf P f a) :=
      quiet_of_verified hacy hinv1 fuel _ r' (hrank _) hl' (Or.inr htv')
    obtain ⟨hq2, _⟩ := quiet_runS fuel P fuel (nodeOf P f a) ws _ hq1 hws
    rw [← e2] at hq2
    exact step_call_quiet fuel _ f a fuel (Nat.le_refl _) hq2

end IsoVerif.Pico
