/-
Invariant of the arena transition system (`Model/ArenaTrace.lean`) and its preservation.
-/
import IsoVerif.Model.ArenaTrace
import IsoVerif.Lemmas.Arena
namespace IsoVerif.ArenaT
open IsoVerif.Arena IsoVerif.Gen.ArenaConsts

inductive Step (s : St) (t : Tid) : St → Prop
  | startAdd (v : Elem) : s.thr t = .idle → Step s t (setPc s t (.addFetch v))
  | startGet (r : Nat) : s.thr t = .idle → 0 < r → r < W →
      Step s t (setPc s t (.getCheck r (completed s.hist r)))
  | startLen : s.thr t = .idle → Step s t (setPc s t .lenLoad)
  | fetchOk (v : Elem) : s.thr t = .addFetch v → minSize ≤ s.next % W →
      Step s t (setPc { s with next := s.next + 1 } t (.addLoad v (s.next % W)))
  | fetchPanic (v : Elem) : s.thr t = .addFetch v → ¬ minSize ≤ s.next % W →
      Step s t (setPc { s with next := s.next + 1 } t .panicked)
  | loadHit (v : Elem) (i : Nat) (p : AllocId) : s.thr t = .addLoad v i → s.bucket (idxA i) = some p →
      Step s t (setPc s t (.addWrite v i p))
  | loadMiss (v : Elem) (i : Nat) : s.thr t = .addLoad v i → s.bucket (idxA i) = none →
      Step s t (setPc s t (.slowLock v i))
  | lockOk (v : Elem) (i : Nat) : s.thr t = .slowLock v i → s.mutex = none →
      Step s t (setPc { s with mutex := some t } t (.slowRecheck v i))
  | lockBlocked (v : Elem) (i : Nat) (t' : Tid) : s.thr t = .slowLock v i → s.mutex = some t' → Step s t s
  | recheckHit (v : Elem) (i : Nat) (p : AllocId) : s.thr t = .slowRecheck v i → s.bucket (idxA i) = some p →
      Step s t (setPc s t (.slowUnlockFound v i p))
  | recheckMiss (v : Elem) (i : Nat) : s.thr t = .slowRecheck v i → s.bucket (idxA i) = none →
      Step s t (setPc { s with nextAlloc := s.nextAlloc + 1 } t (.slowStore v i s.nextAlloc))
  | unlockFound (v : Elem) (i : Nat) (p : AllocId) : s.thr t = .slowUnlockFound v i p →
      Step s t (setPc { s with mutex := none } t (.addWrite v i p))
  | store (v : Elem) (i : Nat) (p : AllocId) : s.thr t = .slowStore v i p →
      Step s t (setPc { s with bucket := upd s.bucket (idxA i) (some p), stores := (idxA i, p) :: s.stores }
                t (.slowUnlock v i p))
  | unlock (v : Elem) (i : Nat) (p : AllocId) : s.thr t = .slowUnlock v i p →
      Step s t (setPc { s with mutex := none } t (.addWrite v i p))
  | write (v : Elem) (i : Nat) (p : AllocId) : s.thr t = .addWrite v i p →
      Step s t (setPc { s with mem := upd2 s.mem p (idxB i) (some v), hist := .addRet t v i :: s.hist } t .idle)
  | getCheckOk (r : Nat) (exp : Option Elem) : s.thr t = .getCheck r exp → r < s.next % W →
      Step s t (setPc s t (.getLoad r exp))
  | getCheckPanic (r : Nat) (exp : Option Elem) : s.thr t = .getCheck r exp → ¬ r < s.next % W →
      Step s t (setPc { s with hist := .getRet t r exp .debugPanic :: s.hist } t .panicked)
  | getLoadOk (r : Nat) (exp : Option Elem) : s.thr t = .getLoad r exp → idxA r < numSizes →
      Step s t (setPc s t (.getRead r exp (some (s.bucket (idxA r)))))
  | getLoadOob (r : Nat) (exp : Option Elem) : s.thr t = .getLoad r exp → ¬ idxA r < numSizes →
      Step s t (setPc s t (.getRead r exp none))
  | getRead (r : Nat) (exp : Option Elem) (q : Option (Option AllocId)) (res : GetRes) :
      s.thr t = .getRead r exp q →
      res = (match q with
          | none => GetRes.oob
          | some none => .null
          | some (some p) => match s.mem p (idxB r) with
            | some v => .ok v
            | none => .uninit) →
      Step s t (setPc { s with hist := .getRet t r exp res :: s.hist } t .idle)
  | lenOk : s.thr t = .lenLoad → minSize ≤ s.next % W →
      Step s t (setPc { s with hist := .lenRet t (s.next % W - minSize) :: s.hist } t .idle)
  | lenPanic : s.thr t = .lenLoad → ¬ minSize ≤ s.next % W → Step s t (setPc s t .panicked)

theorem step_Step {s s' : St} {t : Tid} {a : Act} (h : step s t a = some s') : Step s t s' := by
  cases a with
  | startAdd v =>
    simp only [step] at h
    split at h
    · cases h; exact .startAdd v ‹_›
    · cases h
  | startGet r =>
    simp only [step] at h
    split at h
    · cases h; rename_i hc; exact .startGet r hc.1 hc.2.1 hc.2.2
    · cases h
  | startLen =>
    simp only [step] at h
    split at h
    · cases h; exact .startLen ‹_›
    · cases h
  | step =>
    simp only [step] at h
    split at h
    · cases h
    · cases h
    · rename_i v hpc
      split at h
      · cases h; exact .fetchOk v hpc ‹_›
      · cases h; exact .fetchPanic v hpc ‹_›
    · rename_i v i hpc
      split at h
      · cases h; exact .loadHit v i _ hpc ‹_›
      · cases h; exact .loadMiss v i hpc ‹_›
    · rename_i v i hpc
      split at h
      · cases h; exact .lockOk v i hpc ‹_›
      · cases h; exact .lockBlocked v i _ hpc ‹_›
    · rename_i v i hpc
      split at h
      · cases h; exact .recheckHit v i _ hpc ‹_›
      · cases h; exact .recheckMiss v i hpc ‹_›
    · rename_i v i p hpc; cases h; exact .unlockFound v i p hpc
    · rename_i v i p hpc; cases h; exact .store v i p hpc
    · rename_i v i p hpc; cases h; exact .unlock v i p hpc
    · rename_i v i p hpc; cases h; exact .write v i p hpc
    · rename_i r exp hpc
      split at h
      · cases h; exact .getCheckOk r exp hpc ‹_›
      · cases h; exact .getCheckPanic r exp hpc ‹_›
    · rename_i r exp hpc
      split at h
      · cases h; exact .getLoadOk r exp hpc ‹_›
      · cases h; exact .getLoadOob r exp hpc ‹_›
    · rename_i r exp q hpc; cases h; exact .getRead r exp q _ hpc rfl
    · rename_i hpc
      split at h
      · cases h; exact .lenOk hpc ‹_›
      · cases h; exact .lenPanic hpc ‹_›

def resv : Pc → Option Nat
  | .addLoad _ i | .slowLock _ i | .slowRecheck _ i | .slowUnlockFound _ i _
  | .slowStore _ i _ | .slowUnlock _ i _ | .addWrite _ i _ => some i
  | _ => none

def held : Pc → Option AllocId
  | .slowUnlockFound _ _ p | .slowUnlock _ _ p | .addWrite _ _ p => some p
  | _ => none

/-- `(r, v)` when the thread runs a `get r` that started after an `add` had returned `r` for `v` -/
def gexp : Pc → Option (Nat × Option Elem)
  | .getCheck r e | .getLoad r e | .getRead r e _ => some (r, e)
  | _ => none

def inCrit : Pc → Bool
  | .slowRecheck .. | .slowUnlockFound .. | .slowStore .. | .slowUnlock .. => true
  | _ => false

@[simp] theorem setPc_thr (s : St) (t : Tid) (pc : Pc) (t' : Tid) :
    (setPc s t pc).thr t' = if t' = t then pc else s.thr t' := rfl
@[simp] theorem setPc_next (s : St) (t : Tid) (pc : Pc) : (setPc s t pc).next = s.next := rfl
@[simp] theorem setPc_bucket (s : St) (t : Tid) (pc : Pc) : (setPc s t pc).bucket = s.bucket := rfl
@[simp] theorem setPc_mem (s : St) (t : Tid) (pc : Pc) : (setPc s t pc).mem = s.mem := rfl
@[simp] theorem setPc_nextAlloc (s : St) (t : Tid) (pc : Pc) : (setPc s t pc).nextAlloc = s.nextAlloc := rfl
@[simp] theorem setPc_mutex (s : St) (t : Tid) (pc : Pc) : (setPc s t pc).mutex = s.mutex := rfl
@[simp] theorem setPc_hist (s : St) (t : Tid) (pc : Pc) : (setPc s t pc).hist = s.hist := rfl
@[simp] theorem setPc_stores (s : St) (t : Tid) (pc : Pc) : (setPc s t pc).stores = s.stores := rfl
@[simp] theorem setPc_base (s : St) (t : Tid) (pc : Pc) : (setPc s t pc).base = s.base := rfl
@[simp] theorem upd_apply {α : Type} (f : Nat → α) (k : Nat) (v : α) (x : Nat) :
    upd f k v x = if x = k then v else f x := rfl
@[simp] theorem upd2_apply {α : Type} (f : Nat → Nat → α) (k j : Nat) (v : α) (x y : Nat) :
    upd2 f k j v x y = if x = k ∧ y = j then v else f x y := rfl


/-! ### Facts about `addRefs`, `lenVals`, `completed` -/

theorem mem_addRefs {h : List Ev} {r : Nat} : r ∈ addRefs h ↔ ∃ t v, Ev.addRet t v r ∈ h := by
  induction h with
  | nil => simp [addRefs]
  | cons e rest ih =>
    cases e <;> simp [addRefs, ih]
    · constructor
      · rintro (rfl | ⟨t, v, h⟩)
        · exact ⟨_, _, Or.inl ⟨rfl, rfl, rfl⟩⟩
        · exact ⟨t, v, Or.inr h⟩
      · rintro ⟨t, v, (⟨_, _, rfl⟩ | h)⟩
        · exact Or.inl rfl
        · exact Or.inr ⟨t, v, h⟩

theorem completed_mem {h : List Ev} {r : Nat} {v : Elem} (hc : completed h r = some v) :
    ∃ t, Ev.addRet t v r ∈ h := by
  induction h with
  | nil => simp [completed] at hc
  | cons e rest ih =>
    cases e with
    | addRet t' v' r' =>
      simp only [completed] at hc
      split at hc
      · cases hc; subst_vars; exact ⟨t', List.mem_cons_self⟩
      · obtain ⟨t, ht⟩ := ih hc; exact ⟨t, List.mem_cons_of_mem _ ht⟩
    | getRet _ _ _ _ => obtain ⟨t, ht⟩ := ih (by simpa [completed] using hc); exact ⟨t, List.mem_cons_of_mem _ ht⟩
    | lenRet _ _ => obtain ⟨t, ht⟩ := ih (by simpa [completed] using hc); exact ⟨t, List.mem_cons_of_mem _ ht⟩

/-- index arithmetic packaged for the trace proofs -/
theorem idx_inj {i j : Nat} (hi : minSize ≤ i) (hj : minSize ≤ j) (hiw : i < W) (hjw : j < W)
    (ha : idxA i = idxA j) (hb : idxB i = idxB j) : i = j := by
  have hm : 0 < minSize := by decide
  have hi0 : i ≠ 0 := by omega
  have hj0 : j ≠ 0 := by omega
  apply index_injective i j hi0 hj0 hiw hjw
  rw [index_eq_idx i hi0 hiw, index_eq_idx j hj0 hjw, ha, hb]

theorem idxA_lt {i : Nat} (hi : minSize ≤ i) (hiw : i < W) : idxA i < numSizes := by
  obtain ⟨a, b, h, ha, _, _⟩ := index_spec i hi hiw
  have hm : 0 < minSize := by decide
  rw [index_eq_idx i (by omega) hiw] at h
  simp only [Option.some.injEq, Prod.mk.injEq] at h
  omega

/-! ### The invariant -/

structure Inv (s : St) : Prop where
  noWrap : s.next < W
  base_ge : minSize ≤ s.base
  base_le : s.base ≤ s.next
  resv_range : ∀ t i, resv (s.thr t) = some i → s.base ≤ i ∧ i < s.next
  resv_uniq : ∀ t t' i, resv (s.thr t) = some i → resv (s.thr t') = some i → t = t'
  hist_range : ∀ r, r ∈ addRefs s.hist → s.base ≤ r ∧ r < s.next
  hist_resv : ∀ t i, resv (s.thr t) = some i → i ∉ addRefs s.hist
  hist_nodup : (addRefs s.hist).Nodup
  cover : ∀ i, s.base ≤ i → i < s.next → i ∈ addRefs s.hist ∨ ∃ t, resv (s.thr t) = some i
  mutex_iff : ∀ t, inCrit (s.thr t) = true ↔ s.mutex = some t
  held_ok : ∀ t i p, resv (s.thr t) = some i → held (s.thr t) = some p → s.bucket (idxA i) = some p
  fresh_ok : ∀ t v i p, s.thr t = .slowStore v i p →
    s.bucket (idxA i) = none ∧ p < s.nextAlloc ∧ (∀ a, s.bucket a ≠ some p) ∧ (∀ b, s.mem p b = none)
  alloc_lt : ∀ a p, s.bucket a = some p → p < s.nextAlloc
  alloc_inj : ∀ a a' p, s.bucket a = some p → s.bucket a' = some p → a = a'
  mem_fresh : ∀ p b, s.nextAlloc ≤ p → s.mem p b = none
  slots : ∀ t v r, Ev.addRet t v r ∈ s.hist → ∃ p, s.bucket (idxA r) = some p ∧ s.mem p (idxB r) = some v
  slots0 : ∀ i, minSize ≤ i → i < s.base → ∃ p v, s.bucket (idxA i) = some p ∧ s.mem p (idxB i) = some v
  get_exp : ∀ t r v, gexp (s.thr t) = some (r, some v) → ∃ t', Ev.addRet t' v r ∈ s.hist
  get_ptr : ∀ t r v q, s.thr t = .getRead r (some v) q → ∃ p, q = some (some p) ∧ s.bucket (idxA r) = some p
  get_ret : ∀ t r v res, Ev.getRet t r (some v) res ∈ s.hist → res = .ok v
  stores_ok : ∀ a p, (a, p) ∈ s.stores → s.bucket a = some p
  stores_nodup : (s.stores.map Prod.fst).Nodup
  len_le : ∀ n, n ∈ lenVals s.hist → n + minSize ≤ s.next
  len_sorted : (lenVals s.hist).Pairwise (· ≥ ·)
  bucket_used : ∀ a p, s.bucket a = some p → ∃ i, minSize ≤ i ∧ i < s.next ∧ idxA i = a
  orphan : ∀ p, p < s.nextAlloc → (∃ a, s.bucket a = some p) ∨ (∃ t v i, s.thr t = .slowStore v i p)

end IsoVerif.ArenaT
