/-
C02, nested calls: what a clean top-level call does to the stored nodes (`Moves`: backdating) and
which bodies it runs (`Just`: every run is justified by a re-stamped recorded dependency).
-/
import IsoVerif.Lemmas.PicoQuiet

namespace IsoVerif.Pico

/-- `Changed` at a moment `sx` of the move, read in the storage `s` before the call: a source was
re-stamped after the dependency was recorded; an absent source is now present; a callee was
re-stamped after the dependency was recorded — before the call, or during it because it was
re-executed and produced a DIFFERENT value -/
def StaleDep (s sx : Storage) (d : Dep) : Prop :=
  match d.node with
  | .source k => ∀ nd, alookup s.srcs k = some nd → d.stamp < nd.tu
  | .absent k => (alookup s.srcs k).isSome = true
  | .derived q => ∀ rq, alookup s.derived q = some rq →
      d.stamp < rq.tu ∨ ∃ rq', alookup sx.derived q = some rq' ∧ rq'.val ≠ rq.val

theorem staleDep_of_changed {s sx : Storage} {d : Dep} (hm : Moves s sx) (h : Changed sx d) : StaleDep s sx d := by
  unfold Changed at h
  unfold StaleDep
  cases hn : d.node with
  | source k => rw [hn] at h; simp only at h ⊢; rw [← hm.srcs]; exact h
  | absent k => rw [hn] at h; simp only at h ⊢; rw [← hm.srcs]; exact h
  | derived q =>
    rw [hn] at h; simp only at h ⊢
    intro rq hq
    obtain ⟨rq', hq', hc⟩ := hm.node q rq hq
    have hlt := h rq' hq'
    rcases hc with rfl | ⟨_, _, hcase⟩
    · exact Or.inl hlt
    · rcases hcase with ⟨_, htu⟩ | ⟨_, _, hne⟩
      · rw [htu] at hlt; exact Or.inl hlt
      · exact Or.inr ⟨rq', hq', hne⟩

/-- a clean call from a reachable state: how the stored nodes move, and which bodies run -/
theorem call_moves_just {P : Prog} {rank : Nat → Nat} (hacy : Acyclic P rank) (fuel cap : Nat)
    (hrank : ∀ g, rank g < fuel) (pre : List Op) (f a : Nat)
    (hclean : CleanCalls fuel cap P (pre ++ [.call f a])) :
    Moves (after fuel cap P pre) (after fuel cap P (pre ++ [.call f a])) ∧
    ∃ new, (after fuel cap P (pre ++ [.call f a])).log = new ++ (after fuel cap P pre).log ∧
      ∀ m, m ∈ new → Just (after fuel cap P pre) m := by
  have hinv : TopInv P (after fuel cap P pre) := by
    unfold after
    refine topInv_runS hacy fuel hrank pre _ (TopInv.init P cap P.length) ?_
    intro p f' a' rest' hp
    exact hclean p f' a' (rest' ++ [.call f a]) (by rw [hp]; simp)
  obtain ⟨v, hv⟩ := hclean pre f a [] rfl
  obtain ⟨_, _, hnode⟩ := step_call_inc hacy fuel hrank _ f a v hinv hv
  have e1 : after fuel cap P (pre ++ [.call f a]) = (step fuel P (after fuel cap P pre) (.call f a)).1 := by
    unfold after; rw [runS_append]; rfl
  rw [e1]
  by_cases hp : (after fuel cap P pre).poisoned = true
  · have : (step fuel P (after fuel cap P pre) (.call f a)).1 = after fuel cap P pre := by
      unfold step; rw [if_pos hp]
    rw [this]
    exact ⟨Moves.refl _, [], rfl, fun _ h => by cases h⟩
  · obtain ⟨_, hev⟩ := hnode (by cases h : (after fuel cap P pre).poisoned <;> simp_all)
    obtain ⟨new, e, j⟩ := hev.log
    exact ⟨hev.moves, new, e, fun m hm => (j m hm).2⟩

end IsoVerif.Pico
