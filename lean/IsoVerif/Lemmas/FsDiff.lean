/-
`FileSystemState::diff` is correct: applied to a directory that holds the tree of the old state,
its operations succeed and leave exactly the tree of the new state.  (`recreate_all` is the special
case `old = empty` after the directory was wiped, see `Lemmas/FsCompile.lean`.)

The operation list is walked loop by loop, exactly as the Rust code builds it:
  1. the new state's nested files   – invariant: directory = (processed part of new) over old
  2. the new state's root files     – same
  3. the old state's nested files   – invariant: directory = new over (unprocessed part of old)
  4. the old state's root files     – same
Association lists stand for hash maps in an arbitrary iteration order.
-/
import IsoVerif.Lemmas.FsTrees

namespace IsoVerif.Fs
open IsoVerif.Util

variable {α : Type} [DecidableEq α]

/-! ### one operation against a tree described as a function -/

theorem content_of (arts : List (Artifact α)) (i : Nat) (a : Artifact α) (h : arts[i]? = some a) :
    content arts i = a.content := by simp [content, h]

theorem write_step (arts : List (Artifact α)) (fs : Fs α) (p : Path α) (i : Nat) (a : Artifact α)
    (ha : arts[i]? = some a) (hp : p ≠ []) (T T' : Path α → Option Entry)
    (hinv : ∀ q, Fs.get fs q = T q)
    (hpar : T p.dropLast = some .dir) (hnd : T p ≠ some .dir)
    (hT' : ∀ q, T' q = if q = p then some (.file (content arts i)) else T q) :
    ∃ fs', run arts fs [Op.writeFile p i] = .ok fs' ∧ ∀ q, Fs.get fs' q = T' q := by
  refine ⟨Fs.set fs p (.file a.content), ?_, fun q => ?_⟩
  · have := writeFile_ok fs p a.content hp (by rw [hinv]; exact hpar) (by rw [hinv]; exact hnd)
    simp [run, applyOp, ha, this]
  · rw [get_set, hT', content_of arts i a ha, hinv]
    by_cases h : p = q
    · subst h; simp
    · have : ¬ q = p := fun hh => h hh.symm
      simp [h, this]

theorem mkdir_step (arts : List (Artifact α)) (fs : Fs α) (e s : α) (T T' : Path α → Option Entry)
    (hinv : ∀ q, Fs.get fs q = T q)
    (hroot : T [] = some .dir) (he : ∀ c, T [e] ≠ some (.file c)) (hs : ∀ c, T [e, s] ≠ some (.file c))
    (hT' : ∀ q, T' q = if q = [e] ∨ q = [e, s] then some .dir else T q) :
    ∃ fs', run arts fs [Op.createDirectory [e, s]] = .ok fs' ∧ ∀ q, Fs.get fs' q = T' q := by
  obtain ⟨fs', h1, h2⟩ := createDirAll_two fs e s (by rw [hinv]; exact hroot)
    (fun c => by rw [hinv]; exact he c) (fun c => by rw [hinv]; exact hs c)
  refine ⟨fs', by simp [run, applyOp, h1], fun q => ?_⟩
  rw [h2, hT', hinv]

theorem rmfile_step (arts : List (Artifact α)) (fs : Fs α) (p : Path α) (c : Bytes)
    (T T' : Path α → Option Entry) (hinv : ∀ q, Fs.get fs q = T q)
    (hfile : T p = some (.file c))
    (hT' : ∀ q, T' q = if q = p then none else T q) :
    ∃ fs', run arts fs [Op.deleteFile p] = .ok fs' ∧ ∀ q, Fs.get fs' q = T' q := by
  refine ⟨Fs.erase fs p, ?_, fun q => ?_⟩
  · have := removeFile_file fs p c (by rw [hinv]; exact hfile)
    simp [run, applyOp, this]
  · rw [get_erase, hT', hinv]
    by_cases h : p = q
    · subst h; simp
    · have : ¬ q = p := fun hh => h hh.symm
      simp [h, this]

theorem rmdir_step (arts : List (Artifact α)) (fs : Fs α) (p : Path α)
    (T T' : Path α → Option Entry) (hinv : ∀ q, Fs.get fs q = T q)
    (hdir : T p = some .dir)
    (hT' : ∀ q, T' q = if isPrefixOf p q then none else T q) :
    ∃ fs', run arts fs [Op.deleteDirectory p] = .ok fs' ∧ ∀ q, Fs.get fs' q = T' q := by
  refine ⟨Fs.eraseTree fs p, ?_, fun q => ?_⟩
  · have := deleteDirectory_dir fs p (by rw [hinv]; exact hdir)
    simp [run, applyOp, this]
  · rw [get_eraseTree, hT', hinv]

/-! ### the context of a diff -/

/-- What the planner's correctness needs to know about the two states: both well-formed, names
separated by `R`, the new state's indices point into `newArts`, and equal recorded hashes mean
equal contents (`faithful`; for states built from artifact lists this is injectivity of the hash on
the contents involved). -/
structure DiffCtx (R : α → Bool) (old new : State α) (oldArts newArts : List (Artifact α)) : Prop where
  wfO : old.WF
  wfN : new.WF
  saneO : old.Sane R
  saneN : new.Sane R
  validN : ∀ p i h, new.file p = some (i, h) → ∃ a, newArts[i]? = some a
  faithful : ∀ p i j h, old.file p = some (i, h) → new.file p = some (j, h) →
    content oldArts i = content newArts j

variable {R : α → Bool} {old new : State α} {oldArts newArts : List (Artifact α)}

/-! ### loops 1 and 2: the new state's entries -/

theorem files_phase (c : DiffCtx R old new oldArts newArts)
    (npre : Nested α) (e s : α) (spre : AList α (Files α)) (fm : Files α)
    (he : AList.lookup npre e = none) (hs : AList.lookup spre s = none) (hfm : NodupKeys fm)
    (hnew : ∀ f v, AList.lookup fm f = some v → new.file [e, s, f] = some v)
    (fs : Fs α)
    (hinv : ∀ q, Fs.get fs q =
      ov (treeOf ⟨[], npre ++ [(e, spre ++ [(s, [])])]⟩ newArts) (treeOf old oldArts) q) :
    ∃ fs', run newArts fs (fm.flatMap (writeIfChanged (oldFilesFor old e s) [e, s])) = .ok fs' ∧
      ∀ q, Fs.get fs' q =
        ov (treeOf ⟨[], npre ++ [(e, spre ++ [(s, fm)])]⟩ newArts) (treeOf old oldArts) q := by
  refine run_flatMap_inv newArts _
    (fun pre _ fs => ∀ q, Fs.get fs q =
      ov (treeOf ⟨[], npre ++ [(e, spre ++ [(s, pre)])]⟩ newArts) (treeOf old oldArts) q) fm ?_ fs hinv
  intro pre x suf fs1 hx h1
  obtain ⟨f, i, h⟩ := x
  have hsplit := nodupKeys_split pre suf f (i, h) (hx ▸ hfm)
  have hpre : AList.lookup pre f = none := hsplit.1
  have hlk : AList.lookup fm f = some (i, h) := by rw [hx]; exact lookup_mid _ _ _ _ hpre
  have hnf := hnew f (i, h) hlk
  obtain ⟨a, ha⟩ := c.validN _ _ _ hnf
  have hP3 : treeOf ⟨[], npre ++ [(e, spre ++ [(s, pre)])]⟩ newArts [e, s, f] = none := by
    rw [treeOf_three_cases]
    simp [oldFilesFor_snoc2 _ _ _ _ _ _ he hs, hpre]
  have hP2 : treeOf ⟨[], npre ++ [(e, spre ++ [(s, pre)])]⟩ newArts [e, s] = some .dir := by
    rw [treeOf_two_cases]
    simp [oldFilesFor_snoc2 _ _ _ _ _ _ he hs]
  have hA := treeA newArts [] npre e s f spre pre (i, h) he hs hpre
  -- the write, when it happens
  have hwrite : ∃ fs', run newArts fs1 [Op.writeFile [e, s, f] i] = .ok fs' ∧
      ∀ q, Fs.get fs' q =
        ov (treeOf ⟨[], npre ++ [(e, spre ++ [(s, pre ++ [(f, (i, h))])])]⟩ newArts) (treeOf old oldArts) q := by
    refine write_step newArts fs1 [e, s, f] i a ha (by simp) _ _ h1 ?_ ?_ ?_
    · exact ov_some _ _ _ _ hP2
    · rw [ov_none _ _ _ hP3]; exact treeOf_three_ne_dir _ _ _ _ _
    · intro q
      by_cases hq : q = [e, s, f]
      · subst hq
        simp only [if_true]
        exact ov_some _ _ _ _ (by rw [hA]; simp)
      · simp only [hq, if_false]
        exact ov_congr _ _ _ _ q (by rw [hA]; simp [hq]) (fun _ => rfl)
  simp only [writeIfChanged, List.cons_append, List.nil_append]
  cases hold : (oldFilesFor old e s).bind (fun m => AList.lookup m f) with
  | none => simpa using hwrite
  | some w =>
    obtain ⟨j, oh⟩ := w
    by_cases hne : oh = h
    · -- unchanged hash: nothing is written, the old content is the new content
      subst hne
      simp only [bne_self_eq_false, Bool.false_eq_true, if_false]
      refine ⟨fs1, rfl, fun q => ?_⟩
      rw [h1 q]
      by_cases hq : q = [e, s, f]
      · subst hq
        have hof : old.file [e, s, f] = some (j, oh) := hold
        have hTO : treeOf old oldArts [e, s, f] = some (.file (content oldArts j)) := by
          rw [treeOf_three_cases, hof]
        rw [ov_none _ _ _ hP3, hTO, c.faithful _ _ _ _ hof hnf]
        exact (ov_some _ _ _ _ (by rw [hA]; simp)).symm
      · exact ov_congr _ _ _ _ q (by rw [hA]; simp [hq]) (fun _ => rfl)
    · have : (oh != h) = true := by simpa using hne
      simpa [this] using hwrite

theorem sel_phase (c : DiffCtx R old new oldArts newArts)
    (npre : Nested α) (e : α) (sm : AList α (Files α))
    (he : AList.lookup npre e = none) (hRe : R e = false) (hsm : NodupKeys sm)
    (hnew : ∀ s fm, AList.lookup sm s = some fm → oldFilesFor new e s = some fm)
    (hfil : ∀ s fm, AList.lookup sm s = some fm → NodupKeys fm)
    (fs : Fs α)
    (hinv : ∀ q, Fs.get fs q = ov (treeOf ⟨[], npre ++ [(e, [])]⟩ newArts) (treeOf old oldArts) q) :
    ∃ fs', run newArts fs (newEntOps old e sm) = .ok fs' ∧
      ∀ q, Fs.get fs' q = ov (treeOf ⟨[], npre ++ [(e, sm)]⟩ newArts) (treeOf old oldArts) q := by
  unfold newEntOps
  refine run_flatMap_inv newArts _
    (fun pre _ fs => ∀ q, Fs.get fs q =
      ov (treeOf ⟨[], npre ++ [(e, pre)]⟩ newArts) (treeOf old oldArts) q) sm ?_ fs hinv
  intro pre x suf fs1 hx h1
  obtain ⟨s, fm⟩ := x
  have hsplit := nodupKeys_split pre suf s fm (hx ▸ hsm)
  have hpre : AList.lookup pre s = none := hsplit.1
  have hlk : AList.lookup sm s = some fm := by rw [hx]; exact lookup_mid _ _ _ _ hpre
  have hB := treeB newArts npre e s pre he hpre
  -- the tree before this selectable: `e` and `e/s` are directories or absent, never files
  have hP1 : ∀ x, treeOf ⟨[], npre ++ [(e, pre)]⟩ newArts [e] ≠ some (.file x) := by
    intro x; simp only [treeOf, file_one, lookup_nil]; cases State.isDir _ [e] <;> simp
  -- first the directory, if the old state does not have it
  have hdir : ∃ fs2, run newArts fs1
        (if (oldFilesFor old e s).isNone then [Op.createDirectory [e, s]] else []) = .ok fs2 ∧
      ∀ q, Fs.get fs2 q =
        ov (treeOf ⟨[], npre ++ [(e, pre ++ [(s, [])])]⟩ newArts) (treeOf old oldArts) q := by
    cases hold : oldFilesFor old e s with
    | none =>
      simp only [Option.isNone_none, if_true]
      refine mkdir_step newArts fs1 e s _ _ h1 ?_ ?_ ?_ ?_
      · exact ov_some _ _ _ _ (treeOf_nil _ _)
      · intro x hx'
        unfold ov at hx'
        cases ht : treeOf ⟨[], npre ++ [(e, pre)]⟩ newArts [e] with
        | some y => rw [ht] at hx'; simp at hx'; exact hP1 x (by rw [ht, hx'])
        | none => rw [ht] at hx'; exact treeOf_one_ne_file R old oldArts c.saneO e hRe x hx'
      · intro x hx'
        unfold ov at hx'
        cases ht : treeOf ⟨[], npre ++ [(e, pre)]⟩ newArts [e, s] with
        | some y => rw [ht] at hx'; simp at hx'; exact treeOf_two_ne_file _ _ _ _ x (by rw [ht, hx'])
        | none => rw [ht] at hx'; exact treeOf_two_ne_file _ _ _ _ x hx'
      · intro q
        by_cases hq : q = [e] ∨ q = [e, s]
        · simp only [hq, if_true]
          exact ov_some _ _ _ _ (by rw [hB]; simp [hq])
        · simp only [hq, if_false]
          exact ov_congr _ _ _ _ q (by rw [hB]; simp [hq]) (fun _ => rfl)
    | some ofm =>
      simp only [Option.isNone_some, Bool.false_eq_true, if_false]
      refine ⟨fs1, rfl, fun q => ?_⟩
      rw [h1 q]
      by_cases hq : q = [e] ∨ q = [e, s]
      · -- both are directories of the old tree already
        have hTO : treeOf old oldArts q = some .dir := by
          rcases hq with hq | hq
          · subst hq
            rw [treeOf_one_entity R old oldArts c.saneO e hRe]
            unfold oldFilesFor at hold
            cases hl : AList.lookup old.nestedFiles e with
            | none => rw [hl] at hold; simp at hold
            | some osm =>
              rw [hl] at hold
              cases osm with
              | nil => simp at hold
              | cons y ys => simp
          · subst hq
            rw [treeOf_two_cases, hold]; simp
        have hnew' : ov (treeOf ⟨[], npre ++ [(e, pre ++ [(s, [])])]⟩ newArts) (treeOf old oldArts) q
            = some .dir := ov_some _ _ _ _ (by rw [hB]; simp [hq])
        rw [hnew']
        unfold ov
        cases ht : treeOf ⟨[], npre ++ [(e, pre)]⟩ newArts q with
        | none => exact hTO
        | some y =>
          cases y with
          | dir => rfl
          | file x =>
            rcases hq with hq | hq
            · subst hq; exact absurd ht (hP1 x)
            · subst hq; exact absurd ht (treeOf_two_ne_file _ _ _ _ x)
      · exact ov_congr _ _ _ _ q (by rw [hB]; simp [hq]) (fun _ => rfl)
  obtain ⟨fs2, hr2, h2⟩ := hdir
  obtain ⟨fs3, hr3, h3⟩ := files_phase c npre e s pre fm he hpre (hfil s fm hlk)
    (fun f v hf => by
      have := hnew s fm hlk
      simp [file_three, this, hf]) fs2 h2
  exact ⟨fs3, run_append_ok _ _ _ _ _ _ hr2 hr3, h3⟩

theorem nested_phase (c : DiffCtx R old new oldArts newArts) (fs : Fs α)
    (hinv : ∀ q, Fs.get fs q = treeOf old oldArts q) :
    ∃ fs', run newArts fs (newNestedOps old new.nestedFiles) = .ok fs' ∧
      ∀ q, Fs.get fs' q = ov (treeOf ⟨[], new.nestedFiles⟩ newArts) (treeOf old oldArts) q := by
  unfold newNestedOps
  refine run_flatMap_inv newArts _
    (fun pre _ fs => ∀ q, Fs.get fs q =
      ov (treeOf ⟨[], pre⟩ newArts) (treeOf old oldArts) q) new.nestedFiles ?_ fs ?_
  · intro pre x suf fs1 hx h1
    obtain ⟨e, sm⟩ := x
    have hsplit := nodupKeys_split pre suf e sm (hx ▸ c.wfN.ent)
    have hpre : AList.lookup pre e = none := hsplit.1
    have hlk : AList.lookup new.nestedFiles e = some sm := by rw [hx]; exact lookup_mid _ _ _ _ hpre
    have hRe : R e = false := c.saneN.2 e sm hlk
    refine sel_phase c pre e sm hpre hRe (c.wfN.sel e sm hlk).1 ?_ ?_ fs1 ?_
    · intro s fm hs; simp [oldFilesFor, hlk, hs]
    · intro s fm hs; exact c.wfN.fil e sm s fm hlk hs
    · intro q; rw [h1 q]
      exact ov_congr _ _ _ _ q (treeC newArts [] pre e hpre q).symm (fun _ => rfl)
  · intro q
    rw [hinv q]
    have : treeOf (⟨[], []⟩ : State α) newArts q = if q = [] then some .dir else none :=
      treeOf_empty newArts q
    unfold ov
    rw [this]
    by_cases hq : q = []
    · subst hq; simp [treeOf_nil]
    · simp [hq]

theorem root_phase (c : DiffCtx R old new oldArts newArts) (fs : Fs α)
    (hinv : ∀ q, Fs.get fs q = ov (treeOf ⟨[], new.nestedFiles⟩ newArts) (treeOf old oldArts) q) :
    ∃ fs', run newArts fs (newRootOps old new.rootFiles) = .ok fs' ∧
      ∀ q, Fs.get fs' q = ov (treeOf new newArts) (treeOf old oldArts) q := by
  unfold newRootOps
  have hfinal : ∀ (fs' : Fs α),
      (∀ q, Fs.get fs' q = ov (treeOf ⟨new.rootFiles, new.nestedFiles⟩ newArts) (treeOf old oldArts) q) →
      ∀ q, Fs.get fs' q = ov (treeOf new newArts) (treeOf old oldArts) q := fun _ h => h
  suffices H : ∃ fs', run newArts fs (new.rootFiles.flatMap (writeIfChanged (some old.rootFiles) [])) = .ok fs' ∧
      ∀ q, Fs.get fs' q = ov (treeOf ⟨new.rootFiles, new.nestedFiles⟩ newArts) (treeOf old oldArts) q by
    obtain ⟨fs', h1, h2⟩ := H; exact ⟨fs', h1, hfinal fs' h2⟩
  refine run_flatMap_inv newArts _
    (fun pre _ fs => ∀ q, Fs.get fs q =
      ov (treeOf ⟨pre, new.nestedFiles⟩ newArts) (treeOf old oldArts) q) new.rootFiles ?_ fs hinv
  intro pre x suf fs1 hx h1
  obtain ⟨f, i, h⟩ := x
  have hsplit := nodupKeys_split pre suf f (i, h) (hx ▸ c.wfN.root)
  have hpre : AList.lookup pre f = none := hsplit.1
  have hlk : AList.lookup new.rootFiles f = some (i, h) := by rw [hx]; exact lookup_mid _ _ _ _ hpre
  have hnf : new.file [f] = some (i, h) := by simpa using hlk
  have hRf : R f = true := c.saneN.1 f (i, h) hlk
  obtain ⟨a, ha⟩ := c.validN _ _ _ hnf
  have hD := treeD newArts pre new.nestedFiles f (i, h) hpre
  have hsaneP : State.Sane R ⟨pre, new.nestedFiles⟩ :=
    ⟨fun g v hg => c.saneN.1 g v (by
        rw [hx, lookup_append, hg]), c.saneN.2⟩
  have hP1 : treeOf ⟨pre, new.nestedFiles⟩ newArts [f] = none := by
    rw [treeOf_one_root R _ newArts hsaneP f hRf]; simp [hpre]
  have hwrite : ∃ fs', run newArts fs1 [Op.writeFile [f] i] = .ok fs' ∧
      ∀ q, Fs.get fs' q =
        ov (treeOf ⟨pre ++ [(f, (i, h))], new.nestedFiles⟩ newArts) (treeOf old oldArts) q := by
    refine write_step newArts fs1 [f] i a ha (by simp) _ _ h1 ?_ ?_ ?_
    · exact ov_some _ _ _ _ (treeOf_nil _ _)
    · rw [ov_none _ _ _ hP1]; exact treeOf_one_ne_dir R old oldArts c.saneO f hRf
    · intro q
      by_cases hq : q = [f]
      · subst hq
        simp only [if_true]
        exact ov_some _ _ _ _ (by rw [hD]; simp)
      · simp only [hq, if_false]
        exact ov_congr _ _ _ _ q (by rw [hD]; simp [hq]) (fun _ => rfl)
  simp only [writeIfChanged, List.nil_append, Option.bind_some]
  cases hold : AList.lookup old.rootFiles f with
  | none => simpa using hwrite
  | some w =>
    obtain ⟨j, oh⟩ := w
    by_cases hne : oh = h
    · subst hne
      simp only [bne_self_eq_false, Bool.false_eq_true, if_false]
      refine ⟨fs1, rfl, fun q => ?_⟩
      rw [h1 q]
      by_cases hq : q = [f]
      · subst hq
        have hof : old.file [f] = some (j, oh) := by simpa using hold
        have hTO : treeOf old oldArts [f] = some (.file (content oldArts j)) := by
          rw [treeOf_one_root R old oldArts c.saneO f hRf, hold]
        rw [ov_none _ _ _ hP1, hTO, c.faithful _ _ _ _ hof hnf]
        exact (ov_some _ _ _ _ (by rw [hD]; simp)).symm
      · exact ov_congr _ _ _ _ q (by rw [hD]; simp [hq]) (fun _ => rfl)
    · have : (oh != h) = true := by simpa using hne
      simpa [this] using hwrite

/-! ### loops 3 and 4: the old state's entries -/

/-- the new tree hides nothing below a path it does not have -/
theorem ov_new_none (A B : Path α → Option Entry) (q : Path α) (hA : A q = none) (hB : B q = none) :
    ov A B q = none := by rw [ov_none _ _ _ hA, hB]

theorem ofiles_phase (_c : DiffCtx R old new oldArts newArts)
    (r0 : Files α) (n : Nested α) (e s : α) (sm : AList α (Files α)) (newFm : Files α)
    (hnewFm : oldFilesFor new e s = some newFm) :
    ∀ (fm : Files α) (_hfm : NodupKeys fm) (fs : Fs α),
    (∀ q, Fs.get fs q = ov (treeOf new newArts) (treeOf ⟨r0, (e, (s, fm) :: sm) :: n⟩ oldArts) q) →
    ∃ fs', run newArts fs (fm.flatMap (delFileIfGone (some newFm) [e, s])) = .ok fs' ∧
      ∀ q, Fs.get fs' q = ov (treeOf new newArts) (treeOf ⟨r0, (e, (s, []) :: sm) :: n⟩ oldArts) q := by
  intro fm
  induction fm with
  | nil => intro _ fs h; exact ⟨fs, rfl, h⟩
  | cons x fm ih =>
    intro hfm fs h1
    obtain ⟨f, v⟩ := x
    obtain ⟨hfresh, hfm'⟩ := hfm
    have hstep : ∃ fs2, run newArts fs (delFileIfGone (some newFm) [e, s] (f, v)) = .ok fs2 ∧
        ∀ q, Fs.get fs2 q =
          ov (treeOf new newArts) (treeOf ⟨r0, (e, (s, fm) :: sm) :: n⟩ oldArts) q := by
      simp only [delFileIfGone, Option.bind_some, List.cons_append, List.nil_append]
      have hnf : new.file [e, s, f] = AList.lookup newFm f := by simp [hnewFm]
      cases hl : AList.lookup newFm f with
      | none =>
        simp only [Option.isNone_none, if_true]
        have hN : treeOf new newArts [e, s, f] = none := by
          rw [treeOf_three_cases, hnf, hl]
        have hO : treeOf ⟨r0, (e, (s, (f, v) :: fm) :: sm) :: n⟩ oldArts [e, s, f]
            = some (.file (content oldArts v.1)) := by
          rw [treeOf_three_cases]
          simp [oldFilesFor_cons, lookup_cons]
        have hO' : treeOf ⟨r0, (e, (s, fm) :: sm) :: n⟩ oldArts [e, s, f] = none := by
          rw [treeOf_three_cases]
          simp [oldFilesFor_cons, lookup_cons, hfresh]
        refine rmfile_step newArts fs [e, s, f] (content oldArts v.1) _ _ h1 ?_ ?_
        · rw [ov_none _ _ _ hN]; exact hO
        · intro q
          by_cases hq : q = [e, s, f]
          · subst hq; simp only [if_true]; exact ov_new_none _ _ _ hN hO'
          · simp only [hq, if_false]
            exact ov_congr _ _ _ _ q rfl (fun _ => (treeE oldArts r0 n e s f sm fm v q hq).symm)
      | some w =>
        simp only [Option.isNone_some, Bool.false_eq_true, if_false]
        refine ⟨fs, rfl, fun q => ?_⟩
        rw [h1 q]
        by_cases hq : q = [e, s, f]
        · subst hq
          have hN : ∃ y, treeOf new newArts [e, s, f] = some y := by
            rw [treeOf_three_cases, hnf, hl]; exact ⟨_, rfl⟩
          obtain ⟨y, hy⟩ := hN
          rw [ov_some _ _ _ _ hy, ov_some _ _ _ _ hy]
        · exact ov_congr _ _ _ _ q rfl (fun _ => treeE oldArts r0 n e s f sm fm v q hq)
    obtain ⟨fs2, hr2, h2⟩ := hstep
    obtain ⟨fs3, hr3, h3⟩ := ih hfm' fs2 h2
    exact ⟨fs3, by simp only [List.flatMap_cons]; exact run_append_ok _ _ _ _ _ _ hr2 hr3, h3⟩

theorem osel_phase (c : DiffCtx R old new oldArts newArts)
    (r0 : Files α) (n : Nested α) (e : α) (newSm : AList α (Files α))
    (hnewSm : AList.lookup new.nestedFiles e = some newSm) (hRe : R e = false) :
    ∀ (sm : AList α (Files α)) (_hsm : NodupKeys sm)
      (_hfil : ∀ s fm, AList.lookup sm s = some fm → NodupKeys fm) (fs : Fs α),
    (∀ q, Fs.get fs q = ov (treeOf new newArts) (treeOf ⟨r0, (e, sm) :: n⟩ oldArts) q) →
    ∃ fs', run newArts fs (sm.flatMap fun (s, fm) => oldSelOps newSm e s fm) = .ok fs' ∧
      ∀ q, Fs.get fs' q = ov (treeOf new newArts) (treeOf ⟨r0, (e, []) :: n⟩ oldArts) q := by
  -- `e` is a directory of the new tree
  have hNe : treeOf new newArts [e] = some .dir := by
    rw [treeOf_one_entity R new newArts c.saneN e hRe, hnewSm]
    have := (c.wfN.sel e newSm hnewSm).2
    cases newSm with
    | nil => exact absurd rfl this
    | cons y ys => simp
  intro sm
  induction sm with
  | nil => intro _ _ fs h; exact ⟨fs, rfl, h⟩
  | cons x sm ih =>
    intro hsm hfil fs h1
    obtain ⟨s, fm⟩ := x
    obtain ⟨hfresh, hsm'⟩ := hsm
    have hfm : NodupKeys fm := hfil s fm (by simp [lookup_cons])
    have hfil' : ∀ s' fm', AList.lookup sm s' = some fm' → NodupKeys fm' := by
      intro s' fm' hl
      refine hfil s' fm' ?_
      rw [lookup_cons]
      by_cases hs : s = s'
      · subst hs; rw [hfresh] at hl; simp at hl
      · simp [hs, hl]
    have hofn : oldFilesFor new e s = AList.lookup newSm s := by simp [oldFilesFor, hnewSm]
    have hstep : ∃ fs2, run newArts fs (oldSelOps newSm e s fm) = .ok fs2 ∧
        ∀ q, Fs.get fs2 q = ov (treeOf new newArts) (treeOf ⟨r0, (e, sm) :: n⟩ oldArts) q := by
      unfold oldSelOps
      cases hl : AList.lookup newSm s with
      | none =>
        simp only
        have hofn' : oldFilesFor new e s = none := by rw [hofn, hl]
        have hN : ∀ q, isPrefixOf [e, s] q = true → treeOf new newArts q = none :=
          fun q hq => treeOf_under_absent_sel newArts new e s hofn' q hq
        have hO' : ∀ q, isPrefixOf [e, s] q = true → treeOf ⟨r0, (e, sm) :: n⟩ oldArts q = none :=
          fun q hq => treeOf_under_absent_sel oldArts _ e s (by simp [oldFilesFor_cons, hfresh]) q hq
        refine rmdir_step newArts fs [e, s] _ _ h1 ?_ ?_
        · rw [ov_none _ _ _ (hN [e, s] (isPrefixOf_refl _)), treeOf_two_cases]
          simp [oldFilesFor_cons, lookup_cons]
        · intro q
          cases hq : isPrefixOf [e, s] q with
          | true => simp only [if_true]; exact ov_new_none _ _ _ (hN q hq) (hO' q hq)
          | false =>
            simp only [Bool.false_eq_true, if_false]
            by_cases h1' : q = [e]
            · subst h1'; rw [ov_some _ _ _ _ hNe, ov_some _ _ _ _ hNe]
            · exact ov_congr _ _ _ _ q rfl (fun _ => (treeJ oldArts r0 n e s sm fm q hq h1').symm)
      | some newFm =>
        simp only
        obtain ⟨fs2, hr2, h2⟩ := ofiles_phase c r0 n e s sm newFm (by rw [hofn, hl]) fm hfm fs h1
        refine ⟨fs2, hr2, fun q => ?_⟩
        rw [h2 q]
        have hNs : treeOf new newArts [e, s] = some .dir := by
          rw [treeOf_two_cases, hofn, hl]; simp
        by_cases h1' : q = [e]
        · subst h1'; rw [ov_some _ _ _ _ hNe, ov_some _ _ _ _ hNe]
        · by_cases h2' : q = [e, s]
          · subst h2'; rw [ov_some _ _ _ _ hNs, ov_some _ _ _ _ hNs]
          · exact ov_congr _ _ _ _ q rfl (fun _ => treeF oldArts r0 n e s sm hfresh q h1' h2')
    obtain ⟨fs2, hr2, h2⟩ := hstep
    obtain ⟨fs3, hr3, h3⟩ := ih hsm' hfil' fs2 h2
    exact ⟨fs3, by simp only [List.flatMap_cons]; exact run_append_ok _ _ _ _ _ _ hr2 hr3, h3⟩

theorem onested_phase (c : DiffCtx R old new oldArts newArts) (r0 : Files α)
    (hr0 : ∀ f v, AList.lookup r0 f = some v → R f = true) :
    ∀ (n : Nested α) (_hn : NodupKeys n)
      (_hsel : ∀ e sm, AList.lookup n e = some sm → NodupKeys sm ∧ sm ≠ [] ∧ R e = false ∧
        ∀ s fm, AList.lookup sm s = some fm → NodupKeys fm) (fs : Fs α),
    (∀ q, Fs.get fs q = ov (treeOf new newArts) (treeOf ⟨r0, n⟩ oldArts) q) →
    ∃ fs', run newArts fs (oldNestedOps new n) = .ok fs' ∧
      ∀ q, Fs.get fs' q = ov (treeOf new newArts) (treeOf ⟨r0, []⟩ oldArts) q := by
  intro n
  induction n with
  | nil => intro _ _ fs h; exact ⟨fs, rfl, h⟩
  | cons x n ih =>
    intro hn hsel fs h1
    obtain ⟨e, sm⟩ := x
    obtain ⟨hfresh, hn'⟩ := hn
    obtain ⟨hsm, hsmne, hRe, hfil⟩ := hsel e sm (by simp [lookup_cons])
    have hsel' : ∀ e' sm', AList.lookup n e' = some sm' → NodupKeys sm' ∧ sm' ≠ [] ∧ R e' = false ∧
        ∀ s fm, AList.lookup sm' s = some fm → NodupKeys fm := by
      intro e' sm' hl
      refine hsel e' sm' ?_
      rw [lookup_cons]
      by_cases he : e = e'
      · subst he; rw [hfresh] at hl; simp at hl
      · simp [he, hl]
    have hr0e : AList.lookup r0 e = none := by
      cases hl : AList.lookup r0 e with
      | none => rfl
      | some v => have := hr0 e v hl; rw [hRe] at this; cases this
    have hstep : ∃ fs2, run newArts fs (oldEntOps new e sm) = .ok fs2 ∧
        ∀ q, Fs.get fs2 q = ov (treeOf new newArts) (treeOf ⟨r0, n⟩ oldArts) q := by
      unfold oldEntOps
      cases hl : AList.lookup new.nestedFiles e with
      | none =>
        simp only
        have hnr : AList.lookup new.rootFiles e = none := by
          cases hl' : AList.lookup new.rootFiles e with
          | none => rfl
          | some v => have := c.saneN.1 e v hl'; rw [hRe] at this; cases this
        have hN : ∀ q, isPrefixOf [e] q = true → treeOf new newArts q = none :=
          fun q hq => treeOf_under_absent_entity newArts new e hl hnr q hq
        have hO' : ∀ q, isPrefixOf [e] q = true → treeOf ⟨r0, n⟩ oldArts q = none :=
          fun q hq => treeOf_under_absent_entity oldArts _ e hfresh hr0e q hq
        refine rmdir_step newArts fs [e] _ _ h1 ?_ ?_
        · rw [ov_none _ _ _ (hN [e] (isPrefixOf_refl _))]
          have hsaneP : State.Sane R ⟨r0, (e, sm) :: n⟩ :=
            ⟨hr0, fun e' sm' hl' => by
              rw [lookup_cons] at hl'
              by_cases he : e = e'
              · subst he; exact hRe
              · simp only [he, if_false] at hl'; exact (hsel' e' sm' hl').2.2.1⟩
          rw [treeOf_one_entity R _ oldArts hsaneP e hRe]
          cases sm with
          | nil => exact absurd rfl hsmne
          | cons y ys => simp [lookup_cons]
        · intro q
          cases hq : isPrefixOf [e] q with
          | true => simp only [if_true]; exact ov_new_none _ _ _ (hN q hq) (hO' q hq)
          | false =>
            simp only [Bool.false_eq_true, if_false]
            exact ov_congr _ _ _ _ q rfl (fun _ => (treeI oldArts r0 n e sm q hq).symm)
      | some newSm =>
        simp only
        obtain ⟨fs2, hr2, h2⟩ := osel_phase c r0 n e newSm hl hRe sm hsm hfil fs h1
        refine ⟨fs2, hr2, fun q => ?_⟩
        rw [h2 q]
        exact ov_congr _ _ _ _ q rfl (fun _ => treeG oldArts r0 n e hfresh q)
    obtain ⟨fs2, hr2, h2⟩ := hstep
    obtain ⟨fs3, hr3, h3⟩ := ih hn' hsel' fs2 h2
    exact ⟨fs3, by unfold oldNestedOps; simp only [List.flatMap_cons]; exact run_append_ok _ _ _ _ _ _ hr2 hr3, h3⟩

theorem oroot_phase (c : DiffCtx R old new oldArts newArts) :
    ∀ (r0 : Files α) (_hr0 : NodupKeys r0) (_hs : ∀ f v, AList.lookup r0 f = some v → R f = true)
      (fs : Fs α),
    (∀ q, Fs.get fs q = ov (treeOf new newArts) (treeOf ⟨r0, []⟩ oldArts) q) →
    ∃ fs', run newArts fs (oldRootOps new r0) = .ok fs' ∧
      ∀ q, Fs.get fs' q = treeOf new newArts q := by
  intro r0
  induction r0 with
  | nil =>
    intro _ _ fs h
    refine ⟨fs, rfl, fun q => ?_⟩
    rw [h q]
    have : treeOf (⟨[], []⟩ : State α) oldArts q = if q = [] then some .dir else none :=
      treeOf_empty oldArts q
    unfold ov
    rw [this]
    by_cases hq : q = []
    · subst hq; simp [treeOf_nil]
    · cases treeOf new newArts q <;> simp [hq]
  | cons x r0 ih =>
    intro hr0 hs fs h1
    obtain ⟨f, v⟩ := x
    obtain ⟨hfresh, hr0'⟩ := hr0
    have hRf : R f = true := hs f v (by simp [lookup_cons])
    have hs' : ∀ g w, AList.lookup r0 g = some w → R g = true := by
      intro g w hl
      refine hs g w ?_
      rw [lookup_cons]
      by_cases hf : f = g
      · subst hf; rw [hfresh] at hl; simp at hl
      · simp [hf, hl]
    have hsaneP : State.Sane R ⟨r0, ([] : Nested α)⟩ := ⟨hs', fun e sm hl => by simp at hl⟩
    have hstep : ∃ fs2, run newArts fs (delFileIfGone (some new.rootFiles) [] (f, v)) = .ok fs2 ∧
        ∀ q, Fs.get fs2 q = ov (treeOf new newArts) (treeOf ⟨r0, []⟩ oldArts) q := by
      simp only [delFileIfGone, Option.bind_some, List.nil_append]
      cases hl : AList.lookup new.rootFiles f with
      | none =>
        simp only [Option.isNone_none, if_true]
        have hN : treeOf new newArts [f] = none := by
          rw [treeOf_one_root R new newArts c.saneN f hRf, hl]
        have hO : treeOf ⟨(f, v) :: r0, []⟩ oldArts [f] = some (.file (content oldArts v.1)) := by
          simp [treeOf, lookup_cons]
        have hO' : treeOf ⟨r0, []⟩ oldArts [f] = none := by
          rw [treeOf_one_root R _ oldArts hsaneP f hRf]; simp [hfresh]
        refine rmfile_step newArts fs [f] (content oldArts v.1) _ _ h1 ?_ ?_
        · rw [ov_none _ _ _ hN]; exact hO
        · intro q
          by_cases hq : q = [f]
          · subst hq; simp only [if_true]; exact ov_new_none _ _ _ hN hO'
          · simp only [hq, if_false]
            exact ov_congr _ _ _ _ q rfl (fun _ => (treeH oldArts r0 [] f v q hq).symm)
      | some w =>
        simp only [Option.isNone_some, Bool.false_eq_true, if_false]
        refine ⟨fs, rfl, fun q => ?_⟩
        rw [h1 q]
        by_cases hq : q = [f]
        · subst hq
          have hN : ∃ y, treeOf new newArts [f] = some y := by
            rw [treeOf_one_root R new newArts c.saneN f hRf, hl]; exact ⟨_, rfl⟩
          obtain ⟨y, hy⟩ := hN
          rw [ov_some _ _ _ _ hy, ov_some _ _ _ _ hy]
        · exact ov_congr _ _ _ _ q rfl (fun _ => treeH oldArts r0 [] f v q hq)
    obtain ⟨fs2, hr2, h2⟩ := hstep
    obtain ⟨fs3, hr3, h3⟩ := ih hr0' hs' fs2 h2
    exact ⟨fs3, by unfold oldRootOps; simp only [List.flatMap_cons]; exact run_append_ok _ _ _ _ _ _ hr2 hr3, h3⟩

/-! ### the whole diff -/

/-- **`diff` is correct.**  If the directory holds the tree of `old`, the operations of
`diff old new` all succeed and leave exactly the tree of `new`. -/
theorem diff_correct (c : DiffCtx R old new oldArts newArts) (fs : Fs α)
    (hinv : ∀ q, Fs.get fs q = treeOf old oldArts q) :
    ∃ fs', run newArts fs (diff old new) = .ok fs' ∧ ∀ q, Fs.get fs' q = treeOf new newArts q := by
  obtain ⟨fs1, hr1, h1⟩ := nested_phase c fs hinv
  obtain ⟨fs2, hr2, h2⟩ := root_phase c fs1 h1
  obtain ⟨fs3, hr3, h3⟩ := onested_phase c old.rootFiles c.saneO.1 old.nestedFiles c.wfO.ent
    (fun e sm hl => ⟨(c.wfO.sel e sm hl).1, (c.wfO.sel e sm hl).2, c.saneO.2 e sm hl,
      fun s fm hs => c.wfO.fil e sm s fm hl hs⟩) fs2 h2
  obtain ⟨fs4, hr4, h4⟩ := oroot_phase c old.rootFiles c.wfO.root c.saneO.1 fs3 h3
  refine ⟨fs4, ?_, h4⟩
  unfold diff
  exact run_append_ok _ _ _ _ _ _ (run_append_ok _ _ _ _ _ _ (run_append_ok _ _ _ _ _ _ hr1 hr2) hr3) hr4

end IsoVerif.Fs
