/-
C01, stage 2b/3: the induction step — `upToDate (f+1)` meets its specification if `upToDate f` does.
-/
import IsoVerif.Lemmas.PicoInc5

namespace IsoVerif.Pico

theorem specU_zero (P : Prog) (rank : Nat → Nat) : SpecU P rank 0 := by
  intro s B id v R _ _ hf _; exact absurd hf (Nat.not_lt_zero _)

theorem specU_succ {P : Prog} {rank : Nat → Nat} {f : Nat} (hacy : Acyclic P rank) (hU : SpecU P rank f) :
    SpecU P rank (f + 1) := by
  intro s B id v R hinv hB hf hbig
  have hF := specF_of_U hU
  have hidB : id ∉ B := fun h => Nat.lt_irrefl _ (hB id h)
  have hfle : rank id.fn ≤ f := Nat.le_of_lt_succ hf
  have hstkB : ∀ fr, fr ∈ s.stack → fr.id ∈ id :: B := fun fr h => List.mem_cons_of_mem _ (hinv.stackB fr h)
  simp only [upToDate]
  cases hl : alookup s.derived id with
  | none =>
    simp only
    -- the node is new: mark it busy, run the body, install
    have hinvB : INV P s (id :: B) := by
      refine ⟨hinv.epochPos, hstkB, hinv.srcTu, hinv.mapsInit, ?_, ?_⟩
      · intro n r hn hnB; exact hinv.nodes n r hn (fun h => hnB (List.mem_cons_of_mem _ h))
      · intro n r hn hnB
        rcases List.mem_cons.1 hnB with e | e
        · rw [e, hl] at hn; cases hn
        · exact hinv.busyTv n r hn e
    obtain ⟨s3, fr3, hinvk, r3⟩ := invoke_inc hacy hF s id v R hinvB hinv.stackB hidB hfle hB hbig
    simp only [hinvk]
    have hev3 : Evolves (fun q => rank q.fn < rank id.fn ∨ q = id) s s3 :=
      (Evolves.refl _ s).trans' (r3.evolves.mono (fun q h => Or.inl h)) rfl rfl rfl rfl [id] rfl
        (fun m hm => by rw [List.mem_singleton.1 hm]; exact ⟨Or.inr rfl, Or.inl hl⟩)
    have hE : s3.epoch = s.epoch := hev3.epoch
    have hbig3 : BigN P s3.srcs s3.maps id v R := by rw [hev3.srcs, hev3.maps]; exact hbig
    have hmax : fr3.maxTu ≤ s3.epoch := by
      have := r3.maxHi; have := hinv.epochPos
      simp only at *; omega
    have hstamps : ∀ d, d ∈ fr3.rdeps → d.stamp = s3.epoch := by
      intro d hd; rw [hE]; exact r3.stamps (fun d' hd' => by cases hd') d hd
    obtain ⟨hinvF, hevF⟩ := install hacy s s3
      { s3 with stack := s.stack, events := (true, id) :: s3.events,
                derived := ainsert s3.derived id (Rev.mk v fr3.maxTu s3.epoch fr3.rdeps.reverse) }
      id v R fr3 fr3.maxTu hinv hidB hev3 r3.inv hbig3 r3.reads
      (fun d hd => by
        rcases r3.exact d hd with ⟨d0, hd0, _⟩ | h
        · cases hd0
        · exact h)
      hstamps hmax (by have := r3.order; simpa using this) hmax (fun rev hrev => by rw [hl] at hrev; cases hrev) rfl rfl rfl rfl rfl hinv.stackB
    refine ⟨_, true, fr3.maxTu, Rev.mk v fr3.maxTu s3.epoch fr3.rdeps.reverse, rfl, hinvF, hevF, rfl,
      alookup_ainsert_self _ _ _, rfl, hE, Nat.le_refl _, by rw [← hE]; exact hmax, ?_⟩
    intro r hr; cases hr
  | some rev =>
    simp only
    have hok := hinv.nodes id rev hl hidB
    by_cases htv : rev.tv = s.epoch
    · rw [if_pos htv]
      obtain ⟨R', hR'⟩ := hok.correct htv
      have hv : rev.val = v := (BigE.det hR' hbig).1
      refine ⟨s, false, rev.tu, rev, rfl, hinv, Evolves.refl _ s, rfl, hl, hv, htv, Nat.le_refl _,
        Nat.le_trans hok.tu_tv hok.tv_le, ?_⟩
      intro r hr; cases hr
      exact ⟨fun h => (by cases h), fun _ => ⟨hv, rfl⟩⟩
    · rw [if_neg htv]
      have hlt : rev.tv < s.epoch := Nat.lt_of_le_of_ne hok.tv_le htv
      have hsetTv : setTv s id s.epoch = { s with derived := ainsert s.derived id (Rev.mk rev.val rev.tu s.epoch rev.deps) } := by
        simp [setTv, hl]
      rw [hsetTv]
      obtain ⟨σx, mx, Ro, hbo, hdfo, hxo, hoo⟩ := hok.ghost
      -- the storage with the node marked as being verified
      have hl1 : alookup (ainsert s.derived id (Rev.mk rev.val rev.tu s.epoch rev.deps)) id =
          some (Rev.mk rev.val rev.tu s.epoch rev.deps) := alookup_ainsert_self _ _ _
      have hlk1 : ∀ q, q ≠ id → alookup (ainsert s.derived id (Rev.mk rev.val rev.tu s.epoch rev.deps)) q = alookup s.derived q :=
        fun q hq => alookup_ainsert_ne _ _ _ _ (Ne.symm hq)
      have hev1 : Evolves (fun q => rank q.fn < rank id.fn ∨ q = id) s
          { s with derived := ainsert s.derived id (Rev.mk rev.val rev.tu s.epoch rev.deps) } := by
        refine ⟨rfl, rfl, rfl, ?_, ?_, ⟨[], rfl, fun _ h => by cases h⟩⟩
        · intro q r hq
          by_cases hqi : q = id
          · subst hqi; rw [hl] at hq; cases hq
            exact ⟨_, hl1, Or.inr ⟨Or.inr rfl, hlt, rfl, Or.inl ⟨rfl, rfl⟩⟩⟩
          · exact ⟨r, by simp only; rw [hlk1 q hqi]; exact hq, Or.inl rfl⟩
        · intro q hq hq'
          by_cases hqi : q = id
          · exact Or.inr hqi
          · simp only at hq'; rw [hlk1 q hqi, hq] at hq'; simp at hq'
      have hinv1 : INV P { s with derived := ainsert s.derived id (Rev.mk rev.val rev.tu s.epoch rev.deps) } (id :: B) := by
        refine ⟨hinv.epochPos, hstkB, hinv.srcTu, hinv.mapsInit, ?_, ?_⟩
        · intro n r hn hnB
          have hni : n ≠ id := fun e => hnB (e ▸ List.mem_cons_self)
          simp only at hn; rw [hlk1 n hni] at hn
          exact (hinv.nodes n r hn (fun h => hnB (List.mem_cons_of_mem _ h))).evolves hev1
        · intro n r hn hnB
          by_cases hni : n = id
          · subst hni; simp only at hn; rw [hl1] at hn; cases hn; rfl
          · simp only at hn; rw [hlk1 n hni] at hn
            rcases List.mem_cons.1 hnB with e | e
            · exact absurd e hni
            · exact hinv.busyTv n r hn e
      -- what the recorded dependencies are
      have hdepq : ∀ d, d ∈ rev.deps → ∀ q, d.node = .derived q →
          ∃ w, Read.node q w ∈ Ro ∧ rank q.fn < rank id.fn := by
        intro d hd q hq
        obtain ⟨w, hw⟩ := derived_dep_read (hxo d hd) hq
        exact ⟨w, hw, hacy id.fn q.fn (BigE.node_reads hbo q w hw)⟩
      have hrk : ∀ d, d ∈ rev.deps → ∀ q, d.node = .derived q →
          rank q.fn < rank id.fn ∧ rank q.fn < f ∧ (∀ b, b ∈ id :: B → rank q.fn < rank b.fn) ∧ q ∉ id :: B := by
        intro d hd q hq
        obtain ⟨w, _, hlt'⟩ := hdepq d hd q hq
        have hall : ∀ b, b ∈ id :: B → rank q.fn < rank b.fn := by
          intro b hb
          rcases List.mem_cons.1 hb with e | e
          · rw [e]; exact hlt'
          · exact Nat.lt_trans hlt' (hB b e)
        exact ⟨hlt', Nat.lt_of_lt_of_le hlt' hfle, hall, fun hm => Nat.lt_irrefl _ (hall q hm)⟩
      have hedge : ∀ d, d ∈ rev.deps → ∀ q, d.node = .derived q → q ≠ id ∧
          ∃ rq, alookup s.derived q = some rq ∧ (rq.deps ≠ [] → rev.tv ≤ rq.tv) := by
        intro d hd q hq
        obtain ⟨w, hw, hlt'⟩ := hdepq d hd q hq
        have h0 := hdfo _ hw
        simp only [DepFor] at h0
        obtain ⟨_, rq, hrq, hm, _⟩ := h0
        exact ⟨fun e => by rw [e] at hlt'; exact Nat.lt_irrefl _ hlt', rq, hrq, hm⟩
      obtain ⟨s2, b, he2, hinv2, hev2, hstk2, hf2, ht2⟩ := anyDep_inc hU (rank id.fn) rev.deps []
        { s with derived := ainsert s.derived id (Rev.mk rev.val rev.tu s.epoch rev.deps) } hinv1
        (fun d' hd' => by cases hd')
        (fun D1 d D2 hdec q hq s' hev' hall => by
          have hevs : Evolves (fun q => rank q.fn < rank id.fn ∨ q = id) s s' :=
            hev1.trans (hev'.mono (fun q h => Or.inl h))
          have hmi' : MapsInit s' := by
            intro i hi; rw [hevs.srcs] at hi; rw [hevs.maps]; exact hinv.mapsInit i hi
          exact dep_reached hbo (by rw [hevs.srcs, hevs.maps]; exact hbig) hoo
            (fun rd hrd => (hdfo rd hrd).evolves hevs hok.tv_le) hok.stamps hmi' D1 d D2 hdec
            (fun d' hd' => hall d' (by simpa using hd')) q hq)
        (fun d hd => Nat.lt_of_le_of_lt (hok.stamps d hd) hlt) hrk
        (fun d hd q hq => by
          obtain ⟨hqi, rq, hrq, _⟩ := hedge d hd q hq
          simp only; rw [hlk1 q hqi, hrq]; rfl)
        (fun d hd q hq rq1 hrq1 hne1 => by
          obtain ⟨hqi, rq, hrq, hm⟩ := hedge d hd q hq
          simp only at hrq1; rw [hlk1 q hqi, hrq] at hrq1; cases hrq1
          exact Nat.le_trans (hok.stamps d hd) (hm hne1))
      simp only [he2]
      have hev12 : Evolves (fun q => rank q.fn < rank id.fn ∨ q = id) s s2 :=
        hev1.trans (hev2.mono (fun q h => Or.inl h))
      have hE2 : s2.epoch = s.epoch := hev12.epoch
      have hstack2 : s2.stack = s.stack := hstk2
      -- the entry of `id` is frozen while it is busy
      have hl2 : alookup s2.derived id = some (Rev.mk rev.val rev.tu s.epoch rev.deps) := by
        obtain ⟨r', hq', hc⟩ := hev2.node id _ hl1
        rcases hc with rfl | ⟨_, hlt', _⟩
        · exact hq'
        · simp only at hlt'; exact absurd hlt' (Nat.lt_irrefl _)
      have hdf2 : ∀ rd, rd ∈ Ro → DepFor s2 rev rd := fun rd hrd => (hdfo rd hrd).evolves hev12 hok.tv_le
      cases b with
      | false =>
        simp only
        -- every dependency is unchanged: the stored value stands
        have hun := hf2 rfl
        obtain ⟨hcorr, hdfN⟩ := verified_ok hbo hdf2 hun hok.stamps hinv2.mapsInit
        have hv : rev.val = v := (BigE.det hcorr (by rw [hev12.srcs, hev12.maps]; exact hbig)).1
        have hrevN : RevOk P s2 id (Rev.mk rev.val rev.tu s.epoch rev.deps) := by
          refine ⟨by rw [hE2]; exact Nat.le_refl _, Nat.le_trans hok.tu_tv hok.tv_le,
            fun d hd => Nat.le_trans (hok.stamps d hd) hok.tv_le, hok.tu_stamp, fun _ => ⟨Ro, hcorr⟩,
            fun _ d hd => (hun d hd).toQuiet, σx, mx, Ro, hbo, ?_, hxo, hoo⟩
          intro rd hrd; have := hdfN rd hrd; rw [hE2] at this; exact this
        refine ⟨s2, false, rev.tu, _, rfl, ?_, hev12.mono (fun q h => by
            rcases h with h | h
            · exact Nat.le_of_lt h
            · rw [h]; exact Nat.le_refl _), hstack2, hl2, hv, rfl, Nat.le_refl _,
          Nat.le_trans hok.tu_tv hok.tv_le, ?_⟩
        · exact unbusy hinv2 (fun fr hfr => hinv.stackB fr (by rw [← hstack2]; exact hfr))
            (fun r hr => by rw [hl2] at hr; cases hr; exact hrevN)
        · intro r hr; cases hr
          exact ⟨fun h => (by cases h), fun _ => ⟨hv, rfl⟩⟩
      | true =>
        simp only
        -- some dependency changed: run the body again
        have hch := ht2 rfl
        have hbig2 : BigN P s2.srcs s2.maps id v R := by rw [hev12.srcs, hev12.maps]; exact hbig
        obtain ⟨s3, fr3, hinvk, r3⟩ := invoke_inc hacy hF s2 id v R hinv2
          (fun fr hfr => hinv.stackB fr (by rw [← hstack2]; exact hfr)) hidB hfle hB hbig2
        simp only [hinvk]
        have hev23 : Evolves (fun q => rank q.fn < rank id.fn ∨ q = id)
            { s2 with stack := ⟨id, [], 1⟩ :: s2.stack, runs := bump s2.runs id.fn, log := id :: s2.log, events := (false, id) :: s2.events } s3 :=
          r3.evolves.mono (fun q h => Or.inl h)
        have hev3 : Evolves (fun q => rank q.fn < rank id.fn ∨ q = id) s s3 :=
          hev12.trans' hev23 rfl rfl rfl rfl [id] rfl (fun m hm => by
            rw [List.mem_singleton.1 hm]
            obtain ⟨d, hd, hc⟩ := hch
            exact ⟨Or.inr rfl, Or.inr ⟨rev, d, s2, hl, hlt, hd, hev12.moves, hc⟩⟩)
        have hE : s3.epoch = s.epoch := hev3.epoch
        have hbig3 : BigN P s3.srcs s3.maps id v R := by rw [hev3.srcs, hev3.maps]; exact hbig
        have hl3 : alookup s3.derived id = some (Rev.mk rev.val rev.tu s.epoch rev.deps) := by
          obtain ⟨r', hq', hc⟩ := hev23.node id _ hl2
          rcases hc with rfl | ⟨_, hlt', _⟩
          · exact hq'
          · rw [hE2] at hlt'; simp only at hlt'; exact absurd hlt' (Nat.lt_irrefl _)
        simp only [hl3]
        have hmax : fr3.maxTu ≤ s3.epoch := by
          have := r3.maxHi; have := hinv.epochPos
          simp only at *; omega
        have hstamps : ∀ d, d ∈ fr3.rdeps → d.stamp = s3.epoch := by
          intro d hd; rw [hE, ← hE2]; exact r3.stamps (fun d' hd' => by cases hd') d hd
        have hexact : ∀ d, d ∈ fr3.rdeps → ∃ rd, rd ∈ R ∧ rd.kind = d.node := by
          intro d hd
          rcases r3.exact d hd with ⟨d0, hd0, _⟩ | h
          · cases hd0
          · exact h
        have hdf3 : ∀ rd, rd ∈ Ro → DepFor s3 rev rd := fun rd hrd => (hdfo rd hrd).evolves hev3 hok.tv_le
        have hlt3 : rev.tv < s3.epoch := by rw [hE]; exact hlt
        have hdne : rev.deps ≠ [] := by
          obtain ⟨d, hd, _⟩ := hch
          intro e; rw [e] at hd; cases hd
        -- the dependency that was found changed is still changed after the body ran
        have hch3 : ∃ d, d ∈ rev.deps ∧ Changed s3 d := by
          obtain ⟨d, hd, hc⟩ := hch
          refine ⟨d, hd, hc.evolves hev23 ?_ ?_⟩
          · intro q hq rq hrq hne
            obtain ⟨w, hw, _⟩ := hdepq d hd q hq
            have h0 := hdf2 _ hw
            simp only [DepFor] at h0
            obtain ⟨_, rq', hrq', hm, _⟩ := h0
            rw [hrq] at hrq'; cases hrq'
            exact Nat.le_trans (hok.stamps d hd) (hm hne)
          · intro q hq
            obtain ⟨w, hw, _⟩ := hdepq d hd q hq
            have h0 := hdf2 _ hw
            simp only [DepFor] at h0
            obtain ⟨_, rq', hrq', _, _⟩ := h0
            simp [hrq']
        by_cases hval : rev.val ≠ v
        · rw [if_pos hval]
          have hC : rev.tv < fr3.maxTu :=
            bound_of_diverge hbo hbig3 hdf3 (fun rd hrd => (r3.reads rd hrd).1) hlt3 (fun h => hval h.1)
          obtain ⟨hinvF, hevF⟩ := install hacy s s3
            { s3 with stack := s2.stack, events := (true, id) :: s3.events,
                      derived := ainsert s3.derived id (Rev.mk v fr3.maxTu s3.epoch fr3.rdeps.reverse) }
            id v R fr3 fr3.maxTu hinv hidB hev3 r3.inv hbig3 r3.reads hexact hstamps hmax (by have := r3.order; simpa using this) hmax
            (fun r hr => by rw [hl] at hr; cases hr; exact ⟨hlt, Or.inr ⟨hdne, hC, fun e => hval e.symm⟩⟩) rfl rfl rfl rfl rfl
            (fun fr hfr => hinv.stackB fr (by rw [← hstack2]; exact hfr))
          refine ⟨_, true, fr3.maxTu, Rev.mk v fr3.maxTu s3.epoch fr3.rdeps.reverse, ?_, hinvF, hevF, hstack2,
            alookup_ainsert_self _ _ _, rfl, hE, Nat.le_refl _, by rw [← hE]; exact hmax, ?_⟩
          · simp only [hE]
          · intro r hr; cases hr
            exact ⟨fun _ => hval, fun h => (by cases h)⟩
        · rw [if_neg hval]
          have hv : rev.val = v := Decidable.of_not_not hval
          -- backdating: same value, the stored `time_updated` stays; the reported one is at least it
          have hR : rev.tu ≤ fr3.maxTu := by
            by_cases hsame : rev.val = v ∧ Ro = R
            · obtain ⟨_, hRR⟩ := hsame
              exact bound_of_changed (R := Ro) (fun rd hrd => (r3.reads rd (hRR ▸ hrd)).1) hxo hok.tu_stamp hch3
            · have := bound_of_diverge hbo hbig3 hdf3 (fun rd hrd => (r3.reads rd hrd).1) hlt3 hsame
              exact Nat.le_of_lt (Nat.lt_of_le_of_lt hok.tu_tv this)
          obtain ⟨hinvF, hevF⟩ := install hacy s s3
            { s3 with stack := s2.stack, events := (true, id) :: s3.events,
                      derived := ainsert s3.derived id (Rev.mk v rev.tu s3.epoch fr3.rdeps.reverse) }
            id v R fr3 rev.tu hinv hidB hev3 r3.inv hbig3 r3.reads hexact hstamps
            (by rw [hE]; exact Nat.le_trans hok.tu_tv hok.tv_le) (by have := r3.order; simpa using this) hmax
            (fun r hr => by rw [hl] at hr; cases hr; exact ⟨hlt, Or.inl ⟨hv.symm, rfl⟩⟩) rfl rfl rfl rfl rfl
            (fun fr hfr => hinv.stackB fr (by rw [← hstack2]; exact hfr))
          refine ⟨_, false, fr3.maxTu, Rev.mk v rev.tu s3.epoch fr3.rdeps.reverse, ?_, hinvF, hevF, hstack2,
            alookup_ainsert_self _ _ _, rfl, hE, hR, by rw [← hE]; exact hmax, ?_⟩
          · simp only [hE, hv]
          · intro r hr; cases hr
            exact ⟨fun h => (by cases h), fun _ => ⟨hv, rfl⟩⟩

theorem specU_all {P : Prog} {rank : Nat → Nat} (hacy : Acyclic P rank) : ∀ f, SpecU P rank f := by
  intro f
  induction f with
  | zero => exact specU_zero P rank
  | succ f ih => exact specU_succ hacy ih

end IsoVerif.Pico
