/-
C01, stage 2b/3: the invariant at the boundaries of the operations of a history (source
operations, collections, retain / lookups), the call, and the history theorem.
-/
import IsoVerif.Lemmas.PicoInc6
import IsoVerif.Lemmas.PicoGc

namespace IsoVerif.Pico

/-- the invariant between two operations of a history -/
structure TopInv (P : Prog) (s : Storage) : Prop where
  stack : s.stack = []
  epochPos : 1 ≤ s.epoch
  srcTu : ∀ k nd, alookup s.srcs k = some nd → nd.tu ≤ s.epoch
  mapsInit : MapsInit s
  nodes : ∀ n r, alookup s.derived n = some r → RevOk P s n r

theorem TopInv.toINV {P : Prog} {s : Storage} (h : TopInv P s) : INV P s [] :=
  ⟨h.epochPos, fun fr hfr => (by rw [h.stack] at hfr; cases hfr), h.srcTu, h.mapsInit,
   fun n r hn _ => h.nodes n r hn, fun n r _ hb => (by cases hb)⟩

theorem TopInv.ofINV {P : Prog} {s : Storage} (h : INV P s []) (hst : s.stack = []) : TopInv P s :=
  ⟨hst, h.epochPos, h.srcTu, h.mapsInit, fun n r hn => h.nodes n r hn (fun hb => (by cases hb))⟩

theorem TopInv.congr {P : Prog} {s : Storage} (h : TopInv P s) {s' : Storage} (hst : s'.stack = [])
    (he : s'.epoch = s.epoch) (hs : s'.srcs = s.srcs) (hm : s'.maps = s.maps) (hd : s'.derived = s.derived) :
    TopInv P s' :=
  ⟨hst, by rw [he]; exact h.epochPos, by intro k nd hk; rw [he]; rw [hs] at hk; exact h.srcTu k nd hk,
   by intro i hi; rw [hs] at hi; rw [hm]; exact h.mapsInit i hi,
   by intro n r hn; rw [hd] at hn; exact (h.nodes n r hn).congr he hs hm hd⟩

/-! ## source operations -/

/-- the entry of one key changes — overwritten or inserted with the stamp of the new epoch, or
removed — and the epoch advances; everything else is as before -/
theorem RevOk.touch {P : Prog} {s : Storage} {n : NodeId} {r : Rev} (h : RevOk P s n r) {s' : Storage} (k0 : Key)
    (he : s'.epoch = s.epoch + 1)
    (hk0 : alookup s'.srcs k0 = none ∨ ∃ nd, alookup s'.srcs k0 = some nd ∧ nd.tu = s.epoch + 1)
    (hsame : ∀ k, k ≠ k0 → alookup s'.srcs k = alookup s.srcs k ∧ keyObs s'.srcs s'.maps k = keyObs s.srcs s.maps k)
    (hd : s'.derived = s.derived) : RevOk P s' n r := by
  refine ⟨by rw [he]; exact Nat.le_succ_of_le h.tv_le, h.tu_tv, h.stamps, h.tu_stamp, ?_, ?_, ?_⟩
  · intro ht; have := h.tv_le; omega
  · intro ht; have := h.tv_le; omega
  · obtain ⟨σx, mx, R, hb, hdf, hx⟩ := h.ghost
    refine ⟨σx, mx, R, hb, ?_, hx⟩
    intro rd hrd
    have h0 := hdf rd hrd
    cases rd with
    | node q w => simp only [DepFor] at h0 ⊢; rw [hd]; exact h0
    | src k o =>
      simp only [DepFor] at h0 ⊢
      by_cases hk : k = k0
      · subst hk
        by_cases ho : o.1.isSome = true
        · rw [if_pos ho] at h0 ⊢
          refine ⟨h0.1, ?_⟩
          rintro ⟨nd, hnd, hle⟩
          have := h.tv_le
          rcases hk0 with hk0 | ⟨nd', hnd', htu⟩
          · rw [hk0] at hnd; cases hnd
          · rw [hnd'] at hnd; cases hnd; omega
        · rw [if_neg ho] at h0 ⊢
          refine ⟨h0.1, h0.2.1, ?_⟩
          intro nd hnd
          have := h.tv_le
          rcases hk0 with hk0 | ⟨nd', hnd', htu⟩
          · rw [hk0] at hnd; cases hnd
          · rw [hnd'] at hnd; cases hnd; omega
      · obtain ⟨e1, e2⟩ := hsame k hk
        rw [e1, e2]; exact h0

/-- `setSource` followed by an arbitrary change of the tracked field guarded by the counter `k0` -/
theorem TopInv.setSource {P : Prog} {s : Storage} (h : TopInv P s) (k0 : Key) (v : Nat) (maps' : List (List Nat))
    (hmaps : ∀ i, Key.ctr i ≠ k0 → mapLen maps' i = mapLen s.maps i)
    (hchg : alookup s.srcs k0 = none ∨ (∃ nd, alookup s.srcs k0 = some nd ∧ nd.val ≠ v) ∨ maps' = s.maps) :
    TopInv P { setSource s k0 v with maps := maps' } := by
  have hch : TopInv P { s with epoch := s.epoch + 1, srcs := ainsert s.srcs k0 ⟨v, s.epoch + 1⟩, maps := maps' } := by
    refine ⟨h.stack, Nat.le_succ_of_le h.epochPos, ?_, ?_, ?_⟩
    · intro k nd' hk
      simp only [alookup_ainsert] at hk
      by_cases hkk : k0 = k
      · simp [hkk] at hk; subst hk; exact Nat.le_refl _
      · simp [hkk] at hk; exact Nat.le_succ_of_le (h.srcTu k nd' hk)
    · intro i hi
      simp only [alookup_ainsert] at hi
      by_cases hkk : k0 = .ctr i
      · simp [hkk] at hi
      · simp [hkk] at hi
        show mapLen maps' i = 0
        rw [hmaps i (fun e => hkk e.symm)]; exact h.mapsInit i hi
    · intro n r hn
      refine (h.nodes n r hn).touch k0 rfl (Or.inr ⟨⟨v, s.epoch + 1⟩, alookup_ainsert_self _ _ _, rfl⟩) ?_ rfl
      intro k hne
      have h1 : alookup (ainsert s.srcs k0 ⟨v, s.epoch + 1⟩) k = alookup s.srcs k := alookup_ainsert_ne _ _ _ _ (Ne.symm hne)
      exact ⟨h1, keyObs_of_lookup_maps h1 (fun i hi => hmaps i (by rw [← hi]; exact hne))⟩
  unfold IsoVerif.Pico.setSource
  cases hl : alookup s.srcs k0 with
  | none => exact hch
  | some nd =>
    simp only
    by_cases hv : nd.val ≠ v
    · simp only [if_pos hv]; exact hch
    · simp only [if_neg hv]
      have hm : maps' = s.maps := by
        rcases hchg with hc | ⟨nd', hnd', hne⟩ | hc
        · rw [hl] at hc; cases hc
        · rw [hl] at hnd'; cases hnd'; exact absurd hne hv
        · exact hc
      exact h.congr h.stack rfl rfl hm rfl

theorem TopInv.setSource' {P : Prog} {s : Storage} (h : TopInv P s) (k0 : Key) (v : Nat) :
    TopInv P (IsoVerif.Pico.setSource s k0 v) := by
  have := h.setSource k0 v s.maps (fun _ _ => rfl) (Or.inr (Or.inr rfl))
  exact this.congr this.stack rfl rfl (setSource_maps s k0 v) rfl

theorem TopInv.removeSource {P : Prog} {s : Storage} (h : TopInv P s) (k0 : Key) (hnc : ∀ i, k0 ≠ .ctr i) :
    TopInv P (removeSource s k0) := by
  unfold IsoVerif.Pico.removeSource
  cases hl : alookup s.srcs k0 with
  | none => exact h
  | some nd =>
    simp only
    refine ⟨h.stack, Nat.le_succ_of_le h.epochPos, ?_, ?_, ?_⟩
    · intro k nd' hk
      by_cases hkk : k0 = k
      · subst hkk; rw [alookup_aerase_self] at hk; cases hk
      · rw [alookup_aerase_ne _ _ _ hkk] at hk; exact Nat.le_succ_of_le (h.srcTu k nd' hk)
    · intro i hi
      rw [alookup_aerase_ne _ _ _ (hnc i)] at hi
      exact h.mapsInit i hi
    · intro n r hn
      refine (h.nodes n r hn).touch k0 rfl (Or.inl (alookup_aerase_self _ _)) ?_ rfl
      intro k hne
      have h1 : alookup (aerase s.srcs k0) k = alookup s.srcs k := alookup_aerase_ne _ _ _ (Ne.symm hne)
      exact ⟨h1, keyObs_of_lookup_maps h1 (fun _ _ => rfl)⟩

theorem TopInv.touchCounter_maps {P : Prog} {s : Storage} (h : TopInv P s) (m : Nat) (x : List Nat) :
    TopInv P { touchCounter s m with maps := setNth (touchCounter s m).maps m x } := by
  have hmaps : (touchCounter s m).maps = s.maps := by
    unfold touchCounter
    cases hl : alookup s.srcs (.ctr m) with
    | none => exact setSource_maps _ _ _
    | some nd => exact setSource_maps _ _ _
  rw [hmaps]
  unfold touchCounter
  cases hl : alookup s.srcs (.ctr m) with
  | none =>
    simp only
    exact h.setSource (.ctr m) 0 _ (fun i hi => mapLen_setNth_ne _ _ _ _ (fun e => hi (by rw [e]))) (Or.inl hl)
  | some nd =>
    simp only
    exact h.setSource (.ctr m) (nd.val + 1) _ (fun i hi => mapLen_setNth_ne _ _ _ _ (fun e => hi (by rw [e])))
      (Or.inr (Or.inl ⟨nd, hl, by omega⟩))

/-! ## collections -/

theorem mem_depIds {deps : List Dep} {q : NodeId} : q ∈ depIds deps ↔ ∃ d, d ∈ deps ∧ d.node = .derived q := by
  induction deps with
  | nil => simp [depIds]
  | cons d ds ih =>
    cases hd : d.node with
    | derived m =>
      simp only [depIds, hd, List.mem_cons, ih]
      constructor
      · rintro (rfl | ⟨d', hd', hk⟩)
        · exact ⟨d, Or.inl rfl, hd⟩
        · exact ⟨d', Or.inr hd', hk⟩
      · rintro ⟨d', (rfl | hd'), hk⟩
        · rw [hd] at hk; cases hk; exact Or.inl rfl
        · exact Or.inr ⟨d', hd', hk⟩
    | source k =>
      simp only [depIds, hd, List.mem_cons, ih]
      constructor
      · rintro ⟨d', hd', hk⟩; exact ⟨d', Or.inr hd', hk⟩
      · rintro ⟨d', (rfl | hd'), hk⟩
        · rw [hd] at hk; cases hk
        · exact ⟨d', hd', hk⟩
    | absent k =>
      simp only [depIds, hd, List.mem_cons, ih]
      constructor
      · rintro ⟨d', hd', hk⟩; exact ⟨d', Or.inr hd', hk⟩
      · rintro ⟨d', (rfl | hd'), hk⟩
        · rw [hd] at hk; cases hk
        · exact ⟨d', hd', hk⟩

theorem TopInv.gc {P : Prog} {s : Storage} (h : TopInv P s) : TopInv P (gc s).1 := by
  cases hg : IsoVerif.Pico.gc s with
  | mk s' res =>
    cases res with
    | panic p =>
      -- the storage is poisoned; nothing but `top_level_calls` and the LRU changed
      have : s'.stack = s.stack ∧ s'.epoch = s.epoch ∧ s'.srcs = s.srcs ∧ s'.maps = s.maps ∧ s'.derived = s.derived := by
        unfold IsoVerif.Pico.gc at hg
        simp only at hg
        split at hg
        · cases hg; exact ⟨rfl, rfl, rfl, rfl, rfl⟩
        · cases hg
      exact h.congr (this.1.trans h.stack) this.2.1 this.2.2.1 this.2.2.2.1 this.2.2.2.2
    | ok u =>
      obtain ⟨keep, hmark, hs'⟩ := gc_ok s s' (by cases u; exact hg)
      obtain ⟨_, _, hclosed⟩ := mark_inv _ _ _ _ _ hmark
      subst hs'
      refine ⟨h.stack, h.epochPos, h.srcTu, h.mapsInit, ?_⟩
      intro n r hn
      simp only at hn
      have hnk : n ∈ keep := mem_of_alookup_filter _ _ _ _ hn
      have hns : alookup s.derived n = some r := alookup_filter_some _ _ _ _ hn
      have hok := h.nodes n r hns
      obtain ⟨r0, hr0, hcl⟩ := hclosed n hnk (fun hm => by cases hm)
      rw [hns] at hr0; cases hr0
      obtain ⟨σx, mx, R, hb, hdf, hx⟩ := hok.ghost
      refine ⟨hok.tv_le, hok.tu_tv, hok.stamps, hok.tu_stamp, hok.correct, ?_, σx, mx, R, hb, ?_, hx⟩
      · intro ht d hd
        have hq := hok.quiet ht d hd
        unfold DepQuiet at hq ⊢
        cases hn' : d.node with
        | source k => rw [hn'] at hq; exact hq
        | absent k => rw [hn'] at hq; exact hq
        | derived q =>
          rw [hn'] at hq; simp only at hq ⊢
          have hqk : q ∈ keep := hcl q (mem_depIds.2 ⟨d, hd, hn'⟩)
          rw [alookup_filter_of_mem _ _ _ hqk]; exact hq
      intro rd hrd
      have h0 := hdf rd hrd
      cases rd with
      | src k o => simp only [DepFor] at h0 ⊢; exact h0
      | node q w =>
        simp only [DepFor] at h0 ⊢
        obtain ⟨⟨d, hd, hk⟩, rq, hq, hrest⟩ := h0
        have hqk : q ∈ keep := hcl q (mem_depIds.2 ⟨d, hd, hk⟩)
        exact ⟨⟨d, hd, hk⟩, rq, by rw [alookup_filter_of_mem _ _ _ hqk]; exact hq, hrest⟩

end IsoVerif.Pico
