/-
Lemma for C08_no_panic_partial: inside the envelope (`inEnvelope`) the walk of `Model/Core/ArtsPanic.lean`
reaches none of the modelled panic sites.  Core Lean only.

Invariant: the walk over a selection set that is `selsBelow p bound` succeeds with any fuel `> bound`
(strictly: `fuelFor p = p.decls.length + 1` leaves exactly that slack) and keeps every recorded `@loadable`
selection on a refetchable type (`Good`).  Outer induction on the fuel, inner mutual structural induction
on `Selection` / `List Selection`.
-/
import IsoVerif.Model.Core.ArtsPanic

namespace IsoVerif.Core.ArtsPanic

open IsoVerif.Core IsoVerif.Core.Validate

/-- all recorded `@loadable` client-field selections sit on refetchable types -/
def Good (p : Project) (acc : Loadables) : Prop := ∀ x ∈ acc, refetchable p x.1 = true

/-- a successful walk step that keeps `Good` -/
def OkGood (p : Project) (r : Except Site Loadables) : Prop := ∃ acc', r = .ok acc' ∧ Good p acc'

theorem declIndex_go_lt (ty name : String) :
    ∀ (decls : List (String × Decl)) (k i : Nat), declIndex.go ty name decls k = some i →
      i < k + decls.length
  | [], k, i, h => by simp [declIndex.go] at h
  | (_, d) :: rest, k, i, h => by
    simp only [declIndex.go] at h
    split at h
    · simp at h; simp only [List.length_cons]; omega
    · have := declIndex_go_lt ty name rest (k + 1) i h
      simp only [List.length_cons]; omega

theorem envelope_go_find (p : Project) (ty name : String) :
    ∀ (decls : List (String × Decl)) (k : Nat), inEnvelope.go p decls k = true →
      ∀ d, (decls.map (·.2)).find? (fun d => !d.isEntrypoint && d.parent == ty && d.name == name) = some d →
        ∃ i, declIndex.go ty name decls k = some i ∧
          ∀ s, d.selections? = some s → selsBelow p i d.parent s = true
  | [], k, _, d, hf => by simp at hf
  | (_, d0) :: rest, k, he, d, hf => by
    simp only [inEnvelope.go, Bool.and_eq_true] at he
    simp only [List.map_cons, List.find?_cons] at hf
    simp only [declIndex.go]
    split at hf
    · rename_i hc
      simp only [Option.some.injEq] at hf
      subst hf
      refine ⟨k, by simp [hc], ?_⟩
      intro s hs
      have := he.1
      rw [hs] at this
      exact this
    · rename_i hc
      have hc' : (!d0.isEntrypoint && d0.parent == ty && d0.name == name) = false := by
        simpa using hc
      rw [hc']
      exact envelope_go_find p ty name rest (k + 1) he.2 d hf

mutual
theorem walkSel_ok (p : Project) (f : Nat)
    (hdecl : ∀ ty name acc, (∀ i, declIndex p ty name = some i → i < f) → Good p acc →
      OkGood p (walkDecl p (f + 1) ty name acc)) :
    ∀ (s : Selection) (bound : Nat) (ty : String) (acc : Loadables),
      selBelow p bound ty s = true → bound < f + 1 → Good p acc →
      OkGood p (walkSel p (f + 1) ty s acc)
  | .scalar h, bound, ty, acc, hb, hbound, hg => by
    rw [walkSel]
    rw [selBelow] at hb
    simp only [Bool.and_eq_true, Bool.not_eq_true'] at hb
    obtain ⟨hargs, hb⟩ := hb
    rw [if_neg (by simp [hargs])]
    split
    · rename_i a t heq
      rw [heq] at hb
      simp only [Bool.and_eq_true, Bool.or_eq_true, Bool.not_eq_true'] at hb
      apply hdecl
      · intro i hi
        have := hb.1
        rw [hi] at this
        simp at this
        omega
      · by_cases hl : isLoadable h = true
        · simp only [hl, if_true]
          intro x hx
          simp only [List.mem_cons] at hx
          rcases hx with rfl | hx
          · rcases hb.2 with h2 | h2
            · simp [hl] at h2
            · exact h2
          · exact hg x hx
        · simp only [hl]
          exact hg
    · exact ⟨acc, rfl, hg⟩
  | .linked h kids, bound, ty, acc, hb, hbound, hg => by
    rw [walkSel]
    rw [selBelow] at hb
    simp only [Bool.and_eq_true, Bool.not_eq_true'] at hb
    obtain ⟨hargs, hb⟩ := hb
    rw [if_neg (by simp [hargs])]
    split
    · rename_i a t heq
      rw [heq] at hb
      exact walkSels_ok p f hdecl kids bound t acc hb hbound hg
    · rename_i a t heq
      rw [heq] at hb
      exact walkSels_ok p f hdecl kids bound t acc hb hbound hg
    · rename_i a t heq
      rw [heq] at hb
      simp only [Bool.and_eq_true] at hb
      have hd : OkGood p (walkDecl p (f + 1) ty h.name acc) := by
        apply hdecl _ _ _ _ hg
        intro i hi
        have := hb.1
        rw [hi] at this
        simp at this
        omega
      obtain ⟨acc', he, hg'⟩ := hd
      rw [he]
      exact walkSels_ok p f hdecl kids bound t acc' hb.2 hbound hg'
    · exact ⟨acc, rfl, hg⟩
theorem walkSels_ok (p : Project) (f : Nat)
    (hdecl : ∀ ty name acc, (∀ i, declIndex p ty name = some i → i < f) → Good p acc →
      OkGood p (walkDecl p (f + 1) ty name acc)) :
    ∀ (sels : List Selection) (bound : Nat) (ty : String) (acc : Loadables),
      selsBelow p bound ty sels = true → bound < f + 1 → Good p acc →
      OkGood p (walkSels p (f + 1) ty sels acc)
  | [], bound, ty, acc, hb, hbound, hg => by
    rw [walkSels]; exact ⟨acc, rfl, hg⟩
  | s :: rest, bound, ty, acc, hb, hbound, hg => by
    rw [walkSels]
    rw [selsBelow] at hb
    simp only [Bool.and_eq_true] at hb
    obtain ⟨acc', he, hg'⟩ := walkSel_ok p f hdecl s bound ty acc hb.1 hbound hg
    rw [he]
    exact walkSels_ok p f hdecl rest bound ty acc' hb.2 hbound hg'
end

/-- entering a declaration with one more unit of fuel than its index succeeds, given the walk at `f` -/
theorem walkDecl_ok (p : Project) (henv : inEnvelope p = true) (f : Nat)
    (ih : ∀ (sels : List Selection) (bound : Nat) (ty : String) (acc : Loadables),
      selsBelow p bound ty sels = true → bound < f → Good p acc → OkGood p (walkSels p f ty sels acc))
    (ty name : String) (acc : Loadables)
    (hi : ∀ i, declIndex p ty name = some i → i < f) (hg : Good p acc) :
    OkGood p (walkDecl p (f + 1) ty name acc) := by
  rw [walkDecl]
  have key := envelope_go_find p ty name p.decls 0 henv
  split
  · rename_i d heq
    obtain ⟨i, hidx, hs⟩ := key _ heq
    exact ih _ i _ _ (hs _ rfl) (hi i hidx) hg
  · rename_i d heq
    obtain ⟨i, hidx, hs⟩ := key _ heq
    exact ih _ i _ _ (hs _ rfl) (hi i hidx) hg
  · exact ⟨acc, rfl, hg⟩

theorem walkSels_ok_all (p : Project) (henv : inEnvelope p = true) :
    ∀ (f : Nat) (sels : List Selection) (bound : Nat) (ty : String) (acc : Loadables),
      selsBelow p bound ty sels = true → bound < f → Good p acc → OkGood p (walkSels p f ty sels acc)
  | 0, _, _, _, _, _, hb, _ => by omega
  | f + 1, sels, bound, ty, acc, hs, hb, hg =>
    walkSels_ok p f (fun ty name acc hi hg =>
      walkDecl_ok p henv f (walkSels_ok_all p henv f) ty name acc hi hg) sels bound ty acc hs hb hg

theorem walkEntrypoints_ok (p : Project) (henv : inEnvelope p = true) :
    ∀ (es : List Entrypoint) (acc : Loadables), Good p acc →
      OkGood p (walkEntrypoints p (fuelFor p) es acc)
  | [], acc, hg => ⟨acc, rfl, hg⟩
  | e :: rest, acc, hg => by
    simp only [walkEntrypoints]
    have hd : OkGood p (walkDecl p (fuelFor p) e.parent e.name acc) := by
      apply walkDecl_ok p henv p.decls.length (walkSels_ok_all p henv _) _ _ _ _ hg
      intro i hi
      have := declIndex_go_lt e.parent e.name p.decls 0 i hi
      omega
    obtain ⟨acc', he, hg'⟩ := hd
    rw [he]
    exact walkEntrypoints_ok p henv rest acc' hg'

theorem checkLoadables_ok (p : Project) : ∀ (ls : Loadables), Good p ls → checkLoadables p ls = .ok ()
  | [], _ => rfl
  | (ty, n) :: rest, hg => by
    simp only [checkLoadables]
    rw [if_pos (hg (ty, n) (List.mem_cons_self ..))]
    exact checkLoadables_ok p rest (fun x hx => hg x (List.mem_cons_of_mem _ hx))

/-- Inside the envelope artifact generation reaches none of the modelled panic sites. -/
theorem genOutcome_ok_of_inEnvelope (p : Project) (h : inEnvelope p = true) : genOutcome p = .ok () := by
  unfold genOutcome
  obtain ⟨ls, he, hg⟩ := walkEntrypoints_ok p h (entrypointsOf p) [] (fun x hx => by simp at hx)
  rw [he]
  exact checkLoadables_ok p ls hg

def nonVacuityProject : Project :=
  { schema := ⟨[⟨"Query", none, .object [] [⟨"name", none, [], .named "String"⟩, ⟨"me", none, [], .named "Query"⟩]⟩]⟩
    extensions := []
    decls :=
      [ ("a.ts", .clientField ⟨"Query", "A", [], [], none, [.scalar ⟨none, "name", [], []⟩]⟩),
        ("b.ts", .clientField ⟨"Query", "B", [], [], none,
          [.scalar ⟨none, "A", [], []⟩, .linked ⟨none, "me", [], []⟩ [.scalar ⟨none, "A", [], []⟩]]⟩),
        ("b.ts", .entrypoint ⟨"Query", "B", []⟩) ]
    options := {}
    extraFiles := [] }

example : inEnvelope nonVacuityProject = true := by decide +kernel

end IsoVerif.Core.ArtsPanic
