/-
Specifications of the `PeekableLexer` primitives of the parser model.
-/
import IsoVerif.Lemmas.IsoParseLogic

namespace IsoVerif.IsoParse
open IsoVerif.Lex IsoVerif.IsoLex IsoVerif.Gen.IsoTokens

variable {src : Bytes}

theorem goodSpan_tok {st : PL} (h : WF src st) : GoodSpan src (tokSpan st.cur) :=
  ⟨h.cur_le, h.cur_s, h.cur_e⟩

/-- `parse_token` on a current token that is not the end-of-file marker -/
theorem parseToken_ok (t : ST) (st : PL) (hwf : WF src st) (hk : st.cur.kind ≠ .EndOfFile) :
    ∃ st', parseToken t st = .ok st.cur st' ∧ WF src st' ∧ Adv st st' ∧ Consumed st st' := by
  have hne := hwf.cur_ne hk
  unfold parseToken
  cases hr : st.rest with
  | nil =>
    refine ⟨_, rfl, ?_, ?_, ?_⟩
    · have hlen : st.src.length = src.length := by rw [hwf.src_eq]
      refine ⟨hwf.src_eq, hwf.cur_e, ?_, ?_, ?_, ?_, ?_, ?_, ?_, ?_⟩
      · simp [eofTok, hlen]; exact hwf.cur_e.1
      · simp [eofTok, hlen]; exact goodPos_len src
      · simp [eofTok, hlen]; exact goodPos_len src
      · simp [eofTok]
      · simp [eofTok]
      · simp [eofTok, TextOK]
      · simp [Chain]
      · exact ⟨hne, Nat.le_refl _, goodSpan_tok hwf, hwf.sem.mono hwf.eolp_le⟩
    · refine ⟨Nat.le_trans hwf.eolp_le hwf.cur_le, ?_, .inr (Nat.le_refl _)⟩
      simp [eofTok, hwf.src_eq]; exact hwf.cur_s.1
    · exact Nat.le_refl _
  | cons n r =>
    have hc := hwf.chain
    rw [hr] at hc
    obtain ⟨h1, h2, h3, h4, h6, h5⟩ := hc
    refine ⟨_, rfl, ?_, ?_, ?_⟩
    · exact ⟨hwf.src_eq, hwf.cur_e, h1, h3, h4, Nat.le_of_lt h2, fun _ => h2, h6, h5,
        ⟨hne, Nat.le_refl _, goodSpan_tok hwf, hwf.sem.mono hwf.eolp_le⟩⟩
    · exact ⟨Nat.le_trans hwf.eolp_le hwf.cur_le, Nat.le_trans hwf.cur_le h1, .inr (Nat.le_refl _)⟩
    · exact Nat.le_refl _

theorem spec_peek : Spec src false peek (fun t => GoodSpan src (tokSpan t)) := by
  intro st hwf
  exact ⟨hwf, Adv.refl st, goodSpan_tok hwf, by simp⟩

theorem slice_some {text : Bytes} {a b : Nat} (h1 : a ≤ b) (h2 : b ≤ text.length)
    (h3 : isBoundary text a = true) (h4 : isBoundary text b = true) :
    slice text a b = some ((text.drop a).take (b - a)) := by
  simp [slice, h1, h2, h3, h4]

/-- `PeekableLexer::source` of a good span does not panic -/
theorem spec_source (sp : Span) (h : GoodSpan src sp) : Spec src false (source sp) (fun _ => True) := by
  intro st hwf
  unfold source
  rw [hwf.src_eq, slice_some h.le h.e.1 h.s.2 h.e.2]
  exact ⟨hwf, Adv.refl st, trivial, by simp⟩

/-- `parse_token_of_kind`: on success exactly the current token is consumed and returned -/
theorem spec_tokenOfKind (k : IsoKind) (t : ST) (hk : k ≠ .EndOfFile) :
    Spec src true (tokenOfKind k t) (fun tok => GoodSpan src (tokSpan tok) ∧ tok.kind = k ∧ TextOK src tok) := by
  intro st hwf
  simp only [tokenOfKind, bind_apply, peek_apply]
  by_cases hkk : st.cur.kind = k
  · simp only [hkk, if_true]
    obtain ⟨st', h1, h2, h3, h4⟩ := parseToken_ok t st hwf (by rw [hkk]; exact hk)
    rw [h1]
    exact ⟨h2, h3, ⟨goodSpan_tok hwf, hkk, hwf.cur_text⟩, fun _ => h4⟩
  · simp only [hkk, if_false, fail_apply]
    exact ⟨hwf, Adv.refl st, goodSpan_tok hwf⟩

/-- `parse_token_of_kind` fails without touching the state -/
theorem tokenOfKind_err (k : IsoKind) (t : ST) (st st' : PL) (d : Diag) (h : tokenOfKind k t st = .err d st') : st' = st := by
  simp only [tokenOfKind, bind_apply, peek_apply] at h
  by_cases hkk : st.cur.kind = k
  · simp only [hkk, if_true] at h
    unfold parseToken at h
    split at h <;> cases h
  · simp only [hkk, if_false, fail_apply] at h
    cases h
    rfl

/-- what `PeekableLexer::source` returns for a good span -/
theorem source_ok (sp : Span) (h : GoodSpan src sp) (st : PL) (hwf : WF src st) :
    source sp st = .ok (textOf src sp.s sp.e) st := by
  unfold source
  rw [hwf.src_eq, slice_some h.le h.e.1 h.s.2 h.e.2]
  rfl

theorem spec_sourceOfKind (k : IsoKind) (t : ST) (hk : k ≠ .EndOfFile) :
    Spec src true (sourceOfKind k t) (fun l => GoodSpan src l.span ∧
      (k = .StringLiteral → QuoteOK l.item) ∧ (k = .BlockStringLiteral → BlockOK l.item)) := by
  intro st hwf
  simp only [sourceOfKind, bind_apply]
  have h := spec_tokenOfKind (src := src) k t hk st hwf
  cases ht : tokenOfKind k t st with
  | ok tok st1 =>
    rw [ht] at h
    obtain ⟨hwf1, hadv, ⟨hg, hkind, htext⟩, hc⟩ := h
    simp only [source_ok (tokSpan tok) hg st1 hwf1, pure_apply]
    refine ⟨hwf1, hadv, ⟨hg, ?_, ?_⟩, fun _ => hc rfl⟩
    · intro hk'; exact htext.1 (by rw [hkind, hk'])
    · intro hk'; exact htext.2 (by rw [hkind, hk'])
  | err d st1 => rw [ht] at h; simpa using h
  | panic s => rw [ht] at h; exact h
  | fuel => trivial

theorem spec_spanNew (s e : Nat) (h : s ≤ e) (hs : GoodPos src s) (he : GoodPos src e) :
    Spec src false (spanNew s e) (fun sp => GoodSpan src sp) := by
  unfold IsoParse.spanNew
  simp only [h, if_true]
  exact Spec.pure _ ⟨h, hs, he⟩

/-- `with_embedded_location_result` around a parser that consumes at least one token on success -/
theorem spec_withLoc {α : Type} {G : α → Prop} {p : P α} (h : Spec src true p G) :
    Spec src true (withLoc p) (fun l => GoodSpan src l.span ∧ G l.item) := by
  intro st hwf
  simp only [IsoParse.withLoc, bind_apply, get_apply]
  have hp := h st hwf
  cases hps : p st with
  | ok a st1 =>
    rw [hps] at hp
    obtain ⟨hwf1, hadv, hg, hc⟩ := hp
    have hcons : st.cur.e ≤ st1.eolp := hc rfl
    have hle : st.cur.s ≤ st1.eolp := Nat.le_trans hwf.cur_le hcons
    simp only [IsoParse.spanNew, hle, if_true, pure_apply]
    exact ⟨hwf1, hadv, ⟨⟨hle, hwf.cur_s, hwf1.eolp⟩, hg⟩, fun _ => hcons⟩
  | err d st1 => rw [hps] at hp; simpa using hp
  | panic s => rw [hps] at hp; exact hp
  | fuel => trivial

end IsoVerif.IsoParse
