/-
C01, stage 2b/3: the call at the top level, every operation, and the history theorem.
-/
import IsoVerif.Lemmas.PicoInc7

namespace IsoVerif.Pico

/-- the outcome of a call in a state satisfying the invariant -/
theorem step_call_inc {P : Prog} {rank : Nat → Nat} (hacy : Acyclic P rank) (fuel : Nat) (hrank : ∀ g, rank g < fuel)
    (s : Storage) (f a v : Nat) (h : TopInv P s)
    (hv : evalS fuel P s.srcs s.maps [] (nodeOf P f a) = .ok v) :
    TopInv P (step fuel P s (.call f a)).1 ∧
      ((step fuel P s (.call f a)).2 = .dead ∨ (step fuel P s (.call f a)).2 = .val v) ∧
      (s.poisoned = false → (∃ r', alookup (step fuel P s (.call f a)).1.derived (nodeOf P f a) = some r' ∧
        r'.tv = (step fuel P s (.call f a)).1.epoch) ∧ Evolves (fun _ => True) s (step fuel P s (.call f a)).1) := by
  unfold step
  by_cases hp : s.poisoned = true
  · rw [if_pos hp]; exact ⟨h, Or.inl rfl, fun h' => by rw [hp] at h'; cases h'⟩
  · rw [if_neg hp]
    obtain ⟨R, hbig⟩ := bigN_of_evalS fuel [] _ v hv
    have hinv : INV P s [] := h.toINV
    have hp0 : pushTop s (nodeOf P f a) =
        { s with topCalls := s.topCalls ++ [nodeOf P f a], pushes := s.pushes ++ [nodeOf P f a] } := by
      simp [pushTop, h.stack]
    have hinv0 : INV P { s with topCalls := s.topCalls ++ [nodeOf P f a], pushes := s.pushes ++ [nodeOf P f a] } [] :=
      hinv.congr rfl rfl rfl rfl (fun fr hfr => by rw [show ({ s with topCalls := s.topCalls ++ [nodeOf P f a], pushes := s.pushes ++ [nodeOf P f a] } : Storage).stack = s.stack from rfl, h.stack] at hfr; cases hfr)
    obtain ⟨s', b, tu, r', he, hinv', hev, hstk, hl, hval, htv', _⟩ :=
      specU_all hacy fuel _ [] (nodeOf P f a) v R hinv0 (fun b hb => by cases hb) (hrank _) hbig
    have hst' : s'.stack = [] := hstk.trans h.stack
    have hexec : exec fuel P s (nodeOf P f a) = (s', .ok b) := by
      show execF (upToDate fuel P) s (nodeOf P f a) = _
      unfold execF
      rw [hp0, he]
      simp [regDep, hst']
    simp only [callVia, hexec, hl, hval]
    exact ⟨(TopInv.ofINV hinv' hst').congr hst' rfl rfl rfl rfl, by simp,
      fun _ => ⟨⟨r', rfl, by rw [htv']; exact hev.epoch.symm⟩,
        ((hev.congr_left (s0 := s) rfl rfl rfl rfl rfl).congr_right (s'' := { s' with refs := if s'.refs.contains (nodeOf P f a) then s'.refs else nodeOf P f a :: s'.refs }) rfl rfl rfl rfl rfl).mono (fun _ _ => trivial)⟩⟩

theorem TopInv.step {P : Prog} {rank : Nat → Nat} (hacy : Acyclic P rank) (fuel : Nat) (hrank : ∀ g, rank g < fuel)
    {s : Storage} (hinv : TopInv P s) (op : Op)
    (hclean : ∀ f a, op = .call f a → ∃ v, evalS fuel P s.srcs s.maps [] (nodeOf P f a) = .ok v) :
    TopInv P (step fuel P s op).1 := by
  cases op with
  | call f a =>
    obtain ⟨v, hv⟩ := hclean f a rfl
    exact (step_call_inc hacy fuel hrank s f a v hinv hv).1
  | set k v =>
    unfold IsoVerif.Pico.step; split
    · exact hinv
    · exact hinv.setSource' (.src k) v
  | rem k =>
    unfold IsoVerif.Pico.step; split
    · exact hinv
    · exact hinv.removeSource _ (fun i e => by cases e)
  | sset i v =>
    unfold IsoVerif.Pico.step; split
    · exact hinv
    · exact hinv.setSource' (.sing i) v
  | srem i =>
    unfold IsoVerif.Pico.step; split
    · exact hinv
    · exact hinv.removeSource _ (fun i e => by cases e)
  | tins m k =>
    unfold IsoVerif.Pico.step; split
    · exact hinv
    · exact hinv.touchCounter_maps m _
  | trem m k =>
    unfold IsoVerif.Pico.step; split
    · exact hinv
    · exact hinv.touchCounter_maps m _
  | look f a =>
    unfold IsoVerif.Pico.step; split
    · exact hinv
    · simp only; split
      · split <;> exact hinv
      · exact hinv
  | retain f a =>
    unfold IsoVerif.Pico.step; split
    · exact hinv
    · simp only; split
      · exact hinv.congr hinv.stack rfl rfl rfl rfl
      · exact hinv
  | unretain f a =>
    unfold IsoVerif.Pico.step; split
    · exact hinv
    · simp only; split
      · exact hinv.congr hinv.stack rfl rfl rfl rfl
      · exact hinv
  | nevergc f a =>
    unfold IsoVerif.Pico.step; split
    · exact hinv
    · simp only; split
      · exact hinv.congr hinv.stack rfl rfl rfl rfl
      · exact hinv
  | gc =>
    unfold IsoVerif.Pico.step; split
    · exact hinv
    · have := hinv.gc
      cases hg : IsoVerif.Pico.gc s with
      | mk s' r =>
        rw [hg] at this
        cases r <;> exact this

theorem TopInv.init (P : Prog) (cap nfn : Nat) : TopInv P (Storage.init cap nfn) :=
  ⟨rfl, Nat.le_refl _, by intro k nd h; simp [Storage.init] at h,
   by intro i _; cases i with
      | zero => rfl
      | succ i => cases i <;> rfl,
   by intro n r h; simp [Storage.init] at h⟩

/-- the invariant holds after every prefix of a history whose calls are clean -/
theorem topInv_runS {P : Prog} {rank : Nat → Nat} (hacy : Acyclic P rank) (fuel : Nat) (hrank : ∀ g, rank g < fuel) :
    ∀ (pre : List Op) (s : Storage), TopInv P s →
    (∀ p f a rest, pre = p ++ Op.call f a :: rest →
        ∃ v, evalS fuel P (runS fuel P s p).srcs (runS fuel P s p).maps [] (nodeOf P f a) = .ok v) →
    TopInv P (runS fuel P s pre) := by
  intro pre
  induction pre with
  | nil => intro s h _; exact h
  | cons op ops ih =>
    intro s h hc
    rw [runS_cons]
    refine ih _ (h.step hacy fuel hrank op ?_) ?_
    · intro f a hop; subst hop; exact hc [] f a ops rfl
    · intro p f a rest hp
      have := hc (op :: p) f a rest (by rw [hp]; rfl)
      rw [runS_cons] at this; exact this

/-- **C01, stages 2 and 3**: nested calls across source changes, with collections -/
theorem c01_inc {P : Prog} {rank : Nat → Nat} (hacy : Acyclic P rank) (fuel cap : Nat) (hrank : ∀ g, rank g < fuel)
    (h : List Op) (hclean : CleanCalls fuel cap P h)
    (pre : List Op) (f a : Nat) (rest : List Op) (hh : h = pre ++ Op.call f a :: rest) :
    (step fuel P (after fuel cap P pre) (.call f a)).2 = .dead ∨
      (step fuel P (after fuel cap P pre) (.call f a)).2 = outOfRes (evalScratch fuel P (after fuel cap P pre) (nodeOf P f a)) := by
  have hinv : TopInv P (after fuel cap P pre) := by
    unfold after
    refine topInv_runS hacy fuel hrank pre _ (TopInv.init P cap P.length) ?_
    intro p f' a' rest' hp
    exact hclean p f' a' (rest' ++ Op.call f a :: rest) (by rw [hh, hp]; simp)
  obtain ⟨v, hv⟩ := hclean pre f a rest hh
  rcases (step_call_inc hacy fuel hrank _ f a v hinv hv).2.1 with hd | hval
  · exact Or.inl hd
  · right; rw [hval]; unfold evalScratch; rw [hv]; rfl


/-! ## decidable forms of the hypotheses (for concrete programs and histories) -/

theorem acyclic_of_bounded (P : Prog) (rank : Nat → Nat)
    (h : ∀ f, f < P.length → ∀ g, g ∈ (fnOf P f).body.calls → rank g < rank f) : Acyclic P rank := by
  intro f g hg
  by_cases hf : f < P.length
  · exact h f hf g hg
  · have : fnOf P f = ⟨0, .lit 0⟩ := by
      unfold fnOf
      rw [List.getD_eq_getElem?_getD, List.getElem?_eq_none (Nat.le_of_not_lt hf)]; rfl
    rw [this] at hg; simp [Expr.calls] at hg

end IsoVerif.Pico
