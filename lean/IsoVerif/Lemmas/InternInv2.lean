/-
Preservation of the intern invariant `JInv`, part 2: uniqueness, pending values, histories;
`jinv_step`.
-/
import IsoVerif.Lemmas.InternInv1
namespace IsoVerif.InternT
open IsoVerif.Arena IsoVerif.ArenaT IsoVerif.Gen.ArenaConsts

variable {sh : Val → Nat} {s s' : ISt} {t : Tid}

/-- only `insertStep` changes the shards -/
theorem shard_cases (hs : IStep sh s t s') :
    s'.shard = s.shard ∨
    (∃ v id, s.thr t = .insert v id ∧ s'.shard = upd s.shard (sh v) (id :: s.shard (sh v)) ∧ s'.ar = s.ar ∧
      s'.thr t = .unlock v id) := by
  cases hs
  case insertStep v id hpc => right; exact ⟨v, id, hpc, rfl, rfl, by simp⟩
  all_goals (left; rfl)

theorem shard_mono (hs : IStep sh s t s') : ∀ k id, id ∈ s.shard k → id ∈ s'.shard k := by
  rcases shard_cases hs with h | ⟨v, id0, _, h, _, _⟩
  · rw [h]; exact fun _ _ h => h
  · rw [h]; intro k id hid; simp only [upd_apply]; split
    · subst_vars; exact List.mem_cons_of_mem _ hid
    · exact hid

/-- an arena addition whose reference is already in a shard is not new -/
theorem old_of_in_shard (hJ : JInv sh s) (hs : IStep sh s t s') (hw : s'.ar.next < W)
    {k id : Nat} (hid : id ∈ s.shard k) {t1 : Tid} {v : Val} (hm : Ev.addRet t1 v id ∈ s'.ar.hist) :
    Ev.addRet t1 v id ∈ s.ar.hist := by
  rcases ar_new_add hJ hs hw hm with h | ⟨_, _, _, hn⟩
  · exact h
  · obtain ⟨t0, v0, h0, _⟩ := hJ.setDone k id hid
    exact absurd (mem_addRefs.2 ⟨t0, v0, h0⟩) hn

theorem setUniq_step (hJ : JInv sh s) (hs : IStep sh s t s') (hw : s'.ar.next < W) :
    ∀ k id id' t1 t2 v, id ∈ s'.shard k → id' ∈ s'.shard k →
      Ev.addRet t1 v id ∈ s'.ar.hist → Ev.addRet t2 v id' ∈ s'.ar.hist → id = id' := by
  intro k id id' t1 t2 v hi hi' ha ha'
  rcases shard_cases hs with h | ⟨v0, id0, hpc, h, har, _⟩
  · rw [h] at hi hi'
    exact hJ.setUniq k id id' t1 t2 v hi hi' (old_of_in_shard hJ hs hw hi ha) (old_of_in_shard hJ hs hw hi' ha')
  · rw [har] at ha ha'
    rw [h] at hi hi'
    simp only [upd_apply] at hi hi'
    obtain ⟨hins, hnot⟩ := hJ.insertOk t v0 id0 hpc
    have hpa := hJ.pendAbsent t v0 (by simp [hpc, pend])
    by_cases hk : k = sh v0
    · subst hk
      simp only [if_true, List.mem_cons] at hi hi'
      rcases hi with rfl | hi <;> rcases hi' with rfl | hi'
      · rfl
      · have : v = v0 := addRet_functional hJ.arInv ha hins
        subst this
        exact absurd ha' (hpa id' hi' t2)
      · have : v = v0 := addRet_functional hJ.arInv ha' hins
        subst this
        exact absurd ha (hpa id hi t1)
      · exact hJ.setUniq _ id id' t1 t2 v hi hi' ha ha'
    · simp only [hk, if_false] at hi hi'
      exact hJ.setUniq k id id' t1 t2 v hi hi' ha ha'


theorem thr_frame_i (hs : IStep sh s t s') : ∀ t', t' ≠ t → s'.thr t' = s.thr t' := by
  cases hs <;> intro t' hne <;> simp [hne]

theorem pend_step (hs : IStep sh s t s') {v : Val} (hp : pend (s'.thr t) = some v) :
    pend (s.thr t) = some v ∨
    (s.thr t = .check v ∧ findIn s.ar (s.shard (sh v)) v = none ∧ s'.ar.hist = s.ar.hist ∧ s'.shard = s.shard) := by
  cases hs <;> nrm <;> simp_all [pend]
  case checkMiss hst => exact (startAdd_spec hst).2.2

theorem pendAbsent_step (hJ : JInv sh s) (hs : IStep sh s t s') (hw : s'.ar.next < W) :
    ∀ t' v, pend (s'.thr t') = some v → ∀ id, id ∈ s'.shard (sh v) → ∀ t'', Ev.addRet t'' v id ∉ s'.ar.hist := by
  intro t' v hp id hid t'' hm
  by_cases hne : t' = t
  · subst hne
    rcases pend_step hs hp with hp0 | ⟨hpc, hf, hh, hsh⟩
    · -- the thread was already pending: shards unchanged by its own step
      have hsh : s'.shard = s.shard := by
        rcases shard_cases hs with h | ⟨v0, id0, hpc, _, _, hu⟩
        · exact h
        · rw [hu] at hp; simp [pend] at hp
      rw [hsh] at hid
      exact hJ.pendAbsent t' v hp0 id hid t'' (old_of_in_shard hJ hs hw hid hm)
    · rw [hsh] at hid; rw [hh] at hm
      exact findIn_none_spec hJ.arInv hf id hid t'' hm
  · have hpc := thr_frame_i hs t' hne
    rw [hpc] at hp
    have hold : id ∈ s.shard (sh v) := by
      rcases shard_cases hs with h | ⟨v0, id0, hpc0, h, _, _⟩
      · rw [h] at hid; exact hid
      · rw [h] at hid; simp only [upd_apply] at hid
        split at hid
        · rename_i hk
          -- both threads would hold the write lock of the same shard
          have w1 := hJ.wlock t v0 (by simp [hpc0, wval])
          have w2 : (s.lock (sh v)).writer = some t' := by
            apply hJ.wlock t' v
            cases hq : s.thr t' <;> simp_all [pend, wval]
          rw [hk] at w2; rw [w1] at w2; cases w2; exact absurd rfl hne
        · exact hid
    exact hJ.pendAbsent t' v hp id hold t'' (old_of_in_shard hJ hs hw hold hm)


/-- the only way to reach `insert v id`: the thread's arena addition has just completed -/
theorem insert_step (hJ : JInv sh s) (hs : IStep sh s t s') (hw : s'.ar.next < W) {v : Val} {id : Nat}
    (hp : s'.thr t = .insert v id) :
    s.thr t = .adding v ∧ s'.ar.hist = .addRet t v id :: s.ar.hist ∧ id ∉ addRefs s.ar.hist ∧
      s'.shard = s.shard := by
  have hI' := ar_inv_step hJ hs hw
  cases hs <;> nrm <;> simp_all
  case addDone v0 ar' t0 v1 r0 rest hpc hst hidle hh =>
    obtain ⟨rfl, rfl⟩ := hp
    have hv := hJ.addingVal t v0 hpc
    rcases addVal_step (step_Step hst) hv with ⟨h, _⟩ | ⟨_, r, hh'⟩ | ⟨hpn, _⟩
    · rw [hidle] at h; simp [addVal] at h
    · rw [hh] at hh'
      simp only [List.cons.injEq, Ev.addRet.injEq] at hh'
      obtain ⟨⟨rfl, rfl, rfl⟩, rfl⟩ := hh'
      have hn := hI'.hist_nodup
      rw [hh, addRefs, List.nodup_cons] at hn
      exact ⟨⟨⟨rfl, rfl⟩, rfl⟩, hn.1⟩
    · rw [hidle] at hpn; cases hpn

theorem insertOk_step (hJ : JInv sh s) (hs : IStep sh s t s') (hw : s'.ar.next < W) :
    ∀ t' v id, s'.thr t' = .insert v id → Ev.addRet t' v id ∈ s'.ar.hist ∧ id ∉ s'.shard (sh v) := by
  intro t' v id hp
  by_cases hne : t' = t
  · subst hne
    obtain ⟨hpc, hh, hn, hsh⟩ := insert_step hJ hs hw hp
    refine ⟨by rw [hh]; exact List.mem_cons_self, ?_⟩
    rw [hsh]
    intro hid
    obtain ⟨t0, v0, h0, _⟩ := hJ.setDone _ id hid
    exact hn (mem_addRefs.2 ⟨t0, v0, h0⟩)
  · have hpc := thr_frame_i hs t' hne
    rw [hpc] at hp
    obtain ⟨h1, h2⟩ := hJ.insertOk t' v id hp
    refine ⟨ar_hist_mono hs _ h1, ?_⟩
    rcases shard_cases hs with h | ⟨v0, id0, hpc0, h, _, _⟩
    · rw [h]; exact h2
    · rw [h]; simp only [upd_apply]
      split
      · rename_i hk
        have w1 := hJ.wlock t v0 (by simp [hpc0, wval])
        have w2 := hJ.wlock t' v (by simp [hp, wval])
        rw [hk] at w2; rw [w1] at w2; cases w2; exact absurd rfl hne
      · exact h2

theorem unlockOk_step (hJ : JInv sh s) (hs : IStep sh s t s') :
    ∀ t' v id, s'.thr t' = .unlock v id → Ev.addRet t' v id ∈ s'.ar.hist ∧ id ∈ s'.shard (sh v) := by
  intro t' v id hp
  by_cases hne : t' = t
  · subst hne
    cases hs <;> nrm <;> simp_all
    case insertStep v0 id0 hpc =>
      obtain ⟨rfl, rfl⟩ := hp
      exact (hJ.insertOk t' _ _ hpc).1
  · have hpc := thr_frame_i hs t' hne
    rw [hpc] at hp
    obtain ⟨h1, h2⟩ := hJ.unlockOk t' v id hp
    exact ⟨ar_hist_mono hs _ h1, shard_mono hs _ _ h2⟩

theorem foundOk_step (hJ : JInv sh s) (hs : IStep sh s t s') :
    ∀ t' v id, found (s'.thr t') = some (v, id) → id ∈ s'.shard (sh v) ∧ ∃ t'', Ev.addRet t'' v id ∈ s'.ar.hist := by
  intro t' v id hp
  have key : id ∈ s.shard (sh v) ∧ ∃ t'', Ev.addRet t'' v id ∈ s.ar.hist := by
    by_cases hne : t' = t
    · subst hne
      have hd : ∀ id, id ∈ s.shard (sh v) → ∃ t v, Ev.addRet t v id ∈ s.ar.hist :=
        fun id hid => (hJ.setDone _ id hid).imp fun _ h => h.imp fun _ h => h.1
      cases hs <;> nrm <;> simp_all [found]
      case readHit v0 id0 hpc hf =>
        obtain ⟨rfl, rfl⟩ := hp
        exact findIn_some_spec hJ.arInv hd hf
      case checkHit v0 id0 hpc hf =>
        obtain ⟨rfl, rfl⟩ := hp
        exact findIn_some_spec hJ.arInv hd hf
      all_goals exact hJ.foundOk t' v id (by simp_all [found])
    · have hpc := thr_frame_i hs t' hne
      rw [hpc] at hp
      exact hJ.foundOk t' v id hp
  exact ⟨shard_mono hs _ _ key.1, key.2.imp fun _ h => ar_hist_mono hs _ h⟩


theorem allIn_step (hJ : JInv sh s) (hs : IStep sh s t s') (hw : s'.ar.next < W) :
    ∀ t' v id, Ev.addRet t' v id ∈ s'.ar.hist → id ∈ s'.shard (sh v) ∨ s'.thr t' = .insert v id := by
  intro t' v id hm
  rcases ar_new_add hJ hs hw hm with hold | ⟨rfl, _, hins, _⟩
  · rcases hJ.allIn t' v id hold with h | h
    · left; exact shard_mono hs _ _ h
    · by_cases hne : t' = t
      · subst hne
        left
        cases hs <;> nrm <;> simp_all
      · right; rw [thr_frame_i hs t' hne]; exact h
  · right; exact hins

theorem hist_cases (hs : IStep sh s t s') :
    s'.hist = s.hist ∨
    (∃ v id, s'.hist = .internRet t v id :: s.hist ∧
      (found (s.thr t) = some (v, id) ∨ s.thr t = .unlock v id)) ∨
    (∃ v, s'.hist = .lookupRet t v (findIn s.ar (s.shard (sh v)) v) :: s.hist ∧ s.thr t = .lookupHeld v) := by
  cases hs
  case readFoundRet v id hpc => right; left; exact ⟨v, id, rfl, Or.inl (by simp [hpc, found])⟩
  case checkFoundRet v id hpc => right; left; exact ⟨v, id, rfl, Or.inl (by simp [hpc, found])⟩
  case unlockStep v id hpc => right; left; exact ⟨v, id, rfl, Or.inr hpc⟩
  case lookupRet v hpc => right; right; exact ⟨v, rfl, hpc⟩
  all_goals (left; rfl)

theorem retOk_step (hJ : JInv sh s) (hs : IStep sh s t s') :
    ∀ t' v id, IEv.internRet t' v id ∈ s'.hist → id ∈ s'.shard (sh v) ∧ ∃ t'', Ev.addRet t'' v id ∈ s'.ar.hist := by
  intro t' v id hm
  have key : id ∈ s.shard (sh v) ∧ ∃ t'', Ev.addRet t'' v id ∈ s.ar.hist := by
    rcases hist_cases hs with h | ⟨v0, id0, h, hc⟩ | ⟨v0, h, _⟩
    · rw [h] at hm; exact hJ.retOk t' v id hm
    · rw [h] at hm
      rcases List.mem_cons.1 hm with he | hm
      · cases he
        rcases hc with hc | hc
        · exact hJ.foundOk t _ _ hc
        · obtain ⟨h1, h2⟩ := hJ.unlockOk t _ _ hc; exact ⟨h2, t, h1⟩
      · exact hJ.retOk t' v id hm
    · rw [h] at hm
      rcases List.mem_cons.1 hm with he | hm
      · cases he
      · exact hJ.retOk t' v id hm
  exact ⟨shard_mono hs _ _ key.1, key.2.imp fun _ h => ar_hist_mono hs _ h⟩

theorem lookOk_step (hJ : JInv sh s) (hs : IStep sh s t s') :
    ∀ t' v id, IEv.lookupRet t' v (some id) ∈ s'.hist →
      id ∈ s'.shard (sh v) ∧ ∃ t'', Ev.addRet t'' v id ∈ s'.ar.hist := by
  intro t' v id hm
  have key : id ∈ s.shard (sh v) ∧ ∃ t'', Ev.addRet t'' v id ∈ s.ar.hist := by
    rcases hist_cases hs with h | ⟨v0, id0, h, hc⟩ | ⟨v0, h, _⟩
    · rw [h] at hm; exact hJ.lookOk t' v id hm
    · rw [h] at hm
      rcases List.mem_cons.1 hm with he | hm
      · cases he
      · exact hJ.lookOk t' v id hm
    · rw [h] at hm
      rcases List.mem_cons.1 hm with he | hm
      · simp only [IEv.lookupRet.injEq] at he
        obtain ⟨rfl, rfl, hf⟩ := he
        have hd : ∀ id, id ∈ s.shard (sh v) → ∃ t v, Ev.addRet t v id ∈ s.ar.hist :=
          fun id hid => (hJ.setDone _ id hid).imp fun _ h => h.imp fun _ h => h.1
        exact findIn_some_spec hJ.arInv hd hf.symm
      · exact hJ.lookOk t' v id hm
  exact ⟨shard_mono hs _ _ key.1, key.2.imp fun _ h => ar_hist_mono hs _ h⟩

/-- **every field of `JInv` is preserved** by a step that does not wrap the arena counter -/
theorem jinv_step (hJ : JInv sh s) (hs : IStep sh s t s') (hw : s'.ar.next < W) : JInv sh s' where
  arInv := ar_inv_step hJ hs hw
  arIdle := arIdle_step hJ hs
  addingVal := addingVal_step hJ hs
  readingOk := readingOk_step hJ hs
  wlock := wlock_step hJ hs
  wlock' := wlock'_step hJ hs
  rlock := rlock_step hJ hs
  excl := excl_step hJ hs
  rnodup := rnodup_step hJ hs
  setDone := setDone_step hJ hs
  setNodup := setNodup_step hJ hs
  setUniq := setUniq_step hJ hs hw
  pendAbsent := pendAbsent_step hJ hs hw
  insertOk := insertOk_step hJ hs hw
  unlockOk := unlockOk_step hJ hs
  foundOk := foundOk_step hJ hs
  allIn := allIn_step hJ hs hw
  retOk := retOk_step hJ hs
  lookOk := lookOk_step hJ hs

end IsoVerif.InternT
