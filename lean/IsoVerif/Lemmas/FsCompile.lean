/-
From the planner to `compile`: `recreate_all` (= wipe, re-create the directory, `diff` against the
empty state), which operations `diff` writes (minimality), the statements at the level of artifact
lists, and sessions (sequences of compiles with validation failures and I/O faults anywhere).
-/
import IsoVerif.Lemmas.FsDiff

namespace IsoVerif.Fs
open IsoVerif.Util

variable {α : Type} [DecidableEq α]

/-! ### `recreate_all` -/

theorem wic_none (dir : Path α) (fm : Files α) :
    fm.flatMap (writeIfChanged none dir) = fm.map (fun x => Op.writeFile (dir ++ [x.1]) x.2.1) := by
  induction fm with
  | nil => rfl
  | cons x rest ih =>
    obtain ⟨f, i, h⟩ := x
    simp [writeIfChanged, ih]

theorem wic_some_nil (dir : Path α) (fm : Files α) :
    fm.flatMap (writeIfChanged (some []) dir) = fm.map (fun x => Op.writeFile (dir ++ [x.1]) x.2.1) := by
  induction fm with
  | nil => rfl
  | cons x rest ih =>
    obtain ⟨f, i, h⟩ := x
    simp [writeIfChanged, ih]

/-- `recreate_all` is: delete the directory, (re-create it), then `diff` against the empty state. -/
theorem recreateAll_eq (cr : CreateRoot) (st : State α) :
    recreateAll cr st =
      Op.deleteDirectory [] :: ((if cr.emits st then [Op.createDirectory []] else []) ++
        diff State.empty st) := by
  have h1 : newNestedOps State.empty st.nestedFiles =
      st.nestedFiles.flatMap fun (e, sm) => sm.flatMap fun (s, fm) =>
        Op.createDirectory [e, s] :: fm.map fun (f, (idx, _)) => Op.writeFile [e, s, f] idx := by
    unfold newNestedOps newEntOps newSelOps
    congr 1; funext x; obtain ⟨e, sm⟩ := x
    simp only
    congr 1; funext y; obtain ⟨s, fm⟩ := y
    simp [oldFilesFor, State.empty, wic_none]
  have h2 : newRootOps State.empty st.rootFiles =
      st.rootFiles.map fun (f, (idx, _)) => Op.writeFile [f] idx := by
    unfold newRootOps
    simp [State.empty, wic_some_nil]
  have h3 : oldNestedOps st (State.empty : State α).nestedFiles = [] := rfl
  have h4 : oldRootOps st (State.empty : State α).rootFiles = [] := rfl
  unfold recreateAll diff
  rw [h1, h2, h3, h4]
  simp

def CreateRoot.creates (cr : CreateRoot) : Prop := cr ≠ .never

theorem diffCtx_empty (R : α → Bool) (st : State α) (arts : List (Artifact α)) (hwf : st.WF)
    (hs : st.Sane R) (hv : ∀ p i h, st.file p = some (i, h) → ∃ a, arts[i]? = some a) :
    DiffCtx R State.empty st [] arts :=
  { wfO := wf_empty, wfN := hwf,
    saneO := ⟨fun f v h => by simp [State.empty] at h, fun e sm h => by simp [State.empty] at h⟩,
    saneN := hs, validN := hv,
    faithful := fun p i j h ho _ => by
      rcases p with _ | ⟨a, _ | ⟨b, _ | ⟨c, _ | ⟨d, r⟩⟩⟩⟩ <;>
        simp [State.empty, oldFilesFor] at ho }

/-- **First compile of a session.**  Whatever the artifact directory held (absent, or a directory
with any contents), `recreate_all`'s operations succeed and leave exactly the tree of the state —
provided the source re-creates the directory (`cr ≠ never`; F8 is the case `never`). -/
theorem recreate_correct (R : α → Bool) (cr : CreateRoot) (hcr : cr.creates) (st : State α)
    (arts : List (Artifact α)) (hwf : st.WF) (hs : st.Sane R)
    (hv : ∀ p i h, st.file p = some (i, h) → ∃ a, arts[i]? = some a)
    (fs0 : Fs α) (h0 : RootOk fs0) :
    ∃ fs', run arts fs0 (recreateAll cr st) = .ok fs' ∧ ∀ q, Fs.get fs' q = treeOf st arts q := by
  have c := diffCtx_empty R st arts hwf hs hv
  -- after the delete nothing is left
  obtain ⟨fsA, hA, hAn⟩ : ∃ fsA, applyOp arts fs0 (Op.deleteDirectory []) = .ok fsA ∧
      ∀ q, Fs.get fsA q = none := by
    rcases h0 with h0 | h0
    · exact ⟨Fs.eraseTree fs0 [], by simp [applyOp, deleteDirectory, h0],
        fun q => by rw [get_eraseTree]; simp [isPrefixOf_nil]⟩
    · exact ⟨fs0, by simp [applyOp, deleteDirectory, h0 []], h0⟩
  -- the directory re-created
  have hBt : ∀ q, Fs.get (Fs.set fsA [] .dir) q = treeOf (State.empty : State α) ([] : List (Artifact α)) q := by
    intro q
    rw [get_set, treeOf_empty, hAn q]
    by_cases hq : q = []
    · subst hq; simp
    · have : ¬ ([] = q) := fun hh => hq hh.symm
      simp [hq, this]
  obtain ⟨fs', hr, ht⟩ := diff_correct c (Fs.set fsA [] .dir) hBt
  have hmk : createDirAll fsA [] = .ok (Fs.set fsA [] .dir) := by
    rw [createDirAll_nil, hAn []]
  refine ⟨fs', ?_, ht⟩
  rw [recreateAll_eq]
  simp only [run, hA]
  by_cases hem : cr.emits st = true
  · simp only [hem, if_true, List.singleton_append, run, applyOp, hmk]
    exact hr
  · simp only [hem, Bool.false_eq_true, if_false, List.nil_append]
    -- `ifNoNested` with nested files: the first operation of the diff creates the directory
    have hne : st.nestedFiles ≠ [] := by
      intro hnil
      cases cr with
      | never => exact hcr rfl
      | always => simp [CreateRoot.emits] at hem
      | ifNoNested => simp [CreateRoot.emits, hnil] at hem
    cases hn : st.nestedFiles with
    | nil => exact absurd hn hne
    | cons x n =>
      obtain ⟨e, sm⟩ := x
      have hsm := (hwf.sel e sm (by rw [hn]; simp [lookup_cons])).2
      cases sm with
      | nil => exact absurd rfl hsm
      | cons y sm' =>
        obtain ⟨s, fm⟩ := y
        have hshape : ∃ rest, diff State.empty st = Op.createDirectory [e, s] :: rest := by
          unfold diff newNestedOps newEntOps newSelOps
          rw [hn]
          simp only [List.flatMap_cons, oldFilesFor, State.empty, lookup_nil, Option.bind_none,
            Option.isNone_none, if_true, List.singleton_append, List.cons_append]
          exact ⟨_, rfl⟩
        obtain ⟨rest, hrest⟩ := hshape
        rw [hrest] at hr ⊢
        simp only [run, applyOp] at hr ⊢
        rw [createDirAll_cons_eq, hmk]
        simp only
        have hB0 : createDirAll (Fs.set fsA [] .dir) [] = .ok (Fs.set fsA [] .dir) :=
          createDirAll_nil_of_dir _ (by rw [get_set]; simp)
        rw [createDirAll_cons_eq, hB0] at hr
        exact hr

/-! ### which files `diff` writes -/

theorem mem_of_lookup {κ ν : Type} [DecidableEq κ] (l : AList κ ν) (k : κ) (v : ν)
    (h : AList.lookup l k = some v) : (k, v) ∈ l := by
  induction l with
  | nil => simp at h
  | cons x rest ih =>
    obtain ⟨k0, v0⟩ := x
    rw [lookup_cons] at h
    by_cases h0 : k0 = k
    · simp only [h0, if_true, Option.some.injEq] at h
      subst h0; subst h; exact List.mem_cons_self
    · simp only [h0, if_false] at h
      exact List.mem_cons_of_mem _ (ih h)

theorem lookup_of_mem {κ ν : Type} [DecidableEq κ] (l : AList κ ν) (k : κ) (v : ν)
    (hn : NodupKeys l) (h : (k, v) ∈ l) : AList.lookup l k = some v := by
  induction l with
  | nil => simp at h
  | cons x rest ih =>
    obtain ⟨k0, v0⟩ := x
    obtain ⟨h1, h2⟩ := hn
    rw [lookup_cons]
    rcases List.mem_cons.mp h with heq | hmem
    · simp only [Prod.mk.injEq] at heq
      obtain ⟨hk, hv⟩ := heq
      subst hk; subst hv; simp
    · have := ih h2 hmem
      by_cases h0 : k0 = k
      · subst h0; rw [h1] at this; simp at this
      · simp [h0, this]

/-- the recorded hash of the path differs, or the path is not recorded -/
def changedIn (old : State α) (p : Path α) (h : Bytes) : Prop :=
  ∀ j oh, old.file p = some (j, oh) → oh ≠ h

theorem mem_wic (ofm : Option (Files α)) (dir : Path α) (f : α) (i : Nat) (h : Bytes) (p : Path α) (k : Nat) :
    Op.writeFile p k ∈ writeIfChanged ofm dir (f, (i, h)) ↔
      p = dir ++ [f] ∧ k = i ∧ ∀ j oh, ofm.bind (fun m => AList.lookup m f) = some (j, oh) → oh ≠ h := by
  simp only [writeIfChanged]
  cases hl : ofm.bind (fun m => AList.lookup m f) with
  | none => simp
  | some w =>
    obtain ⟨j, oh⟩ := w
    by_cases hne : oh = h
    · subst hne; simp
    · have : (oh != h) = true := by simpa using hne
      simp [this, hne]

/-- **Minimality of `diff`.**  `WriteFile(p, i)` is among the operations exactly when the new state
records `p` with index `i` and a hash that the old state does not record for `p`. -/
theorem mem_diff_write (old new : State α) (hwf : new.WF) (p : Path α) (k : Nat) :
    Op.writeFile p k ∈ diff old new ↔ ∃ h, new.file p = some (k, h) ∧ changedIn old p h := by
  unfold diff
  simp only [List.mem_append]
  have hno3 : ¬ Op.writeFile p k ∈ oldNestedOps new old.nestedFiles := by
    unfold oldNestedOps oldEntOps oldSelOps
    simp only [List.mem_flatMap, not_exists, not_and]
    intro x _
    split
    · simp
    · simp only [List.mem_flatMap, not_exists, not_and]
      intro y _
      split
      · simp
      · simp only [List.mem_flatMap, not_exists, not_and]
        intro z _
        simp only [delFileIfGone]
        split <;> simp
  have hno4 : ¬ Op.writeFile p k ∈ oldRootOps new old.rootFiles := by
    unfold oldRootOps
    simp only [List.mem_flatMap, not_exists, not_and]
    intro z _
    simp only [delFileIfGone]
    split <;> simp
  constructor
  · intro hmem
    rcases hmem with ((h1 | h2) | h3) | h4
    · -- a nested file of the new state
      unfold newNestedOps newEntOps newSelOps at h1
      simp only [List.mem_flatMap, List.mem_append] at h1
      obtain ⟨⟨e, sm⟩, hem, ⟨s, fm⟩, hsm, hop⟩ := h1
      have hle := lookup_of_mem _ _ _ hwf.ent hem
      have hls := lookup_of_mem _ _ _ (hwf.sel e sm hle).1 hsm
      rcases hop with hc | hw
      · split at hc <;> simp at hc
      · simp only [List.mem_flatMap] at hw
        obtain ⟨⟨f, i, h⟩, hfm, hop⟩ := hw
        have hlf := lookup_of_mem _ _ _ (hwf.fil e sm s fm hle hls) hfm
        rw [mem_wic] at hop
        obtain ⟨hp, hk, hch⟩ := hop
        subst hp; subst hk
        refine ⟨h, by simp [oldFilesFor, hle, hls, hlf], fun j oh ho => hch j oh ?_⟩
        simpa using ho
    · unfold newRootOps at h2
      simp only [List.mem_flatMap] at h2
      obtain ⟨⟨f, i, h⟩, hfm, hop⟩ := h2
      have hlf := lookup_of_mem _ _ _ hwf.root hfm
      rw [mem_wic] at hop
      obtain ⟨hp, hk, hch⟩ := hop
      subst hp; subst hk
      refine ⟨h, by simpa using hlf, fun j oh ho => hch j oh ?_⟩
      simpa using ho
    · exact absurd h3 hno3
    · exact absurd h4 hno4
  · rintro ⟨h, hf, hch⟩
    rcases p with _ | ⟨a, _ | ⟨b, _ | ⟨c, _ | ⟨d, r⟩⟩⟩⟩
    · simp at hf
    · left; left; right
      unfold newRootOps
      simp only [List.mem_flatMap]
      refine ⟨(a, (k, h)), mem_of_lookup _ _ _ (by simpa using hf), ?_⟩
      rw [mem_wic]
      exact ⟨by simp, rfl, fun j oh ho => hch j oh (by simpa using ho)⟩
    · simp at hf
    · left; left; left
      simp only [file_three, oldFilesFor] at hf
      cases hle : AList.lookup new.nestedFiles a with
      | none => rw [hle] at hf; simp at hf
      | some sm =>
        rw [hle] at hf
        simp only [Option.bind_some] at hf
        cases hls : AList.lookup sm b with
        | none => rw [hls] at hf; simp at hf
        | some fm =>
          rw [hls] at hf
          simp only [Option.bind_some] at hf
          unfold newNestedOps newEntOps newSelOps
          simp only [List.mem_flatMap, List.mem_append]
          refine ⟨(a, sm), mem_of_lookup _ _ _ hle, (b, fm), mem_of_lookup _ _ _ hls, Or.inr ?_⟩
          simp only [List.mem_flatMap]
          refine ⟨(c, (k, h)), mem_of_lookup _ _ _ hf, ?_⟩
          rw [mem_wic]
          exact ⟨by simp, rfl, fun j oh ho => hch j oh (by simpa using ho)⟩
    · simp at hf

/-! ### the shape of planned operations: indices are valid, no write to the directory's own path -/

theorem okShape_diff (old new : State α) (hwf : new.WF) : ∀ op ∈ diff old new, op.okShape := by
  intro op hop
  cases op with
  | writeFile p k =>
    obtain ⟨h, hf, _⟩ := (mem_diff_write old new hwf p k).mp hop
    intro hp; subst hp; simp at hf
  | deleteDirectory p => trivial
  | createDirectory p => trivial
  | deleteFile p => trivial

theorem okShape_recreateAll (cr : CreateRoot) (st : State α) (hwf : st.WF) :
    ∀ op ∈ recreateAll cr st, op.okShape := by
  intro op hop
  rw [recreateAll_eq] at hop
  rcases List.mem_cons.mp hop with h | h
  · subst h; trivial
  · rcases List.mem_append.mp h with h | h
    · split at h
      · simp at h; subst h; trivial
      · simp at h
    · exact okShape_diff _ _ hwf op h

/-! ### artifact lists -/

/-- equal MD5 (hash) ⇒ equal content, for the contents that get compared -/
def HashFaithful (hash : Bytes → Bytes) (old new : List (Artifact α)) : Prop :=
  ∀ a ∈ old, ∀ b ∈ new, hash a.content = hash b.content → a.content = b.content

theorem valid_index (hash : Bytes → Bytes) (arts : List (Artifact α)) :
    ∀ p i h, (fromArtifacts hash arts).file p = some (i, h) → ∃ a, arts[i]? = some a := by
  intro p i h hf
  obtain ⟨a, ha, _⟩ := valid_fromArtifacts hash arts p i h hf
  exact ⟨a, ha⟩

theorem diffCtx_fromArtifacts (R : α → Bool) (hash : Bytes → Bytes) (old new : List (Artifact α))
    (hso : NamesSane R old) (hsn : NamesSane R new) (hf : HashFaithful hash old new) :
    DiffCtx R (fromArtifacts hash old) (fromArtifacts hash new) old new :=
  { wfO := wf_fromArtifacts hash old, wfN := wf_fromArtifacts hash new,
    saneO := sane_fromArtifacts hash R old hso, saneN := sane_fromArtifacts hash R new hsn,
    validN := valid_index hash new,
    faithful := by
      intro p i j h ho hn
      obtain ⟨a, ha, hha⟩ := valid_fromArtifacts hash old p i h ho
      obtain ⟨b, hb, hhb⟩ := valid_fromArtifacts hash new p j h hn
      rw [content_of old i a ha, content_of new j b hb]
      exact hf a (List.mem_of_getElem? ha) b (List.mem_of_getElem? hb) (by rw [← hha, ← hhb]) }

/-- first compile, at the level of artifact lists -/
theorem first_correct (R : α → Bool) (cr : CreateRoot) (hcr : cr.creates) (hash : Bytes → Bytes)
    (arts : List (Artifact α)) (hs : NamesSane R arts) (fs0 : Fs α) (h0 : RootOk fs0) :
    ∃ fs', applyAll arts fs0 (recreateAll cr (fromArtifacts hash arts)) 0 none = (fs', .ok) ∧
      ∀ q, Fs.get fs' q = expectedGet arts q := by
  obtain ⟨fs', hr, ht⟩ := recreate_correct R cr hcr (fromArtifacts hash arts) arts
    (wf_fromArtifacts hash arts) (sane_fromArtifacts hash R arts hs) (valid_index hash arts) fs0 h0
  exact ⟨fs', applyAll_of_run _ _ _ _ _ hr, fun q => by rw [ht q, treeOf_fromArtifacts]⟩

/-- later compile, at the level of artifact lists -/
theorem next_correct (R : α → Bool) (hash : Bytes → Bytes) (old new : List (Artifact α))
    (hso : NamesSane R old) (hsn : NamesSane R new) (hf : HashFaithful hash old new)
    (fs : Fs α) (h : ∀ q, Fs.get fs q = expectedGet old q) :
    ∃ fs', applyAll new fs (diff (fromArtifacts hash old) (fromArtifacts hash new)) 0 none = (fs', .ok) ∧
      ∀ q, Fs.get fs' q = expectedGet new q := by
  obtain ⟨fs', hr, ht⟩ := diff_correct (diffCtx_fromArtifacts R hash old new hso hsn hf) fs
    (fun q => by rw [h q, treeOf_fromArtifacts])
  exact ⟨fs', applyAll_of_run _ _ _ _ _ hr, fun q => by rw [ht q, treeOf_fromArtifacts]⟩

/-- minimality, at the level of artifact lists: a path is written iff the new artifacts hold a file
there whose hash differs from the hash of the old artifacts' file there (or there is none) -/
theorem minimal_artifacts (hash : Bytes → Bytes) (old new : List (Artifact α)) (p : Path α) :
    (∃ k, Op.writeFile p k ∈ diff (fromArtifacts hash old) (fromArtifacts hash new)) ↔
      ∃ c, expectedGet new p = some (.file c) ∧
        ∀ c', expectedGet old p = some (.file c') → hash c' ≠ hash c := by
  have key : ∀ (arts : List (Artifact α)) i h, (fromArtifacts hash arts).file p = some (i, h) →
      ∃ a, arts[i]? = some a ∧ h = hash a.content ∧ expectedGet arts p = some (.file a.content) := by
    intro arts i h hf
    obtain ⟨a, ha, hh⟩ := valid_fromArtifacts hash arts p i h hf
    refine ⟨a, ha, hh, ?_⟩
    rw [← treeOf_fromArtifacts hash]
    simp [treeOf, hf, content_of arts i a ha]
  have nofile : ∀ (arts : List (Artifact α)) c, (fromArtifacts hash arts).file p = none →
      expectedGet arts p ≠ some (.file c) := by
    intro arts c hf
    rw [← treeOf_fromArtifacts hash]
    simp only [treeOf, hf]
    cases State.isDir _ p <;> simp
  constructor
  · rintro ⟨k, hk⟩
    obtain ⟨h, hf, hch⟩ := (mem_diff_write _ _ (wf_fromArtifacts hash new) p k).mp hk
    obtain ⟨a, _, hh, hexp⟩ := key new k h hf
    refine ⟨a.content, hexp, fun c' hc' => ?_⟩
    cases ho : (fromArtifacts hash old).file p with
    | none => exact absurd hc' (nofile old c' ho)
    | some w =>
      obtain ⟨j, oh⟩ := w
      obtain ⟨b, _, hhb, hexpb⟩ := key old j oh ho
      rw [hexpb] at hc'
      simp only [Option.some.injEq, Entry.file.injEq] at hc'
      rw [← hc', ← hhb, ← hh]
      exact hch j oh ho
  · rintro ⟨c, hexp, hch⟩
    cases hn : (fromArtifacts hash new).file p with
    | none => exact absurd hexp (nofile new c hn)
    | some w =>
      obtain ⟨k, h⟩ := w
      obtain ⟨a, _, hh, hexpa⟩ := key new k h hn
      rw [hexpa] at hexp
      simp only [Option.some.injEq, Entry.file.injEq] at hexp
      refine ⟨k, (mem_diff_write _ _ (wf_fromArtifacts hash new) p k).mpr ⟨h, hn, ?_⟩⟩
      intro j oh ho
      obtain ⟨b, _, hhb, hexpb⟩ := key old j oh ho
      have := hch b.content hexpb
      rw [hhb, hh, hexp]
      exact this

end IsoVerif.Fs
