/-
Lemmas for C11: the two printers write down their abstract trees, and the trees coincide.
Structural inductions over the nested inductive `Sel` (mutual with its entry lists).
-/
import IsoVerif.Model.Core.NormAst

namespace IsoVerif.Core

/-! ### operation text = rendering of `queryTree` -/

theorem renderTrees_append (fmt : Format) (level : Nat) (a b : List Tree) :
    renderTrees fmt level (a ++ b) = renderTrees fmt level a ++ renderTrees fmt level b := by
  induction a with
  | nil => simp [renderTrees]
  | cons t rest ih => simp [renderTrees, ih, List.append_assoc]

theorem renderTrees_placeholder (fmt : Format) (level : Nat) (isEmpty : Bool) (kids : List Tree) :
    renderTrees fmt level (kidsOrPlaceholder isEmpty kids)
      = orPlaceholder fmt level isEmpty (renderTrees fmt level kids) := by
  cases isEmpty <;>
    simp [kidsOrPlaceholder, orPlaceholder, typenamePlaceholder, typenameNode, renderTrees, renderTree,
      aliasPrefix, gqlArgs]

mutual
theorem qSel_render (fmt : Format) (level : Nat) (s : Sel) :
    qSel fmt level s = renderTrees fmt level (qTreeSel s) := by
  cases s with
  | scalar f name args => simp [qSel, qTreeSel, renderTrees, renderTree]
  | linked f name args conc map =>
    simp [qSel, qTreeSel, renderTrees, renderTree, renderTrees_placeholder, qItems_render fmt (level + 1) map]
  | clientObj f name args conc map => simp [qSel, qTreeSel, renderTrees]
  | frag ty map =>
    simp [qSel, qTreeSel, renderTrees, renderTree, renderTrees_placeholder, qItems_render fmt (level + 1) map]
theorem qItems_render (fmt : Format) (level : Nat) (m : SelMap) :
    qItems fmt level m = renderTrees fmt level (qTreeItems m) := by
  cases m with
  | nil => simp [qItems, qTreeItems, renderTrees]
  | cons e rest =>
    obtain ⟨k, s⟩ := e
    simp [qItems, qTreeItems, renderTrees_append, qSel_render fmt level s, qItems_render fmt level rest]
end

theorem writeSelections_render (fmt : Format) (level : Nat) (m : SelMap) :
    writeSelections fmt level m = renderTrees fmt level (queryTree m) := by
  simp [writeSelections, queryTree, renderTrees_placeholder, qItems_render]

theorem printQueryCore_render (fmt : Format) (kind name vt : Str) (m : SelMap) :
    printQueryCore fmt kind name vt m
      = queryHeader fmt kind name vt ++ renderTrees fmt 1 (queryTree m) ++ [125] := by
  simp [printQueryCore, writeSelections_render]

/-! ### normalization AST text = rendering of `normTreeD` -/

theorem renderTsNodes_append (level : Nat) (a b : List NTree) :
    renderTsNodes level (a ++ b) = renderTsNodes level a ++ renderTsNodes level b := by
  induction a with
  | nil => simp [renderTsNodes]
  | cons t rest ih => simp [renderTsNodes, ih, List.append_assoc]

theorem renderTsNodes_placeholder (level : Nat) (isEmpty : Bool) (kids : List NTree) :
    nBracket level (renderTsNodes (level + 1) (nKidsOrPlaceholder isEmpty kids))
      = nWrap level isEmpty (renderTsNodes (level + 1) kids) := by
  cases isEmpty
  · simp only [nKidsOrPlaceholder, nWrap, Bool.false_eq_true, if_false]
  · simp only [nKidsOrPlaceholder, nWrap, if_true, renderTsNodes, renderTsNode, nTypename, nTypenameNode,
      List.append_nil]

mutual
theorem nSel_render (level : Nat) (s : Sel) :
    nSel level s = renderTsNodes level (nTreeSel s) := by
  cases s with
  | scalar f name args => simp only [nSel, nTreeSel, renderTsNodes, renderTsNode, List.append_nil]
  | linked f name args conc map =>
    simp only [nSel, nTreeSel, renderTsNodes, renderTsNode, List.append_nil,
      renderTsNodes_placeholder, nItems_render (level + 2) map]
  | clientObj f name args conc map => simp only [nSel, nTreeSel, renderTsNodes]
  | frag ty map =>
    simp only [nSel, nTreeSel, renderTsNodes, renderTsNode, List.append_nil,
      renderTsNodes_placeholder, nItems_render (level + 2) map]
theorem nItems_render (level : Nat) (m : SelMap) :
    nItems level m = renderTsNodes level (nTreeItems m) := by
  cases m with
  | nil => simp only [nItems, nTreeItems, renderTsNodes]
  | cons e rest =>
    obtain ⟨k, s⟩ := e
    simp only [nItems, nTreeItems, renderTsNodes_append, nSel_render level s, nItems_render level rest]
end

theorem printNormAstCore_render (level : Nat) (m : SelMap) :
    printNormAstCore level m = renderTs level (normTreeD m) := by
  simp only [printNormAstCore, renderTs, normTreeD, renderTsNodes_placeholder, nItems_render]

/-! ### the trees coincide -/

theorem eraseList_append (a b : List NTree) :
    NTree.eraseList (a ++ b) = NTree.eraseList a ++ NTree.eraseList b := by
  induction a with
  | nil => simp [NTree.eraseList]
  | cons t rest ih => simp [NTree.eraseList, ih]

theorem eraseList_placeholder (isEmpty : Bool) (kids : List NTree) :
    NTree.eraseList (nKidsOrPlaceholder isEmpty kids) = kidsOrPlaceholder isEmpty (NTree.eraseList kids) := by
  cases isEmpty <;>
    simp [nKidsOrPlaceholder, kidsOrPlaceholder, NTree.eraseList, NTree.erase, nTypenameNode, typenameNode]

mutual
theorem erase_nTreeSel (s : Sel) : NTree.eraseList (nTreeSel s) = qTreeSel s := by
  cases s with
  | scalar f name args => simp [nTreeSel, qTreeSel, NTree.eraseList, NTree.erase]
  | linked f name args conc map =>
    simp [nTreeSel, qTreeSel, NTree.eraseList, NTree.erase, eraseList_placeholder, erase_nTreeItems map]
  | clientObj f name args conc map => simp [nTreeSel, qTreeSel, NTree.eraseList]
  | frag ty map =>
    simp [nTreeSel, qTreeSel, NTree.eraseList, NTree.erase, eraseList_placeholder, erase_nTreeItems map]
theorem erase_nTreeItems (m : SelMap) : NTree.eraseList (nTreeItems m) = qTreeItems m := by
  cases m with
  | nil => simp [nTreeItems, qTreeItems, NTree.eraseList]
  | cons e rest =>
    obtain ⟨k, s⟩ := e
    simp [nTreeItems, qTreeItems, eraseList_append, erase_nTreeSel s, erase_nTreeItems rest]
end

theorem normTree_eq_queryTree (m : SelMap) : normTree m = queryTree m := by
  simp [normTree, normTreeD, queryTree, eraseList_placeholder, erase_nTreeItems]

end IsoVerif.Core
